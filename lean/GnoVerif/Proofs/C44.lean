import GnoVerif.Model.C44
/-! Helper lemmas for Props/C44.lean (core Lean only). -/
namespace GnoVerif.C44

instance instDecEqR {α : Type} [DecidableEq α] : DecidableEq (R α) := fun a b =>
  match a, b with
  | .ok x, .ok y => if h : x = y then isTrue (by rw [h]) else isFalse (by intro e; cases e; exact h rfl)
  | .error x, .error y => if h : x = y then isTrue (by rw [h]) else isFalse (by intro e; cases e; exact h rfl)
  | .ok _, .error _ => isFalse (by intro e; cases e)
  | .error _, .ok _ => isFalse (by intro e; cases e)

/-! ## bit array: the checked versions never take the panic branch -/

theorem CBA.not_outOfRange {b : CBA} {i : Int} (h : b.outOfRange i = false) :
    0 ≤ i ∧ i < b.size ∧ i.toNat / 8 < b.elems.length := by
  simp only [CBA.outOfRange, Bool.or_eq_false_iff, decide_eq_false_iff_not] at h
  omega

theorem getIndexE_eq (ba : BA) (i : Int) : ba.getIndexE i = .ok (ba.getIndex i) := by
  cases ba with
  | none => rfl
  | some b =>
    simp only [BA.getIndexE, BA.getIndex]
    cases h : b.outOfRange i with
    | true => simp
    | false =>
      have hq := (CBA.not_outOfRange h).2.2
      simp [List.getElem?_eq_getElem hq, List.getD_eq_getElem?_getD]

theorem setIndexE_ok (ba : BA) (i : Int) (v : Bool) : ∃ r, ba.setIndexE i v = .ok r := by
  cases ba with
  | none => exact ⟨_, rfl⟩
  | some b =>
    simp only [BA.setIndexE]
    cases h : b.outOfRange i with
    | true => exact ⟨_, rfl⟩
    | false =>
      have hq := (CBA.not_outOfRange h).2.2
      simp [List.getElem?_eq_getElem hq]

theorem ntbLoopE_eq (ba : BA) (rem i acc : Nat) :
    ba.ntbLoopE rem i acc = .ok (acc + (List.range' i rem).countP (fun j : Nat => ba.getIndex (j : Int))) := by
  induction rem generalizing i acc with
  | zero => simp [BA.ntbLoopE]
  | succ rem ih =>
    simp only [BA.ntbLoopE, getIndexE_eq, List.range'_succ, List.countP_cons]
    show ba.ntbLoopE rem (i + 1) _ = _
    rw [ih]
    cases ba.getIndex (i : Int) <;> simp <;> omega

theorem numTrueBitsBeforeE_eq (ba : BA) (idx : Int) :
    ba.numTrueBitsBeforeE idx = .ok (ba.numTrueBitsBefore idx) := by
  simp [BA.numTrueBitsBeforeE, BA.numTrueBitsBefore, ntbLoopE_eq, List.range_eq_range']


/-! ## the verification loop -/

/-- declarative reading of the loop: walk the marked positions, consuming one signature each. -/
def pairsOK {σ : Type} (keys : List (Key σ)) (sigs : List σ) : List Nat → Nat → Bool
  | [], _ => true
  | p :: ps, si =>
    (match sigs[si]? with
     | some s => keyAccepts keys p s
     | none => false) && pairsOK keys sigs ps (si + 1)

/-- marked positions in `[i, i+rem)`. -/
def markedFrom (ba : BA) (i rem : Nat) : List Nat :=
  (List.range' i rem).filter (fun j : Nat => ba.getIndex (j : Int))

theorem marked_eq_markedFrom (ba : BA) (n : Nat) : marked ba n = markedFrom ba 0 n := by
  simp [marked, markedFrom, List.range_eq_range']

theorem verifyLoopE_true_iff {σ : Type} (keys : List (Key σ)) (ba : BA) (sigs : List σ)
    (rem i si : Nat) (hk : i + rem ≤ keys.length) :
    verifyLoopE keys ba sigs rem i si = .ok true ↔ pairsOK keys sigs (markedFrom ba i rem) si = true := by
  induction rem generalizing i si with
  | zero => simp [verifyLoopE, markedFrom, pairsOK]
  | succ rem ih =>
    have hi : i < keys.length := by omega
    simp only [verifyLoopE, getIndexE_eq, markedFrom, List.range'_succ, List.filter_cons]
    show (if ba.getIndex (i : Int) = true then _ else _) = _ ↔ _
    cases hb : ba.getIndex (i : Int) with
    | false =>
      simp only [Bool.false_eq_true, if_false]
      exact ih (i + 1) si (by omega)
    | true =>
      simp only [if_true, pairsOK]
      by_cases hs : si ≥ sigs.length
      · simp [hs, List.getElem?_eq_none hs]
      · have hs' : si < sigs.length := by omega
        simp only [hs, if_false, List.getElem?_eq_getElem hs', List.getElem?_eq_getElem hi, keyAccepts]
        cases hkey : keys[i] with
        | none => simp
        | some vf =>
          simp only []
          cases hv : vf sigs[si] with
          | false => simp
          | true =>
            simp only [Bool.not_true, Bool.false_eq_true, if_false, Bool.true_and]
            exact ih (i + 1) (si + 1) (by omega)

/-- the loop always ends in a value (no panic branch is reachable). -/
theorem verifyLoopE_ok {σ : Type} (keys : List (Key σ)) (ba : BA) (sigs : List σ)
    (rem i si : Nat) (hk : i + rem ≤ keys.length) :
    ∃ b, verifyLoopE keys ba sigs rem i si = .ok b := by
  induction rem generalizing i si with
  | zero => exact ⟨true, rfl⟩
  | succ rem ih =>
    have hi : i < keys.length := by omega
    simp only [verifyLoopE, getIndexE_eq]
    show ∃ b, (if ba.getIndex (i : Int) = true then _ else _) = _
    cases hb : ba.getIndex (i : Int) with
    | false =>
      simp only [Bool.false_eq_true, if_false]
      exact ih (i + 1) si (by omega)
    | true =>
      simp only [if_true]
      by_cases hs : si ≥ sigs.length
      · simp [hs]
      · have hs' : si < sigs.length := by omega
        simp only [hs, if_false, List.getElem?_eq_getElem hs', List.getElem?_eq_getElem hi]
        cases hkey : keys[i] with
        | none => exact ⟨false, rfl⟩
        | some vf =>
          simp only []
          cases hv : vf sigs[si] with
          | false => exact ⟨false, by simp⟩
          | true =>
            simp only [Bool.not_true, Bool.false_eq_true, if_false]
            exact ih (i + 1) (si + 1) (by omega)

theorem pairsOK_iff {σ : Type} (keys : List (Key σ)) (sigs : List σ) (l : List Nat) (si : Nat) :
    pairsOK keys sigs l si = true ↔
      ∀ j (h : j < l.length), ∃ s, sigs[si + j]? = some s ∧ keyAccepts keys l[j] s = true := by
  induction l generalizing si with
  | nil => simp [pairsOK]
  | cons p ps ih =>
    simp only [pairsOK, Bool.and_eq_true, ih, List.length_cons]
    constructor
    · rintro ⟨h0, hrest⟩ j hj
      cases j with
      | zero =>
        cases hs : sigs[si]? with
        | none => simp [hs] at h0
        | some s => exact ⟨s, by simp [hs], by simpa [hs] using h0⟩
      | succ j =>
        obtain ⟨s, h1, h2⟩ := hrest j (by omega)
        exact ⟨s, by rw [← h1]; congr 1; omega, by simpa using h2⟩
    · intro h
      constructor
      · obtain ⟨s, h1, h2⟩ := h 0 (by omega)
        simp only [Nat.add_zero] at h1
        simpa [h1] using h2
      · intro j hj
        obtain ⟨s, h1, h2⟩ := h (j + 1) (by omega)
        exact ⟨s, by rw [← h1]; congr 1; omega, by simpa using h2⟩


/-! ## VerifyBytes -/

theorem numTrueBitsBefore_eq_marked (ba : BA) (n : Nat) :
    ba.numTrueBitsBefore (n : Int) = (marked ba n).length := by
  simp [BA.numTrueBitsBefore, marked, List.countP_eq_length_filter]

theorem allMarkedValid_iff_pairsOK {σ : Type} (keys : List (Key σ)) (m : MSig σ) (n : Nat) :
    AllMarkedValid keys m n ↔ pairsOK keys m.sigs (marked m.ba n) 0 = true := by
  simp [AllMarkedValid, pairsOK_iff]

theorem verifyBytesE_true_iff {σ : Type} (k : UInt64) (keys : List (Key σ)) (dec : Option (MSig σ)) :
    verifyBytesE k keys dec = .ok true ↔ Accept k keys dec := by
  cases dec with
  | none => simp [verifyBytesE, Accept]
  | some m =>
    simp only [verifyBytesE, Accept, Option.some.injEq, exists_eq_left']
    by_cases hK : k.toNat = 0 ∨ k.toNat > keys.length
    · simp only [hK, if_true]
      constructor
      · intro h; cases h
      · rintro ⟨a, b, _⟩; omega
    · simp only [hK, if_false]
      have hK1 : 1 ≤ k.toNat := by omega
      have hK2 : k.toNat ≤ keys.length := by omega
      simp only [hK1, hK2, true_and]
      by_cases hsz : (keys.length : Int) = m.ba.size
      · rw [← hsz]
        simp only [ne_eq, not_true_eq_false, if_false, Int.toNat_natCast, numTrueBitsBeforeE_eq,
          numTrueBitsBefore_eq_marked, allMarkedValid_iff_pairsOK, marked_eq_markedFrom, true_and]
        by_cases h1 : (m.sigs.length : Int) < kInt k ∨ (m.sigs.length : Int) > (keys.length : Int)
        · simp only [h1, if_true]
          constructor
          · intro h; cases h
          · rintro ⟨a, b, _⟩; omega
        · simp only [h1, if_false]
          show (if ((markedFrom m.ba 0 keys.length).length : Int) < kInt k then _ else _) = _ ↔ _
          by_cases h2 : ((markedFrom m.ba 0 keys.length).length : Int) < kInt k
          · simp only [h2, if_true]
            constructor
            · intro h; cases h
            · rintro ⟨_, _, c, _⟩; omega
          · simp only [h2, if_false]
            rw [verifyLoopE_true_iff keys m.ba m.sigs keys.length 0 0 (by omega)]
            constructor
            · intro h; exact ⟨by omega, by omega, by omega, h⟩
            · rintro ⟨_, _, _, h⟩; exact h
      · have : ¬ m.ba.size = (keys.length : Int) := fun h => hsz h.symm
        simp [hsz, this]

/-! ## byte-level facts behind GetIndex / SetIndex -/

theorem nat_and_two_pow (x m : Nat) : x &&& 2 ^ m = if x.testBit m then 2 ^ m else 0 := by
  apply Nat.eq_of_testBit_eq; intro j
  rw [Nat.testBit_and, Nat.testBit_two_pow]
  by_cases h : m = j
  · subst h; cases hx : x.testBit m <;> simp [Nat.testBit_two_pow]
  · cases hx : x.testBit m <;> simp [h, Nat.testBit_two_pow]

theorem mask_toNat (i : Nat) : (mask i).toNat = 2 ^ (7 - i % 8) := by
  have hr : 7 - i % 8 < 8 := by omega
  have h2 : 2 ^ (7 - i % 8) < 2 ^ 8 := Nat.pow_lt_pow_right (by omega) hr
  simp only [mask, UInt8.toNat_shiftLeft, UInt8.toNat_ofNat', UInt8.toNat_one, Nat.one_shiftLeft]
  have : (7 - i % 8) % 2 ^ 8 % 8 = 7 - i % 8 := by omega
  rw [this]; exact Nat.mod_eq_of_lt h2

theorem testBit_eq (e : UInt8) (i : Nat) : testBit e i = e.toNat.testBit (7 - i % 8) := by
  simp only [testBit, gt_iff_lt, UInt8.lt_iff_toNat_lt, UInt8.toNat_and, mask_toNat, nat_and_two_pow,
    UInt8.toNat_zero]
  cases h : e.toNat.testBit (7 - i % 8) <;> simp [Nat.two_pow_pos]

theorem testBit_or_mask (e : UInt8) (i j : Nat) :
    testBit (e ||| mask i) j = (decide (j % 8 = i % 8) || testBit e j) := by
  simp only [testBit_eq, UInt8.toNat_or, mask_toNat, Nat.testBit_or, Nat.testBit_two_pow]
  by_cases h : j % 8 = i % 8
  · simp [h]
  · have : ¬ (7 - i % 8 = 7 - j % 8) := by omega
    simp [h, this]


/-! ## SetIndex(i, true) on an in-range index sets exactly that bit -/

theorem CBA.size_congr {b b' : CBA} (he : b'.extra = b.extra) (hl : b'.elems.length = b.elems.length) :
    b'.size = b.size := by
  simp [CBA.size, he, hl]

theorem CBA.outOfRange_congr {b b' : CBA} (he : b'.extra = b.extra) (hl : b'.elems.length = b.elems.length)
    (j : Int) : b'.outOfRange j = b.outOfRange j := by
  simp [CBA.outOfRange, CBA.size_congr he hl, hl]

theorem setIndexE_true_spec (b : CBA) (i : Int) (h : b.outOfRange i = false) :
    ∃ b' : CBA, BA.setIndexE (some b) i true = .ok (some b', true) ∧ b'.extra = b.extra ∧
      b'.elems.length = b.elems.length ∧
      ∀ j : Int, BA.getIndex (some b') j = (decide (j = i) || BA.getIndex (some b) j) := by
  obtain ⟨h0, h1, hq⟩ := CBA.not_outOfRange h
  refine ⟨{ b with elems := b.elems.set (i.toNat / 8) (b.elems[i.toNat / 8] ||| mask i.toNat) }, ?_, rfl, by simp, ?_⟩
  · simp [BA.setIndexE, h, List.getElem?_eq_getElem hq]
  · intro j
    have hc : ∀ j, CBA.outOfRange { b with elems := b.elems.set (i.toNat / 8) (b.elems[i.toNat / 8] ||| mask i.toNat) } j
        = b.outOfRange j := fun j => CBA.outOfRange_congr (b := b) (b' := { b with elems := b.elems.set (i.toNat / 8) (b.elems[i.toNat / 8] ||| mask i.toNat) }) rfl (by simp) j
    simp only [BA.getIndex, hc]
    cases hj : b.outOfRange j with
    | true =>
      have : j ≠ i := by intro e; subst e; simp [h] at hj
      simp [this]
    | false =>
      obtain ⟨j0, j1, jq⟩ := CBA.not_outOfRange hj
      simp only [Bool.false_eq_true, if_false]
      by_cases hqq : j.toNat / 8 = i.toNat / 8
      · rw [hqq]
        simp only [List.getD_eq_getElem?_getD, List.getElem?_set_self hq, Option.getD_some,
          List.getElem?_eq_getElem hq, testBit_or_mask]
        congr 1
        apply decide_eq_decide.mpr
        constructor
        · intro hm; omega
        · intro e; subst e; rfl
      · have hne : j ≠ i := by intro e; subst e; exact hqq rfl
        have : i.toNat / 8 ≠ j.toNat / 8 := fun e => hqq e.symm
        simp [List.getD_eq_getElem?_getD, List.getElem?_set_ne this, hne]

/-! ## well-formed shapes -/

theorem ofNat_mod8_eq_zero (n : Nat) : UInt8.ofNat (n % 8) = 0 ↔ n % 8 = 0 := by
  constructor
  · intro h
    have := congrArg UInt8.toNat h
    simp only [UInt8.toNat_ofNat', UInt8.toNat_zero] at this
    omega
  · intro h; simp [h]

theorem WellFormed.size {ba : BA} {n : Nat} (h : WellFormed ba n) : ba.size = (n : Int) := by
  cases ba with
  | none => simp only [WellFormed] at h; simp [BA.size, h]
  | some b =>
    obtain ⟨hn, he, hl⟩ := h
    simp only [BA.size, CBA.size, he, ofNat_mod8_eq_zero, hl]
    have : (UInt8.ofNat (n % 8)).toNat = n % 8 := by simp only [UInt8.toNat_ofNat']; omega
    rw [this]
    split <;> omega

theorem WellFormed.inRange {b : CBA} {n : Nat} (h : WellFormed (some b) n) {i : Nat} (hi : i < n) :
    b.outOfRange (i : Int) = false := by
  have hs := h.size
  obtain ⟨hn, he, hl⟩ := h
  simp only [BA.size] at hs
  simp only [CBA.outOfRange, Bool.or_eq_false_iff, decide_eq_false_iff_not, hs, hl, Int.toNat_natCast]
  omega

/-- on a well-formed array `GetIndex(p)`, `p < n`, is the stored bit — nothing is cut off. -/
theorem WellFormed.getIndex_eq {b : CBA} {n : Nat} (h : WellFormed (some b) n) {p : Nat} (hp : p < n) :
    BA.getIndex (some b) (p : Int) = testBit (b.elems.getD (p / 8) 0) p := by
  simp [BA.getIndex, h.inRange hp]

theorem WellFormed.getIndex_ge {ba : BA} {n : Nat} (h : WellFormed ba n) {p : Int} (hp : (n : Int) ≤ p) :
    ba.getIndex p = false := by
  have hs := h.size
  cases ba with
  | none => rfl
  | some b =>
    simp only [BA.size] at hs
    simp only [BA.getIndex, CBA.outOfRange, hs]
    have : decide (p ≥ (n : Int)) = true := by simpa using hp
    simp [this]


/-! ## the builder: NewMultisig / AddSignature -/

theorem filterMap_congr' {α β : Type} {f g : α → Option β} {l : List α} (h : ∀ x ∈ l, f x = g x) :
    l.filterMap f = l.filterMap g := by
  induction l with
  | nil => rfl
  | cons a l ih =>
    simp only [List.filterMap_cons, h a (by simp)]
    rw [ih (fun x hx => h x (by simp [hx]))]

theorem insertIdx_append_length {α : Type} (A B : List α) (x : α) :
    (A ++ B).insertIdx A.length x = A ++ x :: B := by
  induction A with
  | nil => simp [List.insertIdx_zero]
  | cons a A ih => simp [List.insertIdx_succ_cons, ih]

theorem testBit_zero_byte (p : Nat) : testBit 0 p = false := by
  simp [testBit_eq]

theorem represents_new {σ : Type} (n : Nat) :
    Represents n (newMultisig (σ := σ) (n : Int)) (fun _ => none) := by
  by_cases h0 : n = 0
  · subst h0
    exact ⟨by simp [newMultisig, newCompactBitArray, WellFormed], by intro p hp; omega, by simp [newMultisig]⟩
  · have hn : ¬ ((n : Int) ≤ 0) := by omega
    refine ⟨?_, ?_, by simp [newMultisig]⟩
    · simp only [newMultisig, newCompactBitArray, hn, if_false, WellFormed, Int.toNat_natCast,
        List.length_replicate, and_self, and_true]
      omega
    · intro p hp
      simp only [newMultisig, newCompactBitArray, hn, if_false, Option.isSome_none, BA.getIndex,
        Int.toNat_natCast]
      split
      · rfl
      · simp only [List.getD_eq_getElem?_getD, List.getElem?_replicate]
        split <;> simp [testBit_zero_byte]

theorem range_split {n i : Nat} (hi : i < n) :
    List.range n = List.range i ++ i :: List.range' (i + 1) (n - i - 1) := by
  have h1 : List.range n = List.range' 0 i ++ List.range' (0 + 1 * i) (n - i) := by
    rw [List.range'_append, List.range_eq_range']; congr 1; omega
  have h2 : List.range' (0 + 1 * i) (n - i) = i :: List.range' (i + 1) (n - i - 1) := by
    have : n - i = (n - i - 1) + 1 := by omega
    rw [this, List.range'_succ]; simp
  rw [h1, h2, List.range_eq_range']

theorem ntb_eq_filterMap_length {σ : Type} {n : Nat} {ba : BA} {f : Nat → Option σ}
    (hf : ∀ p : Nat, p < n → ba.getIndex (p : Int) = (f p).isSome) {i : Nat} (hi : i ≤ n) :
    ba.numTrueBitsBefore (i : Int) = ((List.range i).filterMap f).length := by
  simp only [BA.numTrueBitsBefore, Int.toNat_natCast, List.length_filterMap_eq_countP]
  apply List.countP_congr
  intro p hp
  have : p < n := by have := List.mem_range.mp hp; omega
  simp [hf p this]

theorem addSignatureE_spec {σ : Type} {n : Nat} {m : MSig σ} {f : Nat → Option σ}
    (h : Represents n m f) (s : σ) {i : Nat} (hi : i < n) :
    ∃ m', addSignatureE m s (i : Int) = .ok m' ∧
      Represents n m' (fun p => if p = i then some s else f p) := by
  obtain ⟨hw, hf, hs⟩ := h
  have hA : ((List.range i).filterMap fun p => if p = i then some s else f p) = (List.range i).filterMap f :=
    filterMap_congr' (fun p hp => by have := List.mem_range.mp hp; simp; omega)
  have hB : ((List.range' (i + 1) (n - i - 1)).filterMap fun p => if p = i then some s else f p)
      = (List.range' (i + 1) (n - i - 1)).filterMap f :=
    filterMap_congr' (fun p hp => by have := List.mem_range'_1.mp hp; simp; omega)
  have hnt := ntb_eq_filterMap_length hf (Nat.le_of_lt hi)
  simp only [addSignatureE, numTrueBitsBeforeE_eq, getIndexE_eq, hnt, bind, Except.bind]
  rw [hs, range_split hi]
  simp only [List.filterMap_append, List.filterMap_cons, hA, hB, if_true]
  cases hfi : f i with
  | some old =>
    have hg : m.ba.getIndex (i : Int) = true := by rw [hf i hi, hfi]; rfl
    simp only [hg, if_true, List.length_append, List.length_cons]
    refine ⟨{ ba := m.ba, sigs := (List.range i).filterMap f ++ s :: (List.range' (i + 1) (n - i - 1)).filterMap f }, ?_, hw, ?_, ?_⟩
    · rw [if_pos (by omega)]
      simp
    · intro p hp
      by_cases hpi : p = i
      · subst hpi; simp [hg]
      · simp [hpi, hf p hp]
    · show (List.range i).filterMap f ++ s :: (List.range' (i + 1) (n - i - 1)).filterMap f = _
      rw [range_split hi]
      simp only [List.filterMap_append, List.filterMap_cons, hA, hB, if_true]
  | none =>
    have hg : m.ba.getIndex (i : Int) = false := by rw [hf i hi, hfi]; rfl
    simp only [hg, Bool.false_eq_true, if_false]
    cases hba : m.ba with
    | none =>
      rw [hba] at hw
      simp only [WellFormed] at hw
      omega
    | some b =>
      rw [hba] at hw hf
      obtain ⟨b', hset, he, hl, hget⟩ := setIndexE_true_spec b (i : Int) (hw.inRange hi)
      simp only [hset, List.length_append]
      have hrep : Represents n { ba := some b', sigs := (List.range i).filterMap f ++ s :: (List.range' (i + 1) (n - i - 1)).filterMap f }
          (fun p => if p = i then some s else f p) := by
        refine ⟨?_, ?_, ?_⟩
        · obtain ⟨a1, a2, a3⟩ := hw
          exact ⟨a1, by rw [he, a2], by rw [hl, a3]⟩
        · intro p hp
          rw [hget]
          by_cases hpi : p = i
          · subst hpi; simp
          · have : ¬ ((p : Int) = (i : Int)) := by omega
            simp [hpi, this, hf p hp]
        · rw [range_split hi]
          simp only [List.filterMap_append, List.filterMap_cons, hA, hB, if_true]
      by_cases hlen : ((List.range i).filterMap f).length
          = ((List.range i).filterMap f).length + ((List.range' (i + 1) (n - i - 1)).filterMap f).length
      · have hB0 : (List.range' (i + 1) (n - i - 1)).filterMap f = [] := by
          apply List.eq_nil_of_length_eq_zero; omega
        rw [if_pos hlen]
        refine ⟨_, rfl, ?_⟩
        simpa [hB0] using hrep
      · rw [if_neg hlen, if_pos (by omega)]
        refine ⟨_, rfl, ?_⟩
        simpa [insertIdx_append_length] using hrep


theorem addAllE_spec {σ : Type} {n : Nat} (adds : List (Nat × σ)) {m : MSig σ} {f : Nat → Option σ}
    (h : Represents n m f) (hin : ∀ a ∈ adds, a.1 < n) :
    ∃ m', addAllE m adds = .ok m' ∧ Represents n m' (assignAll f adds) := by
  induction adds generalizing m f with
  | nil => exact ⟨m, rfl, h⟩
  | cons a rest ih =>
    obtain ⟨i, s⟩ := a
    obtain ⟨m1, h1, r1⟩ := addSignatureE_spec h s (hin (i, s) (by simp))
    obtain ⟨m2, h2, r2⟩ := ih r1 (fun a ha => hin a (by simp [ha]))
    exact ⟨m2, by simp [addAllE, h1, h2, bind, Except.bind], r2⟩

theorem getElem?_filterMap_eq {α β : Type} (f : α → Option β) (l : List α) (j : Nat) :
    (l.filterMap f)[j]? = ((l.filter fun a => (f a).isSome)[j]?).bind f := by
  induction l generalizing j with
  | nil => simp
  | cons a l ih =>
    cases hfa : f a with
    | none => simp [List.filterMap_cons, List.filter_cons, hfa, ih]
    | some b =>
      simp only [List.filterMap_cons, hfa, List.filter_cons, Option.isSome_some, if_true]
      cases j with
      | zero => simp [hfa]
      | succ j => simp [ih]

theorem kInt_small {k : UInt64} (hk : k.toNat < 2 ^ 63) : kInt k = (k.toNat : Int) := by
  simp [kInt, hk]

/-- after the `K ≤ len(PubKeys)` check `int(pk.K)` is `K` (a Go slice length is an `int`). -/
theorem kInt_of_le {k : UInt64} {n : Nat} (hn : n < 2 ^ 63) (hk : k.toNat ≤ n) : kInt k = (k.toNat : Int) :=
  kInt_small (by omega)

theorem marked_of_represents {σ : Type} {n : Nat} {m : MSig σ} {f : Nat → Option σ} (h : Represents n m f) :
    marked m.ba n = (List.range n).filter fun p => (f p).isSome := by
  simp only [marked]
  apply List.filter_congr
  intro p hp
  exact h.2.1 p (List.mem_range.mp hp)

theorem sigs_length_of_represents {σ : Type} {n : Nat} {m : MSig σ} {f : Nat → Option σ} (h : Represents n m f) :
    m.sigs.length = (marked m.ba n).length := by
  rw [marked_of_represents h, h.2.2, List.length_filterMap_eq_countP, List.countP_eq_length_filter]

theorem marked_length_le (ba : BA) (n : Nat) : (marked ba n).length ≤ n := by
  have := List.length_filter_le (fun i : Nat => ba.getIndex (i : Int)) (List.range n)
  simpa [marked] using this

theorem allMarkedValid_of_represents {σ : Type} {n : Nat} {m : MSig σ} {f : Nat → Option σ}
    (keys : List (Key σ)) (h : Represents n m f) :
    AllMarkedValid keys m n ↔ ∀ p, p < n → ∀ s, f p = some s → keyAccepts keys p s = true := by
  have hm := marked_of_represents h
  have hsig : ∀ j : Nat, m.sigs[j]? = ((marked m.ba n)[j]?).bind f := by
    intro j; rw [hm, h.2.2]; exact getElem?_filterMap_eq f _ j
  constructor
  · intro hall p hp s hfp
    have hmem : p ∈ marked m.ba n := by
      rw [hm]; simp [List.mem_filter, List.mem_range, hp, hfp]
    obtain ⟨j, hj, hjp⟩ := List.mem_iff_getElem.mp hmem
    obtain ⟨s', h1, h2⟩ := hall j hj
    rw [hsig j, List.getElem?_eq_getElem hj, hjp] at h1
    simp only [Option.bind_some, hfp, Option.some.injEq] at h1
    subst h1; rw [hjp] at h2; exact h2
  · intro hall j hj
    have hmem : (marked m.ba n)[j] ∈ marked m.ba n := List.getElem_mem hj
    have hmem' : ∀ q, q ∈ marked m.ba n → q < n ∧ (f q).isSome = true := by
      intro q hq; rw [hm, List.mem_filter, List.mem_range] at hq; exact hq
    obtain ⟨hp, hsome⟩ := hmem' _ hmem
    obtain ⟨s, hs⟩ := Option.isSome_iff_exists.mp hsome
    refine ⟨s, ?_, hall _ hp s hs⟩
    rw [hsig j, List.getElem?_eq_getElem hj]
    simpa using hs

theorem verifyBytesE_of_represents {σ : Type} {n : Nat} {m : MSig σ} {f : Nat → Option σ}
    (k : UInt64) (keys : List (Key σ)) (hn : keys.length = n) (h : Represents n m f) (hlen : n < 2 ^ 63) :
    verifyBytesE k keys (some m) = .ok true ↔
      (1 ≤ k.toNat ∧ k.toNat ≤ ((List.range n).filter fun p => (f p).isSome).length ∧
        ∀ p, p < n → ∀ s, f p = some s → keyAccepts keys p s = true) := by
  rw [verifyBytesE_true_iff]
  simp only [Accept, Option.some.injEq, exists_eq_left', hn, h.1.size, true_and,
    allMarkedValid_of_represents keys h, sigs_length_of_represents h]
  rw [← marked_of_represents h]
  have := marked_length_le m.ba n
  constructor
  · rintro ⟨a0, a1, a, b, c, d⟩
    rw [kInt_of_le hlen a1] at c
    exact ⟨a0, by omega, d⟩
  · rintro ⟨a0, a, d⟩
    have a1 : k.toNat ≤ n := by omega
    rw [kInt_of_le hlen a1]
    exact ⟨a0, a1, by omega, by omega, by omega, d⟩

theorem assignAll_map {σ : Type} (sigOf : Nat → σ) (S : List Nat) (f : Nat → Option σ) (p : Nat) :
    assignAll f (S.map fun i => (i, sigOf i)) p = if p ∈ S then some (sigOf p) else f p := by
  induction S generalizing f with
  | nil => simp [assignAll]
  | cons i S ih =>
    simp only [List.map_cons, assignAll, ih, List.mem_cons]
    by_cases hpS : p ∈ S
    · simp [hpS]
    · by_cases hpi : p = i
      · subst hpi; simp [hpS]
      · simp [hpS, hpi]

theorem distinct_count_nodup {n : Nat} {S : List Nat} (hS : S.Nodup) (hin : ∀ i ∈ S, i < n) :
    ((List.range n).filter fun p => decide (p ∈ S)).length = S.length := by
  apply List.Perm.length_eq
  rw [List.perm_ext_iff_of_nodup (List.nodup_range.sublist List.filter_sublist |> fun h => h) hS]
  intro a
  simp only [List.mem_filter, List.mem_range, decide_eq_true_eq]
  exact ⟨fun h => h.2, fun h => ⟨hin a h, h⟩⟩


/-! ## totality of VerifyBytes -/

theorem verifyBytesE_ok {σ : Type} (k : UInt64) (keys : List (Key σ)) (dec : Option (MSig σ)) :
    ∃ b, verifyBytesE k keys dec = .ok b := by
  cases dec with
  | none => exact ⟨false, rfl⟩
  | some m =>
    simp only [verifyBytesE]
    by_cases hK : k.toNat = 0 ∨ k.toNat > keys.length
    · simp only [hK, if_true]; exact ⟨false, rfl⟩
    · simp only [hK, if_false]
      by_cases hsz : (keys.length : Int) = m.ba.size
      · rw [← hsz]
        simp only [ne_eq, not_true_eq_false, if_false, Int.toNat_natCast, numTrueBitsBeforeE_eq]
        by_cases h1 : (m.sigs.length : Int) < kInt k ∨ (m.sigs.length : Int) > (keys.length : Int)
        · simp only [h1, if_true]; exact ⟨false, rfl⟩
        · simp only [h1, if_false]
          show ∃ b, (if ((m.ba.numTrueBitsBefore (keys.length : Int) : Nat) : Int) < kInt k then _ else _) = _
          by_cases h2 : ((m.ba.numTrueBitsBefore (keys.length : Int) : Nat) : Int) < kInt k
          · simp only [h2, if_true]; exact ⟨false, rfl⟩
          · simp only [h2, if_false]
            exact verifyLoopE_ok keys m.ba m.sigs keys.length 0 0 (by omega)
      · simp only [ne_eq, hsz, not_false_eq_true, if_true]
        exact ⟨false, rfl⟩

/-! ## the ante handler's gas consumer -/

theorem gasLoopE_ok (costs : List (Option Nat)) (ba : BA) (nsigs rem i si acc : Nat)
    (hc : i + rem ≤ costs.length) (hs : si + (markedFrom ba i rem).length ≤ nsigs) :
    ∃ g, gasLoopE costs ba nsigs rem i si acc = .ok g := by
  induction rem generalizing i si acc with
  | zero => exact ⟨acc, rfl⟩
  | succ rem ih =>
    have hi : i < costs.length := by omega
    simp only [markedFrom, List.range'_succ, List.filter_cons] at hs
    simp only [gasLoopE, getIndexE_eq]
    show ∃ g, (if ba.getIndex (i : Int) = true then _ else _) = _
    cases hb : ba.getIndex (i : Int) with
    | false =>
      simp only [hb, Bool.false_eq_true, if_false] at hs ⊢
      exact ih (i + 1) si acc (by omega) hs
    | true =>
      simp only [hb, if_true, List.length_cons] at hs ⊢
      have hsi : si < nsigs := by omega
      simp only [hsi, if_true, List.getElem?_eq_getElem hi]
      exact ih (i + 1) (si + 1) _ (by omega) (by simp only [markedFrom]; omega)

theorem multisigGasE_ok {σ : Type} (costs : List (Option Nat)) (m : MSig σ)
    (hsz : m.ba.size ≤ (costs.length : Int))
    (hs : (marked m.ba m.ba.size.toNat).length ≤ m.sigs.length) :
    ∃ g, multisigGasE costs (some m) = .ok g := by
  simp only [multisigGasE]
  apply gasLoopE_ok
  · omega
  · rw [← marked_eq_markedFrom]; omega

theorem allMarkedValid_length {σ : Type} {keys : List (Key σ)} {m : MSig σ} {n : Nat}
    (h : AllMarkedValid keys m n) : (marked m.ba n).length ≤ m.sigs.length := by
  by_cases h0 : (marked m.ba n).length = 0
  · omega
  · obtain ⟨s, hs, _⟩ := h ((marked m.ba n).length - 1) (by omega)
    have := (List.getElem?_eq_some_iff.mp hs).1
    omega

/-! ## AddSignature with arbitrary indices never panics -/

theorem getIndex_false_outside' (ba : BA) (i : Int) (h : i < 0 ∨ ba.size ≤ i) : ba.getIndex i = false := by
  cases ba with
  | none => rfl
  | some b =>
    simp only [BA.size] at h
    simp only [BA.getIndex, CBA.outOfRange]
    rcases h with h | h
    · simp [h]
    · have : decide (i ≥ b.size) = true := by simpa using h
      simp [this]

theorem countP_range_split (g : Nat → Bool) {a b : Nat} (h : a ≤ b) :
    (List.range b).countP g = (List.range a).countP g + (List.range' a (b - a)).countP g := by
  have : List.range b = List.range' 0 a ++ List.range' (0 + 1 * a) (b - a) := by
    rw [List.range'_append, List.range_eq_range']; congr 1; omega
  rw [this, List.countP_append, List.range_eq_range']; simp

theorem marked_length_eq_countP (ba : BA) (n : Nat) :
    (marked ba n).length = (List.range n).countP (fun p : Nat => ba.getIndex (p : Int)) := by
  simp [marked, List.countP_eq_length_filter]

theorem ntb_le_marked {ba : BA} {n : Nat} (hw : WellFormed ba n) (idx : Int) :
    ba.numTrueBitsBefore idx ≤ (marked ba n).length := by
  rw [marked_length_eq_countP]
  simp only [BA.numTrueBitsBefore]
  by_cases h : idx.toNat ≤ n
  · rw [countP_range_split _ h]; omega
  · rw [countP_range_split (fun p : Nat => ba.getIndex (p : Int)) (a := n) (b := idx.toNat) (by omega)]
    have : (List.range' n (idx.toNat - n)).countP (fun p : Nat => ba.getIndex (p : Int)) = 0 := by
      rw [List.countP_eq_zero]
      intro p hp
      have := List.mem_range'_1.mp hp
      simp [hw.getIndex_ge (p := (p : Int)) (by omega)]
    omega

theorem ntb_lt_marked {ba : BA} {n i : Nat} (hi : i < n) (hg : ba.getIndex (i : Int) = true) :
    ba.numTrueBitsBefore (i : Int) < (marked ba n).length := by
  rw [marked_length_eq_countP, range_split hi]
  simp only [BA.numTrueBitsBefore, Int.toNat_natCast, List.countP_append, List.countP_cons, hg, if_true]
  omega

theorem addSignatureE_any {σ : Type} {n : Nat} {m : MSig σ} (h : Built n m) (s : σ) (idx : Int) :
    ∃ m', addSignatureE m s idx = .ok m' ∧ Built n m' := by
  obtain ⟨hw, hlen⟩ := h
  have hnt := ntb_le_marked hw idx
  simp only [addSignatureE, numTrueBitsBeforeE_eq, getIndexE_eq, bind, Except.bind]
  cases hg : m.ba.getIndex idx with
  | true =>
    have h0 : 0 ≤ idx := by
      rcases Int.lt_or_le idx 0 with hneg | hpos
      · have := getIndex_false_outside' m.ba idx (.inl hneg); simp [hg] at this
      · exact hpos
    have h1 : idx < (n : Int) := by
      rcases Int.lt_or_le idx (n : Int) with hlt | hge
      · exact hlt
      · have := hw.getIndex_ge (p := idx) hge; simp [hg] at this
    obtain ⟨i, rfl⟩ := Int.eq_ofNat_of_zero_le h0
    have := ntb_lt_marked (n := n) (by omega) hg
    simp only [if_true]
    rw [if_pos (by omega)]
    exact ⟨_, rfl, hw, by simpa using hlen⟩
  | false =>
    simp only [Bool.false_eq_true, if_false]
    have hset : ∃ ba' r, m.ba.setIndexE idx true = .ok (ba', r) ∧ WellFormed ba' n ∧
        (marked ba' n).length ≤ (marked m.ba n).length + 1 := by
      cases hba : m.ba with
      | none => exact ⟨none, false, rfl, by rw [hba] at hw; exact hw, by omega⟩
      | some b =>
        rw [hba] at hw hg
        cases hout : b.outOfRange idx with
        | true => exact ⟨some b, false, by simp [BA.setIndexE, hout], hw, by omega⟩
        | false =>
          obtain ⟨b', hs, he, hl, hget⟩ := setIndexE_true_spec b idx hout
          obtain ⟨a0, a1, _⟩ := CBA.not_outOfRange hout
          have hsz := hw.size
          simp only [BA.size] at hsz
          obtain ⟨i, rfl⟩ := Int.eq_ofNat_of_zero_le a0
          have hi : i < n := by omega
          refine ⟨some b', true, hs, ?_, ?_⟩
          · obtain ⟨w1, w2, w3⟩ := hw
            exact ⟨w1, by rw [he, w2], by rw [hl, w3]⟩
          · rw [marked_length_eq_countP, marked_length_eq_countP, range_split hi]
            simp only [List.countP_append, List.countP_cons]
            have e1 : (List.range i).countP (fun p : Nat => BA.getIndex (some b') (p : Int))
                = (List.range i).countP (fun p : Nat => BA.getIndex (some b) (p : Int)) := by
              apply List.countP_congr
              intro p hp
              have := List.mem_range.mp hp
              have : ¬ ((p : Int) = (i : Int)) := by omega
              simp [hget, this]
            have e2 : (List.range' (i + 1) (n - i - 1)).countP (fun p : Nat => BA.getIndex (some b') (p : Int))
                = (List.range' (i + 1) (n - i - 1)).countP (fun p : Nat => BA.getIndex (some b) (p : Int)) := by
              apply List.countP_congr
              intro p hp
              have := List.mem_range'_1.mp hp
              have : ¬ ((p : Int) = (i : Int)) := by omega
              simp [hget, this]
            rw [e1, e2]
            split <;> split <;> omega
    obtain ⟨ba', r, hs, hw', hm'⟩ := hset
    simp only [hs]
    by_cases he : m.ba.numTrueBitsBefore idx = m.sigs.length
    · rw [if_pos he]
      exact ⟨_, rfl, hw', by simp only [List.length_append, List.length_cons, List.length_nil]; omega⟩
    · rw [if_neg he, if_pos (by omega)]
      refine ⟨_, rfl, hw', ?_⟩
      simp only [List.length_insertIdx_of_le_length (show m.ba.numTrueBitsBefore idx ≤ m.sigs.length by omega)]
      omega

theorem addAllIntE_ok {σ : Type} {n : Nat} (adds : List (Int × σ)) {m : MSig σ} (h : Built n m) :
    ∃ m', addAllIntE m adds = .ok m' ∧ Built n m' := by
  induction adds generalizing m with
  | nil => exact ⟨m, rfl, h⟩
  | cons a rest ih =>
    obtain ⟨i, s⟩ := a
    obtain ⟨m1, h1, b1⟩ := addSignatureE_any h s i
    obtain ⟨m2, h2, b2⟩ := ih b1
    exact ⟨m2, by simp [addAllIntE, h1, h2, bind, Except.bind], b2⟩


end GnoVerif.C44
