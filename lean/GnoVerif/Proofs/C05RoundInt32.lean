import GnoVerif.Proofs.C05Round32
/-! C05: `roundInt32` — the binary32 twin of C05RoundInt. -/
set_option linter.unusedSimpArgs false
set_option linter.unusedVariables false
namespace GnoVerif.C05.L
open GnoVerif.Gen.C05

/-- rounding `N` at exponent `E − a` = rounding its top part `N / 2^a` at exponent `E` with the
remainder as sticky flag (needs a bit to round, `L ≥ 25`, unless the remainder is zero) -/
theorem packSpecL32_split (L a N : Nat) (E : Int) (hL : 24 ≤ L) (h : 25 ≤ L ∨ N % 2^a = 0) :
    packSpecL32 (L + a) N (E - a) false = packSpecL32 L (N / 2^a) E (decide (N % 2^a ≠ 0)) := by
  unfold packSpecL32
  have hEu : E - (a : Int) + (((L + a : Nat) : Int) - 24) = E + ((L : Int) - 24) := by omega
  simp only [hEu]
  have hk : L + a - 24 = a + (L - 24) := by omega
  split
  · -- normal range
    congr 2
    rw [hk]
    by_cases hb : 0 < L - 24
    · rw [rneShift_split N a (L - 24) hb false]; simp
    · have hL53 : L - 24 = 0 := by omega
      have hr : N % 2^a = 0 := by
        rcases h with h | h
        · omega
        · exact h
      rw [hL53, Nat.add_zero, rneShift_exact N a hr]
      simp [rneShift]
  · -- subnormal range
    rename_i hneg
    have hD : 1 ≤ (-126 - E).toNat := by omega
    have hk2 : (-126 - (E - (a : Int))).toNat = a + (-126 - E).toNat := by omega
    rw [hk2, rneShift_split N a _ hD false]; simp

theorem roundInt32_scale (N j : Nat) (E : Int) (hN : N ≠ 0) :
    roundInt32 (N * 2^j) (E - j) = roundInt32 N E := by
  unfold roundInt32
  rw [log2_mul_two_pow N j hN]
  have e1 : Nat.log2 N + j + 24 = (Nat.log2 N + 24) + j := by omega
  have e2 : E - (j : Int) - 23 = (E - 23) - (j : Int) := by omega
  have e3 : N * 2^j * 2^23 = (N * 2^23) * 2^j := by
    rw [Nat.mul_assoc, Nat.mul_comm (2^j), ← Nat.mul_assoc]
  rw [e1, e2, e3, packSpecL32_split _ j _ _ (by omega) (Or.inr (Nat.mul_mod_left _ _))]
  rw [Nat.mul_div_cancel _ (Nat.two_pow_pos j), Nat.mul_mod_left]
  simp

/-- a mantissa that already has its `L ≥ 24` bits: `packSpecL32` is `roundInt32` -/
theorem packSpecL32_eq_roundInt32 (L M : Nat) (E : Int) (hL : 24 ≤ L) (h1 : 2^(L-1) ≤ M) (h2 : M < 2^L) :
    packSpecL32 L M E false = roundInt32 M E := by
  have hM : M ≠ 0 := by have := Nat.two_pow_pos (L-1); omega
  have hlog : Nat.log2 M = L - 1 := (Nat.log2_eq_iff hM).2 ⟨h1, by rw [show L - 1 + 1 = L by omega]; exact h2⟩
  unfold roundInt32
  have h := packSpecL32_split L 23 (M * 2^23) E hL (Or.inr (Nat.mul_mod_left _ _))
  rw [show ((23 : Nat) : Int) = 23 from rfl] at h
  rw [hlog, show L - 1 + 24 = L + 23 by omega, h]
  rw [Nat.mul_div_cancel _ (Nat.two_pow_pos 23), Nat.mul_mod_left]
  simp

/-- sticky form: top part `M = N / 2^a` with `L ≥ 25` bits and remainder flag = exact rounding of `N` -/
theorem packSpecL32_sticky (L a N : Nat) (E : Int) (hL : 25 ≤ L) (h1 : 2^(L-1) ≤ N / 2^a) (h2 : N / 2^a < 2^L) :
    packSpecL32 L (N / 2^a) E (decide (N % 2^a ≠ 0)) = roundInt32 N (E - a) := by
  have hP : 0 < 2^a := Nat.two_pow_pos a
  have hlo : 2^(L - 1 + a) ≤ N := by
    rw [Nat.pow_add]; exact (Nat.le_div_iff_mul_le hP).1 h1
  have hhi : N < 2^(L + a) := by
    rw [Nat.pow_add]; exact (Nat.div_lt_iff_lt_mul hP).1 h2
  rw [← packSpecL32_split L a N E (by omega) (Or.inl hL)]
  exact packSpecL32_eq_roundInt32 (L + a) N (E - a) (by omega) (by rw [show L + a - 1 = L - 1 + a by omega]; exact hlo) hhi


theorem fpack32_roundInt (s M : BitVec 32) (e : BitVec 64) (t : BitVec 32) (N a : Nat)
    (hs : s = 0#32 ∨ s = 2147483648#32)
    (he1 : -(2^39) ≤ e.toInt) (he2 : e.toInt ≤ 2^39)
    (hM : M.toNat = N / 2^a) (ht : t = 0#32 ↔ N % 2^a = 0) (hM0 : M.toNat ≠ 0)
    (hst : N % 2^a = 0 ∨ 2^24 ≤ M.toNat) :
    fpack32 s M e t = s ||| BitVec.ofNat 32 (roundInt32 N (e.toInt - a)) := by
  have hdec : decide (t ≠ 0#32) = decide (N % 2^a ≠ 0) := by
    by_cases h : t = 0#32
    · have := ht.1 h; simp [h, this]
    · have : ¬ (N % 2^a = 0) := fun h' => h (ht.2 h'); simp [h, this]
  have hlo := Nat.log2_self_le hM0
  have hhi := @Nat.lt_log2_self M.toNat
  by_cases hbig : 2^24 ≤ M.toNat
  · -- at least one bit to round: sticky decomposition
    have hL : 25 ≤ Nat.log2 M.toNat + 1 := by
      have : 24 ≤ Nat.log2 M.toNat := (Nat.le_log2 hM0).2 hbig
      omega
    rw [fpack32_rne s M e t hs (by omega) (by omega) (by omega), hdec]
    unfold packSpec32
    rw [hM] at hlo hhi hL ⊢
    rw [packSpecL32_sticky _ a N e.toInt hL (by simpa using hlo) hhi]
  · -- exact: the dropped part is zero
    have hr : N % 2^a = 0 := by
      rcases hst with h | h
      · exact h
      · omega
    have ht0 : t = 0#32 := ht.2 hr
    have hN : N = M.toNat * 2^a := by
      have := Nat.div_add_mod N (2^a); rw [hr, ← hM] at this; rw [Nat.mul_comm]; omega
    have hscale : roundInt32 N (e.toInt - a) = roundInt32 M.toNat e.toInt := by
      rw [hN]; exact roundInt32_scale M.toNat a e.toInt hM0
    rw [hscale, ht0]
    by_cases h52 : 2^23 ≤ M.toNat
    · rw [fpack32_rne s M e 0#32 hs h52 (by omega) (by omega)]
      unfold packSpec32
      have : decide ((0#32 : BitVec 32) ≠ 0#32) = false := by simp
      rw [this, packSpecL32_eq_roundInt32 _ _ _ (by
        have : 23 ≤ Nat.log2 M.toNat := (Nat.le_log2 hM0).2 h52
        omega) (by simpa using hlo) hhi]
    · obtain ⟨j, hj1, hj52, hlo', hhi', htn, heq⟩ := fpack32_prenorm s M e 0#32 hM0 (by omega)
      rw [heq, fpack32_rne s (M <<< j) (e - BitVec.ofNat 64 j) 0#32 hs (by rw [htn]; exact hlo')
        (by rw [toInt_sub_ofNat_small _ _ (by omega) (by omega) (by omega)]; omega)
        (by rw [toInt_sub_ofNat_small _ _ (by omega) (by omega) (by omega)]; omega)]
      unfold packSpec32
      have : decide ((0#32 : BitVec 32) ≠ 0#32) = false := by simp
      have hlog : Nat.log2 (M <<< j).toNat = 23 := by
        rw [htn]; exact (Nat.log2_eq_iff (by omega)).2 ⟨hlo', hhi'⟩
      rw [this, hlog, htn, toInt_sub_ofNat_small _ _ (by omega) (by omega) (by omega),
        packSpecL32_eq_roundInt32 24 _ _ (by omega) (by simpa using hlo') hhi',
        roundInt32_scale M.toNat j e.toInt hM0]


end GnoVerif.C05.L
