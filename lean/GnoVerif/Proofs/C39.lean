import GnoVerif.Model.C39
import GnoVerif.Proofs.C39Merkle
/-
C39 — helper lemmas for the part-set model: splitting, the AddPart case
analysis, the representation invariant, the honest-run state, soundness.
-/
namespace GnoVerif.C39

variable (H : Bytes → Bytes)

/-! ### splitting -/

theorem split_length (data : Bytes) (ps : Nat) : (split data ps).length = numParts data.length ps := by
  simp [split]

theorem slice_eq (data : Bytes) (ps i : Nat) : slice data ps i = (data.drop (i * ps)).take ps := by
  unfold slice
  rw [List.drop_take]
  have hs : (i + 1) * ps = i * ps + ps := Nat.succ_mul i ps
  by_cases h : (i + 1) * ps ≤ data.length
  · rw [Nat.min_eq_right h, hs, Nat.add_sub_cancel_left]
  · have h' : data.length ≤ (i + 1) * ps := by omega
    rw [Nat.min_eq_left h']
    rw [List.take_of_length_le (by rw [List.length_drop]; omega),
        List.take_of_length_le (by rw [List.length_drop]; omega)]

theorem split_getD (data : Bytes) (ps i : Nat) (h : i < numParts data.length ps) :
    (split data ps).getD i [] = slice data ps i := by
  simp [split, List.getD_eq_getElem?_getD, List.getElem?_range h]

theorem flatten_slices (data : Bytes) (ps n : Nat) :
    ((List.range n).map (slice data ps)).flatten = data.take (n * ps) := by
  induction n with
  | zero => simp
  | succ n ih =>
    rw [List.range_succ, List.map_append, List.flatten_append, ih, Nat.succ_mul, List.take_add]
    simp [slice_eq]

theorem le_numParts_mul (len ps : Nat) (hps : 0 < ps) : len ≤ numParts len ps * ps := by
  unfold numParts
  have h1 := Nat.div_add_mod (len + ps - 1) ps
  have h2 := Nat.mod_lt (len + ps - 1) hps
  rw [Nat.mul_comm] at h1
  omega

theorem split_flatten (data : Bytes) (ps : Nat) (hps : 0 < ps) : (split data ps).flatten = data := by
  unfold split
  rw [flatten_slices]
  exact List.take_of_length_le (le_numParts_mul _ _ hps)

theorem numParts_eq_zero (len ps : Nat) (hps : 0 < ps) : numParts len ps = 0 ↔ len = 0 := by
  unfold numParts
  rw [Nat.div_eq_zero_iff]
  omega

/-! ### AddPart: case analysis -/

/-- the condition under which `AddPart` stores the part -/
def Accepts (s : PartSet) (p : Part) : Prop :=
  0 ≤ p.index ∧ p.index < (s.total : Int) ∧ s.parts[p.index.toNat]? = some none ∧
  p.proof.index = p.index ∧ p.proof.total = (s.total : Int) ∧ p.proof.verify H s.hash p.bytes = true

/-- the state after storing `p` -/
def stored (s : PartSet) (p : Part) : PartSet :=
  { s with parts := s.parts.set p.index.toNat (some p), bits := s.bits.set p.index.toNat true,
           count := s.count + 1 }

theorem addPart_of_accepts (s : PartSet) (p : Part) (h : Accepts H s p) :
    addPart H s p = (.added true, stored s p) := by
  obtain ⟨h0, h1, h2, h3, h4, h5⟩ := h
  unfold addPart
  rw [if_neg (by omega), if_neg (by omega)]
  simp only [h2, h3, h4, h5, stored]
  simp

theorem addPart_of_not_accepts (s : PartSet) (p : Part) (h : ¬ Accepts H s p) :
    (addPart H s p).1 ≠ .added true ∧ (addPart H s p).2 = s := by
  unfold addPart
  by_cases c1 : p.index ≥ (s.total : Int)
  · rw [if_pos c1]; simp
  · rw [if_neg c1]
    by_cases c2 : p.index < 0
    · rw [if_pos c2]; simp
    · rw [if_neg c2]
      simp only
      cases hg : s.parts[p.index.toNat]? with
      | none => simp
      | some o =>
        cases o with
        | some q => simp
        | none =>
          simp only
          by_cases c3 : p.proof.index ≠ p.index
          · rw [if_pos c3]; simp
          · rw [if_neg c3]
            by_cases c4 : p.proof.total ≠ (s.total : Int)
            · rw [if_pos c4]; simp
            · rw [if_neg c4]
              by_cases c5 : ¬ p.proof.verify H s.hash p.bytes = true
              · rw [if_pos c5]; simp
              · exfalso
                apply h
                refine ⟨by omega, by omega, hg, ?_, ?_, ?_⟩
                · exact Classical.not_not.mp c3
                · exact Classical.not_not.mp c4
                · exact Classical.not_not.mp c5

theorem addPart_added_iff (s : PartSet) (p : Part) :
    (addPart H s p).1 = .added true ↔ Accepts H s p := by
  constructor
  · intro h
    by_cases ha : Accepts H s p
    · exact ha
    · exact absurd h (addPart_of_not_accepts H s p ha).1
  · intro h; rw [addPart_of_accepts H s p h]

theorem addPart_header (s : PartSet) (p : Part) :
    (addPart H s p).2.total = s.total ∧ (addPart H s p).2.hash = s.hash := by
  by_cases ha : Accepts H s p
  · rw [addPart_of_accepts H s p ha]; simp [stored]
  · rw [(addPart_of_not_accepts H s p ha).2]; simp

/-! ### representation invariant -/

/-- what every reachable part set satisfies -/
structure Inv (s : PartSet) : Prop where
  len : s.parts.length = s.total
  bits : s.bits = s.parts.map Option.isSome
  count : s.count = s.parts.countP Option.isSome
  slot : ∀ (i : Nat) (p : Part), s.parts[i]? = some (some p) →
    p.index = (i : Int) ∧ p.proof.index = (i : Int) ∧ p.proof.total = (s.total : Int) ∧
    p.proof.verify H s.hash p.bytes = true

theorem inv_fromHeader (h : Header) : Inv H (fromHeader h) := by
  refine ⟨by simp [fromHeader], ?_, ?_, ?_⟩
  · simp [fromHeader]
  · simp only [fromHeader]
    rw [List.countP_eq_length_filter]
    simp
  · intro i p hp
    simp only [fromHeader, List.getElem?_replicate] at hp
    split at hp <;> simp at hp

theorem inv_stored (s : PartSet) (p : Part) (hi : Inv H s) (ha : Accepts H s p) : Inv H (stored s p) := by
  obtain ⟨h0, h1, h2, h3, h4, h5⟩ := ha
  have hlt : p.index.toNat < s.parts.length := by rw [hi.len]; omega
  have hget : s.parts[p.index.toNat] = none := by
    have := h2
    rw [List.getElem?_eq_getElem hlt] at this
    exact Option.some.inj this
  refine ⟨by simp [stored, hi.len], ?_, ?_, ?_⟩
  · simp [stored, hi.bits]
  · simp only [stored]
    rw [List.countP_set hlt, hget, hi.count]
    simp
  · intro i q hq
    simp only [stored] at hq ⊢
    rw [List.getElem?_set] at hq
    split at hq
    · rename_i heq
      have : q = p := by simpa using hq.symm
      subst this
      refine ⟨?_, ?_, h4, h5⟩
      · omega
      · omega
    · exact hi.slot i q hq

theorem inv_addPart (s : PartSet) (p : Part) (hi : Inv H s) : Inv H (addPart H s p).2 := by
  by_cases ha : Accepts H s p
  · rw [addPart_of_accepts H s p ha]; exact inv_stored H s p hi ha
  · rw [(addPart_of_not_accepts H s p ha).2]; exact hi

theorem addMany_header (s : PartSet) (seq : List Part) :
    (addMany H s seq).2.total = s.total ∧ (addMany H s seq).2.hash = s.hash := by
  induction seq generalizing s with
  | nil => simp [addMany]
  | cons p ps ih =>
    simp only [addMany]
    have := ih (addPart H s p).2
    have h2 := addPart_header H s p
    exact ⟨this.1.trans h2.1, this.2.trans h2.2⟩

theorem inv_addMany (s : PartSet) (seq : List Part) (hi : Inv H s) : Inv H (addMany H s seq).2 := by
  induction seq generalizing s with
  | nil => simpa [addMany] using hi
  | cons p ps ih =>
    simp only [addMany]
    exact ih _ (inv_addPart H s p hi)

/-- a stored part stays stored, and everything stored came from the state or the sequence -/
theorem addPart_slot_mono (s : PartSet) (p q : Part) (i : Nat) (h : s.parts[i]? = some (some q)) :
    (addPart H s p).2.parts[i]? = some (some q) := by
  by_cases ha : Accepts H s p
  · rw [addPart_of_accepts H s p ha]
    simp only [stored]
    rw [List.getElem?_set]
    split
    · rename_i heq
      have := ha.2.2.1
      rw [heq, h] at this
      cases this
    · exact h
  · rw [(addPart_of_not_accepts H s p ha).2]; exact h

theorem addPart_slot_origin (s : PartSet) (p q : Part) (i : Nat)
    (h : (addPart H s p).2.parts[i]? = some (some q)) : s.parts[i]? = some (some q) ∨ q = p := by
  by_cases ha : Accepts H s p
  · rw [addPart_of_accepts H s p ha] at h
    simp only [stored] at h
    rw [List.getElem?_set] at h
    split at h
    · split at h
      · right; simpa using h.symm
      · cases h
    · left; exact h
  · rw [(addPart_of_not_accepts H s p ha).2] at h; left; exact h

theorem addMany_slot_mono (s : PartSet) (seq : List Part) (q : Part) (i : Nat)
    (h : s.parts[i]? = some (some q)) : (addMany H s seq).2.parts[i]? = some (some q) := by
  induction seq generalizing s with
  | nil => simpa [addMany] using h
  | cons p ps ih =>
    simp only [addMany]
    exact ih _ (addPart_slot_mono H s p q i h)

theorem addMany_slot_origin (s : PartSet) (seq : List Part) (q : Part) (i : Nat)
    (h : (addMany H s seq).2.parts[i]? = some (some q)) : s.parts[i]? = some (some q) ∨ q ∈ seq := by
  induction seq generalizing s with
  | nil => left; simpa [addMany] using h
  | cons p ps ih =>
    simp only [addMany] at h
    rcases ih _ h with h' | h'
    · rcases addPart_slot_origin H s p q i h' with h'' | h''
      · left; exact h''
      · right; simp [h'']
    · right; simp [h']

/-- after a part that the set accepts-or-already-has is offered, its slot is filled -/
theorem addPart_fills (s : PartSet) (p : Part) (hi : Inv H s)
    (h0 : 0 ≤ p.index) (h1 : p.index < (s.total : Int))
    (h3 : p.proof.index = p.index) (h4 : p.proof.total = (s.total : Int))
    (h5 : p.proof.verify H s.hash p.bytes = true) :
    ∃ q, (addPart H s p).2.parts[p.index.toNat]? = some (some q) := by
  have hlt : p.index.toNat < s.parts.length := by rw [hi.len]; omega
  cases hg : s.parts[p.index.toNat]? with
  | none => rw [List.getElem?_eq_getElem hlt] at hg; cases hg
  | some o =>
    cases o with
    | some q => exact ⟨q, addPart_slot_mono H s p q _ hg⟩
    | none =>
      have ha : Accepts H s p := ⟨h0, h1, hg, h3, h4, h5⟩
      rw [addPart_of_accepts H s p ha]
      refine ⟨p, ?_⟩
      simp only [stored]
      rw [List.getElem?_set_self hlt]

end GnoVerif.C39
