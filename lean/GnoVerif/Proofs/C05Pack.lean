import GnoVerif.Proofs.C05Unpack
import GnoVerif.Proofs.C05Neg
/-! C05: `fpack64` on an already normalised mantissa, and the pack/unpack round trip. -/
set_option linter.unusedSimpArgs false
namespace GnoVerif.C05.L
open GnoVerif.Gen.C05

theorem fpack64_loop1_done (fuel : Nat) (e m : BitVec 64) (h : ¬ m.toNat < 2^52) :
    fpack64_loop1 fuel e m = (e, m) := by
  cases fuel with
  | zero => rfl
  | succ n =>
    unfold fpack64_loop1
    have : BitVec.ult m 4503599627370496#64 = false := by simp [BitVec.ult]; omega
    simp [this]

theorem fpack64_loop2_done (fuel : Nat) (e m t : BitVec 64) (h : m.toNat < 2^54) :
    fpack64_loop2 fuel e m t = (e, m, t) := by
  cases fuel with
  | zero => rfl
  | succ n =>
    unfold fpack64_loop2
    have : BitVec.ule 18014398509481984#64 m = false := by simp [BitVec.ule]; omega
    simp [this]

theorem toInt_lit_neg1022 : (BitVec.ofInt 64 (-1022)).toInt = -1022 := by decide
theorem toInt_lit_neg1023 : (BitVec.ofInt 64 (-1023)).toInt = -1023 := by decide
theorem toInt_lit_neg1075 : (BitVec.ofInt 64 (-1075)).toInt = -1075 := by decide
theorem toInt_lit_1024 : (1024#64).toInt = 1024 := by decide

/-- no normalisation, no rounding, no range problem: the fields are simply assembled -/
theorem fpack64_exact (s m e t : BitVec 64) (hm : 2^52 ≤ m.toNat) (hm' : m.toNat < 2^53)
    (he : -1022 ≤ e.toInt) (he' : e.toInt ≤ 1023) :
    fpack64 s m e t =
      (s ||| ((e - BitVec.ofInt 64 (-1023)) <<< 52)) ||| (m &&& 4503599627370495#64) := by
  have hm0 : (m == 0#64) = false := by
    rw [Bool.eq_false_iff]; intro h
    have := congrArg BitVec.toNat (eq_of_beq h); simp at this; omega
  have h1 : fpack64_loop1 loopFuel e m = (e, m) := fpack64_loop1_done _ e m (by omega)
  have h2 : fpack64_loop2 loopFuel e m t = (e, m, t) := fpack64_loop2_done _ e m t (by omega)
  have c1 : BitVec.ule 9007199254740992#64 m = false := by simp [BitVec.ule]; omega
  have c2 : BitVec.sle 1024#64 e = false := by
    simp only [BitVec.sle, toInt_lit_1024]; simp; omega
  have c3 : BitVec.slt e (BitVec.ofInt 64 (-1022)) = false := by
    simp only [BitVec.slt, toInt_lit_neg1022]; simp; omega
  unfold fpack64
  simp only [hm0, h1, h2, c1, c2, c3, Bool.false_eq_true, if_false]


theorem toInt_ofNat_add_ofInt (n : Nat) (c : Int) (hn : n < 2^62) (hc1 : -(2^62) ≤ c) (hc2 : c < 2^62) :
    (BitVec.ofNat 64 n + BitVec.ofInt 64 c).toInt = n + c := by
  rw [BitVec.toInt_add, BitVec.toInt_ofNat', BitVec.toInt_ofInt]
  simp only [Int.bmod_def]
  omega

theorem reassemble64 (f : BitVec 64) :
    ((f &&& 9223372036854775808#64) ||| (((f >>> 52) &&& 2047#64) <<< 52)) ||| (f &&& 4503599627370495#64) = f := by
  ext i hi
  simp
  grind

theorem implicit_mask64 (f : BitVec 64) :
    ((f &&& 4503599627370495#64) ||| 4503599627370496#64) &&& 4503599627370495#64 = f &&& 4503599627370495#64 := by
  ext i hi
  simp
  grind

/-- round trip, normal numbers -/
theorem fpack64_funpack64_normal (f : BitVec 64) (h0 : expF64 f ≠ 0) (h1 : expF64 f ≠ 2047) (t : BitVec 64) :
    fpack64 (funpack64 f).1 (funpack64 f).2.1 (funpack64 f).2.2.1 t = f := by
  have he := expF64_lt f
  have hml := mantF64_lt f
  have hmt : (f &&& 4503599627370495#64).toNat = mantF64 f := toNat_and_mant64 f
  rw [funpack64_normal f h0 h1]
  simp only []
  rw [fpack64_exact]
  · rw [implicit_mask64, BitVec.add_sub_cancel, ← exp64_eq, reassemble64]
  · rw [toNat_or_implicit64 _ (by omega)]; omega
  · rw [toNat_or_implicit64 _ (by omega)]; omega
  · rw [toInt_ofNat_add_ofInt _ _ (by omega) (by omega) (by omega)]; omega
  · rw [toInt_ofNat_add_ofInt _ _ (by omega) (by omega) (by omega)]; omega


/-- round trip, ±0 -/
theorem fpack64_funpack64_zero (f : BitVec 64) (h0 : expF64 f = 0) (hm : mantF64 f = 0) (t : BitVec 64) :
    fpack64 (funpack64 f).1 (funpack64 f).2.1 (funpack64 f).2.2.1 t = f := by
  rw [funpack64_zero f h0 hm]
  simp only []
  unfold fpack64
  simp only [beq_self_eq_true, if_true]
  apply BitVec.eq_of_toNat_eq
  rw [toNat_and_sign64]
  unfold expF64 at h0; unfold mantF64 at hm
  have := f.isLt
  omega

/-- the denormalising loop of `fpack64` on a mantissa whose low `j` bits are zero -/
theorem fpack64_loop3_exact (j : Nat) : ∀ (fuel : Nat) (e m : BitVec 64), j ≤ fuel → j < 2^32 →
    e.toInt = -1023 - (j : Int) → m.toNat % 2^j = 0 →
    fpack64_loop3 fuel e m 0#64 = (BitVec.ofInt 64 (-1023), m >>> j, 0#64) := by
  induction j with
  | zero =>
    intro fuel e m _ _ he _
    have hE : e = BitVec.ofInt 64 (-1023) := by
      apply BitVec.eq_of_toInt_eq; rw [toInt_lit_neg1023]; omega
    subst hE
    cases fuel with
    | zero => simp [fpack64_loop3]
    | succ n =>
      unfold fpack64_loop3
      have : BitVec.slt (BitVec.ofInt 64 (-1023)) (BitVec.ofInt 64 (-1023)) = false := by decide
      simp [this]
  | succ j ih =>
    intro fuel e m hf hj he hm
    cases fuel with
    | zero => omega
    | succ n =>
      unfold fpack64_loop3
      have c : BitVec.slt e (BitVec.ofInt 64 (-1023)) = true := by
        simp only [BitVec.slt, toInt_lit_neg1023]; simp; omega
      have hpow : 2^(j+1) = 2 * 2^j := by rw [Nat.pow_succ]; omega
      have hpos : 0 < 2^j := Nat.two_pow_pos j
      have heven : m.toNat % 2 = 0 := by
        rw [hpow] at hm
        have := Nat.mod_mul_right_mod m.toNat 2 (2^j)
        omega
      have ht : (0#64 ||| (m &&& 1#64)) = 0#64 := by
        apply BitVec.eq_of_toNat_eq
        simp only [BitVec.toNat_or, BitVec.toNat_and, BitVec.toNat_ofNat]
        have : m.toNat &&& 1 = m.toNat % 2 := Nat.and_one_is_mod _
        simp [this, heven]
      simp only [c, if_true, ht]
      have he' : (e + 1#64).toInt = -1023 - (j : Int) := by
        rw [BitVec.toInt_add]; simp only [Int.bmod_def]
        have : (1#64).toInt = 1 := by decide
        rw [this]
        have := BitVec.toInt_lt (x := e); have := BitVec.le_toInt (x := e)
        omega
      have hm' : (m >>> 1).toNat % 2^j = 0 := by
        rw [BitVec.toNat_ushiftRight, Nat.shiftRight_eq_div_pow]
        rw [hpow] at hm
        have : m.toNat = 2 * 2^j * (m.toNat / (2 * 2^j)) := by
          have := Nat.div_add_mod m.toNat (2 * 2^j); omega
        rw [this]; simp [Nat.mul_assoc, Nat.mul_div_cancel_left, Nat.mul_mod_right]
      rw [ih n (e + 1#64) (m >>> 1) (by omega) (by omega) he' hm']
      congr 2
      rw [← BitVec.shiftRight_add, Nat.add_comm]


theorem reassemble64_sub (f : BitVec 64) (h0 : expF64 f = 0) :
    (f &&& 9223372036854775808#64) ||| (f &&& 4503599627370495#64) = f := by
  have := reassemble64 f
  rw [exp64_eq, h0] at this
  simpa using this

/-- round trip, subnormals -/
theorem fpack64_funpack64_subnormal (f : BitVec 64) (h0 : expF64 f = 0) (hm : mantF64 f ≠ 0) :
    fpack64 (funpack64 f).1 (funpack64 f).2.1 (funpack64 f).2.2.1 0#64 = f := by
  have hml := mantF64_lt f
  have hmt : (f &&& 4503599627370495#64).toNat = mantF64 f := toNat_and_mant64 f
  obtain ⟨k, hk1, hk52, heq, htn, hlo, hhi⟩ := funpack64_subnormal f h0 hm
  rw [heq]
  simp only []
  generalize hM : (f &&& 4503599627370495#64) <<< k = m at *
  generalize hE : BitVec.ofInt 64 (-1022) - BitVec.ofNat 64 k = e
  have heI : e.toInt = -1022 - (k : Int) := by
    rw [← hE, BitVec.toInt_sub, toInt_lit_neg1022, BitVec.toInt_ofNat']
    simp only [Int.bmod_def]; omega
  have hm0 : (m == 0#64) = false := by
    rw [Bool.eq_false_iff]; intro h
    have := congrArg BitVec.toNat (eq_of_beq h); simp at this; omega
  have h1 : fpack64_loop1 loopFuel e m = (e, m) := fpack64_loop1_done _ e m (by omega)
  have h2 : fpack64_loop2 loopFuel e m 0#64 = (e, m, 0#64) := fpack64_loop2_done _ e m _ (by omega)
  have c1 : BitVec.ule 9007199254740992#64 m = false := by simp [BitVec.ule]; omega
  have c2 : BitVec.sle 1024#64 e = false := by
    simp only [BitVec.sle, toInt_lit_1024]; simp; omega
  have c3 : BitVec.slt e (BitVec.ofInt 64 (-1022)) = true := by
    simp only [BitVec.slt, toInt_lit_neg1022]; simp; omega
  have c4 : BitVec.slt e (BitVec.ofInt 64 (-1075)) = false := by
    simp only [BitVec.slt, toInt_lit_neg1075]; simp; omega
  have hpow : 2^k = 2 * 2^(k-1) := by
    rw [show k = (k-1) + 1 by omega, Nat.pow_succ]; simp; omega
  have hlow : m.toNat % 2^(k-1) = 0 := by
    rw [htn, hpow, ← Nat.mul_assoc, Nat.mul_mod_left]
  have h3 : fpack64_loop3 loopFuel e m 0#64 = (BitVec.ofInt 64 (-1023), m >>> (k-1), 0#64) :=
    fpack64_loop3_exact (k-1) loopFuel e m (by unfold loopFuel; omega) (by omega) (by omega) hlow
  -- bit k-1 of m is zero, so no rounding increment
  have hbit : ((m >>> (k-1)) &&& 1#64) = 0#64 := by
    apply BitVec.eq_of_toNat_eq
    simp only [BitVec.toNat_and, BitVec.toNat_ushiftRight, BitVec.toNat_ofNat, Nat.shiftRight_eq_div_pow]
    have : m.toNat / 2^(k-1) &&& 1 = m.toNat / 2^(k-1) % 2 := Nat.and_one_is_mod _
    have e1 : m.toNat / 2^(k-1) = mantF64 f * 2 := by
      rw [htn, hpow, ← Nat.mul_assoc, Nat.mul_div_cancel _ (Nat.two_pow_pos _)]
    simp [this, e1]
  have hback : m >>> (k-1) >>> 1 = f &&& 4503599627370495#64 := by
    apply BitVec.eq_of_toNat_eq
    rw [← BitVec.shiftRight_add, show k - 1 + 1 = k by omega, BitVec.toNat_ushiftRight,
      Nat.shiftRight_eq_div_pow, htn, hmt, Nat.mul_div_cancel _ (Nat.two_pow_pos _)]
  have c5 : BitVec.ult (f &&& 4503599627370495#64) 4503599627370496#64 = true := by
    simp [BitVec.ult, hmt]; omega
  unfold fpack64
  simp only [hm0, h1, h2, c1, c2, c3, c4, h3, hbit, hback, c5, Bool.false_eq_true, if_false, if_true,
    bne_self_eq_false, Bool.false_and]
  exact reassemble64_sub f h0


/-- (a) round trip on every finite bit pattern -/
theorem fpack64_funpack64 (f : BitVec 64) (hfin : expF64 f ≠ 2047) :
    fpack64 (funpack64 f).1 (funpack64 f).2.1 (funpack64 f).2.2.1 0#64 = f := by
  by_cases h0 : expF64 f = 0
  · by_cases hm : mantF64 f = 0
    · exact fpack64_funpack64_zero f h0 hm _
    · exact fpack64_funpack64_subnormal f h0 hm
  · exact fpack64_funpack64_normal f h0 hfin _

end GnoVerif.C05.L
