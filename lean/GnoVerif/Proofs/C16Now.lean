import GnoVerif.Proofs.C16Final
/-! Helper lemmas for C16: a transaction never changes the block time; dead sessions stay dead. -/
namespace GnoVerif.C16

variable {auth : List (Nat × Nat)}

theorem hook_now {w w' : World} {a : Acct} {amt : Coins} (h : hookDeduct auth w a amt = .ok w') : w'.now = w.now := by
  rcases hookDeduct_spec h with rfl | ⟨_, _, _, _, _, _, _, _, rfl⟩ <;> rfl

theorem bankSend_now {w w' : World} {src : Acct} {to : Option Acct} {amt : Coins}
    (h : bankSend auth w src to amt = .ok w') : w'.now = w.now := by
  unfold bankSend at h
  split at h
  · cases h; rfl
  · cases h1 : hookDeduct auth w src amt with
    | error e => simp [h1, bind, Except.bind] at h
    | ok w1 =>
      cases h2 : debit w1 src amt with
      | error e => simp [h1, h2, bind, Except.bind] at h
      | ok w2 =>
        simp only [h1, h2, bind, Except.bind] at h
        rw [(credit_spec h).2.1, (debit_spec h2).2.1, hook_now h1]

theorem lockDeposit_now {w w' : World} {i : Nat} {req : Int} (h : lockDeposit auth w i req = .ok w') :
    w'.now = w.now := by
  unfold lockDeposit at h
  cases h1 : hookDeduct auth w (.m i) (ugnot req) with
  | error e => simp [h1] at h
  | ok w1 =>
    simp only [h1] at h
    unfold bankSendUnrestricted at h
    cases h2 : debit w1 (.m i) (ugnot req) with
    | error e => simp [h2, bind, Except.bind] at h
    | ok w2 =>
      simp only [h2, bind, Except.bind] at h
      cases h3 : credit w2 none (ugnot req) with
      | error e => simp [h3] at h
      | ok w3 =>
        simp only [h3] at h
        cases h
        rw [(credit_spec h3).2.1, (debit_spec h2).2.1, hook_now h1]

theorem storageDeposit_now {w w' : World} {i realm : Nat} {n : Int} (h : storageDeposit auth w i realm n = .ok w') :
    w'.now = w.now := by
  unfold storageDeposit at h
  simp only at h
  split at h
  · split at h
    · cases h
    · rw [lockDeposit_now h]; rfl
  · split at h
    · unfold refundDeposit at h
      cases h3 : credit (setSink w realm n) (some (.m i)) (ugnot (-(n - w.sink realm) * Gen.C16.storagePrice)) with
      | error e => simp [h3] at h
      | ok w3 =>
        simp only [h3] at h
        cases h
        rw [(credit_spec h3).2.1]; rfl
    · cases h; rfl

theorem execMsg_now {w w' : World} {msg : Msg} (h : execMsg auth w msg = .ok w') : w'.now = w.now := by
  cases msg with
  | send src to amt => exact bankSend_now h
  | exec src realm fn snd =>
    simp only [execMsg] at h
    cases h1 : bankSend auth w (.m src) none snd with
    | error e => simp [h1, bind, Except.bind] at h
    | ok w1 =>
      simp only [h1, bind, Except.bind] at h
      cases fn with
      | noop => simp only at h; cases h; exact bankSend_now h1
      | fail => simp at h
      | grow n => simp only at h; rw [storageDeposit_now h, bankSend_now h1]
  | run src fn snd =>
    simp only [execMsg] at h
    cases h1 : bankSend auth w (.m src) (some (.m src)) snd with
    | error e => simp [h1, bind, Except.bind] at h
    | ok w1 =>
      simp only [h1, bind, Except.bind] at h
      cases fn with
      | noop => simp only at h; cases h; exact bankSend_now h1
      | fail => simp at h
      | pay to coins =>
        simp only at h
        cases h2 : bankSend auth w1 (.m src) (some to) coins with
        | error e => simp [h2] at h
        | ok w2 =>
          simp only [h2] at h
          cases h
          rw [bankSend_now h2, bankSend_now h1]
  | addpkg src snd => simp [execMsg] at h
  | create src k0 e p l ps =>
    simp only [execMsg] at h
    obtain ⟨_, rfl⟩ := createSession_spec h
    rfl
  | revoke src k0 =>
    simp only [execMsg] at h
    split at h
    · cases h
    · cases h; rfl
  | revokeall src =>
    simp only [execMsg] at h
    cases h; rfl

theorem execMsgs_now {msgs : List Msg} {w w' : World} (h : execMsgs auth w msgs = .ok w') : w'.now = w.now := by
  induction msgs generalizing w with
  | nil => simp only [execMsgs] at h; cases h; rfl
  | cons msg r ih =>
    simp only [execMsgs] at h
    cases h1 : execMsg auth w msg with
    | error e => simp [h1] at h
    | ok w1 =>
      simp only [h1] at h
      rw [ih h, execMsg_now h1]

theorem bumpSeq_now (w : World) (i : Nat) : (bumpSeq auth w i).now = w.now := by
  unfold bumpSeq
  split
  · rfl
  · split <;> rfl

theorem bumpSeq_fold_now (w : World) (l : List Nat) : (l.foldl (bumpSeq auth) w).now = w.now := by
  induction l generalizing w with
  | nil => rfl
  | cons i r ih => simp only [List.foldl_cons]; rw [ih, bumpSeq_now]

theorem payFee_now {w w' : World} {tx : Tx} {first : Nat} (h : payFee w tx first = .ok w') : w'.now = w.now := by
  unfold payFee at h
  split at h
  · cases h; rfl
  · cases h1 : hookDeduct tx.auth w (.m first) [tx.fee] with
    | error e => simp [h1] at h
    | ok w1 =>
      simp only [h1] at h
      split at h
      · cases h
      · unfold bankSendUnrestricted at h
        cases h2 : debit w1 (.m first) [tx.fee] with
        | error e => simp [h2, bind, Except.bind] at h
        | ok w2 =>
          simp only [h2, bind, Except.bind] at h
          rw [(credit_spec h).2.1, (debit_spec h2).2.1, hook_now h1]

theorem ante_now {w wa : World} {tx : Tx} (h : ante w tx = .ok wa) : wa.now = w.now := by
  unfold ante at h
  simp only at h
  split at h
  · cases h
  · split at h
    · cases h
    · split at h
      · cases h
      · split at h
        · cases h
        · rename_i w1 hpay
          split at h
          · cases h; rw [bumpSeq_fold_now, payFee_now hpay]
          · cases h

/-- a transaction never changes the block time -/
theorem runTx_now (w : World) (t : Tx) : (runTx w t).1.now = w.now := by
  rcases runTx_cases w t with e | ⟨tx, wa, _, _, ha, e | ⟨wm, hm, e⟩⟩
  · rw [e]
  · rw [e, ante_now ha]
  · rw [e, execMsgs_now hm, ante_now ha]

theorem fund_now (w : World) (a : Acct) (amt : Coins) : (fund w a amt).now = w.now := by
  unfold fund
  cases h : credit w (some a) amt with
  | error e => rfl
  | ok w' => exact (credit_spec h).2.1

/-- One operation keeps a dead session dead: block time not going back, no new grant. -/
theorem step_dead {w : World} {o : Op} {m k : Nat} (hd : deadAt w m k = true) (hnc : o.creates m k = false)
    (hmono : w.now ≤ (step w o).now) : deadAt (step w o) m k = true := by
  -- same record and a block time that did not go back
  have same : sessionOf (step w o) m k = sessionOf w m k → deadAt (step w o) m k = true := by
    intro e
    unfold deadAt at hd ⊢
    rw [e]
    cases hs : sessionOf w m k with
    | none => rfl
    | some s =>
      simp only [hs, Bool.and_eq_true, decide_eq_true_eq] at hd ⊢
      exact ⟨hd.1, Int.le_trans hd.2 hmono⟩
  cases o with
  | time t => exact same rfl
  | fund a amt => exact same (by unfold sessionOf; simp [step, fund_sess])
  | tx t =>
    by_cases hs : t.signedBy m k = true
    · obtain ⟨e, he⟩ := runTx_dead hs hd
      exact same (by simp [step, he])
    · have hs' : t.signedBy m k = false := by simpa using hs
      rcases runTx_unsigned hs' (by simpa [Op.creates] using hnc) with sm | nn
      · exact same (by unfold sessionOf; simp only [step]; exact sm)
      · unfold deadAt sessionOf
        simp only [step, nn]

/-- Along a run with non-decreasing block times and no new grant a dead session stays dead. -/
theorem run_dead {m k : Nat} : ∀ (ops : List Op) (w : World), deadAt w m k = true → NoCreate m k ops →
    Monotone w ops → deadAt (run w ops) m k = true := by
  intro ops
  induction ops with
  | nil => intro w hd _ _; exact hd
  | cons o rest ih =>
    intro w hd hnc hmono
    rw [run_cons]
    exact ih (step w o) (step_dead hd (hnc o (List.mem_cons_self ..)) hmono.1)
      (fun x hx => hnc x (List.mem_cons_of_mem _ hx)) hmono.2

end GnoVerif.C16
