import GnoVerif.Proofs.C50Iter
/-! C50 helper lemmas: TraverseByOffset visits exactly the window
`drop offset |> take limit` of the (reversed) sorted list, and its boolean result is
`stopped ∨ offset + limit < size`. -/
namespace GnoVerif.C50
open OMap
namespace Node
variable {α σ : Type}

/-- visiting order -/
def order (asc : Bool) (l : List (Key × α)) : List (Key × α) := if asc then l else l.reverse

def winRun (f : σ → Node α → σ × Bool) (L : List (Key × α)) (o m : Nat) (s : σ) : σ × Bool :=
  runCb (leafCb f) s ((L.drop o).take m)

/-- what the worker is specified to do on the list `L` of its subtree (in visiting order) -/
def winSpec (f : σ → Node α → σ × Bool) (L : List (Key × α)) (o m : Nat) (s : σ) : σ × Bool :=
  ((winRun f L o m s).1, (winRun f L o m s).2 || decide (o + m < L.length))

theorem win_append (F S : List (Key × α)) (o m : Nat) :
    ((F ++ S).drop o).take m =
      (F.drop o).take m ++ (S.drop (o - F.length)).take (m - (F.length - o)) := by
  rw [List.drop_append, List.take_append, List.length_drop]

theorem winRun_append (f : σ → Node α → σ × Bool) (F S : List (Key × α)) (o m : Nat) (s : σ) :
    winRun f (F ++ S) o m s =
      match winRun f F o m s with
      | (s1, true) => (s1, true)
      | (s1, false) => winRun f S (o - F.length) (m - (F.length - o)) s1 := by
  simp only [winRun, win_append, runCb_append]
  rfl

theorem winRun_nil_of_le (f : σ → Node α → σ × Bool) (F : List (Key × α)) {o : Nat} (m : Nat) (s : σ)
    (h : F.length ≤ o) : winRun f F o m s = (s, false) := by
  simp [winRun, List.drop_of_length_le h, runCb]

theorem winRun_zero (f : σ → Node α → σ × Bool) (F : List (Key × α)) (o : Nat) (s : σ) :
    winRun f F o 0 s = (s, false) := by
  simp [winRun, runCb]

theorem winRun_single (f : σ → Node α → σ × Bool) (k : Key) (v : α) {m : Nat} (hm : 0 < m) (s : σ) :
    winRun f [(k, v)] 0 m s = f s (leaf k v) := by
  have : ([(k, v)] : List (Key × α)).take m = [(k, v)] := List.take_of_length_le (by simp; omega)
  simp only [winRun, List.drop_zero, this, runCb, leafCb]
  split <;> simp_all

/-- the body of `traverseByOffset` after the inner-node callback, with the two
recursive calls abstracted -/
def tboBody (f : σ → Node α → σ × Bool) (first second : Node α)
    (recF recS : Int → Int → σ → σ × Bool) (offset limit : Int) (s : σ) : σ × Bool :=
  if first.isLeaf then
    if offset > 0 then (if second.isLeaf then f s second else recS (offset - 1) limit s)
    else
      match f s first with
      | (s, stop) =>
        if stop then (s, true) else
        if limit - 1 ≤ 0 then (s, true)
        else (if second.isLeaf then f s second else recS offset (limit - 1) s)
  else
    if offset ≥ first.size then (if second.isLeaf then f s second else recS (offset - first.size) limit s)
    else
      match recF offset limit s with
      | (s, stop) =>
        if stop then (s, true) else
        if first.size - offset ≥ limit then (s, true)
        else (if second.isLeaf then f s second else recS 0 (limit - (first.size - offset)) s)

theorem tbo_unfold (asc : Bool) (f : σ → Node α → σ × Bool) (nk : Key) (h sz : Int) (l r : Node α)
    (offset limit : Int) (s : σ) :
    traverseByOffsetRec asc true f (inner nk h sz l r) offset limit s =
      tboBody f (if asc then l else r) (if asc then r else l)
        (if asc then traverseByOffsetRec asc true f l else traverseByOffsetRec asc true f r)
        (if asc then traverseByOffsetRec asc true f r else traverseByOffsetRec asc true f l)
        offset limit s := by
  simp only [traverseByOffsetRec, tboBody, Bool.not_true, Bool.false_eq_true, if_false]

theorem winSpec_append (f : σ → Node α → σ × Bool) (F S : List (Key × α)) (o m : Nat) (s : σ) :
    winSpec f (F ++ S) o m s =
      if (winRun f F o m s).2 = true then ((winRun f F o m s).1, true)
      else
        ((winRun f S (o - F.length) (m - (F.length - o)) (winRun f F o m s).1).1,
         (winRun f S (o - F.length) (m - (F.length - o)) (winRun f F o m s).1).2 ||
           decide (o + m < F.length + S.length)) := by
  simp only [winSpec, winRun_append, List.length_append]
  rcases winRun f F o m s with ⟨s1, st⟩
  cases st <;> simp

theorem tboBody_spec (f : σ → Node α → σ × Bool) (first second : Node α)
    (recF recS : Int → Int → σ → σ × Bool) (F S : List (Key × α))
    (hF : first.size = (F.length : Int)) (hS : second.size = (S.length : Int))
    (hFl : first.isLeaf = true → ∃ k v, first = leaf k v ∧ F = [(k, v)])
    (hSl : second.isLeaf = true → ∃ k v, second = leaf k v ∧ S = [(k, v)])
    (hFi : first.isLeaf = false → ∀ (o m : Nat) (s : σ), o < F.length → 0 < m →
      recF o m s = winSpec f F o m s)
    (hSi : second.isLeaf = false → ∀ (o m : Nat) (s : σ), o < S.length → 0 < m →
      recS o m s = winSpec f S o m s)
    (hFpos : 0 < F.length) (hSpos : 0 < S.length)
    (o m : Nat) (ho : o < F.length + S.length) (hm : 0 < m) (s : σ) :
    tboBody f first second recF recS o m s = winSpec f (F ++ S) o m s := by
  -- the tail of the Go function: `if second.IsLeaf() { return cb(second) }; return second.traverseByOffset(..)`
  have tail : ∀ (o' m' : Nat) (s' : σ), o' < S.length → 0 < m' →
      (if second.isLeaf = true then f s' second else recS (o' : Int) (m' : Int) s') = winSpec f S o' m' s' := by
    intro o' m' s' ho' hm'
    by_cases hsl : second.isLeaf = true
    · obtain ⟨k, v, rfl, rfl⟩ := hSl hsl
      simp only [List.length_singleton] at ho'
      have : o' = 0 := by omega
      subst this
      have hd : decide (0 + m' < ([(k, v)] : List (Key × α)).length) = false := by
        simp; omega
      rw [if_pos hsl, winSpec, winRun_single f k v hm', hd]
      simp
    · have hsl' : second.isLeaf = false := by simpa using hsl
      rw [if_neg hsl, hSi hsl' o' m' s' ho' hm']
  rw [winSpec_append]
  unfold tboBody
  by_cases hfl : first.isLeaf = true
  · obtain ⟨k, v, rfl, rfl⟩ := hFl hfl
    simp only [List.length_singleton] at ho hFpos ⊢
    rw [if_pos hfl]
    by_cases ho0 : (o : Int) > 0
    · -- skip the first leaf
      have ho1 : 1 ≤ o := by omega
      rw [if_pos ho0, winRun_nil_of_le f _ m s (by simpa using ho1)]
      have hc : (o : Int) - 1 = ((o - 1 : Nat) : Int) := by omega
      rw [hc, tail (o - 1) m s (by omega) hm]
      have hm0 : m - (1 - o) = m := by omega
      simp only [winSpec, hm0]
      congr 2
      simp; omega
    · -- run the first leaf
      have ho1 : o = 0 := by omega
      subst ho1
      rw [if_neg ho0, winRun_single f k v hm]
      cases hfs : f s (leaf k v) with
      | mk s1 st =>
        cases st with
        | true => simp
        | false =>
          simp only [Bool.false_eq_true, if_false]
          by_cases hm1 : (m : Int) - 1 ≤ 0
          · have : m = 1 := by omega
            subst this
            rw [if_pos hm1]
            simp [winRun_zero]; omega
          · rw [if_neg hm1]
            have hc : (m : Int) - 1 = ((m - 1 : Nat) : Int) := by omega
            rw [hc, tail 0 (m - 1) s1 hSpos (by omega)]
            simp only [winSpec, Nat.sub_zero, Nat.zero_sub]
            congr 2
            simp; omega
  · have hfl' : first.isLeaf = false := by simpa using hfl
    rw [if_neg hfl]
    by_cases hge : (o : Int) ≥ first.size
    · -- case 1: the offset skips the first subtree entirely
      have hge' : F.length ≤ o := by omega
      rw [if_pos hge, winRun_nil_of_le f _ m s hge']
      have hc : (o : Int) - first.size = ((o - F.length : Nat) : Int) := by omega
      rw [hc, tail (o - F.length) m s (by omega) hm]
      have hm0 : m - (F.length - o) = m := by omega
      simp only [winSpec, hm0]
      congr 2
      simp; omega
    · have hlt : o < F.length := by omega
      rw [if_neg hge, hFi hfl' o m s hlt hm]
      simp only [winSpec]
      by_cases hst : (winRun f F o m s).2 = true
      · simp [hst]
      · have hst' : (winRun f F o m s).2 = false := by simpa using hst
        rw [if_neg hst]
        simp only [hst', Bool.false_or]
        by_cases hin : o + m < F.length
        · -- case 3 (limit exhausted strictly inside the first subtree)
          have h0 : m - (F.length - o) = 0 := by omega
          simp [hin, h0, winRun_zero]; omega
        · simp only [hin, decide_false, Bool.false_eq_true, if_false]
          by_cases hd : first.size - (o : Int) ≥ (m : Int)
          · -- case 3 (limit exhausted exactly at the end of the first subtree)
            have h0 : m - (F.length - o) = 0 := by omega
            rw [if_pos hd]
            simp [h0, winRun_zero]; omega
          · -- case 2
            rw [if_neg hd]
            have hc : (m : Int) - (first.size - (o : Int)) = ((m - (F.length - o) : Nat) : Int) := by omega
            have h0 : ((0 : Nat) : Int) = 0 := rfl
            rw [hc, ← h0, tail 0 (m - (F.length - o)) _ hSpos (by omega)]
            have ho0 : o - F.length = 0 := by omega
            simp only [winSpec, ho0]
            congr 2
            simp; omega

theorem toList_length_pos (n : Node α) : 0 < n.toList.length := by
  obtain ⟨v, rest, h⟩ := toList_exists_head n
  simp [h]

theorem order_length (asc : Bool) (l : List (Key × α)) : (order asc l).length = l.length := by
  cases asc <;> simp [order]

theorem order_append (asc : Bool) (a b : List (Key × α)) :
    order asc (a ++ b) = if asc = true then order asc a ++ order asc b else order asc b ++ order asc a := by
  cases asc <;> simp [order]

theorem isLeaf_toList {n : Node α} (h : n.isLeaf = true) (asc : Bool) :
    ∃ k v, n = leaf k v ∧ order asc n.toList = [(k, v)] := by
  cases n with
  | leaf k v => exact ⟨k, v, rfl, by cases asc <;> simp [order]⟩
  | inner => simp [isLeaf] at h

theorem traverseByOffsetRec_spec {n : Node α} (asc : Bool) (f : σ → Node α → σ × Bool)
    (hi : n.Inv) (hnl : n.isLeaf = false) (o m : Nat) (ho : o < n.toList.length) (hm : 0 < m) (s : σ) :
    n.traverseByOffsetRec asc true f (o : Int) (m : Int) s = winSpec f (order asc n.toList) o m s := by
  induction n generalizing o m s with
  | leaf k v => simp [isLeaf] at hnl
  | inner nk h sz l r ihl ihr =>
    rw [inv_inner] at hi
    obtain ⟨hil, hir, -⟩ := hi
    have hsl := size_eq_length hil
    have hsr := size_eq_length hir
    rw [tbo_unfold, toList_inner, order_append]
    simp only [toList_inner, List.length_append] at ho
    cases asc with
    | true =>
      simp only [if_true]
      exact tboBody_spec f l r _ _ (order true l.toList) (order true r.toList)
        (by rw [order_length]; exact hsl) (by rw [order_length]; exact hsr)
        (fun h => isLeaf_toList h true) (fun h => isLeaf_toList h true)
        (fun h o m s ho hm => ihl hil h o m (by rwa [order_length] at ho) hm s)
        (fun h o m s ho hm => ihr hir h o m (by rwa [order_length] at ho) hm s)
        (by rw [order_length]; exact toList_length_pos l) (by rw [order_length]; exact toList_length_pos r)
        o m (by simp only [order_length]; omega) hm s
    | false =>
      simp only [Bool.false_eq_true, if_false]
      exact tboBody_spec f r l _ _ (order false r.toList) (order false l.toList)
        (by rw [order_length]; exact hsr) (by rw [order_length]; exact hsl)
        (fun h => isLeaf_toList h false) (fun h => isLeaf_toList h false)
        (fun h o m s ho hm => ihr hir h o m (by rwa [order_length] at ho) hm s)
        (fun h o m s ho hm => ihl hil h o m (by rwa [order_length] at ho) hm s)
        (by rw [order_length]; exact toList_length_pos r) (by rw [order_length]; exact toList_length_pos l)
        o m (by simp only [order_length]; omega) hm s

end Node

namespace Tree
variable {α σ : Type}

theorem byOffset_aux (t : Tree α) (hw : t.WF) (asc : Bool) (offset count : Int)
    (cb : σ → Key → Option α → σ × Bool) (s : σ) :
    t.nodeTraverseByOffset offset count asc true (Tree.wrapCb cb) s =
      ((runCb (fun s k v => cb s k (some v)) s (window t.toList offset count asc)).1,
       (runCb (fun s k v => cb s k (some v)) s (window t.toList offset count asc)).2 ||
         decide (0 < count ∧ max offset 0 + count < t.toList.length)) := by
  obtain ⟨node⟩ := t
  cases node with
  | none =>
    have hd : ¬ (0 < count ∧ max offset 0 + count < ((0 : Nat) : Int)) := by omega
    simp only [Tree.nodeTraverseByOffset, Tree.toList, window, runCb, List.drop_nil, List.take_nil,
      List.reverse_nil, ite_self, List.length_nil, Bool.false_or]
    refine Prod.ext rfl ?_
    exact (decide_eq_false hd).symm
  | some n =>
    have hlen := Node.size_eq_length hw.1
    have hpos := Node.toList_length_pos n
    have hwin : ∀ (o m : Nat), window n.toList (o : Int) (m : Int) asc = ((Node.order asc n.toList).drop o).take m := by
      intro o m; cases asc <;> simp [window, Node.order]
    simp only [Tree.nodeTraverseByOffset, Tree.toList]
    by_cases hfast : count ≤ 0 ∨ (if offset < 0 then 0 else offset) ≥ n.size
    · rw [if_pos hfast]
      rcases hfast with hc | ho
      · have : count.toNat = 0 := by omega
        have hd : ¬ (0 < count ∧ max offset 0 + count < (n.toList.length : Int)) := by omega
        simp [window, this, runCb, hd]
      · have : n.toList.length ≤ offset.toNat := by split at ho <;> omega
        have hd : ¬ (0 < count ∧ max offset 0 + count < (n.toList.length : Int)) := by
          split at ho <;> omega
        have hdrop : ∀ (L : List (Key × α)), L.length = n.toList.length → L.drop offset.toNat = [] :=
          fun L hL => List.drop_of_length_le (by omega)
        cases asc <;> simp [window, hdrop, runCb, hd]
    · rw [if_neg hfast]
      -- offset clamped, 0 ≤ o < size, 0 < count
      obtain ⟨o, ho⟩ : ∃ o : Nat, (if offset < 0 then 0 else offset) = (o : Int) :=
        ⟨(if offset < 0 then 0 else offset).toNat, by split <;> omega⟩
      obtain ⟨m, hm⟩ : ∃ m : Nat, count = (m : Int) := ⟨count.toNat, by omega⟩
      have hoff : offset.toNat = o := by split at ho <;> omega
      have hmo : max offset 0 = (o : Int) := by split at ho <;> omega
      have ho' : o < n.toList.length := by omega
      have hm' : 0 < m := by omega
      have hwin' : window n.toList offset count asc = ((Node.order asc n.toList).drop o).take m := by
        rw [← hwin o m]; simp only [window, hoff, hm, Int.toNat_natCast]
      rw [ho, hwin', hmo]
      cases hleaf : n.isLeaf with
      | true =>
        obtain ⟨k, v, rfl, hord⟩ := Node.isLeaf_toList hleaf asc
        simp only [Node.toList_leaf, List.length_singleton] at ho' hord ⊢
        have : o = 0 := by omega
        subst this
        have h0 : ¬ (((0 : Nat) : Int) > 0) := by omega
        have ht : ([(k, v)] : List (Key × α)).take m = [(k, v)] := List.take_of_length_le (by simp; omega)
        have hd : ¬ (0 < count ∧ ((0 : Nat) : Int) + count < ((1 : Nat) : Int)) := by omega
        simp only [if_true, h0, if_false, hord, List.drop_zero, ht, runCb, Tree.wrapCb, Node.key, Node.value?]
        split <;> simp_all
      | false =>
        simp only [Bool.false_eq_true, if_false]
        rw [hm, Node.traverseByOffsetRec_spec asc _ hw.1 hleaf o m ho' hm' s]
        simp only [Node.winSpec, Node.winRun, Node.order_length]
        have : (Node.leafCb (Tree.wrapCb cb) : σ → Key → α → σ × Bool) = fun s k v => cb s k (some v) := rfl
        rw [this]
        have hdec : decide (o + m < n.toList.length) =
            decide (0 < (m : Int) ∧ (o : Int) + (m : Int) < (n.toList.length : Int)) := by
          rw [decide_eq_decide]; omega
        rw [hdec]
        refine Prod.ext rfl ?_
        congr

end Tree
end GnoVerif.C50
