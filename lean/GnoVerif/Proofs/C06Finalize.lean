import GnoVerif.Proofs.C06Update
/-! C06 — the ref-count invariant through the phases of FinalizeRealmTransaction. -/
namespace GnoVerif.C06
open State

/-! ### an assignment with its DidUpdate -/

theorem isReal_setSlot (s : State) (a i : Nat) (v : Option Nat) (x : Nat) :
    (setSlot s a i v).isReal x = s.isReal x := by
  unfold State.isReal
  rw [get_setSlot]
  split
  · rename_i h; rw [h.1]
  · rfl

theorem assign_keeps (s : State) (cur po i : Nat) (v : Option Nat)
    (hw : WF s) (h : RCI s fun _ => 0) (hpo : po < s.heap.length) (hi : i < (s.get po).kids.length)
    (hv : ∀ c, v = some c → c < s.heap.length)
    (hown : s.isReal po = true → (s.get po).pkg = cur ∧ (s.get po).deleted = false) :
    (assign s cur po i v).heap.length = s.heap.length ∧ WF (assign s cur po i v) ∧
      RCI (assign s cur po i v) fun _ => 0 := by
  unfold assign
  simp only []
  have r1 := rci_setSlot s po i v (fun _ => 0) hpo hi h
  have w1 := wf_setSlot s po i v hw hv
  have hxo : ∀ c, slot s po i = some c → c < (setSlot s po i v).heap.length := by
    intro c hc
    rw [length_setSlot]
    apply hw.kids_in_range po hpo c
    rw [mem_children_iff]
    unfold slot at hc
    rw [List.getD_eq_getElem?_getD, List.getElem?_eq_getElem hi] at hc
    simp only [Option.getD_some] at hc
    rw [← hc]; exact List.getElem_mem hi
  have hpkg : (setSlot s po i v).isReal po = true → ((setSlot s po i v).get po).pkg = cur := by
    intro hr
    rw [isReal_setSlot] at hr
    rw [get_setSlot]; simp only [hpo, and_self, if_true]
    exact (hown hr).1
  obtain ⟨l2, w2, r2⟩ := rci_didUpdate (setSlot s po i v) cur po (slot s po i) v (fun _ => 0) w1 hxo
    (fun c hc => by rw [length_setSlot]; exact hv c hc) hpkg (by
      intro x hx
      have := r1 x hx
      rw [isReal_setSlot]
      by_cases hr : s.isReal po = true
      · have hc : counted (s.get po) = true := by
          have := (hown hr).2
          simp only [State.isReal] at hr
          simp [counted, hr, this]
        simp only [hr, hc, if_true] at this ⊢
        exact this
      · have hr' : s.isReal po = false := by simpa using hr
        have hc : counted (s.get po) = false := by
          simp only [State.isReal, bne_eq_false_iff_eq] at hr'
          simp [counted, hr']
        simp only [hr', hc, Bool.false_eq_true, if_false] at this ⊢
        exact this)
  exact ⟨l2.trans (length_setSlot _ _ _ _), w2, r2⟩

/-! ### folds -/

/-- `Keeps` at one state -/
def Kept (s s' : State) (owe : Nat → Int) : Prop :=
  s'.heap.length = s.heap.length ∧ WF s' ∧ RCI s' owe

theorem foldl_sameCore {α : Type} (f : State → α → State) (h : ∀ s x, SameCore s (f s x)) :
    ∀ (l : List α) (s : State), SameCore s (l.foldl f s) := by
  intro l
  induction l with
  | nil => intro s; exact SameCore.refl s
  | cons x xs ih => intro s; exact (h s x).trans (ih _)

theorem foldl_keeps {α : Type} (f : State → α → State) (h : ∀ x, Keeps fun s => f s x) :
    ∀ (l : List α), Keeps fun s => l.foldl f s := by
  intro l
  induction l with
  | nil => intro s owe hw hr; exact ⟨rfl, hw, hr⟩
  | cons x xs ih =>
    intro s owe hw hr
    obtain ⟨l1, w1, r1⟩ := h x s owe hw hr
    obtain ⟨l2, w2, r2⟩ := ih (f s x) owe w1 r1
    exact ⟨l2.trans l1, w2, r2⟩

/-! ### processNewCreatedMarks -/

theorem processNewCreated_keeps (r : Nat) : Keeps fun s => processNewCreated s r := by
  intro s owe hw hr
  unfold processNewCreated
  apply foldl_keeps (fun s a => if (s.get a).rc = 0 then s else incRef s.fuelFor s r a) _ _ s owe hw hr
  intro a s owe hw hr
  show Kept s (if (s.get a).rc = 0 then s else incRef s.fuelFor s r a) owe
  split
  · exact ⟨rfl, hw, hr⟩
  · exact incRef_keeps _ r a s owe hw hr

/-! ### processNewDeletedMarks -/

theorem processNewDeleted_keeps (r : Nat) :
    ∀ (l : List Nat) (s : State) (owe : Nat → Int), (∀ a ∈ l, s.isReal a = true) → WF s → Closed s → RCI s owe →
      let s' := l.foldl (fun s a =>
        if (s.get a).rc > 0 then s.modify a fun o => { o with newDeleted := false } else decRef s.fuelFor s r a) s
      s'.heap.length = s.heap.length ∧ WF s' ∧ Closed s' ∧ RCI s' owe ∧ ∀ x, s'.isReal x = s.isReal x := by
  intro l
  induction l with
  | nil => intro s owe _ hw hc hr; exact ⟨rfl, hw, hc, hr, fun _ => rfl⟩
  | cons a l ih =>
    intro s owe hreal hw hc hr
    simp only [List.foldl_cons]
    have hstep : ∃ s1, s1 = (if (s.get a).rc > 0 then s.modify a fun o => { o with newDeleted := false }
        else decRef s.fuelFor s r a) ∧
        s1.heap.length = s.heap.length ∧ WF s1 ∧ Closed s1 ∧ RCI s1 owe ∧ ∀ x, s1.isReal x = s.isReal x := by
      refine ⟨_, rfl, ?_⟩
      split
      · have sc : SameCore s (s.modify a fun o => { o with newDeleted := false }) :=
          sameCore_modify s a _ (by intro o; rfl)
        exact ⟨sc.1, sc.wf hw, sc.closed hc, sc.rci hr, fun x => sc.isReal x⟩
      · exact decRef_keeps _ r a s owe hw hc hr (hreal a List.mem_cons_self)
    obtain ⟨s1, hs1, l1, w1, c1, r1, i1⟩ := hstep
    rw [← hs1]
    obtain ⟨l2, w2, c2, r2, i2⟩ := ih s1 owe (fun x hx => by rw [i1]; exact hreal x (List.mem_cons_of_mem _ hx)) w1 c1 r1
    exact ⟨l2.trans l1, w2, c2, r2, fun x => (i2 x).trans (i1 x)⟩

/-! ### processNewEscapedMarks -/

theorem escapeOne_keeps (r e : Nat) : Keeps fun s => escapeOne s r e := by
  intro s owe hw hr
  show Kept s (escapeOne s r e) owe
  unfold escapeOne
  split
  · have sc : SameCore s (s.modify e fun o => { o with newEscaped := false }) := sameCore_modify s e _ (by intro o; rfl)
    exact ⟨sc.1, sc.wf hw, sc.rci hr⟩
  · split
    · exact ⟨rfl, hw, hr⟩
    · rename_i po _
      simp only []
      have sc1 : SameCore s (if (s.get po).rc = 0 then s else if (s.get po).newReal = true then s else markDirty s r po) := by
        split
        · exact SameCore.refl s
        · split
          · exact SameCore.refl s
          · exact sameCore_markDirty _ _ _
      generalize (if (s.get po).rc = 0 then s else if (s.get po).newReal = true then s else markDirty s r po) = s1 at sc1 ⊢
      have w1 := sc1.wf hw
      have r1 := sc1.rci hr
      have step2 : Kept s1 (if ¬ s1.isReal e = true then
            (incRef s1.fuelFor s1 r e).modify e fun o => { o with newReal := true } else s1) owe := by
        split
        · obtain ⟨l, w, rr⟩ := incRef_keeps s1.fuelFor r e s1 owe w1 r1
          have sc : SameCore (incRef s1.fuelFor s1 r e)
              ((incRef s1.fuelFor s1 r e).modify e fun o => { o with newReal := true }) :=
            sameCore_modify _ e _ (by intro o; rfl)
          exact ⟨sc.1.trans l, sc.wf w, sc.rci rr⟩
        · exact ⟨rfl, w1, r1⟩
      generalize (if ¬ s1.isReal e = true then
            (incRef s1.fuelFor s1 r e).modify e fun o => { o with newReal := true } else s1) = s2 at step2 ⊢
      obtain ⟨l2, w2, r2⟩ := step2
      have sc3 := sameCore_setOwner s2 e none
      exact ⟨sc3.1.trans (l2.trans sc1.1), sc3.wf w2, sc3.rci r2⟩

theorem processNewEscapedLoop_keeps (r : Nat) : ∀ (fuel i : Nat), Keeps fun s => processNewEscapedLoop fuel s r i := by
  intro fuel
  induction fuel with
  | zero => intro i s owe hw hr; exact ⟨rfl, (sameCore_fail s).wf hw, (sameCore_fail s).rci hr⟩
  | succ fuel ih =>
    intro i s owe hw hr
    show Kept s (processNewEscapedLoop (fuel + 1) s r i) owe
    unfold processNewEscapedLoop
    split
    · exact ⟨rfl, hw, hr⟩
    · rename_i e _
      obtain ⟨l1, w1, r1⟩ := escapeOne_keeps r e s owe hw hr
      obtain ⟨l2, w2, r2⟩ := ih (i + 1) (escapeOne s r e) owe w1 r1
      exact ⟨l2.trans l1, w2, r2⟩

theorem processNewEscaped_keeps (r : Nat) : Keeps fun s => processNewEscaped s r := by
  intro s owe hw hr
  exact processNewEscapedLoop_keeps r _ 0 s owe hw hr

/-! ### the phases that only touch flags -/

theorem sameCore_markAncestors (r : Nat) : ∀ (fuel : Nat) (s : State) (a : Nat), SameCore s (markAncestors fuel s r a) := by
  intro fuel
  induction fuel with
  | zero => intro s a; exact sameCore_fail s
  | succ fuel ih =>
    intro s a
    unfold markAncestors
    split
    · exact SameCore.refl s
    · split
      · exact SameCore.refl s
      · rename_i po _
        split
        · exact SameCore.refl s
        · split
          · exact SameCore.refl s
          · split
            · exact SameCore.refl s
            · exact (sameCore_markDirty s r po).trans (ih _ po)

theorem sameCore_markDirtyAncestors (s : State) (r : Nat) : SameCore s (markDirtyAncestors s r) := by
  unfold markDirtyAncestors
  simp only []
  have hstep : ∀ (s : State) (a : Nat),
      SameCore s (if (s.get a).deleted = true then s else markAncestors s.fuelFor s r a) := by
    intro s a
    split
    · exact SameCore.refl s
    · exact sameCore_markAncestors r _ s a
  exact (foldl_sameCore _ hstep _ s).trans (foldl_sameCore _ hstep _ _)

theorem sameCore_saveObject (s : State) (a : Nat) : SameCore s (saveObject s a) := by
  unfold saveObject
  split
  · exact sameCore_fail s
  · simp only []
    have h1 : SameCore s (if (s.get a).newEscaped = true then
        s.modify a fun o => { o with newEscaped := false, escaped := true } else s) := by
      split
      · exact sameCore_modify s a _ (by intro o; rfl)
      · exact SameCore.refl s
    generalize (if (s.get a).newEscaped = true then
        s.modify a fun o => { o with newEscaped := false, escaped := true } else s) = s1 at h1 ⊢
    split
    · exact h1
    · exact h1.trans (sameCore_fail s1)

theorem sameCore_saveRec : ∀ (fuel : Nat) (s : State) (a : Nat), SameCore s (saveRec fuel s a) := by
  intro fuel
  induction fuel with
  | zero => intro s a; exact sameCore_fail s
  | succ fuel ih =>
    intro s a
    unfold saveRec
    simp only []
    have hstep : ∀ (s : State) (c : Nat), SameCore s
        (if (s.get c).newReal = true ∨ (s.get c).dirty = true then
          if (s.get c).escaped = true ∨ (s.get c).newEscaped = true then s else saveRec fuel s c
        else s) := by
      intro s c
      split
      · split
        · exact SameCore.refl s
        · exact ih s c
      · exact SameCore.refl s
    have h1 := foldl_sameCore _ hstep (s.children a) s
    generalize List.foldl _ s (s.children a) = s1 at h1 ⊢
    have h2 := h1.trans (sameCore_saveObject s1 a)
    split
    · exact h2.trans (sameCore_modify _ a _ (by intro o; rfl))
    · exact h2.trans (sameCore_modify _ a _ (by intro o; rfl))

theorem sameCore_saveUnsaved (s : State) (r : Nat) : SameCore s (saveUnsaved s r) := by
  unfold saveUnsaved
  simp only []
  have h1 : ∀ (s : State) (a : Nat), SameCore s
      (if ¬ (s.get a).newReal = true then s else if (s.get a).deleted = true then s else saveRec s.fuelFor s a) := by
    intro s a
    split
    · exact SameCore.refl s
    · split
      · exact SameCore.refl s
      · exact sameCore_saveRec _ s a
  have h2 : ∀ (s : State) (a : Nat), SameCore s
      (if ¬ (s.get a).dirty = true then s else if (s.get a).deleted = true then s
       else (saveObject s a).modify a fun o => { o with dirty := false }) := by
    intro s a
    split
    · exact SameCore.refl s
    · split
      · exact SameCore.refl s
      · exact (sameCore_saveObject s a).trans (sameCore_modify _ a _ (by intro o; rfl))
  exact (foldl_sameCore _ h1 _ s).trans (foldl_sameCore _ h2 _ _)

theorem sameCore_removeDeleted (s : State) (r : Nat) : SameCore s (removeDeleted s r) := by
  unfold removeDeleted
  exact foldl_sameCore _ (fun s a => sameCore_modify s a _ (by intro o; rfl)) _ s

theorem sameCore_clearMarks (s : State) (r : Nat) : SameCore s (clearMarks s r) := sameCore_modMarks s r _

/-- the marks of realm `r` that processNewCreated leaves for processNewDeleted -/
theorem finalize_keeps (s : State) (r : Nat) (owe : Nat → Int) (hw : WF s) (hr : RCI s owe)
    (hdel : ∀ a ∈ ((processNewCreated s r).marksOf r).newDeleted, (processNewCreated s r).isReal a = true)
    (hcl : Closed (processNewCreated s r)) :
    (finalize s r).heap.length = s.heap.length ∧ WF (finalize s r) ∧ RCI (finalize s r) owe := by
  obtain ⟨l1, w1, r1⟩ := processNewCreated_keeps r s owe hw hr
  obtain ⟨l2, w2, _, r2, _⟩ := processNewDeleted_keeps r _ (processNewCreated s r) owe hdel w1 hcl r1
  have e2 : processNewDeleted (processNewCreated s r) r = List.foldl (fun s a =>
        if (s.get a).rc > 0 then s.modify a fun o => { o with newDeleted := false } else decRef s.fuelFor s r a)
        (processNewCreated s r) ((processNewCreated s r).marksOf r).newDeleted := rfl
  rw [← e2] at l2 w2 r2
  obtain ⟨l3, w3, r3⟩ := processNewEscaped_keeps r _ owe w2 r2
  have sc := (sameCore_markDirtyAncestors (processNewEscaped (processNewDeleted (processNewCreated s r) r) r) r).trans
    ((sameCore_saveUnsaved _ r).trans ((sameCore_removeDeleted _ r).trans (sameCore_clearMarks _ r)))
  exact ⟨sc.1.trans (l3.trans (l2.trans l1)), sc.wf w3, sc.rci r3⟩

end GnoVerif.C06
