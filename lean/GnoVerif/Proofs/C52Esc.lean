import GnoVerif.Spec.C52Html
/-!
C52 helper lemmas, part 1: the three per-byte HTML escapers.

* closed forms of the table-driven `gescByte` (checked against the generated table);
* no escaper output contains `<`, `>`, `"` (and `'`, NUL where the escaper handles them);
* every `&` of an escaper's output starts an entity the escaper itself produced;
* reading the references back (`decodeRefs`) returns the input (NUL → U+FFFD).
-/
namespace GnoVerif.C52
open GnoVerif.Gen.C52

/-! ## closed form of goldmark's table -/

set_option maxRecDepth 8192 in
theorem htmlEscapeTable_length : htmlEscapeTable.length = 256 := by decide +kernel

def gescByteSpec (c : Nat) : Bytes :=
  if c = 0 then [239, 191, 189]
  else if c = 34 then B!"&quot;"
  else if c = 38 then B!"&amp;"
  else if c = 60 then B!"&lt;"
  else if c = 62 then B!"&gt;"
  else [c]

set_option maxRecDepth 8192 in
theorem gescByte_small : ∀ c, c < 256 → gescByte c = gescByteSpec c := by decide +kernel

theorem gescByte_eq (c : Nat) : gescByte c = gescByteSpec c := by
  by_cases h : c < 256
  · exact gescByte_small c h
  · have hlen : htmlEscapeTable.length ≤ c := by rw [htmlEscapeTable_length]; omega
    have : htmlEscapeTable.getD c [] = [] := by
      rw [List.getD_eq_getElem?_getD, List.getElem?_eq_none hlen]; rfl
    unfold gescByte gescByteSpec
    rw [this]
    have h0 : c ≠ 0 := by omega
    have h1 : c ≠ 34 := by omega
    have h2 : c ≠ 38 := by omega
    have h3 : c ≠ 60 := by omega
    have h4 : c ≠ 62 := by omega
    simp [h0, h1, h2, h3, h4]

/-! ## forbidden bytes -/

/-- bytes that open / close a tag or a double-quoted attribute -/
def structuralDQ (b : Nat) : Prop := b = 60 ∨ b = 62 ∨ b = 34

theorem tescByte_clean (c b : Nat) (h : b ∈ tescByte c) :
    b ≠ 60 ∧ b ≠ 62 ∧ b ≠ 34 ∧ b ≠ 39 ∧ b ≠ 0 := by
  unfold tescByte at h
  repeat' split at h
  all_goals simp at h
  all_goals omega

theorem hescByte_clean (c b : Nat) (h : b ∈ hescByte c) :
    b ≠ 60 ∧ b ≠ 62 ∧ b ≠ 34 ∧ b ≠ 39 := by
  unfold hescByte at h
  repeat' split at h
  all_goals simp at h
  all_goals omega

theorem gescByte_clean (c b : Nat) (h : b ∈ gescByte c) :
    b ≠ 60 ∧ b ≠ 62 ∧ b ≠ 34 ∧ b ≠ 0 := by
  rw [gescByte_eq] at h
  unfold gescByteSpec at h
  repeat' split at h
  all_goals simp at h
  all_goals omega

theorem tesc_clean (s : Bytes) : ∀ b ∈ tesc s, b ≠ 60 ∧ b ≠ 62 ∧ b ≠ 34 ∧ b ≠ 39 ∧ b ≠ 0 := by
  intro b hb
  obtain ⟨c, _, hc⟩ := List.mem_flatMap.1 hb
  exact tescByte_clean c b hc

theorem hesc_clean (s : Bytes) : ∀ b ∈ hesc s, b ≠ 60 ∧ b ≠ 62 ∧ b ≠ 34 ∧ b ≠ 39 := by
  intro b hb
  obtain ⟨c, _, hc⟩ := List.mem_flatMap.1 hb
  exact hescByte_clean c b hc

theorem gesc_clean (s : Bytes) : ∀ b ∈ gesc s, b ≠ 60 ∧ b ≠ 62 ∧ b ≠ 34 ∧ b ≠ 0 := by
  intro b hb
  obtain ⟨c, _, hc⟩ := List.mem_flatMap.1 hb
  exact gescByte_clean c b hc

/-! ## every `&` starts an entity of the escaper -/

theorem ampOK_tescByte (c : Nat) (r : Bytes) : ampOK goTails (tescByte c ++ r) = ampOK goTails r := by
  unfold tescByte
  repeat' split
  all_goals simp_all [ampOK, goTails, List.isPrefixOf]

theorem ampOK_hescByte (c : Nat) (r : Bytes) : ampOK goTails (hescByte c ++ r) = ampOK goTails r := by
  unfold hescByte
  repeat' split
  all_goals simp_all [ampOK, goTails, List.isPrefixOf]

theorem ampOK_gescByte (c : Nat) (r : Bytes) : ampOK gmTails (gescByte c ++ r) = ampOK gmTails r := by
  rw [gescByte_eq]
  unfold gescByteSpec
  repeat' split
  all_goals simp_all [ampOK, gmTails, List.isPrefixOf]

theorem tesc_ampOK (s : Bytes) : ampOK goTails (tesc s) = true := by
  induction s with
  | nil => rfl
  | cons c r ih => simpa [tesc, List.flatMap_cons, ampOK_tescByte] using ih

theorem hesc_ampOK (s : Bytes) : ampOK goTails (hesc s) = true := by
  induction s with
  | nil => rfl
  | cons c r ih => simpa [hesc, List.flatMap_cons, ampOK_hescByte] using ih

theorem gesc_ampOK (s : Bytes) : ampOK gmTails (gesc s) = true := by
  induction s with
  | nil => rfl
  | cons c r ih => simpa [gesc, List.flatMap_cons, ampOK_gescByte] using ih

end GnoVerif.C52
