/- Helper lemmas for C48: Bytes and the JSON encoding of `BitArray`. -/
import GnoVerif.Proofs.C48
namespace GnoVerif.C48

/-! ### Bytes -/

theorem length_le8 (e : Word) : (le8 e).length = 8 := by simp [le8]

theorem getD_le8 (e : Word) (j : Nat) (hj : j < 8) :
    (le8 e).getD j 0 = (e >>> (8 * j)).setWidth 8 := by
  unfold le8
  rw [List.getD_eq_getElem?_getD, List.getElem?_map, List.getElem?_range hj]
  rfl

theorem getD_le8_zero (j : Nat) : (le8 0).getD j 0 = 0 := by
  rcases Nat.lt_or_ge j 8 with h | h
  · rw [getD_le8 _ _ h]; simp
  · rw [List.getD_eq_getElem?_getD, List.getElem?_eq_none (by rw [length_le8]; exact h)]; rfl

theorem getD_flatMap_le8 : ∀ (es : List Word) (k : Nat),
    (es.flatMap le8).getD k 0 = (le8 (es.getD (k / 8) 0)).getD (k % 8) 0
  | [], k => by
    simp only [List.flatMap_nil, List.getD_nil]
    exact (getD_le8_zero _).symm
  | e :: es, k => by
    rw [List.flatMap_cons, List.getD_eq_getElem?_getD, List.getElem?_append, length_le8]
    rcases Nat.lt_or_ge k 8 with h | h
    · rw [if_pos h, show k / 8 = 0 by omega, show k % 8 = k by omega]
      rw [← List.getD_eq_getElem?_getD]; rfl
    · rw [if_neg (by omega), ← List.getD_eq_getElem?_getD, getD_flatMap_le8 es (k - 8)]
      rw [show k / 8 = (k - 8) / 8 + 1 by omega, show (k - 8) % 8 = k % 8 by omega]
      rfl

theorem length_flatMap_le8 : ∀ es : List Word, (es.flatMap le8).length = 8 * es.length
  | [] => rfl
  | e :: es => by
    rw [List.flatMap_cons, List.length_append, length_le8, length_flatMap_le8 es, List.length_cons]
    omega

theorem getD_replicate_self {α : Type} (n j : Nat) (z : α) : (List.replicate n z).getD j z = z := by
  simp only [List.getD_eq_getElem?_getD, List.getElem?_replicate]
  split <;> rfl

theorem bytes_some_spec (b : BA) (hb : b.WF) :
    ∃ bs, bytes (some b) = .ok bs ∧ bs.length = (b.bits + 7) / 8 ∧
      ∀ k j, j < 8 → (bs.getD k 0).getLsbD j = bget b.abs (8 * k + j) := by
  have hlen := hb.len
  unfold numElements at hlen
  refine ⟨goCopy (List.replicate ((b.bits + 7) / 8) 0) (b.elems.flatMap le8), ?_, ?_, ?_⟩
  · simp only [bytes]
    rw [if_neg (by omega)]
  · rw [length_goCopy]; simp
  · intro k j hj
    rw [hb.bget_abs, getD_goCopy, getD_replicate_self, List.length_replicate]
    have hflat : ∀ k, ((b.elems.flatMap le8).getD k 0).getLsbD j = bitAt b.elems (8 * k + j) := by
      intro k
      rw [getD_flatMap_le8, getD_le8 _ _ (by omega), BitVec.getLsbD_setWidth,
        BitVec.getLsbD_ushiftRight]
      unfold bitAt
      rw [show (8 * k + j) / 64 = k / 8 by omega, show (8 * k + j) % 64 = 8 * (k % 8) + j by omega]
      simp [hj]
    split
    · exact hflat k
    · rename_i hk
      rcases Nat.lt_or_ge k ((b.bits + 7) / 8) with h1 | h1
      · -- then k is past the words: both sides are false
        have h2 : (b.elems.flatMap le8).length ≤ k := by omega
        rw [bitAt_of_ge _ _ (by
          have := length_flatMap_le8 b.elems
          omega)]
        simp
      · rw [hb.pad _ (by omega)]; simp

/-! ### JSON -/

def encBit (x : Bool) : Byte := if x then cX else cUnderscore

theorem specJSON_eq (v : List Bool) : specJSON v = cQuote :: (v.map encBit ++ [cQuote]) := rfl

theorem marshalJSON_some_spec (b : BA) (hl : b.elems.length = numElements b.bits) :
    marshalJSON (some b) = specJSON b.abs := by
  simp only [marshalJSON, specJSON, bitChars, BA.abs, List.map_map]
  congr 2
  apply List.map_congr_left
  intro i hi
  have := List.mem_range.1 hi
  simp [Function.comp, BA.getIndex_eq b hl, this]

theorem specJSON_ne_null (v : List Bool) : specJSON v ≠ nullBytes := by
  intro h
  unfold specJSON nullBytes at h
  injection h with h1 _
  exact absurd h1 (by decide)

theorem matchBitString_specJSON (v : List Bool) :
    matchBitString (specJSON v) = some (v.map encBit) := by
  rw [specJSON_eq]
  simp only [matchBitString]
  rw [if_neg (by simp), if_neg (by simp), if_neg (by simp)]
  rw [List.dropLast_concat, if_pos]
  rw [List.all_eq_true]
  intro c hc
  obtain ⟨x, _, rfl⟩ := List.mem_map.1 hc
  cases x <;> simp [encBit]

theorem encBit_eq_cX (x : Bool) : (encBit x = cX) ↔ x = true := by
  cases x
  · simp only [encBit, Bool.false_eq_true, if_false, iff_false]; decide
  · simp [encBit]

/-- the fill loop of UnmarshalJSON, for any characters: well-formed, and bit `i` is
set exactly when character `i` is `x` -/
theorem fillFrom_spec (chars : List Byte) (n : Nat) (hn : chars.length = n) :
    (fillFrom chars ⟨n, List.replicate (numElements n) 0⟩).bits = n ∧
    (fillFrom chars ⟨n, List.replicate (numElements n) 0⟩).elems.length = numElements n ∧
    ∀ i, bitAt (fillFrom chars ⟨n, List.replicate (numElements n) 0⟩).elems i =
      (decide (i < n) && decide (chars.getD i 0 = cX)) := by
  unfold fillFrom
  rw [hn]
  suffices h : ∀ k, k ≤ n →
      let r := (List.range k).foldl
        (fun b i => if chars.getD i 0 = cX then (b.setIndex i true).1 else b)
        (⟨n, List.replicate (numElements n) 0⟩ : BA)
      r.bits = n ∧ r.elems.length = numElements n ∧
      ∀ i, bitAt r.elems i = (decide (i < k) && decide (chars.getD i 0 = cX)) by
    exact h n (Nat.le_refl _)
  intro k
  induction k with
  | zero =>
    intro _
    refine ⟨rfl, by simp, fun i => ?_⟩
    show bitAt (List.replicate (numElements n) 0) i = _
    rw [bitAt_replicate_zero]; simp
  | succ k ih =>
    intro hk
    obtain ⟨h1, h2, h3⟩ := ih (by omega)
    simp only [List.range_succ, List.foldl_append, List.foldl_cons, List.foldl_nil]
    generalize (List.range k).foldl
        (fun b i => if chars.getD i 0 = cX then (b.setIndex i true).1 else b)
        (⟨n, List.replicate (numElements n) 0⟩ : BA) = r at h1 h2 h3
    by_cases hx : chars.getD k 0 = cX
    · rw [if_pos hx]
      obtain ⟨_, s2, s3, s4⟩ := r.setIndex_spec (by rw [h2, h1]) k true (by omega)
      refine ⟨by rw [s2, h1], by rw [s3, h2], fun i => ?_⟩
      rw [s4, h3]
      by_cases hik : i = k
      · subst hik; rw [if_pos rfl, decide_eq_true hx]; simp
      · have : (i < k + 1) ↔ i < k := by omega
        simp [hik, this]
    · rw [if_neg hx]
      refine ⟨h1, h2, fun i => ?_⟩
      rw [h3]
      by_cases hik : i = k
      · subst hik; rw [decide_eq_false hx]; simp
      · have : (i < k + 1) ↔ i < k := by omega
        simp [this]

theorem fillFrom_wf (chars : List Byte) :
    (fillFrom chars ⟨chars.length, List.replicate (numElements chars.length) 0⟩).WF := by
  obtain ⟨h1, h2, h3⟩ := fillFrom_spec chars chars.length rfl
  refine ⟨by rw [h2, h1], fun i hi => ?_⟩
  rw [h1] at hi
  rw [h3]; simp [show ¬ i < chars.length by omega]

theorem newBitArray_natCast (n : Nat) :
    newBitArray (n : Int) = if n = 0 then none else some ⟨n, List.replicate (numElements n) 0⟩ := by
  unfold newBitArray
  by_cases h : n = 0
  · subst h; simp
  · rw [if_neg (by omega), if_neg h]; simp

/-- whatever UnmarshalJSON accepts, the result is well-formed -/
theorem unmarshalJSON_wf (bz : List Byte) (b : BA) (h : unmarshalJSON bz = some b) : b.WF := by
  have hz : (⟨0, []⟩ : BA).WF := ⟨rfl, fun i _ => bitAt_nil i⟩
  unfold unmarshalJSON at h
  split at h
  · injection h with h; subst h; exact hz
  · split at h
    · exact absurd h (by simp)
    · rename_i chars _
      rw [newBitArray_natCast] at h
      by_cases h0 : chars.length = 0
      · rw [if_pos h0] at h
        injection h with h; subst h; exact hz
      · rw [if_neg h0] at h
        injection h with h; subst h
        exact fillFrom_wf chars

/-- decoding the JSON form of a vector gives a well-formed array standing for that vector -/
theorem unmarshalJSON_specJSON (v : List Bool) :
    ∃ b, unmarshalJSON (specJSON v) = some b ∧ b.WF ∧ b.abs = v := by
  have hz : (⟨0, []⟩ : BA).WF := ⟨rfl, fun i _ => bitAt_nil i⟩
  unfold unmarshalJSON
  rw [if_neg (specJSON_ne_null v), matchBitString_specJSON]
  simp only
  rw [newBitArray_natCast, List.length_map]
  by_cases h0 : v.length = 0
  · rw [if_pos h0]
    refine ⟨_, rfl, hz, ?_⟩
    rw [List.length_eq_zero_iff.1 h0]; rfl
  · rw [if_neg h0]
    have hlen : (v.map encBit).length = v.length := List.length_map _
    obtain ⟨h1, h2, h3⟩ := fillFrom_spec (v.map encBit) v.length hlen
    refine ⟨_, rfl, ?_, ?_⟩
    · have := fillFrom_wf (v.map encBit)
      rwa [hlen] at this
    · apply abs_eq_of
      · exact h1.symm
      · intro i hi
        rw [h1] at hi
        rw [h3, bget_of_lt v i hi]
        have : (v.map encBit).getD i 0 = encBit v[i] := by
          rw [List.getD_eq_getElem?_getD, List.getElem?_map, List.getElem?_eq_getElem hi]; rfl
        rw [this]
        simp [hi, encBit_eq_cX]

end GnoVerif.C48
