import GnoVerif.Proofs.C20Prim
/-! Facts about descriptors and single fields inside the proved fragment (C20). -/
namespace GnoVerif.C20

/-! ### typ3 / repr of fragment descriptors -/

theorem repr_prim {env : Env} {td : TD} (h : isPrimTD td = true) : repr env td = td := by
  cases td <;> simp [isPrimTD] at h <;> rfl

theorem typ3_prim_code {env : Env} {td : TD} (h : isPrimTD td = true) :
    typ3 env td = typ3Of env 0 td := by
  cases td <;> simp [isPrimTD] at h <;> rfl

theorem isUnpackedList_prim {env : Env} {td : TD} (h : isPrimTD td = true) : isUnpackedList env td = false := by
  unfold isUnpackedList
  rw [repr_prim h]
  cases td <;> simp [isPrimTD] at h <;> rfl

theorem aliasOf_struct {env : Env} {name : Bytes} {n : Bytes} {ifs : List Bytes} {fs : List FieldD} {rs : List Nat}
    (h : env.find? name = some ⟨n, ifs, .struct fs rs⟩) : aliasOf env name = none := by
  simp [aliasOf, h]

theorem repr_ref {env : Env} {name : Bytes} (h : aliasOf env name = none) : repr env (.ref name) = .ref name := by
  simp [repr, reprOf, chainFuel, h]

theorem typ3_ref {env : Env} {name : Bytes} (h : aliasOf env name = none) : typ3 env (.ref name) = .blen := by
  simp [typ3, typ3Of, chainFuel, h]

theorem isUnpackedList_ref {env : Env} {name : Bytes} (h : aliasOf env name = none) :
    isUnpackedList env (.ref name) = false := by
  simp [isUnpackedList, repr_ref h]

theorem isStructKind_ref {env : Env} {name : Bytes} (h : aliasOf env name = none) :
    isStructKind env (.ref name) = true := by
  simp [isStructKind, h]

/-! ### omitted primitives are zero -/

theorem encUvarint_eq_zero {n : Nat} (h : encUvarint n = [0]) : n = 0 := by
  by_cases hlt : n < 128
  · rw [encUvarint_small hlt] at h
    have := congrArg (fun l => l.map UInt8.toNat) h
    simp [u8_toNat_ofNat_lt (show n < 256 by omega)] at this
    exact this
  · rw [encUvarint_big hlt] at h
    simp at h
    exact absurd h.2 (encUvarint_ne_nil _)

theorem zigzag_eq_zero {z : Int} (h : zigzag z = 0) : z = 0 := by
  unfold zigzag at h
  split at h <;> omega

theorem toU64_eq_zero {z : Int} (h1 : -(2 ^ 63 : Int) ≤ z) (h2 : z < (2 ^ 63 : Int)) (h : toU64 z = 0) : z = 0 := by
  have := ofU64_toU64 h1 h2
  rw [h] at this
  simp [ofU64, two63] at this
  omega

/-- a primitive field that amino omits (default value, or an encoding that is the
single byte 0x00) holds the zero value of its type. -/
theorem prim_omitted_zero (env : Env) (td : TD) (v : Val) (h : primOK td v = true) (bs : Bytes)
    (he : encPrim td v false = some (.ok bs)) (hom : isDefault env td v = true ∨ bs = [0]) (k : Nat) :
    v = zeroVal env k td := by
  cases td <;> cases v <;> simp only [primOK, Bool.false_eq_true] at h
  case uvar.u bits n =>
    have hn : n = 0 := by
      rcases hom with hd | hb
      · simpa [isDefault, isDefaultVal] using hd
      · simp only [Bool.and_eq_true, decide_eq_true_eq] at h
        simp [encPrim, inRangeU, h.2] at he
        subst he
        exact encUvarint_eq_zero hb
    subst hn; cases k <;> rfl
  case svar.i bits z =>
    have hz : z = 0 := by
      rcases hom with hd | hb
      · simpa [isDefault, isDefaultVal] using hd
      · simp only [Bool.and_eq_true] at h
        simp [encPrim, h.2] at he
        subst he
        exact zigzag_eq_zero (encUvarint_eq_zero hb)
    subst hz; cases k <;> rfl
  case pvar.i bits z =>
    have hz : z = 0 := by
      rcases hom with hd | hb
      · simpa [isDefault, isDefaultVal] using hd
      · simp only [Bool.and_eq_true, Bool.or_eq_true, beq_iff_eq] at h
        have hb' : bits = 8 ∨ bits = 16 ∨ bits = 32 ∨ bits = 64 := by
          rcases h.1 with h' | h' <;> simp [h']
        obtain ⟨h1, h2⟩ := inRangeI_bounds hb' h.2
        simp [encPrim, h.2] at he
        subst he
        exact toU64_eq_zero h1 h2 (encUvarint_eq_zero hb)
    subst hz; cases k <;> rfl
  case fix32.i s z =>
    cases s <;> simp only [primOK, Bool.false_eq_true] at h
    have hz : z = 0 := by
      rcases hom with hd | hb
      · simpa [isDefault, isDefaultVal] using hd
      · simp [encPrim, h] at he
        subst he
        simp [encFixed32, leBytes] at hb
    subst hz; cases k <;> rfl
  case fix32.u s n =>
    cases s <;> simp only [primOK, Bool.false_eq_true, decide_eq_true_eq] at h
    have hn : n = 0 := by
      rcases hom with hd | hb
      · simpa [isDefault, isDefaultVal] using hd
      · have : inRangeU 32 n = true := by simp [inRangeU]; norm_num at h; omega
        simp [encPrim, this] at he
        subst he
        simp [encFixed32, leBytes] at hb
    subst hn; cases k <;> rfl
  case fix64.i s z =>
    cases s <;> simp only [primOK, Bool.false_eq_true] at h
    have hz : z = 0 := by
      rcases hom with hd | hb
      · simpa [isDefault, isDefaultVal] using hd
      · simp [encPrim, h] at he
        subst he
        simp [encFixed64, leBytes] at hb
    subst hz; cases k <;> rfl
  case fix64.u s n =>
    cases s <;> simp only [primOK, Bool.false_eq_true, decide_eq_true_eq] at h
    have hn : n = 0 := by
      rcases hom with hd | hb
      · simpa [isDefault, isDefaultVal] using hd
      · have : inRangeU 64 n = true := by simp [inRangeU]; norm_num at h; omega
        simp [encPrim, this] at he
        subst he
        simp [encFixed64, leBytes] at hb
    subst hn; cases k <;> rfl
  case bool.b x =>
    have hx : x = false := by
      rcases hom with hd | hb
      · simpa [isDefault, isDefaultVal] using hd
      · simp [encPrim] at he
        subst he
        cases x <;> simp [encBool] at hb ⊢
    subst hx; cases k <;> rfl
  case str.x bs' =>
    have hx : bs' = [] := by
      rcases hom with hd | hb
      · simpa [isDefault, repr_prim (env := env) (td := .str) rfl] using hd
      · simp [encPrim] at he
        subst he
        simp only [encBytes] at hb
        cases bs' with
        | nil => rfl
        | cons b t =>
          have := congrArg List.length hb
          simp at this
          have := encUvarint_length_pos (t.length + 1)
          omega
    subst hx; cases k <;> rfl
  case bytes.x bs' =>
    have hx : bs' = [] := by
      rcases hom with hd | hb
      · simpa [isDefault, repr_prim (env := env) (td := .bytes) rfl] using hd
      · simp [encPrim] at he
        subst he
        simp only [encBytes] at hb
        cases bs' with
        | nil => rfl
        | cons b t =>
          have := congrArg List.length hb
          simp at this
          have := encUvarint_length_pos (t.length + 1)
          omega
    subst hx; cases k <;> rfl
  case barr.x n bs' =>
    simp only [Bool.and_eq_true, beq_iff_eq, decide_eq_true_eq] at h
    have hx : bs' = [] := by
      rcases hom with hd | hb
      · simp [isDefault, repr_prim (env := env) (td := .barr n) rfl] at hd
      · simp [encPrim, h.1] at he
        subst he
        simp only [encBytes] at hb
        cases bs' with
        | nil => rfl
        | cons b t =>
          have := congrArg List.length hb
          simp at this
          have := encUvarint_length_pos (t.length + 1)
          omega
    subst hx
    have : n = 0 := by simpa using h.1.symm
    subst this
    cases k <;> rfl

end GnoVerif.C20
