import GnoVerif.Proofs.C30Sim
/-!
C30 helper lemmas, part 2: refinement of `Spec.OMap` by the node algorithms, obtained
from the C50 lemmas through `toC50` (`Proofs/C30Sim.lean`).
-/
namespace GnoVerif.C30
open GnoVerif

/-! ### the C50 list specification is `Spec.OMap` -/

theorem insert_eq_set (k v : Bytes) (l : List (Bytes × Bytes)) :
    C50.OMap.insert k v l = OMap.set l k v := by
  induction l with
  | nil => rfl
  | cons p t ih =>
    obtain ⟨k', v'⟩ := p
    simp only [C50.OMap.insert, OMap.set, ih]

theorem erase_eq_del (k : Bytes) (l : List (Bytes × Bytes)) : C50.OMap.erase k l = OMap.del l k := rfl

theorem lookup_eq_get (k : Bytes) (l : List (Bytes × Bytes)) : C50.OMap.lookup k l = OMap.get l k := by
  induction l with
  | nil => rfl
  | cons p t ih =>
    obtain ⟨k', v'⟩ := p
    simp only [C50.OMap.lookup, OMap.get_cons, ih]
    by_cases h : k = k'
    · subst h; simp
    · have : ¬ k' = k := fun e => h e.symm
      simp [h, this]

theorem keys_eq (l : List (Bytes × Bytes)) : C50.OMap.keys l = OMap.keys l := rfl

namespace Node

theorem wf_toC50 (n : Node) : n.WF ↔ ((toC50 n).Inv ∧ C50.OMap.Sorted (toC50 n).toList) := by
  simp only [WF, inv_toC50, toList_toC50]; exact Iff.rfl

/-- `recursiveSet` never fails on a well-formed tree, keeps it well-formed, implements
`OMap.set`, and reports `updated` exactly when the key was present -/
theorem set_spec {n : Node} (hw : n.WF) (key value : Bytes) :
    ∃ m u, n.set key value = .ok (m, u) ∧ m.WF ∧ m.toList = OMap.set n.toList key value ∧
      (u = true ↔ key ∈ OMap.keys n.toList) := by
  obtain ⟨hi, hs⟩ := (wf_toC50 n).1 hw
  obtain ⟨m', u, hset, hin', htl, hu, -, -⟩ := C50.Node.set_spec key value hi hs
  obtain ⟨m, hm, hmm⟩ := set_sim n key value hset
  subst hmm
  refine ⟨m, u, hm, ?_, ?_, ?_⟩
  · rw [wf_toC50]
    refine ⟨hin', ?_⟩
    rw [htl]
    exact C50.OMap.sorted_insert hs
  · rw [← toList_toC50 m, htl, insert_eq_set, toList_toC50]
  · rw [hu, toList_toC50]; exact Iff.rfl

/-- `recursiveRemove` never fails on a well-formed tree, keeps it well-formed (or empties
it), implements `OMap.del`, returns the stored value, and reports `removed` exactly when
the key was present; a failed removal returns the node itself -/
theorem remove_spec {n : Node} (hw : n.WF) (key : Bytes) :
    ∃ nn nkey val rem, n.remove key = .ok (nn, nkey, val, rem) ∧ WFo nn ∧
      (rem = true → abs nn = OMap.del n.toList key) ∧ (rem = false → nn = some n) ∧
      val = OMap.get n.toList key ∧ (rem = true ↔ key ∈ OMap.keys n.toList) := by
  obtain ⟨hi, hs⟩ := (wf_toC50 n).1 hw
  obtain ⟨nn, nkey, val, rem, hrm, hc, -⟩ := remove_sim n key hi hs
  obtain ⟨nn', nkey', val', rem', hrm', hval, hrem, hno, hyes⟩ := C50.Node.remove_spec key hi hs
  rw [hc] at hrm'
  simp only [Except.ok.injEq, Prod.mk.injEq] at hrm'
  obtain ⟨h1, h2, h3, h4⟩ := hrm'
  subst h1 h2 h3 h4
  have hsd : OMap.Sorted (OMap.del n.toList key) := by
    have := C50.OMap.sorted_erase (k := key) hs
    rwa [toList_toC50] at this
  refine ⟨nn, nkey, val, rem, hrm, ?_, ?_, ?_, ?_, ?_⟩
  · cases rem with
    | false =>
      have := (hno rfl).1
      cases nn with
      | none => trivial
      | some m =>
        simp only [Option.map_some, Option.some.injEq] at this
        rw [WFo, wf_toC50, this]; exact ⟨hi, hs⟩
    | true =>
      obtain ⟨herase, hm⟩ := hyes rfl
      cases nn with
      | none => trivial
      | some m =>
        simp only [Option.map_some] at herase hm
        rw [WFo, wf_toC50]
        refine ⟨hm.1, ?_⟩
        have : (toC50 m).toList = C50.OMap.erase key (toC50 n).toList := herase
        rw [this]; exact C50.OMap.sorted_erase hs
  · intro hr
    obtain ⟨herase, -⟩ := hyes hr
    cases nn with
    | none =>
      simp only [Option.map_none, C50.Node.optList] at herase
      simp only [abs]
      rw [herase, erase_eq_del, toList_toC50]
    | some m =>
      simp only [Option.map_some, C50.Node.optList] at herase
      simp only [abs]
      rw [← toList_toC50 m, herase, erase_eq_del, toList_toC50]
  · intro hr
    -- C50's statement is about `toC50`; the model returns the node itself (see `remove`)
    cases hr
    have := (hno rfl).1
    -- go back to the definition: a failed removal returns its argument
    clear hyes hno hval hrem hc hsd
    induction n generalizing nn nkey val with
    | leaf nk nv k0 =>
      simp only [remove] at hrm
      split at hrm <;> simp_all
    | inner nk ht s k0 l r ihl ihr =>
      simp only [remove] at hrm
      split at hrm
      · split at hrm
        · simp at hrm
        · rename_i x nl nkk vv rr hx
          split at hrm
          · simp only [Except.ok.injEq, Prod.mk.injEq] at hrm; exact hrm.1.symm
          · split at hrm
            · simp at hrm
            · split at hrm <;> simp at hrm
      · split at hrm
        · simp at hrm
        · split at hrm
          · simp only [Except.ok.injEq, Prod.mk.injEq] at hrm; exact hrm.1.symm
          · split at hrm
            · simp at hrm
            · split at hrm <;> simp at hrm
  · rw [hval, lookup_eq_get, toList_toC50]
  · rw [hrem, toList_toC50]; exact Iff.rfl

end Node
end GnoVerif.C30
