import GnoVerif.Proofs.C52Esc
/-!
C52 helper lemmas, part 4: reading an escaped attribute value back.

`decodeRefs lk (gesc d) = nulFix d` for every entity lookup that knows `amp lt gt quot`:
what the browser hands to its URL parser for `href="<gesc d>"` is `d` itself (NUL shown as U+FFFD).
-/
namespace GnoVerif.C52

theorem decodeRefsAux_other (lk : Lookup) (f c : Nat) (r : Bytes) (hc : c ≠ 38) :
    decodeRefsAux lk (f + 1) (c :: r) = c :: decodeRefsAux lk f r := by
  simp [decodeRefsAux, hc]

theorem decodeRefsAux_amp (lk : Lookup) (hk : KnowsBasic lk) (f : Nat) (r : Bytes) :
    decodeRefsAux lk (f + 1) (B!"&amp;" ++ r) = 38 :: decodeRefsAux lk f r := by
  have h := hk.1
  simp [decodeRefsAux, spanP, isAlnum, isAlpha, isDigit, h]

theorem decodeRefsAux_lt (lk : Lookup) (hk : KnowsBasic lk) (f : Nat) (r : Bytes) :
    decodeRefsAux lk (f + 1) (B!"&lt;" ++ r) = 60 :: decodeRefsAux lk f r := by
  have h := hk.2.1
  simp [decodeRefsAux, spanP, isAlnum, isAlpha, isDigit, h]

theorem decodeRefsAux_gt (lk : Lookup) (hk : KnowsBasic lk) (f : Nat) (r : Bytes) :
    decodeRefsAux lk (f + 1) (B!"&gt;" ++ r) = 62 :: decodeRefsAux lk f r := by
  have h := hk.2.2.1
  simp [decodeRefsAux, spanP, isAlnum, isAlpha, isDigit, h]

theorem decodeRefsAux_quot (lk : Lookup) (hk : KnowsBasic lk) (f : Nat) (r : Bytes) :
    decodeRefsAux lk (f + 1) (B!"&quot;" ++ r) = 34 :: decodeRefsAux lk f r := by
  have h := hk.2.2.2
  simp [decodeRefsAux, spanP, isAlnum, isAlpha, isDigit, h]

theorem decodeRefsAux_gesc (lk : Lookup) (hk : KnowsBasic lk) :
    ∀ (d : Bytes) (f : Nat), (gesc d).length < f → decodeRefsAux lk f (gesc d) = nulFix d := by
  intro d
  induction d with
  | nil =>
    intro f hf
    cases f with
    | zero => simp [gesc] at hf
    | succ f => simp [gesc, nulFix, decodeRefsAux]
  | cons c d ih =>
    intro f hf
    have hg : gesc (c :: d) = gescByte c ++ gesc d := by simp [gesc]
    have hn : nulFix (c :: d) = (if c = 0 then [239, 191, 189] else [c]) ++ nulFix d := by simp [nulFix]
    rw [hg, gescByte_eq] at hf ⊢
    rw [hn]
    unfold gescByteSpec at hf ⊢
    by_cases h0 : c = 0
    · rw [if_pos h0] at hf ⊢
      simp only [List.length_append, List.length_cons, List.length_nil] at hf
      obtain ⟨f3, rfl⟩ : ∃ f3, f = f3 + 3 := ⟨f - 3, by omega⟩
      rw [if_pos h0]
      show decodeRefsAux lk (f3 + 2 + 1) (239 :: 191 :: 189 :: gesc d) = _
      rw [decodeRefsAux_other _ _ _ _ (by decide), decodeRefsAux_other _ _ _ _ (by decide),
        decodeRefsAux_other _ _ _ _ (by decide), ih f3 (by omega)]
      rfl
    · rw [if_neg h0] at hf ⊢
      rw [if_neg h0]
      by_cases h34 : c = 34
      · rw [if_pos h34] at hf ⊢
        simp only [List.length_append, List.length_cons, List.length_nil] at hf
        obtain ⟨f1, rfl⟩ : ∃ f1, f = f1 + 1 := ⟨f - 1, by omega⟩
        rw [decodeRefsAux_quot lk hk, ih f1 (by omega), h34]; rfl
      · rw [if_neg h34] at hf ⊢
        by_cases h38 : c = 38
        · rw [if_pos h38] at hf ⊢
          simp only [List.length_append, List.length_cons, List.length_nil] at hf
          obtain ⟨f1, rfl⟩ : ∃ f1, f = f1 + 1 := ⟨f - 1, by omega⟩
          rw [decodeRefsAux_amp lk hk, ih f1 (by omega), h38]; rfl
        · rw [if_neg h38] at hf ⊢
          by_cases h60 : c = 60
          · rw [if_pos h60] at hf ⊢
            simp only [List.length_append, List.length_cons, List.length_nil] at hf
            obtain ⟨f1, rfl⟩ : ∃ f1, f = f1 + 1 := ⟨f - 1, by omega⟩
            rw [decodeRefsAux_lt lk hk, ih f1 (by omega), h60]; rfl
          · rw [if_neg h60] at hf ⊢
            by_cases h62 : c = 62
            · rw [if_pos h62] at hf ⊢
              simp only [List.length_append, List.length_cons, List.length_nil] at hf
              obtain ⟨f1, rfl⟩ : ∃ f1, f = f1 + 1 := ⟨f - 1, by omega⟩
              rw [decodeRefsAux_gt lk hk, ih f1 (by omega), h62]; rfl
            · rw [if_neg h62] at hf ⊢
              simp only [List.length_append, List.length_cons, List.length_nil] at hf
              obtain ⟨f1, rfl⟩ : ∃ f1, f = f1 + 1 := ⟨f - 1, by omega⟩
              show decodeRefsAux lk (f1 + 1) (c :: gesc d) = _
              rw [decodeRefsAux_other _ _ _ _ h38, ih f1 (by omega)]; rfl

/-- the browser reads `href="<gesc d>"` as `d` (NUL shown as U+FFFD) -/
theorem decodeRefs_gesc (lk : Lookup) (hk : KnowsBasic lk) (d : Bytes) :
    decodeRefs lk (gesc d) = nulFix d :=
  decodeRefsAux_gesc lk hk d _ (by omega)

end GnoVerif.C52
