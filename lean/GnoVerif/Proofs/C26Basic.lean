/-
Proofs.C26Basic — list / lookup / batch lemmas for C26.
-/
import GnoVerif.Model.C26Inv

namespace GnoVerif.C26
open GnoVerif

/-! ### association-list lookup -/

theorem lookup_mem {l : List (Ver × Tree)} {v : Ver} {m : Tree} (h : l.lookup v = some m) :
    (v, m) ∈ l := by
  induction l with
  | nil => simp [List.lookup] at h
  | cons p l ih =>
    obtain ⟨a, b⟩ := p
    simp only [List.lookup] at h
    split at h
    · rename_i he
      have : v = a := by simpa using he
      cases h; subst this; simp
    · exact List.mem_cons_of_mem _ (ih h)

theorem lookup_of_mem {l : List (Ver × Tree)} (hn : (l.map (·.1)).Nodup) {v : Ver} {m : Tree}
    (h : (v, m) ∈ l) : l.lookup v = some m := by
  induction l with
  | nil => simp at h
  | cons p l ih =>
    obtain ⟨a, b⟩ := p
    simp only [List.map_cons, List.nodup_cons] at hn
    simp only [List.lookup]
    rcases List.mem_cons.1 h with h1 | h1
    · cases h1; simp
    · have hne : v ≠ a := by
        intro e
        exact hn.1 (List.mem_map.2 ⟨(v, m), h1, e⟩)
      have : (v == a) = false := by simpa using hne
      rw [this]; exact ih hn.2 h1

theorem lookup_none {l : List (Ver × Tree)} {v : Ver} (h : ∀ p ∈ l, p.1 ≠ v) : l.lookup v = none := by
  induction l with
  | nil => rfl
  | cons p l ih =>
    obtain ⟨a, b⟩ := p
    simp only [List.lookup]
    have hne : v ≠ a := fun e => h (a, b) (by simp) e.symm
    have : (v == a) = false := by simpa using hne
    rw [this]; exact ih (fun p hp => h p (List.mem_cons_of_mem _ hp))

theorem not_mem_of_lookup_none {l : List (Ver × Tree)} {v : Ver} (h : l.lookup v = none) :
    ∀ p ∈ l, p.1 ≠ v := by
  induction l with
  | nil => simp
  | cons p l ih =>
    obtain ⟨a, b⟩ := p
    simp only [List.lookup] at h
    split at h
    · simp at h
    · rename_i he
      have hne : v ≠ a := by simpa using he
      intro q hq
      rcases List.mem_cons.1 hq with hq | hq
      · subst hq; exact fun e => hne e.symm
      · exact ih h q hq

theorem tree_mem {db : DB} {v : Ver} {m : Tree} (h : db.tree v = some m) : (v, m) ∈ db.vers :=
  lookup_mem h

theorem tree_of_mem {db : DB} (hn : (db.vers.map (·.1)).Nodup) {v : Ver} {m : Tree}
    (h : (v, m) ∈ db.vers) : db.tree v = some m := lookup_of_mem hn h

/-! ### min / max of version lists -/

theorem foldl_max_ge (l : List Ver) (a : Ver) : a ≤ l.foldl max a := by
  induction l generalizing a with
  | nil => simp
  | cons x l ih => simp only [List.foldl_cons]; exact Nat.le_trans (Nat.le_max_left a x) (ih _)

theorem le_foldl_max {l : List Ver} {a v : Ver} (h : v ∈ l) : v ≤ l.foldl max a := by
  induction l generalizing a with
  | nil => simp at h
  | cons x l ih =>
    simp only [List.foldl_cons]
    rcases List.mem_cons.1 h with h | h
    · subst h; exact Nat.le_trans (Nat.le_max_right a v) (foldl_max_ge l _)
    · exact ih h

theorem le_maxOf {l : List Ver} {v : Ver} (h : v ∈ l) : v ≤ maxOf l := le_foldl_max h

theorem foldl_max_mem (l : List Ver) (a : Ver) : l.foldl max a = a ∨ l.foldl max a ∈ l := by
  induction l generalizing a with
  | nil => simp
  | cons x l ih =>
    simp only [List.foldl_cons]
    rcases ih (max a x) with h | h
    · rw [h]
      rcases Nat.le_total a x with hx | hx
      · right; rw [Nat.max_eq_right hx]; simp
      · left; exact Nat.max_eq_left hx
    · right; exact List.mem_cons_of_mem _ h

theorem maxOf_mem {l : List Ver} (h : maxOf l ≠ 0) : maxOf l ∈ l := by
  rcases foldl_max_mem l 0 with h' | h'
  · exact absurd h' h
  · exact h'

theorem foldl_min_le (l : List Ver) (a : Ver) : l.foldl min a ≤ a := by
  induction l generalizing a with
  | nil => simp
  | cons x l ih => simp only [List.foldl_cons]; exact Nat.le_trans (ih _) (Nat.min_le_left a x)

theorem foldl_min_le_mem {l : List Ver} {a v : Ver} (h : v ∈ l) : l.foldl min a ≤ v := by
  induction l generalizing a with
  | nil => simp at h
  | cons x l ih =>
    simp only [List.foldl_cons]
    rcases List.mem_cons.1 h with h | h
    · subst h; exact Nat.le_trans (foldl_min_le l _) (Nat.min_le_right a v)
    · exact ih h

theorem minOf_le {l : List Ver} {v : Ver} (h : v ∈ l) : minOf l ≤ v := by
  cases l with
  | nil => simp at h
  | cons x l =>
    simp only [minOf]
    rcases List.mem_cons.1 h with h | h
    · subst h; exact foldl_min_le l _
    · exact foldl_min_le_mem h

theorem foldl_min_mem (l : List Ver) (a : Ver) : l.foldl min a = a ∨ l.foldl min a ∈ l := by
  induction l generalizing a with
  | nil => simp
  | cons x l ih =>
    simp only [List.foldl_cons]
    rcases ih (min a x) with h | h
    · rw [h]
      rcases Nat.le_total a x with hx | hx
      · left; exact Nat.min_eq_left hx
      · right; rw [Nat.min_eq_right hx]; simp
    · right; exact List.mem_cons_of_mem _ h

theorem minOf_mem {l : List Ver} (h : l ≠ []) : minOf l ∈ l := by
  cases l with
  | nil => exact absurd rfl h
  | cons x l =>
    simp only [minOf]
    rcases foldl_min_mem l x with h' | h'
    · rw [h']; simp
    · exact List.mem_cons_of_mem _ h'

theorem visible_zero (db : DB) : db.visible 0 = db.versions := by
  simp [DB.visible]

theorem visible_sub (db : DB) (skew : Nat) {v : Ver} (h : v ∈ db.visible skew) : v ∈ db.versions := by
  simp only [DB.visible, List.mem_filter] at h
  exact h.1

theorem mem_versions {db : DB} {v : Ver} : v ∈ db.versions ↔ ∃ m, (v, m) ∈ db.vers := by
  simp only [DB.versions, List.mem_map]
  constructor
  · rintro ⟨⟨a, b⟩, hp, rfl⟩; exact ⟨b, hp⟩
  · rintro ⟨m, hm⟩; exact ⟨(v, m), hm, rfl⟩

/-! ### staged batches -/

theorem get_applyFast (f : OMapOf Rec) (b : List BOp) (k : Bytes) :
    OMap.get (applyFast f b) k = match netFast b k with
      | none => OMap.get f k
      | some r => r := by
  induction b generalizing f with
  | nil => simp [applyFast, netFast]
  | cons op b ih =>
    cases op with
    | setF k' r =>
      simp only [applyFast, netFast]
      rw [ih]
      cases hn : netFast b k with
      | some x => simp
      | none =>
        simp only [OMap.get_set]
        by_cases hk : k' = k <;> simp [hk]
    | delF k' =>
      simp only [applyFast, netFast]
      rw [ih]
      cases hn : netFast b k with
      | some x => simp
      | none =>
        simp only [OMap.get_del]
        by_cases hk : k' = k <;> simp [hk]

theorem netFast_append_setF (b : List BOp) (k' : Bytes) (r : Rec) (k : Bytes) :
    netFast (b ++ [.setF k' r]) k = if k' = k then some (some r) else netFast b k := by
  induction b with
  | nil => simp [netFast]
  | cons op b ih =>
    cases op with
    | setF k2 r2 =>
      simp only [List.cons_append, netFast, ih]
      by_cases hk : k' = k
      · simp [hk]
      · simp [hk]
    | delF k2 =>
      simp only [List.cons_append, netFast, ih]
      by_cases hk : k' = k
      · simp [hk]
      · simp [hk]

theorem netFast_append_delF (b : List BOp) (k' : Bytes) (k : Bytes) :
    netFast (b ++ [.delF k']) k = if k' = k then some none else netFast b k := by
  induction b with
  | nil => simp [netFast]
  | cons op b ih =>
    cases op with
    | setF k2 r2 =>
      simp only [List.cons_append, netFast, ih]
      by_cases hk : k' = k
      · simp [hk]
      · simp [hk]
    | delF k2 =>
      simp only [List.cons_append, netFast, ih]
      by_cases hk : k' = k
      · simp [hk]
      · simp [hk]

/-! ### trees -/

theorem isEmpty_false_ne {t : Tree} (h : t.isEmpty = false) : t ≠ [] := by
  intro e; subst e; simp at h

theorem walk_nil (k : Bytes) : walk [] k = none := rfl

theorem upd_same {α : Type} (f : Nat → Option α) (i : Nat) (x : Option α) : upd f i x i = x := by
  simp [upd]

theorem upd_other {α : Type} (f : Nat → Option α) {i j : Nat} (x : Option α) (h : j ≠ i) :
    upd f i x j = f j := by
  simp [upd, h]

end GnoVerif.C26
