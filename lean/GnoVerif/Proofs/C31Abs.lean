import GnoVerif.Proofs.C31Arith
/-!
The inductive invariant of the abstract protocol (`Spec/C31.lean`) and the agreement
argument (core Lean only).

Per honest validator `p` with node `a`, relative to the log `L`:
* `hr`      its votes never run ahead of its height / round;
* `done`    a prevote (precommit) at its current round means the prevote (precommit) point is passed;
* `uniq`    at most one prevote and one precommit per height and round;
* `pcPolka` a precommit for a block is backed by +2/3 prevotes for that block in the same round;
* `lock`    after precommitting `b` at round `r` it stays locked on `b` (LockedRound ≥ r) unless a
            polka for something else exists at a round in `(r, Round]`;
* `hist`    whenever it prevoted something else than `b` at a round `ρ > r` after precommitting
            `b` at `r`, a polka for something else than `b` at a round in `(r, ρ]` existed
            BEFORE that prevote was signed (in the log prefix);
* `dec`     a decision is backed by +2/3 precommits at some round.
-/
set_option linter.unusedSimpArgs false
set_option linter.unusedVariables false
namespace GnoVerif.C31

structure PInv (c : Cfg) (L : List Vote) (p : Val) (a : ANode) : Prop where
  hr : ∀ v ∈ L, v.sender = p → v.height ≤ a.height ∧ (v.height = a.height → v.round ≤ a.round)
  done : ∀ v ∈ L, v.sender = p → v.height = a.height → v.round = a.round →
    (v.type = .prevote → a.pvDone = true) ∧ (v.type = .precommit → a.pcDone = true)
  uniq : ∀ v ∈ L, ∀ v' ∈ L, v.sender = p → v'.sender = p → v.height = v'.height →
    v.round = v'.round → v.type = v'.type → v.block = v'.block
  pcPolka : ∀ v ∈ L, v.sender = p → v.type = .precommit → ∀ b, v.block = some b →
    polka c L v.height v.round (some b)
  lock : ∀ v ∈ L, v.sender = p → v.type = .precommit → v.height = a.height → ∀ b, v.block = some b →
    (a.lockedBlock = some b ∧ (v.round : Int) ≤ a.lockedRound) ∨
    ∃ ρ w, v.round < ρ ∧ ρ ≤ a.round ∧ w ≠ some b ∧ polka c L a.height ρ w
  hist : ∀ i m, L[i]? = some m → m.sender = p → m.type = .prevote →
    ∀ v ∈ L, v.sender = p → v.type = .precommit → v.height = m.height → v.round < m.round →
    ∀ b, v.block = some b → m.block ≠ some b →
    ∃ ρ w, v.round < ρ ∧ ρ ≤ m.round ∧ w ≠ some b ∧ polka c (L.take i) m.height ρ w
  dec : ∀ H b, (H, b) ∈ a.decided → ∃ r, commitQ c L H r b

def AInv (c : Cfg) (σ : AState) : Prop := ∀ p, c.honest p → PInv c σ.log p (σ.nodes p)

theorem mem_append_left' {L out : List Vote} : ∀ v, v ∈ L → v ∈ L ++ out :=
  fun _ h => List.mem_append_left _ h

/-- votes signed by others do not disturb `p`'s invariant -/
theorem PInv.extend_other {c : Cfg} {L : List Vote} {p : Val} {a : ANode} (h : PInv c L p a)
    (out : List Vote) (ho : ∀ v ∈ out, v.sender ≠ p) : PInv c (L ++ out) p a := by
  have hin : ∀ v, v ∈ L ++ out → v.sender = p → v ∈ L := by
    intro v hv hs
    rcases List.mem_append.1 hv with h1 | h1
    · exact h1
    · exact absurd hs (ho v h1)
  refine ⟨?_, ?_, ?_, ?_, ?_, ?_, ?_⟩
  · intro v hv hs; exact h.hr v (hin v hv hs) hs
  · intro v hv hs; exact h.done v (hin v hv hs) hs
  · intro v hv v' hv' hs hs'; exact h.uniq v (hin v hv hs) v' (hin v' hv' hs') hs hs'
  · intro v hv hs ht b hb
    exact polka_mono c mem_append_left' (h.pcPolka v (hin v hv hs) hs ht b hb)
  · intro v hv hs ht hh b hb
    rcases h.lock v (hin v hv hs) hs ht hh b hb with h1 | ⟨ρ, w, h1, h2, h3, h4⟩
    · exact Or.inl h1
    · exact Or.inr ⟨ρ, w, h1, h2, h3, polka_mono c mem_append_left' h4⟩
  · intro i m hi hs ht v hv hvs hvt hvh hvr b hb hmb
    have hil : i < L.length := by
      rcases Nat.lt_or_ge i L.length with h1 | h1
      · exact h1
      · exfalso
        rw [List.getElem?_append_right h1] at hi
        exact ho m (List.mem_of_getElem? hi) hs
    rw [List.getElem?_append_left hil] at hi
    rw [List.take_append_of_le_length (Nat.le_of_lt hil)]
    exact h.hist i m hi hs ht v (hin v hv hvs) hvs hvt hvh hvr b hb hmb
  · intro H b hd
    obtain ⟨r, hr⟩ := h.dec H b hd
    exact ⟨r, quorum_mono c mem_append_left' hr⟩

theorem AAct.sender {c : Cfg} {L : List Vote} {p : Val} {a a' : ANode} {out : List Vote}
    (h : AAct c L p a a' out) : ∀ v ∈ out, v.sender = p := by
  cases h <;> simp

theorem getElem?_snoc_cases {L : List Vote} {x m : Vote} {i : Nat} (h : (L ++ [x])[i]? = some m) :
    (i < L.length ∧ L[i]? = some m) ∨ (i = L.length ∧ m = x) := by
  rcases Nat.lt_or_ge i L.length with h1 | h1
  · left; rw [List.getElem?_append_left h1] at h; exact ⟨h1, h⟩
  · right
    rw [List.getElem?_append_right h1] at h
    have : i - L.length = 0 := by
      rcases Nat.eq_zero_or_pos (i - L.length) with h2 | h2
      · exact h2
      · have : ([x] : List Vote)[i - L.length]? = none := by
          apply List.getElem?_eq_none; simp; omega
        rw [this] at h; cases h
    rw [this] at h
    simp at h
    exact ⟨by omega, h.symm⟩

/-- every action of `p` preserves `p`'s invariant -/
theorem PInv.act {c : Cfg} {L : List Vote} {p : Val} {a a' : ANode} {out : List Vote}
    (h : PInv c L p a) (hact : AAct c L p a a' out) : PInv c (L ++ out) p a' := by
  cases hact with
  | advance round' pv' pc' hadv =>
    simp only [List.append_nil]
    refine ⟨?_, ?_, h.uniq, h.pcPolka, ?_, h.hist, h.dec⟩
    · intro v hv hs
      have := h.hr v hv hs
      refine ⟨this.1, fun hh => ?_⟩
      have := this.2 hh
      simp only
      rcases hadv with h1 | ⟨h1, _⟩ <;> omega
    · intro v hv hs hh hr
      simp only at hh hr ⊢
      have h2 := h.hr v hv hs
      rcases hadv with h1 | ⟨h1, h3, h4⟩
      · have := h2.2 hh; omega
      · have := h.done v hv hs hh (by omega)
        exact ⟨fun ht => h3 (this.1 ht), fun ht => h4 (this.2 ht)⟩
    · intro v hv hs ht hh b hb
      rcases h.lock v hv hs ht hh b hb with h1 | ⟨ρ, w, h1, h2, h3, h4⟩
      · exact Or.inl h1
      · refine Or.inr ⟨ρ, w, h1, ?_, h3, h4⟩
        simp only
        rcases hadv with h5 | ⟨h5, _⟩ <;> omega
  | prevote w hstep hlock =>
    have hmono : ∀ v, v ∈ L → v ∈ L ++ [Vote.mk p a.height a.round .prevote w] := mem_append_left'
    refine ⟨?_, ?_, ?_, ?_, ?_, ?_, ?_⟩
    · intro v hv hs
      rcases List.mem_append.1 hv with h1 | h1
      · exact h.hr v h1 hs
      · simp at h1; subst h1; simp
    · intro v hv hs hh hr
      rcases List.mem_append.1 hv with h1 | h1
      · have := h.done v h1 hs hh hr
        exact ⟨fun _ => rfl, this.2⟩
      · simp at h1; subst h1; simp
    · intro v hv v' hv' hs hs' hh hr ht
      rcases List.mem_append.1 hv with h1 | h1 <;> rcases List.mem_append.1 hv' with h2 | h2
      · exact h.uniq v h1 v' h2 hs hs' hh hr ht
      · simp at h2; subst h2
        simp only at hh hr ht
        have := (h.done v h1 hs hh hr).1 ht
        rw [hstep] at this; cases this
      · simp at h1; subst h1
        simp only at hh hr ht
        have := (h.done v' h2 hs' hh.symm hr.symm).1 ht.symm
        rw [hstep] at this; cases this
      · simp at h1 h2; subst h1; subst h2; rfl
    · intro v hv hs ht b hb
      rcases List.mem_append.1 hv with h1 | h1
      · exact polka_mono c hmono (h.pcPolka v h1 hs ht b hb)
      · simp at h1; subst h1; cases ht
    · intro v hv hs ht hh b hb
      rcases List.mem_append.1 hv with h1 | h1
      · rcases h.lock v h1 hs ht hh b hb with h2 | ⟨ρ, w', h2, h3, h4, h5⟩
        · exact Or.inl h2
        · exact Or.inr ⟨ρ, w', h2, h3, h4, polka_mono c hmono h5⟩
      · simp at h1; subst h1; cases ht
    · intro i m hi hs ht v hv hvs hvt hvh hvr b hb hmb
      have hvL : v ∈ L := by
        rcases List.mem_append.1 hv with h1 | h1
        · exact h1
        · simp at h1; subst h1; cases hvt
      rcases getElem?_snoc_cases hi with ⟨hil, hi'⟩ | ⟨hil, hm⟩
      · rw [List.take_append_of_le_length (Nat.le_of_lt hil)]
        exact h.hist i m hi' hs ht v hvL hvs hvt hvh hvr b hb hmb
      · subst hm
        simp only at hvh hvr hmb ⊢
        have htk : (L ++ [Vote.mk p a.height a.round .prevote w]).take i = L := by
          rw [hil]; simp
        rw [htk]
        rcases h.lock v hvL hvs hvt hvh b hb with ⟨h2, _⟩ | ⟨ρ, w', h2, h3, h4, h5⟩
        · exact absurd (hlock b h2) hmb
        · exact ⟨ρ, w', h2, h3, h4, h5⟩
    · intro H b hd
      obtain ⟨r, hr⟩ := h.dec H b hd
      exact ⟨r, quorum_mono c hmono hr⟩
  | unlock v0 ρ w hl hρ hw hp =>
    simp only [List.append_nil]
    refine ⟨h.hr, h.done, h.uniq, h.pcPolka, ?_, h.hist, h.dec⟩
    intro v hv hs ht hh b hb
    rcases h.lock v hv hs ht hh b hb with ⟨h1, h2⟩ | h1
    · right
      rw [hl] at h1; cases h1
      exact ⟨ρ, w, by omega, hρ.2, hw, hp⟩
    · exact Or.inr h1
  | precommitBlock b0 hstep hp =>
    have hmono : ∀ v, v ∈ L → v ∈ L ++ [Vote.mk p a.height a.round .precommit (some b0)] :=
      mem_append_left'
    refine ⟨?_, ?_, ?_, ?_, ?_, ?_, ?_⟩
    · intro v hv hs
      rcases List.mem_append.1 hv with h1 | h1
      · exact h.hr v h1 hs
      · simp at h1; subst h1; simp
    · intro v hv hs hh hr
      rcases List.mem_append.1 hv with h1 | h1
      · have := h.done v h1 hs hh hr
        exact ⟨this.1, fun _ => rfl⟩
      · simp at h1; subst h1; simp
    · intro v hv v' hv' hs hs' hh hr ht
      rcases List.mem_append.1 hv with h1 | h1 <;> rcases List.mem_append.1 hv' with h2 | h2
      · exact h.uniq v h1 v' h2 hs hs' hh hr ht
      · simp at h2; subst h2
        simp only at hh hr ht
        have := (h.done v h1 hs hh hr).2 ht
        rw [hstep] at this; cases this
      · simp at h1; subst h1
        simp only at hh hr ht
        have := (h.done v' h2 hs' hh.symm hr.symm).2 ht.symm
        rw [hstep] at this; cases this
      · simp at h1 h2; subst h1; subst h2; rfl
    · intro v hv hs ht b hb
      rcases List.mem_append.1 hv with h1 | h1
      · exact polka_mono c hmono (h.pcPolka v h1 hs ht b hb)
      · simp at h1; subst h1
        simp only at hb ⊢
        cases hb
        exact polka_mono c hmono hp
    · intro v hv hs ht hh b hb
      rcases List.mem_append.1 hv with h1 | h1
      · simp only at hh ⊢
        have h2 := h.hr v h1 hs
        have h3 : v.round ≠ a.round := by
          intro he
          have := (h.done v h1 hs hh he).2 ht
          rw [hstep] at this; cases this
        have h4 := h2.2 hh
        by_cases hbb : b = b0
        · subst hbb; left; exact ⟨rfl, by omega⟩
        · right
          refine ⟨a.round, some b0, by omega, Nat.le_refl _, ?_, polka_mono c hmono hp⟩
          intro he; cases he; exact hbb rfl
      · simp at h1; subst h1
        simp only at hb ⊢
        cases hb
        left; exact ⟨rfl, Int.le_refl _⟩
    · intro i m hi hs ht v hv hvs hvt hvh hvr b hb hmb
      rcases getElem?_snoc_cases hi with ⟨hil, hi'⟩ | ⟨hil, hm⟩
      · rw [List.take_append_of_le_length (Nat.le_of_lt hil)]
        rcases List.mem_append.1 hv with h1 | h1
        · exact h.hist i m hi' hs ht v h1 hvs hvt hvh hvr b hb hmb
        · simp at h1; subst h1
          simp only at hvh hvr
          have := (h.hr m (List.mem_of_getElem? hi') hs).2 hvh.symm
          omega
      · subst hm; cases ht
    · intro H b hd
      obtain ⟨r, hr⟩ := h.dec H b hd
      exact ⟨r, quorum_mono c hmono hr⟩
  | precommitNil hstep =>
    have hmono : ∀ v, v ∈ L → v ∈ L ++ [Vote.mk p a.height a.round .precommit none] :=
      mem_append_left'
    refine ⟨?_, ?_, ?_, ?_, ?_, ?_, ?_⟩
    · intro v hv hs
      rcases List.mem_append.1 hv with h1 | h1
      · exact h.hr v h1 hs
      · simp at h1; subst h1; simp
    · intro v hv hs hh hr
      rcases List.mem_append.1 hv with h1 | h1
      · have := h.done v h1 hs hh hr
        exact ⟨this.1, fun _ => rfl⟩
      · simp at h1; subst h1; simp
    · intro v hv v' hv' hs hs' hh hr ht
      rcases List.mem_append.1 hv with h1 | h1 <;> rcases List.mem_append.1 hv' with h2 | h2
      · exact h.uniq v h1 v' h2 hs hs' hh hr ht
      · simp at h2; subst h2
        simp only at hh hr ht
        have := (h.done v h1 hs hh hr).2 ht
        rw [hstep] at this; cases this
      · simp at h1; subst h1
        simp only at hh hr ht
        have := (h.done v' h2 hs' hh.symm hr.symm).2 ht.symm
        rw [hstep] at this; cases this
      · simp at h1 h2; subst h1; subst h2; rfl
    · intro v hv hs ht b hb
      rcases List.mem_append.1 hv with h1 | h1
      · exact polka_mono c hmono (h.pcPolka v h1 hs ht b hb)
      · simp at h1; subst h1; cases hb
    · intro v hv hs ht hh b hb
      rcases List.mem_append.1 hv with h1 | h1
      · rcases h.lock v h1 hs ht hh b hb with h2 | ⟨ρ, w', h2, h3, h4, h5⟩
        · exact Or.inl h2
        · exact Or.inr ⟨ρ, w', h2, h3, h4, polka_mono c hmono h5⟩
      · simp at h1; subst h1; cases hb
    · intro i m hi hs ht v hv hvs hvt hvh hvr b hb hmb
      rcases getElem?_snoc_cases hi with ⟨hil, hi'⟩ | ⟨hil, hm⟩
      · rw [List.take_append_of_le_length (Nat.le_of_lt hil)]
        rcases List.mem_append.1 hv with h1 | h1
        · exact h.hist i m hi' hs ht v h1 hvs hvt hvh hvr b hb hmb
        · simp at h1; subst h1; cases hb
      · subst hm; cases ht
    · intro H b hd
      obtain ⟨r, hr⟩ := h.dec H b hd
      exact ⟨r, quorum_mono c hmono hr⟩
  | decide v0 r hq =>
    simp only [List.append_nil]
    refine ⟨?_, ?_, h.uniq, h.pcPolka, ?_, h.hist, ?_⟩
    · intro v hv hs
      have := (h.hr v hv hs).1
      simp only
      exact ⟨by omega, fun hh => by omega⟩
    · intro v hv hs hh
      have := (h.hr v hv hs).1
      simp only at hh; omega
    · intro v hv hs ht hh
      have := (h.hr v hv hs).1
      simp only at hh; omega
    · intro H b hd
      simp only [List.mem_cons] at hd
      rcases hd with hd | hd
      · cases hd; exact ⟨r, hq⟩
      · exact h.dec H b hd

theorem AInv.init (c : Cfg) : AInv c AState.init := by
  intro p _
  refine ⟨?_, ?_, ?_, ?_, ?_, ?_, ?_⟩ <;> simp [AState.init, ANode.init]

theorem AInv.step {c : Cfg} {σ σ' : AState} (h : AInv c σ) (hs : AStep c σ σ') : AInv c σ' := by
  cases hs with
  | byz v hb =>
    intro p hp
    apply (h p hp).extend_other
    intro v' hv'
    simp at hv'; subst hv'
    intro he; subst he; exact hb hp
  | act p a' out hp hact =>
    intro q hq
    by_cases hqp : q = p
    · subst hqp
      simp only [upd, if_true]
      exact (h q hq).act hact
    · simp only [upd, hqp, if_false]
      apply (h q hq).extend_other
      intro v hv he
      exact hqp (by rw [← he, hact.sender v hv])

theorem AInv.reach {c : Cfg} {σ : AState} (h : AReach c σ) : AInv c σ := by
  induction h with
  | init => exact AInv.init c
  | step _ hs ih => exact ih.step hs

-- ---------------------------------------------------------------- the agreement argument (log only)

/-- what the argument needs of the log: every honest validator's `uniq`, `pcPolka`, `hist` -/
structure LogInv (c : Cfg) (L : List Vote) : Prop where
  uniq : ∀ p, c.honest p → ∀ v ∈ L, ∀ v' ∈ L, v.sender = p → v'.sender = p → v.height = v'.height →
    v.round = v'.round → v.type = v'.type → v.block = v'.block
  pcPolka : ∀ p, c.honest p → ∀ v ∈ L, v.sender = p → v.type = .precommit → ∀ b, v.block = some b →
    polka c L v.height v.round (some b)
  hist : ∀ p, c.honest p → ∀ i m, L[i]? = some m → m.sender = p → m.type = .prevote →
    ∀ v ∈ L, v.sender = p → v.type = .precommit → v.height = m.height → v.round < m.round →
    ∀ b, v.block = some b → m.block ≠ some b →
    ∃ ρ w, v.round < ρ ∧ ρ ≤ m.round ∧ w ≠ some b ∧ polka c (L.take i) m.height ρ w

theorem AInv.logInv {c : Cfg} {σ : AState} (h : AInv c σ) : LogInv c σ.log :=
  ⟨fun p hp => (h p hp).uniq, fun p hp => (h p hp).pcPolka, fun p hp => (h p hp).hist⟩

theorem exists_min {P : Nat → Prop} (k : Nat) (h : P k) : ∃ m, P m ∧ ∀ j, j < m → ¬ P j := by
  induction k using Nat.strongRecOn with
  | _ k ih =>
    by_cases hk : ∃ j, j < k ∧ P j
    · obtain ⟨j, hj, hpj⟩ := hk
      exact ih j hj hpj
    · exact ⟨k, h, fun j hj hp => hk ⟨j, hj, hp⟩⟩

theorem mem_take_getElem? {L : List Vote} {k : Nat} {v : Vote} (h : v ∈ L.take k) :
    ∃ i, i < k ∧ L[i]? = some v := by
  obtain ⟨i, hi, he⟩ := List.getElem_of_mem h
  have hlen : i < k ∧ i < L.length := by
    simp [List.length_take] at hi; omega
  refine ⟨i, hlen.1, ?_⟩
  rw [List.getElem_take] at he
  rw [List.getElem?_eq_getElem hlen.2, he]

theorem take_sub {L : List Vote} {i k : Nat} (h : i ≤ k) : ∀ v, v ∈ L.take i → v ∈ L.take k := by
  intro v hv
  have : L.take i = (L.take k).take i := by rw [List.take_take]; congr 1; omega
  rw [this] at hv
  exact List.mem_of_mem_take hv

/-- **No later polka against a commit quorum.**  If +2/3 precommitted `b` at `(H, r)`, no round
after `r` of height `H` has +2/3 prevotes for anything else (another block or nil). -/
theorem no_polka_after_commit {c : Cfg} (hf : c.FewFaulty) {L : List Vote} (hL : LogInv c L)
    {H r : Nat} {b : Block} (hq : commitQ c L H r b) :
    ¬ ∃ ρ w, r < ρ ∧ w ≠ some b ∧ polka c L H ρ w := by
  intro hbad
  let P : Nat → Prop := fun k => ∃ ρ w, r < ρ ∧ w ≠ some b ∧ polka c (L.take k) H ρ w
  have hPlen : P L.length := by simpa [P] using hbad
  obtain ⟨m, ⟨ρ, w, hρ, hw, hpol⟩, hmin⟩ := exists_min (P := P) L.length hPlen
  obtain ⟨h, hh, hh1, hh2⟩ := quorum_intersection c hf _ _ hpol hq
  simp only [hasVote, decide_eq_true_eq] at hh1 hh2
  obtain ⟨i, him, hi⟩ := mem_take_getElem? hh1
  obtain ⟨ρ', w', h1, h2, h3, h4⟩ :=
    hL.hist h hh i _ hi rfl rfl _ hh2 rfl rfl rfl hρ b rfl hw
  exact hmin i him ⟨ρ', w', h1, h3, h4⟩

/-- **Agreement on the log.**  Two commit quorums of the same height are for the same block. -/
theorem commitQ_unique {c : Cfg} (hf : c.FewFaulty) {L : List Vote} (hL : LogInv c L)
    {H r r' : Nat} {b b' : Block} (hq : commitQ c L H r b) (hq' : commitQ c L H r' b') : b = b' := by
  -- wlog r ≤ r'
  have key : ∀ {r r' : Nat} {b b' : Block}, r ≤ r' → commitQ c L H r b → commitQ c L H r' b' → b = b' := by
    intro r r' b b' hle hq hq'
    rcases Nat.lt_or_eq_of_le hle with hlt | heq
    · -- an honest validator precommitted b' at r' > r, hence a polka for b' there
      apply Classical.byContradiction
      intro hne
      obtain ⟨h, hh, hh1⟩ := quorum_has_honest c hf _ hq'
      simp only [hasVote, decide_eq_true_eq] at hh1
      have hp := hL.pcPolka h hh _ hh1 rfl rfl b' rfl
      simp only at hp
      refine no_polka_after_commit hf hL hq ⟨r', some b', hlt, ?_, hp⟩
      intro he; cases he; exact hne rfl
    · subst heq
      obtain ⟨h, hh, hh1, hh2⟩ := quorum_intersection c hf _ _ hq hq'
      simp only [hasVote, decide_eq_true_eq] at hh1 hh2
      have := hL.uniq h hh _ hh1 _ hh2 rfl rfl rfl rfl rfl
      simpa using this
  rcases Nat.le_total r r' with h1 | h1
  · exact key h1 hq hq'
  · exact (key h1 hq' hq).symm

-- ---------------------------------------------------------------- building concrete schedules


/-- single steps of a schedule, for writing concrete schedules down -/
theorem AReach.prevote {c : Cfg} {σ : AState} (h : AReach c σ) (p : Val) (w : Option Block)
    (hp : c.honest p) (h1 : (σ.nodes p).pvDone = false)
    (h2 : ∀ v, (σ.nodes p).lockedBlock = some v → w = some v) :
    AReach c { nodes := upd σ.nodes p { (σ.nodes p) with pvDone := true },
               log := σ.log ++ [⟨p, (σ.nodes p).height, (σ.nodes p).round, .prevote, w⟩] } :=
  h.step (AStep.act σ p _ _ hp (AAct.prevote _ w h1 h2))

theorem AReach.precommitBlock {c : Cfg} {σ : AState} (h : AReach c σ) (p : Val) (v : Block)
    (hp : c.honest p) (h1 : (σ.nodes p).pcDone = false)
    (h2 : polka c σ.log (σ.nodes p).height (σ.nodes p).round (some v)) :
    AReach c { nodes := upd σ.nodes p { (σ.nodes p) with
                 pcDone := true, lockedRound := (σ.nodes p).round, lockedBlock := some v },
               log := σ.log ++ [⟨p, (σ.nodes p).height, (σ.nodes p).round, .precommit, some v⟩] } :=
  h.step (AStep.act σ p _ _ hp (AAct.precommitBlock _ v h1 h2))

theorem AReach.decide {c : Cfg} {σ : AState} (h : AReach c σ) (p : Val) (v : Block) (r : Nat)
    (hp : c.honest p) (h2 : commitQ c σ.log (σ.nodes p).height r v) :
    AReach c { nodes := upd σ.nodes p
                 { height := (σ.nodes p).height + 1, round := 0, pvDone := false, pcDone := false,
                   lockedRound := -1, lockedBlock := none,
                   decided := ((σ.nodes p).height, v) :: (σ.nodes p).decided },
               log := σ.log ++ [] } :=
  h.step (AStep.act σ p _ _ hp (AAct.decide _ v r h2))

theorem AReach.byz {c : Cfg} {σ : AState} (h : AReach c σ) (v : Vote) (hb : ¬ c.honest v.sender) :
    AReach c { σ with log := σ.log ++ [v] } :=
  h.step (AStep.byz σ v hb)


end GnoVerif.C31
