import GnoVerif.Model.C17
import GnoVerif.Spec.C17
/-! Helper lemmas for C17 (core Lean only; `omega` carries the arithmetic). -/
namespace GnoVerif.C17

theorem stepSize_ge_one (a l t c : Int) : 1 ≤ stepSize a l t c := by
  unfold stepSize; omega

theorem isInt64_iff (x : Int) : isInt64 x = true ↔ InRange x := by
  simp [isInt64, InRange]

theorem finish_ok {last : GasPrice} {n : Int} (h : InRange n) :
    finish last n = .ok { last with amount := n } := by
  simp [finish, (isInt64_iff n).2 h]

theorem finish_err {last : GasPrice} {n : Int} (h : ¬ InRange n) :
    finish last n = .error .range := by
  have : isInt64 n = false := by
    cases hb : isInt64 n with
    | false => rfl
    | true => exact absurd ((isInt64_iff n).1 hb) h
  simp [finish, this]

/-- the four "nothing to do" early returns. -/
theorem calcPrice_unchanged {last : GasPrice} {used maxGas : Int} {p : Params}
    (h : last.amount = 0 ∨ p.ratio = 0 ∨ targetGas maxGas p.ratio ≤ 0 ∨ used = targetGas maxGas p.ratio) :
    calcPrice last used maxGas p = .ok last := by
  unfold calcPrice
  by_cases h1 : last.amount = 0
  · simp [h1]
  by_cases h2 : p.ratio = 0
  · simp [h1, h2]
  by_cases h3 : targetGas maxGas p.ratio ≤ 0
  · simp [h1, h2, h3]
  by_cases h4 : targetGas maxGas p.ratio = used
  · simp [h1, h2, h4]
  · rcases h with h | h | h | h
    · exact absurd h h1
    · exact absurd h h2
    · exact absurd h h3
    · exact absurd h.symm h4

/-- the increase branch, reduced to its arithmetic. -/
theorem calcPrice_increase {last : GasPrice} {used maxGas : Int} {p : Params}
    (h1 : last.amount ≠ 0) (h2 : p.ratio ≠ 0) (h3 : 0 < targetGas maxGas p.ratio)
    (h4 : targetGas maxGas p.ratio < used) (hc : p.compressor ≠ 0) :
    calcPrice last used maxGas p =
      finish last (last.amount + stepSize (used - targetGas maxGas p.ratio) last.amount (targetGas maxGas p.ratio) p.compressor) := by
  unfold calcPrice
  have h3' : ¬ targetGas maxGas p.ratio ≤ 0 := by omega
  have h4' : ¬ targetGas maxGas p.ratio = used := by omega
  have h5 : used > targetGas maxGas p.ratio := h4
  simp [h1, h2, h3', h4', h5, hc]

/-- the decrease branch at or above the floor, reduced to its arithmetic. -/
theorem calcPrice_decrease {last : GasPrice} {used maxGas : Int} {p : Params}
    (h1 : last.amount ≠ 0) (h2 : p.ratio ≠ 0) (h3 : 0 < targetGas maxGas p.ratio)
    (h4 : used < targetGas maxGas p.ratio) (h5 : p.initial.amount ≤ last.amount) (hc : p.compressor ≠ 0) :
    calcPrice last used maxGas p =
      finish last (max (last.amount - stepSize (targetGas maxGas p.ratio - used) last.amount (targetGas maxGas p.ratio) p.compressor)
        p.initial.amount) := by
  unfold calcPrice
  have h3' : ¬ targetGas maxGas p.ratio ≤ 0 := by omega
  have h4' : ¬ targetGas maxGas p.ratio = used := by omega
  have h4'' : ¬ used > targetGas maxGas p.ratio := by
    intro h; exact absurd h (by omega)
  have h5' : ¬ last.amount < p.initial.amount := by omega
  simp [h1, h2, h3', h4', h4'', h5', hc]

/-- the decrease branch below the floor: the whole `InitialGasPrice` comes back. -/
theorem calcPrice_below_floor {last : GasPrice} {used maxGas : Int} {p : Params}
    (h1 : last.amount ≠ 0) (h2 : p.ratio ≠ 0) (h3 : 0 < targetGas maxGas p.ratio)
    (h4 : used < targetGas maxGas p.ratio) (h5 : last.amount < p.initial.amount) :
    calcPrice last used maxGas p = .ok p.initial := by
  unfold calcPrice
  have h3' : ¬ targetGas maxGas p.ratio ≤ 0 := by omega
  have h4' : ¬ targetGas maxGas p.ratio = used := by omega
  have h4'' : ¬ used > targetGas maxGas p.ratio := by
    intro h; exact absurd h (by omega)
  simp [h1, h2, h3', h4', h4'', h5]

theorem upStep_ge_one (last : GasPrice) (used maxGas : Int) (p : Params) : 1 ≤ upStep last used maxGas p :=
  stepSize_ge_one _ _ _ _

theorem downStep_ge_one (last : GasPrice) (used maxGas : Int) (p : Params) : 1 ≤ downStep last used maxGas p :=
  stepSize_ge_one _ _ _ _


/-! ### the store -/

theorem stored_amount (g : GasPrice) : (stored g).amount = g.amount := by
  unfold stored; split <;> simp_all

theorem stored_gas (g : GasPrice) : (stored g).gas = g.gas := by
  unfold stored; split <;> rfl

theorem stored_idem (g : GasPrice) : stored (stored g) = stored g := by
  unfold stored; split <;> simp_all

theorem stored_zero : stored GasPrice.zero = GasPrice.zero := by decide

/-- whatever `LastGasPrice` returns is already in stored (round-tripped) form, with a non-negative amount. -/
theorem lastGasPrice_ok {s : Store} {g : GasPrice} (h : lastGasPrice s = .ok g) :
    stored g = g ∧ 0 ≤ g.amount := by
  unfold lastGasPrice at h
  cases s with
  | none => injection h with h; subst h; exact ⟨stored_zero, by decide⟩
  | some gp =>
    simp only at h
    split at h
    · cases h
    · injection h with h; subst h
      refine ⟨stored_idem gp, ?_⟩
      rw [stored_amount]; omega

end GnoVerif.C17
