import GnoVerif.Base.Crc32c
/-!
CRC-32C facts used by C38: the register update is GF(2)-linear and injective, so
two equally long byte strings that differ only inside a window of at most four
consecutive bytes (an error burst of ≤ 32 bits) never have the same checksum.
-/
namespace GnoVerif.Crc32c

theorem xor_cancel_mid (x y p : BitVec 32) : (x ^^^ p) ^^^ (y ^^^ p) = x ^^^ y := by
  rw [BitVec.xor_assoc, BitVec.xor_comm y p, ← BitVec.xor_assoc p p y, BitVec.xor_self, BitVec.zero_xor]

theorem stepBit_xor (a b : BitVec 32) : stepBit (a ^^^ b) = stepBit a ^^^ stepBit b := by
  unfold stepBit
  rw [BitVec.ushiftRight_xor_distrib, BitVec.getLsbD_xor]
  cases ha : a.getLsbD 0 <;> cases hb : b.getLsbD 0
  · simp
  · simp only [Bool.false_bne, if_true, Bool.false_eq_true, if_false, BitVec.xor_zero, BitVec.xor_assoc]
  · simp only [Bool.bne_false, if_true, Bool.false_eq_true, if_false, BitVec.xor_zero]
    rw [BitVec.xor_assoc, BitVec.xor_comm (b >>> 1) poly, ← BitVec.xor_assoc]
  · simp only [bne_self_eq_false, Bool.false_eq_true, if_false, if_true, BitVec.xor_zero]
    exact (xor_cancel_mid _ _ _).symm

theorem stepBit_zero : stepBit 0#32 = 0#32 := by decide

theorem stepBit_eq_zero {x : BitVec 32} (h : stepBit x = 0#32) : x = 0#32 := by
  unfold stepBit at h
  have hlt := x.isLt
  have hsh : (x >>> 1).toNat = x.toNat / 2 := by simp [BitVec.toNat_ushiftRight, Nat.shiftRight_eq_div_pow]
  have hb : x.getLsbD 0 = decide (x.toNat % 2 = 1) := by simp [BitVec.getLsbD, Nat.testBit_zero]
  rw [hb, BitVec.xor_eq_zero_iff] at h
  by_cases hx : x.toNat % 2 = 1
  · simp only [hx, decide_true, if_true] at h
    have : (x >>> 1).toNat = (poly).toNat := by rw [h]
    rw [hsh] at this
    have hp : (poly).toNat = 2197175160 := by decide
    omega
  · simp only [hx, decide_false, Bool.false_eq_true, if_false] at h
    have : (x >>> 1).toNat = (0#32).toNat := by rw [h]
    rw [hsh] at this
    apply BitVec.eq_of_toNat_eq
    simp at this ⊢; omega

theorem stepBit_inj {a b : BitVec 32} (h : stepBit a = stepBit b) : a = b := by
  have : stepBit (a ^^^ b) = 0#32 := by rw [stepBit_xor, h, BitVec.xor_self]
  exact BitVec.xor_eq_zero_iff.mp (stepBit_eq_zero this)

theorem step8_xor (a b : BitVec 32) : step8 (a ^^^ b) = step8 a ^^^ step8 b := by
  simp only [step8, stepBit_xor]

theorem step8_zero : step8 0#32 = 0#32 := by decide

theorem step8_inj {a b : BitVec 32} (h : step8 a = step8 b) : a = b := by
  unfold step8 at h
  exact stepBit_inj (stepBit_inj (stepBit_inj (stepBit_inj (stepBit_inj (stepBit_inj (stepBit_inj (stepBit_inj h)))))))

/-! #### bytes -/

/-- a byte as a register value -/
def ext (b : UInt8) : BitVec 32 := b.toBitVec.setWidth 32

theorem stepByte_eq (c : BitVec 32) (b : UInt8) : stepByte c b = step8 (c ^^^ ext b) := rfl

theorem ext_toNat (b : UInt8) : (ext b).toNat = b.toNat := by
  simp [ext, BitVec.toNat_setWidth]

theorem ext_inj {a b : UInt8} (h : ext a = ext b) : a = b := by
  apply UInt8.toNat_inj.mp
  rw [← ext_toNat a, ← ext_toNat b, h]

theorem stepByte_xor (c1 c2 : BitVec 32) (b1 b2 : UInt8) :
    stepByte c1 b1 ^^^ stepByte c2 b2 = step8 ((c1 ^^^ c2) ^^^ (ext b1 ^^^ ext b2)) := by
  rw [stepByte_eq, stepByte_eq, ← step8_xor]
  congr 1
  rw [BitVec.xor_assoc, BitVec.xor_assoc]
  congr 1
  rw [← BitVec.xor_assoc, BitVec.xor_comm (ext b1) c2, BitVec.xor_assoc]

theorem update_cons (c : BitVec 32) (b : UInt8) (bs : List UInt8) :
    update c (b :: bs) = update (stepByte c b) bs := rfl

theorem update_append (c : BitVec 32) (xs ys : List UInt8) :
    update c (xs ++ ys) = update (update c xs) ys := by
  simp [update, List.foldl_append]

/-- Absorbing the same bytes keeps two different registers different. -/
theorem update_ne_of_ne {c1 c2 : BitVec 32} (h : c1 ≠ c2) (bs : List UInt8) : update c1 bs ≠ update c2 bs := by
  induction bs generalizing c1 c2 with
  | nil => exact h
  | cons b bs ih =>
    rw [update_cons, update_cons]
    apply ih
    intro e
    rw [stepByte_eq, stepByte_eq] at e
    exact h ((BitVec.xor_left_inj (ext b)).mp (step8_inj e))

/-! #### a window of at most four bytes -/

def iter8 : Nat → BitVec 32 → BitVec 32
  | 0, x => x
  | n + 1, x => iter8 n (step8 x)

theorem iter8_zero_arg (n : Nat) : iter8 n 0#32 = 0#32 := by
  induction n with
  | zero => rfl
  | succ n ih => rw [iter8, step8_zero, ih]

theorem iter8_inj (n : Nat) {a b : BitVec 32} (h : iter8 n a = iter8 n b) : a = b := by
  induction n generalizing a b with
  | zero => exact h
  | succ n ih => exact step8_inj (ih h)

/-- the xor of two byte strings, packed little-endian into the register (first byte lowest) -/
def acc : List UInt8 → List UInt8 → BitVec 32
  | b1 :: r1, b2 :: r2 => (ext b1 ^^^ ext b2) ^^^ (acc r1 r2 <<< 8)
  | _, _ => 0#32

theorem stepBit_even {y : BitVec 32} (h : y.getLsbD 0 = false) : stepBit y = y >>> 1 := by
  unfold stepBit
  rw [h]
  simp

/-- eight shifts undo a left shift by eight (nothing is shifted out at the top) -/
theorem step8_shl8 (x : BitVec 32) (hx : x.toNat < 2 ^ 24) : step8 (x <<< 8) = x := by
  have e1 : stepBit (x <<< 8) = (x <<< 8) >>> 1 := stepBit_even (by simp)
  have e2 : stepBit ((x <<< 8) >>> 1) = (x <<< 8) >>> 1 >>> 1 := stepBit_even (by simp)
  have e3 : stepBit ((x <<< 8) >>> 1 >>> 1) = (x <<< 8) >>> 1 >>> 1 >>> 1 := stepBit_even (by simp)
  have e4 : stepBit ((x <<< 8) >>> 1 >>> 1 >>> 1) = (x <<< 8) >>> 1 >>> 1 >>> 1 >>> 1 := stepBit_even (by simp)
  have e5 : stepBit ((x <<< 8) >>> 1 >>> 1 >>> 1 >>> 1) = (x <<< 8) >>> 1 >>> 1 >>> 1 >>> 1 >>> 1 :=
    stepBit_even (by simp)
  have e6 : stepBit ((x <<< 8) >>> 1 >>> 1 >>> 1 >>> 1 >>> 1) = (x <<< 8) >>> 1 >>> 1 >>> 1 >>> 1 >>> 1 >>> 1 :=
    stepBit_even (by simp)
  have e7 : stepBit ((x <<< 8) >>> 1 >>> 1 >>> 1 >>> 1 >>> 1 >>> 1)
      = (x <<< 8) >>> 1 >>> 1 >>> 1 >>> 1 >>> 1 >>> 1 >>> 1 := stepBit_even (by simp)
  have e8 : stepBit ((x <<< 8) >>> 1 >>> 1 >>> 1 >>> 1 >>> 1 >>> 1 >>> 1)
      = (x <<< 8) >>> 1 >>> 1 >>> 1 >>> 1 >>> 1 >>> 1 >>> 1 >>> 1 := stepBit_even (by simp)
  unfold step8
  rw [e1, e2, e3, e4, e5, e6, e7, e8]
  apply BitVec.eq_of_toNat_eq
  simp only [BitVec.toNat_ushiftRight, BitVec.toNat_shiftLeft, Nat.shiftRight_eq_div_pow, Nat.shiftLeft_eq]
  omega

theorem shl8_lt {x : BitVec 32} {k : Nat} (h : x.toNat < 2 ^ k) : (x <<< 8).toNat < 2 ^ (k + 8) := by
  simp only [BitVec.toNat_shiftLeft, Nat.shiftLeft_eq]
  have h1 : x.toNat * 2 ^ 8 % 2 ^ 32 ≤ x.toNat * 2 ^ 8 := Nat.mod_le _ _
  have h2 : x.toNat * 2 ^ 8 < 2 ^ k * 2 ^ 8 := Nat.mul_lt_mul_of_pos_right h (by decide)
  rw [Nat.pow_add]
  omega

theorem ext_lt (b : UInt8) (k : Nat) : (ext b).toNat < 2 ^ (k + 8) := by
  rw [ext_toNat]
  have h1 := b.toNat_lt
  have h2 : 2 ^ 8 ≤ 2 ^ (k + 8) := Nat.pow_le_pow_right (by decide) (by omega)
  omega

theorem acc_lt : ∀ (m1 m2 : List UInt8), (acc m1 m2).toNat < 2 ^ (8 * m1.length)
  | [], _ => by simp [acc]
  | _ :: _, [] => by simp [acc]; exact Nat.two_pow_pos _
  | b1 :: r1, b2 :: r2 => by
    have ih := acc_lt r1 r2
    have e : 8 * (b1 :: r1).length = 8 * r1.length + 8 := by simp [Nat.mul_succ]
    rw [e]
    simp only [acc, BitVec.toNat_xor]
    exact Nat.xor_lt_two_pow (Nat.xor_lt_two_pow (ext_lt b1 _) (ext_lt b2 _)) (shl8_lt ih)

theorem acc_lt24 (m1 m2 : List UInt8) (h : m1.length ≤ 3) : (acc m1 m2).toNat < 2 ^ 24 := by
  have h1 := acc_lt m1 m2
  have h2 : 2 ^ (8 * m1.length) ≤ 2 ^ 24 := Nat.pow_le_pow_right (by decide) (by omega)
  omega

/-- Running the register over two equally long windows of at most four bytes. -/
theorem update_xor_window : ∀ (m1 m2 : List UInt8), m1.length = m2.length → m1.length ≤ 4 →
    ∀ c1 c2 : BitVec 32, update c1 m1 ^^^ update c2 m2 = iter8 m1.length ((c1 ^^^ c2) ^^^ acc m1 m2)
  | [], [], _, _ => by intro c1 c2; simp [update, iter8, acc]
  | [], _ :: _, h, _ => by simp at h
  | _ :: _, [], h, _ => by simp at h
  | b1 :: r1, b2 :: r2, h, hw => by
    intro c1 c2
    have hl : r1.length = r2.length := by simpa using h
    have hw' : r1.length ≤ 3 := by simp at hw; omega
    rw [update_cons, update_cons, update_xor_window r1 r2 hl (by omega), stepByte_xor]
    simp only [List.length_cons, iter8, acc]
    congr 1
    rw [← BitVec.xor_assoc (c1 ^^^ c2) (ext b1 ^^^ ext b2) (acc r1 r2 <<< 8),
      step8_xor (c1 ^^^ c2 ^^^ (ext b1 ^^^ ext b2)) (acc r1 r2 <<< 8), step8_shl8 _ (acc_lt24 r1 r2 hw')]

/-- the packed difference is zero only if the windows are equal -/
theorem eq_of_acc_eq_zero : ∀ (m1 m2 : List UInt8), m1.length = m2.length → m1.length ≤ 4 →
    acc m1 m2 = 0#32 → m1 = m2
  | [], [], _, _, _ => rfl
  | [], _ :: _, h, _, _ => by simp at h
  | _ :: _, [], h, _, _ => by simp at h
  | b1 :: r1, b2 :: r2, h, hw, hz => by
    have hl : r1.length = r2.length := by simpa using h
    have hw' : r1.length ≤ 3 := by simp at hw; omega
    simp only [acc] at hz
    rw [BitVec.xor_eq_zero_iff] at hz
    have hb := acc_lt24 r1 r2 hw'
    have h1 : ((ext b1) ^^^ (ext b2)).toNat < 2 ^ 8 := by
      rw [BitVec.toNat_xor]
      apply Nat.xor_lt_two_pow <;> rw [ext_toNat] <;> exact UInt8.toNat_lt _
    have h2 : (acc r1 r2 <<< 8).toNat = (acc r1 r2).toNat * 256 := by
      simp only [BitVec.toNat_shiftLeft, Nat.shiftLeft_eq]; omega
    have h3 : ((ext b1) ^^^ (ext b2)).toNat = (acc r1 r2 <<< 8).toNat := by rw [hz]
    have hacc0 : (acc r1 r2).toNat = 0 := by omega
    have he0 : ((ext b1) ^^^ (ext b2)).toNat = 0 := by omega
    have e1 : ext b1 ^^^ ext b2 = 0#32 := BitVec.eq_of_toNat_eq (by simpa using he0)
    have e2 : acc r1 r2 = 0#32 := BitVec.eq_of_toNat_eq (by simpa using hacc0)
    rw [ext_inj (BitVec.xor_eq_zero_iff.mp e1), eq_of_acc_eq_zero r1 r2 hl (by omega) e2]

/-- **Burst detection.** Two byte strings that agree except inside a window of at
most four consecutive bytes leave the CRC register in different states. -/
theorem update_window_ne (c : BitVec 32) (pre mid mid' suf : List UInt8)
    (hlen : mid.length = mid'.length) (hw : mid.length ≤ 4) (hne : mid ≠ mid') :
    update c (pre ++ mid ++ suf) ≠ update c (pre ++ mid' ++ suf) := by
  rw [update_append, update_append, update_append, update_append]
  apply update_ne_of_ne
  intro e
  have hx := update_xor_window mid mid' hlen hw (update c pre) (update c pre)
  rw [e, BitVec.xor_self, BitVec.xor_self, BitVec.zero_xor] at hx
  have : iter8 mid.length (acc mid mid') = iter8 mid.length 0#32 := by rw [iter8_zero_arg]; exact hx.symm
  exact hne (eq_of_acc_eq_zero mid mid' hlen hw (iter8_inj _ this))

theorem crc32c_window_ne (pre mid mid' suf : List UInt8)
    (hlen : mid.length = mid'.length) (hw : mid.length ≤ 4) (hne : mid ≠ mid') :
    crc32c (pre ++ mid ++ suf) ≠ crc32c (pre ++ mid' ++ suf) := by
  unfold crc32c
  intro e
  exact update_window_ne _ pre mid mid' suf hlen hw hne (BitVec.not_inj.mp e)

end GnoVerif.Crc32c
