/-
C37: the composite facts about `IncrementProposerPriority(1)`, `UpdateWithChangeSet`, and the
states reachable from `NewValidatorSet`.
-/
import GnoVerif.Proofs.C37Spread
namespace GnoVerif.C37

/-- bound on magnitudes that every operation re-establishes (`3·MaxTotalVotingPower`) -/
def bigB : Int := 3 * maxTotal

theorem wf_total_pos {s : VSet} (hwf : WF s) (hne : s.vals ≠ []) : 1 ≤ s.total := by
  rw [hwf.total_eq]; exact sumPower_pos hne hwf.pos

/-- The state right after the rescale-and-centre prologue of `IncrementProposerPriority`. -/
def afterPrologue (s : VSet) : List Val :=
  shiftByAvg (rescale (windowFactor * totalVP s) s.vals)

theorem prologue_spec {s : VSet} (hwf : WF s) (hne : s.vals ≠ []) (hb : PrioBound s.vals bigB) :
    rescalePanics (windowFactor * totalVP s) s.vals = false ∧
    shape (afterPrologue s) = shape s.vals ∧
    SpreadLe (afterPrologue s) (2 * s.total) ∧ PrioBound (afterPrologue s) (2 * s.total) ∧
    0 ≤ sumPrio (afterPrologue s) ∧ sumPrio (afterPrologue s) < s.vals.length := by
  have hT := wf_total_pos hwf hne
  have hTle := hwf.total_le
  have htot := totalVP_of_wf hwf
  unfold afterPrologue
  rw [htot]
  have hD : windowFactor * s.total = 2 * s.total := by unfold windowFactor; rfl
  rw [hD]
  obtain ⟨r1, r2, r3⟩ := rescale_spec (D := 2 * s.total) hne hb (by omega)
    (by unfold bigB maxInt64; unfold maxTotal at hTle ⊢; omega)
  have hne1 : rescale (2 * s.total) s.vals ≠ [] := by
    intro hc
    have := shape_length (shape_rescale (2 * s.total) s.vals)
    rw [hc] at this
    exact hne (List.length_eq_zero_iff.1 this.symm)
  obtain ⟨s1, s2, s3, s4⟩ := shift_spec hne1 r3 (by unfold bigB maxInt64 maxTotal; omega) r2
  have hlen : (rescale (2 * s.total) s.vals).length = s.vals.length :=
    shape_length (shape_rescale _ _)
  refine ⟨r1, by rw [shape_shiftByAvg, shape_rescale], s1, s2, s3, by rw [← hlen]; exact s4⟩

/-- `IncrementProposerPriority(1)` on a well-formed, bounded, non-empty set: no panic, the set
stays well-formed with the same total, and afterwards all priorities are within `3T − 1` of each
other (and within `[-3T, 3T]`). -/
theorem incOne_spec {s : VSet} (hwf : WF s) (hne : s.vals ≠ []) (hb : PrioBound s.vals bigB) :
    ∃ s', opInc 1 s = .ok s' ∧ WF s' ∧ s'.vals ≠ [] ∧ s'.total = s.total ∧
      shape s'.vals = shape s.vals ∧
      SpreadLe s'.vals (3 * s'.total - 1) ∧ PrioBound s'.vals (3 * s'.total) := by
  have hT := wf_total_pos hwf hne
  have hTle := hwf.total_le
  have htot := totalVP_of_wf hwf
  obtain ⟨p1, p2, p3, p4, _, _⟩ := prologue_spec hwf hne hb
  have hne2 : afterPrologue s ≠ [] := by
    intro hc
    have := shape_length p2
    rw [hc] at this
    exact hne (List.length_eq_zero_iff.1 this.symm)
  obtain ⟨m, hm, hstep, hsp, hpb⟩ := step_spec (T := s.total) (S := 2 * s.total) (Bd := 3 * s.total - 1) hne2
    (by rw [sortedAddr_iff_shape, p2, ← sortedAddr_iff_shape]; exact hwf.sorted)
    (by rw [pos_iff_shape, p2, ← pos_iff_shape]; exact hwf.pos)
    (by rw [sumPower_shape, p2, ← sumPower_shape]; exact hwf.total_eq.symm)
    hTle p4 p3 (by omega) (by omega)
  refine ⟨⟨(afterPrologue s).map (bump m.addr s.total), s.total, some m.addr⟩, ?_, ?_, ?_, rfl, ?_, hsp, hpb⟩
  · unfold opInc
    have hne' : s.vals.isEmpty = false := by
      cases h : s.vals with
      | nil => exact absurd h hne
      | cons _ _ => rfl
    have hz : (s.total = 0) = False := by
      simp only [eq_iff_iff, iff_false]; omega
    simp only [hne', p1, hz, Bool.false_eq_true, if_false, decide_false, Bool.false_and,
      show ¬ ((1 : Int) ≤ 0) by omega]
    unfold incTimes
    show Except.ok _ = _
    congr 1
    unfold afterPrologue at hstep ⊢
    rw [htot] at hstep ⊢
    have e1 : stepN (1 : Int).toNat s.total (shiftByAvg (rescale (windowFactor * s.total) s.vals)) s.proposer =
        stepOnce s.total (shiftByAvg (rescale (windowFactor * s.total) s.vals)) := by
      simp only [show (1 : Int).toNat = 1 by rfl, stepN]
    show VSet.mk _ _ _ = _
    simp only [e1, hstep]
  · have hsh : shape ((afterPrologue s).map (bump m.addr s.total)) = shape s.vals := by
      rw [shape_map_bump, p2]
    exact ⟨by rw [sortedAddr_iff_shape, hsh, ← sortedAddr_iff_shape]; exact hwf.sorted,
      by rw [pos_iff_shape, hsh, ← pos_iff_shape]; exact hwf.pos,
      by show s.total = _; rw [sumPower_shape, hsh, ← sumPower_shape]; exact hwf.total_eq,
      hTle⟩
  · intro hc
    have := congrArg List.length hc
    simp only [List.length_map, List.length_nil] at this
    exact hne2 (List.length_eq_zero_iff.1 this)
  · show shape ((afterPrologue s).map (bump m.addr s.total)) = shape s.vals
    rw [shape_map_bump, p2]

/-! ### updates -/

theorem merged_prioBound {s : VSet} {m : List Val} (F : MergedFacts s m) (hb : PrioBound s.vals bigB) :
    PrioBound m bigB := by
  intro v hv
  rcases F.origin v hv with ⟨w, hw, he⟩ | ⟨nt, h0, h1, he⟩
  · rw [he]; exact hb w hw
  · rw [he]; unfold bigB; unfold maxTotal at h1 ⊢; omega

/-- the tail of an update on the merged list: no panic, spread and magnitudes within `2·T'` -/
theorem finish_spec {s : VSet} {m : List Val} (F : MergedFacts s m) (hb : PrioBound s.vals bigB) :
    ∃ s', finishUpdate s m = .ok s' ∧ SpreadLe s'.vals (2 * s'.total) ∧
      PrioBound s'.vals (2 * s'.total) := by
  obtain ⟨t1, t2⟩ := sumPowerClip_eq (fun v hv => by have := F.pos v hv; omega) F.sum_le
  have hT : 1 ≤ sumPower m := sumPower_pos F.ne F.pos
  have hTle := F.sum_le
  have hmb := merged_prioBound F hb
  have hD : windowFactor * sumPower m = 2 * sumPower m := by unfold windowFactor; rfl
  obtain ⟨r1, r2, r3⟩ := rescale_spec (D := 2 * sumPower m) F.ne hmb (by omega)
    (by unfold bigB maxInt64; unfold maxTotal at hTle ⊢; omega)
  have hne1 : rescale (2 * sumPower m) m ≠ [] := by
    intro hc
    have := shape_length (shape_rescale (2 * sumPower m) m)
    rw [hc] at this
    exact F.ne (List.length_eq_zero_iff.1 this.symm)
  obtain ⟨s1, s2, _, _⟩ := shift_spec hne1 r3 (by unfold bigB maxInt64 maxTotal; omega) r2
  refine ⟨⟨shiftByAvg (rescale (2 * sumPower m) m), sumPower m, s.proposer⟩, ?_, s1, s2⟩
  unfold finishUpdate
  simp only [ite_self, t1, t2, hD, r1, Bool.false_eq_true, if_false]

/-- scanning never panics -/
theorem scanChanges_error {l : List Val} : ∀ {prev : Option Nat} {e : Err},
    scanChanges prev l = .error e → e.isReturned = true := by
  induction l with
  | nil => intro prev e h; simp [scanChanges] at h
  | cons u rest ih =>
    intro prev e h
    simp only [scanChanges] at h
    by_cases h1 : prev = some u.addr
    · simp only [h1, if_true, Except.error.injEq] at h; subst h; rfl
    · rw [if_neg h1] at h
      by_cases h2 : u.power < 0
      · simp only [h2, if_true, Except.error.injEq] at h; subst h; rfl
      · rw [if_neg h2] at h
        by_cases h3 : u.power > maxTotal
        · simp only [h3, if_true, Except.error.injEq] at h; subst h; rfl
        · rw [if_neg h3] at h
          cases hrec : scanChanges (some u.addr) rest with
          | error e' =>
            simp only [hrec, Except.error.injEq] at h
            subst h; exact ih hrec
          | ok r =>
            obtain ⟨a, b⟩ := r
            simp only [hrec] at h
            split at h <;> cases h

theorem verifyUpdates_error {vals : List Val} : ∀ {us : List Val} {tot : Int} {nn : Nat} {e : Err},
    verifyUpdates vals us tot nn = .error e → e.isReturned = true := by
  intro us
  induction us with
  | nil => intro tot nn e h; simp [verifyUpdates] at h
  | cons u us ih =>
    intro tot nn e h
    simp only [verifyUpdates] at h
    cases hl : lookup u.addr vals with
    | none =>
      simp only [hl] at h
      by_cases hc : tot + u.power > maxTotal
      · simp only [hc, if_true, Except.error.injEq] at h; subst h; rfl
      · rw [if_neg hc] at h; exact ih h
    | some v =>
      simp only [hl] at h
      by_cases hc : tot + (u.power - v.power) > maxTotal
      · simp only [hc, if_true, Except.error.injEq] at h; subst h; rfl
      · rw [if_neg hc] at h; exact ih h

/-- On a well-formed, bounded set `updateWithChangeSet` never panics: every failure is a returned error. -/
theorem updateWith_error_returned {ad : Bool} {s : VSet} {ch : List Val} {e : Err} (hwf : WF s)
    (hb : PrioBound s.vals bigB) (h : updateWith ad s ch = .error e) : e.isReturned = true := by
  unfold updateWith at h
  by_cases hemp : ch.isEmpty = true
  · simp [hemp] at h
  · rw [if_neg hemp] at h
    cases hp : processChanges ch with
    | error e' =>
      simp only [hp, Except.error.injEq] at h
      subst h
      exact scanChanges_error hp
    | ok r =>
      obtain ⟨ups, dels⟩ := r
      simp only [hp] at h
      by_cases c1 : (!ad && !dels.isEmpty) = true
      · simp only [c1, if_true, Except.error.injEq] at h; subst h; rfl
      · rw [if_neg c1] at h
        by_cases c2 : (!verifyRemovals s.vals dels) = true
        · simp only [c2, if_true, Except.error.injEq] at h; subst h; rfl
        · rw [if_neg c2] at h
          have htp : totalPanics s.vals = false :=
            (sumPowerClip_eq (fun v hv => by have := hwf.pos v hv; omega)
              (by rw [← hwf.total_eq]; exact hwf.total_le)).2
          rw [htp] at h
          simp only [Bool.and_false, Bool.false_eq_true, if_false] at h
          cases hv : verifyUpdates s.vals ups (totalVP s) 0 with
          | error e' =>
            simp only [hv, Except.error.injEq] at h
            subst h
            exact verifyUpdates_error hv
          | ok r2 =>
            obtain ⟨newTotal, nn⟩ := r2
            simp only [hv] at h
            by_cases c4 : (decide (nn = 0) && decide (s.vals.length = dels.length)) = true
            · simp only [c4, if_true, Except.error.injEq] at h; subst h; rfl
            · rw [if_neg c4] at h
              rw [totalVP_of_wf hwf] at hv
              have F := merged_facts hwf hp (by simpa using c2) hv (by simpa using c4)
              obtain ⟨s', hs', _, _⟩ := finish_spec F hb
              unfold mergedOf at hs'
              rw [hs'] at h
              cases h

/-- An accepted, non-empty update leaves all priorities within `2·T'` of each other and within
`[-2T', 2T']` (T' the new total). -/
theorem updateWith_ok_spread {ad : Bool} {s : VSet} {ch : List Val} {s' : VSet} (hwf : WF s)
    (hb : PrioBound s.vals bigB) (h : updateWith ad s ch = .ok s') (hne : ch ≠ []) :
    SpreadLe s'.vals (2 * s'.total) ∧ PrioBound s'.vals (2 * s'.total) := by
  obtain ⟨ups, dels, newTotal, nn, hp, _, hvr, hvu, hnn, hfin⟩ := updateWith_ok_decomp h hne
  rw [totalVP_of_wf hwf] at hvu
  obtain ⟨s'', hs'', h1, h2⟩ := finish_spec (merged_facts hwf hp hvr hvu hnn) hb
  rw [hfin] at hs''
  cases hs''
  exact ⟨h1, h2⟩

end GnoVerif.C37
