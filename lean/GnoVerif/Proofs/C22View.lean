/-
Helper lemmas for C22, part 1: overlay views, point operations (get/set/del),
Write.  Core-only.
-/
import GnoVerif.Model.C22Spec

namespace GnoVerif.C22
open GnoVerif GnoVerif.Lex GnoVerif.OMap

/-! ### option / list helpers -/

theorem opt_ext {α : Type} {a b : Option α} (h : ∀ v, a = some v ↔ b = some v) : a = b := by
  cases a with
  | none =>
    cases b with
    | none => rfl
    | some y => exact absurd ((h y).2 rfl) (by simp)
  | some x => exact ((h x).1 rfl).symm

/-! ### applyEntry / applyDirty -/

/-- the value an entry yields given the parent's value. -/
def entryGet (cv : CValue) (old : Option Bytes) : Option Bytes :=
  if !cv.dirty then old
  else if cv.deleted then none
  else match cv.value with
    | none => old
    | some v => some v

theorem get_applyEntry (m : OMap) (k0 : Bytes) (cv : CValue) (k : Bytes) :
    OMap.get (applyEntry m k0 cv) k = if k0 = k then entryGet cv (OMap.get m k) else OMap.get m k := by
  unfold applyEntry entryGet
  by_cases hd : cv.dirty = true
  · by_cases hx : cv.deleted = true
    · simp only [hd, hx, Bool.not_true, Bool.false_eq_true, if_false, if_true, get_del]
    · cases hv : cv.value with
      | none => simp [hd, hx]
      | some v => simp only [hd, hx, Bool.not_true, Bool.false_eq_true, if_false, get_set]
  · simp [hd]

theorem sorted_applyEntry {m : OMap} (hs : Sorted m) (k : Bytes) (cv : CValue) :
    Sorted (applyEntry m k cv) := by
  unfold applyEntry
  split
  · exact hs
  · split
    · exact sorted_del hs k
    · split
      · exact hs
      · exact sorted_set hs k _

theorem applyDirty_cons (e : Bytes × CValue) (es : List (Bytes × CValue)) (m : OMap) :
    applyDirty (e :: es) m = applyDirty es (applyEntry m e.1 e.2) := rfl

theorem sorted_applyDirty {m : OMap} (hs : Sorted m) (es : List (Bytes × CValue)) :
    Sorted (applyDirty es m) := by
  induction es generalizing m with
  | nil => exact hs
  | cons e es ih => rw [applyDirty_cons]; exact ih (sorted_applyEntry hs _ _)

theorem get_applyDirty {es : OMapOf CValue} (hs : Sorted es) (m : OMap) (k : Bytes) :
    OMap.get (applyDirty es m) k =
      match OMap.get es k with
      | none => OMap.get m k
      | some cv => entryGet cv (OMap.get m k) := by
  induction es generalizing m with
  | nil => rfl
  | cons e es ih =>
    obtain ⟨k0, cv0⟩ := e
    have hs' := List.pairwise_cons.1 hs
    rw [applyDirty_cons, ih hs'.2, get_applyEntry, get_cons]
    by_cases hk : k0 = k
    · subst hk
      have : OMap.get es k0 = none := get_eq_none_of_lt (fun p hp => hs'.1 p hp)
      simp [this]
    · simp [hk]

/-! ### stripView -/

theorem mem_stripView {q : Bytes} {m : OMap} {k v : Bytes} :
    (k, v) ∈ stripView q m ↔ (q ++ k, v) ∈ m := by
  unfold stripView
  rw [List.mem_filterMap]
  constructor
  · rintro ⟨⟨k', v'⟩, hm, h⟩
    by_cases hp : hasPrefix q k' = true
    · simp only [hp, if_true, Option.some.injEq, Prod.mk.injEq] at h
      obtain ⟨h1, h2⟩ := h
      subst h2
      have := prefix_eq_append (hasPrefix_iff.1 hp)
      rw [h1] at this
      rw [← this]; exact hm
    · simp [hp] at h
  · intro hm
    refine ⟨(q ++ k, v), hm, ?_⟩
    have : hasPrefix q (q ++ k) = true := hasPrefix_iff.2 (List.prefix_append q k)
    simp [this]

theorem sorted_stripView {q : Bytes} {m : OMap} (hs : Sorted m) : Sorted (stripView q m) := by
  unfold stripView Sorted
  apply List.Pairwise.filterMap _ _ hs
  intro a a' hlt b hb b' hb'
  by_cases hp : hasPrefix q a.1 = true
  · by_cases hp' : hasPrefix q a'.1 = true
    · simp only [hp, if_true, Option.some.injEq] at hb
      simp only [hp', if_true, Option.some.injEq] at hb'
      subst hb; subst hb'
      have e1 := prefix_eq_append (hasPrefix_iff.1 hp)
      have e2 := prefix_eq_append (hasPrefix_iff.1 hp')
      rw [e1, e2] at hlt
      exact (append_lt_append_iff q _ _).1 hlt
    · simp [hp'] at hb'
  · simp [hp] at hb

theorem get_stripView {q : Bytes} {m : OMap} (hs : Sorted m) (k : Bytes) :
    OMap.get (stripView q m) k = OMap.get m (q ++ k) := by
  apply opt_ext
  intro v
  rw [← mem_iff_get (sorted_stripView hs), ← mem_iff_get hs, mem_stripView]

/-! ### views are sorted -/

theorem sorted_view {l : Layer} (h : Coherent l) : Sorted (view l) := by
  induction l with
  | base m => exact h
  | cache c p ih => exact sorted_applyDirty (ih h.1) _
  | pfx q p ih => exact sorted_stripView (ih h)

/-! ### CacheWF under setCacheValue -/

theorem dirtyVal_set (c : CacheState) (k : Bytes) (v : Option Bytes) (dl dt : Bool) (k' : Bytes) :
    dirtyVal (setCacheValue c k v dl dt) k' =
      if k = k' then (if dt then some v else none) else dirtyVal c k' := by
  unfold dirtyVal setCacheValue
  simp only [get_set]
  by_cases hk : k = k' <;> simp [hk]

theorem CacheWF.empty : CacheWF CacheState.empty := by
  refine ⟨?_, ?_, ?_, ?_, ?_, ?_, ?_⟩ <;> simp [CacheState.empty, Sorted, dirtyVal]

/-- a clean entry recorded for a key that had no entry. -/
theorem CacheWF.setClean {c : CacheState} (h : CacheWF c) (k : Bytes) (v : Option Bytes)
    (hmiss : OMap.get c.cache k = none) : CacheWF (setCacheValue c k v false false) := by
  have hdv : ∀ k', dirtyVal (setCacheValue c k v false false) k' = dirtyVal c k' := by
    intro k'
    rw [dirtyVal_set]
    by_cases hk : k = k'
    · subst hk; simp [dirtyVal, hmiss]
    · simp [hk]
  refine ⟨?_, ?_, ?_, ?_, ?_, ?_, ?_⟩
  · exact sorted_set h.cacheSorted _ _
  · exact h.unsSorted
  · exact h.sortedSorted
  · intro k' cv hg hd
    simp only [setCacheValue, get_set] at hg
    by_cases hk : k = k'
    · simp only [hk, if_true, Option.some.injEq] at hg; subst hg; simp at hd
    · simp only [hk, if_false] at hg; exact h.dirtyShape k' cv hg hd
  · intro k' hu
    obtain ⟨cv, hg, hd⟩ := h.unsDirty k' hu
    have hk : k ≠ k' := by intro e; subst e; rw [hmiss] at hg; cases hg
    exact ⟨cv, by simp [setCacheValue, get_set, hk, hg], hd⟩
  · intro k' v' hs
    rw [hdv]; exact h.sortedFresh k' v' hs
  · intro k' v' hd
    rw [hdv] at hd; exact h.dirtyTracked k' v' hd

/-- a dirty entry (Set or Delete). -/
theorem CacheWF.setDirty {c : CacheState} (h : CacheWF c) (k : Bytes) (v : Option Bytes) (dl : Bool)
    (hshape : (dl = true ∧ v = none) ∨ (dl = false ∧ v.isSome = true)) :
    CacheWF (setCacheValue c k v dl true) := by
  have hu : ∀ k', OMap.get (setCacheValue c k v dl true).unsorted k' =
      if k = k' then some () else OMap.get c.unsorted k' := by
    intro k'; simp [setCacheValue, get_set]
  refine ⟨?_, ?_, ?_, ?_, ?_, ?_, ?_⟩
  · exact sorted_set h.cacheSorted _ _
  · simp only [setCacheValue, if_true]; exact sorted_set h.unsSorted _ _
  · exact h.sortedSorted
  · intro k' cv hg hd
    simp only [setCacheValue, get_set] at hg
    by_cases hk : k = k'
    · simp only [hk, if_true, Option.some.injEq] at hg; subst hg; exact hshape
    · simp only [hk, if_false] at hg; exact h.dirtyShape k' cv hg hd
  · intro k' hu'
    rw [hu] at hu'
    by_cases hk : k = k'
    · subst hk; exact ⟨⟨v, dl, true⟩, by simp [setCacheValue, get_set], rfl⟩
    · simp only [hk, if_false] at hu'
      obtain ⟨cv, hg, hd⟩ := h.unsDirty k' hu'
      exact ⟨cv, by simp [setCacheValue, get_set, hk, hg], hd⟩
  · intro k' v' hs
    rw [hu, dirtyVal_set]
    by_cases hk : k = k'
    · simp [hk]
    · simp only [hk, if_false]; exact h.sortedFresh k' v' hs
  · intro k' v' hd
    rw [hu]
    rw [dirtyVal_set] at hd
    by_cases hk : k = k'
    · simp [hk]
    · simp only [hk, if_false] at hd ⊢; exact h.dirtyTracked k' v' hd

/-! ### Get -/

theorem get_spec (l : Layer) (hc : Coherent l) (k : Bytes) :
    (l.get k).1 = OMap.get (view l) k ∧ view (l.get k).2 = view l ∧ Coherent (l.get k).2 := by
  induction l generalizing k with
  | base m => exact ⟨rfl, rfl, hc⟩
  | cache c p ih =>
    obtain ⟨hp, hwf, hclean⟩ := hc
    simp only [Layer.get]
    cases hg : OMap.get c.cache k with
    | some cv =>
      refine ⟨?_, rfl, hp, hwf, hclean⟩
      simp only [view]
      rw [get_applyDirty hwf.cacheSorted, hg]
      simp only [entryGet]
      by_cases hd : cv.dirty = true
      · rcases hwf.dirtyShape k cv hg hd with ⟨h1, h2⟩ | ⟨h1, h2⟩
        · simp [hd, h1, h2]
        · cases hv : cv.value with
          | none => simp [hv] at h2
          | some v => simp [hd, h1]
      · have hd' : cv.dirty = false := by simpa using hd
        simp [hd', hclean k cv hg hd']
    | none =>
      obtain ⟨i1, i2, i3⟩ := ih hp k
      have hview : view (Layer.cache (setCacheValue c k (p.get k).1 false false) (p.get k).2)
          = view (Layer.cache c p) := by
        simp only [view, i2]
        apply OMap.ext (sorted_applyDirty (sorted_view hp) _) (sorted_applyDirty (sorted_view hp) _)
        intro k'
        rw [get_applyDirty (by exact sorted_set hwf.cacheSorted _ _), get_applyDirty hwf.cacheSorted]
        simp only [setCacheValue, get_set]
        by_cases hk : k = k'
        · subst hk; simp [hg, entryGet]
        · simp [hk]
      refine ⟨?_, hview, i3, hwf.setClean k _ hg, ?_⟩
      · simp only [view]
        rw [get_applyDirty hwf.cacheSorted, hg]
        exact i1
      · intro k' cv hg' hd'
        simp only [setCacheValue, get_set] at hg'
        rw [i2]
        by_cases hk : k = k'
        · subst hk
          simp only [if_true, Option.some.injEq] at hg'
          subst hg'
          exact i1
        · simp only [hk, if_false] at hg'
          exact hclean k' cv hg' hd'
  | pfx q p ih =>
    have hc : Coherent p := hc
    obtain ⟨i1, i2, i3⟩ := ih hc (q ++ k)
    refine ⟨?_, ?_, i3⟩
    · simp only [Layer.get, view]
      rw [get_stripView (sorted_view hc)]
      exact i1
    · simp only [Layer.get, view, i2]

theorem has_eq_get (l : Layer) (k : Bytes) :
    (l.has k).1 = (l.get k).1.isSome ∧ (l.has k).2 = (l.get k).2 := by
  induction l generalizing k with
  | base m => exact ⟨rfl, rfl⟩
  | cache c p _ => exact ⟨rfl, rfl⟩
  | pfx q p ih =>
    simp only [Layer.has, Layer.get]
    exact ⟨(ih (q ++ k)).1, by rw [(ih (q ++ k)).2]⟩

/-! ### Set / Delete -/

theorem set_spec (l : Layer) (hc : Coherent l) (k v : Bytes) :
    view (l.set k v) = OMap.set (view l) k v ∧ Coherent (l.set k v) := by
  induction l generalizing k with
  | base m => exact ⟨rfl, sorted_set hc k v⟩
  | cache c p _ =>
    obtain ⟨hp, hwf, hclean⟩ := hc
    refine ⟨?_, hp, hwf.setDirty k (some v) false (Or.inr ⟨rfl, rfl⟩), ?_⟩
    · simp only [Layer.set, view]
      apply OMap.ext (sorted_applyDirty (sorted_view hp) _)
        (sorted_set (sorted_applyDirty (sorted_view hp) _) _ _)
      intro k'
      rw [get_applyDirty (by exact sorted_set hwf.cacheSorted _ _), get_set,
        get_applyDirty hwf.cacheSorted]
      simp only [setCacheValue, get_set]
      by_cases hk : k = k'
      · simp [hk, entryGet]
      · simp [hk]
    · intro k' cv hg hd
      simp only [setCacheValue, get_set] at hg
      by_cases hk : k = k'
      · simp only [hk, if_true, Option.some.injEq] at hg; subst hg; simp at hd
      · simp only [hk, if_false] at hg; exact hclean k' cv hg hd
  | pfx q p ih =>
    have hc : Coherent p := hc
    obtain ⟨i1, i2⟩ := ih hc (q ++ k)
    refine ⟨?_, i2⟩
    simp only [Layer.set, view, i1]
    apply OMap.ext (sorted_stripView (sorted_set (sorted_view hc) _ _))
      (sorted_set (sorted_stripView (sorted_view hc)) _ _)
    intro k'
    rw [get_stripView (sorted_set (sorted_view hc) _ _), get_set, get_set,
      get_stripView (sorted_view hc)]
    by_cases hk : k = k'
    · simp [hk]
    · have : q ++ k ≠ q ++ k' := fun h => hk (List.append_cancel_left h)
      simp [hk, this]

theorem del_spec (l : Layer) (hc : Coherent l) (k : Bytes) :
    view (l.del k) = OMap.del (view l) k ∧ Coherent (l.del k) := by
  induction l generalizing k with
  | base m => exact ⟨rfl, sorted_del hc k⟩
  | cache c p _ =>
    obtain ⟨hp, hwf, hclean⟩ := hc
    refine ⟨?_, hp, hwf.setDirty k none true (Or.inl ⟨rfl, rfl⟩), ?_⟩
    · simp only [Layer.del, view]
      apply OMap.ext (sorted_applyDirty (sorted_view hp) _)
        (sorted_del (sorted_applyDirty (sorted_view hp) _) _)
      intro k'
      rw [get_applyDirty (by exact sorted_set hwf.cacheSorted _ _), get_del,
        get_applyDirty hwf.cacheSorted]
      simp only [setCacheValue, get_set]
      by_cases hk : k = k'
      · simp [hk, entryGet]
      · simp [hk]
    · intro k' cv hg hd
      simp only [setCacheValue, get_set] at hg
      by_cases hk : k = k'
      · simp only [hk, if_true, Option.some.injEq] at hg; subst hg; simp at hd
      · simp only [hk, if_false] at hg; exact hclean k' cv hg hd
  | pfx q p ih =>
    have hc : Coherent p := hc
    obtain ⟨i1, i2⟩ := ih hc (q ++ k)
    refine ⟨?_, i2⟩
    simp only [Layer.del, view, i1]
    apply OMap.ext (sorted_stripView (sorted_del (sorted_view hc) _))
      (sorted_del (sorted_stripView (sorted_view hc)) _)
    intro k'
    rw [get_stripView (sorted_del (sorted_view hc) _), get_del, get_del,
      get_stripView (sorted_view hc)]
    by_cases hk : k = k'
    · simp [hk]
    · have : q ++ k ≠ q ++ k' := fun h => hk (List.append_cancel_left h)
      simp [hk, this]

/-! ### Write -/

theorem applyEntries_spec (p : Layer) (hc : Coherent p) (es : List (Bytes × CValue)) :
    view (p.applyEntries es) = applyDirty es (view p) ∧ Coherent (p.applyEntries es) := by
  induction es generalizing p with
  | nil => exact ⟨rfl, hc⟩
  | cons e es ih =>
    obtain ⟨k, cv⟩ := e
    simp only [Layer.applyEntries, applyDirty_cons, applyEntry]
    by_cases hd : cv.dirty = true
    · by_cases hx : cv.deleted = true
      · simp only [hd, hx, Bool.not_true, Bool.false_eq_true, if_false, if_true]
        obtain ⟨d1, d2⟩ := del_spec p hc k
        rw [← d1]; exact ih _ d2
      · cases hv : cv.value with
        | none => simp only [hd, hx, Bool.not_true, Bool.false_eq_true, if_false]; exact ih p hc
        | some v =>
          simp only [hd, hx, Bool.not_true, Bool.false_eq_true, if_false]
          obtain ⟨s1, s2⟩ := set_spec p hc k v
          rw [← s1]; exact ih _ s2
    · have hd' : cv.dirty = false := by simpa using hd
      simp only [hd', Bool.not_false, if_true]; exact ih p hc

end GnoVerif.C22
