import GnoVerif.Proofs.C45Bytes
/-!
C45 helper lemmas, part 5b: the scanning loop, the separator search,
`toBytes`, and the shape of `decodeLower` / `decode5`.
-/
namespace GnoVerif.C45

/-! ### the scanning loop -/

theorem not_inRange_iff (c : UInt8) : (c < 33 ∨ c > 126) ↔ ¬ InRange c := by
  unfold InRange
  constructor
  · rintro (h | h) ⟨h1, h2⟩
    · exact absurd h1 (UInt8.not_le.mpr h)
    · exact absurd h2 (UInt8.not_le.mpr h)
  · intro h
    by_cases h1 : c < 33
    · exact Or.inl h1
    · right
      have h1' : 33 ≤ c := UInt8.not_lt.mp h1
      by_cases h2 : c ≤ 126
      · exact absurd ⟨h1', h2⟩ h
      · exact UInt8.not_le.mp h2

theorem scan_cons_inRange (c : UInt8) (cs : Bytes) (lo up : Bool) (h : InRange c) :
    scan (c :: cs) lo up =
      if ((lo || isLower c) && (up || isUpper c)) = true then .error .mixed
      else scan cs (lo || isLower c) (up || isUpper c) := by
  have : ¬ (c < 33 ∨ c > 126) := fun h' => (not_inRange_iff c).mp h' h
  simp [scan, this]

theorem scan_cons_out (c : UInt8) (cs : Bytes) (lo up : Bool) (h : ¬ InRange c) :
    scan (c :: cs) lo up = .error .char := by
  have : (c < 33 ∨ c > 126) := (not_inRange_iff c).mpr h
  simp [scan, this]

/-- a successful scan: every byte is in range, the result is the upper-case flag, no mixed case. -/
theorem scan_ok (s : Bytes) (lo up r : Bool) (h0 : ¬ (lo = true ∧ up = true)) (h : scan s lo up = .ok r) :
    (∀ c ∈ s, InRange c) ∧ r = (up || s.any isUpper) ∧
      ¬ ((lo || s.any isLower) = true ∧ (up || s.any isUpper) = true) := by
  induction s generalizing lo up with
  | nil =>
    simp only [scan] at h
    cases h
    simpa using h0
  | cons c cs ih =>
    by_cases hc : InRange c
    · rw [scan_cons_inRange c cs lo up hc] at h
      split at h
      · cases h
      · rename_i hm
        obtain ⟨h1, h2, h3⟩ := ih _ _ (by simpa using hm) h
        refine ⟨?_, ?_, ?_⟩
        · intro x hx
          simp only [List.mem_cons] at hx
          rcases hx with rfl | hx
          · exact hc
          · exact h1 x hx
        · rw [h2]; simp [Bool.or_assoc]
        · simpa [Bool.or_assoc] using h3
    · rw [scan_cons_out c cs lo up hc] at h
      cases h

/-- the only errors of the scan are `char` and `mixed`; with all bytes in range only `mixed`. -/
theorem scan_error (s : Bytes) (lo up : Bool) (e : Err) (h : scan s lo up = .error e) :
    (e = .char ∧ ∃ c ∈ s, ¬ InRange c) ∨ e = .mixed := by
  induction s generalizing lo up with
  | nil => simp [scan] at h
  | cons c cs ih =>
    by_cases hc : InRange c
    · rw [scan_cons_inRange c cs lo up hc] at h
      split at h
      · cases h; exact Or.inr rfl
      · rcases ih _ _ h with ⟨h1, x, hx, hx2⟩ | h1
        · exact Or.inl ⟨h1, x, by simp [hx], hx2⟩
        · exact Or.inr h1
    · rw [scan_cons_out c cs lo up hc] at h
      cases h
      exact Or.inl ⟨rfl, c, by simp, hc⟩

theorem scan_ok_of (s : Bytes) (lo : Bool) (h : ∀ c ∈ s, InRange c ∧ isUpper c = false) :
    scan s lo false = .ok false := by
  induction s generalizing lo with
  | nil => rfl
  | cons c cs ih =>
    have hc := h c (by simp)
    rw [scan_cons_inRange c cs lo false hc.1, hc.2]
    simp only [Bool.or_false, Bool.and_false, Bool.false_eq_true, if_false]
    exact ih _ (fun x hx => h x (by simp [hx]))

/-- when the scan succeeds, the string the decoder continues with is `lowerAll s`. -/
theorem scan_norm (s : Bytes) (r : Bool) (h : scan s false false = .ok r) :
    (if r then lowerAll s else s) = lowerAll s := by
  obtain ⟨_, h2, _⟩ := scan_ok s false false r (by simp) h
  cases r with
  | true => rfl
  | false =>
    simp only [Bool.false_or] at h2
    simp only [Bool.false_eq_true, if_false]
    exact (lowerAll_of_no_upper s h2.symm).symm

theorem decode5_of_scan (s : Bytes) (r : Bool) (hl : 8 ≤ s.length) (h : scan s false false = .ok r) :
    decode5 s = decodeLower (lowerAll s) := by
  unfold decode5
  rw [if_neg (by omega), h]
  simp only
  rw [scan_norm s r h]

theorem decode5_ok (s : Bytes) (res : Bytes × List Nat) (h : decode5 s = .ok res) :
    8 ≤ s.length ∧ (∃ r, scan s false false = .ok r) ∧ decodeLower (lowerAll s) = .ok res := by
  unfold decode5 at h
  split at h
  · cases h
  · rename_i hl
    split at h
    · cases h
    · rename_i r hr
      refine ⟨by omega, ⟨r, hr⟩, ?_⟩
      rw [scan_norm s r hr] at h
      exact h

/-! ### the separator search -/

theorem lastIdx_none (c : UInt8) (b : Bytes) (h : c ∉ b) : lastIdx c b = none := by
  induction b with
  | nil => rfl
  | cons x xs ih =>
    simp only [List.mem_cons, not_or] at h
    simp only [lastIdx, ih h.2]
    rw [if_neg (fun hx => h.1 hx.symm)]

theorem lastIdx_append_cons (c : UInt8) (a b : Bytes) (h : c ∉ b) : lastIdx c (a ++ c :: b) = some a.length := by
  induction a with
  | nil => simp [lastIdx, lastIdx_none c b h]
  | cons x xs ih => simp [lastIdx, ih]

theorem lastIdx_some (c : UInt8) (l : Bytes) (k : Nat) (h : lastIdx c l = some k) :
    ∃ a b, l = a ++ c :: b ∧ a.length = k ∧ c ∉ b := by
  induction l generalizing k with
  | nil => simp [lastIdx] at h
  | cons x xs ih =>
    simp only [lastIdx] at h
    split at h
    · rename_i i hi
      cases h
      obtain ⟨a, b, h1, h2, h3⟩ := ih i hi
      exact ⟨x :: a, b, by simp [h1], by simp [h2], h3⟩
    · rename_i hn
      split at h
      · rename_i hx
        cases h
        refine ⟨[], xs, by simp [hx], rfl, ?_⟩
        intro hm
        obtain ⟨i, hi⟩ : ∃ i, lastIdx c xs = some i := by
          clear ih hn
          induction xs with
          | nil => simp at hm
          | cons y ys ihy =>
            simp only [lastIdx]
            cases hy : lastIdx c ys with
            | some j => exact ⟨j + 1, rfl⟩
            | none =>
              simp only [List.mem_cons] at hm
              rcases hm with rfl | hm
              · exact ⟨0, by simp⟩
              · obtain ⟨i, hi⟩ := ihy hm
                rw [hy] at hi; cases hi
        rw [hn] at hi
        cases hi
      · cases h

/-! ### toBytes -/

theorem toBytes_cons (c : UInt8) (cs : Bytes) :
    toBytes (c :: cs) =
      match charsetIdx c with
      | none => .error .charset
      | some i => match toBytes cs with
        | .error e => .error e
        | .ok r => .ok (i :: r) := rfl

theorem toBytes_error (b : Bytes) (e : Err) (h : toBytes b = .error e) : e = .charset := by
  induction b with
  | nil => simp [toBytes] at h
  | cons c cs ih =>
    rw [toBytes_cons] at h
    split at h
    · cases h; rfl
    · split at h
      · rename_i e' he'
        cases h
        exact ih he'
      · cases h

theorem toBytes_map_charAt (vs : List Nat) (h : ∀ v ∈ vs, v < 32) : toBytes (vs.map charAt) = .ok vs := by
  induction vs with
  | nil => rfl
  | cons v vs ih =>
    have hv := h v (by simp)
    rw [List.map_cons, toBytes_cons, charsetIdx_charAt ⟨v, hv⟩, ih (fun x hx => h x (by simp [hx]))]

theorem toBytes_append_ok (p q : Bytes) (vs : List Nat) (h : toBytes (p ++ q) = .ok vs) :
    ∃ vp vq, toBytes p = .ok vp ∧ toBytes q = .ok vq ∧ vs = vp ++ vq ∧ vp.length = p.length := by
  induction p generalizing vs with
  | nil => exact ⟨[], vs, rfl, h, rfl, rfl⟩
  | cons c cs ih =>
    rw [List.cons_append, toBytes_cons] at h
    split at h
    · cases h
    · rename_i i hi
      split at h
      · cases h
      · rename_i r hr
        cases h
        obtain ⟨vp, vq, h1, h2, h3, h4⟩ := ih r hr
        refine ⟨i :: vp, vq, ?_, h2, by simp [h3], by simp [h4]⟩
        rw [toBytes_cons, hi, h1]

theorem toBytes_append (p q : Bytes) (vp vq : List Nat) (h1 : toBytes p = .ok vp) (h2 : toBytes q = .ok vq) :
    toBytes (p ++ q) = .ok (vp ++ vq) := by
  induction p generalizing vp with
  | nil => simp only [toBytes] at h1; cases h1; simpa using h2
  | cons c cs ih =>
    rw [toBytes_cons] at h1
    split at h1
    · cases h1
    · rename_i i hi
      split at h1
      · cases h1
      · rename_i r hr
        cases h1
        rw [List.cons_append, toBytes_cons, hi, ih r hr]
        rfl

theorem toBytes_length (b : Bytes) (vs : List Nat) (h : toBytes b = .ok vs) : vs.length = b.length := by
  obtain ⟨vp, vq, h1, h2, h3, h4⟩ := toBytes_append_ok b [] vs (by simpa using h)
  simp only [toBytes] at h2
  cases h2
  rw [h3]; simp [h4]

theorem toBytes_lt (b : Bytes) (vs : List Nat) (h : toBytes b = .ok vs) : ∀ v ∈ vs, v < 32 := by
  induction b generalizing vs with
  | nil => simp only [toBytes] at h; cases h; simp
  | cons c cs ih =>
    rw [toBytes_cons] at h
    split at h
    · cases h
    · rename_i i hi
      split at h
      · cases h
      · rename_i r hr
        cases h
        intro v hv
        simp only [List.mem_cons] at hv
        rcases hv with rfl | hv
        · exact (charsetIdx_some c _ hi).1
        · exact ih r hr v hv

theorem toBytes_not_charset (b : Bytes) (h : ∃ c ∈ b, c ∉ charset) : toBytes b = .error .charset := by
  cases hb : toBytes b with
  | error e => rw [toBytes_error b e hb]
  | ok vs =>
    exfalso
    obtain ⟨c, hc, hn⟩ := h
    obtain ⟨p, q, rfl⟩ := List.append_of_mem hc
    obtain ⟨vp, vq, _, h2, _, _⟩ := toBytes_append_ok p (c :: q) vs hb
    rw [toBytes_cons] at h2
    split at h2
    · cases h2
    · rename_i i hi
      exact hn (charsetIdx_some c i hi).2.2

/-! ### decodeLower on a string with a known last separator -/

theorem decodeLower_split (h b : Bytes) (hb : (49 : UInt8) ∉ b) :
    decodeLower (h ++ 49 :: b) =
      if h.length < 1 ∨ b.length < 6 then .error .sep
      else match toBytes b with
        | .error e => .error e
        | .ok decoded =>
          if verifyChecksum h decoded then .ok (h, decoded.take (decoded.length - 6))
          else .error .checksum := by
  unfold decodeLower
  rw [lastIdx_append_cons 49 h b hb]
  simp only [List.length_append, List.length_cons]
  have e1 : (h ++ 49 :: b).take h.length = h := List.take_left' rfl
  have e2 : (h ++ 49 :: b).drop (h.length + 1) = b := by
    rw [show h ++ 49 :: b = (h ++ [49]) ++ b by simp]
    exact List.drop_left' (by simp)
  rw [e1, e2]
  by_cases hc : h.length < 1 ∨ b.length < 6
  · rw [if_pos hc, if_pos (by omega)]
  · rw [if_neg hc, if_neg (by omega)]
    cases toBytes b <;> rfl

theorem decodeLower_ok (t : Bytes) (h : Bytes) (d5 : List Nat) (hd : decodeLower t = .ok (h, d5)) :
    ∃ b decoded, t = h ++ 49 :: b ∧ (49 : UInt8) ∉ b ∧ 1 ≤ h.length ∧ 6 ≤ b.length ∧
      toBytes b = .ok decoded ∧ verifyChecksum h decoded = true ∧ d5 = decoded.take (decoded.length - 6) := by
  cases hl : lastIdx 49 t with
  | none => simp [decodeLower, hl] at hd
  | some one =>
    obtain ⟨a, b, rfl, _, hb⟩ := lastIdx_some 49 t one hl
    rw [decodeLower_split a b hb] at hd
    split at hd
    · cases hd
    · rename_i hc
      split at hd
      · cases hd
      · rename_i decoded hdec
        split at hd
        · rename_i hv
          cases hd
          exact ⟨b, decoded, rfl, hb, by omega, by omega, hdec, hv, rfl⟩
        · cases hd

end GnoVerif.C45
