import GnoVerif.Gen.C05
import GnoVerif.Spec.C05
/-! C05 helper lemmas: the literal masks of the generated softfloat code as `/` and `%` on `toNat`. -/
deriving instance DecidableEq for Except

namespace GnoVerif.C05.L

theorem nat_and_two_pow (x n : Nat) : x &&& 2^n = (x / 2^n % 2) * 2^n := by
  have h1 : (x &&& 2^n) / 2^n = x / 2^n % 2 := by
    rw [Nat.and_div_two_pow, Nat.div_self (Nat.two_pow_pos n), Nat.and_one_is_mod]
  have h2 : (x &&& 2^n) % 2^n = 0 := by
    rw [Nat.and_mod_two_pow, Nat.mod_self, Nat.and_zero]
  have := Nat.div_add_mod (x &&& 2^n) (2^n)
  rw [h1, h2] at this
  rw [← this, Nat.mul_comm]; rfl

theorem nat_xor_two_pow (x n : Nat) (h : x < 2^(n+1)) :
    x ^^^ 2^n = if x < 2^n then x + 2^n else x - 2^n := by
  have hp : 0 < 2^n := Nat.two_pow_pos n
  have h1 : (x ^^^ 2^n) / 2^n = x / 2^n ^^^ 1 := by
    rw [Nat.xor_div_two_pow, Nat.div_self hp]
  have h2 : (x ^^^ 2^n) % 2^n = x % 2^n := by
    rw [Nat.xor_mod_two_pow, Nat.mod_self, Nat.xor_zero]
  have h3 := Nat.div_add_mod (x ^^^ 2^n) (2^n)
  have h4 := Nat.div_add_mod x (2^n)
  rw [h1, h2] at h3
  have hx : x / 2^n < 2 := by
    rw [Nat.div_lt_iff_lt_mul hp]; rw [Nat.pow_succ] at h; omega
  split
  · next hlt =>
    have : x / 2^n = 0 := Nat.div_eq_of_lt hlt
    rw [this] at h3 h4; simp at h3 h4; omega
  · next hge =>
    have : x / 2^n = 1 := by
      have : 0 < x / 2^n := Nat.div_pos (by omega) hp
      omega
    rw [this] at h3 h4; simp at h3 h4; omega

/-! ### binary64 literals -/

theorem toNat_and_mant64 (f : BitVec 64) : (f &&& 4503599627370495#64).toNat = f.toNat % 2^52 := by
  rw [BitVec.toNat_and]; exact Nat.and_two_pow_sub_one_eq_mod f.toNat 52

theorem toNat_exp64 (f : BitVec 64) : ((f >>> 52) &&& 2047#64).toNat = f.toNat / 2^52 % 2^11 := by
  rw [BitVec.toNat_and, BitVec.toNat_ushiftRight, Nat.shiftRight_eq_div_pow]
  exact Nat.and_two_pow_sub_one_eq_mod _ 11

theorem toNat_and_sign64 (f : BitVec 64) : (f &&& 9223372036854775808#64).toNat = f.toNat / 2^63 * 2^63 := by
  rw [BitVec.toNat_and]
  show f.toNat &&& 2^63 = _
  rw [nat_and_two_pow]
  have := f.isLt
  omega

theorem toNat_xor_sign64 (f : BitVec 64) :
    (f ^^^ 9223372036854775808#64).toNat = if f.toNat < 2^63 then f.toNat + 2^63 else f.toNat - 2^63 := by
  rw [BitVec.toNat_xor]
  exact nat_xor_two_pow f.toNat 63 f.isLt

theorem toNat_or_implicit64 (m : BitVec 64) (h : m.toNat < 2^52) :
    (m ||| 4503599627370496#64).toNat = m.toNat + 2^52 := by
  rw [BitVec.toNat_or]; exact Nat.or_two_pow_eq_add_of_lt h

/-! ### binary32 literals -/

theorem toNat_and_mant32 (f : BitVec 32) : (f &&& 8388607#32).toNat = f.toNat % 2^23 := by
  rw [BitVec.toNat_and]; exact Nat.and_two_pow_sub_one_eq_mod f.toNat 23

theorem toNat_and_sign32 (f : BitVec 32) : (f &&& 2147483648#32).toNat = f.toNat / 2^31 * 2^31 := by
  rw [BitVec.toNat_and]
  show f.toNat &&& 2^31 = _
  rw [nat_and_two_pow]
  have := f.isLt
  omega

theorem toNat_xor_sign32 (f : BitVec 32) :
    (f ^^^ 2147483648#32).toNat = if f.toNat < 2^31 then f.toNat + 2^31 else f.toNat - 2^31 := by
  rw [BitVec.toNat_xor]
  exact nat_xor_two_pow f.toNat 31 f.isLt

theorem toNat_or_implicit32 (m : BitVec 32) (h : m.toNat < 2^23) :
    (m ||| 8388608#32).toNat = m.toNat + 2^23 := by
  rw [BitVec.toNat_or]; exact Nat.or_two_pow_eq_add_of_lt h

end GnoVerif.C05.L
