import GnoVerif.Model.C41Block
import GnoVerif.Proofs.C41State
/-! Helper lemmas for C41 (block store). -/
namespace GnoVerif.C41

/-- the state after a `SaveBlock` that returned normally -/
def savedState (s : BS) (b : Block) (total : Nat) (seen : CommitD) : BS :=
  { metas := set s.metas b.height ⟨b, total⟩,
    parts := saveParts s.parts b total total,
    commits := set s.commits (b.height - 1) b.lastCommit,
    seens := set s.seens b.height seen,
    json := some b.height, height := b.height }

theorem saveBlock_ok {s s' : BS} {b : Block} {total : Nat} {missing : Option Nat} {seen : CommitD}
    (h : saveBlock s (some b) total missing seen = (s', .ok)) :
    (s.height = 0 ∨ b.height = s.height + 1) ∧ missing = none ∧ b.lastCommit ≠ .nil ∧ seen ≠ .nil ∧
    s' = savedState s b total seen := by
  unfold saveBlock at h
  dsimp only at h
  split at h
  · simp at h
  · rename_i hc
    split at h
    · simp at h
    · rename_i hm
      cases hlc : b.lastCommit <;> rw [hlc] at h <;> dsimp only at h
      · simp at h
      all_goals
        cases seen <;> dsimp only at h
        · simp at h
        all_goals
          refine ⟨by omega, by simpa using hm, by simp, by simp, ?_⟩
          simp only [Prod.mk.injEq, and_true] at h
          rw [← h, savedState, hlc]

theorem get_saveParts (parts : List ((Int × Int) × Part)) (b : Block) (total n : Nat) (h i : Int) :
    get (saveParts parts b total n) (h, i) =
      if h = b.height ∧ 0 ≤ i ∧ i < n then some ⟨b, total, i.toNat⟩ else get parts (h, i) := by
  induction n with
  | zero =>
    have : ¬ (h = b.height ∧ 0 ≤ i ∧ i < ((0 : Nat) : Int)) := by omega
    simp only [saveParts, this, ↓reduceIte]
  | succ n ih =>
    rw [saveParts]
    by_cases hk : (b.height, (n : Int)) = (h, i)
    · rw [hk, get_set_eq]
      simp only [Prod.mk.injEq] at hk
      obtain ⟨h1, h2⟩ := hk
      have : h = b.height ∧ 0 ≤ i ∧ i < ((n + 1 : Nat) : Int) := by omega
      simp only [this, and_self, ↓reduceIte]
      have : i.toNat = n := by omega
      rw [this]
    · rw [get_set_ne _ _ hk, ih]
      simp only [Prod.mk.injEq] at hk
      by_cases hc : h = b.height ∧ 0 ≤ i ∧ i < (n : Int)
      · have : h = b.height ∧ 0 ≤ i ∧ i < ((n + 1 : Nat) : Int) := by omega
        simp only [hc, this, and_self, ↓reduceIte]
      · have : ¬ (h = b.height ∧ 0 ≤ i ∧ i < ((n + 1 : Nat) : Int)) := by
          intro ⟨a1, a2, a3⟩
          apply hc
          refine ⟨a1, a2, ?_⟩
          have : i ≠ (n : Int) := fun e => hk ⟨a1.symm, e.symm⟩
          omega
        simp only [hc, this, ↓reduceIte]

theorem collectParts_of (s : BS) (h : Int) (b : Block) (total : Nat)
    (hp : ∀ i : Nat, i < total → loadPart s h (i : Int) = some ⟨b, total, i⟩) (n : Nat) (hn : n ≤ total) :
    collectParts s h n = some ((List.range n).map fun i => (⟨b, total, i⟩ : Part)) := by
  induction n with
  | zero => rfl
  | succ n ih =>
    rw [collectParts, ih (by omega), hp n (by omega)]
    simp only [List.range_succ, List.map_append, List.map_cons, List.map_nil]

theorem decodeParts_partSet (b : Block) (total : Nat) (ht : 0 < total) :
    decodeParts ((List.range total).map fun i => (⟨b, total, i⟩ : Part)) = .ok b := by
  obtain ⟨t, rfl⟩ : ∃ t, total = t + 1 := ⟨total - 1, by omega⟩
  have e : (List.range (t + 1)).map (fun i => (⟨b, t + 1, i⟩ : Part)) =
      ⟨b, t + 1, 0⟩ :: ((List.range t).map Nat.succ).map (fun i => (⟨b, t + 1, i⟩ : Part)) := by
    rw [List.range_succ_eq_map]; rfl
  rw [e]
  unfold decodeParts
  dsimp only
  rw [← e]
  simp [isPartSetOf]

theorem savedState_holds (s : BS) (b : Block) (total : Nat) (seen : CommitD) (ht : 0 < total) :
    Holds (savedState s b total seen) b total seen := by
  have hp : ∀ i : Nat, i < total → loadPart (savedState s b total seen) b.height (i : Int) = some ⟨b, total, i⟩ := by
    intro i hi
    unfold loadPart savedState
    dsimp only
    rw [get_saveParts]
    have : b.height = b.height ∧ 0 ≤ (i : Int) ∧ (i : Int) < (total : Int) := by omega
    simp only [this, and_self, ↓reduceIte, Int.toNat_natCast]
  have hm : loadMeta (savedState s b total seen) b.height = some ⟨b, total⟩ := by
    unfold loadMeta savedState; dsimp only; rw [get_set_eq]
  refine ⟨hm, hp, ?_, ?_, ?_⟩
  · unfold loadBlock
    rw [hm]
    dsimp only
    rw [collectParts_of _ _ b total hp total (Nat.le_refl _)]
    exact decodeParts_partSet b total ht
  · unfold loadCommit savedState; dsimp only; rw [get_set_eq]
  · unfold loadSeen savedState; dsimp only; rw [get_set_eq]

/-- the two stores agree on every key that belongs to a height ≤ `H` (the commit of height `k`
lives under `C:k` and is written by block `k+1`) -/
def Agree (s s' : BS) (H : Int) : Prop :=
  (∀ k, k ≤ H → get s'.metas k = get s.metas k) ∧
  (∀ k i, k ≤ H → get s'.parts (k, i) = get s.parts (k, i)) ∧
  (∀ k, k < H → get s'.commits k = get s.commits k) ∧
  (∀ k, k ≤ H → get s'.seens k = get s.seens k)

theorem Agree.refl (s : BS) (H : Int) : Agree s s H := ⟨fun _ _ => rfl, fun _ _ _ => rfl, fun _ _ => rfl, fun _ _ => rfl⟩

theorem Agree.trans {s s' s'' : BS} {H H' : Int} (h1 : Agree s s' H) (h2 : Agree s' s'' H') (hh : H ≤ H') :
    Agree s s'' H := by
  obtain ⟨a1, a2, a3, a4⟩ := h1
  obtain ⟨b1, b2, b3, b4⟩ := h2
  refine ⟨fun k hk => ?_, fun k i hk => ?_, fun k hk => ?_, fun k hk => ?_⟩
  · rw [b1 k (by omega), a1 k hk]
  · rw [b2 k i (by omega), a2 k i hk]
  · rw [b3 k (by omega), a3 k hk]
  · rw [b4 k (by omega), a4 k hk]

theorem collectParts_congr {s s' : BS} {h : Int} (hp : ∀ i, get s'.parts (h, i) = get s.parts (h, i)) (n : Nat) :
    collectParts s' h n = collectParts s h n := by
  induction n with
  | zero => rfl
  | succ n ih => rw [collectParts, collectParts, ih]; unfold loadPart; rw [hp]

theorem holds_of_agree {s s' : BS} {H : Int} {b : Block} {total : Nat} {seen : CommitD}
    (ha : Agree s s' H) (hb : b.height ≤ H) (hh : Holds s b total seen) : Holds s' b total seen := by
  obtain ⟨a1, a2, a3, a4⟩ := ha
  obtain ⟨h1, h2, h3, h4, h5⟩ := hh
  have em : loadMeta s' b.height = loadMeta s b.height := by unfold loadMeta; exact a1 _ hb
  refine ⟨by rw [em]; exact h1, ?_, ?_, ?_, ?_⟩
  · intro i hi
    have := h2 i hi
    unfold loadPart at this ⊢
    rw [a2 _ _ hb]; exact this
  · unfold loadBlock at h3 ⊢
    rw [em]
    cases hm : loadMeta s b.height with
    | none => rw [hm] at h3; exact h3
    | some m =>
      rw [hm] at h3
      dsimp only at h3 ⊢
      rw [collectParts_congr (fun i => a2 _ i hb)]
      exact h3
  · unfold loadCommit at h4 ⊢
    rw [a3 _ (by omega)]; exact h4
  · unfold loadSeen at h5 ⊢
    rw [a4 _ hb]; exact h5

/-- one operation on a store whose height is ≥ 1 touches no key of a height up to the current one,
never lowers the height, and keeps the persisted height equal to the cached one -/
theorem apply_frame (s : BS) (op : BOp) (h1 : 1 ≤ s.height) (hj : s.json = some s.height) :
    s.height ≤ (applyB s op).height ∧ (applyB s op).json = some (applyB s op).height ∧
    Agree s (applyB s op) s.height := by
  cases op with
  | reopen =>
    simp only [applyB, reopen, hj, Option.getD_some]
    exact ⟨Int.le_refl _, trivial, Agree.refl _ _⟩
  | save blk total missing seen =>
    unfold applyB saveBlock
    cases blk with
    | none => exact ⟨Int.le_refl _, hj, Agree.refl _ _⟩
    | some b =>
      dsimp only
      split
      · exact ⟨Int.le_refl _, hj, Agree.refl _ _⟩
      · rename_i hc
        have hb : b.height = s.height + 1 := by omega
        split
        · exact ⟨Int.le_refl _, hj, Agree.refl _ _⟩
        · have pm : ∀ k, k ≤ s.height → get (set s.metas b.height (⟨b, total⟩ : Meta)) k = get s.metas k :=
            fun k hk => get_set_ne _ _ (by omega)
          have pp : ∀ k i, k ≤ s.height → get (saveParts s.parts b total total) (k, i) = get s.parts (k, i) := by
            intro k i hk
            rw [get_saveParts]
            have : ¬ (k = b.height ∧ 0 ≤ i ∧ i < (total : Int)) := by omega
            simp only [this, ↓reduceIte]
          have pc : ∀ (c : CommitD) k, k < s.height → get (set s.commits (b.height - 1) c) k = get s.commits k :=
            fun c k hk => get_set_ne _ _ (by omega)
          have ps : ∀ (c : CommitD) k, k ≤ s.height → get (set s.seens b.height c) k = get s.seens k :=
            fun c k hk => get_set_ne _ _ (by omega)
          cases hlc : b.lastCommit <;> dsimp only
          · exact ⟨Int.le_refl _, hj, pm, pp, fun _ _ => rfl, fun _ _ => rfl⟩
          all_goals
            cases seen <;> dsimp only
            · exact ⟨Int.le_refl _, hj, pm, pp, pc _, fun _ _ => rfl⟩
            all_goals
              exact ⟨by omega, rfl, pm, pp, pc _, ps _⟩

theorem run_frame (ops : List BOp) (s : BS) (h1 : 1 ≤ s.height) (hj : s.json = some s.height) :
    s.height ≤ (runB s ops).height ∧ Agree s (runB s ops) s.height := by
  induction ops generalizing s with
  | nil => exact ⟨Int.le_refl _, Agree.refl _ _⟩
  | cons op ops ih =>
    obtain ⟨f1, f2, f3⟩ := apply_frame s op h1 hj
    obtain ⟨g1, g2⟩ := ih (applyB s op) (by omega) f2
    show s.height ≤ (runB (applyB s op) ops).height ∧ Agree s (runB (applyB s op) ops) s.height
    exact ⟨by omega, Agree.trans f3 g2 f1⟩

theorem runB_append (s : BS) (a b : List BOp) : runB s (a ++ b) = runB (runB s a) b := by
  simp [runB, List.foldl_append]

/-- store height: never negative, and the persisted JSON height equals the cached one -/
def HInv (s : BS) : Prop := 0 ≤ s.height ∧ s.json.getD 0 = s.height

theorem hinv_empty : HInv BS.empty := ⟨Int.le_refl _, rfl⟩

theorem saveBlock_height (s : BS) (blk : Option Block) (total : Nat) (missing : Option Nat) (seen : CommitD) :
    ((saveBlock s blk total missing seen).2 = .ok ∧ ∃ b, blk = some b ∧
        (saveBlock s blk total missing seen).1.height = b.height ∧
        (saveBlock s blk total missing seen).1.json = some b.height ∧ (s.height = 0 ∨ b.height = s.height + 1)) ∨
    ((saveBlock s blk total missing seen).2 ≠ .ok ∧
        (saveBlock s blk total missing seen).1.height = s.height ∧
        (saveBlock s blk total missing seen).1.json = s.json) := by
  unfold saveBlock
  cases blk with
  | none => right; exact ⟨by simp, rfl, rfl⟩
  | some b =>
    dsimp only
    split
    · right; exact ⟨by simp, rfl, rfl⟩
    · rename_i hc
      split
      · right; exact ⟨by simp, rfl, rfl⟩
      · cases hlc : b.lastCommit <;> dsimp only
        · right; exact ⟨by simp, rfl, rfl⟩
        all_goals
          cases seen <;> dsimp only
          · right; exact ⟨by simp, rfl, rfl⟩
          all_goals
            left; exact ⟨rfl, b, rfl, rfl, rfl, by omega⟩

theorem apply_hinv (s : BS) (op : BOp) (hi : HInv s) (hd : heightsAtLeast 0 [op]) :
    HInv (applyB s op) ∧ s.height ≤ (applyB s op).height := by
  obtain ⟨i1, i2⟩ := hi
  cases op with
  | reopen =>
    simp only [applyB, reopen, HInv, i2]
    exact ⟨⟨i1, trivial⟩, Int.le_refl _⟩
  | save blk total missing seen =>
    rcases saveBlock_height s blk total missing seen with ⟨_, b, rfl, e1, e2, e3⟩ | ⟨_, e1, e2⟩
    · have hb : 0 ≤ b.height := hd.1
      simp only [applyB, HInv, e1, e2, Option.getD_some]
      exact ⟨⟨hb, trivial⟩, by omega⟩
    · simp only [applyB, HInv, e1, e2]
      exact ⟨⟨i1, i2⟩, Int.le_refl _⟩

theorem heightsAtLeast_append (lo : Int) (a b : List BOp) :
    heightsAtLeast lo (a ++ b) ↔ heightsAtLeast lo a ∧ heightsAtLeast lo b := by
  induction a with
  | nil => simp [heightsAtLeast]
  | cons op a ih =>
    cases op with
    | reopen => simp only [List.cons_append, heightsAtLeast, ih]
    | save blk t m sc =>
      cases blk with
      | none => simp only [List.cons_append, heightsAtLeast, ih]
      | some b => simp only [List.cons_append, heightsAtLeast, ih, and_assoc]

theorem run_hinv (ops : List BOp) (s : BS) (hi : HInv s) (hd : heightsAtLeast 0 ops) :
    HInv (runB s ops) ∧ s.height ≤ (runB s ops).height := by
  induction ops generalizing s with
  | nil => exact ⟨hi, Int.le_refl _⟩
  | cons op ops ih =>
    have hd' := (heightsAtLeast_append 0 [op] ops).mp hd
    obtain ⟨a1, a2⟩ := apply_hinv s op hi hd'.1
    obtain ⟨b1, b2⟩ := ih (applyB s op) a1 hd'.2
    exact ⟨b1, by show s.height ≤ (runB (applyB s op) ops).height; omega⟩

end GnoVerif.C41
