import GnoVerif.Model.C01
/-! Helper lemmas for Props/C01.lean. -/
namespace GnoVerif.C01

/-! ## Part 1: the instance with caches refines the cache-free machine -/

theorem coherent_init : Coherent ({} : TxSt) := by
  refine ⟨fun s => ?_, fun h => ?_⟩
  · cases s <;> rfl
  · cases h

theorem realmFn_dep {d d' : Db} {s : Slot} {f : Fn} {k : Nat} {v : Int} {dep : Bool}
    (h : realmFn d s f k v dep = .ok d') :
    d'.da = d.da ∧ d'.db = d.db ∧ d'.dc = d.dc ∧ d'.dh = d.dh ∧ d'.dp = d.dp := by
  cases s <;> cases f <;> simp only [realmFn] at h <;>
    first
    | (cases h; exact ⟨rfl, rfl, rfl, rfl, rfl⟩)
    | (split at h <;> first | (cases h; exact ⟨rfl, rfl, rfl, rfl, rfl⟩) | cases h)
    | cases h

theorem dep_of_flags {d d' : Db} (h : d'.da = d.da ∧ d'.db = d.db ∧ d'.dc = d.dc ∧ d'.dh = d.dh ∧ d'.dp = d.dp) (s : Slot) :
    d'.dep s = d.dep s := by
  cases s <;> simp [Db.dep, h.1, h.2.1, h.2.2.1, h.2.2.2.1, h.2.2.2.2]

theorem contains_addNode (ns : List Slot) (s s' : Slot) :
    (addNode ns s).contains s' = (ns.contains s' || s' == s) := by
  unfold addNode
  by_cases h : ns.contains s = true
  · simp only [h, if_true]
    by_cases e : s' = s
    · subst e; simp only [h, Bool.true_or]
    · simp [e]
  · simp only [h]
    simp only [Bool.false_eq_true, if_false, List.contains_cons]
    exact Bool.or_comm _ _

theorem dep_setDep (d : Db) (s s' : Slot) : (d.setDep s).dep s' = (d.dep s' || s' == s) := by
  cases s <;> cases s' <;> simp [Db.setDep, Db.dep]

theorem coherent_flags {t : TxSt} {d : Db} (h : Coherent t)
    (hf : d.da = t.db.da ∧ d.db = t.db.db ∧ d.dc = t.db.dc ∧ d.dh = t.db.dh ∧ d.dp = t.db.dp) (rs : List Nat) :
    Coherent { t with db := d, runs := rs } := by
  refine ⟨fun s => ?_, fun hh => ?_⟩
  · show t.nodes.contains s = d.dep s
    rw [dep_of_flags hf s]; exact h.1 s
  · show d.da = true ∧ d.db = true
    rw [hf.1, hf.2.1]; exact h.2 (by rw [← hf.2.2.2.1]; exact hh)

theorem coherent_add {t : TxSt} (h : Coherent t) (s : Slot)
    (hs : s.isHub = true → t.db.da = true ∧ t.db.db = true) :
    Coherent { t with db := t.db.setDep s, nodes := addNode t.nodes s } := by
  refine ⟨fun s' => ?_, fun hh => ?_⟩
  · show (addNode t.nodes s).contains s' = (t.db.setDep s).dep s'
    rw [contains_addNode, dep_setDep, h.1 s']
  · show (t.db.setDep s).da = true ∧ (t.db.setDep s).db = true
    cases s with
    | h =>
      have := hs rfl
      simpa [Db.setDep] using this
    | a =>
      have := h.2 (by simpa [Db.setDep] using hh)
      simp [Db.setDep, this.2]
    | b =>
      have := h.2 (by simpa [Db.setDep] using hh)
      simp [Db.setDep, this.1]
    | c =>
      have := h.2 (by simpa [Db.setDep] using hh)
      simpa [Db.setDep] using this
    | p =>
      have := h.2 (by simpa [Db.setDep] using hh)
      simpa [Db.setDep] using this

/-- A message on a coherent state: same verdict and same database as the cache-free
handler, coherence preserved, and `incoherent` never produced. -/
theorem applyMsg_spec (who : Nat) (t : TxSt) (m : Msg) (h : Coherent t) :
    match applyMsg who t m with
    | .ok t' => specMsg t.db m = .ok t'.db ∧ Coherent t'
    | .error e => specMsg t.db m = .error e := by
  have ha : t.nodes.contains .a = t.db.da := h.1 .a
  have hb : t.nodes.contains .b = t.db.db := h.1 .b
  cases m with
  | send foreign =>
    cases foreign
    · exact ⟨by first | rfl | trivial, h⟩
    · rfl
  | add s =>
    cases hd : t.db.dep s with
    | true => simp only [applyMsg, specMsg, hd, if_true]
    | false =>
      cases hh : (s.isHub && !(t.db.da && t.db.db)) with
      | true => simp only [applyMsg, specMsg, hd, hh, if_true, Bool.false_eq_true, if_false]
      | false =>
        simp only [applyMsg, specMsg, hd, hh, ha, hb, Bool.false_eq_true, if_false]
        refine ⟨by first | rfl | trivial, coherent_add h s (fun hs => ?_)⟩
        rw [hs] at hh
        simpa using hh
  | call s f k v dep =>
    have hc : t.nodes.contains s = t.db.dep s := h.1 s
    cases hd : t.db.dep s with
    | false => simp only [applyMsg, specMsg, hc, hd, Bool.not_false, if_true]
    | true =>
      have h3 : (s.isHub && !(t.db.da && t.db.db)) = false := by
        cases s with
        | h =>
          have := h.2 (by simpa [Db.dep] using hd)
          simp [this.1, this.2]
        | a => rfl
        | b => rfl
        | c => rfl
        | p => rfl
      simp only [applyMsg, specMsg, hc, hd, ha, hb, h3, Bool.not_true, Bool.false_eq_true, if_false]
      cases hr : realmFn t.db s f k v dep with
      | error e => rfl
      | ok d => exact ⟨rfl, coherent_flags h (realmFn_dep hr) t.runs⟩
  | run sc k v =>
    cases sc with
    | noop => exact ⟨rfl, coherent_flags h ⟨rfl, rfl, rfl, rfl, rfl⟩ _⟩
    | fail => rfl
    | read =>
      cases h1 : t.db.da with
      | false => simp only [applyMsg, specMsg, h1, Bool.not_false, if_true]
      | true =>
        simp only [applyMsg, specMsg, ha, h1, Bool.not_true, Bool.false_eq_true, if_false]
        exact ⟨by first | rfl | trivial, coherent_flags h ⟨rfl, rfl, rfl, rfl, rfl⟩ _⟩
    | ab =>
      cases h1 : (t.db.da && t.db.db) with
      | false => simp only [applyMsg, specMsg, h1, Bool.not_false, if_true]
      | true =>
        simp only [applyMsg, specMsg, ha, hb, h1, Bool.not_true, Bool.false_eq_true, if_false]
        exact ⟨by first | rfl | trivial, coherent_flags h ⟨rfl, rfl, rfl, rfl, rfl⟩ _⟩

theorem applyMsgs_spec (who : Nat) (msgs : List Msg) (t : TxSt) (h : Coherent t) :
    match applyMsgs who t msgs with
    | .ok t' => specMsgs t.db msgs = .ok t'.db ∧ Coherent t'
    | .error e => specMsgs t.db msgs = .error e := by
  induction msgs generalizing t with
  | nil => exact ⟨by first | rfl | trivial, h⟩
  | cons m ms ih =>
    have hm := applyMsg_spec who t m h
    simp only [applyMsgs, specMsgs]
    cases hr : applyMsg who t m with
    | error e =>
      rw [hr] at hm
      simp only [hm]
    | ok t' =>
      rw [hr] at hm
      simp only [hm.1]
      exact ih t' hm.2

theorem applyTx_spec (who : Nat) (lo : Bool) (msgs : List Msg) (t : TxSt) (h : Coherent t) :
    ((applyTx who lo msgs t).1.db, (applyTx who lo msgs t).2) = specTx who lo msgs t.db ∧
      Coherent (applyTx who lo msgs t).1 := by
  unfold applyTx specTx
  by_cases h1 : lo = true
  · simp [h1, h]
  · simp only [h1, Bool.false_eq_true, if_false]
    by_cases h2 : (who == 3) = true
    · simp [h2, h]
    · simp only [h2, Bool.false_eq_true, if_false]
      have hm := applyMsgs_spec who msgs t h
      cases hr : applyMsgs who t msgs with
      | error e =>
        rw [hr] at hm
        simp [hm, h]
      | ok t' =>
        rw [hr] at hm
        simp [hm.1, hm.2]

theorem restart_coherent (t : TxSt) (h : Coherent t) : Coherent (restart t) := by
  refine ⟨fun s => ?_, h.2⟩
  show (allSlots.filter t.db.dep).contains s = t.db.dep s
  cases s <;> cases h1 : t.db.da <;> cases h2 : t.db.db <;> cases h3 : t.db.dc <;> cases h4 : t.db.dh <;>
    cases h5 : t.db.dp <;> simp [allSlots, List.filter, Db.dep, h1, h2, h3, h4, h5]

theorem restart_db (t : TxSt) : (restart t).db = t.db := rfl

/-- One step of an instance = one step of the cache-free machine, whatever the restart
pattern; coherence is an invariant. -/
theorem step_spec (p : Pattern) (w : World) (o : Op) (h : Coherent w.st) :
    specStep w.abs o = ((step p w o).1.abs, (step p w o).2) ∧ Coherent (step p w o).1.st := by
  cases o with
  | bad => exact ⟨by first | rfl | trivial, h⟩
  | openCfgs n =>
    simp only [step, stepG, specStep, World.abs]
    by_cases hc : (w.opened || !w.boundary || w.height != 1) = true
    · simp only [hc, if_true]; exact ⟨by first | rfl | trivial, h⟩
    · simp only [hc, Bool.false_eq_true, if_false]; exact ⟨by first | rfl | trivial, h⟩
  | restart =>
    simp only [step, stepG, specStep, World.abs]
    by_cases hc : (!w.boundary) = true
    · simp only [hc, if_true]; exact ⟨by first | rfl | trivial, h⟩
    · simp only [hc, Bool.false_eq_true, if_false]
      cases p.follow
      · exact ⟨by first | rfl | trivial, h⟩
      · exact ⟨by first | rfl | trivial, restart_coherent _ h⟩
  | probe => exact ⟨by first | rfl | trivial, h⟩
  | tx who lo msgs =>
    have hs := applyTx_spec who lo msgs w.st h
    simp only [step, stepG, specStep, World.abs]
    have h1 : (specTx who lo msgs w.st.db).1 = (applyTx who lo msgs w.st).1.db := by rw [← hs.1]
    have h2 : (specTx who lo msgs w.st.db).2 = (applyTx who lo msgs w.st).2 := by rw [← hs.1]
    refine ⟨?_, hs.2⟩
    rw [h1, h2]
  | commit =>
    simp only [step, stepG, specStep, World.abs]
    cases p.after w.height
    · exact ⟨by first | rfl | trivial, h⟩
    · exact ⟨by first | rfl | trivial, restart_coherent _ h⟩

theorem run_spec (p : Pattern) (ops : List Op) (w : World) (h : Coherent w.st) :
    run p w ops = specRun w.abs ops := by
  induction ops generalizing w with
  | nil => rfl
  | cons o os ih =>
    have hs := step_spec p w o h
    show (step p w o).2 :: run p (step p w o).1 os = (specStep w.abs o).2 :: specRun (specStep w.abs o).1 os
    rw [hs.1]
    exact congrArg _ (ih _ hs.2)

/-- The cache-free handler never answers `incoherent`. -/
theorem specMsg_ne_incoherent (d : Db) (m : Msg) : specMsg d m ≠ .error .incoherent := by
  cases m with
  | send foreign => cases foreign <;> simp [specMsg]
  | add s =>
    simp only [specMsg]
    split
    · simp
    · split <;> simp
  | call s f k v dep =>
    simp only [specMsg]
    split
    · simp
    · cases hr : realmFn d s f k v dep with
      | ok d' => simp
      | error e =>
        simp only [ne_eq, Except.error.injEq]
        intro he
        subst he
        cases s <;> cases f <;> simp only [realmFn] at hr <;>
          first | cases hr | (split at hr <;> cases hr)
  | run sc k v =>
    cases sc <;> simp only [specMsg]
    · split <;> simp
    · simp
    · simp
    · split <;> simp

theorem specMsgs_ne_incoherent (msgs : List Msg) (d : Db) : specMsgs d msgs ≠ .error .incoherent := by
  induction msgs generalizing d with
  | nil => simp [specMsgs]
  | cons m ms ih =>
    simp only [specMsgs]
    cases hr : specMsg d m with
    | ok d' => exact ih d'
    | error e =>
      intro he
      simp only [Except.error.injEq] at he
      subst he
      exact specMsg_ne_incoherent d m hr

theorem specTx_ne_incoherent (who : Nat) (lo : Bool) (msgs : List Msg) (d : Db) :
    (specTx who lo msgs d).2 ≠ some .incoherent := by
  unfold specTx
  split
  · simp
  · split
    · simp
    · cases hr : specMsgs d msgs with
      | ok d' => simp
      | error e =>
        simp only [ne_eq, Option.some.injEq]
        intro he
        subst he
        exact specMsgs_ne_incoherent msgs d hr

theorem specRun_no_incoherent (ops : List Op) (w : SWorld) : Out.err .incoherent ∉ specRun w ops := by
  induction ops generalizing w with
  | nil => simp [specRun]
  | cons o os ih =>
    simp only [specRun, List.mem_cons, not_or]
    refine ⟨?_, ih _⟩
    cases o with
    | bad => simp [specStep]
    | openCfgs n => simp only [specStep]; split <;> simp
    | restart => simp only [specStep]; split <;> simp
    | commit => simp [specStep]
    | probe => simp [specStep]
    | tx who lo msgs =>
      simp only [specStep]
      have := specTx_ne_incoherent who lo msgs w.db
      cases hr : (specTx who lo msgs w.db).2 with
      | none => simp
      | some e =>
        simp only [ne_eq, Out.err.injEq]
        intro he
        subst he
        exact this hr

end GnoVerif.C01
