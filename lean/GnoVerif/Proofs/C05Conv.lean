import GnoVerif.Proofs.C05Mul
/-! C05: integer → float conversions are the correctly rounded integer. -/
set_option linter.unusedSimpArgs false
namespace GnoVerif.C05.L
open GnoVerif.Gen.C05

theorem toNat_neg_of_neg (v : BitVec 64) (h : v.toInt < 0) : (-v).toNat = v.toInt.natAbs := by
  have hl := v.isLt
  rw [BitVec.toInt_eq_toNat_cond] at h
  have hc : ¬ (2 * v.toNat < 2^64) := by
    intro hc; rw [if_pos hc] at h; omega
  rw [BitVec.toNat_neg, BitVec.toInt_eq_toNat_cond, if_neg hc]
  omega

theorem toNat_of_nonneg (v : BitVec 64) (h : 0 ≤ v.toInt) : v.toNat = v.toInt.natAbs := by
  have := toNat_of_toInt_nonneg v h; omega

theorem sign_ne_zero_iff_neg (v : BitVec 64) :
    ((v &&& 9223372036854775808#64) != 0#64) = decide (v.toInt < 0) := by
  have hl := v.isLt
  rcases sign64_cases v with ⟨hn, he⟩ | ⟨hn, he⟩ <;> rw [he] <;> unfold neg64 at hn <;>
    rw [BitVec.toInt_eq_toNat_cond] <;> simp <;> omega

/-- `fintto64`: the correctly rounded integer (value `|v|·2^(52−52)`) with the integer's sign -/
theorem fintto64_rounded (v : BitVec 64) (hv : v ≠ 0#64) :
    fintto64 v = (v &&& 9223372036854775808#64) ||| BitVec.ofNat 64 (roundInt64 v.toInt.natAbs 52) := by
  unfold fintto64
  simp only [sign_ne_zero_iff_neg]
  have hv0 : v.toInt ≠ 0 := by
    intro h
    apply hv
    apply BitVec.eq_of_toInt_eq; simpa using h
  have h52 : (52#64).toInt = 52 := by decide
  by_cases hneg : v.toInt < 0
  · simp only [hneg, decide_true, if_true]
    rw [fpack64_roundInt _ (-v) 52#64 0#64 v.toInt.natAbs 0 (sign64_cases' v) (by rw [h52]; omega) (by rw [h52]; omega)
      (by rw [toNat_neg_of_neg v hneg]; simp) (by simp [Nat.mod_one]) (by rw [toNat_neg_of_neg v hneg]; omega)
      (Or.inl (Nat.mod_one _)), h52]
    simp
  · simp only [hneg, decide_false, Bool.false_eq_true, if_false]
    rw [fpack64_roundInt _ v 52#64 0#64 v.toInt.natAbs 0 (sign64_cases' v) (by rw [h52]; omega) (by rw [h52]; omega)
      (by rw [toNat_of_nonneg v (by omega)]; simp) (by simp [Nat.mod_one]) (by rw [toNat_of_nonneg v (by omega)]; omega)
      (Or.inl (Nat.mod_one _)), h52]
    simp


/-! ### float → integer -/

theorem f64toint_loop1_spec (d : Nat) : ∀ (fuel : Nat) (fe fm : BitVec 64), d ≤ fuel → fe.toInt = 52 + (d : Int) →
    f64toint_loop1 fuel fe fm = (52#64, fm <<< d) := by
  have h52 : (52#64).toInt = 52 := by decide
  induction d with
  | zero =>
    intro fuel fe fm _ he
    have hE : fe = 52#64 := by apply BitVec.eq_of_toInt_eq; rw [h52]; omega
    subst hE
    cases fuel with
    | zero => simp [f64toint_loop1]
    | succ n =>
      rw [f64toint_loop1_succ]
      have : BitVec.slt 52#64 52#64 = false := by decide
      simp [this]
  | succ j ih =>
    intro fuel fe fm hf he
    cases fuel with
    | zero => omega
    | succ n =>
      rw [f64toint_loop1_succ]
      have c : BitVec.slt 52#64 fe = true := by simp only [BitVec.slt, h52]; simp; omega
      simp only [c, if_true]
      rw [ih n (fe - 1#64) (fm <<< 1) (by omega) (by rw [toInt_sub_one fe (by omega)]; omega)]
      congr 1
      rw [← BitVec.shiftLeft_add, Nat.add_comm]

theorem f64toint_loop2_spec (d : Nat) : ∀ (fuel : Nat) (fe fm : BitVec 64), d ≤ fuel → fe.toInt = 52 - (d : Int) →
    f64toint_loop2 fuel fe fm = (52#64, fm >>> d) := by
  have h52 : (52#64).toInt = 52 := by decide
  induction d with
  | zero =>
    intro fuel fe fm _ he
    have hE : fe = 52#64 := by apply BitVec.eq_of_toInt_eq; rw [h52]; omega
    subst hE
    cases fuel with
    | zero => simp [f64toint_loop2]
    | succ n =>
      rw [f64toint_loop2_succ]
      have : BitVec.slt 52#64 52#64 = false := by decide
      simp [this]
  | succ j ih =>
    intro fuel fe fm hf he
    cases fuel with
    | zero => omega
    | succ n =>
      rw [f64toint_loop2_succ]
      have c : BitVec.slt fe 52#64 = true := by simp only [BitVec.slt, h52]; simp; omega
      simp only [c, if_true]
      rw [ih n (fe + 1#64) (fm >>> 1) (by omega) (by rw [toInt_add_one fe (by omega)]; omega)]
      congr 1
      rw [← BitVec.shiftRight_add, Nat.add_comm]

/-- `f64toint` on a finite value with unpacked exponent in [−1, 63]: sign and `⌊|f|⌋`, flag true -/
theorem f64toint_trunc (f : BitVec 64) (hf : isFinite64 f)
    (he1 : -1 ≤ (funpack64 f).2.2.1.toInt) (he2 : (funpack64 f).2.2.1.toInt ≤ 63) :
    f64toint f =
      (if (f &&& 9223372036854775808#64) ≠ 0#64
        then -(BitVec.ofNat 64 (truncMag64 (funpack64 f).2.1.toNat (funpack64 f).2.2.1.toInt))
        else BitVec.ofNat 64 (truncMag64 (funpack64 f).2.1.toNat (funpack64 f).2.2.1.toInt), true) := by
  obtain ⟨fm, fe, hF, hfm0, hfmb⟩ := funpack64_ex f
  have hni : ¬ isInf64 f := fun h => hf h.1
  have hnn : ¬ isNaN64 f := fun h => hf h.1
  rw [hF] at he1 he2 ⊢
  simp only [] at he1 he2 ⊢
  have hfmlt : fm.toNat < 2^53 := by
    by_cases h0 : fm = 0#64
    · rw [h0]; decide
    · exact (hfmb hf h0).2
  unfold f64toint
  rw [hF]
  have b1 : BitVec.slt fe (BitVec.ofInt 64 (-1)) = false := by
    have : (BitVec.ofInt 64 (-1)).toInt = -1 := by decide
    simp only [BitVec.slt, this]; simp; omega
  have b2 : BitVec.slt 63#64 fe = false := by
    have : (63#64).toInt = 63 := by decide
    simp only [BitVec.slt, this]; simp; omega
  simp only [hni, hnn, decide_false, Bool.or_self, Bool.false_eq_true, if_false, b1, b2, loopFuel]
  unfold truncMag64
  by_cases hge : 52 ≤ fe.toInt
  · have hd : fe.toInt = 52 + (((fe.toInt - 52).toNat : Nat) : Int) := by omega
    rw [f64toint_loop1_spec (fe.toInt - 52).toNat 128 fe fm (by omega) hd]
    simp only []
    rw [f64toint_loop2_spec 0 128 52#64 _ (by omega) (by decide)]
    simp only [BitVec.ushiftRight_zero, hge, if_true]
    have hsl : fm <<< (fe.toInt - 52).toNat = BitVec.ofNat 64 (fm.toNat * 2^(fe.toInt - 52).toNat) := by
      apply BitVec.eq_of_toNat_eq
      rw [BitVec.toNat_shiftLeft, Nat.shiftLeft_eq, BitVec.toNat_ofNat]
    rw [hsl]
    by_cases hs : (f &&& 9223372036854775808#64) = 0#64
    · simp [hs]
    · simp [hs]
  · have hd : fe.toInt = 52 - (((52 - fe.toInt).toNat : Nat) : Int) := by omega
    have hl1 : f64toint_loop1 128 fe fm = (fe, fm) := by
      have h52 : (52#64).toInt = 52 := by decide
      rw [f64toint_loop1_succ]
      have c : BitVec.slt 52#64 fe = false := by simp only [BitVec.slt, h52]; simp; omega
      simp [c]
    rw [hl1]
    simp only []
    rw [f64toint_loop2_spec (52 - fe.toInt).toNat 128 fe fm (by omega) hd]
    simp only [hge, if_false]
    have hsr : fm >>> (52 - fe.toInt).toNat = BitVec.ofNat 64 (fm.toNat / 2^(52 - fe.toInt).toNat) := by
      apply BitVec.eq_of_toNat_eq
      rw [BitVec.toNat_ushiftRight, Nat.shiftRight_eq_div_pow, BitVec.toNat_ofNat]
      have : fm.toNat / 2^(52 - fe.toInt).toNat ≤ fm.toNat := Nat.div_le_self _ _
      exact (Nat.mod_eq_of_lt (by omega)).symm
    rw [hsr]
    by_cases hs : (f &&& 9223372036854775808#64) = 0#64
    · simp [hs]
    · simp [hs]

end GnoVerif.C05.L
