import GnoVerif.Base.Base64
/-! Lemmas about `Base.Base64`: decoding inverts encoding; shape of encoded text. -/
namespace GnoVerif.Base64

theorem toNat_ofNat_lt {n : Nat} (h : n < 256) : (UInt8.ofNat n).toNat = n := by
  simp [UInt8.toNat_ofNat', Nat.mod_eq_of_lt h]

theorem ofNat_toNat (c : UInt8) : UInt8.ofNat c.toNat = c := by simp

set_option maxRecDepth 100000 in
theorem encChar_facts_fin : ∀ n : Fin 64,
    decChar (encChar n.val) = some n.val ∧ encChar n.val ≠ 10 ∧ encChar n.val ≠ 13 ∧ encChar n.val ≠ 35 := by
  decide

theorem decChar_encChar {n : Nat} (h : n < 64) : decChar (encChar n) = some n :=
  (encChar_facts_fin ⟨n, h⟩).1

set_option maxRecDepth 100000 in
theorem decChar_facts_fin : ∀ n : Fin 256, ∀ v, decChar (UInt8.ofNat n.val) = some v →
    v < 64 ∧ encChar v = UInt8.ofNat n.val := by
  decide

theorem decChar_lt {c : UInt8} {v : Nat} (h : decChar c = some v) : v < 64 := by
  have := decChar_facts_fin ⟨c.toNat, c.toNat_lt⟩ v
  simp only [ofNat_toNat] at this
  exact (this h).1

theorem encChar_of_decChar {c : UInt8} {v : Nat} (h : decChar c = some v) : encChar v = c := by
  have := decChar_facts_fin ⟨c.toNat, c.toNat_lt⟩ v
  simp only [ofNat_toNat] at this
  exact (this h).2

theorem encChar_ne_nl {n : Nat} (h : n < 64) : encChar n ≠ 10 := (encChar_facts_fin ⟨n, h⟩).2.1
theorem encChar_ne_cr {n : Nat} (h : n < 64) : encChar n ≠ 13 := (encChar_facts_fin ⟨n, h⟩).2.2.1
theorem encChar_ne_hash {n : Nat} (h : n < 64) : encChar n ≠ 35 := (encChar_facts_fin ⟨n, h⟩).2.2.2

theorem isSkipped_encChar {n : Nat} (h : n < 64) : isSkipped (encChar n) = false := by
  have h1 := encChar_ne_nl h
  have h2 := encChar_ne_cr h
  simp [isSkipped, h1, h2]

/-- Every character of an encoding is an alphabet character (a 6-bit value). -/
def IsAlpha (c : UInt8) : Prop := ∃ n, n < 64 ∧ c = encChar n

theorem encode_alpha (bs : Bytes) : ∀ c ∈ encode bs, IsAlpha c := by
  induction bs using encode.induct with
  | case1 a b c rest ih =>
    intro x hx
    simp only [encode, List.mem_cons] at hx
    have ha := a.toNat_lt; have hb := b.toNat_lt; have hc := c.toNat_lt
    rcases hx with h | h | h | h | h
    · exact ⟨_, by omega, h⟩
    · exact ⟨_, by omega, h⟩
    · exact ⟨_, by omega, h⟩
    · exact ⟨_, by omega, h⟩
    · exact ih x h
  | case2 a b =>
    intro x hx
    simp only [encode, List.mem_cons, List.not_mem_nil, or_false] at hx
    have ha := a.toNat_lt; have hb := b.toNat_lt
    rcases hx with h | h | h
    · exact ⟨_, by omega, h⟩
    · exact ⟨_, by omega, h⟩
    · exact ⟨_, by omega, h⟩
  | case3 a =>
    intro x hx
    simp only [encode, List.mem_cons, List.not_mem_nil, or_false] at hx
    have ha := a.toNat_lt
    rcases hx with h | h
    · exact ⟨_, by omega, h⟩
    · exact ⟨_, by omega, h⟩
  | case4 => intro x hx; simp [encode] at hx

theorem decodeGroups_encode (bs : Bytes) : decodeGroups (encode bs) = some bs := by
  induction bs using encode.induct with
  | case1 a b c rest ih =>
    have ha := a.toNat_lt; have hb := b.toNat_lt; have hc := c.toNat_lt
    simp only [encode, decodeGroups]
    rw [decChar_encChar (by omega), decChar_encChar (by omega), decChar_encChar (by omega),
        decChar_encChar (by omega), ih]
    simp only
    have e1 : a.toNat / 4 * 4 + (a.toNat % 4 * 16 + b.toNat / 16) / 16 = a.toNat := by omega
    have e2 : (a.toNat % 4 * 16 + b.toNat / 16) % 16 * 16 + (b.toNat % 16 * 4 + c.toNat / 64) / 4 = b.toNat := by omega
    have e3 : (b.toNat % 16 * 4 + c.toNat / 64) % 4 * 64 + c.toNat % 64 = c.toNat := by omega
    rw [e1, e2, e3, ofNat_toNat, ofNat_toNat, ofNat_toNat]
  | case2 a b =>
    have ha := a.toNat_lt; have hb := b.toNat_lt
    simp only [encode, decodeGroups]
    rw [decChar_encChar (by omega), decChar_encChar (by omega), decChar_encChar (by omega)]
    simp only
    have e1 : a.toNat / 4 * 4 + (a.toNat % 4 * 16 + b.toNat / 16) / 16 = a.toNat := by omega
    have e2 : (a.toNat % 4 * 16 + b.toNat / 16) % 16 * 16 + (b.toNat % 16 * 4) / 4 = b.toNat := by omega
    rw [e1, e2, ofNat_toNat, ofNat_toNat]
  | case3 a =>
    have ha := a.toNat_lt
    simp only [encode, decodeGroups]
    rw [decChar_encChar (by omega), decChar_encChar (by omega)]
    simp only
    have e1 : a.toNat / 4 * 4 + (a.toNat % 4 * 16) / 16 = a.toNat := by omega
    rw [e1, ofNat_toNat]
  | case4 => simp [encode, decodeGroups]

theorem filter_encode (bs : Bytes) : (encode bs).filter (fun c => !isSkipped c) = encode bs := by
  apply List.filter_eq_self.mpr
  intro c hc
  obtain ⟨n, hn, rfl⟩ := encode_alpha bs c hc
  simp [isSkipped_encChar hn]

/-- `DecodeString(EncodeToString(bs)) = bs`. -/
theorem decode_encode (bs : Bytes) : decode (encode bs) = some bs := by
  simp [decode, filter_encode, decodeGroups_encode]

theorem encode_ne_nil {bs : Bytes} (h : bs ≠ []) : encode bs ≠ [] := by
  match bs, h with
  | [_], _ => simp [encode]
  | [_, _], _ => simp [encode]
  | _ :: _ :: _ :: _, _ => simp [encode]

theorem nl_not_mem_encode (bs : Bytes) : (10 : UInt8) ∉ encode bs := by
  intro h
  obtain ⟨n, hn, e⟩ := encode_alpha bs _ h
  exact encChar_ne_nl hn e.symm

theorem head_encode_ne_hash (bs : Bytes) : (encode bs).head? ≠ some 35 := by
  intro h
  have hm : (35 : UInt8) ∈ encode bs := List.mem_of_mem_head? h
  obtain ⟨n, hn, e⟩ := encode_alpha bs _ hm
  exact encChar_ne_hash hn e.symm

/-- Replacing ONE character of an encoding by another alphabet character: the text
still decodes, to the same bytes except inside a window of at most two bytes whose
place is determined by the character's position. -/
theorem decodeGroups_set_alpha (B : Bytes) : ∀ (i w : Nat), i < (encode B).length → w < 64 →
    ∃ pre mid mid' suf, B = pre ++ mid ++ suf ∧
      decodeGroups ((encode B).set i (encChar w)) = some (pre ++ mid' ++ suf) ∧
      mid.length = mid'.length ∧ mid.length ≤ 2 ∧
      3 * (i / 4) + (i % 4 - 1) ≤ pre.length ∧
      pre.length + mid.length ≤ 3 * (i / 4) + min (i % 4 + 1) 3 := by
  induction B using encode.induct with
  | case1 a b c rest ih =>
    intro i w hi hw
    have ha := a.toNat_lt; have hb := b.toNat_lt; have hc := c.toNat_lt
    have hrest := decodeGroups_encode rest
    have d0 := decChar_encChar (show a.toNat / 4 < 64 by omega)
    have d1 := decChar_encChar (show a.toNat % 4 * 16 + b.toNat / 16 < 64 by omega)
    have d2 := decChar_encChar (show b.toNat % 16 * 4 + c.toNat / 64 < 64 by omega)
    have d3 := decChar_encChar (show c.toNat % 64 < 64 by omega)
    have dw := decChar_encChar hw
    have ea : a.toNat / 4 * 4 + (a.toNat % 4 * 16 + b.toNat / 16) / 16 = a.toNat := by omega
    have eb : (a.toNat % 4 * 16 + b.toNat / 16) % 16 * 16 + (b.toNat % 16 * 4 + c.toNat / 64) / 4 = b.toNat := by omega
    have ec : (b.toNat % 16 * 4 + c.toNat / 64) % 4 * 64 + c.toNat % 64 = c.toNat := by omega
    match i, hi with
    | 0, _ =>
      refine ⟨[], [a], [UInt8.ofNat (w * 4 + (a.toNat % 4 * 16 + b.toNat / 16) / 16)], b :: c :: rest, rfl, ?_, rfl, by simp, by simp, by simp⟩
      simp only [encode, List.set_cons_zero, decodeGroups, dw, d1, d2, d3, hrest, eb, ec, ofNat_toNat]
      rfl
    | 1, _ =>
      refine ⟨[], [a, b], [UInt8.ofNat (a.toNat / 4 * 4 + w / 16),
        UInt8.ofNat (w % 16 * 16 + (b.toNat % 16 * 4 + c.toNat / 64) / 4)], c :: rest, rfl, ?_, rfl, by simp, by simp, by simp⟩
      simp only [encode, List.set_cons_succ, List.set_cons_zero, decodeGroups, dw, d0, d2, d3, hrest, ec, ofNat_toNat]
      rfl
    | 2, _ =>
      refine ⟨[a], [b, c], [UInt8.ofNat ((a.toNat % 4 * 16 + b.toNat / 16) % 16 * 16 + w / 4),
        UInt8.ofNat (w % 4 * 64 + c.toNat % 64)], rest, rfl, ?_, rfl, by simp, by simp, by simp⟩
      simp only [encode, List.set_cons_succ, List.set_cons_zero, decodeGroups, dw, d0, d1, d3, hrest, ea, ofNat_toNat]
      rfl
    | 3, _ =>
      refine ⟨[a, b], [c], [UInt8.ofNat ((b.toNat % 16 * 4 + c.toNat / 64) % 4 * 64 + w)], rest, rfl, ?_, rfl, by simp, by simp, by simp⟩
      simp only [encode, List.set_cons_succ, List.set_cons_zero, decodeGroups, dw, d0, d1, d2, hrest, ea, eb, ofNat_toNat]
      rfl
    | k + 4, hk =>
      have hk' : k < (encode rest).length := by simpa [encode] using hk
      obtain ⟨pre, mid, mid', suf, h1, h2, h3, h4, h5, h6⟩ := ih k w hk' hw
      refine ⟨a :: b :: c :: pre, mid, mid', suf, by simp [h1], ?_, h3, h4, ?_, ?_⟩
      · simp only [encode, List.set_cons_succ, decodeGroups, d0, d1, d2, d3, h2, ea, eb, ec, ofNat_toNat]
        rfl
      · simp only [List.length_cons]; omega
      · simp only [List.length_cons]; omega
  | case2 a b =>
    intro i w hi hw
    have ha := a.toNat_lt; have hb := b.toNat_lt
    have d0 := decChar_encChar (show a.toNat / 4 < 64 by omega)
    have d1 := decChar_encChar (show a.toNat % 4 * 16 + b.toNat / 16 < 64 by omega)
    have d2 := decChar_encChar (show b.toNat % 16 * 4 < 64 by omega)
    have dw := decChar_encChar hw
    have ea : a.toNat / 4 * 4 + (a.toNat % 4 * 16 + b.toNat / 16) / 16 = a.toNat := by omega
    have eb : (a.toNat % 4 * 16 + b.toNat / 16) % 16 * 16 + (b.toNat % 16 * 4) / 4 = b.toNat := by omega
    match i, hi with
    | 0, _ =>
      refine ⟨[], [a], [UInt8.ofNat (w * 4 + (a.toNat % 4 * 16 + b.toNat / 16) / 16)], [b], rfl, ?_, rfl, by simp, by simp, by simp⟩
      simp only [encode, List.set_cons_zero, decodeGroups, dw, d1, d2, eb, ofNat_toNat]
      rfl
    | 1, _ =>
      refine ⟨[], [a, b], [UInt8.ofNat (a.toNat / 4 * 4 + w / 16),
        UInt8.ofNat (w % 16 * 16 + (b.toNat % 16 * 4) / 4)], [], rfl, ?_, rfl, by simp, by simp, by simp⟩
      simp only [encode, List.set_cons_succ, List.set_cons_zero, decodeGroups, dw, d0, d2]
      rfl
    | 2, _ =>
      refine ⟨[a], [b], [UInt8.ofNat ((a.toNat % 4 * 16 + b.toNat / 16) % 16 * 16 + w / 4)], [], rfl, ?_, rfl, by simp, by simp, by simp⟩
      simp only [encode, List.set_cons_succ, List.set_cons_zero, decodeGroups, dw, d0, d1, ea, ofNat_toNat]
      rfl
    | k + 3, hk => simp [encode] at hk; omega
  | case3 a =>
    intro i w hi hw
    have ha := a.toNat_lt
    have d0 := decChar_encChar (show a.toNat / 4 < 64 by omega)
    have d1 := decChar_encChar (show a.toNat % 4 * 16 < 64 by omega)
    have dw := decChar_encChar hw
    match i, hi with
    | 0, _ =>
      refine ⟨[], [a], [UInt8.ofNat (w * 4 + (a.toNat % 4 * 16) / 16)], [], rfl, ?_, rfl, by simp, by simp, by simp⟩
      simp only [encode, List.set_cons_zero, decodeGroups, dw, d1]
      rfl
    | 1, _ =>
      refine ⟨[], [a], [UInt8.ofNat (a.toNat / 4 * 4 + w / 16)], [], rfl, ?_, rfl, by simp, by simp, by simp⟩
      simp only [encode, List.set_cons_succ, List.set_cons_zero, decodeGroups, dw, d0]
      rfl
    | k + 2, hk => simp [encode] at hk; omega
  | case4 => intro i w hi; simp [encode] at hi

/-- length of a successful decoding -/
theorem decodeGroups_length : ∀ (X Y : Bytes), decodeGroups X = some Y → Y.length = X.length * 3 / 4 := by
  intro X
  induction X using decodeGroups.induct with
  | case1 c0 c1 c2 c3 rest v0 v1 v2 v3 h0 h1 h2 h3 out hout ih =>
    intro Y h
    simp only [decodeGroups, h0, h1, h2, h3, hout, Option.some.injEq] at h
    subst h
    have := ih out hout
    simp only [List.length_cons, this]; omega
  | case2 c0 c1 c2 c3 rest v0 v1 v2 v3 h0 h1 h2 h3 hout ih =>
    intro Y h; simp [decodeGroups, h0, h1, h2, h3, hout] at h
  | case3 c0 c1 c2 c3 rest hx =>
    intro Y h
    unfold decodeGroups at h
    split at h
    · rename_i v0 v1 v2 v3 h0 h1 h2 h3
      exact absurd h3 (hx _ _ _ _ h0 h1 h2)
    · cases h
  | case4 c0 c1 c2 v0 v1 v2 h0 h1 h2 =>
    intro Y h; simp only [decodeGroups, h0, h1, h2, Option.some.injEq] at h; subst h; simp
  | case5 c0 c1 c2 hx =>
    intro Y h
    unfold decodeGroups at h
    split at h
    · rename_i v0 v1 v2 h0 h1 h2
      exact absurd h2 (hx _ _ _ h0 h1)
    · cases h
  | case6 c0 c1 v0 v1 h0 h1 =>
    intro Y h; simp only [decodeGroups, h0, h1, Option.some.injEq] at h; subst h; simp
  | case7 c0 c1 hx =>
    intro Y h
    unfold decodeGroups at h
    split at h
    · rename_i v0 v1 h0 h1
      exact absurd h1 (hx _ _ h0)
    · cases h
  | case8 c0 => intro Y h; simp [decodeGroups] at h
  | case9 => intro Y h; simp [decodeGroups] at h; subst h; rfl

/-- decoding splits at a multiple of four characters -/
theorem decodeGroups_split : ∀ (k : Nat) (A T Y : Bytes), A.length = 4 * k → decodeGroups (A ++ T) = some Y →
    ∃ dA dT, decodeGroups A = some dA ∧ decodeGroups T = some dT ∧ Y = dA ++ dT ∧ dA.length = 3 * k := by
  intro k
  induction k with
  | zero =>
    intro A T Y hA h
    have : A = [] := List.eq_nil_of_length_eq_zero (by omega)
    subst this
    exact ⟨[], Y, by simp [decodeGroups], by simpa using h, rfl, rfl⟩
  | succ k ih =>
    intro A T Y hA h
    match A, hA with
    | c0 :: c1 :: c2 :: c3 :: A', hA' =>
      have hA'' : A'.length = 4 * k := by simp at hA'; omega
      simp only [List.cons_append] at h
      unfold decodeGroups at h
      split at h
      · rename_i v0 v1 v2 v3 h0 h1 h2 h3
        split at h
        · rename_i out hout
          obtain ⟨dA, dT, e1, e2, e3, e4⟩ := ih A' T out hA'' hout
          simp only [Option.some.injEq] at h
          refine ⟨UInt8.ofNat (v0 * 4 + v1 / 16) :: UInt8.ofNat (v1 % 16 * 16 + v2 / 4) ::
            UInt8.ofNat (v2 % 4 * 64 + v3) :: dA, dT, ?_, e2, ?_, by simp [e4]; omega⟩
          · simp only [decodeGroups, h0, h1, h2, h3, e1]
          · rw [← h, e3]; rfl
        · cases h
      · cases h

theorem filter_set_cr : ∀ (l : Bytes) (i : Nat), (∀ c ∈ l, isSkipped c = false) → i < l.length →
    (l.set i 13).filter (fun c => !isSkipped c) = l.eraseIdx i
  | [], i, _, hi => by simp at hi
  | a :: l, 0, h, _ => by
    have h13 : isSkipped 13 = true := by decide
    have hl : l.filter (fun c => !isSkipped c) = l :=
      List.filter_eq_self.mpr (fun c hc => by simp [h c (List.mem_cons_of_mem _ hc)])
    simp [h13, hl]
  | a :: l, i + 1, h, hi => by
    have ha : isSkipped a = false := h a List.mem_cons_self
    have ih := filter_set_cr l i (fun c hc => h c (List.mem_cons_of_mem _ hc)) (by simpa using hi)
    simp [ha, ih]

end GnoVerif.Base64
