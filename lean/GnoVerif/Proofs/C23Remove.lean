/-
Proofs.C23Remove — `nodeRemove` / `treeRemove` refine `OMap.del` and preserve the
search-order invariant (`2 ≤ B`, needed only by the leaf case of
`redistributeLeft`, whose new separator is the donor's SECOND key).
-/
import GnoVerif.Proofs.C23Reads

namespace GnoVerif.C23
open GnoVerif

/-! ### list bookkeeping for two adjacent positions -/

section mid2
variable {α : Type} {A B : List α} {x y : α} {i : Nat}

theorem getElem?_mid2 (h : A.length = i) : (A ++ x :: y :: B)[i + 1]? = some y := by
  have : A ++ x :: y :: B = (A ++ [x]) ++ y :: B := by simp
  rw [this, getElem?_mid (by simp [h])]

theorem set_mid2 (h : A.length = i) (z : α) : (A ++ x :: y :: B).set (i + 1) z = A ++ x :: z :: B := by
  have : A ++ x :: y :: B = (A ++ [x]) ++ y :: B := by simp
  rw [this, set_mid (by simp [h])]; simp

theorem eraseIdx_mid2 (h : A.length = i) : (A ++ x :: y :: B).eraseIdx (i + 1) = A ++ x :: B := by
  have : A ++ x :: y :: B = (A ++ [x]) ++ y :: B := by simp
  rw [this, eraseIdx_mid (by simp [h])]; simp

end mid2

theorem eq_dropLast_append_of_getLast? {α : Type} {l : List α} {a : α} (h : l.getLast? = some a) :
    l = l.dropLast ++ [a] := by
  obtain ⟨ys, rfl⟩ := List.getLast?_eq_some_iff.1 h
  simp

/-! ### leaves -/

/-- the specification of a removal result relative to the node it was applied to. -/
def RemOk (h : Nat) (c : Node h) (r : RemRes (Node h)) (lo hi : Option Key) (key : Key) : Prop :=
  if r.found = true then
    OMap.get (abs h c) key = some r.old ∧ Ord h r.node lo hi ∧ abs h r.node = OMap.del (abs h c) key
  else OMap.get (abs h c) key = none

theorem leafOrd_sublist {es es' : List Entry} {lo hi : Option Key} (h : LeafOrd es lo hi)
    (hsub : es'.Sublist es) : LeafOrd es' lo hi :=
  ⟨List.Pairwise.sublist hsub h.1, fun e he => h.2.1 e (hsub.subset he), h.2.2⟩

theorem leafRemove_ok (B : Nat) {l : Leaf} {lo hi : Option Key} (h : Ord 0 l lo hi) (key : Key) :
    RemOk 0 l (leafRemove B l key) lo hi key := by
  obtain ⟨es⟩ := l
  have h' : LeafOrd es lo hi := h
  simp only [RemOk, leafRemove, abs_zero]
  cases hf : (searchLeaf ⟨es⟩ key).2 with
  | true =>
    obtain ⟨A, v0, C, rfl, hA, hAlt, hCgt⟩ := searchLeaf_found h'.1 hf
    have hpair : searchLeaf ⟨A ++ (key, v0) :: C⟩ key = ((searchLeaf ⟨A ++ (key, v0) :: C⟩ key).1, true) := by
      rw [← hf]
    rw [hpair]
    simp only [Bool.not_true, Bool.false_eq_true, if_false, if_true]
    rw [List.getD_eq_getElem?_getD, getElem?_mid hA, eraseIdx_mid hA]
    refine ⟨?_, ?_, ?_⟩
    · rw [oget_append_lt hAlt]; simp [OMap.get_cons]
    · exact leafOrd_sublist h' (by simp)
    · show A ++ C = _
      rw [odel_append, odel_all_ne (fun x hx => Lex.ne_of_lt (hAlt x hx)), odel_head_eq key v0 hCgt]
  | false =>
    obtain ⟨A, C, rfl, hA, hAlt, hCgt⟩ := searchLeaf_notfound h'.1 hf
    have hpair : searchLeaf ⟨A ++ C⟩ key = ((searchLeaf ⟨A ++ C⟩ key).1, false) := by
      rw [← hf]
    rw [hpair]
    simp only [Bool.not_false, if_true, Bool.false_eq_true, if_false]
    rw [oget_append_lt hAlt, oget_all_gt hCgt]

/-! ### moving one entry / child between adjacent siblings -/

theorem leafOrd_shiftRight {L R : List Entry} {e : Entry} {lo hi : Option Key} {sep : Key}
    (hl : LeafOrd (L ++ [e]) lo (some sep)) (hr : LeafOrd R (some sep) hi) :
    LeafOrd L lo (some e.1) ∧ LeafOrd (e :: R) (some e.1) hi := by
  obtain ⟨ls, lb, lg⟩ := hl
  obtain ⟨rs, rb, rg⟩ := hr
  obtain ⟨ls1, _, lcross⟩ := List.pairwise_append.1 ls
  have he := lb e (by simp)
  have hesep : e.1 < sep := he.2
  refine ⟨⟨ls1, ?_, gapOk_some_right.2 he.1⟩, ⟨?_, ?_, ?_⟩⟩
  · intro x hx
    exact ⟨(lb x (by simp [hx])).1, lcross x hx e (by simp)⟩
  · refine List.pairwise_cons.2 ⟨?_, rs⟩
    intro x hx
    exact Lex.lt_of_lt_of_le hesep (rb x hx).1
  · intro x hx
    rcases List.mem_cons.1 hx with rfl | hx
    · exact ⟨Lex.le_refl _, ubOk_of_gap hesep rg⟩
    · exact ⟨Lex.le_of_lt (Lex.lt_of_lt_of_le hesep (rb x hx).1), (rb x hx).2⟩
  · cases hi with
    | none => trivial
    | some u => exact Lex.le_trans (Lex.le_of_lt hesep) rg

theorem leafOrd_shiftLeft {L R : List Entry} {e e2 : Entry} {lo hi : Option Key} {sep : Key}
    (hl : LeafOrd L lo (some sep)) (hr : LeafOrd (e :: e2 :: R) (some sep) hi) :
    LeafOrd (L ++ [e]) lo (some e2.1) ∧ LeafOrd (e2 :: R) (some e2.1) hi := by
  obtain ⟨ls, lb, lg⟩ := hl
  obtain ⟨rs, rb, rg⟩ := hr
  have hrs := List.pairwise_cons.1 rs
  have hrs2 := List.pairwise_cons.1 hrs.2
  have he := rb e (by simp)
  have he2 := rb e2 (by simp)
  have hee2 : e.1 < e2.1 := hrs.1 e2 (by simp)
  refine ⟨⟨?_, ?_, ?_⟩, ⟨hrs.2, ?_, ?_⟩⟩
  · refine List.pairwise_append.2 ⟨ls, by simp, ?_⟩
    intro a ha b hb
    simp at hb; subst hb
    exact Lex.lt_of_lt_of_le (lb a ha).2 he.1
  · intro x hx
    rcases List.mem_append.1 hx with hx | hx
    · exact ⟨(lb x hx).1, Lex.lt_trans (Lex.lt_of_lt_of_le (lb x hx).2 he.1) hee2⟩
    · simp at hx; subst hx
      exact ⟨lbOk_of_gap lg he.1, hee2⟩
  · exact gapOk_some_right.2 (lbOk_of_gap lg (Lex.le_trans he.1 (Lex.le_of_lt hee2)))
  · intro x hx
    rcases List.mem_cons.1 hx with rfl | hx'
    · exact ⟨Lex.le_refl _, he2.2⟩
    · exact ⟨Lex.le_of_lt (hrs2.1 x hx'), (rb x (by simp [hx'])).2⟩
  · have := he2.2
    cases hi with
    | none => trivial
    | some u => exact Lex.le_of_lt this

theorem leafOrd_merge {L R : List Entry} {lo hi : Option Key} {sep : Key}
    (hl : LeafOrd L lo (some sep)) (hr : LeafOrd R (some sep) hi) : LeafOrd (L ++ R) lo hi := by
  obtain ⟨ls, lb, lg⟩ := hl
  obtain ⟨rs, rb, rg⟩ := hr
  refine ⟨List.pairwise_append.2 ⟨ls, rs, ?_⟩, ?_, gapOk_trans lg rg⟩
  · intro a ha b hb
    exact Lex.lt_of_lt_of_le (lb a ha).2 (rb b hb).1
  · intro x hx
    rcases List.mem_append.1 hx with hx | hx
    · exact ⟨(lb x hx).1, ubOk_of_gap (lb x hx).2 rg⟩
    · exact ⟨lbOk_of_gap lg (rb x hx).1, (rb x hx).2⟩

/-- `redistributeRight`, node level. -/
theorem shiftRight_ok : ∀ (h : Nat) (sep : Key) (l r : Node h) (lo hi : Option Key),
    Ord h l lo (some sep) → Ord h r (some sep) hi →
    Ord h (shiftRight h sep l r).1 lo (some (shiftRight h sep l r).2.2.1) ∧
    Ord h (shiftRight h sep l r).2.1 (some (shiftRight h sep l r).2.2.1) hi ∧
    abs h (shiftRight h sep l r).1 ++ abs h (shiftRight h sep l r).2.1 = abs h l ++ abs h r ∧
    nodeSize h (shiftRight h sep l r).1 = nodeSize h l - (shiftRight h sep l r).2.2.2 ∧
    nodeSize h (shiftRight h sep l r).2.1 = nodeSize h r + (shiftRight h sep l r).2.2.2
  | 0, sep, l, r, lo, hi, hl, hr => by
    obtain ⟨L⟩ := l
    obtain ⟨R⟩ := r
    simp only [shiftRight]
    cases hg : L.getLast? with
    | none => exact ⟨hl, hr, rfl, rfl, rfl⟩
    | some e =>
      have hL := eq_dropLast_append_of_getLast? hg
      have hl' : LeafOrd (L.dropLast ++ [e]) lo (some sep) := by rw [← hL]; exact hl
      obtain ⟨o1, o2⟩ := leafOrd_shiftRight hl' hr
      refine ⟨o1, o2, ?_, ?_, ?_⟩
      · show L.dropLast ++ e :: R = L ++ R
        conv => rhs; rw [hL]
        simp
      · show L.dropLast.length = L.length - 1
        simp
      · rfl
  | h + 1, sep, l, r, lo, hi, hl, hr => by
    obtain ⟨lk, lc, ls⟩ := (l : Inner (Node h))
    obtain ⟨rk, rc, rs⟩ := (r : Inner (Node h))
    obtain ⟨hlc, hls⟩ := hl
    obtain ⟨hrc, hrs⟩ := hr
    simp only at hlc hls hrc hrs
    simp only [shiftRight]
    cases hgk : lk.getLast? with
    | none => exact ⟨⟨hlc, hls⟩, ⟨hrc, hrs⟩, rfl, rfl, rfl⟩
    | some kl =>
      cases hgc : lc.getLast? with
      | none => exact ⟨⟨hlc, hls⟩, ⟨hrc, hrs⟩, rfl, rfl, rfl⟩
      | some cl =>
        have hK := eq_dropLast_append_of_getLast? hgk
        have hC := eq_dropLast_append_of_getLast? hgc
        have hlen := hlc.length_eq
        have hCL : lc.dropLast.length = lk.dropLast.length + 1 := by
          simp only [List.length_dropLast]
          have : lk ≠ [] := by intro h0; subst h0; simp at hgk
          have := List.length_pos_iff.2 this
          omega
        have hlc' : Chain (Ord h) (lk.dropLast ++ kl :: []) (lc.dropLast ++ [cl]) lo (some sep) := by
          rw [← hK, ← hC]; exact hlc
        obtain ⟨c1, c2⟩ := (chain_append hCL).1 hlc'
        have hmoved : ls.getLastD 0 = nodeSize h cl := by
          have : ls = lc.dropLast.map (nodeSize h) ++ [nodeSize h cl] := by
            rw [hls]; conv => lhs; rw [hC]
            simp
          rw [this]; simp
        have hlsd : ls.dropLast = lc.dropLast.map (nodeSize h) := by
          rw [hls]; simp [List.map_dropLast]
        simp only
        refine ⟨⟨c1, hlsd⟩, ⟨⟨chain_single.1 c2, hrc⟩, ?_⟩, ?_, ?_, ?_⟩
        · have hmoved' : ls.getLast?.getD 0 = nodeSize h cl := by
            rw [← List.getLastD_eq_getLast?]; exact hmoved
          simp [hmoved', hrs]
        · show flat h lc.dropLast ++ flat h (cl :: rc) = flat h lc ++ flat h rc
          conv => rhs; rw [hC]
          simp
        · show ls.dropLast.sum = ls.sum - ls.getLastD 0
          have : ls = ls.dropLast ++ [ls.getLastD 0] := by
            rw [hmoved, hlsd, hls]; conv => lhs; rw [hC]
            simp
          conv => rhs; rw [this]
          simp
        · show (ls.getLastD 0 :: rs).sum = rs.sum + ls.getLastD 0
          simp; omega

/-- `redistributeLeft`, node level.  For leaves the donor must hold at least two
entries (its second key becomes the separator). -/
theorem shiftLeft_ok : ∀ (h : Nat) (sep : Key) (l r : Node h) (lo hi : Option Key),
    Ord h l lo (some sep) → Ord h r (some sep) hi → (h = 0 → 2 ≤ (abs h r).length) →
    Ord h (shiftLeft h sep l r).1 lo (some (shiftLeft h sep l r).2.2.1) ∧
    Ord h (shiftLeft h sep l r).2.1 (some (shiftLeft h sep l r).2.2.1) hi ∧
    abs h (shiftLeft h sep l r).1 ++ abs h (shiftLeft h sep l r).2.1 = abs h l ++ abs h r ∧
    nodeSize h (shiftLeft h sep l r).1 = nodeSize h l + (shiftLeft h sep l r).2.2.2 ∧
    nodeSize h (shiftLeft h sep l r).2.1 = nodeSize h r - (shiftLeft h sep l r).2.2.2
  | 0, sep, l, r, lo, hi, hl, hr, h2 => by
    obtain ⟨L⟩ := l
    obtain ⟨R⟩ := r
    have h2' : 2 ≤ R.length := h2 rfl
    match R, h2', hr with
    | e :: e2 :: R', _, hr =>
      simp only [shiftLeft, List.headD_cons]
      obtain ⟨o1, o2⟩ := leafOrd_shiftLeft (e := e) (e2 := e2) hl hr
      refine ⟨o1, o2, ?_, ?_, ?_⟩
      · show (L ++ [e]) ++ (e2 :: R') = L ++ e :: e2 :: R'
        simp
      · show (L ++ [e]).length = L.length + 1
        simp
      · rfl
  | h + 1, sep, l, r, lo, hi, hl, hr, _ => by
    obtain ⟨lk, lc, ls⟩ := (l : Inner (Node h))
    obtain ⟨rk, rc, rs⟩ := (r : Inner (Node h))
    obtain ⟨hlc, hls⟩ := hl
    obtain ⟨hrc, hrs⟩ := hr
    simp only at hlc hls hrc hrs
    simp only [shiftLeft]
    match rk, rc, hrc, hrs with
    | [], _, hrc, hrs => exact ⟨⟨hlc, hls⟩, ⟨hrc, hrs⟩, rfl, rfl, rfl⟩
    | _ :: _, [], hrc, _ => exact absurd hrc (by simp [Chain])
    | k0 :: rks, c0 :: rcs, hrc, hrs =>
      simp only
      have hlen := hlc.length_eq
      have hl' : Chain (Ord h) (lk ++ sep :: []) (lc ++ [c0]) lo (some k0) :=
        (chain_append hlen).2 ⟨hlc, chain_single.2 hrc.1⟩
      have hmoved : rs.headD 0 = nodeSize h c0 := by rw [hrs]; rfl
      refine ⟨⟨hl', ?_⟩, ⟨hrc.2, ?_⟩, ?_, ?_, ?_⟩
      · have hmoved' : rs.head?.getD 0 = nodeSize h c0 := by rw [hrs]; rfl
        simp [hls, hmoved']
      · rw [hrs]; simp
      · show flat h (lc ++ [c0]) ++ flat h rcs = flat h lc ++ flat h (c0 :: rcs)
        simp
      · show (ls ++ [rs.headD 0]).sum = ls.sum + rs.headD 0
        simp
      · show (rs.drop 1).sum = rs.sum - rs.headD 0
        rw [hrs]; simp

/-- `merge`, node level. -/
theorem mergeNodes_ok : ∀ (h : Nat) (sep : Key) (l r : Node h) (lo hi : Option Key),
    Ord h l lo (some sep) → Ord h r (some sep) hi →
    Ord h (mergeNodes h sep l r) lo hi ∧ abs h (mergeNodes h sep l r) = abs h l ++ abs h r ∧
    nodeSize h (mergeNodes h sep l r) = nodeSize h l + nodeSize h r
  | 0, sep, l, r, lo, hi, hl, hr => by
    obtain ⟨L⟩ := l
    obtain ⟨R⟩ := r
    exact ⟨leafOrd_merge hl hr, rfl, by simp [mergeNodes, nodeSize]⟩
  | h + 1, sep, l, r, lo, hi, hl, hr => by
    obtain ⟨lk, lc, ls⟩ := (l : Inner (Node h))
    obtain ⟨rk, rc, rs⟩ := (r : Inner (Node h))
    obtain ⟨hlc, hls⟩ := hl
    obtain ⟨hrc, hrs⟩ := hr
    simp only at hlc hls hrc hrs
    refine ⟨⟨(chain_append hlc.length_eq).2 ⟨hlc, hrc⟩, ?_⟩, ?_, ?_⟩
    · simp [mergeNodes, hls, hrs]
    · show flat h (lc ++ rc) = flat h lc ++ flat h rc
      simp
    · show (ls ++ rs).sum = ls.sum + rs.sum
      simp

/-! ### parent level -/

/-- an inner node focused at two adjacent children and the separator between them. -/
theorem pair_focus {h : Nat} {keys : List Key} {kids : List (Node h)} {lo hi : Option Key} {idx : Nat}
    (hch : Chain (Ord h) keys kids lo hi) (hidx : idx < keys.length) :
    ∃ K1 k K2 C1 a b C2, keys = K1 ++ k :: K2 ∧ kids = C1 ++ a :: b :: C2 ∧
      K1.length = idx ∧ C1.length = idx ∧
      Pre (Ord h) K1 C1 lo ∧ Ord h a (lastOr lo K1) (some k) ∧ Ord h b (some k) (headOr hi K2) ∧
      Post (Ord h) K2 C2 hi := by
  have hlen := hch.length_eq
  obtain ⟨K1, k, K2, rfl, hK1⟩ : ∃ K1 k K2, keys = K1 ++ k :: K2 ∧ K1.length = idx :=
    ⟨keys.take idx, keys[idx], keys.drop (idx + 1), split_at keys idx hidx,
      by simp only [List.length_take]; omega⟩
  obtain ⟨C1, a, b, C2, rfl, hC1⟩ : ∃ C1 a b C2, kids = C1 ++ a :: b :: C2 ∧ C1.length = idx := by
    refine ⟨kids.take idx, kids[idx]'(by simp at hlen; omega), kids[idx + 1]'(by simp at hlen; omega),
      kids.drop (idx + 2), ?_, by simp only [List.length_take]; simp at hlen; omega⟩
    have h1 := split_at kids idx (by simp at hlen; omega)
    have h2 : kids.drop (idx + 1) = kids[idx + 1]'(by simp at hlen; omega) :: kids.drop (idx + 2) :=
      (List.getElem_cons_drop (h := by simp at hlen; omega)).symm
    rw [h2] at h1
    exact h1
  obtain ⟨hpre, ⟨ha, hb⟩, hpost⟩ := (chain_focus2 (by omega)).1 hch
  exact ⟨K1, k, K2, C1, a, b, C2, rfl, rfl, hK1, hC1, hpre, ha, hb, hpost⟩

theorem sizes_pair {h : Nat} (C1 C2 : List (Node h)) (a b : Node h) :
    (C1 ++ a :: b :: C2).map (nodeSize h) =
      C1.map (nodeSize h) ++ nodeSize h a :: nodeSize h b :: C2.map (nodeSize h) := by simp

theorem redistributeRight_ok {h : Nat} (p : Inner (Node h)) (idx : Nat) (lo hi : Option Key)
    (hp : Ord (h + 1) p lo hi) :
    Ord (h + 1) (redistributeRight p idx) lo hi ∧ abs (h + 1) (redistributeRight p idx) = abs (h + 1) p := by
  obtain ⟨keys, kids, sizes⟩ := p
  obtain ⟨hch, hsz⟩ := hp
  simp only at hch hsz
  by_cases hidx : idx < keys.length
  · obtain ⟨K1, k, K2, C1, a, b, C2, rfl, rfl, hK1, hC1, hpre, ha, hb, hpost⟩ := pair_focus hch hidx
    have hS1 : (C1.map (nodeSize h)).length = idx := by simpa using hC1
    simp only [redistributeRight]
    rw [getElem?_mid hC1, getElem?_mid2 hC1, getElem?_mid hK1]
    simp only
    obtain ⟨o1, o2, oabs, os1, os2⟩ := shiftRight_ok h k a b _ _ ha hb
    generalize shiftRight h k a b = res at o1 o2 oabs os1 os2
    obtain ⟨l', r', sep', moved⟩ := res
    simp only at o1 o2 oabs os1 os2 ⊢
    rw [set_mid hK1, set_mid hC1, set_mid2 hC1]
    refine ⟨⟨(chain_focus2 (by omega)).2 ⟨hpre, ⟨o1, o2⟩, hpost⟩, ?_⟩, ?_⟩
    · show (sizes.set idx (sizes.getD idx 0 - moved)).set (idx + 1) (sizes.getD (idx + 1) 0 + moved) = _
      rw [hsz, sizes_pair, sizes_pair, List.getD_eq_getElem?_getD, List.getD_eq_getElem?_getD,
        getElem?_mid hS1, getElem?_mid2 hS1, set_mid hS1, set_mid2 hS1, os1, os2]
      rfl
    · show flat h (C1 ++ l' :: r' :: C2) = flat h (C1 ++ a :: b :: C2)
      simp only [flat_append, flat_cons]
      rw [← List.append_assoc (abs h l'), oabs, List.append_assoc]
  · have : keys[idx]? = none := List.getElem?_eq_none (by omega)
    have hid : redistributeRight (⟨keys, kids, sizes⟩ : Inner (Node h)) idx = ⟨keys, kids, sizes⟩ := by
      simp only [redistributeRight, this]
      split
      · simp_all
      · rfl
    rw [hid]
    exact ⟨⟨hch, hsz⟩, rfl⟩

theorem redistributeLeft_ok {h : Nat} (p : Inner (Node h)) (idx : Nat) (lo hi : Option Key)
    (hp : Ord (h + 1) p lo hi)
    (h2 : h = 0 → ∀ r, p.kids[idx + 1]? = some r → 2 ≤ (abs h r).length) :
    Ord (h + 1) (redistributeLeft p idx) lo hi ∧ abs (h + 1) (redistributeLeft p idx) = abs (h + 1) p := by
  obtain ⟨keys, kids, sizes⟩ := p
  obtain ⟨hch, hsz⟩ := hp
  simp only at hch hsz h2
  by_cases hidx : idx < keys.length
  · obtain ⟨K1, k, K2, C1, a, b, C2, rfl, rfl, hK1, hC1, hpre, ha, hb, hpost⟩ := pair_focus hch hidx
    have hS1 : (C1.map (nodeSize h)).length = idx := by simpa using hC1
    simp only [redistributeLeft]
    rw [getElem?_mid hC1, getElem?_mid2 hC1, getElem?_mid hK1]
    simp only
    obtain ⟨o1, o2, oabs, os1, os2⟩ := shiftLeft_ok h k a b _ _ ha hb
      (fun h0 => h2 h0 b (getElem?_mid2 hC1))
    generalize shiftLeft h k a b = res at o1 o2 oabs os1 os2
    obtain ⟨l', r', sep', moved⟩ := res
    simp only at o1 o2 oabs os1 os2 ⊢
    rw [set_mid hK1, set_mid hC1, set_mid2 hC1]
    refine ⟨⟨(chain_focus2 (by omega)).2 ⟨hpre, ⟨o1, o2⟩, hpost⟩, ?_⟩, ?_⟩
    · show (sizes.set idx (sizes.getD idx 0 + moved)).set (idx + 1) (sizes.getD (idx + 1) 0 - moved) = _
      rw [hsz, sizes_pair, sizes_pair, List.getD_eq_getElem?_getD, List.getD_eq_getElem?_getD,
        getElem?_mid hS1, getElem?_mid2 hS1, set_mid hS1, set_mid2 hS1, os1, os2]
      rfl
    · show flat h (C1 ++ l' :: r' :: C2) = flat h (C1 ++ a :: b :: C2)
      simp only [flat_append, flat_cons]
      rw [← List.append_assoc (abs h l'), oabs, List.append_assoc]
  · have : keys[idx]? = none := List.getElem?_eq_none (by omega)
    have hid : redistributeLeft (⟨keys, kids, sizes⟩ : Inner (Node h)) idx = ⟨keys, kids, sizes⟩ := by
      simp only [redistributeLeft, this]
      split
      · simp_all
      · rfl
    rw [hid]
    exact ⟨⟨hch, hsz⟩, rfl⟩

theorem mergeAt_ok {h : Nat} (p : Inner (Node h)) (idx : Nat) (lo hi : Option Key)
    (hp : Ord (h + 1) p lo hi) :
    Ord (h + 1) (mergeAt p idx) lo hi ∧ abs (h + 1) (mergeAt p idx) = abs (h + 1) p := by
  obtain ⟨keys, kids, sizes⟩ := p
  obtain ⟨hch, hsz⟩ := hp
  simp only at hch hsz
  by_cases hidx : idx < keys.length
  · obtain ⟨K1, k, K2, C1, a, b, C2, rfl, rfl, hK1, hC1, hpre, ha, hb, hpost⟩ := pair_focus hch hidx
    have hS1 : (C1.map (nodeSize h)).length = idx := by simpa using hC1
    simp only [mergeAt]
    rw [getElem?_mid hC1, getElem?_mid2 hC1, getElem?_mid hK1]
    simp only
    obtain ⟨om, oabs, osz⟩ := mergeNodes_ok h k a b _ _ ha hb
    rw [eraseIdx_mid hK1, set_mid hC1, eraseIdx_mid2 hC1]
    refine ⟨⟨(chain_focus (by omega)).2 ⟨hpre, om, hpost⟩, ?_⟩, ?_⟩
    · show (sizes.set idx (sizes.getD idx 0 + sizes.getD (idx + 1) 0)).eraseIdx (idx + 1) = _
      rw [hsz, sizes_pair, List.getD_eq_getElem?_getD, List.getD_eq_getElem?_getD,
        getElem?_mid hS1, getElem?_mid2 hS1, set_mid hS1, eraseIdx_mid2 hS1, map_sizes_mid, osz]
      rfl
    · show flat h (C1 ++ mergeNodes h k a b :: C2) = flat h (C1 ++ a :: b :: C2)
      simp only [flat_append, flat_cons]
      rw [oabs, List.append_assoc]
  · have : keys[idx]? = none := List.getElem?_eq_none (by omega)
    have hid : mergeAt (⟨keys, kids, sizes⟩ : Inner (Node h)) idx = ⟨keys, kids, sizes⟩ := by
      simp only [mergeAt, this]
      split
      · simp_all
      · rfl
    rw [hid]
    exact ⟨⟨hch, hsz⟩, rfl⟩

theorem canSpare_leaf_two {B : Nat} (hB : 2 ≤ B) {r : Node 0} (h : canSpare B 0 r = true) :
    2 ≤ (abs 0 r).length := by
  have : minKeys B < (r : Leaf).es.length := by simpa [canSpare] using h
  have hm : 1 ≤ minKeys B := by simp only [minKeys]; omega
  show 2 ≤ (r : Leaf).es.length
  omega

/-- `fixUnderflow` neither changes the contents nor breaks the search order. -/
theorem fixUnderflow_ok {B : Nat} (hB : 2 ≤ B) {h : Nat} (p : Inner (Node h)) (i : Nat)
    (lo hi : Option Key) (hp : Ord (h + 1) p lo hi) :
    Ord (h + 1) (fixUnderflow B p i).1 lo hi ∧ abs (h + 1) (fixUnderflow B p i).1 = abs (h + 1) p := by
  unfold fixUnderflow
  by_cases h1 : (decide (i > 0) && spareAt B p (i - 1)) = true
  · rw [if_pos h1]
    exact redistributeRight_ok p (i - 1) lo hi hp
  · rw [if_neg h1]
    by_cases h2 : (decide (i < p.keys.length) && spareAt B p (i + 1)) = true
    · rw [if_pos h2]
      refine redistributeLeft_ok p i lo hi hp ?_
      intro h0 r hr'
      subst h0
      simp only [Bool.and_eq_true, decide_eq_true_eq, spareAt, hr'] at h2
      exact canSpare_leaf_two hB h2.2
    · rw [if_neg h2]
      by_cases h3 : i > 0
      · rw [if_pos h3]; exact mergeAt_ok p (i - 1) lo hi hp
      · rw [if_neg h3]; exact mergeAt_ok p i lo hi hp

/-- the parent after `setChild` + `childSizes[i]--`, before any underflow repair. -/
def innerN1 {h : Nat} (n : Inner (Node h)) (i : Nat) (r : RemRes (Node h)) : Inner (Node h) :=
  ⟨n.keys, n.kids.set i r.node, n.sizes.set i (n.sizes.getD i 0 - 1)⟩

theorem innerAfterRemove_nounder {B h : Nat} (n : Inner (Node h)) (i : Nat) {r : RemRes (Node h)}
    (hu : r.underflow = false) :
    innerAfterRemove B n i r = ⟨innerN1 n i r, true, r.old, false⟩ := by
  simp [innerAfterRemove, innerN1, hu]

theorem innerAfterRemove_under {B h : Nat} (n : Inner (Node h)) (i : Nat) {r : RemRes (Node h)}
    (hu : r.underflow = true) :
    innerAfterRemove B n i r =
      ⟨(fixUnderflow B (innerN1 n i r) i).1, true, r.old,
        (fixUnderflow B (innerN1 n i r) i).2 &&
          decide ((fixUnderflow B (innerN1 n i r) i).1.keys.length + 1 < minKeys B)⟩ := by
  simp [innerAfterRemove, innerN1, hu]

theorem nodeRemove_succ_found {B h : Nat} {n : Inner (Node h)} {key : Key} {c : Node h}
    (hc : n.kids[searchInner n.keys key]? = some c) (hf : (nodeRemove B h c key).found = true) :
    nodeRemove B (h + 1) n key = innerAfterRemove B n (searchInner n.keys key) (nodeRemove B h c key) := by
  simp [nodeRemove, hc, hf] <;> rfl

theorem nodeRemove_succ_notfound {B h : Nat} {n : Inner (Node h)} {key : Key} {c : Node h}
    (hc : n.kids[searchInner n.keys key]? = some c) (hf : (nodeRemove B h c key).found = false) :
    nodeRemove B (h + 1) n key = ⟨n, false, [], false⟩ := by
  simp [nodeRemove, hc, hf] <;> rfl

theorem innerN1_ok {h : Nat} {K1 K2 : List Key} {C1 C2 : List (Node h)}
    {c : Node h} {sizes : List Nat} {lo hi : Option Key} {key : Key} {i : Nat} {r : RemRes (Node h)}
    (hpre : Pre (Ord h) K1 C1 lo) (hpost : Post (Ord h) K2 C2 hi)
    (hK1 : ∀ x ∈ K1, x ≤ key) (hK2 : ∀ x ∈ K2, key < x)
    (hc : Ord h c (lastOr lo K1) (headOr hi K2))
    (hr : RemOk h c r (lastOr lo K1) (headOr hi K2) key) (hfound : r.found = true)
    (hCi : C1.length = i) (hKi : K1.length = i)
    (hsz : sizes = (C1 ++ c :: C2).map (nodeSize h)) :
    Ord (h + 1) (innerN1 (⟨K1 ++ K2, C1 ++ c :: C2, sizes⟩ : Inner (Node h)) i r) lo hi ∧
    abs (h + 1) (innerN1 (⟨K1 ++ K2, C1 ++ c :: C2, sizes⟩ : Inner (Node h)) i r) =
      OMap.del (abs (h + 1) (⟨K1 ++ K2, C1 ++ c :: C2, sizes⟩ : Inner (Node h))) key ∧
    OMap.get (abs (h + 1) (⟨K1 ++ K2, C1 ++ c :: C2, sizes⟩ : Inner (Node h))) key = some r.old := by
  have hCK : C1.length = K1.length := by omega
  have hlt := pre_lt hpre hK1
  have hgt := post_gt hpost hK2
  simp only [RemOk, hfound, if_true] at hr
  obtain ⟨hget, hord, habsr⟩ := hr
  have hM1 : (C1.map (nodeSize h)).length = i := by simpa using hCi
  refine ⟨⟨?_, ?_⟩, ?_, ?_⟩
  · show Chain (Ord h) (K1 ++ K2) ((C1 ++ c :: C2).set i r.node) lo hi
    rw [set_mid hCi]
    exact (chain_focus hCK).2 ⟨hpre, hord, hpost⟩
  · show sizes.set i (sizes.getD i 0 - 1) = ((C1 ++ c :: C2).set i r.node).map (nodeSize h)
    rw [set_mid hCi, map_sizes_mid, hsz, map_sizes_mid, List.getD_eq_getElem?_getD,
      getElem?_mid hM1, set_mid hM1]
    have : nodeSize h r.node = nodeSize h c - 1 := by
      rw [hord.size_eq, habsr, odel_length hc.sorted, hget, hc.size_eq]; rfl
    rw [this]; rfl
  · rw [abs_succ, abs_succ]
    show flat h ((C1 ++ c :: C2).set i r.node) = OMap.del (flat h (C1 ++ c :: C2)) key
    rw [set_mid hCi]
    simp only [flat_append, flat_cons]
    rw [odel_append, odel_append, odel_all_ne (fun x hx => Lex.ne_of_lt (hlt x hx)),
      odel_all_ne (fun x hx => (Lex.ne_of_lt (hgt x hx)).symm), habsr]
  · rw [abs_succ]
    show OMap.get (flat h (C1 ++ c :: C2)) key = _
    simp only [flat_append, flat_cons]
    rw [oget_append_lt hlt, oget_append_gt hgt, hget]

theorem innerAfterRemove_ok {B : Nat} (hB : 2 ≤ B) {h : Nat} {K1 K2 : List Key} {C1 C2 : List (Node h)}
    {c : Node h} {sizes : List Nat} {lo hi : Option Key} {key : Key} {i : Nat} {r : RemRes (Node h)}
    (hpre : Pre (Ord h) K1 C1 lo) (hpost : Post (Ord h) K2 C2 hi)
    (hK1 : ∀ x ∈ K1, x ≤ key) (hK2 : ∀ x ∈ K2, key < x)
    (hc : Ord h c (lastOr lo K1) (headOr hi K2))
    (hr : RemOk h c r (lastOr lo K1) (headOr hi K2) key) (hfound : r.found = true)
    (hCi : C1.length = i) (hKi : K1.length = i)
    (hsz : sizes = (C1 ++ c :: C2).map (nodeSize h)) :
    RemOk (h + 1) (⟨K1 ++ K2, C1 ++ c :: C2, sizes⟩ : Inner (Node h))
      (innerAfterRemove B (⟨K1 ++ K2, C1 ++ c :: C2, sizes⟩ : Inner (Node h)) i r) lo hi key := by
  obtain ⟨hn1, habs1, hget1⟩ := innerN1_ok hpre hpost hK1 hK2 hc hr hfound hCi hKi hsz
  unfold RemOk innerAfterRemove
  by_cases hu : r.underflow = true
  · simp only [hu, Bool.not_true, Bool.false_eq_true, if_false]
    obtain ⟨o1, o2⟩ := fixUnderflow_ok hB _ i lo hi hn1
    simp only [innerN1] at o1 o2
    generalize fixUnderflow B _ i = res at o1 o2
    obtain ⟨n2, merged⟩ := res
    simp only at o1 o2 ⊢
    exact ⟨hget1, o1, o2.trans habs1⟩
  · simp only [hu, Bool.not_false, if_true]
    exact ⟨hget1, hn1, habs1⟩

/-- `nodeRemove` refines `OMap.del` and preserves the search order. -/
theorem nodeRemove_ok {B : Nat} (hB : 2 ≤ B) : ∀ (h : Nat) (c : Node h) (lo hi : Option Key) (key : Key),
    Ord h c lo hi → lbOk lo key → ubOk hi key → RemOk h c (nodeRemove B h c key) lo hi key
  | 0, l, lo, hi, key, hord, _, _ => leafRemove_ok B hord key
  | h + 1, n, lo, hi, key, hord, hlo, hhi => by
    obtain ⟨keys, kids, sizes⟩ := (n : Inner (Node h))
    obtain ⟨hch, hsz⟩ := hord
    simp only at hch hsz
    obtain ⟨K1, K2, C1, c, C2, rfl, rfl, hK1, hC1, hKL, hKR, hpre, hc, hpost, hlo', hhi'⟩ :=
      inner_focus hch hlo hhi
    simp only [nodeRemove]
    rw [getElem?_mid hC1]
    simp only
    have ih := nodeRemove_ok hB h c _ _ key hc hlo' hhi'
    by_cases hf : (nodeRemove B h c key).found = true
    · simp only [hf, Bool.not_true, Bool.false_eq_true, if_false]
      exact innerAfterRemove_ok hB hpre hpost hKL hKR hc ih hf hC1 hK1 hsz
    · simp only [hf, Bool.not_false, if_true]
      simp only [RemOk, hf, Bool.false_eq_true, if_false] at ih ⊢
      rw [abs_succ]
      show OMap.get (flat h (C1 ++ c :: C2)) key = none
      simp only [flat_append, flat_cons]
      rw [oget_append_lt (pre_lt hpre hKL), oget_append_gt (post_gt hpost hKR), ih]

/-- `treeRemove` refines `OMap.del`: `(tree, old value, found)`. -/
theorem treeRemove_ok {B : Nat} (hB : 2 ≤ B) (t : Tree) (ht : t.OrdOk) (key : Key) :
    (treeRemove B t key).1.OrdOk ∧
    (treeRemove B t key).1.abs = OMap.del t.abs key ∧
    (if (treeRemove B t key).2.2 = true then OMap.get t.abs key = some (treeRemove B t key).2.1
     else OMap.get t.abs key = none) := by
  cases t with
  | empty => exact ⟨trivial, rfl, rfl⟩
  | node h root =>
    simp only [Tree.abs_node]
    cases h with
    | zero =>
      have hr := leafRemove_ok B ht key
      simp only [treeRemove]
      by_cases hf : (leafRemove B root key).found = true
      · simp only [RemOk, hf, if_true] at hr
        obtain ⟨hget, hord, habs⟩ := hr
        simp only [hf, Bool.not_true, Bool.false_eq_true, if_false]
        split
        · rename_i hlen
          refine ⟨trivial, ?_, by simpa using hget⟩
          have : (leafRemove B root key).node.es = [] := List.eq_nil_of_length_eq_zero hlen
          show [] = OMap.del (abs 0 root) key
          rw [← habs]; exact this.symm
        · exact ⟨hord, habs, by simpa using hget⟩
      · simp only [RemOk, hf, Bool.false_eq_true, if_false] at hr
        simp only [hf, Bool.not_false, if_true]
        refine ⟨ht, ?_, by simpa using hr⟩
        show abs 0 root = OMap.del (abs 0 root) key
        rw [odel_all_ne]
        intro x hx heq
        have := OMap.get_eq_none_iff.1 hr x hx
        exact this heq
    | succ h =>
      have hr := nodeRemove_ok hB (h + 1) root none none key ht trivial trivial
      simp only [treeRemove]
      by_cases hf : (nodeRemove B (h + 1) root key).found = true
      · simp only [RemOk, hf, if_true] at hr
        obtain ⟨hget, hord, habs⟩ := hr
        simp only [hf, Bool.not_true, Bool.false_eq_true, if_false]
        generalize (nodeRemove B (h + 1) root key).node = n at hord habs
        obtain ⟨keys, kids, sizes⟩ := (n : Inner (Node h))
        split
        · rename_i hlen
          have hk : keys = [] := List.eq_nil_of_length_eq_zero hlen
          subst hk
          obtain ⟨hch, _⟩ := hord
          match kids, hch with
          | [c], hch =>
            refine ⟨hch, ?_, by simpa using hget⟩
            show abs h c = _
            rw [← habs]
            show abs h c = flat h [c]
            simp
        · exact ⟨hord, habs, by simpa using hget⟩
      · simp only [RemOk, hf, Bool.false_eq_true, if_false] at hr
        simp only [hf, Bool.not_false, if_true]
        refine ⟨ht, ?_, by simpa using hr⟩
        show abs (h + 1) root = OMap.del (abs (h + 1) root) key
        rw [odel_all_ne]
        intro x hx heq
        exact OMap.get_eq_none_iff.1 hr x hx heq

end GnoVerif.C23
