import GnoVerif.Proofs.C06Closure
/-!
C06 — the mark invariants that `DidUpdate` maintains for the finalizer
(`PreFinal`): referenced objects without id are marked new-real, only real
objects are marked new-deleted.
-/
namespace GnoVerif.C06
open State

/-- the part of `PreFinal` that is about the mark lists of realm `r` -/
structure MarkInv (s : State) (r : Nat) : Prop where
  realm : r < s.marks.length
  flag_listed : ∀ x, (s.get x).newReal = true → x ∈ (s.marksOf r).newCreated
  unreal_marked : ∀ x, s.isReal x = false → (s.get x).rc ≥ 1 → x ∈ (s.marksOf r).newCreated
  deleted_real : ∀ a ∈ (s.marksOf r).newDeleted, s.isReal a = true
  created_in_range : ∀ a ∈ (s.marksOf r).newCreated, a < s.heap.length

@[simp] theorem marks_length_modMarks (s : State) (r : Nat) (f : Marks → Marks) :
    (s.modMarks r f).marks.length = s.marks.length := by simp [State.modMarks]

theorem marksOf_modMarks_lt (s : State) (r : Nat) (f : Marks → Marks) (h : r < s.marks.length) :
    (s.modMarks r f).marksOf r = f (s.marksOf r) := by
  rw [marksOf_modMarks]; simp [h]

@[simp] theorem marksOf_modify (s : State) (a r : Nat) (f : Obj → Obj) : (s.modify a f).marksOf r = s.marksOf r := rfl

/-- a step that only changes flags other than `newReal`, appends to lists other than
    `newCreated`/`newDeleted`, keeps ids and counts -/
structure Quiet (s s' : State) (r : Nat) : Prop where
  core : SameCore s s'
  marksLen : s'.marks.length = s.marks.length
  newReal : ∀ x, (s'.get x).newReal = (s.get x).newReal
  newCreated : (s'.marksOf r).newCreated = (s.marksOf r).newCreated
  newDeleted : (s'.marksOf r).newDeleted = (s.marksOf r).newDeleted

theorem Quiet.refl (s : State) (r : Nat) : Quiet s s r := ⟨SameCore.refl s, rfl, fun _ => rfl, rfl, rfl⟩

theorem Quiet.trans {s1 s2 s3 : State} {r : Nat} (h1 : Quiet s1 s2 r) (h2 : Quiet s2 s3 r) : Quiet s1 s3 r :=
  ⟨h1.core.trans h2.core, h2.marksLen.trans h1.marksLen, fun x => (h2.newReal x).trans (h1.newReal x),
   h2.newCreated.trans h1.newCreated, h2.newDeleted.trans h1.newDeleted⟩

theorem Quiet.markInv {s s' : State} {r : Nat} (h : Quiet s s' r) (m : MarkInv s r) : MarkInv s' r := by
  refine ⟨by rw [h.marksLen]; exact m.realm, fun x hx => ?_, fun x hu hr => ?_, fun a ha => ?_, fun a ha => ?_⟩
  · rw [h.newCreated]; exact m.flag_listed x (by rw [← h.newReal]; exact hx)
  · rw [h.newCreated]
    exact m.unreal_marked x (by rw [← h.core.isReal]; exact hu) (by rw [← h.core.rc]; exact hr)
  · rw [h.core.isReal]; exact m.deleted_real a (by rw [← h.newDeleted]; exact ha)
  · rw [h.core.1]; exact m.created_in_range a (by rw [← h.newCreated]; exact ha)

theorem get_newReal_modify (s : State) (a : Nat) (f : Obj → Obj) (hf : ∀ o, (f o).newReal = o.newReal) (x : Nat) :
    ((s.modify a f).get x).newReal = (s.get x).newReal := by
  rw [get_modify]
  split
  · rename_i h; rw [h.1]; exact hf _
  · rfl

theorem quiet_markDirty (s : State) (r a : Nat) (hr : r < s.marks.length) : Quiet s (markDirty s r a) r := by
  unfold markDirty
  split
  · exact Quiet.refl s r
  · split
    · exact Quiet.refl s r
    · refine ⟨(sameCore_modify s a _ (by intro o; rfl)).trans (sameCore_modMarks _ r _), by simp, fun x => ?_, ?_, ?_⟩
      · rw [get_modMarks]
        exact get_newReal_modify s a (fun o => { o with dirty := true }) (by intro o; rfl) x
      · rw [marksOf_modMarks_lt _ _ _ (by simpa using hr)]; rfl
      · rw [marksOf_modMarks_lt _ _ _ (by simpa using hr)]; rfl

theorem quiet_markNewEscaped (s : State) (r a : Nat) (hr : r < s.marks.length) : Quiet s (markNewEscaped s r a) r := by
  unfold markNewEscaped
  split
  · exact Quiet.refl s r
  · refine ⟨(sameCore_modify s a _ (by intro o; rfl)).trans (sameCore_modMarks _ r _), by simp, fun x => ?_, ?_, ?_⟩
    · rw [get_modMarks]
      exact get_newReal_modify s a (fun o => { o with newEscaped := true }) (by intro o; rfl) x
    · rw [marksOf_modMarks_lt _ _ _ (by simpa using hr)]; rfl
    · rw [marksOf_modMarks_lt _ _ _ (by simpa using hr)]; rfl

theorem quiet_setOwner (s : State) (r a : Nat) (p : Option Nat) : Quiet s (setOwner s a p) r :=
  ⟨sameCore_setOwner s a p, rfl, get_newReal_modify s a _ (by intro o; rfl), rfl, rfl⟩

/-- `MarkNewReal(c)` for an object without id -/
theorem markInv_markNewReal (s : State) (r c : Nat) (m : MarkInv s r) (hc : c < s.heap.length) :
    MarkInv (markNewReal s r c) r ∧ c ∈ ((markNewReal s r c).marksOf r).newCreated := by
  unfold markNewReal
  split
  · rename_i hflag
    exact ⟨m, m.flag_listed c hflag⟩
  · have hm : ((s.modify c fun o => { o with newReal := true }).modMarks r fun mk =>
        { mk with newCreated := mk.newCreated ++ [c] }).marksOf r =
        { s.marksOf r with newCreated := (s.marksOf r).newCreated ++ [c] } := by
      rw [marksOf_modMarks_lt _ _ _ (by simpa using m.realm)]; rfl
    have sc : SameCore s ((s.modify c fun o => { o with newReal := true }).modMarks r fun mk =>
        { mk with newCreated := mk.newCreated ++ [c] }) :=
      (sameCore_modify s c _ (by intro o; rfl)).trans (sameCore_modMarks _ r _)
    refine ⟨⟨by simpa using m.realm, fun x hx => ?_, fun x hu hr => ?_, fun a ha => ?_, fun a ha => ?_⟩, ?_⟩
    · rw [hm]
      simp only [List.mem_append, List.mem_singleton]
      by_cases hxc : x = c
      · right; exact hxc
      · left
        apply m.flag_listed x
        have : ((s.modify c fun o => { o with newReal := true }).get x).newReal = (s.get x).newReal := by
          rw [get_modify_ne _ _ _ _ hxc]
        rw [← this]; exact hx
    · rw [hm]
      simp only [List.mem_append, List.mem_singleton]
      left
      exact m.unreal_marked x (by rw [← sc.isReal]; exact hu) (by rw [← sc.rc]; exact hr)
    · rw [sc.isReal]
      apply m.deleted_real a
      rw [hm] at ha; exact ha
    · rw [sc.1]
      rw [hm] at ha
      simp only [List.mem_append, List.mem_singleton] at ha
      rcases ha with h | h
      · exact m.created_in_range a h
      · rw [h]; exact hc
    · rw [hm]; simp

/-- `MarkNewDeleted(x)` for a real object -/
theorem markInv_markNewDeleted (s : State) (r x : Nat) (m : MarkInv s r) (hreal : s.isReal x = true) :
    MarkInv (markNewDeleted s r x) r := by
  unfold markNewDeleted
  split
  · exact m
  · have hm : ((s.modify x fun o => { o with newDeleted := true }).modMarks r fun mk =>
        { mk with newDeleted := mk.newDeleted ++ [x] }).marksOf r =
        { s.marksOf r with newDeleted := (s.marksOf r).newDeleted ++ [x] } := by
      rw [marksOf_modMarks_lt _ _ _ (by simpa using m.realm)]; rfl
    have sc : SameCore s ((s.modify x fun o => { o with newDeleted := true }).modMarks r fun mk =>
        { mk with newDeleted := mk.newDeleted ++ [x] }) :=
      (sameCore_modify s x _ (by intro o; rfl)).trans (sameCore_modMarks _ r _)
    refine ⟨by simpa using m.realm, fun y hy => ?_, fun y hu hr => ?_, fun a ha => ?_, fun a ha => ?_⟩
    · rw [hm]
      apply m.flag_listed y
      have : ((s.modify x fun o => { o with newDeleted := true }).get y).newReal = (s.get y).newReal :=
        get_newReal_modify s x _ (by intro o; rfl) y
      rw [← this]; exact hy
    · rw [hm]
      exact m.unreal_marked y (by rw [← sc.isReal]; exact hu) (by rw [← sc.rc]; exact hr)
    · rw [sc.isReal]
      rw [hm] at ha
      simp only [List.mem_append, List.mem_singleton] at ha
      rcases ha with h | h
      · exact m.deleted_real a h
      · rw [h]; exact hreal
    · rw [sc.1]
      rw [hm] at ha
      exact m.created_in_range a ha

/-- an increment of `c` keeps the invariant once `c`, if unreal, is listed -/
theorem markInv_incRc_listed (s : State) (r c : Nat) (m : MarkInv s r)
    (hl : s.isReal c = false → c ∈ (s.marksOf r).newCreated) : MarkInv (incRc s c) r := by
  refine ⟨m.realm, fun x hx => ?_, fun x hu hr => ?_, fun a ha => ?_, fun a ha => ?_⟩
  · apply m.flag_listed x
    have : ((incRc s c).get x).newReal = (s.get x).newReal := get_newReal_modify s c _ (by intro o; rfl) x
    rw [← this]; exact hx
  · rw [isReal_incRc] at hu
    by_cases hxc : x = c
    · rw [hxc]; exact hl (by rw [← hxc]; exact hu)
    · have : ((incRc s c).get x).rc = (s.get x).rc := by rw [get_incRc]; simp [hxc]
      rw [this] at hr
      exact m.unreal_marked x hu hr
  · rw [isReal_incRc]; exact m.deleted_real a ha
  · rw [show (incRc s c).heap.length = s.heap.length from length_modify _ _ _]; exact m.created_in_range a ha

theorem markInv_decRc (s : State) (r c : Nat) (m : MarkInv s r) : MarkInv (decRc s c) r := by
  have hreal : ∀ x, (decRc s c).isReal x = s.isReal x := isReal_modify_rc s c (· - 1)
  refine ⟨m.realm, fun x hx => ?_, fun x hu hr => ?_, fun a ha => ?_, fun a ha => ?_⟩
  · apply m.flag_listed x
    have : ((decRc s c).get x).newReal = (s.get x).newReal := get_newReal_modify s c _ (by intro o; rfl) x
    rw [← this]; exact hx
  · rw [hreal] at hu
    apply m.unreal_marked x hu
    have : ((decRc s c).get x).rc ≤ (s.get x).rc := by
      show ((s.modify c fun o => { o with rc := o.rc - 1 }).get x).rc ≤ _
      rw [get_modify]
      split
      · rename_i h; rw [h.1]; show (s.get c).rc - 1 ≤ _; omega
      · exact Int.le_refl _
    omega
  · rw [hreal]; exact m.deleted_real a ha
  · rw [show (decRc s c).heap.length = s.heap.length from length_modify _ _ _]; exact m.created_in_range a ha

theorem markInv_didUpdateCo (s : State) (r po c : Nat) (m : MarkInv s r) (hc : c < s.heap.length) :
    MarkInv (didUpdateCo s r po c) r := by
  -- do the marking "first" is not what the code does; follow the code: increment, then mark
  unfold didUpdateCo
  simp only []
  -- after the increment the invariant may be broken at c only; carry the weaker fact through the quiet steps
  have hl1 : (incRc s c).heap.length = s.heap.length := length_modify _ _ _
  have q1 : ∃ s1, s1 = (if ((incRc s c).get c).rc > 1 ∧ ¬ ((incRc s c).get c).escaped = true
      then markNewEscaped (incRc s c) r c else incRc s c) ∧ Quiet (incRc s c) s1 r := by
    refine ⟨_, rfl, ?_⟩
    split
    · exact quiet_markNewEscaped _ r c m.realm
    · exact Quiet.refl _ r
  obtain ⟨s1, hs1, q1⟩ := q1
  rw [← hs1]
  by_cases hreal : s.isReal c = true
  · -- real: the increment keeps the invariant outright
    have m1 : MarkInv (incRc s c) r := markInv_incRc_listed s r c m (fun h => by rw [hreal] at h; exact absurd h (by decide))
    have hr1 : s1.isReal c = true := by rw [q1.core.isReal, isReal_incRc]; exact hreal
    rw [if_pos hr1]
    exact (quiet_markDirty s1 r c (by rw [q1.marksLen]; exact m.realm)).markInv (q1.markInv m1)
  · have hu : s.isReal c = false := by simpa using hreal
    have hr1 : ¬ s1.isReal c = true := by rw [q1.core.isReal, isReal_incRc]; simpa using hu
    rw [if_neg hr1]
    -- swap: marking before incrementing gives the same state as the code's order up to the invariant;
    -- prove the invariant directly on the final state
    have q2 : Quiet (incRc s c) (setOwner s1 c (some po)) r := q1.trans (quiet_setOwner s1 r c (some po))
    generalize hs2 : setOwner s1 c (some po) = s2 at q2 ⊢
    have hlen2 : s2.heap.length = s.heap.length := q2.core.1.trans hl1
    -- the state s2 satisfies every clause except possibly "unreal c with rc ≥ 1 is listed"
    have weak : r < s2.marks.length ∧ (∀ x, (s2.get x).newReal = true → x ∈ (s2.marksOf r).newCreated) ∧
        (∀ x, x ≠ c → s2.isReal x = false → (s2.get x).rc ≥ 1 → x ∈ (s2.marksOf r).newCreated) ∧
        (∀ a ∈ (s2.marksOf r).newDeleted, s2.isReal a = true) ∧
        (∀ a ∈ (s2.marksOf r).newCreated, a < s2.heap.length) := by
      refine ⟨by rw [q2.marksLen]; exact m.realm, fun x hx => ?_, fun x hxc hu' hr' => ?_, fun a ha => ?_, fun a ha => ?_⟩
      · have e0 : (s2.marksOf r).newCreated = (s.marksOf r).newCreated := q2.newCreated
        rw [e0]
        apply m.flag_listed x
        have e1 : (s2.get x).newReal = ((incRc s c).get x).newReal := q2.newReal x
        have e2 : ((incRc s c).get x).newReal = (s.get x).newReal := get_newReal_modify s c _ (by intro o; rfl) x
        rw [← e2, ← e1]; exact hx
      · have e0 : (s2.marksOf r).newCreated = (s.marksOf r).newCreated := q2.newCreated
        rw [e0]
        rw [q2.core.isReal, isReal_incRc] at hu'
        rw [q2.core.rc] at hr'
        have : ((incRc s c).get x).rc = (s.get x).rc := by rw [get_incRc]; simp [hxc]
        rw [this] at hr'
        exact m.unreal_marked x hu' hr'
      · rw [q2.core.isReal, isReal_incRc]
        have e : (s2.marksOf r).newDeleted = (s.marksOf r).newDeleted := q2.newDeleted
        exact m.deleted_real a (by rw [← e]; exact ha)
      · rw [hlen2]
        have e : (s2.marksOf r).newCreated = (s.marksOf r).newCreated := q2.newCreated
        exact m.created_in_range a (by rw [← e]; exact ha)
    obtain ⟨w1, w2, w3, w4, w5⟩ := weak
    -- now MarkNewReal(c)
    unfold markNewReal
    split
    · rename_i hflag
      have hcl := w2 c hflag
      exact ⟨w1, w2, fun x hu' hr' => by
        by_cases hxc : x = c
        · rw [hxc]; exact hcl
        · exact w3 x hxc hu' hr', w4, w5⟩
    · have hm : ((s2.modify c fun o => { o with newReal := true }).modMarks r fun mk =>
          { mk with newCreated := mk.newCreated ++ [c] }).marksOf r =
          { s2.marksOf r with newCreated := (s2.marksOf r).newCreated ++ [c] } := by
        rw [marksOf_modMarks_lt _ _ _ (by simpa using w1)]; rfl
      have sc : SameCore s2 ((s2.modify c fun o => { o with newReal := true }).modMarks r fun mk =>
          { mk with newCreated := mk.newCreated ++ [c] }) :=
        (sameCore_modify s2 c _ (by intro o; rfl)).trans (sameCore_modMarks _ r _)
      refine ⟨by simpa using w1, fun x hx => ?_, fun x hu' hr' => ?_, fun a ha => ?_, fun a ha => ?_⟩
      · rw [hm]
        simp only [List.mem_append, List.mem_singleton]
        by_cases hxc : x = c
        · right; exact hxc
        · left
          apply w2 x
          have : ((s2.modify c fun o => { o with newReal := true }).get x).newReal = (s2.get x).newReal := by
            rw [get_modify_ne _ _ _ _ hxc]
          rw [← this]; exact hx
      · rw [hm]
        simp only [List.mem_append, List.mem_singleton]
        by_cases hxc : x = c
        · right; exact hxc
        · left
          exact w3 x hxc (by rw [← sc.isReal]; exact hu') (by rw [← sc.rc]; exact hr')
      · rw [sc.isReal]
        apply w4 a
        rw [hm] at ha; exact ha
      · rw [sc.1]
        rw [hm] at ha
        simp only [List.mem_append, List.mem_singleton] at ha
        rcases ha with h | h
        · exact w5 a h
        · rw [h, hlen2]; exact hc

theorem markInv_didUpdateXo (s : State) (r x : Nat) (m : MarkInv s r) : MarkInv (didUpdateXo s r x) r := by
  have m1 := markInv_decRc s r x m
  unfold didUpdateXo
  simp only []
  split
  · split
    · rename_i hreal
      exact markInv_markNewDeleted _ r x m1 hreal
    · exact m1
  · split
    · exact (quiet_markDirty _ r x m1.realm).markInv m1
    · exact m1

theorem markInv_didUpdate (s : State) (r po : Nat) (xo co : Option Nat) (m : MarkInv s r)
    (hco : ∀ c, co = some c → c < s.heap.length) : MarkInv (didUpdate s r po xo co) r := by
  by_cases hreal : s.isReal po = true
  · by_cases hp : (s.get po).pkg = r
    · have q0 := quiet_markDirty s r po m.realm
      have m0 := q0.markInv m
      cases co with
      | none =>
        cases xo with
        | none =>
          have e : didUpdate s r po none none = markDirty s r po := by simp [didUpdate, hreal, hp]
          rw [e]; exact m0
        | some x =>
          have e : didUpdate s r po (some x) none = didUpdateXo (markDirty s r po) r x := by
            simp [didUpdate, hreal, hp]
          rw [e]; exact markInv_didUpdateXo _ r x m0
      | some c =>
        have m1 := markInv_didUpdateCo _ r po c m0 (by rw [q0.core.1]; exact hco c rfl)
        cases xo with
        | none =>
          have e : didUpdate s r po none (some c) = didUpdateCo (markDirty s r po) r po c := by
            simp [didUpdate, hreal, hp]
          rw [e]; exact m1
        | some x =>
          have e : didUpdate s r po (some x) (some c) = didUpdateXo (didUpdateCo (markDirty s r po) r po c) r x := by
            simp [didUpdate, hreal, hp]
          rw [e]; exact markInv_didUpdateXo _ r x m1
    · have e : didUpdate s r po xo co = s.fail := by simp [didUpdate, hreal, hp]
      rw [e]
      exact ⟨m.realm, m.flag_listed, m.unreal_marked, m.deleted_real, m.created_in_range⟩
  · have hreal' : s.isReal po = false := by simpa using hreal
    have e : didUpdate s r po xo co = s := by simp [didUpdate, hreal']
    rw [e]; exact m

end GnoVerif.C06
