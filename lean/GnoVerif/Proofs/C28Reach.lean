import GnoVerif.Model.C28
import GnoVerif.Proofs.C28NonInt
import GnoVerif.Proofs.C28Inv
import GnoVerif.Proofs.C28Vers
import GnoVerif.Proofs.C28Refs
import GnoVerif.Proofs.C28Order
/-!
C28: reachability, the invariants on reachable states, the `SingleHeight` predicate, and the
concrete witness traces (each with the kernel-checked fact that the model accepts it).
-/
namespace GnoVerif.C28

/-- reachable from a fresh node by some interleaving. -/
def Reachable (s : State) : Prop :=
  ∃ (keepAll : Bool) (keep : Nat) (hasIavl : Bool) (tr : List Ev), run (State.init keepAll keep hasIavl) tr = some s

theorem reachable_inv (s : State) (hr : Reachable s) : Inv s := by
  rcases hr with ⟨a, k, b, tr, h⟩
  exact inv_run tr _ s (inv_init a k b) h

theorem reachable_cinv (s : State) (hr : Reachable s) : CInv s.cons := by
  rcases hr with ⟨a, k, b, tr, h⟩
  exact cinv_runC _ _ _ (cinv_init a k b) (run_cons_proj tr _ s h)

theorem reachable_rinv (s : State) (hr : Reachable s) : RInv s := by
  rcases hr with ⟨a, k, b, tr, h⟩
  exact rinv_run tr _ s (rinv_init a k b) h

theorem reachable_oinv (s : State) (hr : Reachable s) : OInv s := by
  rcases hr with ⟨a, k, b, tr, h⟩
  exact oinv_run tr _ s (rinv_init a k b) (oinv_init a k b) h

/-- all non-own reads of the query are the state of one committed height. -/
def SingleHeight (c : Cons) (q : Query) : Prop :=
  ∃ d ∈ c.hist, ∀ r ∈ q.reads, r.own = false → r.val = heightView d r.key

instance (c : Cons) (q : Query) : Decidable (SingleHeight c q) := by
  unfold SingleHeight; infer_instance

/-- The corpus witness `corpus/C28/commit-window.ops` (query 1) as a model trace: block 1 writes 1,
block 2 writes 2 into key 0 of the base store (store 0) and of the main store (store 1); the commit
of block 2 has swapped in snapshot 2 but not yet published commit id 2; a latest-height custom query
reads lastCommitID = 1, pins snapshot 2, and reads base = 2, main = 1. -/
def cexTrace : List Ev :=
  [.c .begin, .c (.tx [.w (0, 0) 1, .w (1, 0) 1]), .c .endBlock,
   .c .flush, .c .drain, .c .snap, .c .swap, .c .publishCid, .c .publishHdr,
   .c .begin, .c (.tx [.w (0, 0) 2, .w (1, 0) 2]), .c .endBlock,
   .c .flush, .c .drain, .c .snap, .c .swap,
   .q (.height 1 false 0),
   .c .publishCid,
   .q (.acquire 1), .q (.hdr 1), .q (.read 1 (0, 0)), .q (.read 1 (1, 0)), .q (.release 1)]

def cexState : State := (run (State.init false 705 false) cexTrace).getD (State.init false 705 false)

theorem cex_reachable : run (State.init false 705 false) cexTrace = some cexState := by decide

def init705 : State := State.init false 705 false

/-- the final state of a trace from a fresh gno.land-like node (syncable pruning, no iavl). -/
def finalOf (tr : List Ev) : State := (run init705 tr).getD init705

def twoBlocksUpTo (tail : List Ev) : List Ev :=
  [.c .begin, .c (.tx [.w (0, 0) 1, .w (1, 0) 1]), .c .endBlock,
   .c .flush, .c .drain, .c .snap, .c .swap, .c .publishCid, .c .publishHdr,
   .c .begin, .c (.tx [.w (0, 0) 2, .w (1, 0) 2]), .c .endBlock,
   .c .flush, .c .drain] ++ tail

/-- Simulate started between cms.Commit and setCheckState (header 1, snapshot 2). -/
def cexSimTrace : List Ev := twoBlocksUpTo
  [.c .snap, .c .swap, .c .publishCid,
   .q (.height 3 true 0), .q (.acquire 3), .q (.read 3 (0, 0)), .q (.read 3 (1, 0)), .q (.release 3)]

/-- custom query naming the historic height 1 after block 2 (corpus/C28/historic-height.ops). -/
def cexHistTrace : List Ev := twoBlocksUpTo
  [.c .snap, .c .swap, .c .publishCid, .c .publishHdr,
   .q (.height 1 false 1), .q (.acquire 1), .q (.hdr 1), .q (.read 1 (0, 0)), .q (.read 1 (1, 0)), .q (.release 1)]

/-- corpus/C28/commit-window.ops, query 2: started after cms.Commit returned (snapshot 2, commit id 2)
and before setCheckState. -/
def cexHdrTrace : List Ev := twoBlocksUpTo
  [.c .snap, .c .swap, .c .publishCid,
   .q (.height 2 false 0), .q (.acquire 2), .q (.hdr 2), .q (.read 2 (0, 0)), .q (.read 2 (1, 0)), .q (.release 2)]

/-- a query that starts while block 2 is being committed (after the atomic write, before the swap)
and reads after the commit finished. -/
def okTrace : List Ev := twoBlocksUpTo
  [.q (.height 1 false 0), .q (.acquire 1), .q (.hdr 1), .c .snap, .c .swap, .c .publishCid,
   .c .publishHdr, .q (.read 1 (0, 0)), .q (.read 1 (1, 0)), .q (.release 1)]

theorem cexSim_run : run init705 cexSimTrace = some (finalOf cexSimTrace) := by decide
theorem cexHist_run : run init705 cexHistTrace = some (finalOf cexHistTrace) := by decide
theorem cexHdr_run : run init705 cexHdrTrace = some (finalOf cexHdrTrace) := by decide
theorem ok_run : run init705 okTrace = some (finalOf okTrace) := by decide

end GnoVerif.C28
