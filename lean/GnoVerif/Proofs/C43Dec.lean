import GnoVerif.Proofs.C43Err
/-! C43: decidability instances for the guards (so that concrete witnesses are checked by `decide`)
    and small facts used by Props/C43.lean. -/
namespace GnoVerif.C43

instance (rd : List RDesc) (id : UInt8) (m : Bytes) : Decidable (MsgFits rd id m) := by
  unfold MsgFits; infer_instance

instance (rd : List RDesc) (id : UInt8) (m : Bytes) : Decidable (MsgOK rd id m) := by
  unfold MsgOK; infer_instance

instance (rd : List RDesc) (a : Act) : Decidable (ActFits rd a) := by
  cases a <;> unfold ActFits <;> infer_instance

instance (rd : List RDesc) (a : Act) : Decidable (ActOK rd a) := by
  cases a <;> unfold ActOK <;> infer_instance

instance (s : Sender) : Decidable s.exhausted := by
  unfold Sender.exhausted; infer_instance

/-- the code's own choice is one of the arbitrary picks the theorems quantify over. -/
theorem stepDet_is_stepAt (s : Sender) (p : Packet) (h : s.stepDet.2 = some p) :
    ∃ i, s.stepAt i = some (s.stepDet.1, p) := by
  unfold Sender.stepDet at *
  cases hl : leastIdx (pendAll s.chans) with
  | none => simp [hl] at h
  | some i =>
    simp only [hl] at h ⊢
    cases hs : s.stepAt i with
    | none => simp [hs] at h
    | some sp =>
      obtain ⟨s', p'⟩ := sp
      simp only [hs] at h ⊢
      refine ⟨i, ?_⟩
      simp only [Option.some.injEq] at h
      rw [← h, hs]

end GnoVerif.C43
