/-
C12: `GetMemPackageAll` merges the production blob with the `#allbutprod` blob
and sorts by file name; on a validated package (strictly sorted names) that
gives back exactly the deployed file list.
-/
import GnoVerif.Proofs.C12
namespace GnoVerif.C12
open GnoVerif

def nameLt (a b : File) : Prop := a.name < b.name

theorem mem_insertByName {f x : File} {l : List File} : x ∈ insertByName f l ↔ x = f ∨ x ∈ l := by
  induction l with
  | nil => simp [insertByName]
  | cons g r ih =>
    simp only [insertByName]
    split
    · simp
    · simp only [List.mem_cons, ih]
      constructor
      · rintro (h | h | h)
        · exact Or.inr (Or.inl h)
        · exact Or.inl h
        · exact Or.inr (Or.inr h)
      · rintro (h | h | h)
        · exact Or.inr (Or.inl h)
        · exact Or.inl h
        · exact Or.inr (Or.inr h)

theorem mem_sortByName {x : File} {l : List File} : x ∈ sortByName l ↔ x ∈ l := by
  induction l with
  | nil => simp [sortByName]
  | cons f r ih => simp [sortByName, mem_insertByName, ih]

theorem insertByName_sorted {f : File} {l : List File} (hl : l.Pairwise nameLt)
    (hne : ∀ x ∈ l, x.name ≠ f.name) : (insertByName f l).Pairwise nameLt := by
  induction l with
  | nil => simp [insertByName]
  | cons g r ih =>
    have pc := List.pairwise_cons.1 hl
    simp only [insertByName]
    split
    · rename_i hlt
      refine List.pairwise_cons.2 ⟨?_, hl⟩
      intro x hx
      rcases List.mem_cons.1 hx with e | e
      · subst e; exact hlt
      · exact Lex.lt_trans hlt (pc.1 x e)
    · rename_i hnl
      have hgf : g.name < f.name := by
        rcases Lex.lt_trichotomy f.name g.name with h | h | h
        · exact absurd h hnl
        · exact absurd h.symm (hne g (by simp))
        · exact h
      refine List.pairwise_cons.2 ⟨?_, ih pc.2 (fun x hx => hne x (List.mem_cons_of_mem _ hx))⟩
      intro x hx
      rcases mem_insertByName.1 hx with e | e
      · subst e; exact hgf
      · exact pc.1 x e

theorem sortByName_sorted {l : List File} (hd : l.Pairwise (fun a b => a.name ≠ b.name)) :
    (sortByName l).Pairwise nameLt := by
  induction l with
  | nil => simp [sortByName]
  | cons f r ih =>
    have pc := List.pairwise_cons.1 hd
    simp only [sortByName]
    apply insertByName_sorted (ih pc.2)
    intro x hx
    exact fun e => pc.1 x (mem_sortByName.1 hx) e.symm

/-- merging the two halves of any partition of a strictly name-sorted list and sorting restores it. -/
theorem sortByName_partition {fs : List File} (t : File → Bool) (hs : fs.Pairwise nameLt) :
    sortByName (fs.filter (fun f => !t f) ++ fs.filter t) = fs := by
  have hne : fs.Pairwise (fun a b => a.name ≠ b.name) :=
    hs.imp (fun {a b : File} (h : nameLt a b) => Lex.ne_of_lt h)
  -- any two members are equal or have different names
  have hall : ∀ ⦃x⦄, x ∈ fs → ∀ ⦃y⦄, y ∈ fs → (x = y ∨ x.name ≠ y.name) := by
    apply List.Pairwise.forall_of_forall_of_flip (R := fun x y : File => x = y ∨ x.name ≠ y.name)
    · intro x _; exact Or.inl rfl
    · exact hne.imp (fun h => Or.inr h)
    · exact hne.imp (fun {a b : File} h => (Or.inr (fun e => h e.symm) : flip (fun x y : File => x = y ∨ x.name ≠ y.name) a b))
  have hd : (fs.filter (fun f => !t f) ++ fs.filter t).Pairwise (fun a b => a.name ≠ b.name) := by
    rw [List.pairwise_append]
    refine ⟨hne.filter _, hne.filter _, ?_⟩
    intro a ha b hb
    have ha' := List.mem_filter.1 ha
    have hb' := List.mem_filter.1 hb
    rcases hall ha'.1 hb'.1 with e | e
    · subst e; simp [hb'.2] at ha'
    · exact e
  apply OMap.eq_of_pairwise_of_mem_iff (r := nameLt) (fun a => Lex.lt_irrefl a.name)
    (fun a b => Lex.lt_asymm) (sortByName_sorted hd) hs
  intro x
  rw [mem_sortByName, List.mem_append, List.mem_filter, List.mem_filter]
  constructor
  · rintro (h | h) <;> exact h.1
  · intro h
    by_cases ht : t x = true
    · exact Or.inr ⟨h, ht⟩
    · exact Or.inl ⟨h, by simp [ht]⟩

/-! ### validated names are strictly sorted -/

theorem uniqNames_pairwise {l : List Bytes} (h : uniqNames l = true) : l.Pairwise (· ≠ ·) := by
  induction l with
  | nil => simp
  | cons a r ih =>
    simp only [uniqNames, Bool.and_eq_true, Bool.not_eq_true', List.contains_eq_mem, decide_eq_false_iff_not] at h
    refine List.pairwise_cons.2 ⟨?_, ih h.2⟩
    intro x hx e
    exact h.1 (e ▸ hx)

theorem sortedNames_pairwise {l : List Bytes} (h : sortedNames l = true) : l.Pairwise (fun a b => a ≤ b) := by
  induction l with
  | nil => simp
  | cons a r ih =>
    cases r with
    | nil => simp
    | cons b r =>
      simp only [sortedNames, Bool.and_eq_true, Bool.not_eq_true', decide_eq_false_iff_not] at h
      have hab : a ≤ b := Lex.not_lt.1 h.1
      have pr := ih h.2
      refine List.pairwise_cons.2 ⟨?_, pr⟩
      intro x hx
      rcases List.mem_cons.1 hx with e | e
      · subst e; exact hab
      · exact Lex.le_trans hab ((List.pairwise_cons.1 pr).1 x e)

theorem names_strict {l : List Bytes} (h1 : sortedNames l = true) (h2 : uniqNames (l.map toLowerAscii) = true) :
    l.Pairwise (· < ·) := by
  have hle := sortedNames_pairwise h1
  have hne : l.Pairwise (· ≠ ·) := by
    have := uniqNames_pairwise h2
    rw [List.pairwise_map] at this
    exact this.imp (fun h e => h (by rw [e]))
  exact (hle.and hne).imp (fun {a b} h => by
    rcases Lex.le_iff_lt_or_eq.1 h.1 with h' | h'
    · exact h'
    · exact absurd h' h.2)

theorem stored_names (m : Msg) : (stored m).map (·.name) = m.files.map (·.name) := by
  simp only [stored, List.map_map]
  apply List.map_congr_left
  intro f _
  simp only [Function.comp]
  cases f.body <;> rfl

theorem stored_sorted {m : Msg} (h : stdValidateBasic m.name m.path m.files = true) :
    (stored m).Pairwise nameLt := by
  simp only [stdValidateBasic, Bool.and_eq_true] at h
  have hs := names_strict h.1.1.2 (by simpa [List.map_map, Function.comp_def] using h.1.2)
  rw [← stored_names, List.pairwise_map] at hs
  exact hs


/-- right after an accepted deployment, `GetMemPackageAll(path)` is exactly the stored file list. -/
theorem memPackageAll_applyAdd {s : State} {m : Msg} (hi : Inv s) (acc : Accepted s m) :
    memPackageAll (applyAdd s m) m.path = .some (stored m) := by
  have hm : cHash ∉ m.path := contains_false_iff.1 acc.noHash
  have h1 := applyAdd_blobs_path s m
  have h2 := applyAdd_blobs_abp s m (fun hn => (hi.noblob m.path hm hn).2)
  have hsort := sortByName_partition (fun f => isTestFile f.name) (stored_sorted acc.basic)
  unfold memPackageAll
  simp only [h1, h2, acc.user]
  by_cases he : (abpOf m).isEmpty = true
  · have : abpOf m = [] := by simpa using he
    simp only [he, if_true]
    simp only [abpOf] at this
    simp only [prodOf]
    rw [← this] at *
    simpa using hsort
  · simp only [he]
    simpa [prodOf, abpOf] using hsort


theorem find_by_name {l : List File} (hs : l.Pairwise nameLt) {f : File} (hf : f ∈ l) :
    l.find? (fun g => g.name == f.name) = some f := by
  induction l with
  | nil => simp at hf
  | cons g r ih =>
    have pc := List.pairwise_cons.1 hs
    rcases List.mem_cons.1 hf with e | e
    · subst e; simp
    · have hlt : g.name < f.name := pc.1 f e
      have hne : (g.name == f.name) = false := by
        simp only [beq_eq_false_iff_ne]
        exact Lex.ne_of_lt hlt
      simp only [List.find?, hne]
      exact ih pc.2 e

end GnoVerif.C12
