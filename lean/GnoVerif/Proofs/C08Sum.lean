import GnoVerif.Model.C08Coins
/-! C08 — `Coins.Add` is the pointwise sum: the merge of `AddUnsafe` preserves, per
denomination, the sum of the amounts, and on a validated set `AmountOf` is that sum. -/
namespace GnoVerif.C08

/-- the sum of the amounts of denomination `d` in a (not necessarily sorted) coin list -/
def sumOf : Coins → Str → Int
  | [], _ => 0
  | c :: rest, d => (if c.denom = d then c.amount else 0) + sumOf rest d

theorem sumOf_removeZero : ∀ (cs : Coins) (d : Str), sumOf (removeZero cs) d = sumOf cs d
  | [], _ => rfl
  | c :: rest, d => by
    have ih := sumOf_removeZero rest d
    unfold removeZero at ih ⊢
    by_cases hz : c.amount = 0
    · simp [List.filter, hz, sumOf, ih]
    · have hb : (c.amount != 0) = true := by simpa using hz
      simp [List.filter, hb, sumOf, ih]

theorem mergeInto_sum (a : Coin) (ra : Coins) (k : Coins → Option Coins) (d : Str)
    (hk : ∀ b' r', k b' = some r' → sumOf r' d = sumOf ra d + sumOf b' d) :
    ∀ (b r : Coins), mergeInto a ra k b = some r → sumOf r d = sumOf (a :: ra) d + sumOf b d
  | [], r, h => by
    simp only [mergeInto, Option.some.injEq] at h
    rw [← h, sumOf_removeZero]; simp [sumOf]
  | b :: rb, r, h => by
    simp only [mergeInto] at h
    split at h
    · -- a < b
      cases hk' : k (b :: rb) with
      | none => simp [hk'] at h
      | some rest =>
        simp only [hk', Option.map_some, Option.some.injEq] at h
        have := hk _ _ hk'
        by_cases hz : a.amount = 0
        · simp only [hz, if_true] at h; rw [← h, this]; simp [sumOf, hz]
        · simp only [hz, if_false] at h; rw [← h]; simp only [sumOf] at this ⊢; omega
    · split at h
      · rename_i heq
        split at h
        · cases hk' : k rb with
          | none => simp [hk'] at h
          | some rest =>
            simp only [hk', Option.map_some, Option.some.injEq] at h
            have := hk _ _ hk'
            by_cases hz : a.amount + b.amount = 0
            · simp only [hz, if_true] at h
              rw [← h, this]
              simp only [sumOf, ← heq]
              by_cases hd : a.denom = d
              · simp only [hd, if_true]; omega
              · simp only [hd, if_false]; omega
            · simp only [hz, if_false] at h
              rw [← h]
              simp only [sumOf, ← heq] at this ⊢
              by_cases hd : a.denom = d
              · simp only [hd, if_true]; omega
              · simp only [hd, if_false]; omega
        · cases h
      · -- a > b
        cases hm : mergeInto a ra k rb with
        | none => simp [hm] at h
        | some rest =>
          simp only [hm, Option.map_some, Option.some.injEq] at h
          have := mergeInto_sum a ra k d hk rb rest hm
          by_cases hz : b.amount = 0
          · simp only [hz, if_true] at h; rw [← h, this]; simp [sumOf, hz]
          · simp only [hz, if_false] at h; rw [← h]; simp only [sumOf] at this ⊢; omega

theorem addUnsafe_sum : ∀ (a b r : Coins) (d : Str), addUnsafe a b = some r → sumOf r d = sumOf a d + sumOf b d
  | [], b, r, d, h => by
    simp only [addUnsafe, Option.some.injEq] at h
    rw [← h, sumOf_removeZero]; simp [sumOf]
  | a :: ra, b, r, d, h => by
    simp only [addUnsafe] at h
    exact mergeInto_sum a ra (addUnsafe ra) d (fun b' r' hh => addUnsafe_sum ra b' r' d hh) b r h

theorem coinsAdd_sum (a b r : Coins) (d : Str) (h : coinsAdd a b = some r) :
    sumOf r d = sumOf a d + sumOf b d ∧ coinsValid r = true := by
  unfold coinsAdd at h
  split at h
  · cases h
  · rename_i r' hr
    split at h
    · rename_i hv
      cases h
      exact ⟨addUnsafe_sum a b r d hr, hv⟩
    · cases h

/-! ### on a validated set `AmountOf` is the sum -/

theorem strLt_irrefl : ∀ s : Str, strLt s s = false
  | [] => rfl
  | c :: s => by simp [strLt, strLt_irrefl s]

theorem strLt_trans : ∀ a b c : Str, strLt a b = true → strLt b c = true → strLt a c = true
  | [], [], _, h, _ => by simp [strLt] at h
  | [], _ :: _, [], _, h => by simp [strLt] at h
  | [], _ :: _, _ :: _, _, _ => by simp [strLt]
  | _ :: _, [], _, h, _ => by simp [strLt] at h
  | _ :: _, _ :: _, [], _, h => by simp [strLt] at h
  | x :: a, y :: b, z :: c, h1, h2 => by
    simp only [strLt] at h1 h2 ⊢
    by_cases hxy : x.toNat < y.toNat
    · by_cases hyz : y.toNat < z.toNat
      · have : x.toNat < z.toNat := by omega
        simp [this]
      · simp only [hyz, if_false] at h2
        by_cases hzy : z.toNat < y.toNat
        · simp [hzy] at h2
        · have : x.toNat < z.toNat := by omega
          simp [this]
    · simp only [hxy, if_false] at h1
      by_cases hyx : y.toNat < x.toNat
      · simp [hyx] at h1
      · simp only [hyx, if_false] at h1
        have hxe : x.toNat = y.toNat := by omega
        by_cases hyz : y.toNat < z.toNat
        · have : x.toNat < z.toNat := by omega
          simp [this]
        · simp only [hyz, if_false] at h2
          by_cases hzy : z.toNat < y.toNat
          · simp [hzy] at h2
          · simp only [hzy, if_false] at h2
            have h3 : ¬ x.toNat < z.toNat := by omega
            have h4 : ¬ z.toNat < x.toNat := by omega
            simp only [h3, h4, if_false]
            exact strLt_trans a b c h1 h2

theorem validFrom_above : ∀ (cs : Coins) (low : Str), validFrom low cs = true → ∀ c ∈ cs, strLt low c.denom = true
  | [], _, _, c, hc => by cases hc
  | x :: rest, low, h, c, hc => by
    simp only [validFrom, Bool.and_eq_true, decide_eq_true_eq] at h
    rcases List.mem_cons.mp hc with rfl | hm
    · exact h.1.1.2
    · exact strLt_trans low x.denom c.denom h.1.1.2 (validFrom_above rest x.denom h.2 c hm)

theorem sumOf_absent : ∀ (cs : Coins) (d : Str), (∀ c ∈ cs, c.denom ≠ d) → sumOf cs d = 0
  | [], _, _ => rfl
  | c :: rest, d, h => by
    simp only [sumOf, h c (List.mem_cons_self ..), if_false, Int.zero_add]
    exact sumOf_absent rest d (fun x hx => h x (List.mem_cons_of_mem _ hx))

theorem amountOf_absent (cs : Coins) (d : Str) (h : ∀ c ∈ cs, c.denom ≠ d) : amountOf cs d = 0 := by
  unfold amountOf
  cases hf : cs.find? (fun c => c.denom == d) with
  | none => rfl
  | some c =>
    have hm := List.mem_of_find?_eq_some hf
    have hp := List.find?_some hf
    simp only [beq_iff_eq] at hp
    exact absurd hp (h c hm)

theorem validFrom_amountOf : ∀ (cs : Coins) (low : Str) (d : Str), validFrom low cs = true → amountOf cs d = sumOf cs d
  | [], _, _, _ => rfl
  | c :: rest, low, d, h => by
    have hv := h
    simp only [validFrom, Bool.and_eq_true, decide_eq_true_eq] at h
    by_cases hd : c.denom = d
    · have habs : ∀ x ∈ rest, x.denom ≠ d := by
        intro x hx heq
        have := validFrom_above rest c.denom h.2 x hx
        rw [heq, ← hd, strLt_irrefl] at this
        cases this
      simp only [sumOf, hd, if_true, sumOf_absent rest d habs, Int.add_zero]
      simp [amountOf, List.find?, hd]
    · have ih := validFrom_amountOf rest c.denom d h.2
      simp only [sumOf, hd, if_false, Int.zero_add]
      rw [← ih]
      have hb : (c.denom == d) = false := by simpa using hd
      simp [amountOf, List.find?, hb]

theorem coinsValid_amountOf (cs : Coins) (d : Str) (h : coinsValid cs = true) : amountOf cs d = sumOf cs d := by
  cases cs with
  | nil => rfl
  | cons c rest =>
    simp only [coinsValid, Bool.and_eq_true, decide_eq_true_eq] at h
    by_cases hd : c.denom = d
    · have habs : ∀ x ∈ rest, x.denom ≠ d := by
        intro x hx heq
        have := validFrom_above rest c.denom h.2 x hx
        rw [heq, ← hd, strLt_irrefl] at this
        cases this
      simp only [sumOf, hd, if_true, sumOf_absent rest d habs, Int.add_zero]
      simp [amountOf, List.find?, hd]
    · have ih := validFrom_amountOf rest c.denom d h.2
      simp only [sumOf, hd, if_false, Int.zero_add]
      rw [← ih]
      have hb : (c.denom == d) = false := by simpa using hd
      simp [amountOf, List.find?, hb]

theorem coinsValid_sum_nonneg : ∀ (cs : Coins) (d : Str), (∀ c ∈ cs, 0 < c.amount) → 0 ≤ sumOf cs d
  | [], _, _ => by simp [sumOf]
  | c :: rest, d, h => by
    have := coinsValid_sum_nonneg rest d (fun x hx => h x (List.mem_cons_of_mem _ hx))
    have hc := h c (List.mem_cons_self ..)
    simp only [sumOf]
    by_cases hd : c.denom = d
    · simp only [hd, if_true]; omega
    · simp only [hd, if_false]; omega

end GnoVerif.C08
