import GnoVerif.Proofs.C43Codec
/-! C43 helper lemmas: every frame the sender can produce fits the receiver's `maxPacketMsgSize`. -/
namespace GnoVerif.C43

theorem putUvarintAux_mono (f : Nat) : ∀ n m, n ≤ m →
    (putUvarintAux f n).length ≤ (putUvarintAux f m).length := by
  induction f with
  | zero => intro n m _; simp [putUvarintAux]
  | succ f ih =>
    intro n m h
    unfold putUvarintAux
    by_cases hn : n < 128
    · have := putUvarintAux_pos (f+1) m
      unfold putUvarintAux at this
      simp only [hn, if_true, List.length_cons, List.length_nil]
      omega
    · have hm : ¬ m < 128 := by omega
      simp only [hn, hm, if_false, List.length_cons]
      have := ih (n / 128) (m / 128) (Nat.div_le_div_right h)
      omega

theorem putUvarint_mono (n m : Nat) (h : n ≤ m) : (putUvarint n).length ≤ (putUvarint m).length :=
  putUvarintAux_mono 9 n m h

theorem putUvarintAux_len_le_k (f : Nat) : ∀ k n, n < 128 ^ k → 1 ≤ k →
    (putUvarintAux f n).length ≤ k := by
  induction f with
  | zero => intro k n _ hk; simp [putUvarintAux]; omega
  | succ f ih =>
    intro k n hn hk
    unfold putUvarintAux
    by_cases hlt : n < 128
    · simp [hlt]; omega
    · have hk2 : 2 ≤ k := by
        rcases Nat.lt_or_ge k 2 with h | h
        · have : k = 1 := by omega
          subst this; simp at hn; omega
        · exact h
      have hdiv : n / 128 < 128 ^ (k - 1) := by
        have : 128 ^ k = 128 * 128 ^ (k - 1) := by
          rw [← Nat.pow_succ']; congr 1; omega
        rw [this] at hn
        exact Nat.div_lt_of_lt_mul hn
      have := ih (k - 1) (n / 128) hdiv (by omega)
      simp only [hlt, if_false, List.length_cons]
      omega

theorem putUvarint_len_le_4 (n : Nat) (h : n < 2 ^ 28) : (putUvarint n).length ≤ 4 :=
  putUvarintAux_len_le_k 9 4 n (by simpa using h) (by omega)

theorem putUvarint_len_le_2 (n : Nat) (h : n < 2 ^ 14) : (putUvarint n).length ≤ 2 :=
  putUvarintAux_len_le_k 9 2 n (by simpa using h) (by omega)

theorem putUvarint_len_1 (n : Nat) (h : n < 128) : (putUvarint n).length = 1 := by
  have := putUvarintAux_len_le_k 9 1 n (by simpa using h) (by omega)
  have := putUvarint_pos n
  unfold putUvarint at *
  omega

/-- length of a frame in terms of the value length. -/
theorem encFrame_msg_len (ch eof : UInt8) (bs : Bytes) :
    (encFrame (.msg ch eof bs)).length =
      (putUvarint (encAny (.msg ch eof bs)).length).length + (encAny (.msg ch eof bs)).length := by
  simp [encFrame]

theorem encAny_len_aux (v : Bytes) (hv : v.length = 0 ∨ 2 ≤ v.length) :
    ((0x0a :: (putUvarint urlMsg.length ++ urlMsg)) ++
      (if v.length > 1 ∨ (v.length = 1 ∧ v.head? ≠ some 0) then 0x12 :: (putUvarint v.length ++ v) else [])).length =
      10 + (if v.length = 0 then 0 else 1 + (putUvarint v.length).length + v.length) := by
  have hu : (putUvarint 8).length = 1 := putUvarint_len_1 _ (by decide)
  have hl : urlMsg.length = 8 := by decide
  by_cases hc : (v.length > 1 ∨ (v.length = 1 ∧ v.head? ≠ some 0))
  · rw [if_pos hc]
    have hne : ¬ v.length = 0 := by omega
    rw [if_neg hne]
    simp only [List.length_cons, List.length_append, hl, hu]
    omega
  · rw [if_neg hc]
    have h0 : v.length = 0 := by
      rcases hv with h | h
      · exact h
      · exfalso; apply hc; left; omega
    rw [if_pos h0]
    simp only [List.length_cons, List.length_append, List.append_nil, hl, hu]

theorem encAny_msg_len (ch eof : UInt8) (bs : Bytes) :
    (encAny (.msg ch eof bs)).length =
      10 + (if (encMsgValue ch eof bs).length = 0 then 0
            else 1 + (putUvarint (encMsgValue ch eof bs).length).length + (encMsgValue ch eof bs).length) :=
  encAny_len_aux _ (encMsgValue_len_ne_one ch eof bs)

theorem encMsgValue_len (ch eof : UInt8) (bs : Bytes) :
    (encMsgValue ch eof bs).length =
      (if ch = 0 then 0 else 1 + (putUvarint ch.toNat).length) +
      (if eof = 0 then 0 else 1 + (putUvarint eof.toNat).length) +
      (if bs.length = 0 then 0 else 1 + (putUvarint bs.length).length + bs.length) := by
  unfold encMsgValue
  by_cases c1 : ch = 0 <;> by_cases c2 : eof = 0 <;> by_cases c3 : bs.length = 0 <;>
    simp only [c1, c2, c3, ne_eq, not_true_eq_false, not_false_eq_true, if_true, if_false,
      List.length_append, List.length_cons, List.length_nil] <;> omega

/-- `maxPacketMsgSize P` bounds every frame carrying at most `P` payload bytes. -/
theorem encFrame_msg_le_max (P : Nat) (hP : 0 < P) (hP' : P ≤ 2 ^ 20) (ch eof : UInt8) (bs : Bytes)
    (hbs : bs.length ≤ P) : (encFrame (.msg ch eof bs)).length ≤ maxPacketMsgSize P := by
  unfold maxPacketMsgSize
  rw [encFrame_msg_len, encFrame_msg_len, encAny_msg_len, encAny_msg_len, encMsgValue_len, encMsgValue_len]
  have hrep : (List.replicate P (0 : UInt8)).length = P := List.length_replicate
  rw [hrep]
  have h11 : (putUvarint (1 : UInt8).toNat).length = 1 := putUvarint_len_1 _ (by decide)
  have hne1 : ¬ (1 : UInt8) = 0 := by decide
  have hP0 : ¬ P = 0 := by omega
  simp only [hne1, if_false, h11, hP0]
  have hch : (putUvarint ch.toNat).length ≤ 2 := putUvarint_len_le_2 _ (by have := ch.toNat_lt; omega)
  have heof : (putUvarint eof.toNat).length ≤ 2 := putUvarint_len_le_2 _ (by have := eof.toNat_lt; omega)
  have hn : (putUvarint bs.length).length ≤ (putUvarint P).length := putUvarint_mono _ _ hbs
  have hP4 : (putUvarint P).length ≤ 4 := putUvarint_len_le_4 _ (by omega)
  have hPp := putUvarint_pos P
  -- the value lengths
  generalize hV : ((if ch = 0 then 0 else 1 + (putUvarint ch.toNat).length) +
      (if eof = 0 then 0 else 1 + (putUvarint eof.toNat).length) +
      (if bs.length = 0 then 0 else 1 + (putUvarint bs.length).length + bs.length)) = V
  generalize hV0 : (1 + 1 + (1 + 1) + (1 + (putUvarint P).length + P)) = V0
  have hVle : V ≤ V0 + 2 := by
    subst hV hV0
    split <;> split <;> split <;> omega
  have hV0lt : V0 + 2 < 2 ^ 27 := by subst hV0; omega
  have hV0ne : ¬ V0 = 0 := by subst hV0; omega
  have hUV : (putUvarint V).length ≤ 4 := putUvarint_len_le_4 _ (by omega)
  have hUV0 := putUvarint_pos V0
  simp only [hV0ne, if_false]
  generalize hB : (10 + if V = 0 then 0 else 1 + (putUvarint V).length + V) = B
  generalize hB0 : (10 + (1 + (putUvarint V0).length + V0)) = B0
  have hBle : B ≤ B0 + 5 := by
    subst hB hB0
    split <;> omega
  have hB0lt : B < 2 ^ 28 := by
    have : (putUvarint V0).length ≤ 4 := putUvarint_len_le_4 _ (by omega)
    subst hB0; omega
  have hUB : (putUvarint B).length ≤ 4 := putUvarint_len_le_4 _ hB0lt
  have hUB0 := putUvarint_pos B0
  omega

theorem encFrame_ctl_le_max (P : Nat) (hP : 0 < P) (hP' : P ≤ 2 ^ 20) :
    (encFrame .ping).length ≤ maxPacketMsgSize P ∧ (encFrame .pong).length ≤ maxPacketMsgSize P := by
  have h := encFrame_msg_le_max P hP hP' 0 0 [] (by simp)
  have e1 : (encFrame .ping).length = 12 := by decide
  have e2 : (encFrame .pong).length = 12 := by decide
  have e3 : (encFrame (.msg 0 0 [])).length = 11 := by decide
  -- maxPacketMsgSize P ≥ 21
  unfold maxPacketMsgSize at *
  rw [encFrame_msg_len, encAny_msg_len] at *
  have := putUvarint_pos (10 + if (encMsgValue 1 1 (List.replicate P 0)).length = 0 then 0
      else 1 + (putUvarint (encMsgValue 1 1 (List.replicate P 0)).length).length +
        (encMsgValue 1 1 (List.replicate P 0)).length)
  omega

end GnoVerif.C43
