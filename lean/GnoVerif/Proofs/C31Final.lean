import GnoVerif.Proofs.C31Refine
/-!
The system of executable nodes (`Model/C31Sys.lean`) refines the abstract protocol
(`Spec/C31.lean`): every reachable system state is coupled with a reachable abstract state that
has the same vote log and, for every honest validator, the abstract image of its node.
Core Lean only.
-/
set_option linter.unusedSimpArgs false
set_option linter.unusedVariables false
namespace GnoVerif.C31

/-- the coupling between a system state and an abstract state -/
structure Coupled (c : SysCfg) (σ : SysState) (σa : AState) : Prop where
  log : σa.log = σ.votes
  nodes : ∀ p, c.abs.honest p → σa.nodes p = absNode (σ.nodes p)
  good : ∀ p, c.abs.honest p → GoodC c (σ.nodes p) σ.votes

theorem goodC_init (c : SysCfg) (p : Val) : GoodC c (Node.init (c.node p)) [] := by
  refine ⟨?_, ?_, ?_, ?_, ?_⟩
  · exact HGood.new c 1 []
  · intro v hv; simp [Node.init] at hv
  · simp [Node.init]
  · simp [Node.init]
  · intro _; rfl

theorem coupled_init (c : SysCfg) : Coupled c (SysState.init c) AState.init :=
  ⟨rfl, fun _ _ => rfl, fun p _ => goodC_init c p⟩

theorem coupled_step {c : SysCfg} {σ σ' : SysState} {σa : AState} (hc : Coupled c σ σa)
    (hr : AReach c.abs σa) (hs : SysStep c σ σ') : ∃ σa', AReach c.abs σa' ∧ Coupled c σ' σa' := by
  cases hs with
  | byz v hb =>
    refine ⟨{ σa with log := σa.log ++ [v] }, hr.step (AStep.byz σa v hb), ?_, hc.nodes, ?_⟩
    · simp only [hc.log]
    · intro p hp; exact (hc.good p hp).mono mem_append_left'
  | node p i hp hi =>
    have hg : Good c p (σ.nodes p) σ.votes := by
      refine ⟨hc.good p hp, ?_⟩
      have := AInv.reach hr p hp
      rw [hc.log, hc.nodes p hp] at this
      exact this
    obtain ⟨L', hsim⟩ := handle_sim hg i hi
    obtain ⟨out, hsent, hL'⟩ := hsim.sent
    have hdrop : (handle (c.node p) (σ.nodes p) i).sent.drop (σ.nodes p).sent.length = out := by
      rw [hsent]; simp
    rw [hdrop, ← hL']
    have hra : AReach c.abs { nodes := σa.nodes, log := σ.votes } := by
      have : σa = { nodes := σa.nodes, log := σ.votes } := by
        have hl := hc.log
        cases σa; simp only at hl ⊢; rw [hl]
      rw [← this]; exact hr
    have hreach := hsim.path.reach hp σa.nodes (hc.nodes p hp) hra
    refine ⟨_, hreach, rfl, ?_, ?_⟩
    · intro q hq
      by_cases hqp : q = p
      · subst hqp; simp [upd, updN]
      · simp only [upd, updN, hqp, if_false]; exact hc.nodes q hq
    · intro q hq
      by_cases hqp : q = p
      · subst hqp; simp only [updN, if_true]; exact hsim.goodC
      · simp only [updN, hqp, if_false]
        rw [hL']
        exact (hc.good q hq).mono mem_append_left'

/-- **Refinement.**  Every reachable state of the system of executable nodes is coupled with a
reachable state of the abstract protocol. -/
theorem refinement {c : SysCfg} {σ : SysState} (h : SysReach c σ) :
    ∃ σa, AReach c.abs σa ∧ Coupled c σ σa := by
  induction h with
  | init => exact ⟨AState.init, .init, coupled_init c⟩
  | step _ hs ih =>
    obtain ⟨σa, hr, hc⟩ := ih
    exact coupled_step hc hr hs

/-- Agreement for the system of executable nodes. -/
theorem sys_agreement {c : SysCfg} (hf : c.abs.FewFaulty) {σ : SysState} (h : SysReach c σ)
    {p q : Val} (hp : c.abs.honest p) (hq : c.abs.honest q) {H : Nat} {b b' : Block}
    (hd : (H, b) ∈ (σ.nodes p).decided) (hd' : (H, b') ∈ (σ.nodes q).decided) : b = b' := by
  obtain ⟨σa, hr, hc⟩ := refinement h
  have hI := AInv.reach hr
  have h1 : (H, b) ∈ (σa.nodes p).decided := by rw [hc.nodes p hp]; exact hd
  have h2 : (H, b') ∈ (σa.nodes q).decided := by rw [hc.nodes q hq]; exact hd'
  obtain ⟨r, q1⟩ := (hI p hp).dec H b h1
  obtain ⟨r', q2⟩ := (hI q hq).dec H b' h2
  exact commitQ_unique hf hI.logInv q1 q2

-- ---------------------------------------------------------------- corollaries on the system's vote log

/-- the abstract invariant holds of the system's vote log and the abstract images of its nodes -/
theorem sys_pinv {c : SysCfg} {σ : SysState} (h : SysReach c σ) {p : Val} (hp : c.abs.honest p) :
    PInv c.abs σ.votes p (absNode (σ.nodes p)) := by
  obtain ⟨σa, hr, hc⟩ := refinement h
  have := AInv.reach hr p hp
  rw [hc.log, hc.nodes p hp] at this
  exact this

-- ---------------------------------------------------------------- halted nodes, continuations

/-- `σ'` is reachable from `σ` -/
inductive SysReachFrom (c : SysCfg) (σ : SysState) : SysState → Prop
  | refl : SysReachFrom c σ σ
  | step {σ' σ'' : SysState} : SysReachFrom c σ σ' → SysStep c σ' σ'' → SysReachFrom c σ σ''

theorem SysReachFrom.reach {c : SysCfg} {σ σ' : SysState} (h : SysReachFrom c σ σ') (hr : SysReach c σ) :
    SysReach c σ' := by
  induction h with
  | refl => exact hr
  | step _ hs ih => exact ih.step hs

theorem handle_halted (k : NodeCfg) (s : Node) (i : Input) (h : s.halted = true) : handle k s i = s := by
  unfold handle; rw [if_pos h]

/-- a node whose receive routine has stopped never changes again -/
theorem halted_forever {c : SysCfg} {σ σ' : SysState} (h : SysReachFrom c σ σ') (p : Val)
    (hh : (σ.nodes p).halted = true) : σ'.nodes p = σ.nodes p := by
  induction h with
  | refl => rfl
  | step _ hs ih =>
    cases hs with
    | byz v hb => exact ih
    | node q i hq hi =>
      simp only [updN]
      split
      · rename_i he; subst he
        rw [ih, handle_halted _ _ _ hh]
      · exact ih

/-- running a list of inputs on one node -/
def runInputs (k : NodeCfg) (s : Node) (is : List Input) : Node := is.foldl (handle k) s

/-- inputs that need no signed vote of somebody else -/
def Input.local : Input → Bool
  | .peer (.vote _) _ true => false
  | _ => true

theorem inputOK_of_local (L : List Vote) (i : Input) (h : i.local = true) : InputOK L i := by
  cases i with
  | peer m pr ok =>
    cases m with
    | vote v => cases ok <;> simp_all [Input.local, InputOK]
    | proposal _ => simp [InputOK]
    | blockPart _ _ _ => simp [InputOK]
  | _ => simp [InputOK]

/-- an honest node may run any list of local inputs -/
theorem SysReachFrom.runLocal {c : SysCfg} {σ : SysState} (p : Val) (hp : c.abs.honest p)
    (is : List Input) (hl : ∀ i ∈ is, i.local = true) :
    ∃ σ', SysReachFrom c σ σ' ∧ σ'.nodes p = runInputs (c.node p) (σ.nodes p) is := by
  induction is generalizing σ with
  | nil => exact ⟨σ, .refl, rfl⟩
  | cons i is ih =>
    have h1 : SysStep c σ _ := SysStep.node σ p i hp (inputOK_of_local _ i (hl i List.mem_cons_self))
    obtain ⟨σ', hr, he⟩ := ih (σ := _) (fun j hj => hl j (List.mem_cons_of_mem _ hj))
    refine ⟨σ', ?_, ?_⟩
    · clear he
      induction hr with
      | refl => exact SysReachFrom.step .refl h1
      | step _ hs ih2 => exact ih2.step hs
    · rw [he]; simp [updN, runInputs]

end GnoVerif.C31
