import GnoVerif.Model.C39Merkle
/-
C39 — helper lemmas about the minimal simple-Merkle model:
unfolding, proof-list length, root = SimpleHashFromByteSlices, completeness of
generated proofs, and soundness with a collision COMPUTED from two proofs.
-/
namespace GnoVerif.C39

variable (H : Bytes → Bytes)

/-- the hash has a fixed output size `n` (tmhash: 32). A structural fact about
SHA-256, not a hardness assumption. -/
def FixedLen (n : Nat) : Prop := ∀ x, (H x).length = n

/-- an explicit collision of `H`. -/
def IsCollision (x y : Bytes) : Prop := x ≠ y ∧ H x = H y

/-- Walk two audit paths for the same position of the same tree shape from the
root downwards and return the first pair of distinct hash inputs with equal
hashes (`0x01‖l‖r` at an inner node, `0x00‖leaf` at the leaf).  Arguments are
the two leaves and the two REVERSED aunt lists. -/
def collide : Nat → Nat → Bytes → Bytes → List Bytes → List Bytes → Option (Bytes × Bytes)
  | _, _, leaf1, leaf2, [], [] =>
    if leaf1 ≠ leaf2 then some (0 :: leaf1, 0 :: leaf2) else none
  | index, total, leaf1, leaf2, a1 :: r1, a2 :: r2 =>
    let k := splitPoint total
    if index < k then
      match computeRev H index k (leafHash H leaf1) r1, computeRev H index k (leafHash H leaf2) r2 with
      | some l1, some l2 =>
        if (1 :: (l1 ++ a1) : Bytes) ≠ 1 :: (l2 ++ a2) then some (1 :: (l1 ++ a1), 1 :: (l2 ++ a2))
        else collide index k leaf1 leaf2 r1 r2
      | _, _ => none
    else
      match computeRev H (index - k) (total - k) (leafHash H leaf1) r1,
            computeRev H (index - k) (total - k) (leafHash H leaf2) r2 with
      | some h1, some h2 =>
        if (1 :: (a1 ++ h1) : Bytes) ≠ 1 :: (a2 ++ h2) then some (1 :: (a1 ++ h1), 1 :: (a2 ++ h2))
        else collide (index - k) (total - k) leaf1 leaf2 r1 r2
      | _, _ => none
  | _, _, _, _, _, _ => none

/-! ### unfolding -/

theorem proofsAux_nil : proofsAux H [] = ([], []) := by rw [proofsAux]

theorem proofsAux_single (x : Bytes) : proofsAux H [x] = (leafHash H x, [[]]) := by rw [proofsAux]

theorem proofsAux_split (items : List Bytes) (h : 2 ≤ items.length) :
    proofsAux H items =
      (innerHash H (proofsAux H (items.take (splitPoint items.length))).1
                   (proofsAux H (items.drop (splitPoint items.length))).1,
       (proofsAux H (items.take (splitPoint items.length))).2.map
           (· ++ [(proofsAux H (items.drop (splitPoint items.length))).1]) ++
       (proofsAux H (items.drop (splitPoint items.length))).2.map
           (· ++ [(proofsAux H (items.take (splitPoint items.length))).1])) := by
  match items, h with
  | x :: y :: rest, _ => rw [proofsAux]

theorem treeRoot_split (items : List Bytes) (h : 2 ≤ items.length) :
    treeRoot H items =
      innerHash H (treeRoot H (items.take (splitPoint items.length)))
                  (treeRoot H (items.drop (splitPoint items.length))) := by
  match items, h with
  | x :: y :: rest, _ => rw [treeRoot]

/-- strong induction on the number of items, in the shape the tree recursion uses -/
theorem tree_induction {P : List Bytes → Prop}
    (h0 : P []) (h1 : ∀ x, P [x])
    (h2 : ∀ items : List Bytes, 2 ≤ items.length →
      P (items.take (splitPoint items.length)) → P (items.drop (splitPoint items.length)) → P items)
    (items : List Bytes) : P items := by
  generalize hn : items.length = n
  induction n using Nat.strongRecOn generalizing items with
  | _ n ih =>
    match items, hn with
    | [], _ => exact h0
    | [x], _ => exact h1 x
    | x :: y :: rest, hn =>
      have hlen : 2 ≤ (x :: y :: rest).length := by simp
      have hlt := splitPoint_lt hlen
      have hpos := splitPoint_pos hlen
      apply h2 _ hlen
      · exact ih _ (by rw [← hn, List.length_take]; omega) _ rfl
      · exact ih _ (by rw [← hn, List.length_drop]; omega) _ rfl

theorem proofsAux_length (items : List Bytes) : (proofsAux H items).2.length = items.length := by
  induction items using tree_induction with
  | h0 => simp [proofsAux_nil]
  | h1 x => simp [proofsAux_single]
  | h2 items h ihl ihr =>
    have hlt := splitPoint_lt h
    rw [proofsAux_split H items h]
    simp only [List.length_append, List.length_map, ihl, ihr, List.length_take, List.length_drop]
    omega

/-- the root returned with the proofs is `SimpleHashFromByteSlices` -/
theorem proofsAux_root (items : List Bytes) : (proofsAux H items).1 = treeRoot H items := by
  induction items using tree_induction with
  | h0 => rw [proofsAux_nil, treeRoot]
  | h1 x => rw [proofsAux_single, treeRoot]
  | h2 items h ihl ihr => rw [proofsAux_split H items h, treeRoot_split H items h, ihl, ihr]

/-! ### shape of hashes -/

theorem computeRev_length {n : Nat} (hH : FixedLen H n) :
    ∀ (ra : List Bytes) (i t : Nat) (lh h : Bytes),
      lh.length = n → computeRev H i t lh ra = some h → h.length = n := by
  intro ra
  cases ra with
  | nil =>
    intro i t lh h hl hc
    simp only [computeRev] at hc
    split at hc
    · cases hc
    · split at hc
      · cases hc; exact hl
      · cases hc
  | cons a rest =>
    intro i t lh h hl hc
    simp only [computeRev] at hc
    split at hc
    · cases hc
    · split at hc
      · cases hc
      · split at hc
        · split at hc
          · cases hc
          · cases hc; exact hH _
        · split at hc
          · cases hc
          · cases hc; exact hH _

theorem proofsAux_root_length {n : Nat} (hH : FixedLen H n) (items : List Bytes) (h : items ≠ []) :
    (proofsAux H items).1.length = n := by
  match items, h with
  | [x], _ => rw [proofsAux_single]; exact hH _
  | x :: y :: rest, _ =>
    rw [proofsAux_split H _ (by simp)]; exact hH _

/-! ### completeness: every generated proof hashes up to the root -/

theorem proofs_complete (items : List Bytes) :
    ∀ i, i < items.length →
      computeRev H i items.length (leafHash H (items.getD i []))
        ((proofsAux H items).2.getD i []).reverse = some (proofsAux H items).1 := by
  induction items using tree_induction with
  | h0 => intro i hi; simp at hi
  | h1 x =>
    intro i hi
    have : i = 0 := by simpa using hi
    subst this
    simp [proofsAux_single, computeRev]
  | h2 items h ihl ihr =>
    intro i hi
    have hlt := splitPoint_lt h
    have hpos := splitPoint_pos h
    have hll := proofsAux_length H (items.take (splitPoint items.length))
    have hlr := proofsAux_length H (items.drop (splitPoint items.length))
    rw [List.length_take] at hll
    rw [List.length_drop] at hlr
    rw [proofsAux_split H items h]
    simp only
    by_cases hik : i < splitPoint items.length
    · -- left subtree
      have hget : (List.map (· ++ [(proofsAux H (items.drop (splitPoint items.length))).1])
              (proofsAux H (items.take (splitPoint items.length))).2 ++
            List.map (· ++ [(proofsAux H (items.take (splitPoint items.length))).1])
              (proofsAux H (items.drop (splitPoint items.length))).2).getD i [] =
          (proofsAux H (items.take (splitPoint items.length))).2.getD i [] ++
            [(proofsAux H (items.drop (splitPoint items.length))).1] := by
        simp only [List.getD_eq_getElem?_getD]
        rw [List.getElem?_append_left (by simp; omega)]
        simp only [List.getElem?_map]
        have : i < (proofsAux H (items.take (splitPoint items.length))).2.length := by omega
        rw [List.getElem?_eq_getElem this]
        simp
      rw [hget, List.reverse_append, List.reverse_singleton, List.singleton_append]
      have ih := ihl i (by rw [List.length_take]; omega)
      rw [List.length_take, Nat.min_eq_left (by omega)] at ih
      have hit : (items.take (splitPoint items.length)).getD i [] = items.getD i [] := by
        simp only [List.getD_eq_getElem?_getD, List.getElem?_take, hik, if_true]
      rw [hit] at ih
      simp only [computeRev]
      rw [if_neg (by omega), if_neg (by omega), if_pos hik, ih]
    · -- right subtree
      have hik' : splitPoint items.length ≤ i := by omega
      have hget : (List.map (· ++ [(proofsAux H (items.drop (splitPoint items.length))).1])
              (proofsAux H (items.take (splitPoint items.length))).2 ++
            List.map (· ++ [(proofsAux H (items.take (splitPoint items.length))).1])
              (proofsAux H (items.drop (splitPoint items.length))).2).getD i [] =
          (proofsAux H (items.drop (splitPoint items.length))).2.getD (i - splitPoint items.length) [] ++
            [(proofsAux H (items.take (splitPoint items.length))).1] := by
        simp only [List.getD_eq_getElem?_getD]
        rw [List.getElem?_append_right (by simp; omega)]
        simp only [List.length_map, hll, Nat.min_eq_left (Nat.le_of_lt hlt), List.getElem?_map]
        have : i - splitPoint items.length < (proofsAux H (items.drop (splitPoint items.length))).2.length := by omega
        rw [List.getElem?_eq_getElem this]
        simp
      rw [hget, List.reverse_append, List.reverse_singleton, List.singleton_append]
      have ih := ihr (i - splitPoint items.length) (by rw [List.length_drop]; omega)
      rw [List.length_drop] at ih
      have hit : (items.drop (splitPoint items.length)).getD (i - splitPoint items.length) [] = items.getD i [] := by
        simp only [List.getD_eq_getElem?_getD, List.getElem?_drop]
        congr 2; omega
      rw [hit] at ih
      simp only [computeRev]
      rw [if_neg (by omega), if_neg (by omega), if_neg hik, ih]

/-! ### soundness: two proofs for the same position and root ⇒ same leaf, or a computed collision -/

theorem two_proofs_collide {n : Nat} (hH : FixedLen H n) :
    ∀ (ra1 ra2 : List Bytes) (i t : Nat) (leaf1 leaf2 root : Bytes),
      computeRev H i t (leafHash H leaf1) ra1 = some root →
      computeRev H i t (leafHash H leaf2) ra2 = some root →
      leaf1 = leaf2 ∨ ∃ x y, collide H i t leaf1 leaf2 ra1 ra2 = some (x, y) ∧ IsCollision H x y := by
  intro ra1
  induction ra1 with
  | nil =>
    intro ra2 i t leaf1 leaf2 root h1 h2
    simp only [computeRev] at h1
    split at h1
    · cases h1
    · split at h1
      · rename_i hg ht
        cases h1
        cases ra2 with
        | nil =>
          simp only [computeRev] at h2
          rw [if_neg hg, if_pos ht] at h2
          by_cases hl : leaf1 = leaf2
          · exact Or.inl hl
          · refine Or.inr ⟨0 :: leaf1, 0 :: leaf2, ?_, ?_, ?_⟩
            · simp [collide, hl]
            · simpa using hl
            · have := Option.some.inj h2
              simpa [leafHash] using this.symm
        | cons a rest =>
          simp only [computeRev] at h2
          rw [if_neg hg, if_pos ht] at h2
          cases h2
      · cases h1
  | cons a1 r1 ih =>
    intro ra2 i t leaf1 leaf2 root h1 h2
    simp only [computeRev] at h1
    split at h1
    · cases h1
    · rename_i hg
      split at h1
      · cases h1
      · rename_i ht
        cases ra2 with
        | nil =>
          simp only [computeRev] at h2
          rw [if_neg hg, if_neg ht] at h2
          cases h2
        | cons a2 r2 =>
          simp only [computeRev] at h2
          rw [if_neg hg, if_neg ht] at h2
          by_cases hik : i < splitPoint t
          · rw [if_pos hik] at h1 h2
            cases hc1 : computeRev H i (splitPoint t) (leafHash H leaf1) r1 with
            | none => rw [hc1] at h1; cases h1
            | some l1 =>
              cases hc2 : computeRev H i (splitPoint t) (leafHash H leaf2) r2 with
              | none => rw [hc2] at h2; cases h2
              | some l2 =>
                rw [hc1] at h1; rw [hc2] at h2
                have e1 := Option.some.inj h1
                have e2 := Option.some.inj h2
                by_cases hxy : (1 :: (l1 ++ a1) : Bytes) = 1 :: (l2 ++ a2)
                · have happ : l1 ++ a1 = l2 ++ a2 := by simpa using hxy
                  have hl1 := computeRev_length H hH r1 _ _ _ _ (hH _) hc1
                  have hl2 := computeRev_length H hH r2 _ _ _ _ (hH _) hc2
                  have := List.append_inj happ (by omega)
                  obtain ⟨hl, _⟩ := this
                  subst hl
                  rcases ih r2 i (splitPoint t) leaf1 leaf2 l1 hc1 hc2 with h | ⟨x, y, hc, hcol⟩
                  · exact Or.inl h
                  · refine Or.inr ⟨x, y, ?_, hcol⟩
                    simp only [collide, if_pos hik, hc1, hc2]
                    rw [if_neg (by simpa using happ)]
                    exact hc
                · refine Or.inr ⟨1 :: (l1 ++ a1), 1 :: (l2 ++ a2), ?_, hxy, ?_⟩
                  · simp only [collide, if_pos hik, hc1, hc2]
                    rw [if_pos hxy]
                  · simp only [innerHash] at e1 e2
                    rw [e1, e2]
          · rw [if_neg hik] at h1 h2
            cases hc1 : computeRev H (i - splitPoint t) (t - splitPoint t) (leafHash H leaf1) r1 with
            | none => rw [hc1] at h1; cases h1
            | some l1 =>
              cases hc2 : computeRev H (i - splitPoint t) (t - splitPoint t) (leafHash H leaf2) r2 with
              | none => rw [hc2] at h2; cases h2
              | some l2 =>
                rw [hc1] at h1; rw [hc2] at h2
                have e1 := Option.some.inj h1
                have e2 := Option.some.inj h2
                by_cases hxy : (1 :: (a1 ++ l1) : Bytes) = 1 :: (a2 ++ l2)
                · have happ : a1 ++ l1 = a2 ++ l2 := by simpa using hxy
                  have hl1 := computeRev_length H hH r1 _ _ _ _ (hH _) hc1
                  have hl2 := computeRev_length H hH r2 _ _ _ _ (hH _) hc2
                  have := List.append_inj' happ (by omega)
                  obtain ⟨_, hl⟩ := this
                  subst hl
                  rcases ih r2 (i - splitPoint t) (t - splitPoint t) leaf1 leaf2 l1 hc1 hc2 with h | ⟨x, y, hc, hcol⟩
                  · exact Or.inl h
                  · refine Or.inr ⟨x, y, ?_, hcol⟩
                    simp only [collide, if_neg hik, hc1, hc2]
                    rw [if_neg (by simpa using happ)]
                    exact hc
                · refine Or.inr ⟨1 :: (a1 ++ l1), 1 :: (a2 ++ l2), ?_, hxy, ?_⟩
                  · simp only [collide, if_neg hik, hc1, hc2]
                    rw [if_pos hxy]
                  · simp only [innerHash] at e1 e2
                    rw [e1, e2]

end GnoVerif.C39
