/-
Proofs.C29Prefix — `PrefixDB` over a backend is the ordered map of the keys
carrying the prefix, with the prefix stripped (`pview`).
-/
import GnoVerif.Proofs.C29Refine

namespace GnoVerif.C29
open GnoVerif

/-- the entries whose key has prefix `p`, with `p` stripped. -/
def pview {α : Type} (m : OMapOf α) (p : Bytes) : OMapOf α :=
  (m.filter (fun it => Lex.hasPrefix p it.1)).map (fun it => (it.1.drop p.length, it.2))

theorem hasPrefix_append (p k : Bytes) : Lex.hasPrefix p (p ++ k) = true :=
  Lex.hasPrefix_iff.2 (List.prefix_append p k)

theorem drop_eq_iff {p k0 k : Bytes} (h : Lex.hasPrefix p k0 = true) : k0.drop p.length = k ↔ k0 = p ++ k := by
  have := Lex.prefix_eq_append (Lex.hasPrefix_iff.1 h)
  constructor
  · intro hk; rw [this, hk]
  · intro hk; rw [hk]; simp

theorem get_pview {α : Type} (m : OMapOf α) (p k : Bytes) : OMap.get (pview m p) k = OMap.get m (p ++ k) := by
  induction m with
  | nil => rfl
  | cons it m ih =>
    obtain ⟨k0, v⟩ := it
    unfold pview at ih ⊢
    rw [List.filter_cons]
    by_cases h : Lex.hasPrefix p k0 = true
    · simp only [h, if_true, List.map_cons, OMap.get_cons]
      by_cases hk : k0.drop p.length = k
      · have := (drop_eq_iff h).1 hk
        simp [hk, this]
      · have : ¬ k0 = p ++ k := fun e => hk ((drop_eq_iff h).2 e)
        simp only [hk, this, if_false]
        exact ih
    · have : ¬ k0 = p ++ k := by
        intro e; apply h; rw [e]; exact hasPrefix_append p k
      simp only [h, Bool.false_eq_true, if_false, OMap.get_cons, this]
      exact ih

theorem sorted_pview {α : Type} {m : OMapOf α} (hs : OMap.Sorted m) (p : Bytes) : OMap.Sorted (pview m p) := by
  unfold pview OMap.Sorted
  rw [List.pairwise_map]
  have hf : (m.filter (fun it => Lex.hasPrefix p it.1)).Pairwise (fun a b => a.1 < b.1) := List.Pairwise.filter _ hs
  refine List.Pairwise.imp_of_mem ?_ hf
  intro a b ha hb hab
  have pa := Lex.prefix_eq_append (Lex.hasPrefix_iff.1 (List.mem_filter.1 ha).2)
  have pb := Lex.prefix_eq_append (Lex.hasPrefix_iff.1 (List.mem_filter.1 hb).2)
  rw [pa, pb] at hab
  exact (Lex.append_lt_append_iff p _ _).1 hab

/-- the bounds `PrefixDB.Iterator` hands to its parent. -/
def pstart (p : Bytes) (s : Option Bytes) : Option Bytes := some (p ++ s.getD [])
def pend (p : Bytes) (e : Option Bytes) : Option Bytes :=
  match e with
  | some e => some (p ++ e)
  | none => cpIncr p

/-- inside the parent's bounds ⇔ the key carries the prefix and its remainder is inside the caller's bounds. -/
theorem inDomain_prefixed (p : Bytes) (s e : Option Bytes) (k : Bytes) :
    Lex.inDomain k (pstart p s) (pend p e) = (Lex.hasPrefix p k && Lex.inDomain (k.drop p.length) s e) := by
  rw [Bool.eq_iff_iff]
  simp only [Bool.and_eq_true, Lex.inDomain_iff, pstart, Option.some.injEq, forall_eq']
  constructor
  · rintro ⟨h1, h2⟩
    have hpre : p <+: k := by
      cases e with
      | some e0 => exact Lex.prefix_of_between h1 (h2 (p ++ e0) rfl)
      | none =>
        refine (Lex.prefix_iff_range p k).2 ⟨Lex.le_trans (Lex.le_append p _) h1, ?_⟩
        intro e' he'; exact h2 e' he'
    refine ⟨Lex.hasPrefix_iff.2 hpre, ?_, ?_⟩
    · intro a ha
      have hk := Lex.prefix_eq_append hpre
      rw [hk] at h1
      have := (Lex.append_le_append_iff p _ _).1 h1
      rw [ha] at this; exact this
    · intro b hb
      have hk := Lex.prefix_eq_append hpre
      have := h2 (p ++ b) (by simp [pend, hb])
      rw [hk] at this
      exact (Lex.append_lt_append_iff p _ _).1 this
  · rintro ⟨hpre, h1, h2⟩
    have hpre' := Lex.hasPrefix_iff.1 hpre
    have hk := Lex.prefix_eq_append hpre'
    refine ⟨?_, ?_⟩
    · rw [hk]
      apply (Lex.append_le_append_iff p _ _).2
      cases s with
      | none => exact Lex.nil_le _
      | some a => exact h1 a rfl
    · intro b hb
      cases e with
      | some e0 =>
        simp only [pend, Option.some.injEq] at hb
        subst hb
        rw [hk]
        exact (Lex.append_lt_append_iff p _ _).2 (h2 e0 rfl)
      | none =>
        exact ((Lex.prefix_iff_range p k).1 hpre').2 b hb

theorem takeWhile_eq_self {α : Type} (q : α → Bool) (l : List α) (h : ∀ x ∈ l, q x = true) : l.takeWhile q = l := by
  induction l with
  | nil => rfl
  | cons x l ih =>
    simp only [List.takeWhile_cons, h x (by simp), if_true]
    rw [ih (fun y hy => h y (by simp [hy]))]

/-- the parent's range, cut at the first foreign key and stripped, is the range of the prefixed view. -/
theorem prefix_range {α : Type} (m : OMapOf α) (p : Bytes) (s e : Option Bytes) (asc : Bool) :
    ((OMap.range m (pstart p s) (pend p e) asc).takeWhile (fun it => Lex.hasPrefix p it.1)).map
        (fun it => (it.1.drop p.length, it.2)) =
      OMap.range (pview m p) s e asc := by
  have hall : ∀ x ∈ OMap.range m (pstart p s) (pend p e) asc, Lex.hasPrefix p x.1 = true := by
    intro x hx
    have := (OMap.mem_range.1 hx).2
    rw [inDomain_prefixed] at this
    exact (Bool.and_eq_true _ _ ▸ this).1
  rw [takeWhile_eq_self _ _ hall]
  have hfil : m.filter (fun it => Lex.inDomain it.1 (pstart p s) (pend p e)) =
      (m.filter (fun it => Lex.hasPrefix p it.1)).filter (fun it => Lex.inDomain (it.1.drop p.length) s e) := by
    rw [List.filter_filter]
    apply List.filter_congr
    intro x _
    rw [inDomain_prefixed, Bool.and_comm]
  simp only [OMap.range, pview, List.filter_map, hfil]
  cases asc <;> simp [List.map_reverse, Function.comp_def]

end GnoVerif.C29
