import GnoVerif.Model.C53
/-! Helper lemmas for Props/C53.lean. -/
namespace GnoVerif.C53

theorem foldl_flatten {σ α : Type} (step : σ → α → σ) (s : σ) (chunks : List (List α)) :
    chunks.flatten.foldl step s = chunks.foldl (fun s c => c.foldl step s) s := by
  induction chunks generalizing s with
  | nil => rfl
  | cons c cs ih => simp [List.flatten_cons, List.foldl_append, ih]

/-- reading one line that contains no newline, followed by a newline -/
theorem readLinesAux_line (l rest cur : Bytes) (h : nl ∉ l) :
    readLinesAux (l ++ nl :: rest) cur = (cur.reverse ++ l) :: readLinesAux rest [] := by
  induction l generalizing cur with
  | nil => simp [readLinesAux]
  | cons b bs ih =>
    have hb : b ≠ nl := fun e => h (by simp [e])
    have hbs : nl ∉ bs := fun e => h (by simp [e])
    simp only [List.cons_append, readLinesAux, hb, if_false]
    rw [ih (b :: cur) hbs]
    simp

theorem readLinesAux_last (l cur : Bytes) (h : nl ∉ l) :
    readLinesAux l cur = if (cur.reverse ++ l).isEmpty then [] else [cur.reverse ++ l] := by
  induction l generalizing cur with
  | nil => simp [readLinesAux]
  | cons b bs ih =>
    have hb : b ≠ nl := fun e => h (by simp [e])
    have hbs : nl ∉ bs := fun e => h (by simp [e])
    simp only [readLinesAux, hb, if_false]
    rw [ih (b :: cur) hbs]
    simp

theorem writeLines_cons (l : Bytes) (ls : List Bytes) :
    writeLines (l :: ls) = l ++ nl :: writeLines ls := by
  simp [writeLines]

theorem readLines_writeLines_append (ls : List Bytes) (tail : Bytes)
    (h : ∀ l ∈ ls, nl ∉ l) :
    readLinesAux (writeLines ls ++ tail) [] = ls ++ readLinesAux tail [] := by
  induction ls with
  | nil => simp [writeLines]
  | cons l ls ih =>
    rw [writeLines_cons, List.append_assoc, List.cons_append,
      readLinesAux_line l _ [] (h l (by simp))]
    rw [ih (fun x hx => h x (by simp [hx]))]
    simp

/-- `applyBalances` as a closed form: entry number i of the list gets account number
    `next + i`; the write log lists the entries newest first. -/
theorem applyBalances_closed (st : St) (bs : List Bal) :
    (applyBalances st bs).accts =
        ((bs.zipIdx st.next).map fun p => (p.1.addr, (⟨p.2, 0, p.1.coins⟩ : Acct))).reverse ++ st.accts ∧
    (applyBalances st bs).next = st.next + bs.length ∧
    (applyBalances st bs).fc = st.fc ∧ (applyBalances st bs).deployed = st.deployed ∧
    (applyBalances st bs).v3 = st.v3 ∧ (applyBalances st bs).results = st.results := by
  induction bs generalizing st with
  | nil => simp [applyBalances]
  | cons b bs ih =>
    have := ih (applyBalance st b)
    simp only [applyBalances, List.foldl_cons] at this ⊢
    obtain ⟨h1, h2, h3, h4, h5, h6⟩ := this
    refine ⟨?_, ?_, ?_, ?_, ?_, ?_⟩
    · rw [h1]; simp [applyBalance, List.zipIdx_cons]
    · rw [h2]; simp [applyBalance]; omega
    · rw [h3]; rfl
    · rw [h4]; rfl
    · rw [h5]; rfl
    · rw [h6]; rfl

end GnoVerif.C53
