import GnoVerif.Model.C53
namespace GnoVerif.C53
end GnoVerif.C53
