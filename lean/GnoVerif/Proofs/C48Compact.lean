/- Helper lemmas for C48: CompactBitArray. -/
import GnoVerif.Proofs.C48Top
namespace GnoVerif.C48

/-! ### bytes, most significant bit first -/

theorem byteBit_eq (e : Byte) (k : Nat) (_hk : k < 8) : byteBit e k = e.getLsbD (7 - k) :=
  bitTest_eq e (7 - k) (by omega)

theorem cbitAt_of_ge (es : List Byte) (i : Nat) (h : es.length ≤ i / 8) : cbitAt es i = false := by
  unfold cbitAt
  rw [List.getD_eq_getElem?_getD, List.getElem?_eq_none h]
  simp

theorem cbitAt_set (es : List Byte) (j : Nat) (w : Byte) (i : Nat) :
    cbitAt (es.set j w) i =
      if i / 8 = j ∧ j < es.length then w.getLsbD (7 - i % 8) else cbitAt es i := by
  unfold cbitAt
  simp only [List.getD_eq_getElem?_getD, List.getElem?_set]
  by_cases h : i / 8 = j
  · subst h
    by_cases h2 : i / 8 < es.length
    · simp [h2]
    · simp [h2]
  · have : ¬ j = i / 8 := fun e => h e.symm
    simp [h, this]

theorem cbitAt_replicate_zero (n i : Nat) : cbitAt (List.replicate n 0) i = false := by
  unfold cbitAt
  rw [getD_replicate_self]; simp

theorem bytes_ext (a b : List Byte) (hl : a.length = b.length)
    (h : ∀ i, cbitAt a i = cbitAt b i) : a = b := by
  apply List.ext_getElem hl
  intro j h1 h2
  apply BitVec.eq_of_getLsbD_eq
  intro k hk
  have := h (8 * j + (7 - k))
  unfold cbitAt at this
  rw [show (8 * j + (7 - k)) / 8 = j by omega, show 7 - (8 * j + (7 - k)) % 8 = k by omega] at this
  simpa [List.getD_eq_getElem?_getD, List.getElem?_eq_getElem h1, List.getElem?_eq_getElem h2] using this

/-! ### Size -/

theorem byte_eq_zero_iff (e : Byte) : e = 0 ↔ e.toNat = 0 := by
  constructor
  · intro h; subst h; rfl
  · intro h; exact BitVec.eq_of_toNat_eq (by rw [h]; rfl)

theorem CBA.size_eq (c : CBA) :
    c.size = if c.extra.toNat = 0 then (c.elems.length : Int) * 8
      else ((c.elems.length : Int) - 1) * 8 + (c.extra.toNat : Int) := by
  unfold CBA.size
  by_cases h : c.extra = 0
  · rw [if_pos h, if_pos ((byte_eq_zero_iff _).1 h)]
  · rw [if_neg h, if_neg (fun h' => h ((byte_eq_zero_iff _).2 h'))]

theorem CBA.WF.len_pos {c : CBA} (h : c.WF) (he : c.extra.toNat ≠ 0) : 0 < c.elems.length := by
  apply List.length_pos_iff.2
  exact h.nonempty (fun h' => he ((byte_eq_zero_iff _).1 h'))

theorem CBA.WF.size_nonneg {c : CBA} (h : c.WF) : 0 ≤ c.size := by
  rw [c.size_eq]
  split
  · omega
  · rename_i he
    have := h.len_pos he
    omega

theorem CBA.WF.div_lt_len {c : CBA} (h : c.WF) (i : Nat) (hi : (i : Int) < c.size) :
    i / 8 < c.elems.length := by
  rw [c.size_eq] at hi
  have := h.extra
  split at hi
  · omega
  · rename_i he
    have := h.len_pos he
    omega

theorem CBA.size_congr (c c' : CBA) (he : c'.extra = c.extra)
    (hl : c'.elems.length = c.elems.length) : c'.size = c.size := by
  unfold CBA.size
  rw [he, hl]

/-! ### abstraction -/

theorem length_cabs (c : CBA) : c.abs.length = c.size.toNat := by simp [CBA.abs]

theorem bget_cabs (c : CBA) (i : Nat) :
    bget c.abs i = (decide (i < c.size.toNat) && cbitAt c.elems i) := by
  by_cases h : i < c.size.toNat
  · rw [bget_of_lt _ _ (by simpa [length_cabs] using h)]
    simp [CBA.abs, h]
  · rw [bget_of_ge _ _ (by simpa [length_cabs] using Nat.le_of_not_lt h)]
    simp [h]

theorem cabs_eq_of (c : CBA) (v : List Bool) (hl : v.length = c.size.toNat)
    (h : ∀ i, i < c.size.toNat → bget v i = cbitAt c.elems i) : c.abs = v := by
  apply vec_ext _ _ (by rw [length_cabs, hl])
  intro i hi
  rw [length_cabs] at hi
  rw [bget_cabs, h i hi]; simp [hi]

/-! ### GetIndex, SetIndex -/

theorem CBA.getIndex_spec (c : CBA) (h : c.WF) (i : Int) :
    c.getIndex i = (decide (0 ≤ i) && bget c.abs i.toNat) := by
  unfold CBA.getIndex CBA.outOfRange
  rw [bget_cabs]
  have hs := h.size_nonneg
  by_cases h0 : i < 0
  · simp [h0, show ¬ 0 ≤ i by omega]
  · by_cases h1 : i ≥ c.size
    · simp [h0, h1, show ¬ i.toNat < c.size.toNat by omega]
    · have h2 : i.toNat / 8 < c.elems.length := h.div_lt_len i.toNat (by omega)
      simp only [h0, h1, decide_false, Bool.false_or, show ¬ i.toNat / 8 ≥ c.elems.length by omega,
        Bool.false_eq_true, if_false]
      rw [byteBit_eq _ _ (by omega)]
      simp [show 0 ≤ i by omega, show i.toNat < c.size.toNat by omega, cbitAt]

theorem CBA.setIndex_in (c : CBA) (h : c.WF) (i : Int) (v : Bool) (h0 : 0 ≤ i) (h1 : i < c.size) :
    (c.setIndex i v).2 = true ∧ (c.setIndex i v).1.extra = c.extra ∧
    (c.setIndex i v).1.elems.length = c.elems.length ∧
    ∀ j, cbitAt (c.setIndex i v).1.elems j = if j = i.toNat then v else cbitAt c.elems j := by
  have h2 : i.toNat / 8 < c.elems.length := h.div_lt_len i.toNat (by omega)
  unfold CBA.setIndex CBA.outOfRange
  simp only [show ¬ i < 0 by omega, show ¬ i ≥ c.size by omega, decide_false, Bool.false_or,
    show ¬ i.toNat / 8 ≥ c.elems.length by omega, Bool.false_eq_true, if_false]
  refine ⟨trivial, trivial, by simp, ?_⟩
  intro j
  rw [cbitAt_set]
  generalize i.toNat = k at *
  have hk8 : 7 - k % 8 < 8 := by omega
  have hj8 : 7 - j % 8 < 8 := by omega
  by_cases hw : j / 8 = k / 8
  · simp only [hw, h2, and_self, if_true]
    have hb : cbitAt c.elems j = (c.elems.getD (k / 8) 0).getLsbD (7 - j % 8) := by
      unfold cbitAt; rw [hw]
    rw [hb]
    have hiff : (7 - k % 8 = 7 - j % 8) ↔ j = k := by omega
    cases v
    · simp only [Bool.false_eq_true, if_false]
      rw [getLsbD_clearBit _ _ _ hk8 hj8]
      by_cases hjk : j = k
      · simp [hjk]
      · simp [hjk, hiff]
    · simp only [if_true]
      rw [getLsbD_setBit _ _ _ hk8]
      by_cases hjk : j = k
      · simp [hjk]
      · simp [hjk, hiff]
  · have hjk : ¬ j = k := fun e => hw (by rw [e])
    simp [hw, hjk]

theorem CBA.setIndex_out (c : CBA) (i : Int) (v : Bool) (h : i < 0 ∨ c.size ≤ i) :
    c.setIndex i v = (c, false) := by
  unfold CBA.setIndex CBA.outOfRange
  rcases h with h | h
  · simp [h]
  · simp [show i ≥ c.size from h]

theorem CBA.setIndex_full (c : CBA) (h : c.WF) (i : Int) (v : Bool) :
    (c.setIndex i v).1.WF ∧ (c.setIndex i v).2 = decide (0 ≤ i ∧ i < c.size) ∧
    (c.setIndex i v).1.abs = (if 0 ≤ i then c.abs.set i.toNat v else c.abs) ∧
    (c.Canon → (c.setIndex i v).1.Canon) := by
  by_cases hin : 0 ≤ i ∧ i < c.size
  · obtain ⟨s1, s2, s3, s4⟩ := c.setIndex_in h i v hin.1 hin.2
    have hsz := c.size_congr _ s2 s3
    have hwf : (c.setIndex i v).1.WF := by
      refine ⟨by rw [s2]; exact h.extra, fun he => ?_⟩
      rw [s2] at he
      have := List.length_pos_iff.2 (h.nonempty he)
      apply List.length_pos_iff.1
      omega
    refine ⟨hwf, by rw [s1]; simp [hin], ?_, ?_⟩
    · rw [if_pos hin.1]
      apply cabs_eq_of
      · rw [hsz]; simp [length_cabs]
      · intro j hj
        rw [s4, bget_set, bget_cabs, length_cabs]
        rw [hsz] at hj
        have : i.toNat < c.size.toNat := by omega
        by_cases hji : j = i.toNat <;> simp [hji, this, hj]
    · intro hc
      refine ⟨hwf, fun j hj => ?_⟩
      rw [hsz] at hj
      rw [s4, if_neg (by omega)]
      exact hc.2 j hj
  · have hout : i < 0 ∨ c.size ≤ i := by omega
    rw [c.setIndex_out i v hout]
    refine ⟨h, by simp [hin], ?_, fun hc => hc⟩
    simp only
    split
    · rw [List.set_eq_of_length_le]
      rw [length_cabs]
      have := h.size_nonneg
      omega
    · rfl

/-! ### NumTrueBitsBefore -/

theorem countP_range_bget (l : List Bool) : ∀ n,
    (List.range n).countP (fun i => bget l i) = (l.take n).count true
  | 0 => by simp
  | n + 1 => by
    rw [List.range_succ, List.countP_append, countP_range_bget l n, List.take_add_one,
      List.count_append]
    congr 1
    rcases Nat.lt_or_ge n l.length with h | h
    · rw [List.getElem?_eq_getElem h]
      simp only [List.countP_cons, List.countP_nil, Option.toList_some, List.count_cons,
        List.count_nil, bget_of_lt l n h]
      cases l[n] <;> simp
    · rw [List.getElem?_eq_none h]
      simp [bget_of_ge l n h]

/-! ### the shape `NewCompactBitArray(n)` produces -/

theorem size_of_shape (c : CBA) (n : Nat) (_hn : 0 < n) (he : c.extra.toNat = n % 8)
    (hl : c.elems.length = (n + 7) / 8) : c.size = (n : Int) := by
  rw [c.size_eq, he, hl]
  split <;> omega

theorem wf_of_shape (c : CBA) (n : Nat) (_hn : 0 < n) (he : c.extra.toNat = n % 8)
    (hl : c.elems.length = (n + 7) / 8) : c.WF := by
  refine ⟨by omega, fun _ => ?_⟩
  apply List.length_pos_iff.1
  omega

theorem toNat_ofNat_mod8 (n : Nat) : (BitVec.ofNat 8 (n % 8)).toNat = n % 8 := by
  rw [BitVec.toNat_ofNat]; omega

/-- a well-formed compact array is determined by its size as far as the fields' shape goes -/
theorem CBA.WF.shape {c : CBA} (h : c.WF) (n : Nat) (hs : c.size = (n : Int)) :
    c.extra.toNat = n % 8 ∧ c.elems.length = (n + 7) / 8 := by
  rw [c.size_eq] at hs
  have := h.extra
  split at hs
  · omega
  · rename_i he
    have := h.len_pos he
    omega

theorem CBA.Canon.abs_inj {a b : CBA} (ha : a.Canon) (hb : b.Canon) (h : a.abs = b.abs) : a = b := by
  have hsa := ha.1.size_nonneg
  have hsb := hb.1.size_nonneg
  have hsz : a.size.toNat = b.size.toNat := by rw [← length_cabs a, ← length_cabs b, h]
  obtain ⟨n, hn⟩ : ∃ n : Nat, a.size = (n : Int) := ⟨a.size.toNat, by omega⟩
  have hn' : b.size = (n : Int) := by omega
  obtain ⟨e1, l1⟩ := ha.1.shape n hn
  obtain ⟨e2, l2⟩ := hb.1.shape n hn'
  cases a with | mk ae al =>
  cases b with | mk be bl =>
  simp only at e1 l1 e2 l2
  have hext : ae = be := BitVec.eq_of_toNat_eq (by rw [e1, e2])
  subst hext
  congr 1
  apply bytes_ext _ _ (by rw [l1, l2])
  intro i
  have h1 := bget_cabs ⟨ae, al⟩ i
  have h2 := bget_cabs ⟨ae, bl⟩ i
  rw [h] at h1
  rw [h2] at h1
  rcases Nat.lt_or_ge i (CBA.size ⟨ae, al⟩).toNat with hi | hi
  · simp only [hi, show i < (CBA.size ⟨ae, bl⟩).toNat by omega, decide_true, Bool.true_and] at h1
    exact h1.symm
  · rw [ha.2 i hi, hb.2 i (by omega)]

theorem newCompact_spec (n : Int) :
    CWF (newCompact n) ∧ (∀ c, newCompact n = some c → c.Canon) ∧
      cabs (newCompact n) = List.replicate n.toNat false ∧ (newCompact n = none ↔ n ≤ 0) := by
  unfold newCompact
  by_cases h : n ≤ 0
  · rw [if_pos h]
    have : n.toNat = 0 := by omega
    simp [CWF, cabs, this, h]
  · rw [if_neg h]
    have hn : 0 < n.toNat := by omega
    have hsz := size_of_shape ⟨BitVec.ofNat 8 (n.toNat % 8), List.replicate ((n.toNat + 7) / 8) 0⟩
      n.toNat hn (toNat_ofNat_mod8 _) (by simp)
    have hwf := wf_of_shape ⟨BitVec.ofNat 8 (n.toNat % 8), List.replicate ((n.toNat + 7) / 8) 0⟩
      n.toNat hn (toNat_ofNat_mod8 _) (by simp)
    refine ⟨hwf, ?_, ?_, by simp [h]⟩
    · intro c hc
      injection hc with hc
      subst hc
      exact ⟨hwf, fun i _ => cbitAt_replicate_zero _ i⟩
    · simp only [cabs]
      apply cabs_eq_of
      · rw [hsz, List.length_replicate, Int.toNat_natCast]
      · intro i hi
        rw [hsz, Int.toNat_natCast] at hi
        simp only
        rw [cbitAt_replicate_zero, bget_of_lt _ _ (by rw [List.length_replicate]; exact hi)]
        simp

/-! ### JSON -/

theorem cmarshalJSON_some_spec (c : CBA) (h : c.WF) : cmarshalJSON (some c) = specJSON c.abs := by
  simp only [cmarshalJSON, specJSON, bitChars, CBA.abs, List.map_map]
  congr 2
  apply List.map_congr_left
  intro i hi
  have hi := List.mem_range.1 hi
  have : c.getIndex (i : Int) = cbitAt c.elems i := by
    rw [c.getIndex_spec h, bget_cabs]
    simp [hi]
  simp only [Function.comp, this]

theorem cfillFrom_spec (chars : List Byte) (n : Nat) (hn : chars.length = n) (hpos : 0 < n)
    (c0 : CBA) (he : c0.extra.toNat = n % 8) (hl : c0.elems.length = (n + 7) / 8)
    (hz : ∀ i, cbitAt c0.elems i = false) :
    (cfillFrom chars c0).extra = c0.extra ∧ (cfillFrom chars c0).elems.length = (n + 7) / 8 ∧
    ∀ i, cbitAt (cfillFrom chars c0).elems i =
      (decide (i < n) && decide (chars.getD i 0 = cX)) := by
  unfold cfillFrom
  rw [hn]
  suffices h : ∀ k, k ≤ n →
      let r := (List.range k).foldl
        (fun c (i : Nat) => if chars.getD i 0 = cX then (c.setIndex (i : Int) true).1 else c) c0
      r.extra = c0.extra ∧ r.elems.length = (n + 7) / 8 ∧
      ∀ i, cbitAt r.elems i = (decide (i < k) && decide (chars.getD i 0 = cX)) by
    exact h n (Nat.le_refl _)
  intro k
  induction k with
  | zero =>
    intro _
    refine ⟨rfl, hl, fun i => ?_⟩
    simp only [List.range_zero, List.foldl_nil]
    rw [hz]; simp
  | succ k ih =>
    intro hk
    obtain ⟨h1, h2, h3⟩ := ih (by omega)
    simp only [List.range_succ, List.foldl_append, List.foldl_cons, List.foldl_nil]
    generalize (List.range k).foldl
        (fun c (i : Nat) => if chars.getD i 0 = cX then (c.setIndex (i : Int) true).1 else c) c0
        = r at h1 h2 h3
    have hre : r.extra.toNat = n % 8 := by rw [h1, he]
    by_cases hx : chars.getD k 0 = cX
    · rw [if_pos hx]
      have hsz := size_of_shape r n hpos hre h2
      obtain ⟨_, s2, s3, s4⟩ := r.setIndex_in (wf_of_shape r n hpos hre h2) (k : Int) true
        (by omega) (by omega)
      refine ⟨by rw [s2, h1], by rw [s3, h2], fun i => ?_⟩
      rw [s4, h3, Int.toNat_natCast]
      by_cases hik : i = k
      · subst hik; rw [if_pos rfl, decide_eq_true hx]; simp
      · have : (i < k + 1) ↔ i < k := by omega
        simp [hik, this]
    · rw [if_neg hx]
      refine ⟨h1, h2, fun i => ?_⟩
      rw [h3]
      by_cases hik : i = k
      · subst hik; rw [decide_eq_false hx]; simp
      · have : (i < k + 1) ↔ i < k := by omega
        simp [this]

theorem newCompact_natCast (n : Nat) :
    newCompact (n : Int) = if n = 0 then none
      else some ⟨BitVec.ofNat 8 (n % 8), List.replicate ((n + 7) / 8) 0⟩ := by
  unfold newCompact
  by_cases h : n = 0
  · subst h; simp
  · rw [if_neg (by omega), if_neg h]; simp

theorem canon_empty : (⟨0, []⟩ : CBA).Canon :=
  ⟨⟨by decide, fun h => absurd rfl h⟩, fun i _ => by simp [cbitAt]⟩

theorem cfill_canon (chars : List Byte) (hpos : 0 < chars.length) :
    (cfillFrom chars ⟨BitVec.ofNat 8 (chars.length % 8), List.replicate ((chars.length + 7) / 8) 0⟩).Canon ∧
    (cfillFrom chars ⟨BitVec.ofNat 8 (chars.length % 8), List.replicate ((chars.length + 7) / 8) 0⟩).size
      = (chars.length : Int) ∧
    ∀ i, cbitAt (cfillFrom chars
        ⟨BitVec.ofNat 8 (chars.length % 8), List.replicate ((chars.length + 7) / 8) 0⟩).elems i =
      (decide (i < chars.length) && decide (chars.getD i 0 = cX)) := by
  obtain ⟨h1, h2, h3⟩ := cfillFrom_spec chars chars.length rfl hpos
    ⟨BitVec.ofNat 8 (chars.length % 8), List.replicate ((chars.length + 7) / 8) 0⟩
    (toNat_ofNat_mod8 _) (by simp) (fun i => cbitAt_replicate_zero _ i)
  have he : (cfillFrom chars ⟨BitVec.ofNat 8 (chars.length % 8),
      List.replicate ((chars.length + 7) / 8) 0⟩).extra.toNat = chars.length % 8 := by
    rw [h1]; exact toNat_ofNat_mod8 _
  have hsz := size_of_shape _ chars.length hpos he h2
  refine ⟨⟨wf_of_shape _ chars.length hpos he h2, fun i hi => ?_⟩, hsz, h3⟩
  rw [hsz] at hi
  rw [h3]; simp [show ¬ i < chars.length by omega]

/-- whatever UnmarshalJSON accepts has consistent fields and no stray bits -/
theorem cunmarshalJSON_canon (bz : List Byte) (c : CBA) (h : cunmarshalJSON bz = .ok c) :
    c.Canon := by
  unfold cunmarshalJSON at h
  split at h
  · injection h with h; subst h; exact canon_empty
  · split at h
    · cases h
    · rename_i chars _
      rw [newCompact_natCast] at h
      by_cases h0 : chars.length = 0
      · rw [if_pos h0] at h
        injection h with h; subst h; exact canon_empty
      · rw [if_neg h0] at h
        injection h with h; subst h
        exact (cfill_canon chars (by omega)).1

theorem cunmarshalJSON_specJSON (v : List Bool) :
    ∃ c, cunmarshalJSON (specJSON v) = .ok c ∧ c.Canon ∧ c.abs = v := by
  unfold cunmarshalJSON
  rw [if_neg (specJSON_ne_null v), matchBitString_specJSON]
  simp only
  rw [newCompact_natCast]
  by_cases h0 : (v.map encBit).length = 0
  · rw [if_pos h0]
    refine ⟨_, rfl, canon_empty, ?_⟩
    rw [List.length_map] at h0
    rw [List.length_eq_zero_iff.1 h0]; rfl
  · rw [if_neg h0]
    obtain ⟨h1, h2, h3⟩ := cfill_canon (v.map encBit) (by omega)
    refine ⟨_, rfl, h1, ?_⟩
    have hlen : (v.map encBit).length = v.length := List.length_map _
    apply cabs_eq_of
    · rw [h2, Int.toNat_natCast, hlen]
    · intro i hi
      rw [h2, Int.toNat_natCast, hlen] at hi
      rw [h3, bget_of_lt v i hi, hlen]
      have : (v.map encBit).getD i 0 = encBit v[i] := by
        rw [List.getD_eq_getElem?_getD, List.getElem?_map, List.getElem?_eq_getElem hi]; rfl
      rw [this]
      simp [hi, encBit_eq_cX]

end GnoVerif.C48
