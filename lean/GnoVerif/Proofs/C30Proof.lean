import GnoVerif.Proofs.C30Read
import GnoVerif.Model.C30Proof
/-!
C30 helper lemmas, part 8: ICS23 proofs.  What `ExistenceProof.Calculate` computes
from a proof built by `createExistenceProof` is the root hash of the tree
(completeness of membership proofs), for every hash function with 32-byte output.
-/
namespace GnoVerif.C30
open GnoVerif

theorem uvarint_32 : Node.uvarint 32 = [0x20] := by
  rw [Node.uvarint]; simp

/-- ICS23 length-prefixes the prehashed value with `uvarint(32)`; IAVL writes the constant 0x20 -/
theorem encodeBytes_hash {H : Bytes → Bytes} (h32 : ∀ x, (H x).length = 32) (x : Bytes) :
    Node.encodeBytes (H x) = Node.encode32 (H x) := by
  simp only [Node.encodeBytes, Node.encode32, h32, uvarint_32, List.singleton_append]

theorem hash_length {H : Bytes → Bytes} (h32 : ∀ x, (H x).length = 32) (wv : Int) (n : Node) :
    (n.hash H wv).length = 32 := by
  cases n <;> simp only [Node.hash, h32]

/-- fold of the converted path over a start value -/
def climb (H : Bytes → Bytes) (path : List PIN) (start : Bytes) : Bytes :=
  (convertInnerOps path).foldl (fun acc op => applyInner H op acc) start

theorem climb_cons (H : Bytes → Bytes) (p : PIN) (path : List PIN) (start : Bytes) :
    climb H (p :: path) start = applyInner H (convertInner p) (climb H path start) := by
  simp only [climb, convertInnerOps, List.reverse_cons, List.map_append, List.map_cons, List.map_nil,
    List.foldl_append, List.foldl_cons, List.foldl_nil]

/-- climbing the path from the leaf's ICS23 hash reaches the hash of the node the path starts at -/
theorem pathToLeaf_calc {H : Bytes → Bytes} (h32 : ∀ x, (H x).length = 32) (wv : Int) (n : Node) (key : Bytes) :
    match (n.pathToLeaf H wv key).2.1 with
    | .leaf k v nk =>
      climb H (n.pathToLeaf H wv key).1 (applyLeaf H (leafPrefix (Node.hashVersion wv nk)) k v) = n.hash H wv
    | .inner .. => False := by
  induction n with
  | leaf k v nk =>
    simp only [Node.pathToLeaf, climb, convertInnerOps, List.reverse_nil, List.map_nil, List.foldl_nil,
      applyLeaf, leafPrefix, Node.hash, encodeBytes_hash h32]
  | inner k h s nk l r ihl ihr =>
    simp only [Node.pathToLeaf]
    by_cases hlt : key < k
    · simp only [hlt, if_true]
      cases hlf : (l.pathToLeaf H wv key).2.1 with
      | inner => rw [hlf] at ihl; exact ihl
      | leaf k' v' nk' =>
        rw [hlf] at ihl
        simp only at ihl ⊢
        rw [climb_cons, ihl]
        simp only [applyInner, convertInner, Option.getD_some, Node.hash, Node.encode32, List.append_assoc,
          List.singleton_append, List.cons_append, List.nil_append]
    · simp only [hlt, if_false]
      cases hlf : (r.pathToLeaf H wv key).2.1 with
      | inner => rw [hlf] at ihr; exact ihr
      | leaf k' v' nk' =>
        rw [hlf] at ihr
        simp only at ihr ⊢
        rw [climb_cons, ihr]
        have hpos : (l.hash H wv).length > 0 := by rw [hash_length h32]; omega
        simp only [applyInner, convertInner, hpos, if_true, Node.hash, Node.encode32, List.append_assoc,
          List.singleton_append, List.cons_append, List.nil_append, List.append_nil]

/-- the leaf a search for `key` ends in is the one `get` reads -/
theorem pathToLeaf_get (H : Bytes → Bytes) (wv : Int) (n : Node) (key : Bytes) :
    match (n.pathToLeaf H wv key).2.1 with
    | .leaf k v _ => (n.pathToLeaf H wv key).2.2 = decide (k = key) ∧
        (n.get key).2 = if k = key then some v else none
    | .inner .. => False := by
  induction n with
  | leaf k v nk =>
    simp only [Node.pathToLeaf, Node.get, true_and]
    by_cases h : k = key
    · subst h; simp [Lex.lt_irrefl]
    · by_cases h2 : k < key
      · simp [h, h2]
      · have h3 : key < k := by
          rcases Lex.lt_trichotomy k key with hh | hh | hh
          · exact absurd hh h2
          · exact absurd hh h
          · exact hh
        simp [h, h2, h3]
  | inner k h s nk l r ihl ihr =>
    simp only [Node.pathToLeaf, Node.get]
    by_cases hlt : key < k
    · simp only [hlt, if_true]; exact ihl
    · simp only [hlt, if_false]
      cases hlf : (r.pathToLeaf H wv key).2.1 with
      | inner => rw [hlf] at ihr; exact ihr
      | leaf k' v' nk' => rw [hlf] at ihr; exact ihr

/-- completeness of membership proofs: `GetMembershipProof` succeeds exactly for the keys
`get` finds; the proof names the key and its value, and ICS23's `Calculate` maps it to the
root hash of the tree -/
theorem membershipProof_spec {H : Bytes → Bytes} (h32 : ∀ x, (H x).length = 32) (treeVersion : Int)
    (root : Node) (key : Bytes) :
    (∀ v, (root.get key).2 = some v →
      ∃ p, membershipProof H treeVersion root key = .ok p ∧ p.key = key ∧ p.value = v ∧
        p.calc H = root.hash H (treeVersion + 1)) ∧
    ((root.get key).2 = none → membershipProof H treeVersion root key = .error .absent) := by
  have hc := pathToLeaf_calc h32 (treeVersion + 1) root key
  have hg := pathToLeaf_get H (treeVersion + 1) root key
  rcases hp : root.pathToLeaf H (treeVersion + 1) key with ⟨path, lf, found⟩
  rw [hp] at hc hg
  simp only at hc hg
  simp only [membershipProof, createExistenceProof, hp]
  cases lf with
  | inner => exact hc.elim
  | leaf k v nk =>
    simp only at hc hg ⊢
    obtain ⟨hfound, hget⟩ := hg
    subst hfound
    by_cases hk : k = key
    · subst hk
      simp only [if_true] at hget
      constructor
      · intro v' hv'
        rw [hget] at hv'
        simp only [Option.some.injEq] at hv'
        subst hv'
        refine ⟨⟨k, v, leafPrefix (Node.hashVersion (treeVersion + 1) nk), convertInnerOps path⟩, by simp, rfl, rfl, ?_⟩
        simpa [ExistProof.calc, climb] using hc
      · intro hn; rw [hget] at hn; cases hn
    · simp only [hk, if_false] at hget
      constructor
      · intro v' hv'; rw [hget] at hv'; cases hv'
      · intro _; simp [hk]

/-- in a sorted list the keys below `key` are exactly the first `rank` entries -/
theorem rank_split {m : List (Bytes × Bytes)} (hs : OMap.Sorted m) (key : Bytes) :
    ∀ (j : Nat) (hj : j < m.length), (j < (m.filter (fun q => q.1 < key)).length ↔ (m[j]).1 < key) := by
  induction m with
  | nil => intro j hj; simp at hj
  | cons p t ih =>
    intro j hj
    have hst : OMap.Sorted t := (List.pairwise_cons.1 hs).2
    have hpt : ∀ q ∈ t, p.1 < q.1 := (List.pairwise_cons.1 hs).1
    by_cases hp : p.1 < key
    · simp only [List.filter_cons, hp, decide_true, if_true, List.length_cons]
      cases j with
      | zero => simp [hp]
      | succ j' =>
        have hj' : j' < t.length := by simpa using hj
        simp only [List.getElem_cons_succ]
        have := ih hst j' hj'
        constructor
        · intro h; exact this.1 (by omega)
        · intro h; have := this.2 h; omega
    · have hnil : t.filter (fun q => q.1 < key) = [] := by
        rw [List.filter_eq_nil_iff]
        intro q hq
        have h1 := hpt q hq
        have : ¬ q.1 < key := fun h2 => hp (Lex.lt_trans h1 h2)
        simpa using this
      simp only [List.filter_cons, hp, decide_false, Bool.false_eq_true, if_false, hnil, List.length_nil]
      cases j with
      | zero => simp [hp]
      | succ j' =>
        have hj' : j' < t.length := by simpa using hj
        simp only [List.getElem_cons_succ]
        have h1 := hpt _ (List.getElem_mem hj')
        have : ¬ (t[j']).1 < key := fun h2 => hp (Lex.lt_trans h1 h2)
        simp [this]

/-- the existence proof of a present key, as `createExistenceProof` builds it -/
theorem createExistenceProof_present {H : Bytes → Bytes} (h32 : ∀ x, (H x).length = 32) (treeVersion : Int)
    {root : Node} (hw : root.WF) {key v : Bytes} (hv : OMap.get root.toList key = some v) :
    (createExistenceProof H treeVersion root key).1.key = key ∧
    (createExistenceProof H treeVersion root key).1.value = v ∧
    (createExistenceProof H treeVersion root key).1.calc H = root.hash H (treeVersion + 1) := by
  have hg : (root.get key).2 = some v := by rw [Node.get_spec hw key]; exact hv
  obtain ⟨p, hp, h1, h2, h3⟩ := (membershipProof_spec h32 treeVersion root key).1 v hg
  simp only [membershipProof] at hp
  split at hp
  · simp only [Except.ok.injEq] at hp
    rw [hp]; exact ⟨h1, h2, h3⟩
  · cases hp

/-- Absence proofs: for a key the tree does not hold, `GetNonMembershipProof` succeeds and
carries the existence proofs of the two neighbours of the key in the sorted list — entry
`i - 1` (absent when `i = 0`) and entry `i` (absent when `i = size`), where `i` is the number
of stored keys below the key — each of which ICS23's `Calculate` maps to the root hash.  (That
the two paths are adjacent is what the ICS23 verifier checks; it is not modelled.) -/
theorem nonMembershipProof_spec {H : Bytes → Bytes} (h32 : ∀ x, (H x).length = 32) (treeVersion : Int)
    (root : Node) (hw : root.WF) (key : Bytes) (habs : OMap.get root.toList key = none) :
    ∃ p, nonMembershipProof H treeVersion (some root) key = .ok p ∧ p.key = key ∧
      (∀ (j : Nat) (hj : j < root.toList.length), j + 1 = (root.toList.filter (fun q => q.1 < key)).length →
        ∃ pl, p.left = some pl ∧ pl.key = (root.toList[j]).1 ∧ pl.value = (root.toList[j]).2 ∧
          pl.calc H = root.hash H (treeVersion + 1)) ∧
      ((root.toList.filter (fun q => q.1 < key)).length = 0 → p.left = none) ∧
      (∀ (j : Nat) (hj : j < root.toList.length), j = (root.toList.filter (fun q => q.1 < key)).length →
        ∃ pr, p.right = some pr ∧ pr.key = (root.toList[j]).1 ∧ pr.value = (root.toList[j]).2 ∧
          pr.calc H = root.hash H (treeVersion + 1)) ∧
      ((root.toList.filter (fun q => q.1 < key)).length = root.toList.length → p.right = none) := by
  have hget := Node.get_spec hw key
  rw [habs] at hget
  -- every entry of the list is a present key
  have hentry : ∀ (j : Nat) (hj : j < root.toList.length),
      OMap.get root.toList (root.toList[j]).1 = some (root.toList[j]).2 :=
    fun j hj => OMap.get_of_mem hw.2 (List.getElem_mem hj)
  simp only [nonMembershipProof, hget]
  refine ⟨_, rfl, rfl, ?_, ?_, ?_, ?_⟩
  · intro j hj hji
    have hidx : ((((root.toList.filter (fun q => q.1 < key)).length : Nat) : Int) - 1) = (j : Int) := by omega
    have hge : ((((root.toList.filter (fun q => q.1 < key)).length : Nat) : Int)) ≥ 1 := by omega
    simp only [hge, if_true, hidx, Node.getByIndex_spec hw.1 hj]
    obtain ⟨a, b, c⟩ := createExistenceProof_present h32 treeVersion hw (hentry j hj)
    exact ⟨_, rfl, a, b, c⟩
  · intro h0
    have : ¬ ((((root.toList.filter (fun q => q.1 < key)).length : Nat) : Int) ≥ 1) := by omega
    simp only [this, if_false]
  · intro j hj hji
    subst hji
    simp only [Node.getByIndex_spec hw.1 hj]
    obtain ⟨a, b, c⟩ := createExistenceProof_present h32 treeVersion hw (hentry _ hj)
    exact ⟨_, rfl, a, b, c⟩
  · intro hlen
    have : Node.getByIndex root (((root.toList.filter (fun q => q.1 < key)).length : Nat) : Int) = none :=
      Node.getByIndex_none hw.1 (Or.inr (by omega))
    simp only [this]

end GnoVerif.C30
