import GnoVerif.Proofs.C30Read
import GnoVerif.Model.C30Proof
/-!
C30 helper lemmas, part 8: ICS23 proofs.  What `ExistenceProof.Calculate` computes
from a proof built by `createExistenceProof` is the root hash of the tree
(completeness of membership proofs), for every hash function with 32-byte output.
-/
namespace GnoVerif.C30
open GnoVerif

theorem uvarint_32 : Node.uvarint 32 = [0x20] := by
  rw [Node.uvarint]; simp

/-- ICS23 length-prefixes the prehashed value with `uvarint(32)`; IAVL writes the constant 0x20 -/
theorem encodeBytes_hash {H : Bytes → Bytes} (h32 : ∀ x, (H x).length = 32) (x : Bytes) :
    Node.encodeBytes (H x) = Node.encode32 (H x) := by
  simp only [Node.encodeBytes, Node.encode32, h32, uvarint_32, List.singleton_append]

theorem hash_length {H : Bytes → Bytes} (h32 : ∀ x, (H x).length = 32) (wv : Int) (n : Node) :
    (n.hash H wv).length = 32 := by
  cases n <;> simp only [Node.hash, h32]

/-- fold of the converted path over a start value -/
def climb (H : Bytes → Bytes) (path : List PIN) (start : Bytes) : Bytes :=
  (convertInnerOps path).foldl (fun acc op => applyInner H op acc) start

theorem climb_cons (H : Bytes → Bytes) (p : PIN) (path : List PIN) (start : Bytes) :
    climb H (p :: path) start = applyInner H (convertInner p) (climb H path start) := by
  simp only [climb, convertInnerOps, List.reverse_cons, List.map_append, List.map_cons, List.map_nil,
    List.foldl_append, List.foldl_cons, List.foldl_nil]

/-- climbing the path from the leaf's ICS23 hash reaches the hash of the node the path starts at -/
theorem pathToLeaf_calc {H : Bytes → Bytes} (h32 : ∀ x, (H x).length = 32) (wv : Int) (n : Node) (key : Bytes) :
    match (n.pathToLeaf H wv key).2.1 with
    | .leaf k v nk =>
      climb H (n.pathToLeaf H wv key).1 (applyLeaf H (leafPrefix (Node.hashVersion wv nk)) k v) = n.hash H wv
    | .inner .. => False := by
  induction n with
  | leaf k v nk =>
    simp only [Node.pathToLeaf, climb, convertInnerOps, List.reverse_nil, List.map_nil, List.foldl_nil,
      applyLeaf, leafPrefix, Node.hash, encodeBytes_hash h32]
  | inner k h s nk l r ihl ihr =>
    simp only [Node.pathToLeaf]
    by_cases hlt : key < k
    · simp only [hlt, if_true]
      cases hlf : (l.pathToLeaf H wv key).2.1 with
      | inner => rw [hlf] at ihl; exact ihl
      | leaf k' v' nk' =>
        rw [hlf] at ihl
        simp only at ihl ⊢
        rw [climb_cons, ihl]
        simp only [applyInner, convertInner, Option.getD_some, Node.hash, Node.encode32, List.append_assoc,
          List.singleton_append, List.cons_append, List.nil_append]
    · simp only [hlt, if_false]
      cases hlf : (r.pathToLeaf H wv key).2.1 with
      | inner => rw [hlf] at ihr; exact ihr
      | leaf k' v' nk' =>
        rw [hlf] at ihr
        simp only at ihr ⊢
        rw [climb_cons, ihr]
        have hpos : (l.hash H wv).length > 0 := by rw [hash_length h32]; omega
        simp only [applyInner, convertInner, hpos, if_true, Node.hash, Node.encode32, List.append_assoc,
          List.singleton_append, List.cons_append, List.nil_append, List.append_nil]

/-- the leaf a search for `key` ends in is the one `get` reads -/
theorem pathToLeaf_get (H : Bytes → Bytes) (wv : Int) (n : Node) (key : Bytes) :
    match (n.pathToLeaf H wv key).2.1 with
    | .leaf k v _ => (n.pathToLeaf H wv key).2.2 = decide (k = key) ∧
        (n.get key).2 = if k = key then some v else none
    | .inner .. => False := by
  induction n with
  | leaf k v nk =>
    simp only [Node.pathToLeaf, Node.get, true_and]
    by_cases h : k = key
    · subst h; simp [Lex.lt_irrefl]
    · by_cases h2 : k < key
      · simp [h, h2]
      · have h3 : key < k := by
          rcases Lex.lt_trichotomy k key with hh | hh | hh
          · exact absurd hh h2
          · exact absurd hh h
          · exact hh
        simp [h, h2, h3]
  | inner k h s nk l r ihl ihr =>
    simp only [Node.pathToLeaf, Node.get]
    by_cases hlt : key < k
    · simp only [hlt, if_true]; exact ihl
    · simp only [hlt, if_false]
      cases hlf : (r.pathToLeaf H wv key).2.1 with
      | inner => rw [hlf] at ihr; exact ihr
      | leaf k' v' nk' => rw [hlf] at ihr; exact ihr

/-- completeness of membership proofs: `GetMembershipProof` succeeds exactly for the keys
`get` finds; the proof names the key and its value, and ICS23's `Calculate` maps it to the
root hash of the tree -/
theorem membershipProof_spec {H : Bytes → Bytes} (h32 : ∀ x, (H x).length = 32) (treeVersion : Int)
    (root : Node) (key : Bytes) :
    (∀ v, (root.get key).2 = some v →
      ∃ p, membershipProof H treeVersion root key = .ok p ∧ p.key = key ∧ p.value = v ∧
        p.calc H = root.hash H (treeVersion + 1)) ∧
    ((root.get key).2 = none → membershipProof H treeVersion root key = .error .absent) := by
  have hc := pathToLeaf_calc h32 (treeVersion + 1) root key
  have hg := pathToLeaf_get H (treeVersion + 1) root key
  rcases hp : root.pathToLeaf H (treeVersion + 1) key with ⟨path, lf, found⟩
  rw [hp] at hc hg
  simp only at hc hg
  simp only [membershipProof, createExistenceProof, hp]
  cases lf with
  | inner => exact hc.elim
  | leaf k v nk =>
    simp only at hc hg ⊢
    obtain ⟨hfound, hget⟩ := hg
    subst hfound
    by_cases hk : k = key
    · subst hk
      simp only [if_true] at hget
      constructor
      · intro v' hv'
        rw [hget] at hv'
        simp only [Option.some.injEq] at hv'
        subst hv'
        refine ⟨⟨k, v, leafPrefix (Node.hashVersion (treeVersion + 1) nk), convertInnerOps path⟩, by simp, rfl, rfl, ?_⟩
        simpa [ExistProof.calc, climb] using hc
      · intro hn; rw [hget] at hn; cases hn
    · simp only [hk, if_false] at hget
      constructor
      · intro v' hv'; rw [hget] at hv'; cases hv'
      · intro _; simp [hk]

end GnoVerif.C30
