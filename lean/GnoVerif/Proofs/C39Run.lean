import GnoVerif.Proofs.C39
/-
C39 — the honest arrival run (explicit state after any set of arrivals),
soundness of an accepted part against the block's header, and the adversarial
reassembly argument.
-/
namespace GnoVerif.C39

variable (H : Bytes → Bytes)

/-! ### the parts built by NewPartSetFromData verify -/

theorem partAt_index (data : Bytes) (ps i : Nat) : (partAt H data ps i).index = (i : Int) := rfl
theorem partAt_pindex (data : Bytes) (ps i : Nat) : (partAt H data ps i).proof.index = (i : Int) := rfl
theorem partAt_ptotal (data : Bytes) (ps i : Nat) :
    (partAt H data ps i).proof.total = (numParts data.length ps : Int) := by
  simp [partAt, partOf, split_length]
theorem partAt_bytes (data : Bytes) (ps i : Nat) (h : i < numParts data.length ps) :
    (partAt H data ps i).bytes = slice data ps i := by
  simp only [partAt, partOf]; exact split_getD data ps i h

theorem verify_of_compute (sp : Proof) (root leaf : Bytes) (h1 : 0 ≤ sp.total) (h2 : 0 ≤ sp.index)
    (h3 : sp.leafHash = leafHash H leaf)
    (hc : computeRev H sp.index.toNat sp.total.toNat sp.leafHash sp.aunts.reverse = some root) :
    sp.verify H root leaf = true := by
  unfold Proof.verify computeHashFromAunts
  rw [if_neg (by omega), if_neg (by omega), if_neg (by simp [h3]), hc]
  simp [rootMatches]

theorem partAt_verify (data : Bytes) (ps i : Nat) (h : i < numParts data.length ps) :
    (partAt H data ps i).proof.verify H (headerOf H data ps).hash (partAt H data ps i).bytes = true := by
  have hc := proofs_complete H (split data ps) i (by rw [split_length]; exact h)
  apply verify_of_compute
  · simp [partAt, partOf]
  · simp [partAt, partOf]
  · rfl
  · simpa [partAt, partOf, headerOf] using hc

theorem mkParts_eq (data : Bytes) (ps : Nat) :
    mkParts H data ps = (List.range (numParts data.length ps)).map (partAt H data ps) := rfl

/-! ### duplicates -/

theorem addPart_dup (s : PartSet) (p q : Part) (h0 : 0 ≤ p.index) (h1 : p.index < (s.total : Int))
    (h : s.parts[p.index.toNat]? = some (some q)) : addPart H s p = (.added false, s) := by
  unfold addPart
  rw [if_neg (by omega), if_neg (by omega)]
  simp only [h]

/-! ### the state after the honest parts with indices in `seen` arrived -/

def slotsAfter (data : Bytes) (ps : Nat) (seen : List Nat) : List (Option Part) :=
  (List.range (numParts data.length ps)).map fun j =>
    if j ∈ seen then some (partAt H data ps j) else none

def stateAfter (data : Bytes) (ps : Nat) (seen : List Nat) : PartSet :=
  { total := numParts data.length ps, hash := (headerOf H data ps).hash,
    parts := slotsAfter H data ps seen,
    bits := (slotsAfter H data ps seen).map Option.isSome,
    count := (slotsAfter H data ps seen).countP Option.isSome }

/-- result classes of an honest arrival order: `added:true` exactly at first occurrences -/
def firstFlags : List Nat → List Nat → List AddRes
  | _, [] => []
  | seen, i :: rest => .added (decide (i ∉ seen)) :: firstFlags (i :: seen) rest

theorem slotsAfter_congr (data : Bytes) (ps : Nat) (a b : List Nat)
    (h : ∀ j, j < numParts data.length ps → (j ∈ a ↔ j ∈ b)) :
    slotsAfter H data ps a = slotsAfter H data ps b := by
  unfold slotsAfter
  apply List.map_congr_left
  intro j hj
  have := h j (by simpa using hj)
  by_cases hja : j ∈ a
  · rw [if_pos hja, if_pos (this.mp hja)]
  · rw [if_neg hja, if_neg (fun hb => hja (this.mpr hb))]

theorem stateAfter_congr (data : Bytes) (ps : Nat) (a b : List Nat)
    (h : ∀ j, j < numParts data.length ps → (j ∈ a ↔ j ∈ b)) :
    stateAfter H data ps a = stateAfter H data ps b := by
  unfold stateAfter
  rw [slotsAfter_congr H data ps a b h]

theorem slotsAfter_get (data : Bytes) (ps : Nat) (seen : List Nat) (j : Nat) :
    (slotsAfter H data ps seen)[j]? =
      if j < numParts data.length ps then
        some (if j ∈ seen then some (partAt H data ps j) else none)
      else none := by
  unfold slotsAfter
  rw [List.getElem?_map]
  by_cases hj : j < numParts data.length ps
  · rw [List.getElem?_range hj, if_pos hj]; rfl
  · rw [if_neg hj, List.getElem?_eq_none (by simpa using hj)]; rfl

theorem fromHeader_eq (data : Bytes) (ps : Nat) :
    fromHeader (headerOf H data ps) = stateAfter H data ps [] := by
  have hs : slotsAfter H data ps [] = List.replicate (numParts data.length ps) none := by
    apply List.ext_getElem?
    intro j
    rw [slotsAfter_get, List.getElem?_replicate]
    simp
  unfold stateAfter fromHeader
  rw [hs]
  simp [headerOf, List.countP_eq_length_filter]

theorem addPart_stateAfter (data : Bytes) (ps : Nat) (seen : List Nat) (i : Nat)
    (hi : i < numParts data.length ps) :
    addPart H (stateAfter H data ps seen) (partAt H data ps i) =
      (.added (decide (i ∉ seen)), stateAfter H data ps (i :: seen)) := by
  have hslot := slotsAfter_get H data ps seen i
  rw [if_pos hi] at hslot
  by_cases hs : i ∈ seen
  · rw [if_pos hs] at hslot
    rw [addPart_dup H _ _ (partAt H data ps i) (by rw [partAt_index]; omega)
          (by rw [partAt_index]; simp [stateAfter]; exact hi)
          (by rw [partAt_index]; simpa [stateAfter] using hslot)]
    have : stateAfter H data ps (i :: seen) = stateAfter H data ps seen := by
      apply stateAfter_congr
      intro j _
      constructor
      · intro h; rcases List.mem_cons.mp h with h | h
        · exact h ▸ hs
        · exact h
      · intro h; exact List.mem_cons_of_mem _ h
    rw [this]
    simp [hs]
  · rw [if_neg hs] at hslot
    have ha : Accepts H (stateAfter H data ps seen) (partAt H data ps i) := by
      refine ⟨by rw [partAt_index]; omega, by rw [partAt_index]; simp [stateAfter]; exact hi, ?_,
        by rw [partAt_pindex, partAt_index], by rw [partAt_ptotal]; rfl, ?_⟩
      · rw [partAt_index]; simpa [stateAfter] using hslot
      · exact partAt_verify H data ps i hi
    rw [addPart_of_accepts H _ _ ha]
    have hparts : (slotsAfter H data ps seen).set i (some (partAt H data ps i)) =
        slotsAfter H data ps (i :: seen) := by
      apply List.ext_getElem?
      intro j
      rw [List.getElem?_set, slotsAfter_get, slotsAfter_get]
      by_cases hij : i = j
      · subst hij
        have hl : i < (slotsAfter H data ps seen).length := by simp [slotsAfter]; exact hi
        simp [hl, hi]
      · rw [if_neg hij]
        have : (j ∈ i :: seen) ↔ j ∈ seen := by
          simp only [List.mem_cons]
          constructor
          · intro h; rcases h with h | h
            · exact absurd h.symm hij
            · exact h
          · intro h; exact Or.inr h
        by_cases hj : j ∈ seen
        · simp [hj]
        · have hn : ¬ j ∈ i :: seen := fun h => hj (this.mp h)
          simp [hj, hn]
    have hlt : i < (slotsAfter H data ps seen).length := by simp [slotsAfter]; exact hi
    have hnone : (slotsAfter H data ps seen)[i] = none := by
      have := hslot
      rw [List.getElem?_eq_getElem hlt] at this
      exact Option.some.inj this
    simp only [stored, stateAfter, partAt_index, Int.toNat_natCast, hs,
      not_false_eq_true, decide_true]
    congr 1
    rw [← hparts]
    refine congr (congr (congrArg _ rfl) ?_) ?_
    · rw [List.map_set]; rfl
    · rw [List.countP_set hlt, hnone]; simp

theorem addMany_stateAfter (data : Bytes) (ps : Nat) (order : List Nat) :
    ∀ seen, (∀ i ∈ order, i < numParts data.length ps) →
      addMany H (stateAfter H data ps seen) (order.map (partAt H data ps)) =
        (firstFlags seen order, stateAfter H data ps (order.reverse ++ seen)) := by
  induction order with
  | nil => intro seen _; simp [addMany, firstFlags]
  | cons i rest ih =>
    intro seen h
    simp only [List.map_cons, addMany]
    rw [addPart_stateAfter H data ps seen i (h i (by simp))]
    simp only
    rw [ih (i :: seen) (fun j hj => h j (by simp [hj]))]
    simp [firstFlags]

theorem firstFlags_get (order : List Nat) :
    ∀ (seen : List Nat) (k : Nat) (hk : k < order.length),
      (firstFlags seen order)[k]? =
        some (.added (decide (order[k] ∉ seen ∧ order[k] ∉ order.take k))) := by
  induction order with
  | nil => intro seen k hk; simp at hk
  | cons i rest ih =>
    intro seen k hk
    cases k with
    | zero => simp [firstFlags]
    | succ k =>
      simp only [firstFlags, List.getElem?_cons_succ, List.getElem_cons_succ, List.take_succ_cons]
      rw [ih (i :: seen) k (by simpa using hk)]
      congr 2
      simp only [List.mem_cons, not_or, decide_eq_decide]
      constructor
      · rintro ⟨⟨h1, h2⟩, h3⟩; exact ⟨h2, h1, h3⟩
      · rintro ⟨h2, h1, h3⟩; exact ⟨⟨h1, h2⟩, h3⟩

/-! ### the complete state -/

theorem stateAfter_full_slots (data : Bytes) (ps : Nat) (seen : List Nat)
    (h : ∀ i, i < numParts data.length ps → i ∈ seen) :
    slotsAfter H data ps seen =
      (List.range (numParts data.length ps)).map (fun j => some (partAt H data ps j)) := by
  unfold slotsAfter
  apply List.map_congr_left
  intro j hj
  rw [if_pos (h j (by simpa using hj))]

theorem stateAfter_full_complete (data : Bytes) (ps : Nat) (seen : List Nat)
    (h : ∀ i, i < numParts data.length ps → i ∈ seen) :
    (stateAfter H data ps seen).isComplete = true := by
  simp only [PartSet.isComplete, stateAfter, stateAfter_full_slots H data ps seen h, beq_iff_eq]
  have : ((List.range (numParts data.length ps)).map (fun j => some (partAt H data ps j))).countP
      Option.isSome = ((List.range (numParts data.length ps)).map
        (fun j => some (partAt H data ps j))).length :=
    List.countP_eq_length.mpr (by
      intro o ho
      simp only [List.mem_map] at ho
      obtain ⟨j, _, rfl⟩ := ho
      rfl)
  rw [this]
  simp

/-- a complete set whose slots hold exactly the parts built by `NewPartSetFromData` reads back
the data -/
theorem reader_of_full (data : Bytes) (ps : Nat) (hps : 0 < ps) (s : PartSet)
    (hc : s.isComplete = true)
    (hp : s.parts = (List.range (numParts data.length ps)).map (fun j => some (partAt H data ps j))) :
    s.reader = if data = [] then .error .range else .ok data := by
  unfold PartSet.reader
  rw [hc]
  simp only [not_true_eq_false, if_false]
  rw [hp]
  by_cases hd : data = []
  · subst hd
    simp [numParts_eq_zero 0 ps hps |>.mpr rfl]
  · have hn : numParts data.length ps ≠ 0 := by
      intro h0
      exact hd (List.eq_nil_of_length_eq_zero ((numParts_eq_zero _ _ hps).mp h0))
    rw [if_neg hd]
    have hne : ((List.range (numParts data.length ps)).map
        (fun j => some (partAt H data ps j))).isEmpty = false := by
      cases hr : numParts data.length ps with
      | zero => exact absurd hr hn
      | succ m => simp [List.range_succ]
    rw [hne]
    have hany : ((List.range (numParts data.length ps)).map
        (fun j => some (partAt H data ps j))).any Option.isNone = false := by
      simp
    rw [hany]
    simp only [Bool.false_eq_true, if_false]
    congr 1
    rw [List.flatMap_def, List.map_map]
    have : (List.range (numParts data.length ps)).map
        ((fun p : Option Part => match p with | some p => p.bytes | none => []) ∘
          fun j => some (partAt H data ps j)) =
        (List.range (numParts data.length ps)).map (slice data ps) := by
      apply List.map_congr_left
      intro j hj
      exact partAt_bytes H data ps j (by simpa using hj)
    exact (congrArg List.flatten this).trans (split_flatten data ps hps)

theorem stateAfter_full_reader (data : Bytes) (ps : Nat) (hps : 0 < ps) (seen : List Nat)
    (h : ∀ i, i < numParts data.length ps → i ∈ seen) :
    (stateAfter H data ps seen).reader = if data = [] then .error .range else .ok data :=
  reader_of_full H data ps hps _ (stateAfter_full_complete H data ps seen h)
    (stateAfter_full_slots H data ps seen h)

/-! ### soundness of an accepted part against the block's header -/

theorem verify_some (sp : Proof) (root leaf : Bytes) (h : sp.verify H root leaf = true) :
    0 ≤ sp.total ∧ 0 ≤ sp.index ∧ sp.leafHash = leafHash H leaf ∧
    computeRev H sp.index.toNat sp.total.toNat (leafHash H leaf) sp.aunts.reverse = some root := by
  unfold Proof.verify at h
  split at h
  · cases h
  · split at h
    · cases h
    · split at h
      · cases h
      · rename_i h1 h2 h3
        have h3' : sp.leafHash = leafHash H leaf := Classical.not_not.mp h3
        refine ⟨by omega, by omega, h3', ?_⟩
        rw [h3'] at h
        unfold computeHashFromAunts at h
        cases hc : computeRev H sp.index.toNat sp.total.toNat (leafHash H leaf) sp.aunts.reverse with
        | none =>
          rw [hc] at h
          simp [rootMatches] at h
        | some r =>
          rw [hc] at h
          simp only [rootMatches, beq_iff_eq] at h
          rw [h]

/-- `Verify` is exactly the strict reading -/
theorem verify_eq_strict (sp : Proof) (root leaf : Bytes) :
    sp.verify H root leaf = sp.verifyStrict H root leaf := by
  unfold Proof.verify Proof.verifyStrict
  by_cases h1 : sp.total < 0
  · rw [if_pos h1]; simp; intro h; omega
  · rw [if_neg h1]
    by_cases h2 : sp.index < 0
    · rw [if_pos h2]; simp; intro _ h; omega
    · rw [if_neg h2]
      by_cases h3 : sp.leafHash ≠ leafHash H leaf
      · rw [if_pos h3]; simp; intro _ _ h; exact absurd h h3
      · rw [if_neg h3]
        have h3' : sp.leafHash = leafHash H leaf := Classical.not_not.mp h3
        have e1 : decide (0 ≤ sp.total) = true := by simp; omega
        have e2 : decide (0 ≤ sp.index) = true := by simp; omega
        have e3 : decide (sp.leafHash = leafHash H leaf) = true := by simp [h3']
        rw [e1, e2, e3]
        simp only [Bool.and_self, Bool.true_and]
        cases hc : computeHashFromAunts H sp.index.toNat sp.total.toNat sp.leafHash sp.aunts with
        | none => simp [rootMatches]
        | some r => simp [rootMatches]

/-- A part stored under the block's header at slot `i` carries the block's bytes for that slot,
or the two proofs (the stored one and the one `NewPartSetFromData` builds) yield a collision. -/
theorem verified_bytes_or_collision {m : Nat} (hH : FixedLen H m)
    (data : Bytes) (ps : Nat) (p : Part) (i : Nat) (hi : i < numParts data.length ps)
    (hidx : p.proof.index = (i : Int)) (htot : p.proof.total = (numParts data.length ps : Int))
    (hv : p.proof.verify H (headerOf H data ps).hash p.bytes = true) :
    p.bytes = slice data ps i ∨
    ∃ x y, collide H i (numParts data.length ps) p.bytes (slice data ps i)
        p.proof.aunts.reverse (partAt H data ps i).proof.aunts.reverse = some (x, y) ∧
      IsCollision H x y := by
  obtain ⟨_, _, _, hc⟩ := verify_some H p.proof _ _ hv
  rw [hidx, htot] at hc
  simp only [Int.toNat_natCast] at hc
  have hh := proofs_complete H (split data ps) i (by rw [split_length]; exact hi)
  rw [split_length, split_getD data ps i hi] at hh
  exact two_proofs_collide H hH _ _ i _ p.bytes (slice data ps i) _ hc hh

/-! ### adversarial arrival -/

theorem addMany_fills (seq : List Part) :
    ∀ (s : PartSet) (p : Part), Inv H s → p ∈ seq →
      0 ≤ p.index → p.index < (s.total : Int) → p.proof.index = p.index →
      p.proof.total = (s.total : Int) → p.proof.verify H s.hash p.bytes = true →
      ∃ q, (addMany H s seq).2.parts[p.index.toNat]? = some (some q) := by
  induction seq with
  | nil => intro s p _ hp; simp at hp
  | cons p' rest ih =>
    intro s p hi hp h0 h1 h3 h4 h5
    simp only [addMany]
    rcases List.mem_cons.mp hp with h | h
    · subst h
      obtain ⟨q, hq⟩ := addPart_fills H s p hi h0 h1 h3 h4 h5
      exact ⟨q, addMany_slot_mono H _ rest q _ hq⟩
    · have hh := addPart_header H s p'
      exact ih _ p (inv_addPart H s p' hi) h h0 (by rw [hh.1]; exact h1) h3 (by rw [hh.1]; exact h4)
        (by rw [hh.2]; exact h5)

theorem complete_of_all_slots (s : PartSet) (hi : Inv H s)
    (h : ∀ i, i < s.total → ∃ q, s.parts[i]? = some (some q)) : s.isComplete = true := by
  simp only [PartSet.isComplete, beq_iff_eq]
  rw [hi.count, ← hi.len, List.countP_eq_length]
  intro o ho
  obtain ⟨i, hlt, hget⟩ := List.getElem_of_mem ho
  obtain ⟨q, hq⟩ := h i (by rw [← hi.len]; exact hlt)
  rw [List.getElem?_eq_getElem hlt, hget] at hq
  have : o = some q := Option.some.inj hq
  rw [this]; rfl

theorem all_slots_of_complete (s : PartSet) (hi : Inv H s) (hc : s.isComplete = true) :
    ∀ i, i < s.total → ∃ q, s.parts[i]? = some (some q) := by
  simp only [PartSet.isComplete, beq_iff_eq] at hc
  rw [hi.count, ← hi.len, List.countP_eq_length] at hc
  intro i hlt
  rw [← hi.len] at hlt
  have := hc _ (List.getElem_mem hlt)
  cases hg : s.parts[i] with
  | none => rw [hg] at this; cases this
  | some q => exact ⟨q, by rw [List.getElem?_eq_getElem hlt, hg]⟩

end GnoVerif.C39
