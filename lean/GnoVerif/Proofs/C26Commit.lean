/-
Proofs.C26Commit — the commit (`SaveVersion`'s one atomic batch) and the prune
preserve the DB invariant and frame every other handle / view.
-/
import GnoVerif.Proofs.C26DB

set_option linter.unusedSimpArgs false
set_option linter.unusedVariables false

namespace GnoVerif.C26
open GnoVerif

theorem ne_zero_of_lt {a b : Nat} (h : a < b) : b ≠ 0 := by omega

theorem HInv.saved_mem {db : DB} {h : Handle} (hh : HInv db h) (h0 : h.version ≠ 0) :
    (h.version, h.saved) ∈ db.vers := by
  have := hh.savedOk
  simp only [h0, if_false] at this
  exact tree_mem this

theorem HInv.saved_tree {db : DB} {h : Handle} (hh : HInv db h) (h0 : h.version ≠ 0) :
    db.tree h.version = some h.saved := by
  have := hh.savedOk
  simpa only [h0, if_false] using this

theorem HInv.saved_nil {db : DB} {h : Handle} (hh : HInv db h) (h0 : h.version = 0) :
    h.saved = [] := by
  have := hh.savedOk
  simpa only [h0, if_true] using this

/-- the DB after `SaveVersion`'s commit. -/
def commitDB (db : DB) (h : Handle) : DB :=
  { vers := (h.version + 1, h.work) :: db.vers,
    fast := applyFast db.fast h.batch,
    stamp := if h.fastOpt then some (h.version + 1) else db.stamp }

/-- the handle after a successful `SaveVersion`. -/
def commitH (h : Handle) : Handle :=
  { h with version := h.version + 1, saved := h.work, touched := false, batch := [],
           latest := h.version + 1, first := if h.first = 0 then h.version + 1 else h.first }

/-- the version being saved is new ⇒ the handle sits at the latest version. -/
theorem all_le_version {db : DB} {h : Handle} (hi : DBInv db) (hh : HInv db h) (hw : WInv db h)
    (hn : db.tree (h.version + 1) = none) : ∀ p ∈ db.vers, p.1 ≤ h.version := by
  intro p hp
  by_cases h0 : h.version = 0
  · rw [hw.zero h0] at hp; simp at hp
  · refine Nat.le_of_not_lt (fun hlt => ?_)
    obtain ⟨r, hr, he⟩ := hi.contig _ (hh.saved_mem h0) p hp (h.version + 1) (Nat.le_succ _) hlt
    exact not_mem_of_lookup_none hn r hr he

theorem mem_commit {db : DB} {h : Handle} {p : Ver × Tree} :
    p ∈ (commitDB db h).vers ↔ p = (h.version + 1, h.work) ∨ p ∈ db.vers := by
  simp [commitDB]

theorem commit_inv {db : DB} {h : Handle} (hi : DBInv db) (hh : HInv db h) (hw : WInv db h)
    (hp : h.poisoned = false) (hn : db.tree (h.version + 1) = none)
    (hc : h.fastOpt = true → h.ensured = true) : DBInv (commitDB db h) := by
  have hle := all_le_version hi hh hw hn
  have hnew : ∀ p ∈ db.vers, p.1 ≠ h.version + 1 := not_mem_of_lookup_none hn
  -- an entry of the working tree that equals the saved one is an entry of version `h.version`
  have hsaved : ∀ k w val, OMap.get h.saved k = some (w, val) →
      h.version ≠ 0 ∧ (h.version, h.saved) ∈ db.vers := by
    intro k w val hg
    have h0 : h.version ≠ 0 := by
      intro h0; rw [hh.saved_nil h0] at hg; simp at hg
    exact ⟨h0, hh.saved_mem h0⟩
  refine ⟨?_, ?_, ?_, ?_, ?_, ?_, ?_⟩
  · -- nodup
    simp only [commitDB, List.map_cons, List.nodup_cons]
    refine ⟨?_, hi.nodup⟩
    intro hm
    obtain ⟨q, hq, he⟩ := List.mem_map.1 hm
    exact hnew q hq he
  · -- pos
    intro p hp'
    rcases mem_commit.1 hp' with e | hp'
    · subst e; exact Nat.succ_pos _
    · exact hi.pos p hp'
  · -- hist
    intro s m hsm k w val hg
    rcases mem_commit.1 hsm with e | hsm
    · cases e
      rcases hh.delta k with hd | hd | ⟨val', hd⟩
      · rw [hd] at hg
        obtain ⟨h0, hmem⟩ := hsaved k w val hg
        obtain ⟨hws, hall⟩ := hi.hist _ _ hmem k w val hg
        refine ⟨Nat.le_succ_of_le hws, ?_⟩
        intro s' m' hs' hw1 hw2
        rcases mem_commit.1 hs' with e | hs'
        · cases e; rw [hd]; exact hg
        · exact hall s' m' hs' hw1 (hle _ hs')
      · rw [hd] at hg; simp at hg
      · rw [hd] at hg
        simp only [Option.some.injEq, Prod.mk.injEq] at hg
        obtain ⟨e1, e2⟩ := hg
        subst e1; subst e2
        refine ⟨Nat.le_refl _, ?_⟩
        intro s' m' hs' hw1 hw2
        rcases mem_commit.1 hs' with e | hs'
        · cases e; exact hd
        · exact absurd (Nat.le_antisymm hw2 hw1) (hnew _ hs')
    · obtain ⟨hws, hall⟩ := hi.hist s m hsm k w val hg
      refine ⟨hws, ?_⟩
      intro s' m' hs' hw1 hw2
      rcases mem_commit.1 hs' with e | hs'
      · cases e
        have := hle _ hsm
        exact absurd (Nat.le_trans hw2 this) (Nat.not_succ_le_self _)
      · exact hall s' m' hs' hw1 hw2
  · -- fast
    intro S hS k w val hg
    by_cases hf : h.fastOpt = true
    · simp only [commitDB, hf, if_true, Option.some.injEq] at hS
      subst hS
      have hst := hh.stage hp hf k
      simp only [commitDB] at hg
      rw [get_applyFast] at hg
      cases hnf : netFast h.batch k with
      | none =>
        rw [hnf] at hg hst
        simp only at hg hst
        -- untouched key: the old entry, valid through the old stamp = h.version
        rcases hw.current hf (hc hf) with ⟨hv, hs0⟩ | ⟨S0, hs0, hall0⟩
        · rw [hi.emptyFast hv] at hg; simp at hg
        · obtain ⟨hwS, hval⟩ := hi.fast S0 hs0 k w val hg
          obtain ⟨p, hpm, hSp⟩ := hi.stampLe S0 hs0
          have h0 : h.version ≠ 0 := by
            intro h0; rw [hw.zero h0] at hpm; simp at hpm
          have hmem := hh.saved_mem h0
          have hvS : h.version ≤ S0 := hall0 _ hmem
          have hSv : S0 ≤ h.version := Nat.le_trans hSp (hle _ hpm)
          have hwv : w ≤ h.version := Nat.le_trans hwS hSv
          refine ⟨Nat.le_succ_of_le hwv, ?_⟩
          intro s m hsm hw1 hw2
          rcases mem_commit.1 hsm with e | hsm
          · cases e; rw [hst]; exact hval _ _ hmem hwv hvS
          · exact hval s m hsm hw1 (hall0 _ hsm)
      | some r =>
        rw [hnf] at hg hst
        simp only at hg hst
        obtain ⟨hwk, hver⟩ := hst
        rw [hg] at hwk
        have hw' : w = h.version + 1 := hver (w, val) hg
        subst hw'
        refine ⟨Nat.le_refl _, ?_⟩
        intro s m hsm hw1 hw2
        rcases mem_commit.1 hsm with e | hsm
        · cases e; exact hwk
        · exact absurd (Nat.le_antisymm hw2 hw1) (hnew _ hsm)
    · have hf' : h.fastOpt = false := by simpa using hf
      simp only [commitDB, hf', Bool.false_eq_true, if_false] at hS hg
      rw [hh.nostage hf'] at hg
      simp only [applyFast] at hg
      obtain ⟨hwS, hval⟩ := hi.fast S hS k w val hg
      refine ⟨hwS, ?_⟩
      intro s m hsm hw1 hw2
      rcases mem_commit.1 hsm with e | hsm
      · cases e
        obtain ⟨p, hpm, hSp⟩ := hi.stampLe S hS
        have := Nat.le_trans hw2 (Nat.le_trans hSp (hle _ hpm))
        exact absurd this (Nat.not_succ_le_self _)
      · exact hval s m hsm hw1 hw2
  · -- emptyFast
    intro hv; simp [commitDB] at hv
  · -- stampLe
    intro S hS
    by_cases hf : h.fastOpt = true
    · simp only [commitDB, hf, if_true, Option.some.injEq] at hS
      subst hS
      exact ⟨_, mem_commit.2 (Or.inl rfl), Nat.le_refl _⟩
    · have hf' : h.fastOpt = false := by simpa using hf
      simp only [commitDB, hf', Bool.false_eq_true, if_false] at hS
      obtain ⟨p, hpm, hSp⟩ := hi.stampLe S hS
      exact ⟨p, mem_commit.2 (Or.inr hpm), hSp⟩
  · -- contig
    intro p hp' q hq v hpv hvq
    rcases mem_commit.1 hq with e | hq
    · subst e
      by_cases hv : v = h.version + 1
      · exact ⟨_, mem_commit.2 (Or.inl rfl), hv.symm⟩
      · have hv' : v ≤ h.version := Nat.le_of_lt_succ (Nat.lt_of_le_of_ne hvq hv)
        rcases mem_commit.1 hp' with e | hp'
        · subst e; exact absurd (Nat.le_trans hpv hv') (Nat.not_succ_le_self _)
        · have h0 : h.version ≠ 0 := by
            intro h0; rw [hw.zero h0] at hp'; simp at hp'
          obtain ⟨r, hr, he⟩ := hi.contig p hp' _ (hh.saved_mem h0) v hpv hv'
          exact ⟨r, mem_commit.2 (Or.inr hr), he⟩
    · rcases mem_commit.1 hp' with e | hp'
      · subst e
        have := Nat.le_trans hpv (Nat.le_trans hvq (hle _ hq))
        exact absurd this (Nat.not_succ_le_self _)
      · obtain ⟨r, hr, he⟩ := hi.contig p hp' q hq v hpv hvq
        exact ⟨r, mem_commit.2 (Or.inr hr), he⟩

theorem commit_tree_old {db : DB} {h : Handle} (hn : db.tree (h.version + 1) = none)
    {v : Ver} {m : Tree} (ht : db.tree v = some m) : (commitDB db h).tree v = some m := by
  have hne : v ≠ h.version + 1 := not_mem_of_lookup_none hn _ (tree_mem ht)
  have : (v == h.version + 1) = false := by simpa using hne
  simp only [DB.tree, commitDB, List.lookup, this]
  exact ht

theorem commit_tree_new (db : DB) (h : Handle) :
    (commitDB db h).tree (h.version + 1) = some h.work := by
  simp [DB.tree, commitDB, List.lookup]

theorem commit_frame {db : DB} {h : Handle} (hi : DBInv db) (hh : HInv db h) (hw : WInv db h)
    (hn : db.tree (h.version + 1) = none) : Frame db (commitDB db h) := by
  refine ⟨fun v m ht => commit_tree_old hn ht, ?_⟩
  intro S hS
  by_cases hf : h.fastOpt = true
  · refine ⟨h.version + 1, by simp [commitDB, hf], ?_⟩
    obtain ⟨p, hpm, hSp⟩ := hi.stampLe S hS
    exact Nat.le_succ_of_le (Nat.le_trans hSp (all_le_version hi hh hw hn _ hpm))
  · have hf' : h.fastOpt = false := by simpa using hf
    exact ⟨S, by simp [commitDB, hf', hS], Nat.le_refl _⟩

theorem commit_hinv (db : DB) (h : Handle) : HInv (commitDB db h) (commitH h) := by
  refine ⟨?_, ?_, ?_, ?_, ?_, ?_⟩
  · simp only [commitH, Nat.succ_ne_zero, if_false]
    exact commit_tree_new db h
  · intro _; exact ⟨rfl, rfl⟩
  · intro k; exact Or.inl rfl
  · intro _ _ k; simp [commitH, netFast]
  · intro _; rfl
  · intro hf _ _
    have hf' : h.fastOpt = true := hf
    exact ⟨h.version + 1, by simp [commitDB, hf'], Nat.le_refl _⟩

theorem commit_winv {db : DB} {h : Handle} (hi : DBInv db) (hh : HInv db h) (hw : WInv db h)
    (hn : db.tree (h.version + 1) = none) : WInv (commitDB db h) (commitH h) := by
  have hle := all_le_version hi hh hw hn
  refine ⟨?_, ?_, ?_, ?_, ?_⟩
  · intro h0; simp [commitH] at h0
  · intro p hp'
    simp only [commitH]
    rcases mem_commit.1 hp' with e | hp'
    · subst e
      split
      · exact Nat.le_refl _
      · exact hw.firstNext
    · split
      · rename_i hz; rw [hw.firstZero hz] at hp'; simp at hp'
      · exact hw.firstLe p hp'
  · intro hz
    simp only [commitH] at hz
    split at hz
    · simp at hz
    · rename_i hne; exact absurd hz hne
  · simp only [commitH]
    split
    · exact Nat.le_succ _
    · exact Nat.le_trans hw.firstNext (Nat.le_succ _)
  · intro hf _
    have hf' : h.fastOpt = true := hf
    refine Or.inr ⟨h.version + 1, by simp [commitDB, hf'], ?_⟩
    intro p hp'
    rcases mem_commit.1 hp' with e | hp'
    · subst e; exact Nat.le_refl _
    · exact Nat.le_succ_of_le (hle p hp')

/-! ### prune -/

/-- the DB after a successful `PruneVersionsTo(to)`. -/
def pruneDB (db : DB) (h : Handle) (to : Ver) : DB :=
  { db with vers := db.vers.filter (fun p => decide (p.1 < h.first ∨ to < p.1)) }

theorem mem_prune {db : DB} {h : Handle} {to : Ver} (hw : WInv db h) {p : Ver × Tree} :
    p ∈ (pruneDB db h to).vers ↔ p ∈ db.vers ∧ to < p.1 := by
  simp only [pruneDB, List.mem_filter, decide_eq_true_eq]
  constructor
  · rintro ⟨hp, hlt | hlt⟩
    · exact absurd (hw.firstLe p hp) (Nat.not_le_of_lt hlt)
    · exact ⟨hp, hlt⟩
  · rintro ⟨hp, hlt⟩; exact ⟨hp, Or.inr hlt⟩

theorem prune_inv {db : DB} {h : Handle} {to : Ver} (hi : DBInv db) (hh : HInv db h) (hw : WInv db h)
    (hv : to < h.version) : DBInv (pruneDB db h to) := by
  have h0 : h.version ≠ 0 := ne_zero_of_lt hv
  have hmem := hh.saved_mem h0
  refine ⟨?_, ?_, ?_, ?_, ?_, ?_, ?_⟩
  · exact List.Nodup.sublist (List.Sublist.map _ List.filter_sublist) hi.nodup
  · intro p hp; exact hi.pos p ((mem_prune hw).1 hp).1
  · intro s m hsm k w val hg
    obtain ⟨hws, hall⟩ := hi.hist s m ((mem_prune hw).1 hsm).1 k w val hg
    exact ⟨hws, fun s' m' hs' => hall s' m' ((mem_prune hw).1 hs').1⟩
  · intro S hS k w val hg
    obtain ⟨hwS, hval⟩ := hi.fast S hS k w val hg
    exact ⟨hwS, fun s m hsm => hval s m ((mem_prune hw).1 hsm).1⟩
  · intro hv'
    have : (h.version, h.saved) ∈ (pruneDB db h to).vers := (mem_prune hw).2 ⟨hmem, hv⟩
    rw [hv'] at this; simp at this
  · intro S hS
    obtain ⟨p, hpm, hSp⟩ := hi.stampLe S hS
    by_cases hlt : to < p.1
    · exact ⟨p, (mem_prune hw).2 ⟨hpm, hlt⟩, hSp⟩
    · refine ⟨_, (mem_prune hw).2 ⟨hmem, hv⟩, ?_⟩
      have : p.1 ≤ to := Nat.le_of_not_lt hlt
      exact Nat.le_trans hSp (Nat.le_trans this (Nat.le_of_lt hv))
  · intro p hp q hq v hpv hvq
    obtain ⟨hp1, hp2⟩ := (mem_prune hw).1 hp
    obtain ⟨hq1, hq2⟩ := (mem_prune hw).1 hq
    obtain ⟨r, hr, he⟩ := hi.contig p hp1 q hq1 v hpv hvq
    exact ⟨r, (mem_prune hw).2 ⟨hr, by rw [he]; exact Nat.lt_of_lt_of_le hp2 hpv⟩, he⟩

theorem prune_tree {db : DB} {h : Handle} {to : Ver} (hi : DBInv db) (hh : HInv db h) (hw : WInv db h)
    (hv : to < h.version) {v : Ver} {m : Tree} (hlt : to < v) (ht : db.tree v = some m) :
    (pruneDB db h to).tree v = some m :=
  tree_of_mem (prune_inv hi hh hw hv).nodup ((mem_prune hw).2 ⟨tree_mem ht, hlt⟩)

theorem prune_hinv {db : DB} {h : Handle} {to : Ver} (hi : DBInv db) (hh : HInv db h) (hw : WInv db h)
    (hv : to < h.version) {g : Handle} (hg : HInv db g) (hgv : to < g.version) :
    HInv (pruneDB db h to) g := by
  have g0 : g.version ≠ 0 := ne_zero_of_lt hgv
  refine ⟨?_, hg.cleanOk, hg.delta, hg.stage, hg.nostage, hg.covered⟩
  simp only [g0, if_false]
  exact prune_tree hi hh hw hv hgv (hg.saved_tree g0)

theorem prune_vinv {db : DB} {h : Handle} {to : Ver} (hi : DBInv db) (hh : HInv db h) (hw : WInv db h)
    (hv : to < h.version) {v : View} (hg : VInv db v) (hgv : to < v.version) :
    VInv (pruneDB db h to) v :=
  ⟨prune_tree hi hh hw hv hgv hg.rootOk, hg.covered⟩

theorem prune_winv {db : DB} {h : Handle} {to : Ver} (hi : DBInv db) (hh : HInv db h) (hw : WInv db h)
    (hv : to < h.version) : WInv (pruneDB db h to) { h with first := to + 1 } := by
  have h0 : h.version ≠ 0 := ne_zero_of_lt hv
  have hmem := hh.saved_mem h0
  refine ⟨?_, ?_, ?_, ?_, ?_⟩
  · intro hz; exact absurd hz h0
  · intro p hp; exact ((mem_prune hw).1 hp).2
  · intro hz; simp at hz
  · exact Nat.succ_le_succ (Nat.le_of_lt hv)
  · intro hf he
    rcases hw.current hf he with ⟨hnil, _⟩ | ⟨S, hS, hall⟩
    · rw [hnil] at hmem; simp at hmem
    · exact Or.inr ⟨S, hS, fun p hp => hall p ((mem_prune hw).1 hp).1⟩

end GnoVerif.C26
