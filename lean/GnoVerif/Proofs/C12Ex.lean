/-
Concrete witnesses used by the non-vacuity `example`s of Props/C12.lean.
-/
import GnoVerif.Proofs.C12Sort
namespace GnoVerif.C12
open GnoVerif

def exGm (priv : Bool) : GMod :=
  { present := true, broken := false, mod := .self, gno := .latest, priv := priv, draft := false,
    ignore := false, replace := false, addpkg := false, noise := false }

/-- "gno.land/r/aa" -/
def exPath : Bytes := [103, 110, 111, 46, 108, 97, 110, 100, 47, 114, 47, 97, 97]
/-- "gno.land/r/aa/aa.gno" -/
def exFilePath : Bytes := [103, 110, 111, 46, 108, 97, 110, 100, 47, 114, 47, 97, 97, 47, 97, 97, 46, 103, 110, 111]
/-- "aa" -/
def exName : Bytes := [97, 97]
/-- "aa.gno" -/
def exFileName : Bytes := [97, 97, 46, 103, 110, 111]
/-- "package aa\n" -/
def exBody : Bytes := [112, 97, 99, 107, 97, 103, 101, 32, 97, 97, 10]
/-- "package aa\n\nvar V = 2\n" -/
def exBody2 : Bytes := [112, 97, 99, 107, 97, 103, 101, 32, 97, 97, 10, 10, 118, 97, 114, 32, 86, 32, 61, 32, 50, 10]

/-- a public realm gno.land/r/aa deployed by account 0 at height 42. -/
def exMsg (priv : Bool) (acct : Nat) (body : Bytes) : Msg :=
  { height := 42, acct := acct, path := exPath, name := exName, gm := exGm priv, verdict := .ok,
    files := [⟨exFileName, some body⟩, ⟨L_gnomodToml, none⟩] }

end GnoVerif.C12
