import GnoVerif.Proofs.C18Add
/-! Canonical lists are unique; `val` vs membership; `validate` vs `Valid`; `negative`. -/
namespace GnoVerif.C18
open GnoVerif

theorem toInt_ne_zero {a : BitVec 64} (h : a ≠ 0#64) : a.toInt ≠ 0 := by
  intro e
  apply h
  apply BitVec.toInt_inj.mp
  rw [e]; rfl

/-- a coin of a strictly sorted list is the only one of its denomination. -/
theorem val_of_mem {cs : Coins} (hs : Sorted cs) {c : Coin} (hc : c ∈ cs) : val cs c.denom = c.amount.toInt := by
  induction cs with
  | nil => cases hc
  | cons x xs ih =>
    obtain ⟨hl, hx⟩ := sorted_cons.mp hs
    rcases List.mem_cons.mp hc with e | hc
    · subst e; rw [val_cons, if_pos rfl, val_of_lowerBound hl]; simp
    · rw [val_cons, if_neg (dlt_ne (hl c hc)), ih hx hc]; simp

theorem exists_mem_of_val_ne_zero {cs : Coins} {d : Denom} (h : val cs d ≠ 0) : ∃ c ∈ cs, c.denom = d := by
  induction cs with
  | nil => exact absurd rfl h
  | cons x xs ih =>
    by_cases e : x.denom = d
    · exact ⟨x, List.mem_cons_self, e⟩
    · rw [val_cons, if_neg e] at h
      obtain ⟨c, hc, hd⟩ := ih (by simpa using h)
      exact ⟨c, List.mem_cons_of_mem _ hc, hd⟩

theorem val_eq_zero_of_not_mem {cs : Coins} {d : Denom} (h : ∀ c ∈ cs, c.denom ≠ d) : val cs d = 0 := by
  by_cases e : val cs d = 0
  · exact e
  · obtain ⟨c, hc, hd⟩ := exists_mem_of_val_ne_zero e
    exact absurd hd (h c hc)

/-- the canonical (strictly sorted, zero-free) representative of a function is unique. -/
theorem canonical_unique {R R' : Coins} (h : Canonical R) (h' : Canonical R')
    (hv : ∀ d, val R d = val R' d) : R = R' := by
  induction R generalizing R' with
  | nil =>
    cases R' with
    | nil => rfl
    | cons c cs =>
      have := hv c.denom
      rw [val_of_mem h'.1 List.mem_cons_self] at this
      exact absurd this.symm (toInt_ne_zero (h'.2 c List.mem_cons_self))
  | cons r rs ih =>
    cases R' with
    | nil =>
      have := hv r.denom
      rw [val_of_mem h.1 List.mem_cons_self] at this
      exact absurd this (toInt_ne_zero (h.2 r List.mem_cons_self))
    | cons c cs =>
      obtain ⟨hl, hs⟩ := sorted_cons.mp h.1
      obtain ⟨hl', hs'⟩ := sorted_cons.mp h'.1
      have hr0 := toInt_ne_zero (h.2 r List.mem_cons_self)
      have hc0 := toInt_ne_zero (h'.2 c List.mem_cons_self)
      rcases cmpBytes_cases r.denom c.denom with ⟨_, hlt⟩ | ⟨_, heq⟩ | ⟨_, hgt⟩
      · -- r.denom is below everything in R'
        have := hv r.denom
        rw [val_of_mem h.1 List.mem_cons_self,
          val_of_lowerBound (lowerBound_cons.mpr ⟨hlt, LowerBound.trans hlt hl'⟩)] at this
        exact absurd this hr0
      · have hamt := hv r.denom
        rw [val_of_mem h.1 List.mem_cons_self, heq, val_of_mem h'.1 List.mem_cons_self] at hamt
        have hrc : r = c := by
          cases r; cases c
          simp only [Coin.mk.injEq]
          exact ⟨heq, BitVec.toInt_inj.mp hamt⟩
        subst hrc
        congr 1
        apply ih ⟨hs, fun x hx => h.2 x (List.mem_cons_of_mem _ hx)⟩ ⟨hs', fun x hx => h'.2 x (List.mem_cons_of_mem _ hx)⟩
        intro d
        have := hv d
        rw [val_cons, val_cons] at this
        omega
      · have := hv c.denom
        rw [val_of_mem h'.1 List.mem_cons_self,
          val_of_lowerBound (lowerBound_cons.mpr ⟨hgt, LowerBound.trans hgt hl⟩)] at this
        exact absurd this.symm hc0

/-! ### `validate` -/

theorem isPositive_iff (c : Coin) : c.isPositive = true ↔ 0 < c.amount.toInt := by
  simp [Coin.isPositive]

theorem validateRest_iff (low : Denom) (cs : Coins) :
    validateRest low cs = true ↔
      LowerBound low cs ∧ Sorted cs ∧ ∀ c ∈ cs, DenomOK c.denom ∧ 0 < c.amount.toInt := by
  induction cs generalizing low with
  | nil => simp [validateRest, LowerBound, sorted_nil]
  | cons c cs ih =>
    simp only [validateRest]
    by_cases h1 : validateDenom c.denom = true
    · by_cases h2 : dlt c.denom low = true
      · simp only [h1, h2, Bool.not_true, Bool.false_eq_true, if_false, if_true, false_iff]
        intro ⟨hl, _⟩
        have := (lowerBound_cons.mp hl).1
        rw [dlt_asymm h2] at this; cases this
      · by_cases h3 : (c.denom == low) = true
        · simp only [h1, h2, h3, Bool.not_true, Bool.false_eq_true, if_false, if_true, false_iff]
          intro ⟨hl, _⟩
          have := (lowerBound_cons.mp hl).1
          rw [beq_iff_eq] at h3
          rw [h3, dlt_irrefl] at this; cases this
        · by_cases h4 : c.isPositive = true
          · simp only [h1, h2, h3, h4, Bool.not_true, Bool.false_eq_true, if_false, ih]
            have hlow : dlt low c.denom = true := by
              cases hh : dlt low c.denom with
              | true => rfl
              | false =>
                have := dlt_total hh (by simpa using h2)
                simp [this] at h3
            constructor
            · intro ⟨hl, hs, hv⟩
              refine ⟨lowerBound_cons.mpr ⟨hlow, LowerBound.trans hlow hl⟩, sorted_cons.mpr ⟨hl, hs⟩, ?_⟩
              intro x hx
              rcases List.mem_cons.mp hx with e | hx
              · subst e; exact ⟨h1, (isPositive_iff _).mp h4⟩
              · exact hv x hx
            · intro ⟨_, hs, hv⟩
              obtain ⟨hl, hs⟩ := sorted_cons.mp hs
              exact ⟨hl, hs, fun x hx => hv x (List.mem_cons_of_mem _ hx)⟩
          · simp only [h1, h2, h3, h4, Bool.not_true, Bool.not_false, Bool.false_eq_true, if_false, if_true, false_iff]
            intro ⟨_, _, hv⟩
            exact h4 ((isPositive_iff _).mpr (hv c List.mem_cons_self).2)
    · simp only [h1, Bool.not_false, if_true, Bool.false_eq_true, false_iff]
      intro ⟨_, _, hv⟩
      exact h1 (hv c List.mem_cons_self).1

/-- `Coins.validate() == nil` (`IsValid`) is exactly: strictly sorted, well-formed denoms, positive amounts. -/
theorem validate_iff (cs : Coins) : validate cs = true ↔ Valid cs := by
  cases cs with
  | nil => simp [validate, Valid, sorted_nil]
  | cons c cs =>
    simp only [validate, Valid]
    by_cases h1 : validateDenom c.denom = true
    · by_cases h4 : c.isPositive = true
      · simp only [h1, h4, Bool.not_true, Bool.false_eq_true, if_false, validateRest_iff]
        constructor
        · intro ⟨hl, hs, hv⟩
          refine ⟨sorted_cons.mpr ⟨hl, hs⟩, ?_⟩
          intro x hx
          rcases List.mem_cons.mp hx with e | hx
          · subst e; exact ⟨h1, (isPositive_iff _).mp h4⟩
          · exact hv x hx
        · intro ⟨hs, hv⟩
          obtain ⟨hl, hs⟩ := sorted_cons.mp hs
          exact ⟨hl, hs, fun x hx => hv x (List.mem_cons_of_mem _ hx)⟩
      · simp only [h1, h4, Bool.not_true, Bool.not_false, Bool.false_eq_true, if_false, if_true, false_iff]
        intro ⟨_, hv⟩
        exact h4 ((isPositive_iff _).mpr (hv c List.mem_cons_self).2)
    · simp only [h1, Bool.not_false, if_true, Bool.false_eq_true, false_iff]
      intro ⟨_, hv⟩
      exact h1 (hv c List.mem_cons_self).1

/-- validity of a canonical list, read off the function it denotes. -/
theorem valid_iff_val {R : Coins} (h : Canonical R) :
    Valid R ↔ ∀ d, val R d ≠ 0 → DenomOK d ∧ 0 < val R d := by
  constructor
  · intro ⟨_, hv⟩ d hd
    obtain ⟨c, hc, e⟩ := exists_mem_of_val_ne_zero hd
    subst e
    rw [val_of_mem h.1 hc]
    exact hv c hc
  · intro hv
    refine ⟨h.1, fun c hc => ?_⟩
    have := hv c.denom (by rw [val_of_mem h.1 hc]; exact toInt_ne_zero (h.2 c hc))
    rwa [val_of_mem h.1 hc] at this

/-! ### `negative` -/

theorem negWrap_zero : negWrap 0 = 0 := by decide

theorem negWrap_of_ne {x : Int} (h : x ≠ i64Min) : negWrap x = -x := by simp [negWrap, h]

theorem negOne_mul_toInt (x : BitVec 64) : (BitVec.ofInt 64 (-1) * x).toInt = negWrap x.toInt := by
  have hx := toInt_inI64 x
  have h1 : (BitVec.ofInt 64 (-1)).toInt = -1 := by decide
  have e : ((2 ^ 64 : Nat) : Int) = 18446744073709551616 := by decide
  rw [BitVec.toInt_mul, h1, Int.bmod_def, e]
  simp only [inI64, i64Min, i64Max] at hx
  by_cases hm : x.toInt = i64Min
  · rw [hm]; decide
  · rw [negWrap_of_ne hm]
    simp only [i64Min] at hm
    by_cases h2 : -1 * x.toInt % 18446744073709551616 < (18446744073709551616 + 1) / 2
    · rw [if_pos h2]; omega
    · rw [if_neg h2]; omega

theorem sorted_negative {B : Coins} : Sorted (negative B) ↔ Sorted B := by
  simp only [Sorted, negative, List.pairwise_map]

theorem lowerBound_negative {k : Denom} {B : Coins} : LowerBound k (negative B) ↔ LowerBound k B := by
  simp [LowerBound, negative]

/-- on a strictly sorted list `negative` negates the denoted function pointwise — with Go's wrap at MinInt64. -/
theorem negative_cons (c : Coin) (cs : Coins) :
    negative (c :: cs) = ⟨c.denom, BitVec.ofInt 64 (-1) * c.amount⟩ :: negative cs := rfl

theorem val_negative {B : Coins} (hs : Sorted B) (d : Denom) : val (negative B) d = negWrap (val B d) := by
  induction B with
  | nil => exact negWrap_zero.symm
  | cons c cs ih =>
    obtain ⟨hl, hs⟩ := sorted_cons.mp hs
    have ih := ih hs
    rw [negative_cons, val_cons, val_cons, ih]
    show (if c.denom = d then (BitVec.ofInt 64 (-1) * c.amount).toInt else 0) + negWrap (val cs d) = _
    by_cases e : c.denom = d
    · subst e
      have h0 : val cs c.denom = 0 := val_of_lowerBound hl
      rw [if_pos rfl, if_pos rfl, h0, negWrap_zero, negOne_mul_toInt]
      simp
    · rw [if_neg e, if_neg e]; simp

end GnoVerif.C18
