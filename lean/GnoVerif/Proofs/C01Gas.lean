import GnoVerif.Model.C01
/-! Helper lemmas for Props/C01.lean, part 2b (gas charged inside a map range). -/
namespace GnoVerif.C01

theorem chargeAll_in_budget (l : List Nat) (m : Meter) (h : m.consumed + l.sum ≤ m.limit) :
    chargeAll m l = .ok { m with consumed := m.consumed + l.sum } := by
  induction l generalizing m with
  | nil => simp [chargeAll]
  | cons g gs ih =>
    simp only [List.sum_cons] at h
    have hg : ¬ (m.consumed + g > m.limit) := by omega
    simp only [chargeAll, Meter.consume, hg, if_false]
    rw [ih _ (by simp only; omega)]
    simp only [List.sum_cons, Nat.add_assoc]

theorem chargeAll_over_budget (l : List Nat) (m : Meter) (h0 : m.consumed ≤ m.limit)
    (h : m.limit < m.consumed + l.sum) :
    ∃ m', chargeAll m l = .error m' ∧ m'.limit = m.limit ∧ m.limit < m'.consumed := by
  induction l generalizing m with
  | nil => simp only [List.sum_nil] at h; omega
  | cons g gs ih =>
    simp only [List.sum_cons] at h
    by_cases hg : m.consumed + g > m.limit
    · exact ⟨{ m with consumed := m.consumed + g }, by simp [chargeAll, Meter.consume, hg], rfl, hg⟩
    · simp only [chargeAll, Meter.consume, hg, if_false]
      obtain ⟨m', h1, h2, h3⟩ := ih { m with consumed := m.consumed + g } (by simp only; omega) (by simp only; omega)
      exact ⟨m', h1, h2, h3⟩

theorem isOutOfGas_iff (l : List Nat) (m : Meter) (h0 : m.consumed ≤ m.limit) :
    isOutOfGas (chargeAll m l) = decide (m.limit < m.consumed + l.sum) := by
  by_cases h : m.limit < m.consumed + l.sum
  · obtain ⟨m', h1, _, _⟩ := chargeAll_over_budget l m h0 h
    simp [h1, isOutOfGas, h]
  · rw [chargeAll_in_budget l m (by omega)]
    simp [isOutOfGas, h]

theorem gasToLimit_eq (l : List Nat) (m : Meter) (h0 : m.consumed ≤ m.limit) :
    gasToLimit (chargeAll m l) = min (m.consumed + l.sum) m.limit := by
  by_cases h : m.limit < m.consumed + l.sum
  · obtain ⟨m', h1, h2, h3⟩ := chargeAll_over_budget l m h0 h
    rw [h1]
    simp only [gasToLimit, h2]
    omega
  · rw [chargeAll_in_budget l m (by omega)]
    simp only [gasToLimit]

theorem foldl_chargeStep_error (l : List (List Nat × Nat)) (m : Meter) :
    l.foldl chargeStep (.error m) = .error m := by
  induction l with
  | nil => rfl
  | cons e es ih => simpa [List.foldl, chargeStep] using ih

/-- The fold form used by `chargeSorted` is the loop `chargeAll` on the charges. -/
theorem foldl_chargeStep (l : List (List Nat × Nat)) (m : Meter) :
    l.foldl chargeStep (.ok m) = chargeAll m (l.map (·.2)) := by
  induction l generalizing m with
  | nil => rfl
  | cons e es ih =>
    simp only [List.foldl, List.map_cons, chargeAll, chargeStep]
    cases h : m.consume e.2 with
    | ok m' => simp only [ih]
    | error m' => simp only [foldl_chargeStep_error]

end GnoVerif.C01
