import GnoVerif.Proofs.C30Hist
/-!
C30 helper lemmas, part 10: the version bookkeeping when no database key `(v, 1)`
outlives its version.

`Tidy s`: the root table holds a contiguous interval of versions, nothing is pending in
the batch, no surviving key, the two caches are either unset or exact, and the working
tree sits on a version inside the interval.  Every operation keeps `Tidy` as long as it
leaves no surviving key behind, and in a tidy state every version `VersionExists`
reports can be read.
-/
namespace GnoVerif.C30
open GnoVerif

/-- the versions of a table -/
def vers {β : Type} (l : List (Int × β)) : List Int := l.map (·.1)

namespace St

theorem mem_intRange (a : Int) (n : Nat) (x : Int) : x ∈ intRange a n ↔ a ≤ x ∧ x < a + n := by
  induction n generalizing a with
  | zero => simp [intRange]
  | succ m ih =>
    simp only [intRange, List.mem_cons, ih]
    constructor
    · rintro (h | h) <;> omega
    · intro h
      by_cases hx : x = a
      · exact Or.inl hx
      · right; omega

theorem intRange_succ_last (a : Int) (n : Nat) : intRange a (n + 1) = intRange a n ++ [a + n] := by
  induction n generalizing a with
  | zero => simp [intRange]
  | succ m ih =>
    rw [intRange, ih (a + 1), intRange]
    simp only [List.cons_append]
    have : a + 1 + (m : Int) = a + ((m + 1 : Nat) : Int) := by omega
    rw [this]

theorem filter_intRange_ne_head (a : Int) (n : Nat) :
    (intRange a (n + 1)).filter (fun x => decide (x ≠ a)) = intRange (a + 1) n := by
  simp only [intRange, List.filter_cons, ne_eq, not_true_eq_false, decide_false, Bool.false_eq_true, if_false]
  rw [List.filter_eq_self]
  intro x hx
  have := (mem_intRange (a + 1) n x).1 hx
  simp only [decide_eq_true_eq]
  omega

theorem filter_intRange_lt (a : Int) (n : Nat) (b : Int) (h1 : a ≤ b) :
    (intRange a n).filter (fun x => decide (x < b)) = intRange a (min n (b - a).toNat) := by
  induction n generalizing a with
  | zero => simp [intRange]
  | succ m ih =>
    by_cases hab : a < b
    · simp only [intRange, List.filter_cons, hab, decide_true, if_true]
      rw [ih (a + 1) (by omega)]
      have : min (m + 1) (b - a).toNat = min m (b - (a + 1)).toNat + 1 := by omega
      rw [this, intRange]
    · have hb : b = a := by omega
      subst hb
      have : min (m + 1) (b - b).toNat = 0 := by simp
      rw [this, intRange]
      rw [List.filter_eq_nil_iff]
      intro x hx
      have := (mem_intRange b (m + 1) x).1 hx
      simp only [decide_eq_true_eq]
      omega

end St

theorem vers_filter {β : Type} (p : Int → Bool) (l : List (Int × β)) :
    vers (l.filter (fun q => p q.1)) = (vers l).filter p := by
  induction l with
  | nil => rfl
  | cons q t ih =>
    simp only [vers, List.filter_cons, List.map_cons] at ih ⊢
    by_cases h : p q.1 = true <;> simp [h, ih]

theorem lookup_isSome_iff {β : Type} (v : Int) (l : List (Int × β)) : (DB.lookup v l).isSome ↔ v ∈ vers l := by
  induction l with
  | nil => simp [DB.lookup, vers]
  | cons q t ih =>
    obtain ⟨w, x⟩ := q
    simp only [DB.lookup, vers, List.map_cons, List.mem_cons] at ih ⊢
    by_cases h : w = v
    · simp [h]
    · have : ¬ v = w := fun e => h e.symm
      simp [h, this, ih]

theorem vers_insertRoot_append (v : Int) (r : Option Node) (l : List (Int × Option Node))
    (h : ∀ w ∈ vers l, w < v) : vers (DB.insertRoot v r l) = vers l ++ [v] := by
  induction l with
  | nil => rfl
  | cons q t ih =>
    obtain ⟨w, x⟩ := q
    have hw : w < v := h w (by simp [vers])
    have ht : ∀ u ∈ vers t, u < v := fun u hu => h u (by simp [vers] at hu ⊢; exact Or.inr hu)
    simp only [DB.insertRoot]
    have h1 : ¬ v < w := by omega
    have h2 : ¬ v = w := by omega
    simp only [h1, h2, if_false]
    simp only [vers, List.map_cons, List.cons_append] at ih ⊢
    rw [ih ht]

/-- the database holds exactly the versions `a … a+n-1`, and no surviving key -/
def DbOK (d : DB) (a : Int) (n : Nat) : Prop := vers d.roots = St.intRange a n ∧ d.stuck = [] ∧ 1 ≤ a

theorem foldl_max_intRange (a : Int) (n : Nat) (m0 : Int) :
    (St.intRange a n).foldl max m0 = if n = 0 then m0 else max m0 (a + n - 1) := by
  induction n generalizing a m0 with
  | zero => simp [St.intRange]
  | succ m ih =>
    simp only [St.intRange, List.foldl_cons, ih]
    by_cases hm : m = 0
    · subst hm; simp
    · simp only [hm, if_false, Nat.succ_ne_zero]
      omega

theorem foldl_max_vers {β : Type} (l : List (Int × β)) (m0 : Int) :
    l.foldl (fun m p => max m p.1) m0 = (vers l).foldl max m0 := by
  induction l generalizing m0 with
  | nil => rfl
  | cons q t ih => simp only [List.foldl_cons, vers, List.map_cons] at ih ⊢; rw [ih]

theorem DbOK.latest {d : DB} {a : Int} {n : Nat} (h : DbOK d a n) : d.latest = if n = 0 then 0 else a + n - 1 := by
  obtain ⟨h1, h2, h3⟩ := h
  simp only [DB.latest, h2, List.foldl_nil, foldl_max_vers, h1, foldl_max_intRange]
  by_cases hn : n = 0
  · simp [hn]
  · simp only [hn, if_false]; omega

theorem DbOK.hasVersion {d : DB} {a : Int} {n : Nat} (h : DbOK d a n) (x : Int) :
    d.hasVersion x = true ↔ a ≤ x ∧ x < a + n := by
  obtain ⟨h1, h2, h3⟩ := h
  simp only [DB.hasVersion, h2, DB.lookup, Option.isSome_none, Bool.or_false, lookup_isSome_iff, h1, St.mem_intRange]

theorem DbOK.getRoot {d : DB} {a : Int} {n : Nat} (h : DbOK d a n) {x : Int} (hx : a ≤ x ∧ x < a + n) :
    ∃ r, d.getRoot x = .ok r := by
  have : (DB.lookup x d.roots).isSome := by
    rw [lookup_isSome_iff, h.1, St.mem_intRange]; exact hx
  cases hl : DB.lookup x d.roots with
  | none => rw [hl] at this; cases this
  | some r => exact ⟨r, by simp [DB.getRoot, hl]⟩

theorem DbOK.getRoot_none {d : DB} {a : Int} {n : Nat} (h : DbOK d a n) {x : Int} (hx : ¬ (a ≤ x ∧ x < a + n)) :
    d.getRoot x = .error .noVersion := by
  have : ¬ (DB.lookup x d.roots).isSome := by
    rw [lookup_isSome_iff, h.1, St.mem_intRange]; exact hx
  cases hl : DB.lookup x d.roots with
  | some r => rw [hl] at this; simp at this
  | none => simp [DB.getRoot, hl, h.2.1, DB.lookup]

namespace St

/-- the binary search of `getFirstVersion` is exact on a contiguous table -/
theorem searchFirst_exact {d : DB} {a : Int} {n : Nat} (h : DbOK d a n) :
    ∀ (fuel : Nat) (lo hi : Int), lo ≤ a → a ≤ hi → hi < a + n → (hi - lo).toNat < fuel →
      searchFirst d fuel lo hi = a := by
  intro fuel
  induction fuel with
  | zero => intro lo hi _ _ _ hf; omega
  | succ f ih =>
    intro lo hi h1 h2 h3 hf
    simp only [searchFirst]
    by_cases hlt : lo < hi
    · simp only [hlt, if_true]
      by_cases hh : d.hasVersion ((hi + lo) / 2) = true
      · simp only [hh, if_true]
        have := (h.hasVersion _).1 hh
        exact ih lo _ h1 this.1 (by omega) (by omega)
      · simp only [hh, Bool.false_eq_true, if_false]
        have hn : ¬ (a ≤ (hi + lo) / 2 ∧ (hi + lo) / 2 < a + n) := fun c => hh ((h.hasVersion _).2 c)
        exact ih _ hi (by omega) h2 h3 (by omega)
    · simp only [hlt, if_false]; omega

/-- the caches are unset or exact -/
def CachesOK (s : St) (a : Int) (n : Nat) : Prop :=
  (s.latest = 0 ∨ (0 < n ∧ s.latest = a + n - 1)) ∧ (s.first = 0 ∨ (0 < n ∧ s.first = a))

theorem latestOf_tidy {d : DB} {a : Int} {n : Nat} (h : DbOK d a n) {latest : Int}
    (hl : latest = 0 ∨ (0 < n ∧ latest = a + n - 1)) :
    latestOf d latest = if n = 0 then (false, 0) else (true, a + n - 1) := by
  unfold latestOf
  have h3 := h.2.2
  rw [h.latest]
  rcases hl with hl | ⟨hn, hl⟩
  · subst hl
    rw [if_neg (by omega)]
    by_cases hn : n = 0
    · rw [if_pos hn, if_pos hn, if_neg (by omega)]
    · rw [if_neg hn, if_neg hn, if_pos (by omega)]
  · subst hl
    rw [if_pos (by omega), if_neg (by omega)]

theorem firstOf_tidy {d : DB} {a : Int} {n : Nat} (h : DbOK d a n) {first latest : Int}
    (hl : latest = 0 ∨ (0 < n ∧ latest = a + n - 1)) (hf : first = 0 ∨ (0 < n ∧ first = a)) (hn : 0 < n) :
    firstOf d first latest = a := by
  unfold firstOf
  have h3 := h.2.2
  rcases hf with hf | ⟨-, hf⟩
  · subst hf
    rw [if_neg (by omega), latestOf_tidy h hl, if_neg (by omega)]
    exact searchFirst_exact h _ 0 _ (by omega) (by omega) (by omega) (by omega)
  · subst hf
    rw [if_pos (by omega)]

theorem existsOf_tidy {d : DB} {a : Int} {n : Nat} (h : DbOK d a n) {first latest : Int}
    (hl : latest = 0 ∨ (0 < n ∧ latest = a + n - 1)) (hf : first = 0 ∨ (0 < n ∧ first = a)) (v : Int) :
    existsOf d first latest v = true ↔ (a ≤ v ∧ v < a + n) := by
  unfold existsOf
  have h3 := h.2.2
  by_cases hv : v ≤ -1
  · simp only [hv, if_true, Bool.false_eq_true, false_iff]; omega
  · simp only [hv, if_false, latestOf_tidy h hl]
    by_cases hn : n = 0
    · subst hn; simp
    · have hn' : 0 < n := by omega
      simp only [hn, if_false, Bool.not_true, Bool.false_eq_true, firstOf_tidy h hl hf hn', decide_eq_true_eq]
      omega

theorem cachesOK_getLatest {s : St} {a : Int} {n : Nat} (hd : DbOK s.db a n) (hc : CachesOK s a n) :
    CachesOK s.getLatestVersion.2 a n := by
  have h3 := hd.2.2
  unfold getLatestVersion
  by_cases h1 : s.latest > 0
  · rw [if_pos h1]; exact hc
  · rw [if_neg h1, hd.latest]
    by_cases hn : n = 0
    · rw [if_pos hn, if_neg (by omega)]; exact hc
    · rw [if_neg hn, if_pos (by omega)]
      exact ⟨Or.inr ⟨by omega, rfl⟩, hc.2⟩

theorem cachesOK_getFirst {s : St} {a : Int} {n : Nat} (hd : DbOK s.db a n) (hc : CachesOK s a n) :
    CachesOK s.getFirstVersion.2 a n := by
  have h3 := hd.2.2
  unfold getFirstVersion
  by_cases h1 : s.first > 0
  · rw [if_pos h1]; exact hc
  · rw [if_neg h1]
    have hc1 := cachesOK_getLatest hd hc
    have hsame := getLatestVersion_same s
    have hval := getLatestVersion_val s
    simp only
    refine ⟨hc1.1, ?_⟩
    by_cases hn : n = 0
    · left
      simp only [hval, hsame.1, latestOf_tidy hd hc.1, if_pos hn]
      simp [searchFirst]
    · right
      refine ⟨by omega, ?_⟩
      simp only [hval, hsame.1, latestOf_tidy hd hc.1, if_neg hn]
      exact searchFirst_exact hd _ 0 _ (by omega) (by omega) (by omega) (by omega)

theorem cachesOK_versionExists {s : St} {a : Int} {n : Nat} (hd : DbOK s.db a n) (hc : CachesOK s a n) (v : Int) :
    CachesOK (s.versionExists v).2 a n := by
  unfold versionExists
  by_cases h1 : v ≤ -1
  · rw [if_pos h1]; exact hc
  · rw [if_neg h1]
    have c1 := cachesOK_getFirst hd hc
    have d1 : DbOK s.getFirstVersion.2.db a n := by rw [(getFirstVersion_same s).1]; exact hd
    have c2 := cachesOK_getLatest d1 c1
    simp only
    split <;> exact c2

/-- in a tidy database `VersionExists` is exact -/
theorem versionExists_tidy {s : St} {a : Int} {n : Nat} (hd : DbOK s.db a n) (hc : CachesOK s a n) (v : Int) :
    (s.versionExists v).1 = true ↔ (a ≤ v ∧ v < a + n) := by
  rw [versionExists_val]
  exact existsOf_tidy hd hc.1 hc.2 v

/-- the tree sits on a version of the table -/
def VerOK (s : St) (a : Int) (n : Nat) : Prop :=
  (n = 0 → s.version = 0) ∧ (0 < n → a ≤ s.version ∧ s.version < a + n) ∧ s.lsVersion = s.version

/-- the initial-version option: used for the first save only, never above the first version -/
def IvOK (s : St) (a : Int) (n : Nat) : Prop :=
  0 ≤ s.optIV ∧ (s.ivSet = true → s.optIV ≠ 0) ∧ (n = 0 → s.optIV ≠ 0 → s.ivSet = true) ∧ (0 < n → s.optIV ≤ a)

/-- the version bookkeeping is consistent -/
def Tidy (s : St) : Prop :=
  ∃ (a : Int) (n : Nat), DbOK s.db a n ∧ s.pend = none ∧ CachesOK s a n ∧ VerOK s a n ∧ IvOK s a n

/-- no database key `(v, 1)` of a deleted version survives -/
def StuckFree (s : St) : Prop := s.db.stuck = [] ∧ s.batch.stuck = []

theorem init_tidy {iv : Int} (h : 0 ≤ iv) : Tidy (St.init iv) := by
  refine ⟨1, 0, ⟨rfl, rfl, by omega⟩, rfl, ⟨Or.inl rfl, Or.inl rfl⟩, ⟨fun _ => rfl, fun h => by omega, rfl⟩,
    h, ?_, ?_, fun h => by omega⟩
  · intro hs; simpa [St.init] using hs
  · intro _ hne; simpa [St.init] using hne

/-- in a tidy state every version `VersionExists` reports can be read -/
theorem tidy_readable {s : St} (ht : Tidy s) (v : Int) (hv : (s.versionExists v).1 = true) :
    ∃ r, s.getImmutable v = .ok r := by
  obtain ⟨a, n, hd, -, hc, -, -⟩ := ht
  exact hd.getRoot ((versionExists_tidy hd hc v).1 hv)

/-- a change of the caches that keeps them exact keeps the state tidy -/
theorem tidy_of_same {s s' : St} {a : Int} {n : Nat} (hs : Same s s') (hd : DbOK s.db a n) (hp : s.pend = none)
    (hc : CachesOK s' a n) (hv : VerOK s a n) (hi : IvOK s a n) : Tidy s' := by
  obtain ⟨h1, h2, h3, h4, h5, h6, h7, h8⟩ := hs
  refine ⟨a, n, h1 ▸ hd, h2 ▸ hp, hc, ?_, ?_⟩
  · simp only [VerOK, h4, h6]; exact hv
  · simp only [IvOK, h7, h8]; exact hi

/-- the tree part of a state can be replaced freely -/
theorem tidy_root {s : St} (r : Option Node) (h : Tidy s) : Tidy { s with root := r } := h

theorem set_tidy {s s' : St} {k : Bytes} {v : Option Bytes} {u : Bool} (h : s.set k v = .ok (u, s')) (ht : Tidy s) :
    Tidy s' := by
  unfold St.set at h
  cases v with
  | none => simp at h
  | some val =>
    simp only at h
    cases hr : s.root with
    | none =>
      rw [hr] at h
      simp only [Except.ok.injEq, Prod.mk.injEq] at h
      obtain ⟨-, h⟩ := h; subst h; exact ht
    | some n =>
      rw [hr] at h
      simp only at h
      cases hs : n.set k val with
      | error e => rw [hs] at h; simp at h
      | ok p =>
        rw [hs] at h
        simp only [Except.ok.injEq, Prod.mk.injEq] at h
        obtain ⟨-, h⟩ := h; subst h; exact ht

theorem remove_tidy {s s' : St} {k : Bytes} {x : Option Bytes × Bool} (h : s.remove k = .ok (x, s')) (ht : Tidy s) :
    Tidy s' := by
  unfold St.remove at h
  cases hr : s.root with
  | none =>
    rw [hr] at h
    simp only [Except.ok.injEq, Prod.mk.injEq] at h
    obtain ⟨-, h⟩ := h; subst h; exact ht
  | some n =>
    rw [hr] at h
    simp only at h
    cases hs : n.remove k with
    | error e => rw [hs] at h; simp at h
    | ok p =>
      obtain ⟨a, b, c, d⟩ := p
      rw [hs] at h
      simp only at h
      cases d with
      | false =>
        simp only [Bool.not_false, if_true, Except.ok.injEq, Prod.mk.injEq] at h
        obtain ⟨-, h⟩ := h; subst h; exact ht
      | true =>
        simp only [Bool.not_true, Bool.false_eq_true, if_false, Except.ok.injEq, Prod.mk.injEq] at h
        obtain ⟨-, h⟩ := h; subst h; exact ht

theorem rollback_tidy {s : St} (ht : Tidy s) : Tidy s.rollback := by
  obtain ⟨a, n, hd, hp, hc, ⟨hv0, hv1, hv2⟩, hi⟩ := ht
  unfold rollback
  split
  · refine ⟨a, n, hd, hp, hc, ⟨?_, ?_, rfl⟩, hi⟩
    · intro h0; simp only; rw [hv2]; exact hv0 h0
    · intro h0; simp only; rw [hv2]; exact hv1 h0
  · rename_i hneg
    have h3 := hd.2.2
    have hn0 : n = 0 := by
      by_cases hn : 0 < n
      · have := hv1 hn; omega
      · omega
    refine ⟨a, n, hd, hp, hc, ⟨fun _ => rfl, fun h => by omega, ?_⟩, hi⟩
    simp only
    rw [hv2]; exact hv0 hn0

theorem firstOf_tidy0 {d : DB} {a : Int} (h : DbOK d a 0) {first latest : Int}
    (hl : latest = 0 ∨ (0 < 0 ∧ latest = a + (0 : Nat) - 1)) (hf : first = 0 ∨ (0 < 0 ∧ first = a)) :
    firstOf d first latest = 0 := by
  have hf0 : first = 0 := by rcases hf with h | ⟨h, -⟩; exact h; omega
  subst hf0
  unfold firstOf
  rw [if_neg (by omega), latestOf_tidy h hl, if_pos rfl]
  simp [searchFirst]

/-- `LoadVersion` in a tidy database.  The tree may sit anywhere (`hv` right: a freshly opened
tree loading the latest version) -/
theorem loadVersion_tidy {s : St} {a : Int} {n : Nat} (hd : DbOK s.db a n) (hp : s.pend = none)
    (hc : CachesOK s a n) (hi : IvOK s a n) (t : Int) (hv : VerOK s a n ∨ (t ≤ 0 ∧ 0 < n)) :
    Tidy (s.loadVersion t).2 := by
  have h3 := hd.2.2
  -- the three cache lookups
  have sm1 := getFirstVersion_same s
  have c1 := cachesOK_getFirst hd hc
  have d1 : DbOK s.getFirstVersion.2.db a n := by rw [sm1.1]; exact hd
  have sm2 := sm1.trans (getLatestVersion_same s.getFirstVersion.2)
  have c2 := cachesOK_getLatest d1 c1
  have d2 : DbOK s.getFirstVersion.2.getLatestVersion.2.db a n := by rw [sm2.1]; exact hd
  have e1 : s.getFirstVersion.1 = if n = 0 then 0 else a := by
    rw [getFirstVersion_val]
    by_cases hn : n = 0
    · subst hn; rw [if_pos rfl]; exact firstOf_tidy0 hd hc.1 hc.2
    · rw [if_neg hn]; exact firstOf_tidy hd hc.1 hc.2 (by omega)
  have e2 : s.getFirstVersion.2.getLatestVersion.1 = if n = 0 then (false, 0) else (true, a + n - 1) := by
    rw [getLatestVersion_val, sm1.1]; exact latestOf_tidy hd c1.1
  have tidy2 : VerOK s a n → Tidy s.getFirstVersion.2.getLatestVersion.2 := fun h => tidy_of_same sm2 hd hp c2 h hi
  unfold loadVersion
  simp only [e1, e2]
  by_cases hn : n = 0
  · -- empty database
    subst hn
    have hver : VerOK s a 0 := by rcases hv with h | ⟨-, h⟩; exact h; omega
    simp only [if_true]
    rw [if_neg (by omega)]
    split
    · exact tidy2 hver
    · simp only [Bool.not_false, if_true]
      split <;> exact tidy2 hver
  · have hn' : 0 < n := by omega
    simp only [hn, if_false]
    have hopt : s.getFirstVersion.2.optIV ≤ a := by rw [sm1.2.2.2.2.2.2.1]; exact hi.2.2.2 hn'
    rw [if_neg (by omega)]
    split
    · -- target above the latest version
      rename_i hlt
      have hver : VerOK s a n := by rcases hv with h | ⟨h, -⟩; exact h; omega
      exact tidy2 hver
    · rename_i hlt
      simp only [Bool.not_true, Bool.false_eq_true, if_false]
      -- the version that is loaded
      generalize htg : (if t ≤ 0 then a + ↑n - 1 else t) = tg
      have htg' : t ≤ 0 → tg = a + n - 1 := fun h => by rw [← htg, if_pos h]
      have hex := versionExists_tidy d2 c2 tg
      have sm3 := sm2.trans (versionExists_same s.getFirstVersion.2.getLatestVersion.2 tg)
      have c3 := cachesOK_versionExists d2 c2 tg
      cases hb : (s.getFirstVersion.2.getLatestVersion.2.versionExists tg).1 with
      | false =>
        simp only [Bool.not_false, if_true]
        have hver : VerOK s a n := by
          rcases hv with h | ⟨h, -⟩
          · exact h
          · exfalso
            have : (s.getFirstVersion.2.getLatestVersion.2.versionExists tg).1 = true := by
              rw [hex, htg' h]; omega
            rw [this] at hb; cases hb
        exact tidy_of_same sm3 hd hp c3 hver hi
      | true =>
        simp only [Bool.not_true, Bool.false_eq_true, if_false]
        have hin := hex.1 hb
        obtain ⟨r, hr⟩ := hd.getRoot hin
        rw [sm3.1, hr]
        simp only
        obtain ⟨q1, q2, q3, q4, q5, q6, q7, q8⟩ := sm3
        refine ⟨a, n, q1 ▸ hd, q2 ▸ hp, c3, ⟨fun h => by omega, fun _ => hin, rfl⟩, ?_⟩
        simp only [IvOK, q7, q8]; exact hi

theorem load_tidy {s : St} (ht : Tidy s) (t : Int) : Tidy (s.loadVersion t).2 := by
  obtain ⟨a, n, hd, hp, hc, hv, hi⟩ := ht
  exact loadVersion_tidy hd hp hc hi t (Or.inl hv)

/-- the state of a freshly opened tree -/
def fresh (s : St) : St :=
  { db := s.db, pend := none, first := 0, latest := 0, root := none, version := 0,
    lsRoot := none, lsVersion := 0, optIV := s.optIV, ivSet := s.optIV ≠ 0 }

theorem reopen_eq (s : St) : s.reopen = s.fresh.loadVersion 0 := rfl

theorem reopen_tidy {s : St} (ht : Tidy s) : Tidy s.reopen.2 := by
  obtain ⟨a, n, hd, hp, hc, hv, hi⟩ := ht
  rw [reopen_eq]
  apply loadVersion_tidy (s := s.fresh) (a := a) (n := n) hd rfl ⟨Or.inl rfl, Or.inl rfl⟩
  · refine ⟨hi.1, ?_, ?_, hi.2.2.2⟩
    · intro h; simpa [fresh] using h
    · intro _ hne; simpa [fresh] using hne
  · by_cases hn : n = 0
    · left; subst hn
      exact ⟨fun _ => rfl, fun h => by omega, rfl⟩
    · right; exact ⟨Int.le_refl 0, by omega⟩

/-- a successful `LoadVersion(t)` with `t > 0` puts the tree on version `t` -/
theorem loadVersion_version (s : St) (t : Int) (ht : 0 < t) (l : Int) (h : (s.loadVersion t).1 = .ok l) :
    (s.loadVersion t).2.version = t := by
  unfold loadVersion at h ⊢
  simp only at h ⊢
  have hnt : ¬ t ≤ 0 := by omega
  simp only [hnt, if_false] at h ⊢
  by_cases c1 : s.getFirstVersion.1 > 0 ∧ s.getFirstVersion.1 < s.getFirstVersion.2.optIV
  · rw [if_pos c1] at h; cases h
  · rw [if_neg c1] at h ⊢
    by_cases c2 : s.getFirstVersion.2.getLatestVersion.1.2 < t
    · rw [if_pos c2] at h; cases h
    · rw [if_neg c2] at h ⊢
      by_cases c3 : (!s.getFirstVersion.2.getLatestVersion.1.1) = true
      · rw [if_pos c3] at h; cases h
      · rw [if_neg c3] at h ⊢
        by_cases c4 : (!(s.getFirstVersion.2.getLatestVersion.2.versionExists t).1) = true
        · rw [if_pos c4] at h; cases h
        · rw [if_neg c4] at h ⊢
          cases hg : (s.getFirstVersion.2.getLatestVersion.2.versionExists t).2.db.getRoot t with
          | error e => rw [hg] at h; cases h
          | ok r => rfl

theorem vers_eq_nil {β : Type} {l : List (Int × β)} (h : vers l = []) : l = [] := by
  cases l with
  | nil => rfl
  | cons q t => simp [vers] at h

/-- the state after `SaveVersion` wrote a new version `wv` at the upper end of the table -/
theorem save_new_tidy (s1 : St) {a : Int} {n : Nat} (hd : DbOK s1.db a n) (hp : s1.pend = none)
    (hc : CachesOK s1 a n) (hiv : 0 ≤ s1.optIV) (hivf : s1.ivSet = false) (wv : Int) (r' root'' ls : Option Node)
    (hwv : (n = 0 → 1 ≤ wv ∧ s1.optIV ≤ wv) ∧ (0 < n → wv = a + n ∧ s1.optIV ≤ a)) :
    Tidy { s1 with db := s1.batch.setRoot wv r', pend := none, latest := wv, version := wv, root := root'',
                   lsRoot := ls, lsVersion := wv } := by
  have h3 := hd.2.2
  have hb : s1.batch = s1.db := by simp [St.batch, hp]
  by_cases hn : n = 0
  · subst hn
    obtain ⟨hw1, hw2⟩ := hwv.1 rfl
    have hnil : s1.db.roots = [] := vers_eq_nil hd.1
    refine ⟨wv, 1, ⟨?_, ?_, hw1⟩, rfl, ⟨Or.inr ⟨by omega, by simp⟩, ?_⟩, ⟨fun h => by omega, fun _ => ⟨by simp, by simp; omega⟩, rfl⟩,
      hiv, ?_, fun h => by omega, fun _ => hw2⟩
    · simp [hb, DB.setRoot, hnil, DB.insertRoot, vers, intRange]
    · simp [hb, DB.setRoot, hd.2.1]
    · rcases hc.2 with h | ⟨h, -⟩
      · exact Or.inl h
      · omega
    · intro h; simp only at h; rw [hivf] at h; cases h
  · have hn' : 0 < n := by omega
    obtain ⟨hw1, hw2⟩ := hwv.2 hn'
    subst hw1
    refine ⟨a, n + 1, ⟨?_, ?_, h3⟩, rfl, ⟨Or.inr ⟨by omega, by simp; omega⟩, ?_⟩,
      ⟨fun h => by omega, fun _ => ⟨by simp; omega, by simp; omega⟩, rfl⟩, hiv, ?_, fun h => by omega, fun _ => hw2⟩
    · simp only [hb, DB.setRoot]
      rw [vers_insertRoot_append, hd.1, intRange_succ_last]
      intro w hw
      rw [hd.1, mem_intRange] at hw
      omega
    · simp [hb, DB.setRoot, hd.2.1]
    · rcases hc.2 with h | ⟨-, h⟩
      · exact Or.inl h
      · exact Or.inr ⟨by omega, h⟩
    · intro h; simp only at h; rw [hivf] at h; cases h

theorem saveVersion_tidy (H : Bytes → Bytes) {s : St} (ht : Tidy s) : Tidy (s.saveVersion H).2 := by
  obtain ⟨a, n, hd, hp, hc, ⟨hv0, hv1, hv2⟩, ⟨hi1, hi2, hi3, hi4⟩⟩ := ht
  have h3 := hd.2.2
  -- the lookup on the state with the flag cleared
  have sm := versionExists_same ({ s with ivSet := false } : St) s.workingVersion
  have c1 : CachesOK (({ s with ivSet := false } : St).versionExists s.workingVersion).2 a n :=
    cachesOK_versionExists (s := { s with ivSet := false }) hd hc s.workingVersion
  have hex := versionExists_tidy (s := { s with ivSet := false }) hd hc s.workingVersion
  obtain ⟨q1, q2, q3, q4, q5, q6, q7, q8⟩ := sm
  simp only at q1 q2 q3 q4 q5 q6 q7 q8
  have hd1 : DbOK (({ s with ivSet := false } : St).versionExists s.workingVersion).2.db a n := by rw [q1]; exact hd
  have hp1 : (({ s with ivSet := false } : St).versionExists s.workingVersion).2.pend = none := by rw [q2]; exact hp
  have ho1 : 0 ≤ (({ s with ivSet := false } : St).versionExists s.workingVersion).2.optIV := by rw [q7]; exact hi1
  cases hb : (({ s with ivSet := false } : St).versionExists s.workingVersion).1 with
  | true =>
    unfold saveVersion
    simp only [hb]
    have hin := hex.1 hb
    have hn : 0 < n := by omega
    -- an existing version: the database is left alone
    have hiv' : IvOK (({ s with ivSet := false } : St).versionExists s.workingVersion).2 a n := by
      refine ⟨ho1, ?_, fun h => by omega, fun _ => by rw [q7]; exact hi4 hn⟩
      intro h; rw [q8] at h; cases h
    have tidy1 : Tidy (({ s with ivSet := false } : St).versionExists s.workingVersion).2 :=
      ⟨a, n, hd1, hp1, c1, ⟨fun h => by omega, fun _ => by rw [q4]; exact hv1 hn, by rw [q6, q4]; exact hv2⟩, hiv'⟩
    simp only [if_true]
    obtain ⟨r, hr⟩ := hd1.getRoot hin
    rw [hr]
    simp only
    split
    · exact ⟨a, n, hd1, hp1, c1, ⟨fun h => by omega, fun _ => hin, rfl⟩, hiv'⟩
    · exact tidy1
  | false =>
    have hnin : ¬ (a ≤ s.workingVersion ∧ s.workingVersion < a + n) := fun c => by
      have := hex.2 c; rw [hb] at this; cases this
    -- the working version is the next one
    have hwv : (n = 0 → 1 ≤ s.workingVersion ∧ s.optIV ≤ s.workingVersion) ∧
        (0 < n → s.workingVersion = a + n ∧ s.optIV ≤ a) := by
      constructor
      · intro hn
        have hz := hv0 hn
        unfold workingVersion
        simp only [hz]
        by_cases hs : s.ivSet = true
        · have := hi2 hs
          simp only [hs, and_true]
          rw [if_pos (by omega)]
          omega
        · have hz0 : s.optIV = 0 := by
            by_cases h0 : s.optIV = 0
            · exact h0
            · exact absurd (hi3 hn h0) hs
          simp only [hs, and_false]
          rw [if_neg (by simp)]
          omega
      · intro hn
        obtain ⟨hva, hvb⟩ := hv1 hn
        have hwv' : s.workingVersion = s.version + 1 := by
          unfold workingVersion
          simp only
          rw [if_neg (by omega)]
        refine ⟨?_, hi4 hn⟩
        rw [hwv'] at hnin ⊢
        omega
    rw [saveVersion_new_eq H s hb]
    exact save_new_tidy (({ s with ivSet := false } : St).versionExists s.workingVersion).2 hd1 hp1 c1
      ho1 q8 s.workingVersion _ _ _ (by rw [q7]; exact hwv)

/-- the batch `deleteVersion` leaves behind -/
def delBatch (s : St) (v : Int) (prev cur : Option Node) : DB :=
  match staysKey v prev cur with
  | some p => (s.batch.restrict (fun x => decide (x ≠ v))).addStuck v p
  | none => s.batch.restrict (fun x => decide (x ≠ v))

theorem deleteVersion_ok {s : St} {v : Int} {prev cur : Option Node} (h1 : s.db.getRoot v = .ok prev)
    (h2 : s.db.getRoot (v + 1) = .ok cur) :
    s.deleteVersion v = .ok { s with pend := some (delBatch s v prev cur) } := by
  unfold deleteVersion delBatch
  rw [h1, h2]
  simp only
  cases staysKey v prev cur <;> rfl

theorem deleteVersion_cases (s : St) (v : Int) :
    (∃ e, s.deleteVersion v = .error e) ∨
    (∃ prev cur, s.deleteVersion v = .ok { s with pend := some (delBatch s v prev cur) }) := by
  cases h1 : s.db.getRoot v with
  | error e => left; exact ⟨e, by simp [deleteVersion, h1]⟩
  | ok prev =>
    cases h2 : s.db.getRoot (v + 1) with
    | error e => left; exact ⟨e, by simp [deleteVersion, h1, h2]⟩
    | ok cur => right; exact ⟨prev, cur, deleteVersion_ok h1 h2⟩

theorem mem_vers_delBatch_stuck {s : St} {v w : Int} {prev cur : Option Node} (hw : w ∈ vers s.batch.stuck) (hne : w ≠ v) :
    w ∈ vers (delBatch s v prev cur).stuck := by
  have hr : w ∈ vers (s.batch.restrict (fun x => decide (x ≠ v))).stuck := by
    rw [show vers (DB.restrict (fun x => decide (x ≠ v)) s.batch).stuck =
        (vers s.batch.stuck).filter (fun x => decide (x ≠ v)) from vers_filter (fun x => decide (x ≠ v)) s.batch.stuck]
    exact List.mem_filter.2 ⟨hw, by simpa using hne⟩
  unfold delBatch
  cases staysKey v prev cur with
  | none => exact hr
  | some p =>
    simp only [DB.addStuck, vers, List.map_append, List.mem_append]
    exact Or.inl hr

/-- a surviving key below the versions still to be deleted survives the rest of the loop -/
theorem deleteLoop_stuck (to : Int) : ∀ (fuel : Nat) (s : St) (v w : Int), w < v → w ∈ vers s.batch.stuck →
    ∃ w', w' ∈ vers (deleteLoop to fuel s v).2.batch.stuck := by
  intro fuel
  induction fuel with
  | zero => intro s v w _ hw; exact ⟨w, hw⟩
  | succ f ih =>
    intro s v w hlt hw
    simp only [deleteLoop]
    split
    · rcases deleteVersion_cases s v with ⟨e, he⟩ | ⟨prev, cur, hok⟩
      · rw [he]; exact ⟨w, hw⟩
      · rw [hok]
        simp only
        apply ih _ (v + 1) w (by omega)
        simp only [St.batch, Option.getD_some]
        exact mem_vers_delBatch_stuck hw (by omega)
    · exact ⟨w, hw⟩

/-- the loop of `deleteVersionsTo` on a tidy database: if it leaves no surviving key, it ran to
the end, deleted exactly the versions `v … to` from the batch and advanced the first version -/
theorem deleteLoop_tidy {a : Int} {n : Nat} (to : Int) : ∀ (fuel : Nat) (s : St) (v : Int),
    DbOK s.db a n → vers s.batch.roots = intRange v (a + n - v).toNat → s.batch.stuck = [] →
    a ≤ v → to < a + n - 1 → (to - v + 1).toNat ≤ fuel →
    (deleteLoop to fuel s v).2.batch.stuck = [] →
      (deleteLoop to fuel s v).1 = .ok () ∧ (deleteLoop to fuel s v).2.db = s.db ∧
      vers (deleteLoop to fuel s v).2.batch.roots = intRange (max v (to + 1)) (a + n - max v (to + 1)).toNat ∧
      (deleteLoop to fuel s v).2.first = (if v ≤ to then to + 1 else s.first) ∧
      (deleteLoop to fuel s v).2.latest = s.latest ∧ (deleteLoop to fuel s v).2.version = s.version ∧
      (deleteLoop to fuel s v).2.lsVersion = s.lsVersion ∧ (deleteLoop to fuel s v).2.optIV = s.optIV ∧
      (deleteLoop to fuel s v).2.ivSet = s.ivSet := by
  intro fuel
  induction fuel with
  | zero =>
    intro s v hd hb hs hav hto hf _
    have hvt : ¬ v ≤ to := by omega
    have hmax : max v (to + 1) = v := by omega
    have e : deleteLoop to 0 s v = (.ok (), s) := rfl
    rw [e, hmax, if_neg hvt]
    exact ⟨rfl, rfl, hb, rfl, rfl, rfl, rfl, rfl, rfl⟩
  | succ f ih =>
    intro s v hd hb hs hav hto hf hfin
    by_cases hvt : v ≤ to
    · obtain ⟨prev, hprev⟩ := hd.getRoot (x := v) ⟨hav, by omega⟩
      obtain ⟨cur, hcur⟩ := hd.getRoot (x := v + 1) ⟨by omega, by omega⟩
      have hok := deleteVersion_ok hprev hcur
      have e : deleteLoop to (f + 1) s v =
          deleteLoop to f { s with pend := some (delBatch s v prev cur), first := v + 1 } (v + 1) := by
        simp only [deleteLoop, hvt, if_true, hok]
      rw [e] at hfin ⊢
      -- no key may stay behind
      have hst : staysKey v prev cur = none := by
        cases hsk : staysKey v prev cur with
        | none => rfl
        | some p =>
          exfalso
          have hmem : v ∈ vers ({ s with pend := some (delBatch s v prev cur), first := v + 1 } : St).batch.stuck := by
            simp only [St.batch, Option.getD_some, delBatch, hsk, DB.addStuck, vers, List.map_append,
              List.map_cons, List.map_nil, List.mem_append, List.mem_singleton, or_true]
          obtain ⟨w', hw'⟩ := deleteLoop_stuck to f _ (v + 1) v (by omega) hmem
          rw [hfin] at hw'
          simp [vers] at hw'
      have hbatch : ({ s with pend := some (delBatch s v prev cur), first := v + 1 } : St).batch =
          s.batch.restrict (fun x => decide (x ≠ v)) := by
        simp only [St.batch, Option.getD_some, delBatch, hst]
      have hlen : (a + n - v).toNat = (a + n - (v + 1)).toNat + 1 := by omega
      have hb' : vers ({ s with pend := some (delBatch s v prev cur), first := v + 1 } : St).batch.roots =
          intRange (v + 1) (a + n - (v + 1)).toNat := by
        rw [hbatch, show vers (DB.restrict (fun x => decide (x ≠ v)) s.batch).roots =
          (vers s.batch.roots).filter (fun x => decide (x ≠ v)) from vers_filter (fun x => decide (x ≠ v)) s.batch.roots, hb, hlen]
        exact filter_intRange_ne_head v _
      have hs' : ({ s with pend := some (delBatch s v prev cur), first := v + 1 } : St).batch.stuck = [] := by
        rw [hbatch]; simp [DB.restrict, hs]
      have := ih { s with pend := some (delBatch s v prev cur), first := v + 1 } (v + 1) hd hb' hs' (by omega) hto
        (by omega) hfin
      obtain ⟨r1, r2, r3, r4, r5, r6, r7, r8, r9⟩ := this
      have hmax : max (v + 1) (to + 1) = max v (to + 1) := by omega
      refine ⟨r1, r2, by rw [r3, hmax], ?_, r5, r6, r7, r8, r9⟩
      rw [r4, if_pos hvt]
      by_cases h2 : v + 1 ≤ to
      · rw [if_pos h2]
      · rw [if_neg h2]; show v + 1 = to + 1; omega
    · have hmax : max v (to + 1) = v := by omega
      have e : deleteLoop to (f + 1) s v = (.ok (), s) := by simp only [deleteLoop, hvt, if_false]
      rw [e, hmax, if_neg hvt]
      exact ⟨rfl, rfl, hb, rfl, rfl, rfl, rfl, rfl, rfl⟩

theorem commit_tidy {s : St} (ht : Tidy s) : Tidy s.commit := by
  obtain ⟨a, n, hd, hp, hc, hv, hi⟩ := ht
  have hb : s.batch = s.db := by simp [St.batch, hp]
  exact ⟨a, n, by simp only [commit, hb]; exact hd, rfl, hc, hv, hi⟩

/-- `DeleteVersionsTo` on a tidy state, below the version the tree sits on (`hg`), leaving no
surviving key (`hfin`) -/
theorem deleteVersionsTo_tidy {s : St} {a : Int} {n : Nat} (hd : DbOK s.db a n) (hp : s.pend = none)
    (hc : CachesOK s a n) (hv : VerOK s a n) (hi : IvOK s a n) (to : Int)
    (hg : 0 < n → to < a + n - 1 → to < s.version) (hfin : StuckFree (s.deleteVersionsTo to).2) :
    Tidy (s.deleteVersionsTo to).2 := by
  have h3 := hd.2.2
  have ht : Tidy s := ⟨a, n, hd, hp, hc, hv, hi⟩
  have sm1 := getFirstVersion_same s
  have c1 := cachesOK_getFirst hd hc
  have d1 : DbOK s.getFirstVersion.2.db a n := by rw [sm1.1]; exact hd
  have sm2 := sm1.trans (getLatestVersion_same s.getFirstVersion.2)
  have c2 := cachesOK_getLatest d1 c1
  have d2 : DbOK s.getFirstVersion.2.getLatestVersion.2.db a n := by rw [sm2.1]; exact hd
  have e1 : s.getFirstVersion.1 = if n = 0 then 0 else a := by
    rw [getFirstVersion_val]
    by_cases hn : n = 0
    · subst hn; rw [if_pos rfl]; exact firstOf_tidy0 hd hc.1 hc.2
    · rw [if_neg hn]; exact firstOf_tidy hd hc.1 hc.2 (by omega)
  have e2 : s.getFirstVersion.2.getLatestVersion.1 = if n = 0 then (false, 0) else (true, a + n - 1) := by
    rw [getLatestVersion_val, sm1.1]; exact latestOf_tidy hd c1.1
  have tidy2 : Tidy s.getFirstVersion.2.getLatestVersion.2 := tidy_of_same sm2 hd hp c2 hv hi
  unfold deleteVersionsTo at hfin ⊢
  by_cases hneg : -1 > to
  · rw [if_pos hneg]; exact commit_tidy ht
  · rw [if_neg hneg] at hfin ⊢
    simp only [e1, e2] at hfin ⊢
    by_cases hn : n = 0
    · subst hn
      simp only [if_true] at hfin ⊢
      by_cases hle : (0 : Int) ≤ to
      · rw [if_pos hle]; exact tidy2
      · rw [if_neg hle]
        have hto : to = -1 := by omega
        subst hto
        have hfuel : ((-1 : Int) - 0 + 1).toNat = 0 := by decide
        rw [hfuel]
        exact commit_tidy tidy2
    · have hn' : 0 < n := by omega
      simp only [hn, if_false] at hfin ⊢
      by_cases hle : a + ↑n - 1 ≤ to
      · rw [if_pos hle]; exact tidy2
      · rw [if_neg hle] at hfin ⊢
        have hto : to < a + n - 1 := by omega
        have hbatch : s.getFirstVersion.2.getLatestVersion.2.batch = s.db := by
          rw [sm2.batch]; simp [St.batch, hp]
        have hb0 : vers s.getFirstVersion.2.getLatestVersion.2.batch.roots = intRange a (a + n - a).toNat := by
          rw [hbatch, hd.1]; congr 1; omega
        have hs0 : s.getFirstVersion.2.getLatestVersion.2.batch.stuck = [] := by rw [hbatch]; exact hd.2.1
        -- the loop left no surviving key (from `hfin`), so it ran to the end
        have hloopfin : (deleteLoop to (to - a + 1).toNat s.getFirstVersion.2.getLatestVersion.2 a).2.batch.stuck = [] := by
          cases hr : deleteLoop to (to - a + 1).toNat s.getFirstVersion.2.getLatestVersion.2 a with
          | mk res st =>
            rw [hr] at hfin
            cases res with
            | error e => exact hfin.2
            | ok u => simpa [StuckFree, commit, St.batch] using hfin.1
        obtain ⟨r1, r2, r3, r4, r5, r6, r7, r8, r9⟩ :=
          deleteLoop_tidy (a := a) (n := n) to _ _ a d2 hb0 hs0 (Int.le_refl a) hto (Nat.le_refl _) hloopfin
        cases hr : deleteLoop to (to - a + 1).toNat s.getFirstVersion.2.getLatestVersion.2 a with
        | mk res st =>
          rw [hr] at r1 r2 r3 r4 r5 r6 r7 r8 r9 hloopfin
          simp only at r1 r2 r3 r4 r5 r6 r7 r8 r9 hloopfin
          subst r1
          simp only
          -- the new table
          have hver := hg hn' hto
          obtain ⟨q1, q2, q3, q4, q5, q6, q7, q8⟩ := sm2
          have hlen : 0 < (a + ↑n - max a (to + 1)).toNat := by omega
          refine ⟨max a (to + 1), (a + n - max a (to + 1)).toNat, ⟨?_, ?_, by omega⟩, rfl, ⟨?_, ?_⟩, ⟨?_, ?_, ?_⟩,
            ?_, ?_, ?_, ?_⟩
          · simp only [commit]; exact r3
          · simp only [commit]; exact hloopfin
          · simp only [commit, r5]
            rcases c2.1 with h | ⟨-, h⟩
            · exact Or.inl h
            · exact Or.inr ⟨hlen, by rw [h]; omega⟩
          · simp only [commit, r4]
            by_cases hat : a ≤ to
            · rw [if_pos hat]; exact Or.inr ⟨hlen, by omega⟩
            · rw [if_neg hat]
              rcases c2.2 with h | ⟨-, h⟩
              · exact Or.inl h
              · exact Or.inr ⟨hlen, by rw [h]; omega⟩
          · intro h0; omega
          · intro _
            simp only [commit, r6, q4]
            have := hv.2.1 hn'
            omega
          · simp only [commit, r6, r7, q4, q6]; exact hv.2.2
          · simp only [commit, r8, q7]; exact hi.1
          · simp only [commit, r8, r9, q7, q8]; exact hi.2.1
          · intro h0; omega
          · intro _
            simp only [commit, r8, q7]
            have := hi.2.2.2 hn'
            omega

theorem deleteVersionsToGuarded_tidy {s : St} (ht : Tidy s) (to : Int)
    (hfin : StuckFree (s.deleteVersionsToGuarded to).2) : Tidy (s.deleteVersionsToGuarded to).2 := by
  obtain ⟨a, n, hd, hp, hc, hv, hi⟩ := ht
  have h3 := hd.2.2
  have sm := getLatestVersion_same s
  have c1 := cachesOK_getLatest hd hc
  have d1 : DbOK s.getLatestVersion.2.db a n := by rw [sm.1]; exact hd
  have e : s.getLatestVersion.1 = if n = 0 then (false, 0) else (true, a + n - 1) := by
    rw [getLatestVersion_val]; exact latestOf_tidy hd hc.1
  obtain ⟨q1, q2, q3, q4, q5, q6, q7, q8⟩ := sm
  have hv1 : VerOK s.getLatestVersion.2 a n := by simp only [VerOK, q4, q6]; exact hv
  have hi1 : IvOK s.getLatestVersion.2 a n := by simp only [IvOK, q7, q8]; exact hi
  have hp1 : s.getLatestVersion.2.pend = none := by rw [q2]; exact hp
  have tidy1 : Tidy s.getLatestVersion.2 := ⟨a, n, d1, hp1, c1, hv1, hi1⟩
  unfold deleteVersionsToGuarded at hfin ⊢
  simp only [e] at hfin ⊢
  by_cases hgd : s.getLatestVersion.2.version ≤ to ∧ to < (if n = 0 then ((false, 0) : Bool × Int) else (true, a + ↑n - 1)).2
  · rw [if_pos hgd]; exact tidy1
  · rw [if_neg hgd] at hfin ⊢
    apply deleteVersionsTo_tidy d1 hp1 c1 hv1 hi1 to ?_ hfin
    intro hn hto
    have hn0 : ¬ n = 0 := by omega
    rw [if_neg hn0] at hgd
    simp only at hgd
    omega

theorem deleteVersionsFrom_commit_tidy {s : St} (ht : Tidy s) (t : Int) (h1 : 1 ≤ t) (hver : s.version = t) :
    Tidy (s.deleteVersionsFrom (t + 1)).commit := by
  obtain ⟨a, n, hd, hp, hc, hv, hi⟩ := ht
  have h3 := hd.2.2
  have hn : 0 < n := by
    by_cases h0 : n = 0
    · have := hv.1 h0; omega
    · omega
  obtain ⟨hva, hvb⟩ := hv.2.1 hn
  have sm := getLatestVersion_same s
  have c1 := cachesOK_getLatest hd hc
  have e : s.getLatestVersion.1 = (true, a + n - 1) := by
    rw [getLatestVersion_val, latestOf_tidy hd hc.1, if_neg (by omega)]
  have tidy1 : Tidy s.getLatestVersion.2 := tidy_of_same sm hd hp c1 hv hi
  obtain ⟨q1, q2, q3, q4, q5, q6, q7, q8⟩ := sm
  unfold deleteVersionsFrom
  simp only [e]
  split
  · exact commit_tidy tidy1
  · rename_i hge
    have hbatch : s.getLatestVersion.2.batch = s.db := by simp [St.batch, q1, q2, hp]
    have hlen : 0 < (t + 1 - a).toNat := by omega
    refine ⟨a, (t + 1 - a).toNat, ⟨?_, ?_, h3⟩, rfl, ⟨Or.inr ⟨hlen, by simp only [commit]; omega⟩, ?_⟩,
      ⟨fun h => by omega, fun _ => ?_, ?_⟩, ?_, ?_, fun h => by omega, fun _ => ?_⟩
    · simp only [commit, St.batch, Option.getD_some]
      rw [show s.getLatestVersion.2.pend.getD s.getLatestVersion.2.db = s.db from hbatch,
        show vers (DB.restrict (fun v => decide (v < t + 1)) s.db).roots =
          (vers s.db.roots).filter (fun v => decide (v < t + 1)) from vers_filter (fun v => decide (v < t + 1)) s.db.roots,
        hd.1, filter_intRange_lt a n (t + 1) (by omega)]
      congr 1
      omega
    · simp only [commit, St.batch, Option.getD_some]
      rw [show s.getLatestVersion.2.pend.getD s.getLatestVersion.2.db = s.db from hbatch]
      simp [DB.restrict, hd.2.1]
    · simp only [commit]
      rcases c1.2 with h | ⟨-, h⟩
      · exact Or.inl h
      · exact Or.inr ⟨hlen, h⟩
    · simp only [commit, q4]; omega
    · simp only [commit, q4, q6]; exact hv.2.2
    · simp only [commit, q7]; exact hi.1
    · simp only [commit, q7, q8]; exact hi.2.1
    · simp only [commit, q7]; exact hi.2.2.2 hn

theorem loadVersionForOverwriting_tidy {s : St} (ht : Tidy s) (t : Int) (h1 : 1 ≤ t) :
    Tidy (s.loadVersionForOverwriting t).2 := by
  unfold loadVersionForOverwriting
  have hl := load_tidy ht t
  have hver := loadVersion_version s t (by omega)
  split
  · rename_i e s' heq
    rw [heq] at hl; exact hl
  · rename_i u s' heq
    rw [heq] at hl hver
    exact deleteVersionsFrom_commit_tidy hl t h1 (hver u rfl)

/-- every operation keeps the bookkeeping tidy, as long as it leaves no surviving key -/
theorem step_tidy (H : Bytes → Bytes) {s : St} (ht : Tidy s) (op : Op) (hfin : StuckFree (s.step H op)) :
    Tidy (s.step H op) := by
  cases op with
  | set k v =>
    simp only [step]
    cases h : s.set k v with
    | error e => exact ht
    | ok p => obtain ⟨u, s'⟩ := p; exact set_tidy h ht
  | remove k =>
    simp only [step]
    cases h : s.remove k with
    | error e => exact ht
    | ok p => obtain ⟨x, s'⟩ := p; exact remove_tidy h ht
  | save => exact saveVersion_tidy H ht
  | load t => exact load_tidy ht t
  | lvo t =>
    simp only [step]
    split
    · exact ht
    · exact loadVersionForOverwriting_tidy ht t (by omega)
  | delto t => exact deleteVersionsToGuarded_tidy ht t hfin
  | rollback => exact rollback_tidy ht
  | reopen => exact reopen_tidy ht

theorem run_tidy (H : Bytes → Bytes) (ops : List Op) : ∀ (s : St), Tidy s →
    (∀ pre, pre <+: ops → StuckFree (s.run H pre)) → Tidy (s.run H ops) := by
  induction ops with
  | nil => intro s ht _; exact ht
  | cons op rest ih =>
    intro s ht hall
    have h1 : StuckFree (s.step H op) := by
      have := hall [op] (by simp)
      simpa [run] using this
    apply ih (s.step H op) (step_tidy H ht op h1)
    intro pre hpre
    have := hall (op :: pre) (by simpa using hpre)
    simpa [run] using this

/-- `StuckFree`, as a computation -/
def stuckFreeB (s : St) : Bool := s.db.stuck.isEmpty && s.batch.stuck.isEmpty

theorem stuckFree_of_B {s : St} (h : stuckFreeB s = true) : StuckFree s := by
  simp only [stuckFreeB, Bool.and_eq_true, List.isEmpty_iff] at h
  exact h

/-- all prefixes of a list -/
def inits {α : Type} : List α → List (List α)
  | [] => [[]]
  | a :: l => [] :: (inits l).map (a :: ·)

theorem mem_inits {α : Type} {pre l : List α} (h : pre <+: l) : pre ∈ inits l := by
  induction l generalizing pre with
  | nil =>
    have : pre = [] := List.prefix_nil.1 h
    subst this; simp [inits]
  | cons a l ih =>
    cases pre with
    | nil => simp [inits]
    | cons b t =>
      rw [List.cons_prefix_cons] at h
      obtain ⟨hb, ht⟩ := h
      subst hb
      simp only [inits, List.mem_cons, List.mem_map]
      exact Or.inr ⟨t, ih ht, rfl⟩

theorem prefixes_of_all (P : List Op → Bool) (ops : List Op) (h : (inits ops).all P = true) :
    ∀ pre, pre <+: ops → P pre = true :=
  fun pre hp => List.all_eq_true.1 h pre (mem_inits hp)

end St
end GnoVerif.C30
