/-
C19, pure-`Int` cores of the four overflow checks of tm2/pkg/overflow.

Setting: a `w`-bit Go integer type denotes the integers of the half-open
interval `[lo, lo + P)` with `P = 2^w` and `lo = 0` (unsigned) or
`2 * lo = -P` (signed).  Every machine operation returns the unique
representative in that interval of something congruent (mod `P`) to the exact
result.  Each lemma says: the Go boolean expression computed on the wrapped
values is `true` exactly when the exact result lies in the interval, and then
the wrapped value is the exact result.
-/
import Mathlib.Tactic.Ring
import Mathlib.Tactic.Linarith

namespace GnoVerif.C19.Core

/-- Two members of `[lo, lo+P)` that differ by a multiple of `P` are equal. -/
theorem wrap_unique {P lo z z' : Int} (k : Int) (hP : 0 < P)
    (hz : lo ≤ z ∧ z < lo + P) (hz' : lo ≤ z' ∧ z' < lo + P) (h : z = z' + k * P) : z = z' := by
  have hk : k = 0 := by
    rcases Int.lt_trichotomy k 0 with hk | hk | hk
    · have : k * P ≤ (-1) * P := Int.mul_le_mul_of_nonneg_right (by omega) (by omega)
      omega
    · exact hk
    · have : 1 * P ≤ k * P := Int.mul_le_mul_of_nonneg_right (by omega) (by omega)
      omega
  subst hk; omega

/-- `Add`: `c := a + b; ok := (c > a) == (b > 0)`. -/
theorem add_core {P lo x y z : Int} (k : Int) (hP : 0 < P) (hlo : lo = 0 ∨ 2 * lo = -P)
    (hx : lo ≤ x ∧ x < lo + P) (hy : lo ≤ y ∧ y < lo + P) (hz : lo ≤ z ∧ z < lo + P)
    (hk : z = x + y + k * P) :
    ((decide (x < z) == decide (0 < y)) = true ↔ (lo ≤ x + y ∧ x + y < lo + P)) ∧
    ((decide (x < z) == decide (0 < y)) = true → z = x + y) := by
  simp only [beq_iff_eq, decide_eq_decide]
  by_cases h1 : x + y < lo
  · have : z = x + y + P :=
      wrap_unique (k - 1) hP hz ⟨by omega, by omega⟩ (by rw [hk]; ring)
    omega
  · by_cases h2 : lo + P ≤ x + y
    · have : z = x + y - P :=
        wrap_unique (k + 1) hP hz ⟨by omega, by omega⟩ (by rw [hk]; ring)
      omega
    · have : z = x + y :=
        wrap_unique k hP hz ⟨by omega, by omega⟩ hk
      omega

/-- `Sub`: `c := a - b; ok := (c < a) == (b > 0)`. -/
theorem sub_core {P lo x y z : Int} (k : Int) (hP : 0 < P) (hlo : lo = 0 ∨ 2 * lo = -P)
    (hx : lo ≤ x ∧ x < lo + P) (hy : lo ≤ y ∧ y < lo + P) (hz : lo ≤ z ∧ z < lo + P)
    (hk : z = x - y + k * P) :
    ((decide (z < x) == decide (0 < y)) = true ↔ (lo ≤ x - y ∧ x - y < lo + P)) ∧
    ((decide (z < x) == decide (0 < y)) = true → z = x - y) := by
  simp only [beq_iff_eq, decide_eq_decide]
  by_cases h1 : x - y < lo
  · have : z = x - y + P :=
      wrap_unique (k - 1) hP hz ⟨by omega, by omega⟩ (by rw [hk]; ring)
    omega
  · by_cases h2 : lo + P ≤ x - y
    · have : z = x - y - P :=
        wrap_unique (k + 1) hP hz ⟨by omega, by omega⟩ (by rw [hk]; ring)
      omega
    · have : z = x - y :=
        wrap_unique k hP hz ⟨by omega, by omega⟩ hk
      omega

/-- The only truncated quotient of a member of `[-H, H)` that reaches `H` is `-H / -1`. -/
theorem tdiv_eq_top {H z y : Int} (hH : 0 < H) (hz : -H ≤ z ∧ z < H) (ht : Int.tdiv z y = H) :
    z = -H ∧ y = -1 := by
  have hn : (Int.tdiv z y).natAbs = z.natAbs / y.natAbs := Int.natAbs_tdiv z y
  rw [ht] at hn
  have hzH : z.natAbs ≤ H.natAbs := by omega
  have hy1 : y.natAbs = 1 := by
    rcases Nat.lt_or_ge 1 y.natAbs with h | h
    · have hzpos : 0 < z.natAbs := by
        rcases Nat.eq_zero_or_pos z.natAbs with h0 | h0
        · rw [h0, Nat.zero_div] at hn; omega
        · exact h0
      have := Nat.div_lt_self hzpos h
      omega
    · rcases Nat.eq_zero_or_pos y.natAbs with h0 | h0
      · rw [h0, Nat.div_zero] at hn; omega
      · omega
  rw [hy1, Nat.div_one] at hn
  have hzv : z = -H := by omega
  refine ⟨hzv, ?_⟩
  rcases Int.natAbs_eq y with hy | hy
  · have : y = 1 := by omega
    subst this; rw [Int.tdiv_one] at ht; omega
  · omega

/-- sign of a product of non-zero integers -/
theorem mul_neg_iff_of_ne {x y : Int} (hx : x ≠ 0) (hy : y ≠ 0) :
    x * y < 0 ↔ ¬((x < 0) ↔ (y < 0)) := by
  rcases Int.lt_or_gt_of_ne hx with hx | hx <;> rcases Int.lt_or_gt_of_ne hy with hy | hy
  · have := Int.mul_pos_of_neg_of_neg hx hy; omega
  · have := Int.mul_neg_of_neg_of_pos hx hy; omega
  · have := Int.mul_neg_of_pos_of_neg hx hy; omega
  · have := Int.mul_pos hx hy; omega

/-- the sign test as a proposition -/
theorem sign_test_iff (p a b : Prop) [Decidable p] [Decidable a] [Decidable b] :
    (decide p == (decide a != decide b)) = true ↔ (p ↔ ¬(a ↔ b)) := by
  by_cases hp : p <;> by_cases ha : a <;> by_cases hb : b <;> simp [hp, ha, hb]

/-- `Mul` on non-zero operands:
`c := a * b; ok := (c < 0) == ((a < 0) != (b < 0)) && c / b == a`. -/
theorem mul_core {P lo x y z q : Int} (k j : Int) (hP : 0 < P) (hlo : lo = 0 ∨ 2 * lo = -P)
    (hx : lo ≤ x ∧ x < lo + P) (hy : lo ≤ y ∧ y < lo + P) (hz : lo ≤ z ∧ z < lo + P)
    (hq : lo ≤ q ∧ q < lo + P) (hx0 : x ≠ 0) (hy0 : y ≠ 0)
    (hk : z = x * y + k * P) (hj : q = Int.tdiv z y + j * P) :
    (((decide (z < 0) == (decide (x < 0) != decide (y < 0))) && decide (q = x)) = true
        ↔ (lo ≤ x * y ∧ x * y < lo + P)) ∧
    (((decide (z < 0) == (decide (x < 0) != decide (y < 0))) && decide (q = x)) = true
        → z = x * y) := by
  have hsign := mul_neg_iff_of_ne hx0 hy0
  have key : ((decide (z < 0) == (decide (x < 0) != decide (y < 0))) && decide (q = x)) = true
      → z = x * y := by
    rw [Bool.and_eq_true, sign_test_iff, decide_eq_true_eq]
    rintro ⟨htest, hqx⟩
    subst hqx
    -- first: the quotient did not wrap
    have hnat := Int.natAbs_tdiv_le_natAbs z y
    have ht : Int.tdiv z y = q := by
      rcases hlo with hlo | hlo
      · subst hlo
        have h0 : 0 ≤ Int.tdiv z y := Int.tdiv_nonneg (by omega) (by omega)
        exact (wrap_unique (-j) hP ⟨by omega, by omega⟩ hq (by rw [hj]; ring))
      · by_cases htop : Int.tdiv z y = -lo
        · exfalso
          obtain ⟨hz', hy'⟩ := tdiv_eq_top (H := -lo) (by omega) ⟨by omega, by omega⟩ htop
          have hq' : q = lo :=
            wrap_unique (j + 1) hP hq ⟨by omega, by omega⟩
              (by rw [hj, htop]; have : P = -(2 * lo) := by omega
                  rw [this]; ring)
          omega
        · exact (wrap_unique (-j) hP ⟨by omega, by omega⟩ hq (by rw [hj]; ring))
    -- second: remainder is a small multiple of P, hence zero
    have hdm := Int.mul_tdiv_add_tmod z y
    have hr : Int.tmod z y = k * P := by
      rw [ht] at hdm
      have : y * q = q * y := Int.mul_comm _ _
      omega
    have hrn : (Int.tmod z y).natAbs < y.natAbs := by
      rw [Int.natAbs_tmod]; exact Nat.mod_lt _ (by omega)
    have hr0 : Int.tmod z y = 0 :=
      Int.eq_zero_of_dvd_of_natAbs_lt_natAbs (d := P) ⟨k, by rw [hr]; ring⟩ (by omega)
    rw [hr0] at hr
    omega
  refine ⟨⟨fun h => ?_, fun h => ?_⟩, key⟩
  · have := key h; omega
  · have hzv : z = x * y := wrap_unique k hP hz h hk
    have ht : Int.tdiv z y = x := by rw [hzv]; exact Int.mul_tdiv_cancel x hy0
    have hqv : q = x := wrap_unique j hP hq hx (by rw [hj, ht])
    rw [Bool.and_eq_true, sign_test_iff, decide_eq_true_eq]
    exact ⟨by rw [hzv]; exact hsign, hqv⟩

/-- `Div` on a non-zero divisor: `c := a / b; ok := c != a || b == 1 || a == 0`. -/
theorem div_core {P lo x y q : Int} (j : Int) (hP : 0 < P) (hlo : lo = 0 ∨ 2 * lo = -P)
    (hx : lo ≤ x ∧ x < lo + P) (hy : lo ≤ y ∧ y < lo + P)
    (hq : lo ≤ q ∧ q < lo + P) (hy0 : y ≠ 0)
    (hj : q = Int.tdiv x y + j * P) :
    (((!decide (q = x)) || decide (y = 1) || decide (x = 0)) = true
        ↔ (lo ≤ Int.tdiv x y ∧ Int.tdiv x y < lo + P)) ∧
    (((!decide (q = x)) || decide (y = 1) || decide (x = 0)) = true → q = Int.tdiv x y) := by
  simp only [Bool.or_eq_true, Bool.not_eq_true', decide_eq_false_iff_not, decide_eq_true_eq]
  have hnat := Int.natAbs_tdiv_le_natAbs x y
  by_cases hin : lo ≤ Int.tdiv x y ∧ Int.tdiv x y < lo + P
  · have hqv : q = Int.tdiv x y := wrap_unique j hP hq hin hj
    refine ⟨⟨fun _ => hin, fun _ => ?_⟩, fun _ => hqv⟩
    by_cases hqx : q = x
    · -- x / y = x forces x = 0 or y = ±1
      have hn : (Int.tdiv x y).natAbs = x.natAbs / y.natAbs := Int.natAbs_tdiv x y
      rw [← hqv, hqx] at hn
      rcases Nat.div_eq_self.1 hn.symm with h0 | h1
      · right; omega
      · rcases Int.natAbs_eq y with hy1 | hy1
        · left; right; omega
        · have : y = -1 := by omega
          subst this
          rw [show (-1 : Int) = -(1 : Int) from rfl, Int.tdiv_neg, Int.tdiv_one] at hqv
          right; omega
    · left; left; exact hqx
  · have htop : 2 * lo = -P ∧ Int.tdiv x y = -lo := by
      rcases hlo with hlo | hlo
      · subst hlo
        have h0 : 0 ≤ Int.tdiv x y := Int.tdiv_nonneg (by omega) (by omega)
        omega
      · omega
    obtain ⟨hlo2, htop⟩ := htop
    obtain ⟨hx', hy'⟩ := tdiv_eq_top (H := -lo) (by omega) ⟨by omega, by omega⟩ htop
    have hq' : q = lo :=
      wrap_unique (j + 1) hP hq ⟨by omega, by omega⟩
        (by rw [hj, htop]; have : P = -(2 * lo) := by omega
            rw [this]; ring)
    refine ⟨⟨fun h => ?_, fun h => absurd h hin⟩, fun h => ?_⟩ <;> omega

end GnoVerif.C19.Core
