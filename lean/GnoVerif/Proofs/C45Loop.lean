import GnoVerif.Proofs.C45Bits
/-!
C45 helper lemmas, part 9: the literal transcription of btcutil's `ConvertBits`
loop (`convertBitsGo`) computes the bit-regrouping model (`convertBits`) on
byte inputs, for every `fromBits`, `toBits` and `pad`.
-/
namespace GnoVerif.C45

/-! ### more on bit lists -/

theorem ofBits_append (a b : List Bool) : ofBits (a ++ b) = ofBits a * 2 ^ b.length + ofBits b := by
  unfold ofBits
  rw [List.foldl_append, foldl_bits]

theorem bitsOf_zero (w : Nat) : bitsOf w 0 = List.replicate w false := by
  induction w with
  | zero => rfl
  | succ w ih => simp [bitsOf, ih, List.replicate_succ]

/-- the top `a` bits and the low `k` bits. -/
theorem bitsOf_add (a k x : Nat) : bitsOf (a + k) x = bitsOf a (x / 2 ^ k) ++ bitsOf k x := by
  induction a with
  | zero => simp [bitsOf]
  | succ a ih =>
    rw [show a + 1 + k = (a + k) + 1 by omega]
    simp only [bitsOf, List.cons_append]
    rw [ih, Nat.testBit_div_two_pow]

theorem bitsOf_mul_pow (k x : Nat) : bitsOf k (x * 2 ^ k) = List.replicate k false := by
  rw [← bitsOf_mod k k _ (Nat.le_refl k), Nat.mul_mod_left, bitsOf_zero]

/-- shifting an `(a+k)`-bit value left by `k` inside `a+k` bits drops the top `k` bits and appends zeros. -/
theorem bitsOf_shift (a k x : Nat) :
    bitsOf (k + a) (x * 2 ^ k % 2 ^ (k + a)) = (bitsOf (k + a) x).drop k ++ List.replicate k false := by
  rw [bitsOf_mod _ _ _ (Nat.le_refl _)]
  rw [show k + a = a + k by omega, bitsOf_add a k (x * 2 ^ k), Nat.mul_div_cancel _ (Nat.two_pow_pos k), bitsOf_mul_pow]
  rw [show a + k = k + a by omega, bitsOf_add k a x]
  rw [List.drop_left' (length_bitsOf k _)]

theorem take_bitsOf (a k x : Nat) : (bitsOf (a + k) x).take a = bitsOf a (x / 2 ^ k) := by
  rw [bitsOf_add, List.take_left' (length_bitsOf a _)]

theorem ofBits_take_bitsOf (a k x : Nat) (hx : x < 2 ^ (a + k)) : ofBits ((bitsOf (a + k) x).take a) = x / 2 ^ k := by
  rw [take_bitsOf, ofBits_bitsOf]
  apply Nat.mod_eq_of_lt
  rw [Nat.div_lt_iff_lt_mul (Nat.two_pow_pos k), ← Nat.pow_add]
  exact hx

/-! ### pushing bits one at a time -/

def pushBit (t : Nat) (st : CvState) (b : Bool) : CvState :=
  if st.filledBits + 1 = t then
    { nextByte := 0, filledBits := 0, out := st.out ++ [2 * st.nextByte + b.toNat] }
  else
    { nextByte := 2 * st.nextByte + b.toNat, filledBits := st.filledBits + 1, out := st.out }

def pushBits (t : Nat) (st : CvState) (bs : List Bool) : CvState := bs.foldl (pushBit t) st

theorem pushBits_nil (t : Nat) (st : CvState) : pushBits t st [] = st := rfl
theorem pushBits_cons (t : Nat) (st : CvState) (b : Bool) (bs : List Bool) :
    pushBits t st (b :: bs) = pushBits t (pushBit t st b) bs := rfl
theorem pushBits_append (t : Nat) (st : CvState) (a b : List Bool) :
    pushBits t st (a ++ b) = pushBits t (pushBits t st a) b := by
  simp [pushBits, List.foldl_append]

/-- fewer bits than needed to complete the group: they are accumulated. -/
theorem pushBits_lt (t : Nat) (st : CvState) (bs : List Bool) (h : st.filledBits + bs.length < t) :
    pushBits t st bs =
      { nextByte := st.nextByte * 2 ^ bs.length + ofBits bs, filledBits := st.filledBits + bs.length, out := st.out } := by
  induction bs generalizing st with
  | nil => simp [pushBits_nil, ofBits_nil]
  | cons b bs ih =>
    simp only [List.length_cons] at h
    rw [pushBits_cons]
    have hne : ¬ (st.filledBits + 1 = t) := by omega
    simp only [pushBit, if_neg hne]
    rw [ih _ (by simp only; omega)]
    simp only [List.length_cons, ofBits_cons, Nat.pow_succ]
    congr 1
    · rw [Nat.add_mul]
      have : 2 * st.nextByte * 2 ^ bs.length = st.nextByte * (2 ^ bs.length * 2) := by ac_rfl
      rw [this]
      omega
    · omega

/-- exactly the bits needed: the group is emitted. -/
theorem pushBits_eq (t : Nat) (st : CvState) (bs : List Bool) (hne : bs ≠ []) (h : st.filledBits + bs.length = t) :
    pushBits t st bs =
      { nextByte := 0, filledBits := 0, out := st.out ++ [st.nextByte * 2 ^ bs.length + ofBits bs] } := by
  induction bs generalizing st with
  | nil => exact absurd rfl hne
  | cons b bs ih =>
    simp only [List.length_cons] at h
    rw [pushBits_cons]
    cases bs with
    | nil =>
      simp only [List.length_nil] at h
      simp only [pushBit, if_pos h, pushBits_nil, List.length_cons, List.length_nil, ofBits_cons, ofBits_nil]
      congr 3
      omega
    | cons b' bs' =>
      have hne' : ¬ (st.filledBits + 1 = t) := by simp only [List.length_cons] at h; omega
      simp only [pushBit, if_neg hne']
      rw [ih _ (by simp) (by simp only [List.length_cons] at h ⊢; omega)]
      simp only [List.length_cons, ofBits_cons, Nat.pow_succ]
      congr 3
      rw [Nat.add_mul]
      have : 2 * st.nextByte * (2 ^ bs'.length * 2) = st.nextByte * (2 ^ bs'.length * 2 * 2) := by ac_rfl
      rw [this]
      omega

/-! ### pushing bits = chunking -/

def stateOf (out0 : List Nat) (c : List (List Bool) × List Bool) : CvState :=
  { nextByte := ofBits c.2, filledBits := c.2.length, out := out0 ++ c.1.map ofBits }

theorem pushBits_chunks (t : Nat) (ht : 0 < t) (pre : List Bool) (out0 : List Nat) (bs : List Bool)
    (hpre : pre.length < t) :
    pushBits t { nextByte := ofBits pre, filledBits := pre.length, out := out0 } bs =
      stateOf out0 (chunks t (pre ++ bs)) := by
  induction hn : bs.length using Nat.strongRecOn generalizing pre out0 bs with
  | _ n ih =>
    by_cases hsmall : pre.length + bs.length < t
    · rw [chunks_small t (pre ++ bs) (Or.inr (by simp only [List.length_append]; exact hsmall))]
      rw [pushBits_lt t _ bs hsmall]
      simp only [stateOf, List.map_nil, List.append_nil, ofBits_append, List.length_append]
    · have hk : 1 ≤ t - pre.length := by omega
      have hkb : t - pre.length ≤ bs.length := by omega
      have hsplit : bs = bs.take (t - pre.length) ++ bs.drop (t - pre.length) := (List.take_append_drop _ _).symm
      have htake : (pre ++ bs).take t = pre ++ bs.take (t - pre.length) := by
        rw [List.take_append, List.take_of_length_le (by omega)]
      have hdrop : (pre ++ bs).drop t = bs.drop (t - pre.length) := by
        rw [List.drop_append, List.drop_of_length_le (by omega), List.nil_append]
      rw [chunks_step t (pre ++ bs) (by simp only [List.length_append]; omega), htake, hdrop]
      conv => lhs; rw [hsplit]
      rw [pushBits_append]
      have hlen : (bs.take (t - pre.length)).length = t - pre.length := by
        rw [List.length_take]; omega
      rw [pushBits_eq t _ (bs.take (t - pre.length))
        (by intro h0; rw [h0] at hlen; simp at hlen; omega) (by simp only; rw [hlen]; omega)]
      have hrec := ih (bs.drop (t - pre.length)).length (by rw [List.length_drop]; omega) []
        (out0 ++ [ofBits pre * 2 ^ (bs.take (t - pre.length)).length + ofBits (bs.take (t - pre.length))])
        (bs.drop (t - pre.length)) (by simpa using ht) rfl
      simp only [ofBits_nil, List.length_nil, List.nil_append] at hrec
      rw [hrec]
      simp only [stateOf, List.map_cons, ofBits_append, List.append_assoc, List.cons_append, List.nil_append]

theorem chunks_blocks_append (n : Nat) (hn : 0 < n) (blocks : List (List Bool)) (rest : List Bool)
    (hb : ∀ b ∈ blocks, b.length = n) :
    chunks n (blocks.flatten ++ rest) = (blocks ++ (chunks n rest).1, (chunks n rest).2) := by
  induction blocks with
  | nil => simp
  | cons b bl ih =>
    have hbl : b.length = n := hb b (by simp)
    have ih' := ih (fun x hx => hb x (by simp [hx]))
    rw [chunks_step]
    · simp only [List.flatten_cons, List.append_assoc]
      rw [List.take_left' hbl, List.drop_left' hbl, ih']
      simp
    · simp only [List.flatten_cons, List.length_append]
      omega

/-- chunking a concatenation: chunk the first part, then continue from its incomplete rest. -/
theorem chunks_append (n : Nat) (hn : 0 < n) (a b : List Bool) :
    chunks n (a ++ b) = ((chunks n a).1 ++ (chunks n ((chunks n a).2 ++ b)).1, (chunks n ((chunks n a).2 ++ b)).2) := by
  obtain ⟨h1, h2, _⟩ := chunks_spec n hn a
  conv => lhs; rw [← h1, List.append_assoc]
  exact chunks_blocks_append n hn _ _ h2

theorem pushBits_stateOf (t : Nat) (ht : 0 < t) (a bs : List Bool) :
    pushBits t (stateOf [] (chunks t a)) bs = stateOf [] (chunks t (a ++ bs)) := by
  obtain ⟨_, _, h3⟩ := chunks_spec t ht a
  have := pushBits_chunks t ht (chunks t a).2 ([] ++ (chunks t a).1.map ofBits) bs h3
  unfold stateOf at this ⊢
  rw [this, chunks_append t ht a bs]
  simp

/-! ### the inner loop of the Go code pushes the top `rem` bits of `b` -/

structure Inv (t : Nat) (st : CvState) : Prop where
  filled_lt : st.filledBits < t
  next_lt : st.nextByte < 2 ^ st.filledBits

theorem pushBit_inv (t : Nat) (st : CvState) (b : Bool) (h : Inv t st) : Inv t (pushBit t st b) := by
  unfold pushBit
  split
  · exact ⟨by have := h.filled_lt; simp only; omega, by simp⟩
  · rename_i hne
    refine ⟨by have := h.filled_lt; simp only; omega, ?_⟩
    simp only [Nat.pow_succ]
    have := h.next_lt
    have : b.toNat ≤ 1 := by cases b <;> simp
    omega

theorem pushBits_inv (t : Nat) (st : CvState) (bs : List Bool) (h : Inv t st) : Inv t (pushBits t st bs) := by
  induction bs generalizing st with
  | nil => exact h
  | cons b bs ih => rw [pushBits_cons]; exact ih _ (pushBit_inv t st b h)

theorem cvInner_rem_zero (t fuel b : Nat) (st : CvState) : cvInner t fuel b 0 st = st := by
  cases fuel <;> simp [cvInner]

theorem cvInner_succ (t fuel b rem : Nat) (st : CvState) (hrem : rem ≠ 0) :
    cvInner t (fuel + 1) b rem st =
      if st.filledBits + (if t - st.filledBits < rem then t - st.filledBits else rem) = t then
        cvInner t fuel ((b <<< (if t - st.filledBits < rem then t - st.filledBits else rem)) % 256)
          (rem - (if t - st.filledBits < rem then t - st.filledBits else rem))
          { nextByte := 0, filledBits := 0,
            out := st.out ++ [((st.nextByte <<< (if t - st.filledBits < rem then t - st.filledBits else rem)) % 256) |||
              (b >>> (8 - (if t - st.filledBits < rem then t - st.filledBits else rem)))] }
      else
        cvInner t fuel ((b <<< (if t - st.filledBits < rem then t - st.filledBits else rem)) % 256)
          (rem - (if t - st.filledBits < rem then t - st.filledBits else rem))
          { nextByte := ((st.nextByte <<< (if t - st.filledBits < rem then t - st.filledBits else rem)) % 256) |||
              (b >>> (8 - (if t - st.filledBits < rem then t - st.filledBits else rem))),
            filledBits := st.filledBits + (if t - st.filledBits < rem then t - st.filledBits else rem),
            out := st.out } := by
  simp only [cvInner, if_neg hrem]

/-- `nextByte = (nextByte << toExtract) | (b >> (8 - toExtract))` without overflow. -/
theorem next_arith (next b ex filled t : Nat) (hn : next < 2 ^ filled) (hb : b < 256) (hex : ex ≤ 8)
    (hfe : filled + ex ≤ t) (ht : t ≤ 8) :
    ((next <<< ex) % 256) ||| (b >>> (8 - ex)) = next * 2 ^ ex + b / 2 ^ (8 - ex) := by
  have h1 : next * 2 ^ ex < 256 := by
    calc next * 2 ^ ex < 2 ^ filled * 2 ^ ex := Nat.mul_lt_mul_of_pos_right hn (Nat.two_pow_pos ex)
      _ = 2 ^ (filled + ex) := (Nat.pow_add 2 filled ex).symm
      _ ≤ 2 ^ 8 := Nat.pow_le_pow_right (by decide) (by omega)
  have h2 : b / 2 ^ (8 - ex) < 2 ^ ex := by
    rw [Nat.div_lt_iff_lt_mul (Nat.two_pow_pos _), ← Nat.pow_add]
    have : ex + (8 - ex) = 8 := by omega
    rw [this]; exact hb
  rw [Nat.shiftLeft_eq, Nat.mod_eq_of_lt h1, Nat.shiftRight_eq_div_pow]
  rw [← Nat.shiftLeft_eq, ← Nat.shiftLeft_add_eq_or_of_lt h2]

theorem cvInner_eq (t : Nat) (ht : 0 < t) (ht8 : t ≤ 8) (fuel b rem : Nat) (st : CvState)
    (hfuel : rem ≤ fuel) (hrem : rem ≤ 8) (hb : b < 256) (hinv : Inv t st) :
    cvInner t fuel b rem st = pushBits t st ((bitsOf 8 b).take rem) := by
  induction fuel generalizing b rem st with
  | zero =>
    have : rem = 0 := by omega
    subst this
    simp [cvInner, pushBits_nil]
  | succ fuel ih =>
    by_cases hr0 : rem = 0
    · subst hr0; rw [cvInner_rem_zero]; simp [pushBits_nil]
    · rw [cvInner_succ t fuel b rem st hr0]
      have hfl := hinv.filled_lt
      generalize hex : (if t - st.filledBits < rem then t - st.filledBits else rem) = ex
      have hex1 : 1 ≤ ex := by rw [← hex]; split <;> omega
      have hexr : ex ≤ rem := by rw [← hex]; split <;> omega
      have hext : st.filledBits + ex ≤ t := by rw [← hex]; split <;> omega
      have h8 : ex + (8 - ex) = 8 := by omega
      -- the bits
      have hsplit : (bitsOf 8 b).take rem = (bitsOf 8 b).take ex ++ ((bitsOf 8 b).drop ex).take (rem - ex) := by
        rw [← List.take_add]; congr 1; omega
      have hof : ofBits ((bitsOf 8 b).take ex) = b / 2 ^ (8 - ex) := by
        have := ofBits_take_bitsOf ex (8 - ex) b (by rw [h8]; exact hb)
        rw [h8] at this; exact this
      have hlen : ((bitsOf 8 b).take ex).length = ex := by
        rw [List.length_take, length_bitsOf]; omega
      have hshift : (bitsOf 8 ((b <<< ex) % 256)).take (rem - ex) = ((bitsOf 8 b).drop ex).take (rem - ex) := by
        have := bitsOf_shift (8 - ex) ex b
        rw [h8] at this
        rw [Nat.shiftLeft_eq, show (256 : Nat) = 2 ^ 8 from rfl, this]
        apply List.take_append_of_le_length
        rw [List.length_drop, length_bitsOf]; omega
      have hnext := next_arith st.nextByte b ex st.filledBits t hinv.next_lt hb (by omega) hext ht8
      rw [hnext, hsplit, pushBits_append]
      by_cases hfull : st.filledBits + ex = t
      · rw [if_pos hfull]
        rw [pushBits_eq t st _ (by intro h0; rw [h0] at hlen; simp at hlen; omega) (by rw [hlen]; exact hfull)]
        rw [hlen, hof, ← hshift]
        exact ih _ _ _ (by omega) (by omega) (Nat.mod_lt _ (by decide)) ⟨by simpa using ht, by simp⟩
      · rw [if_neg hfull]
        have hexeq : ex = rem := by
          rw [← hex] at hfull ⊢
          split
          · rename_i hlt; rw [if_pos hlt] at hfull; omega
          · rfl
        rw [pushBits_lt t st _ (by rw [hlen]; omega)]
        rw [hlen, hof, hexeq, Nat.sub_self, cvInner_rem_zero]
        simp [pushBits_nil]

/-! ### the whole function -/

theorem stateOf_inv (t : Nat) (ht : 0 < t) (a : List Bool) : Inv t (stateOf [] (chunks t a)) := by
  obtain ⟨_, _, h3⟩ := chunks_spec t ht a
  exact ⟨h3, ofBits_lt _⟩

/-- `b <<= 8 - fromBits` then the top `fromBits` bits = the low `fromBits` bits of the input byte. -/
theorem top_bits (f x : Nat) (hf : f ≤ 8) :
    (bitsOf 8 ((x <<< (8 - f)) % 256)).take f = bitsOf f x := by
  have h8 : (8 - f) + f = 8 := by omega
  have h1 := bitsOf_shift f (8 - f) x
  have h2 := bitsOf_add (8 - f) f x
  rw [h8] at h1 h2
  rw [Nat.shiftLeft_eq, show (256 : Nat) = 2 ^ 8 from rfl, h1, h2, List.drop_left' (length_bitsOf _ _)]
  rw [List.take_left' (length_bitsOf f x)]

theorem fold_eq (f t : Nat) (hf : f ≤ 8) (ht : 0 < t) (ht8 : t ≤ 8) (data : List Nat) (hd : ∀ x ∈ data, x < 256)
    (pre : List Bool) :
    data.foldl (fun st b => cvInner t 8 ((b <<< (8 - f)) % 256) f st) (stateOf [] (chunks t pre)) =
      stateOf [] (chunks t (pre ++ data.flatMap (bitsOf f))) := by
  induction data generalizing pre with
  | nil => simp
  | cons x xs ih =>
    simp only [List.foldl_cons, List.flatMap_cons]
    rw [cvInner_eq t ht ht8 8 _ f _ hf hf (Nat.mod_lt _ (by decide)) (stateOf_inv t ht pre)]
    rw [top_bits f x hf, pushBits_stateOf t ht]
    rw [ih (fun y hy => hd y (by simp [hy])), List.append_assoc]

theorem chunks_nil (t : Nat) : chunks t [] = ([], []) := chunks_small t [] (by
  by_cases h : t = 0
  · exact Or.inl h
  · right; simp; omega)

/-- the literal transcription of the Go loop computes the bit-regrouping model. -/
theorem convertBitsGo_eq (f t : Nat) (pad : Bool) (data : List Nat) (hd : ∀ x ∈ data, x < 256) :
    convertBitsGo f t pad data = convertBits f t pad data := by
  unfold convertBitsGo convertBits
  by_cases hbad : f < 1 ∨ f > 8 ∨ t < 1 ∨ t > 8
  · rw [if_pos hbad, if_pos hbad]
  · rw [if_neg hbad, if_neg hbad]
    have hf : f ≤ 8 := by omega
    have ht : 0 < t := by omega
    have ht8 : t ≤ 8 := by omega
    have h0 : ({ nextByte := 0, filledBits := 0, out := [] } : CvState) = stateOf [] (chunks t []) := by
      rw [chunks_nil]; rfl
    have hfold := fold_eq f t hf ht ht8 data hd []
    rw [List.nil_append] at hfold
    simp only
    rw [h0, hfold]
    obtain ⟨_, _, h3⟩ := chunks_spec t ht (data.flatMap (bitsOf f))
    generalize chunks t (data.flatMap (bitsOf f)) = c at h3
    obtain ⟨full, rest⟩ := c
    simp only at h3
    simp only [stateOf, List.nil_append]
    cases rest with
    | nil => simp [ofBits_nil]
    | cons r rs =>
      have hlt := ofBits_lt (r :: rs)
      cases pad with
      | true =>
        simp only [List.length_cons, Nat.zero_lt_succ, and_self, if_true, List.isEmpty_cons, Bool.false_eq_true,
          if_false, gt_iff_lt, Nat.lt_irrefl, false_and]
        congr 3
        rw [ofBits_append, ofBits_replicate_false, List.length_replicate, Nat.add_zero, Nat.shiftLeft_eq]
        apply Nat.mod_eq_of_lt
        simp only [List.length_cons] at hlt h3
        calc ofBits (r :: rs) * 2 ^ (t - (rs.length + 1))
            < 2 ^ (rs.length + 1) * 2 ^ (t - (rs.length + 1)) := Nat.mul_lt_mul_of_pos_right hlt (Nat.two_pow_pos _)
          _ = 2 ^ t := by rw [← Nat.pow_add]; congr 1; omega
          _ ≤ 2 ^ 8 := Nat.pow_le_pow_right (by decide) ht8
      | false =>
        simp only [Bool.false_eq_true, false_and, if_false, List.length_cons, gt_iff_lt, Nat.zero_lt_succ, true_and,
          List.isEmpty_cons, ne_eq]

end GnoVerif.C45
