import GnoVerif.Proofs.C04Div
/-!
Helper lemmas for C04: shifts of the integer layer against the mathematical
integers.  `x << n = x · 2^n` reduced into the type (hence 0 once `n ≥ width`),
`x >> n = ⌊x / 2^n⌋` (hence 0 / −1 once `n ≥ width`); a negative count panics.
-/
namespace GnoVerif.C04
open GnoVerif GnoVerif.GoInt

theorem shift_negative {t tn : ITy} (left : Bool) (x n : Int) (hs : tn.signed = true) (hn : n < 0) :
    shift t left x tn n = .error .negshift := by
  simp [shift, hs, hn]

/-- the count as the model sees it: a non-negative value of a ≤ 64-bit type -/
theorem count_toNat {tn : ITy} {n : Int} (h0 : 0 ≤ n) (hr : tn.inRange n = true) :
    (BitVec.ofInt 64 n).toNat = n.toNat := by
  have hlt : n < 2 ^ 64 := by
    rw [inRange_iff] at hr
    have hw : tn.width ≤ 64 := by cases tn <;> decide
    have hmono : (2 : Int) ^ tn.width ≤ 2 ^ 64 := by
      have := Nat.pow_le_pow_right (by decide : 1 ≤ 2) hw
      exact_mod_cast this
    have hmin : tn.min ≤ 0 := by
      simp only [ITy.min, minVal]; split
      · have := two_pow_pos' (tn.width - 1); omega
      · omega
    omega
  rw [BitVec.toNat_ofInt]
  have : n % ((2 ^ 64 : Nat) : Int) = n := Int.emod_eq_of_lt h0 (by simpa using hlt)
  rw [this]

theorem clamp_toNat (t : ITy) (k : Nat) : (BitVec.ofNat 64 (min k t.width)).toNat = min k t.width := by
  rw [BitVec.toNat_ofNat]
  apply Nat.mod_eq_of_lt
  have hw : t.width ≤ 64 := by cases t <;> decide
  have : min k t.width ≤ 64 := Nat.le_trans (Nat.min_le_right _ _) hw
  omega

theorem twoPow_eq_ofInt (w m : Nat) : BitVec.twoPow w m = BitVec.ofInt w ((2 : Int) ^ m) := by
  apply BitVec.eq_of_toNat_eq
  rw [BitVec.toNat_twoPow, BitVec.toNat_ofInt]
  have : ((2 : Int) ^ m) % ((2 ^ w : Nat) : Int) = (((2 ^ m) % (2 ^ w) : Nat) : Int) := by
    rw [Int.natCast_emod]; simp
  rw [this, Int.toNat_natCast]

theorem shl_bits (t : ITy) (x : Int) (m : Nat) : bits t x <<< m = bits t (x * 2 ^ m) := by
  rw [BitVec.shiftLeft_eq_mul_twoPow, twoPow_eq_ofInt]
  simp only [bits, BitVec.ofInt_mul]

/-- multiples of `2^width` vanish -/
theorem wrap_mul_pow_ge (t : ITy) (x : Int) {n : Nat} (h : t.width ≤ n) : wrap t (x * 2 ^ n) = 0 := by
  have hz : t.inRange 0 = true := by
    rw [inRange_iff]
    have := two_pow_pos' t.width
    simp only [ITy.min, minVal]; split
    · have := two_pow_pos' (t.width - 1); have e := two_pow_half t.width_pos; omega
    · omega
  symm
  apply wrap_eq_of_cong hz (-(x * 2 ^ (n - t.width)))
  have : (2 : Int) ^ n = 2 ^ (n - t.width) * 2 ^ t.width := by
    rw [← Int.pow_add]; congr 1; omega
  rw [this]; ring

/-- `x << n` is `x · 2^n` reduced into the type -/
theorem shift_left {t tn : ITy} (x : Int) {n : Int} (h0 : 0 ≤ n) (hr : tn.inRange n = true) :
    shift t true x tn n = .ok (wrap t (x * 2 ^ n.toNat)) := by
  have hneg : (tn.signed && decide (n < 0)) = false := by
    simp only [Bool.and_eq_false_imp, decide_eq_false_iff_not]; intro _; omega
  simp only [shift, hneg, Bool.false_eq_true, if_false, if_true, GoInt.shl]
  rw [clamp_toNat, count_toNat h0 hr, shl_bits]
  congr 1
  show wrap t (x * 2 ^ min n.toNat t.width) = wrap t (x * 2 ^ n.toNat)
  by_cases hle : n.toNat ≤ t.width
  · rw [Nat.min_eq_left hle]
  · have hge : t.width ≤ n.toNat := by omega
    rw [Nat.min_eq_right hge, wrap_mul_pow_ge t x (Nat.le_refl _), wrap_mul_pow_ge t x hge]

theorem shift_left_ge_width {t tn : ITy} (x : Int) {n : Int} (h0 : 0 ≤ n) (hr : tn.inRange n = true)
    (hge : (t.width : Int) ≤ n) : shift t true x tn n = .ok 0 := by
  rw [shift_left x h0 hr, wrap_mul_pow_ge t x (by omega)]

/-- floor division by a power of two that exceeds the magnitude -/
theorem ediv_pow_of_small {x P Q : Int} (hP : 0 < P) (hPQ : P ≤ Q) (hx : -P ≤ x ∧ x < P) :
    x / Q = x / P := by
  by_cases hx0 : 0 ≤ x
  · rw [Int.ediv_eq_zero_of_lt hx0 (by omega), Int.ediv_eq_zero_of_lt hx0 hx.2]
  · have h1 : x / Q = -1 ∧ x % Q = x + Q :=
      (Int.ediv_emod_unique (by omega)).2 ⟨by ring, by omega, by omega⟩
    have h2 : x / P = -1 ∧ x % P = x + P :=
      (Int.ediv_emod_unique hP).2 ⟨by ring, by omega, by omega⟩
    rw [h1.1, h2.1]

/-- `x >> n` is `⌊x / 2^n⌋` (arithmetic shift for signed types) -/
theorem shift_right {t tn : ITy} {x : Int} (hx : t.inRange x = true) {n : Int} (h0 : 0 ≤ n)
    (hr : tn.inRange n = true) : shift t false x tn n = .ok (x / 2 ^ n.toNat) := by
  have hneg : (tn.signed && decide (n < 0)) = false := by
    simp only [Bool.and_eq_false_imp, decide_eq_false_iff_not]; intro _; omega
  simp only [shift, hneg, Bool.false_eq_true, if_false, GoInt.shr]
  rw [clamp_toNat, count_toNat h0 hr]
  congr 1
  -- the magnitude of x is below 2^width
  have hxr := (inRange_iff t x).1 hx
  have hp := two_pow_pos' t.width
  have hmag : -(2 : Int) ^ t.width ≤ x ∧ x < 2 ^ t.width := by
    simp only [ITy.min, minVal] at hxr
    split at hxr
    · have e := two_pow_half t.width_pos; omega
    · omega
  -- clamping the count does not change the quotient
  have hclamp : x / 2 ^ min n.toNat t.width = x / 2 ^ n.toNat := by
    by_cases hle : n.toNat ≤ t.width
    · rw [Nat.min_eq_left hle]
    · have hge : t.width ≤ n.toNat := by omega
      rw [Nat.min_eq_right hge]
      symm
      apply ediv_pow_of_small hp _ hmag
      have := Nat.pow_le_pow_right (by decide : 1 ≤ 2) hge
      exact_mod_cast this
  rw [← hclamp]
  generalize min n.toNat t.width = m
  cases hs : t.signed
  · simp only [unbits, toInt, hs, Bool.false_eq_true, if_false, BitVec.toNat_ushiftRight,
      Nat.shiftRight_eq_div_pow]
    rw [Int.natCast_ediv, toNat_bits_unsigned hs hx]; simp
  · simp only [unbits, toInt, hs, if_true]
    rw [BitVec.toInt_sshiftRight, toInt_bits_signed hs hx, Int.shiftRight_eq_div_pow]; simp

theorem shift_right_ge_width {t tn : ITy} {x : Int} (hx : t.inRange x = true) {n : Int} (h0 : 0 ≤ n)
    (hr : tn.inRange n = true) (hge : (t.width : Int) ≤ n) :
    shift t false x tn n = .ok (if x < 0 then -1 else 0) := by
  rw [shift_right hx h0 hr]
  congr 1
  have hxr := (inRange_iff t x).1 hx
  have hp := two_pow_pos' t.width
  have hmag : -(2 : Int) ^ t.width ≤ x ∧ x < 2 ^ t.width := by
    simp only [ITy.min, minVal] at hxr
    split at hxr
    · have e := two_pow_half t.width_pos; omega
    · omega
  have hPQ : (2 : Int) ^ t.width ≤ 2 ^ n.toNat := by
    have := Nat.pow_le_pow_right (by decide : 1 ≤ 2) (show t.width ≤ n.toNat by omega)
    exact_mod_cast this
  rw [ediv_pow_of_small hp hPQ hmag]
  split
  · exact ((Int.ediv_emod_unique hp).2 (⟨by ring, by omega, by omega⟩ :
      (x + 2 ^ t.width) + 2 ^ t.width * (-1) = x ∧ 0 ≤ x + 2 ^ t.width ∧ x + 2 ^ t.width < 2 ^ t.width)).1
  · exact Int.ediv_eq_zero_of_lt (by omega) hmag.2

end GnoVerif.C04
