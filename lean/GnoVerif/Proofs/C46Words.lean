import GnoVerif.Gen.C46Words
import GnoVerif.Model.C46Bip39
/-! Proofs.C46Words — facts about the GENERATED word list (tm2/pkg/crypto/bip39/wordlist.go),
established by kernel evaluation (`decide +kernel`: plain kernel reduction, no extra axiom) of
boolean checkers over the list: 2048 entries, strictly increasing in alphabetical order (hence
pairwise distinct), every word 1–8 lower-case ASCII letters (hence free of separators). -/
namespace GnoVerif.C46
open GnoVerif.Gen.C46

/-- a word as a left-aligned base-256 number: for words of ≤ 8 non-zero bytes this orders like
    `bytes.Compare`; only "equal words have equal keys" is used -/
def wkey (w : Bytes) : Nat := (w.foldl (fun a b => a * 256 + b.toNat) 0) * 256 ^ (8 - w.length)

def sortedB : List Nat → Bool
  | [] => true
  | [_] => true
  | a :: b :: r => a < b && sortedB (b :: r)

theorem sortedB_head_lt (a : Nat) (l : List Nat) (h : sortedB (a :: l) = true) : ∀ x ∈ l, a < x := by
  induction l generalizing a with
  | nil => simp
  | cons b r ih =>
    simp only [sortedB, Bool.and_eq_true, decide_eq_true_eq] at h
    intro x hx
    rcases List.mem_cons.mp hx with rfl | hx
    · exact h.1
    · exact Nat.lt_trans h.1 (ih b h.2 x hx)

theorem sortedB_pairwise (l : List Nat) (h : sortedB l = true) : l.Pairwise (· < ·) := by
  induction l with
  | nil => exact List.Pairwise.nil
  | cons a r ih =>
    refine List.Pairwise.cons (sortedB_head_lt a r h) (ih ?_)
    cases r with
    | nil => rfl
    | cons b r' =>
      simp only [sortedB, Bool.and_eq_true] at h
      exact h.2

def lowerWord (w : Bytes) : Bool := !w.isEmpty && w.length ≤ 8 && w.all (fun b => 97 ≤ b.toNat && b.toNat ≤ 122)

theorem wordList_length : wordList.length = 2048 := by decide +kernel

theorem wordList_sorted : sortedB (wordList.map wkey) = true := by decide +kernel

theorem wordList_lower : wordList.all lowerWord = true := by decide +kernel

theorem wordList_nodup : wordList.Nodup := by
  have h := sortedB_pairwise _ wordList_sorted
  rw [List.pairwise_map] at h
  exact h.imp (fun {a b} hab e => by subst e; exact Nat.lt_irrefl _ hab)

theorem wordList_word_ok (w : Bytes) (hw : w ∈ wordList) : w ≠ [] ∧ ∀ b ∈ w, isSpace b = false := by
  have h := List.all_eq_true.mp wordList_lower w hw
  simp only [lowerWord, Bool.and_eq_true, Bool.not_eq_true', List.all_eq_true, decide_eq_true_eq] at h
  refine ⟨?_, ?_⟩
  · intro e; subst e; simp at h
  · intro b hb
    have hb' := h.2 b hb
    have h1 : 97 ≤ b.toNat := by simpa using hb'.1
    simp only [isSpace, Bool.or_eq_false_iff, beq_eq_false_iff_ne, ne_eq]
    refine ⟨⟨⟨⟨⟨?_, ?_⟩, ?_⟩, ?_⟩, ?_⟩, ?_⟩ <;> (intro e; subst e; revert h1; decide)

end GnoVerif.C46
