import GnoVerif.Model.C28
import GnoVerif.Proofs.C28NonInt
/-!
C28 helper lemmas: the invariant behind query isolation.

`Inv s`:
* every snapshot ever taken holds the DB content after one complete atomic write (`∈ hist`);
* the real DB is such a content;
* every query that pinned a snapshot has read, so far, exactly what the immutable multistore
  `(content of ITS snapshot, ITS version)` returns — never the collector, the live trees or the
  deliver state.
`VersInv c`: every version still present in a DB of `hist` is the version that was written when
that height was committed (so a read at version `v` inside a later snapshot is the state of the
committed height `v`).
-/
namespace GnoVerif.C28

def contentAt (ss : List Snap) (i : Nat) : Option DB := (ss[i]?).map (·.content)

theorem contentAt_relSnap (ss : List Snap) (i j : Nat) : contentAt (relSnap ss j) i = contentAt ss i := by
  unfold contentAt relSnap
  rw [List.getElem?_modify]
  cases ss[i]? with
  | none => rfl
  | some sn => by_cases h : j = i <;> simp [h]

theorem contentAt_acqSnap (ss : List Snap) (i j : Nat) : contentAt (acqSnap ss j) i = contentAt ss i := by
  unfold contentAt acqSnap
  rw [List.getElem?_modify]
  cases ss[i]? with
  | none => rfl
  | some sn => by_cases h : j = i <;> simp [h]

theorem contentAt_append {ss : List Snap} {i : Nat} {d : DB} (x : Snap) (h : contentAt ss i = some d) :
    contentAt (ss ++ [x]) i = some d := by
  unfold contentAt at *
  cases hs : ss[i]? with
  | none => simp [hs] at h
  | some sn =>
    have hlt : i < ss.length := by
      rcases List.getElem?_eq_some_iff.mp hs with ⟨hl, _⟩
      exact hl
    rw [List.getElem?_append_left hlt, hs]
    simpa [hs] using h

theorem contentAt_append_new {ss : List Snap} {i : Nat} {d : DB} (x : Snap)
    (h : contentAt (ss ++ [x]) i = some d) : contentAt ss i = some d ∨ d = x.content := by
  unfold contentAt at *
  by_cases hlt : i < ss.length
  · rw [List.getElem?_append_left hlt] at h
    exact Or.inl h
  · have hge : ss.length ≤ i := Nat.le_of_not_lt hlt
    rw [List.getElem?_append_right hge] at h
    cases hx : [x][i - ss.length]? with
    | none => simp [hx] at h
    | some y =>
      have : y = x := by
        have := List.mem_of_getElem? hx
        simpa using this
      subst this
      simp [hx] at h
      exact Or.inr h.symm

/-- the reads of a query are those of the immutable multistore (content, version). -/
def ReadsFrom (d : DB) (q : Query) : Prop :=
  ∀ r ∈ q.reads, r.own = false → r.val = viewGet d q.ver r.key

def QueryOK (hist : List DB) (ss : List Snap) (q : Query) : Prop :=
  (q.status = .gotHeight → q.snap = none) ∧ (q.snap = none → q.reads = []) ∧
  ∀ i, q.snap = some i → ∃ d, contentAt ss i = some d ∧ d ∈ hist ∧ ReadsFrom d q

structure Inv (s : State) : Prop where
  snaps : ∀ i d, contentAt s.qs.snaps i = some d → d ∈ s.cons.hist
  db : s.cons.db ∈ s.cons.hist
  queries : ∀ q ∈ s.qs.queries, QueryOK s.cons.hist s.qs.snaps q

theorem inv_init (a : Bool) (k : Nat) (b : Bool) : Inv (State.init a k b) := by
  refine ⟨?_, ?_, ?_⟩
  · intro i d h
    simp only [State.init, QS.init, Cons.init, contentAt] at *
    cases i with
    | zero => simp at h; simp [← h]
    | succ n => simp at h
  · simp [State.init, Cons.init]
  · intro q hq
    simp [State.init, QS.init] at hq

/-- the history only grows, and only at `drain`, by the new DB. -/
theorem stepC_hist {c c' : Cons} {e : CEv} (h : stepC c e = some c') :
    (c'.hist = c.hist ∧ c'.db = c.db) ∨ (c'.hist = c.hist ++ [c'.db]) := by
  cases e <;> simp only [stepC] at h
  case begin => split at h <;> simp at h; subst h; exact Or.inl ⟨rfl, rfl⟩
  case tx ops =>
    split at h
    · simp at h; subst h; exact Or.inl ⟨rfl, rfl⟩
    · simp at h
  case endBlock => split at h <;> simp at h; subst h; exact Or.inl ⟨rfl, rfl⟩
  case flush => split at h <;> simp at h; subst h; exact Or.inl ⟨rfl, rfl⟩
  case drain =>
    split at h
    · simp at h; subst h; exact Or.inr rfl
    · simp at h
  case snap => split at h <;> simp at h; subst h; exact Or.inl ⟨rfl, rfl⟩
  case swap => split at h <;> simp at h; subst h; exact Or.inl ⟨rfl, rfl⟩
  case publishCid => split at h <;> simp at h; subst h; exact Or.inl ⟨rfl, rfl⟩
  case publishHdr => split at h <;> simp at h; subst h; exact Or.inl ⟨rfl, rfl⟩

theorem stepC_hist_mono {c c' : Cons} {e : CEv} (h : stepC c e = some c') {d : DB} (hd : d ∈ c.hist) :
    d ∈ c'.hist := by
  rcases stepC_hist h with ⟨h1, _⟩ | h2
  · rw [h1]; exact hd
  · rw [h2]; exact List.mem_append_left _ hd

theorem stepC_db_mem {c c' : Cons} {e : CEv} (h : stepC c e = some c') (hd : c.db ∈ c.hist) :
    c'.db ∈ c'.hist := by
  rcases stepC_hist h with ⟨h1, h2⟩ | h3
  · rw [h1, h2]; exact hd
  · rw [h3]; simp

theorem queryOK_mono {hist hist' : List DB} {ss ss' : List Snap} {q : Query}
    (hh : ∀ d, d ∈ hist → d ∈ hist')
    (hs : ∀ i d, contentAt ss i = some d → contentAt ss' i = some d)
    (h : QueryOK hist ss q) : QueryOK hist' ss' q := by
  refine ⟨h.1, h.2.1, fun i hi => ?_⟩
  rcases h.2.2 i hi with ⟨d, h1, h2, h3⟩
  exact ⟨d, hs i d h1, hh d h2, h3⟩

theorem inv_stepC {s s' : State} {e : CEv} (hi : Inv s) (h : step s (.c e) = some s') : Inv s' := by
  have ⟨hc, hq⟩ := step_c_cons h
  have hmono : ∀ d, d ∈ s.cons.hist → d ∈ s'.cons.hist := fun d hd => stepC_hist_mono hc hd
  -- how the snapshot list changes
  have hsn : (∀ i d, contentAt s.qs.snaps i = some d → contentAt s'.qs.snaps i = some d) ∧
      (∀ i d, contentAt s'.qs.snaps i = some d → contentAt s.qs.snaps i = some d ∨ d = s.cons.db) ∧
      s'.qs.queries = s.qs.queries := by
    rw [hq]
    cases e <;> simp only [sideQ]
    case snap =>
      refine ⟨fun i d hd => contentAt_append _ hd, fun i d hd => ?_, trivial⟩
      exact contentAt_append_new _ hd
    case swap =>
      cases hcur : s.qs.cur with
      | none => exact ⟨fun _ _ h => h, fun _ _ h => Or.inl h, trivial⟩
      | some j =>
        simp only
        refine ⟨fun i d hd => ?_, fun i d hd => ?_, trivial⟩
        · rw [contentAt_relSnap]; exact hd
        · rw [contentAt_relSnap] at hd; exact Or.inl hd
    all_goals exact ⟨fun _ _ h => h, fun _ _ h => Or.inl h, trivial⟩
  refine ⟨?_, stepC_db_mem hc hi.db, ?_⟩
  · intro i d hd
    rcases hsn.2.1 i d hd with h1 | h2
    · exact hmono d (hi.snaps i d h1)
    · subst h2; exact hmono _ hi.db
  · intro q hq'
    rw [hsn.2.2] at hq'
    exact queryOK_mono hmono hsn.1 (hi.queries q hq')

theorem mem_setQ {qs : List Query} {q x : Query} (h : x ∈ setQ qs q) : x = q ∨ x ∈ qs := by
  induction qs with
  | nil => simp [setQ] at h
  | cons y r ih =>
    unfold setQ at h
    split at h
    · rcases List.mem_cons.mp h with h | h
      · exact Or.inl h
      · exact Or.inr (List.mem_cons_of_mem _ h)
    · rcases List.mem_cons.mp h with h | h
      · exact Or.inr (by simp [h])
      · rcases ih h with h1 | h1
        · exact Or.inl h1
        · exact Or.inr (List.mem_cons_of_mem _ h1)

theorem findQ_mem {qs : List Query} {id : Nat} {q : Query} (h : findQ qs id = some q) : q ∈ qs := by
  unfold findQ at h
  exact List.mem_of_find?_eq_some h

/-- closing argument for query events: consensus side unchanged, snapshot contents unchanged,
every query is an old one or satisfies `QueryOK` by itself. -/
theorem inv_update {s s' : State} (hi : Inv s) (hc : s'.cons = s.cons)
    (h3 : ∀ i, contentAt s'.qs.snaps i = contentAt s.qs.snaps i)
    (h4 : ∀ x ∈ s'.qs.queries, x ∈ s.qs.queries ∨ QueryOK s.cons.hist s.qs.snaps x) : Inv s' := by
  refine ⟨?_, ?_, ?_⟩
  · intro i d hd
    rw [hc]; rw [h3] at hd; exact hi.snaps i d hd
  · rw [hc]; exact hi.db
  · intro x hx
    rw [hc]
    have : QueryOK s.cons.hist s.qs.snaps x := by
      rcases h4 x hx with h5 | h5
      · exact hi.queries x h5
      · exact h5
    exact queryOK_mono (fun _ h => h) (fun i d hd => by rw [h3]; exact hd) this

theorem inv_stepQ {s s' : State} {e : QEv} (hi : Inv s) (h : step s (.q e) = some s') : Inv s' := by
  have ⟨hc, hq⟩ := step_q_cons h
  cases e <;> simp only [stepQ] at hq
  case height id sim explicit =>
    have new : ∀ (q : Query), q.snap = none → q.reads = [] →
        s'.qs = { s.qs with queries := s.qs.queries ++ [q] } → Inv s' := by
      intro q h1 h2 h3
      refine inv_update hi hc (by rw [h3]; intro i; rfl) ?_
      intro x hx
      rw [h3] at hx
      rcases List.mem_append.mp hx with h5 | h5
      · exact Or.inl h5
      · simp at h5; subst h5
        exact Or.inr ⟨fun _ => h1, fun _ => h2, fun i hi' => by rw [h1] at hi'; cases hi'⟩
    split at hq
    · simp at hq
    · split at hq
      · split at hq
        · simp at hq
        · simp at hq; exact new _ rfl rfl hq.symm
      · simp at hq; exact new _ rfl rfl hq.symm
  case acquire id =>
    split at hq
    · rename_i q i hf hcur
      have hq0 : q ∈ s.qs.queries := findQ_mem hf
      split at hq
      · simp at hq
      · rename_i hst
        have hst' : q.status = .gotHeight := by simpa using hst
        have hnil : q.reads = [] := (hi.queries q hq0).2.1 ((hi.queries q hq0).1 hst')
        split at hq
        · simp at hq
        · rename_i sn hsn
          have hcont : contentAt s.qs.snaps i = some sn.content := by simp [contentAt, hsn]
          have okq : ∀ (st : QStatus), st ≠ .gotHeight →
              QueryOK s.cons.hist s.qs.snaps { q with snap := some i, status := st } := by
            intro st hne
            refine ⟨fun h => absurd h hne, fun h => by simp at h, ?_⟩
            intro j hj
            simp at hj; subst hj
            refine ⟨sn.content, hcont, hi.snaps i _ hcont, ?_⟩
            intro r hr
            simp [hnil] at hr
          split at hq
          · simp at hq
            refine inv_update hi hc (by rw [← hq]; intro j; exact contentAt_acqSnap _ j i) ?_
            intro x hx
            rw [← hq] at hx
            rcases mem_setQ hx with h1 | h1
            · right; subst h1
              by_cases hsim : q.sim = true
              · simp only [hsim, if_true]; exact okq _ (by decide)
              · simp only [hsim]; exact okq _ (by decide)
            · exact Or.inl h1
          · simp at hq
            refine inv_update hi hc (by
              rw [← hq]; intro j
              show contentAt (relSnap (acqSnap s.qs.snaps i) i) j = _
              rw [contentAt_relSnap, contentAt_acqSnap]) ?_
            intro x hx
            rw [← hq] at hx
            rcases mem_setQ hx with h1 | h1
            · right; subst h1; exact okq _ (by decide)
            · exact Or.inl h1
    · simp at hq
  case hdr id =>
    split at hq
    · rename_i q hf
      have hq0 : q ∈ s.qs.queries := findQ_mem hf
      split at hq
      · rename_i hst
        simp at hq
        refine inv_update hi hc (by rw [← hq]; intro j; rfl) ?_
        intro x hx
        rw [← hq] at hx
        rcases mem_setQ hx with h1 | h1
        · right; subst h1
          have := hi.queries q hq0
          exact ⟨fun h => by simp at h, this.2.1, this.2.2⟩
        · exact Or.inl h1
      · simp at hq
    · simp at hq
  case read id k =>
    split at hq
    · rename_i q hf
      have hq0 : q ∈ s.qs.queries := findQ_mem hf
      split at hq
      · simp at hq
      · rename_i hst
        have hst' : q.status = .ready := by simpa using hst
        split at hq
        · simp at hq
        · rename_i i hsnap
          split at hq
          · simp at hq
          · rename_i sn hsn
            simp at hq
            have hcont : contentAt s.qs.snaps i = some sn.content := by simp [contentAt, hsn]
            refine inv_update hi hc (by rw [← hq]; intro j; rfl) ?_
            intro x hx
            rw [← hq] at hx
            rcases mem_setQ hx with h1 | h1
            · right; subst h1
              have old := hi.queries q hq0
              refine ⟨fun h => by simp [hst'] at h, fun h => by simp [hsnap] at h, ?_⟩
              intro j hj
              simp only at hj
              rcases old.2.2 j hj with ⟨d, h1, h2, h3⟩
              have hd : d = sn.content := by
                rw [hsnap] at hj; cases hj
                rw [hcont] at h1; cases h1; rfl
              refine ⟨d, h1, h2, ?_⟩
              intro r hr hown
              simp only at hr
              rcases List.mem_append.mp hr with h5 | h5
              · exact h3 r h5 hown
              · simp at h5
                subst h5
                cases hov : kvGet q.overlay k with
                | some v => simp [hov] at hown
                | none => simp [hd]
            · exact Or.inl h1
    · simp at hq
  case write id k v =>
    split at hq
    · rename_i q hf
      have hq0 : q ∈ s.qs.queries := findQ_mem hf
      split at hq
      · rename_i hst
        simp at hq
        refine inv_update hi hc (by rw [← hq]; intro j; rfl) ?_
        intro x hx
        rw [← hq] at hx
        rcases mem_setQ hx with h1 | h1
        · right; subst h1
          have := hi.queries q hq0
          exact ⟨fun h => by simp [hst] at h, this.2.1, this.2.2⟩
        · exact Or.inl h1
      · simp at hq
    · simp at hq
  case release id =>
    split at hq
    · rename_i q hf
      have hq0 : q ∈ s.qs.queries := findQ_mem hf
      split at hq
      · simp at hq
      · split at hq
        · simp at hq
        · rename_i i hsnap
          simp at hq
          refine inv_update hi hc (by rw [← hq]; intro j; exact contentAt_relSnap _ j i) ?_
          intro x hx
          rw [← hq] at hx
          rcases mem_setQ hx with h1 | h1
          · right; subst h1
            have := hi.queries q hq0
            exact ⟨fun h => by simp at h, this.2.1, this.2.2⟩
          · exact Or.inl h1
    · simp at hq

theorem inv_step {s s' : State} {e : Ev} (hi : Inv s) (h : step s e = some s') : Inv s' := by
  cases e with
  | c ce => exact inv_stepC hi h
  | q qe => exact inv_stepQ hi h

theorem inv_run : ∀ (tr : List Ev) (s s' : State), Inv s → run s tr = some s' → Inv s' := by
  intro tr
  induction tr with
  | nil => intro s s' hi h; simp [run] at h; subst h; exact hi
  | cons e r ih =>
    intro s s' hi h
    simp only [run] at h
    cases hs : step s e with
    | none => simp [hs] at h
    | some s1 =>
      simp [hs] at h
      exact ih s1 s' (inv_step hi hs) h

end GnoVerif.C28
