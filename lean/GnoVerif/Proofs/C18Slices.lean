import GnoVerif.Model.C18Slices
/-! The slice model never writes into an allocation that existed before the call. -/
namespace GnoVerif.C18.Mem
open GnoVerif GnoVerif.C18

/-- every allocation below `n` is untouched, and no allocation disappeared. -/
def Preserved (n : Nat) (h h' : Heap) : Prop :=
  h.length ≤ h'.length ∧ ∀ id, id < n → arr h' id = arr h id

/-- the slice is `nil`-like (no capacity) or lives in an allocation made at or after `n`. -/
def Fresh (n : Nat) (s : Slice) : Prop := s.cap = 0 ∨ n ≤ s.id

theorem Preserved.refl (n : Nat) (h : Heap) : Preserved n h h := ⟨Nat.le_refl _, fun _ _ => rfl⟩

theorem Preserved.trans {n : Nat} {h h' h'' : Heap} (a : Preserved n h h') (b : Preserved n h' h'') :
    Preserved n h h'' :=
  ⟨Nat.le_trans a.1 b.1, fun id hid => by rw [b.2 id hid, a.2 id hid]⟩

theorem arr_append_left {h t : Heap} {id : Nat} (hid : id < h.length) : arr (h ++ t) id = arr h id := by
  simp [arr, List.getD_eq_getElem?_getD, List.getElem?_append_left hid]

theorem arr_write_ne {h : Heap} {id id' pos : Nat} {xs : List Coin} (hne : id' ≠ id) :
    arr (write h id pos xs) id' = arr h id' := by
  simp [arr, write, List.getD_eq_getElem?_getD, List.getElem?_set_ne (Ne.symm hne)]

theorem length_write (h : Heap) (id pos : Nat) (xs : List Coin) : (write h id pos xs).length = h.length := by
  simp [write]

theorem preserved_alloc {n : Nat} {h : Heap} (hn : n ≤ h.length) (a : List Coin) : Preserved n h (h ++ [a]) :=
  ⟨by simp, fun id hid => arr_append_left (by omega)⟩

theorem appendMany_pres {n : Nat} {h : Heap} {s : Slice} (xs : List Coin) (hn : n ≤ h.length) (hf : Fresh n s) :
    Preserved n h (appendMany h s xs).1 ∧ Fresh n (appendMany h s xs).2 := by
  unfold appendMany
  split
  · exact ⟨Preserved.refl _ _, hf⟩
  · next hne =>
    split
    · next hfit =>
      have hlen : 0 < xs.length := by
        cases xs with
        | nil => simp at hne
        | cons _ _ => simp
      have hid : n ≤ s.id := by
        rcases hf with h0 | h0
        · omega
        · exact h0
      refine ⟨⟨by rw [length_write]; exact Nat.le_refl _, fun id hlt => arr_write_ne (by omega)⟩, Or.inr hid⟩
    · exact ⟨preserved_alloc hn _, Or.inr hn⟩

theorem appendNonZero_pres {n : Nat} (cs : List Coin) {h : Heap} {res : Slice} (hn : n ≤ h.length) (hf : Fresh n res) :
    Preserved n h (appendNonZero h res cs).1 ∧ Fresh n (appendNonZero h res cs).2 := by
  induction cs generalizing h res with
  | nil => exact ⟨Preserved.refl _ _, hf⟩
  | cons c cs ih =>
    simp only [appendNonZero, List.foldl_cons]
    split
    · exact ih hn hf
    · obtain ⟨p1, f1⟩ := appendMany_pres [c] hn hf
      obtain ⟨p2, f2⟩ := ih (h := (appendMany h res [c]).1) (res := (appendMany h res [c]).2)
        (Nat.le_trans hn p1.1) f1
      exact ⟨p1.trans p2, f2⟩

theorem removeZeroH_pres {n : Nat} {h : Heap} (s : Slice) (hn : n ≤ h.length) :
    Preserved n h (removeZeroH h s).1 := by
  simp only [removeZeroH]
  cases firstZero (read h s) with
  | none => exact Preserved.refl _ _
  | some i =>
    have p1 := preserved_alloc hn
      (List.take i (read h s) ++ List.replicate (s.len - 1 - i) zeroCoin)
    have := appendNonZero_pres (n := n) (List.drop (i + 1) (read h s))
      (h := h ++ [List.take i (read h s) ++ List.replicate (s.len - 1 - i) zeroCoin])
      (res := ⟨h.length, 0, i, s.len - 1⟩) (Nat.le_trans hn p1.1) (Or.inr hn)
    exact p1.trans this.1

theorem fresh_nil (n : Nat) : Fresh n nilSlice := Or.inl rfl

theorem addLoop_pres {n : Nat} (fuel : Nat) {h : Heap} (A B : Slice) {sum : Slice} (iA iB : Nat)
    (hn : n ≤ h.length) (hf : Fresh n sum) : Preserved n h (addLoop fuel h A B sum iA iB).1 := by
  induction fuel generalizing h sum iA iB with
  | zero => exact Preserved.refl _ _
  | succ fuel ih =>
    simp only [addLoop]
    split
    · split
      · exact Preserved.refl _ _
      · have p1 := removeZeroH_pres (n := n) (h := h) (B.from iB) hn
        have p2 := appendMany_pres (n := n) (read (removeZeroH h (B.from iB)).1 (removeZeroH h (B.from iB)).2)
          (Nat.le_trans hn p1.1) hf
        exact p1.trans p2.1
    · split
      · have p1 := removeZeroH_pres (n := n) (h := h) (A.from iA) hn
        have p2 := appendMany_pres (n := n) (read (removeZeroH h (A.from iA)).1 (removeZeroH h (A.from iA)).2)
          (Nat.le_trans hn p1.1) hf
        exact p1.trans p2.1
      · split
        · -- lt
          split
          · exact ih _ _ hn hf
          · obtain ⟨p1, f1⟩ := appendMany_pres (n := n) [(read h A).getD iA zeroCoin] hn hf
            exact p1.trans (ih _ _ (Nat.le_trans hn p1.1) f1)
        · -- eq
          split
          · exact Preserved.refl _ _
          · next res _ =>
            split
            · exact ih _ _ hn hf
            · obtain ⟨p1, f1⟩ := appendMany_pres (n := n) [res] hn hf
              exact p1.trans (ih _ _ (Nat.le_trans hn p1.1) f1)
        · -- gt
          split
          · exact ih _ _ hn hf
          · obtain ⟨p1, f1⟩ := appendMany_pres (n := n) [(read h B).getD iB zeroCoin] hn hf
            exact p1.trans (ih _ _ (Nat.le_trans hn p1.1) f1)

theorem addUnsafeH_pres {n : Nat} {h : Heap} (A B : Slice) (hn : n ≤ h.length) :
    Preserved n h (addUnsafeH h A B).1 :=
  addLoop_pres _ A B 0 0 hn (fresh_nil n)

theorem foldl_append_pres {n : Nat} (f : Coin → Coin) (cs : List Coin) {h : Heap} {res : Slice}
    (hn : n ≤ h.length) (hf : Fresh n res) :
    Preserved n h (cs.foldl (fun (p : Heap × Slice) c => appendMany p.1 p.2 [f c]) (h, res)).1 := by
  induction cs generalizing h res with
  | nil => exact Preserved.refl _ _
  | cons c cs ih =>
    simp only [List.foldl_cons]
    obtain ⟨p1, f1⟩ := appendMany_pres (n := n) [f c] hn hf
    exact p1.trans (ih (Nat.le_trans hn p1.1) f1)

theorem negativeH_pres {n : Nat} {h : Heap} (B : Slice) (hn : n ≤ h.length) :
    Preserved n h (negativeH h B).1 := by
  unfold negativeH
  have p1 := preserved_alloc hn (List.replicate B.len zeroCoin)
  exact p1.trans (foldl_append_pres (fun c => ⟨c.denom, BitVec.ofInt 64 (-1) * c.amount⟩) _
    (Nat.le_trans hn p1.1) (Or.inr hn))

theorem subUnsafeH_pres {n : Nat} {h : Heap} (A B : Slice) (hn : n ≤ h.length) :
    Preserved n h (subUnsafeH h A B).1 := by
  unfold subUnsafeH
  have p1 := negativeH_pres (n := n) (h := h) B hn
  exact p1.trans (addUnsafeH_pres A _ (Nat.le_trans hn p1.1))

theorem checkH_heap (r : Heap × Except Err Slice) : (checkH r).1 = r.1 := by
  unfold checkH
  split
  · rfl
  · split <;> rfl

theorem read_of_arr_eq {h h' : Heap} {s : Slice} (e : arr h' s.id = arr h s.id) : read h' s = read h s := by
  simp [read, e]

end GnoVerif.C18.Mem
