import GnoVerif.Proofs.C45Main
/-!
C45 helper lemmas, part 7: single-character substitutions.
-/
namespace GnoVerif.C45

theorem toBytes_mid (p q : Bytes) (x : UInt8) (vs : List Nat) (h : toBytes (p ++ x :: q) = .ok vs) :
    ∃ vp vx vq, toBytes p = .ok vp ∧ charsetIdx x = some vx ∧ toBytes q = .ok vq ∧ vs = vp ++ vx :: vq := by
  obtain ⟨vp, vr, h1, h2, h3, _⟩ := toBytes_append_ok p (x :: q) vs h
  rw [toBytes_cons] at h2
  split at h2
  · cases h2
  · rename_i i hi
    split at h2
    · cases h2
    · rename_i r hr
      cases h2
      exact ⟨vp, i, r, h1, hi, hr, h3⟩

theorem sym_ne (a b : Nat) (ha : a < 32) (hb : b < 32) (h : a ≠ b) : sym a ≠ sym b := by
  intro he
  have := congrArg BitVec.toNat he
  rw [sym_toNat a ha, sym_toNat b hb] at this
  exact h this

/-- lower-case level: two strings with the same prefix and separator whose data parts differ in
exactly one character cannot both pass the checksum test. -/
theorem decodeLower_single_diff (h p q : Bytes) (x y : UInt8) (r : Bytes × List Nat)
    (h49 : (49 : UInt8) ∉ p ++ x :: q) (hy : y ∈ charset) (hne : x ≠ y)
    (hok : decodeLower (h ++ 49 :: (p ++ x :: q)) = .ok r) :
    ∃ e, decodeLower (h ++ 49 :: (p ++ y :: q)) = .error e := by
  have h49' : (49 : UInt8) ∉ p ++ y :: q := by
    simp only [List.mem_append, List.mem_cons, not_or] at h49 ⊢
    exact ⟨h49.1, fun hh => (charset_mem y hy).2.2 hh.symm, h49.2.2⟩
  rw [decodeLower_split h _ h49] at hok
  rw [decodeLower_split h _ h49']
  have hlen : (p ++ y :: q).length = (p ++ x :: q).length := by simp
  rw [hlen]
  split at hok
  · cases hok
  · rename_i hsep
    rw [if_neg hsep]
    split at hok
    · cases hok
    · rename_i decoded hdec
      split at hok
      · rename_i hver
        cases hdec' : toBytes (p ++ y :: q) with
        | error e => exact ⟨e, rfl⟩
        | ok decoded' =>
          simp only
          obtain ⟨vp, vx, vq, a1, a2, a3, a4⟩ := toBytes_mid p q x decoded hdec
          obtain ⟨vp', vy, vq', b1, b2, b3, b4⟩ := toBytes_mid p q y decoded' hdec'
          rw [a1] at b1; cases b1
          rw [a3] at b3; cases b3
          have hvx := charsetIdx_some x vx a2
          have hvy := charsetIdx_some y vy b2
          have hvne : vx ≠ vy := by
            intro he
            apply hne
            rw [← hvx.2.1, ← hvy.2.1, he]
          cases hver' : verifyChecksum h decoded' with
          | false => exact ⟨.checksum, by simp⟩
          | true =>
            exfalso
            unfold verifyChecksum at hver hver'
            simp only [Bool.or_eq_true, beq_iff_eq] at hver hver'
            rw [a4, polymod_eq, List.map_append, List.map_cons] at hver
            rw [b4, polymod_eq, List.map_append, List.map_cons] at hver'
            exact single_diff _ _ _ (sym vx) (sym vy)
              (by rw [sym_toNat vx hvx.1]; exact hvx.1) (by rw [sym_toNat vy hvy.1]; exact hvy.1)
              (sym_ne vx vy hvx.1 hvy.1 hvne) hver hver'
      · cases hok

theorem decode_ok_decode5 (s h d : Bytes) (hd : decode s = .ok (h, d)) :
    ∃ d5, decode5 s = .ok (h, d5) ∧ ∃ d8, convertBits 5 8 false d5 = .ok d8 ∧ d = d8.map UInt8.ofNat := by
  unfold decode at hd
  split at hd
  · cases hd
  · rename_i h' d5 h5
    split at hd
    · cases hd
    · rename_i d8 h8
      cases hd
      exact ⟨d5, h5, d8, h8, rfl⟩

/-- the shape of an accepted string after case folding. -/
theorem decode_ok_shape (s h d : Bytes) (hd : decode s = .ok (h, d)) :
    8 ≤ s.length ∧ (∃ r, scan s false false = .ok r) ∧
    ∃ B d5, lowerAll s = h ++ 49 :: B ∧ (49 : UInt8) ∉ B ∧ decodeLower (h ++ 49 :: B) = .ok (h, d5) ∧
      ∃ d8, convertBits 5 8 false d5 = .ok d8 ∧ d = d8.map UInt8.ofNat := by
  obtain ⟨d5, h5, d8, h8, hdd⟩ := decode_ok_decode5 s h d hd
  obtain ⟨hl, hr, hdl⟩ := decode5_ok s _ h5
  obtain ⟨B, decoded, e1, e2, _, _, _, _, _⟩ := decodeLower_ok _ h d5 hdl
  refine ⟨hl, hr, B, d5, e1, e2, ?_, d8, h8, hdd⟩
  rw [← e1]; exact hdl

/-- `h ++ 49 :: B = A ++ X :: C` with the split point of the right side strictly after the `49`. -/
theorem split_after (h B A C : Bytes) (X : UInt8) (e : h ++ 49 :: B = A ++ X :: C) (hlt : h.length < A.length) :
    ∃ p, A = h ++ 49 :: p ∧ B = p ++ X :: C := by
  rcases List.append_eq_append_iff.mp e with ⟨a', h1, h2⟩ | ⟨c', h1, _⟩
  · cases a' with
    | nil =>
      rw [h1] at hlt; simp at hlt
    | cons z zs =>
      simp only [List.cons_append, List.cons.injEq] at h2
      exact ⟨zs, by rw [h1, h2.1], h2.2⟩
  · rw [h1] at hlt
    simp only [List.length_append] at hlt
    omega

/-- the split point of the right side strictly before the `49`. -/
theorem split_before (h B A C : Bytes) (X : UInt8) (e : h ++ 49 :: B = A ++ X :: C) (hlt : A.length < h.length) :
    ∃ p, h = A ++ X :: p ∧ C = p ++ 49 :: B := by
  rcases List.append_eq_append_iff.mp e with ⟨a', h1, _⟩ | ⟨c', h1, h2⟩
  · rw [h1] at hlt
    simp only [List.length_append] at hlt
    omega
  · cases c' with
    | nil =>
      rw [h1] at hlt; simp at hlt
    | cons z zs =>
      simp only [List.cons_append, List.cons.injEq] at h2
      exact ⟨zs, by rw [h1, h2.1], h2.2⟩

/-- **single substitution in the data part** (decomposed form): `a ++ x :: b` is accepted with
prefix `h`, the position `a.length` lies after the separator, and `y` is a data character (in
either case) that differs from `x` by more than case. -/
theorem substitution_data (a b : Bytes) (x y : UInt8) (h d : Bytes)
    (hd : decode (a ++ x :: b) = .ok (h, d)) (hpos : h.length < a.length)
    (hy : lower y ∈ charset) (hne : lower y ≠ lower x) :
    Rejected (a ++ y :: b) := by
  obtain ⟨_, _, B, d5, e1, e2, e3, _⟩ := decode_ok_shape _ h d hd
  rw [lowerAll_append, lowerAll_cons] at e1
  obtain ⟨p, hA, hB⟩ := split_after h B (lowerAll a) (lowerAll b) (lower x) e1.symm
    (by rw [lowerAll_length]; exact hpos)
  apply rejected_of_decodeLower_error
  intro _ _ _
  rw [lowerAll_append, lowerAll_cons, hA]
  simp only [List.append_assoc, List.cons_append]
  subst hB
  exact decodeLower_single_diff h p (lowerAll b) (lower x) (lower y) _ e2 hy (fun he => hne he.symm) e3

theorem split_at (s : Bytes) (i : Nat) (hi : i < s.length) : s = s.take i ++ s[i] :: s.drop (i + 1) := by
  rw [← List.drop_eq_getElem_cons hi, List.take_append_drop]

theorem set_split (s : Bytes) (i : Nat) (hi : i < s.length) (c : UInt8) :
    s.set i c = s.take i ++ c :: s.drop (i + 1) := by
  rw [List.set_eq_take_append_cons_drop, if_pos hi]

/-- **single substitution in the data part**, indexed form. -/
theorem substitution_data_set (s h d : Bytes) (hd : decode s = .ok (h, d)) (i : Nat) (hi : i < s.length)
    (hpos : h.length < i) (c : UInt8) (hc : lower c ∈ charset) (hne : lower c ≠ lower s[i]) :
    Rejected (s.set i c) := by
  rw [set_split s i hi c]
  have hs := split_at s i hi
  rw [hs] at hd
  exact substitution_data _ _ s[i] c h d hd (by rw [List.length_take]; omega) hc hne

/-! ### substitution in the prefix -/

theorem decode_congr (s s' : Bytes) (h : decode5 s = decode5 s') : decode s = decode s' := by
  unfold decode; rw [h]

/-- **single substitution in the prefix**: if the result is accepted at all, it carries a
different prefix (and the same payload), so every caller that compares the prefix rejects it. -/
theorem substitution_hrp (a b : Bytes) (x y : UInt8) (h d h' d' : Bytes)
    (hd : decode (a ++ x :: b) = .ok (h, d)) (hpos : a.length < h.length)
    (hne : lower y ≠ lower x) (hd' : decode (a ++ y :: b) = .ok (h', d')) :
    h' ≠ h ∧ d' = d := by
  obtain ⟨_, _, B, d5, e1, e2, e3, d8, e4, e5⟩ := decode_ok_shape _ h d hd
  obtain ⟨_, _, B', d5', f1, f2, f3, d8', f4, f5⟩ := decode_ok_shape _ h' d' hd'
  rw [lowerAll_append, lowerAll_cons] at e1 f1
  obtain ⟨p, hA, hC⟩ := split_before h B (lowerAll a) (lowerAll b) (lower x) e1.symm
    (by rw [lowerAll_length]; exact hpos)
  -- the substituted string, lower-cased, has its last separator at the same place
  have f1' : (lowerAll a ++ lower y :: p) ++ 49 :: B = h' ++ 49 :: B' := by
    rw [← f1, hC]; simp
  have hl1 := lastIdx_append_cons 49 (lowerAll a ++ lower y :: p) B e2
  have hl2 := lastIdx_append_cons 49 h' B' f2
  rw [f1', hl2] at hl1
  have hlen : h'.length = (lowerAll a ++ lower y :: p).length := by
    injection hl1
  have hh : h' = lowerAll a ++ lower y :: p := by
    have := congrArg (List.take h'.length) f1'
    rw [List.take_left' hlen.symm, List.take_left' rfl] at this
    exact this.symm
  have hB : B' = B := by
    have := congrArg (List.drop (h'.length + 1)) f1'
    rw [show (lowerAll a ++ lower y :: p) ++ 49 :: B = ((lowerAll a ++ lower y :: p) ++ [49]) ++ B by simp,
      show h' ++ 49 :: B' = (h' ++ [49]) ++ B' by simp,
      List.drop_left' (by simp [hlen]; omega), List.drop_left' (by simp)] at this
    exact this.symm
  refine ⟨?_, ?_⟩
  · rw [hh, hA]
    intro he
    have := List.append_cancel_left he
    simp only [List.cons.injEq] at this
    exact hne this.1
  · -- same data part, hence the same 5-bit values and the same payload
    subst hB
    rw [decodeLower_split h B' e2] at e3
    rw [decodeLower_split h' B' f2] at f3
    split at e3
    · cases e3
    · split at f3
      · cases f3
      · cases ht : toBytes B' with
        | error e => rw [ht] at e3; cases e3
        | ok dec =>
          rw [ht] at e3 f3
          simp only at e3 f3
          split at e3
          · split at f3
            · cases e3; cases f3
              rw [e4] at f4; cases f4
              rw [e5, f5]
            · cases f3
          · cases e3

/-! ### a substitution that only changes the case of a letter -/

/-- bech32 is case-insensitive: replacing a letter by its other case either produces mixed case
(rejected) or — when it was the only letter of the string — the very same result. -/
theorem substitution_case (a b : Bytes) (x y : UInt8) (h d : Bytes)
    (hd : decode (a ++ x :: b) = .ok (h, d)) (hl : lower y = lower x) :
    decode (a ++ y :: b) = .ok (h, d) ∨ decode (a ++ y :: b) = .error .mixed := by
  obtain ⟨hlen, ⟨r, hr⟩, _⟩ := decode_ok_shape _ h d hd
  have hrange := (scan_ok _ false false r (by simp) hr).1
  have hlow : lowerAll (a ++ y :: b) = lowerAll (a ++ x :: b) := by
    simp only [lowerAll_append, lowerAll_cons, hl]
  have hlen' : 8 ≤ (a ++ y :: b).length := by
    simp only [List.length_append, List.length_cons] at hlen ⊢; exact hlen
  have hrange' : ∀ c ∈ a ++ y :: b, InRange c := by
    intro c hc
    simp only [List.mem_append, List.mem_cons] at hc
    rcases hc with hc | rfl | hc
    · exact hrange c (by simp [hc])
    · exact inRange_of_lower_eq c x hl (hrange x (by simp))
    · exact hrange c (by simp [hc])
  cases hs : scan (a ++ y :: b) false false with
  | ok r' =>
    left
    rw [← hd]
    apply decode_congr
    rw [decode5_of_scan _ r' hlen' hs, decode5_of_scan _ r hlen hr, hlow]
  | error e =>
    right
    apply decode_of_decode5_error
    unfold decode5
    rw [if_neg (by omega), hs]
    rcases scan_error _ false false e hs with ⟨_, c, hc, hn⟩ | he
    · exact absurd (hrange' c hc) hn
    · rw [he]

/-! ### addresses -/

theorem addr_ok (s addr : Bytes) (h : addressFromBech32 s = .ok addr) :
    decode s = .ok (addrPrefix, addr) ∧ addr.length = 20 := by
  unfold addressFromBech32 getFromBech32 at h
  split at h
  · cases h
  · rename_i bz hg
    split at hg
    · cases hg
    · split at hg
      · cases hg
      · rename_i hrp bz' hdec
        split at hg
        · cases hg
        · rename_i hp
          cases hg
          split at h
          · cases h
          · rename_i hl
            cases h
            have : hrp = addrPrefix := by
              by_cases hq : hrp = addrPrefix
              · exact hq
              · exact absurd hq hp
            rw [this] at hdec
            exact ⟨hdec, by omega⟩

/-- an accepted string whose prefix is `"g"` cannot stay accepted with prefix `"g"` after one byte
is replaced by a byte that differs by more than case. -/
theorem addr_substitution_core (a b : Bytes) (x y : UInt8) (d d' : Bytes)
    (hd : decode (a ++ x :: b) = .ok (addrPrefix, d)) (hne : lower y ≠ lower x)
    (hd' : decode (a ++ y :: b) = .ok (addrPrefix, d')) : False := by
  obtain ⟨_, _, B, d5, e1, e2, e3, _⟩ := decode_ok_shape _ _ d hd
  obtain ⟨_, _, B', d5', f1, f2, f3, _⟩ := decode_ok_shape _ _ d' hd'
  rw [lowerAll_append, lowerAll_cons] at e1 f1
  match a, e1, f1 with
  | [], e1, f1 =>
    simp only [lowerAll, List.map_nil, List.nil_append, addrPrefix, List.cons_append, List.cons.injEq] at e1 f1
    exact hne (by rw [f1.1, e1.1])
  | [a0], e1, f1 =>
    simp only [lowerAll, List.map_cons, List.map_nil, List.cons_append, List.nil_append, addrPrefix,
      List.cons.injEq] at e1 f1
    exact hne (by rw [f1.2.1, e1.2.1])
  | a0 :: a1 :: a2, e1, f1 =>
    simp only [lowerAll_cons, List.cons_append, List.nil_append, addrPrefix, List.cons.injEq] at e1 f1
    obtain ⟨_, _, hB⟩ := e1
    obtain ⟨_, _, hB'⟩ := f1
    subst hB hB'
    obtain ⟨_, dec', _, _, _, _, ht', _, _⟩ := decodeLower_ok _ _ _ f3
    -- the new byte is a data character, because the data part still converts
    have hY : lower y ∈ charset := by
      have f3' := f3
      rw [decodeLower_split _ _ f2] at f3'
      split at f3'
      · cases f3'
      · cases hq : toBytes (lowerAll a2 ++ lower y :: lowerAll b) with
        | error e => rw [hq] at f3'; cases f3'
        | ok vs =>
          obtain ⟨_, vy, _, _, hv, _, _⟩ := toBytes_mid _ _ _ _ hq
          exact (charsetIdx_some _ vy hv).2.2
    obtain ⟨e, he⟩ := decodeLower_single_diff addrPrefix (lowerAll a2) (lowerAll b) (lower x) (lower y) _ e2 hY
      (fun h => hne h.symm) e3
    rw [he] at f3
    cases f3

/-- **every single-byte substitution of an accepted address is rejected** by
`AddressFromBech32`, unless it only changes the case of a letter. -/
theorem addr_substitution (a b : Bytes) (x y : UInt8) (addr : Bytes)
    (hd : addressFromBech32 (a ++ x :: b) = .ok addr) (hne : lower y ≠ lower x) :
    ∃ e, addressFromBech32 (a ++ y :: b) = .error e := by
  cases h' : addressFromBech32 (a ++ y :: b) with
  | error e => exact ⟨e, rfl⟩
  | ok addr' =>
    exfalso
    exact addr_substitution_core a b x y addr addr' (addr_ok _ _ hd).1 hne (addr_ok _ _ h').1

theorem addr_substitution_set (s addr : Bytes) (hd : addressFromBech32 s = .ok addr) (i : Nat) (hi : i < s.length)
    (c : UInt8) (hne : lower c ≠ lower s[i]) :
    ∃ e, addressFromBech32 (s.set i c) = .error e := by
  rw [set_split s i hi c]
  have hs := split_at s i hi
  rw [hs] at hd
  exact addr_substitution _ _ s[i] c addr hd hne

end GnoVerif.C45
