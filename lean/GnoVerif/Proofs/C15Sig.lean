import GnoVerif.Proofs.C15Ante
import GnoVerif.Model.C15Spec
/-! C15: phase 3 (signature loop) as a relation, and its effect on the state. -/
namespace GnoVerif.C15

variable {π σ β : Type} [DecidableEq π]

def Resolved.stored (r : Resolved π) : Option π :=
  match r.sess with
  | none => r.acc.pubKey
  | some (_, ss) => ss.pubKey

def Resolved.accNum (r : Resolved π) : Nat :=
  match r.sess with
  | none => r.acc.accNum
  | some (_, ss) => ss.accNum

def Resolved.seq (r : Resolved π) : Nat :=
  match r.sess with
  | none => r.acc.seq
  | some (_, ss) => ss.seq

/-- one iteration of phase 3 succeeded with key `pk` -/
structure StepOk (cr : Crypto π σ β) (cfg : Config) (genesis : Bool) (tx : Tx π σ)
    (r : Resolved π) (g : Sig π σ) (pk : π) : Prop where
  key : resolvePubKey cr r.sess.isSome r.addr r.stored g.pubKey = .ok pk
  ver : cr.verify pk (cr.signBytes (docFor cfg genesis tx r.accNum r.seq)) g.sig = true

/-- the write of one iteration -/
def applyStep (s : State π) (r : Resolved π) (pk : π) : State π :=
  match r.sess with
  | none =>
    { s with accounts := upd s.accounts r.addr (some { r.acc with pubKey := some pk, seq := r.acc.seq + 1 }) }
  | some (sa, ss) =>
    { s with sessions := upd2 s.sessions r.addr sa (some { ss with pubKey := some pk, seq := ss.seq + 1 }) }

theorem sigCheck_ok (cr : Crypto π σ β) (pk : π) (doc : SignDoc π) (sg : σ) (u : Unit)
    (h : sigCheck cr pk doc sg = .ok u) : cr.verify pk (cr.signBytes doc) sg = true := by
  unfold sigCheck at h
  split at h
  · cases h
  · cases h
  · split at h
    · assumption
    · cases h

theorem sigStep_ok (cr : Crypto π σ β) (cfg : Config) (genesis : Bool) (tx : Tx π σ) (s s' : State π)
    (r : Resolved π) (g : Sig π σ) (h : sigStep cr cfg genesis tx s r g = .ok s') :
    ∃ pk, StepOk cr cfg genesis tx r g pk ∧ s' = applyStep s r pk := by
  unfold sigStep at h
  split at h
  · rename_i hs
    split at h
    · cases h
    rename_i pk hk
    split at h
    · cases h
    rename_i u hv
    injection h with h
    refine ⟨pk, ⟨?_, ?_⟩, ?_⟩
    · simpa [Resolved.stored, hs] using hk
    · simpa [Resolved.accNum, Resolved.seq, hs] using sigCheck_ok cr pk _ _ u hv
    · simp [applyStep, hs, ← h]
  · rename_i sa ss hs
    split at h
    · cases h
    rename_i pk hk
    split at h
    · cases h
    rename_i u hv
    injection h with h
    refine ⟨pk, ⟨?_, ?_⟩, ?_⟩
    · simpa [Resolved.stored, hs] using hk
    · simpa [Resolved.accNum, Resolved.seq, hs] using sigCheck_ok cr pk _ _ u hv
    · simp [applyStep, hs, ← h]

/-- the whole loop as a relation -/
inductive Steps (cr : Crypto π σ β) (cfg : Config) (genesis : Bool) (tx : Tx π σ) :
    State π → List (Resolved π) → List (Sig π σ) → State π → Prop where
  | nil {s} : Steps cr cfg genesis tx s [] [] s
  | cons {s r g pk rs gs s'} : StepOk cr cfg genesis tx r g pk →
      Steps cr cfg genesis tx (applyStep s r pk) rs gs s' → Steps cr cfg genesis tx s (r :: rs) (g :: gs) s'

theorem sigLoop_steps (cr : Crypto π σ β) (cfg : Config) (genesis : Bool) (tx : Tx π σ) :
    ∀ (rs : List (Resolved π)) (gs : List (Sig π σ)) (s s' : State π), rs.length = gs.length →
      sigLoop cr cfg genesis tx s rs gs = .ok s' → Steps cr cfg genesis tx s rs gs s'
  | [], [], s, s', _, h => by
    simp [sigLoop] at h
    subst h
    exact .nil
  | [], _ :: _, _, _, hl, _ => by simp at hl
  | _ :: _, [], _, _, hl, _ => by simp at hl
  | r :: rs, g :: gs, s, s', hl, h => by
    unfold sigLoop at h
    split at h
    · cases h
    rename_i s1 h1
    obtain ⟨pk, hok, he⟩ := sigStep_ok cr cfg genesis tx s s1 r g h1
    subst he
    exact .cons hok (sigLoop_steps cr cfg genesis tx rs gs _ s' (by simpa using hl) h)

/-! ### effect of the loop -/

omit [DecidableEq π] in
theorem applyStep_fields (s : State π) (r : Resolved π) (pk : π) :
    (applyStep s r pk).nextAccNum = s.nextAccNum ∧ (applyStep s r pk).height = s.height ∧
    (applyStep s r pk).time = s.time ∧ (applyStep s r pk).notes = s.notes := by
  unfold applyStep
  split <;> exact ⟨rfl, rfl, rfl, rfl⟩

/-- what the loop leaves behind, for a duplicate-free list of signer addresses -/
structure StepsEffect (cr : Crypto π σ β) (cfg : Config) (genesis : Bool) (tx : Tx π σ)
    (s : State π) (rs : List (Resolved π)) (gs : List (Sig π σ)) (s' : State π) : Prop where
  next : s'.nextAccNum = s.nextAccNum
  height : s'.height = s.height
  time : s'.time = s.time
  notes : s'.notes = s.notes
  accKeep : ∀ x, (∀ r ∈ rs, r.sess = none → r.addr ≠ x) → s'.accounts x = s.accounts x
  accStep : ∀ r g, (r, g) ∈ rs.zip gs → r.sess = none → ∃ pk, StepOk cr cfg genesis tx r g pk ∧
    s'.accounts r.addr = some { r.acc with pubKey := some pk, seq := r.acc.seq + 1 }
  sessKeep : ∀ m k, (∀ r ∈ rs, ∀ ss, r.sess = some (k, ss) → r.addr ≠ m) → s'.sessions m k = s.sessions m k
  sessStep : ∀ r g sa ss, (r, g) ∈ rs.zip gs → r.sess = some (sa, ss) → ∃ pk, StepOk cr cfg genesis tx r g pk ∧
    s'.sessions r.addr sa = some { ss with pubKey := some pk, seq := ss.seq + 1 }

theorem steps_effect (cr : Crypto π σ β) (cfg : Config) (genesis : Bool) (tx : Tx π σ)
    {s : State π} {rs : List (Resolved π)} {gs : List (Sig π σ)} {s' : State π}
    (h : Steps cr cfg genesis tx s rs gs s') (hnd : (rs.map (·.addr)).Nodup) :
    StepsEffect cr cfg genesis tx s rs gs s' := by
  induction h with
  | nil =>
    exact ⟨rfl, rfl, rfl, rfl, fun _ _ => rfl, fun _ _ hm => by simp at hm, fun _ _ _ => rfl,
      fun _ _ _ _ hm => by simp at hm⟩
  | @cons s r g pk rs gs s' hok _ ih =>
    simp only [List.map_cons, List.nodup_cons] at hnd
    obtain ⟨hnot, hnd'⟩ := hnd
    have ih := ih hnd'
    have hf := applyStep_fields s r pk
    have hne : ∀ r' ∈ rs, r'.addr ≠ r.addr := by
      intro r' hr' he
      exact hnot (by rw [← he]; exact List.mem_map_of_mem hr')
    refine ⟨ih.next.trans hf.1, ih.height.trans hf.2.1, ih.time.trans hf.2.2.1, ih.notes.trans hf.2.2.2,
      ?_, ?_, ?_, ?_⟩
    · intro x hx
      rw [ih.accKeep x (fun r' hr' hs' => hx r' (List.mem_cons_of_mem _ hr') hs')]
      unfold applyStep
      split
      · rename_i hs
        have : x ≠ r.addr := fun he => hx r (List.mem_cons_self) hs he.symm
        simp [upd_other _ _ _ _ this]
      · rfl
    · intro r' g' hm hs'
      simp only [List.zip_cons_cons, List.mem_cons] at hm
      rcases hm with hm | hm
      · injection hm with h1 h2
        subst h1 h2
        refine ⟨pk, hok, ?_⟩
        rw [ih.accKeep r'.addr (fun r'' hr'' _ => hne r'' hr'')]
        simp [applyStep, hs']
      · exact ih.accStep r' g' hm hs'
    · intro m k hx
      rw [ih.sessKeep m k (fun r' hr' ss' hs' => hx r' (List.mem_cons_of_mem _ hr') ss' hs')]
      unfold applyStep
      split
      · rfl
      · rename_i sa ss hs
        have : ¬ (m = r.addr ∧ k = sa) := by
          rintro ⟨h1, h2⟩
          subst h2
          exact hx r (List.mem_cons_self) ss hs h1.symm
        simp [upd2_other _ _ _ _ _ _ this]
    · intro r' g' sa ss hm hs'
      simp only [List.zip_cons_cons, List.mem_cons] at hm
      rcases hm with hm | hm
      · injection hm with h1 h2
        subst h1 h2
        refine ⟨pk, hok, ?_⟩
        rw [ih.sessKeep r'.addr sa (fun r'' hr'' _ _ => hne r'' hr'')]
        simp [applyStep, hs']
      · exact ih.sessStep r' g' sa ss hm hs'

end GnoVerif.C15
