import GnoVerif.Proofs.C20Zero
/-! The round trip of the reflection codec model on the proved fragment (C20). -/
namespace GnoVerif.C20

theorem writeMaybeBare_false (buf : Bytes) : writeMaybeBare buf false = encBytes buf := by
  unfold writeMaybeBare
  cases buf with
  | nil => simp [encBytes, encUvarint_small]
  | cons b t => simp

theorem dec_prim (env : Env) (k : Nat) (td : TD) (bz : Bytes) (fnum : Nat) (bare bo : Bool) (depth : Nat)
    (r : Option (Val × Nat)) (h : decPrim td bz bo = some r) :
    dec env (k + 1) td bz fnum bare bo depth = r := by
  unfold dec
  simp only [h]

theorem dec_ref (env : Env) (k : Nat) (name n : Bytes) (ifs : List Bytes) (fs : List FieldD) (rs : List Nat)
    (bz : Bytes) (fnum : Nat) (bare bo : Bool) (depth : Nat)
    (h : env.find? name = some ⟨n, ifs, .struct fs rs⟩) :
    dec env (k + 1) (.ref name) bz fnum bare bo depth =
      match decMaybeBare bz bare with
      | none => none
      | some (buf, pn) => (decFields env k fs buf 0 depth [] 0).map fun (vs, m) => (Val.struct vs, pn + m) := by
  unfold dec
  simp only [decPrim, h]
  rfl

theorem decMaybeBare_enc (buf rest : Bytes) (h : buf.length < 2 ^ 64) :
    decMaybeBare (encBytes buf ++ rest) false = some (buf, uvarintSize buf.length) := by
  simp [decMaybeBare, decBytes_encBytes buf rest h]

theorem encBytes_length (buf : Bytes) : (encBytes buf).length = uvarintSize buf.length + buf.length := by
  simp [encBytes, uvarintSize]

theorem fieldBytes_shape (num : Nat) (t : Typ3) (value : Bytes) (we : Bool) :
    fieldBytes num t value we = [] ∨ fieldBytes num t value we = encKey num t ++ value := by
  unfold fieldBytes
  split
  · exact Or.inl rfl
  · exact Or.inr rfl

/-- what one field contributes: nothing, or its key followed by the value. -/
theorem fieldEnc_shape {env : Env} {f : FieldD} {v : Val} {one : Bytes} (h : fieldEnc env f v = .ok one) :
    one = [] ∨ ∃ value, enc env f.td v 0 false false = .ok value ∧ one = encKey f.num (typ3 env f.td) ++ value := by
  unfold fieldEnc at h
  split at h
  · simp only [pure, Except.pure, Except.ok.injEq] at h
    exact Or.inl h.symm
  · cases henc : enc env f.td v 0 false false with
    | error e => rw [henc] at h; cases h
    | ok value =>
      rw [henc] at h
      simp only [bind, Except.bind, pure, Except.pure, Except.ok.injEq] at h
      rcases fieldBytes_shape f.num (typ3 env f.td) value _ with h0 | h1
      · rw [h0] at h; exact Or.inl h.symm
      · rw [h1] at h; exact Or.inr ⟨value, rfl, h.symm⟩

theorem fieldsSorted_weaken : ∀ (fs : List FieldD) (a b : Nat), a ≤ b → fieldsSorted b fs = true → fieldsSorted a fs = true
  | [], _, _, _, _ => rfl
  | f :: fs, a, b, hab, h => by
    simp only [fieldsSorted, Bool.and_eq_true, decide_eq_true_eq] at h ⊢
    exact ⟨⟨by omega, h.1.2⟩, h.2⟩

/-- the bytes of a field list are empty or start with the key of a later field. -/
theorem head_key (env : Env) : ∀ (vs : List Val) (d : Nat) (fs : List FieldD) (last : Nat) (bs : Bytes),
    wfFields env d fs vs = true → fieldsSorted last fs = true → encFields env fs vs = .ok bs → bs ≠ [] →
    ∃ num t kn, decKeyRaw bs = some (num, t, kn) ∧ last < num
  | [], d, fs, last, bs, hw, _, he, hne => by
    cases fs with
    | nil => simp [encFields, pure, Except.pure] at he; exact absurd he hne
    | cons f fs => simp [wfFields] at hw
  | v :: vs, d, fs, last, bs, hw, hs, he, hne => by
    cases fs with
    | nil => simp [wfFields] at hw
    | cons f fs =>
      have hnl := wf_field_not_list hw
      obtain ⟨_, _, _, hrest⟩ := wfFields_cons_inv hw
      simp only [fieldsSorted, Bool.and_eq_true, decide_eq_true_eq] at hs
      obtain ⟨⟨hlt, h29⟩, hs'⟩ := hs
      rw [encFields_cons env f fs v vs hnl] at he
      cases hone : fieldEnc env f v with
      | error e => rw [hone] at he; cases he
      | ok one =>
        cases hmore : encFields env fs vs with
        | error e => rw [hone, hmore] at he; cases he
        | ok more =>
          rw [hone, hmore] at he
          simp only [bind, Except.bind, pure, Except.pure, Except.ok.injEq] at he
          subst he
          rcases fieldEnc_shape hone with rfl | ⟨value, _, rfl⟩
          · simp only [List.nil_append] at hne ⊢
            obtain ⟨num, t, kn, hk, hl⟩ := head_key env vs d fs f.num more hrest hs' hmore hne
            exact ⟨num, t, kn, hk, by omega⟩
          · refine ⟨f.num, (typ3 env f.td).code, (encKey f.num (typ3 env f.td)).length, ?_, hlt⟩
            rw [List.append_assoc]
            exact decKeyRaw_encKey f.num _ (by omega) h29 _

theorem reverse_cons_append {α : Type} (a : α) (acc l : List α) : (a :: acc).reverse ++ l = acc.reverse ++ a :: l := by
  simp

end GnoVerif.C20

namespace GnoVerif.C20

/-- total number of struct fields of the environment (the `fields` term of `fuelFor`). -/
def sumFields (env : Env) : Nat :=
  env.foldl (fun a e => a + (match e.defn with | .struct fs _ => fs.length | .alias _ => 1)) 0

theorem foldl_add_eq (g : Entry → Nat) : ∀ (env : Env) (init : Nat),
    env.foldl (fun a e => a + g e) init = init + (env.map g).sum
  | [], init => by simp
  | e :: env, init => by
    simp only [List.foldl_cons, List.map_cons, List.sum_cons]
    rw [foldl_add_eq g env (init + g e)]
    omega

theorem le_sum_of_mem (g : Entry → Nat) : ∀ (env : Env) (e : Entry), e ∈ env → g e ≤ (env.map g).sum
  | [], e, h => by simp at h
  | x :: env, e, h => by
    simp only [List.mem_cons] at h
    simp only [List.map_cons, List.sum_cons]
    rcases h with rfl | h
    · omega
    · have := le_sum_of_mem g env e h
      omega

theorem fields_le_sum {env : Env} {name n : Bytes} {ifs : List Bytes} {fs : List FieldD} {rs : List Nat}
    (h : env.find? name = some ⟨n, ifs, .struct fs rs⟩) : fs.length ≤ sumFields env := by
  have hmem : (⟨n, ifs, .struct fs rs⟩ : Entry) ∈ env := List.mem_of_find?_eq_some h
  unfold sumFields
  rw [foldl_add_eq (fun e => match e.defn with | .struct fs _ => fs.length | .alias _ => 1) env 0]
  have := le_sum_of_mem (fun e => match e.defn with | .struct fs _ => fs.length | .alias _ => 1) env _ hmem
  simpa using this

/-- the decoder fuel the proofs ask for: `budget env len`, for a buffer of `len` bytes. -/
def budget (env : Env) (len : Nat) : Nat := (sumFields env + 2) * (len + 1)

theorem budget_mono (env : Env) {a b : Nat} (h : a ≤ b) : budget env a ≤ budget env b :=
  Nat.mul_le_mul_left _ (by omega)

theorem budget_step (env : Env) (a : Nat) : budget env a + (sumFields env + 2) = budget env (a + 1) := by
  unfold budget; ring

theorem budget_pos (env : Env) (a : Nat) : 2 ≤ budget env a := by
  unfold budget
  have : 1 ≤ a + 1 := by omega
  calc 2 ≤ (sumFields env + 2) * 1 := by omega
    _ ≤ (sumFields env + 2) * (a + 1) := Nat.mul_le_mul_left _ this

mutual
/-- value level: the non-bare encoding of a fragment value, followed by anything,
decodes back to the value and reports exactly the encoding's length. -/
theorem rt_val (env : Env) (hE : envOK env) : ∀ (v : Val) (d : Nat) (td : TD) (bs rest : Bytes) (k fnum depth : Nat),
    wf env d td v = true → d ≤ env.length + 4 → enc env td v fnum false false = .ok bs →
    bs.length < 2 ^ 64 → budget env bs.length ≤ k →
    dec env k td (bs ++ rest) fnum false false depth = some (v, bs.length)
  | .struct vs, d, td, bs, rest, k, fnum, depth, hw, hd, he, hlen, hk => by
    obtain ⟨name, n, ifs, fs, rs, d', rfl, hfind, rfl, hwf⟩ := wf_struct_inv hw
    rw [enc_struct env name n ifs fs rs vs fnum false false hfind] at he
    cases hbuf : encFields env fs vs with
    | error e => rw [hbuf] at he; cases he
    | ok buf =>
      rw [hbuf] at he
      simp only [bind, Except.bind, pure, Except.pure, Except.ok.injEq] at he
      rw [writeMaybeBare_false] at he
      subst he
      have hbl : buf.length < 2 ^ 64 := by
        rw [encBytes_length] at hlen; omega
      have hF := fields_le_sum hfind
      have hsz : 1 ≤ uvarintSize buf.length := encUvarint_length_pos _
      have hb1 := budget_step env buf.length
      have hb2 : budget env (buf.length + 1) ≤ budget env (encBytes buf).length :=
        budget_mono env (by rw [encBytes_length]; omega)
      cases k with
      | zero => have := budget_pos env (encBytes buf).length; omega
      | succ k' =>
        rw [dec_ref env k' name n ifs fs rs _ fnum false false depth hfind]
        rw [decMaybeBare_enc buf rest hbl]
        have hs : fieldsSorted 0 fs = true := by
          have := hE name _ hfind
          simpa using this
        have := rt_fields env hE vs d' fs buf k' depth 0 [] 0 hwf (by omega) hs hbuf hbl (by omega)
        simp only [this, Option.map]
        simp [encBytes_length]
  | .u x, d, td, bs, rest, k, fnum, depth, hw, _, he, _, hk => by
    have hv : isPrimVal (.u x) = true := rfl
    rw [wf_primVal hv] at hw
    rw [enc_primVal hv] at he
    obtain ⟨bs', hbs', _, hdec⟩ := prim_roundtrip td _ hw
    rw [hbs'] at he; simp at he; subst he
    cases k with
    | zero => have := budget_pos env bs'.length; omega
    | succ k' => exact dec_prim env k' td _ fnum false false depth _ (hdec rest)
  | .i x, d, td, bs, rest, k, fnum, depth, hw, _, he, _, hk => by
    have hv : isPrimVal (.i x) = true := rfl
    rw [wf_primVal hv] at hw
    rw [enc_primVal hv] at he
    obtain ⟨bs', hbs', _, hdec⟩ := prim_roundtrip td _ hw
    rw [hbs'] at he; simp at he; subst he
    cases k with
    | zero => have := budget_pos env bs'.length; omega
    | succ k' => exact dec_prim env k' td _ fnum false false depth _ (hdec rest)
  | .b x, d, td, bs, rest, k, fnum, depth, hw, _, he, _, hk => by
    have hv : isPrimVal (.b x) = true := rfl
    rw [wf_primVal hv] at hw
    rw [enc_primVal hv] at he
    obtain ⟨bs', hbs', _, hdec⟩ := prim_roundtrip td _ hw
    rw [hbs'] at he; simp at he; subst he
    cases k with
    | zero => have := budget_pos env bs'.length; omega
    | succ k' => exact dec_prim env k' td _ fnum false false depth _ (hdec rest)
  | .x x, d, td, bs, rest, k, fnum, depth, hw, _, he, _, hk => by
    have hv : isPrimVal (.x x) = true := rfl
    rw [wf_primVal hv] at hw
    rw [enc_primVal hv] at he
    obtain ⟨bs', hbs', _, hdec⟩ := prim_roundtrip td _ hw
    rw [hbs'] at he; simp at he; subst he
    cases k with
    | zero => have := budget_pos env bs'.length; omega
    | succ k' => exact dec_prim env k' td _ fnum false false depth _ (hdec rest)
  | .t _ _, _, _, _, _, _, _, _, hw, _, _, _, _ => by simp [wf] at hw
  | .d _, _, _, _, _, _, _, _, hw, _, _, _, _ => by simp [wf] at hw
  | .nil, _, _, _, _, _, _, _, hw, _, _, _, _ => by simp [wf] at hw
  | .list _, _, _, _, _, _, _, _, hw, _, _, _, _ => by simp [wf] at hw
  | .any _ _, _, _, _, _, _, _, _, hw, _, _, _, _ => by simp [wf] at hw
  | .m _ _, _, _, _, _, _, _, _, hw, _, _, _, _ => by simp [wf] at hw

/-- field loop: the concatenated field encodings decode back to the field values. -/
theorem rt_fields (env : Env) (hE : envOK env) : ∀ (vs : List Val) (d : Nat) (fs : List FieldD) (bs : Bytes)
    (k depth last : Nat) (acc : List Val) (n : Nat),
    wfFields env d fs vs = true → d ≤ env.length + 4 → fieldsSorted last fs = true →
    encFields env fs vs = .ok bs → bs.length < 2 ^ 64 → fs.length + 1 + budget env bs.length ≤ k →
    decFields env k fs bs last depth acc n = some (acc.reverse ++ vs, n + bs.length)
  | [], d, fs, bs, k, depth, last, acc, n, hw, _, _, he, _, hk => by
    cases fs with
    | cons f fs => simp [wfFields] at hw
    | nil =>
      simp [encFields, pure, Except.pure] at he
      subst he
      cases k with
      | zero => simp at hk
      | succ k' => simp [decFields]
  | v :: vs, d, fs, bs, k, depth, last, acc, n, hw, hd, hs, he, hlen, hk => by
    cases fs with
    | nil => simp [wfFields] at hw
    | cons f fs =>
      have hnl := wf_field_not_list hw
      obtain ⟨hwe, hp, hnp, hrest⟩ := wfFields_cons_inv hw
      have hs0 := hs
      simp only [fieldsSorted, Bool.and_eq_true, decide_eq_true_eq] at hs
      obtain ⟨⟨hlt, h29⟩, hs'⟩ := hs
      rw [encFields_cons env f fs v vs hnl] at he
      cases hone : fieldEnc env f v with
      | error e => rw [hone] at he; cases he
      | ok one =>
        cases hmore : encFields env fs vs with
        | error e => rw [hone, hmore] at he; cases he
        | ok more =>
          rw [hone, hmore] at he
          simp only [bind, Except.bind, pure, Except.pure, Except.ok.injEq] at he
          subst he
          simp only [List.length_append] at hlen
          simp only [List.length_cons] at hk
          cases k with
          | zero => omega
          | succ k' =>
            rcases fieldEnc_shape hone with rfl | ⟨value, henc, rfl⟩
            · -- the field is omitted: the decoder supplies its default
              have hz := omitted_field_zero env d f fs v vs hw hone (env.length + 4) hd
              have hdf := defaultSlot_eq_zeroSlot env d f fs v vs hw
              have hdv : defaultSlot env f.ptr f.td = v := by rw [hdf, ← hz]
              simp only [List.nil_append, List.length_nil, Nat.zero_add] at hk ⊢
              have ih := rt_fields env hE vs d fs more k' depth last (v :: acc) n hrest hd
                (fieldsSorted_weaken fs last f.num (by omega) hs') hmore (by omega) (by omega)
              rw [reverse_cons_append] at ih
              by_cases hemp : more = []
              · subst hemp
                simp only [decFields, List.isEmpty_nil, if_true, hdv]
                exact ih
              · obtain ⟨num, t, kn, hkey, hnum⟩ := head_key env vs d fs f.num more hrest hs' hmore hemp
                have hne : more.isEmpty = false := by
                  cases more with
                  | nil => exact absurd rfl hemp
                  | cons _ _ => rfl
                simp only [decFields, hne, Bool.false_eq_true, if_false, hnl, hkey, hnum, if_true, hdv]
                exact ih
            · -- the field is present: key, value, then the remaining fields
              have hkey := decKeyRaw_encKey f.num (typ3 env f.td) (by omega) h29 (value ++ more)
              have hkpos : 1 ≤ (encKey f.num (typ3 env f.td)).length := encUvarint_length_pos _
              have hne : (encKey f.num (typ3 env f.td) ++ value ++ more).isEmpty = false := by
                have := encKey_ne_nil f.num (typ3 env f.td)
                cases hk' : encKey f.num (typ3 env f.td) with
                | nil => exact absurd hk' this
                | cons _ _ => rfl
              -- the value is wf (a present pointer field is non-nil)
              have hwv : wf env d f.td v = true := by
                cases hptr : f.ptr
                · exact (hnp hptr).2
                · rcases (hp hptr).2.2 with rfl | h
                  · exfalso
                    have h0 : fieldEnc env f Val.nil = .ok [] := by
                      simp [fieldEnc, hwe, isDefault, isDefaultVal, pure, Except.pure]
                    rw [h0] at hone
                    simp only [Except.ok.injEq] at hone
                    have := encKey_ne_nil f.num (typ3 env f.td)
                    cases hk' : encKey f.num (typ3 env f.td) with
                    | nil => exact this hk'
                    | cons _ _ => rw [hk'] at hone; simp at hone
                  · exact h
              simp only [List.length_append] at hlen hk
              have hbv : budget env value.length ≤
                  budget env ((encKey f.num (typ3 env f.td)).length + value.length + more.length) :=
                budget_mono env (by omega)
              have hbm : budget env more.length ≤
                  budget env ((encKey f.num (typ3 env f.td)).length + value.length + more.length) :=
                budget_mono env (by omega)
              have hval := rt_val env hE v d f.td value more k' 0 depth hwv hd henc (by omega) (by omega)
              have ih := rt_fields env hE vs d fs more k' depth f.num (v :: acc)
                (n + (encKey f.num (typ3 env f.td)).length + value.length) hrest hd hs' hmore (by omega) (by omega)
              rw [reverse_cons_append] at ih
              rw [List.append_assoc] at hne ⊢
              simp only [decFields, hne, Bool.false_eq_true, if_false, hnl, hkey, Nat.lt_irrefl, if_false]
              have hlast : ¬ f.num ≤ last := by omega
              simp only [hlast, if_false, ne_eq, not_true_eq_false, List.drop_left', hval]
              simp only [List.drop_append_of_le_length, List.length_append]
              have hdrop : List.drop ((encKey f.num (typ3 env f.td)).length + value.length)
                  (encKey f.num (typ3 env f.td) ++ (value ++ more)) = more := by
                rw [← List.append_assoc, ← List.length_append, List.drop_left]
              rw [hdrop, ih]
              congr 2
              omega
end

end GnoVerif.C20
