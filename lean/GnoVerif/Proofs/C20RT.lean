import GnoVerif.Proofs.C20Any
/-! The round trip of the reflection codec model on the proved fragment (C20). -/
namespace GnoVerif.C20

theorem writeMaybeBare_false (buf : Bytes) : writeMaybeBare buf false = encBytes buf := by
  unfold writeMaybeBare
  cases buf with
  | nil => simp [encBytes, encUvarint_small]
  | cons b t => simp

theorem dec_prim (env : Env) (k : Nat) (td : TD) (bz : Bytes) (fnum : Nat) (bare bo : Bool) (depth : Nat)
    (r : Option (Val × Nat)) (h : decPrim td bz bo = some r) :
    dec env (k + 1) td bz fnum bare bo depth = r := by
  unfold dec
  simp only [h]

theorem dec_prim' (env : Env) (k : Nat) (hk : 1 ≤ k) (td : TD) (bz : Bytes) (fnum : Nat) (bare bo : Bool) (depth : Nat)
    (r : Option (Val × Nat)) (h : decPrim td bz bo = some r) :
    dec env k td bz fnum bare bo depth = r := by
  cases k with
  | zero => omega
  | succ k' => exact dec_prim env k' td bz fnum bare bo depth r h

theorem dec_ref (env : Env) (k : Nat) (name n : Bytes) (ifs : List Bytes) (fs : List FieldD) (rs : List Nat)
    (bz : Bytes) (fnum : Nat) (bare bo : Bool) (depth : Nat)
    (h : env.find? name = some ⟨n, ifs, .struct fs rs⟩) :
    dec env (k + 1) (.ref name) bz fnum bare bo depth =
      match decMaybeBare bz bare with
      | none => none
      | some (buf, pn) => (decFields env k fs buf 0 depth [] 0).map fun (vs, m) => (Val.struct vs, pn + m) := by
  unfold dec
  simp only [decPrim, h]
  rfl

theorem decMaybeBare_enc (buf rest : Bytes) (h : buf.length < 2 ^ 64) :
    decMaybeBare (encBytes buf ++ rest) false = some (buf, uvarintSize buf.length) := by
  simp [decMaybeBare, decBytes_encBytes buf rest h]

theorem encBytes_length (buf : Bytes) : (encBytes buf).length = uvarintSize buf.length + buf.length := by
  simp [encBytes, uvarintSize]

theorem fieldBytes_shape (num : Nat) (t : Typ3) (value : Bytes) (we : Bool) :
    fieldBytes num t value we = [] ∨ fieldBytes num t value we = encKey num t ++ value := by
  unfold fieldBytes
  split
  · exact Or.inl rfl
  · exact Or.inr rfl

/-- what one field contributes: nothing, or its key followed by the value. -/
theorem fieldEnc_shape {env : Env} {f : FieldD} {v : Val} {one : Bytes} (h : fieldEnc env f v = .ok one) :
    one = [] ∨ ∃ value, enc env f.td v 0 false false = .ok value ∧ one = encKey f.num (typ3 env f.td) ++ value := by
  unfold fieldEnc at h
  split at h
  · simp only [pure, Except.pure, Except.ok.injEq] at h
    exact Or.inl h.symm
  · cases henc : enc env f.td v 0 false false with
    | error e => rw [henc] at h; cases h
    | ok value =>
      rw [henc] at h
      simp only [bind, Except.bind, pure, Except.pure, Except.ok.injEq] at h
      rcases fieldBytes_shape f.num (typ3 env f.td) value _ with h0 | h1
      · rw [h0] at h; exact Or.inl h.symm
      · rw [h1] at h; exact Or.inr ⟨value, rfl, h.symm⟩

theorem fieldsSorted_weaken : ∀ (fs : List FieldD) (a b : Nat), a ≤ b → fieldsSorted b fs = true → fieldsSorted a fs = true
  | [], _, _, _, _ => rfl
  | f :: fs, a, b, hab, h => by
    simp only [fieldsSorted, Bool.and_eq_true, decide_eq_true_eq] at h ⊢
    exact ⟨⟨by omega, h.1.2⟩, h.2⟩

/-- an unpacked-list field contributes nothing or bytes starting with its key. -/
theorem listFieldEnc_shape {env : Env} {d : Nat} {f : FieldD} {fs : List FieldD} {v : Val} {vs : List Val}
    {one : Bytes} (hw : wfFields env d (f :: fs) (v :: vs) = true) (hK : isUnpackedList env f.td = true)
    (h : listFieldEnc env f v = .ok one) : one = [] ∨ ∃ rest, one = encKey f.num .blen ++ rest := by
  obtain ⟨hptr, ptr, e, es, htd, rfl, hok, hel, ht3⟩ := wf_list_field hw hK
  unfold listFieldEnc at h
  split at h
  · simp only [pure, Except.pure, Except.ok.injEq] at h
    exact Or.inl h.symm
  · simp only [htd] at h
    cases es with
    | nil =>
      rw [encUnpacked_nil] at h
      simp only [Except.ok.injEq] at h
      exact Or.inl h.symm
    | cons x xs => exact Or.inr (encUnpacked_ne_nil h)

/-- the bytes of a field list are empty or start with the key of a later field. -/
theorem head_key (env : Env) : ∀ (vs : List Val) (d : Nat) (fs : List FieldD) (last : Nat) (bs : Bytes),
    wfFields env d fs vs = true → fieldsSorted last fs = true → encFields env fs vs = .ok bs → bs ≠ [] →
    ∃ num t kn, decKeyRaw bs = some (num, t, kn) ∧ last < num
  | [], d, fs, last, bs, hw, _, he, hne => by
    cases fs with
    | nil => simp [encFields, pure, Except.pure] at he; exact absurd he hne
    | cons f fs => simp [wfFields] at hw
  | v :: vs, d, fs, last, bs, hw, hs, he, hne => by
    cases fs with
    | nil => simp [wfFields] at hw
    | cons f fs =>
      obtain ⟨_, _, _, hrest⟩ := wfFields_cons_inv hw
      simp only [fieldsSorted, Bool.and_eq_true, decide_eq_true_eq] at hs
      obtain ⟨⟨hlt, h29⟩, hs'⟩ := hs
      cases hK : isUnpackedList env f.td
      · rw [encFields_cons env f fs v vs hK] at he
        cases hone : fieldEnc env f v with
        | error e => rw [hone] at he; cases he
        | ok one =>
          cases hmore : encFields env fs vs with
          | error e => rw [hone, hmore] at he; cases he
          | ok more =>
            rw [hone, hmore] at he
            simp only [bind, Except.bind, pure, Except.pure, Except.ok.injEq] at he
            subst he
            rcases fieldEnc_shape hone with rfl | ⟨value, _, rfl⟩
            · simp only [List.nil_append] at hne ⊢
              obtain ⟨num, t, kn, hk, hl⟩ := head_key env vs d fs f.num more hrest hs' hmore hne
              exact ⟨num, t, kn, hk, by omega⟩
            · refine ⟨f.num, (typ3 env f.td).code, (encKey f.num (typ3 env f.td)).length, ?_, hlt⟩
              rw [List.append_assoc]
              exact decKeyRaw_encKey f.num _ (by omega) h29 _
      · rw [encFields_cons_list env f fs v vs hK] at he
        cases hone : listFieldEnc env f v with
        | error e => rw [hone] at he; cases he
        | ok one =>
          cases hmore : encFields env fs vs with
          | error e => rw [hone, hmore] at he; cases he
          | ok more =>
            rw [hone, hmore] at he
            simp only [bind, Except.bind, pure, Except.pure, Except.ok.injEq] at he
            subst he
            rcases listFieldEnc_shape hw hK hone with rfl | ⟨rest, rfl⟩
            · simp only [List.nil_append] at hne ⊢
              obtain ⟨num, t, kn, hk, hl⟩ := head_key env vs d fs f.num more hrest hs' hmore hne
              exact ⟨num, t, kn, hk, by omega⟩
            · refine ⟨f.num, Typ3.blen.code, (encKey f.num .blen).length, ?_, hlt⟩
              rw [List.append_assoc]
              exact decKeyRaw_encKey f.num _ (by omega) h29 _

theorem reverse_cons_append {α : Type} (a : α) (acc l : List α) : (a :: acc).reverse ++ l = acc.reverse ++ a :: l := by
  simp

end GnoVerif.C20

namespace GnoVerif.C20

/-- total number of struct fields of the environment (the `fields` term of `fuelFor`). -/
def sumFields (env : Env) : Nat :=
  env.foldl (fun a e => a + (match e.defn with | .struct fs _ => fs.length | .alias _ => 1)) 0

theorem foldl_add_eq (g : Entry → Nat) : ∀ (env : Env) (init : Nat),
    env.foldl (fun a e => a + g e) init = init + (env.map g).sum
  | [], init => by simp
  | e :: env, init => by
    simp only [List.foldl_cons, List.map_cons, List.sum_cons]
    rw [foldl_add_eq g env (init + g e)]
    omega

theorem le_sum_of_mem (g : Entry → Nat) : ∀ (env : Env) (e : Entry), e ∈ env → g e ≤ (env.map g).sum
  | [], e, h => by simp at h
  | x :: env, e, h => by
    simp only [List.mem_cons] at h
    simp only [List.map_cons, List.sum_cons]
    rcases h with rfl | h
    · omega
    · have := le_sum_of_mem g env e h
      omega

theorem fields_le_sum {env : Env} {name n : Bytes} {ifs : List Bytes} {fs : List FieldD} {rs : List Nat}
    (h : env.find? name = some ⟨n, ifs, .struct fs rs⟩) : fs.length ≤ sumFields env := by
  have hmem : (⟨n, ifs, .struct fs rs⟩ : Entry) ∈ env := List.mem_of_find?_eq_some h
  unfold sumFields
  rw [foldl_add_eq (fun e => match e.defn with | .struct fs _ => fs.length | .alias _ => 1) env 0]
  have := le_sum_of_mem (fun e => match e.defn with | .struct fs _ => fs.length | .alias _ => 1) env _ hmem
  simpa using this

/-- the decoder fuel the proofs ask for: `budget env len`, for a buffer of `len` bytes. -/
def budget (env : Env) (len : Nat) : Nat := (sumFields env + 2) * (len + 1)

theorem budget_mono (env : Env) {a b : Nat} (h : a ≤ b) : budget env a ≤ budget env b :=
  Nat.mul_le_mul_left _ (by omega)

theorem budget_step (env : Env) (a : Nat) : budget env a + (sumFields env + 2) = budget env (a + 1) := by
  unfold budget; ring

theorem budget_pos (env : Env) (a : Nat) : 2 ≤ budget env a := by
  unfold budget
  have : 1 ≤ a + 1 := by omega
  calc 2 ≤ (sumFields env + 2) * 1 := by omega
    _ ≤ (sumFields env + 2) * (a + 1) := Nat.mul_le_mul_left _ this

/-! ### lists -/

theorem dec_list (env : Env) (k : Nat) (ptr ne : Bool) (e : TD) (bz : Bytes) (fnum : Nat) (bare bo : Bool) (depth : Nat) :
    dec env (k + 1) (.list ptr ne e) bz fnum bare bo depth =
      match decMaybeBare bz bare with
      | none => none
      | some (buf, pn) =>
        if (typ3 env e != .blen || isByteElem env e) = true then
          (decPacked env k e buf (isByteElem env e) depth [] 0).map fun (vs, m) => (Val.list vs, pn + m)
        else
          (decUnpacked env k e ptr ne (writeImplicit env e) fnum buf depth [] 0).map
            fun (vs, m) => (Val.list vs, pn + m) := by
  unfold dec
  simp only [decPrim]
  rfl

/-- packed list body: primitives decode one after the other until the payload ends. -/
theorem rt_packed (env : Env) (d : Nat) (e : TD) (he : isPrimTD e = true) : ∀ (vs : List Val) (body : Bytes)
    (k depth : Nat) (acc : List Val) (n : Nat),
    wfElems env d e vs = true → encPacked env e vs false = .ok body → body.length + 2 ≤ k →
    decPacked env k e body false depth acc n = some (acc.reverse ++ vs, n + body.length)
  | [], body, k, depth, acc, n, _, henc, hk => by
    rw [encPacked_nil] at henc
    simp only [Except.ok.injEq] at henc
    subst henc
    cases k with
    | zero => omega
    | succ k' => simp [decPacked]
  | v :: vs, body, k, depth, acc, n, hw, henc, hk => by
    obtain ⟨hpv, hprim⟩ := wfElems_prim he hw v (by simp)
    rw [wfElems_cons] at hw
    rw [encPacked_cons_prim env e v vs hpv] at henc
    obtain ⟨bs', hbs', hne, hdec⟩ := prim_roundtrip e v hprim
    rw [hbs'] at henc
    cases h2 : encPacked env e vs false with
    | error x => rw [h2] at henc; simp [bind, Except.bind] at henc
    | ok more =>
      rw [h2] at henc
      simp only [Option.getD_some, bind, Except.bind, pure, Except.pure, Except.ok.injEq] at henc
      subst henc
      have hpos : 0 < bs'.length := List.length_pos_iff.mpr hne
      simp only [List.length_append] at hk
      cases k with
      | zero => omega
      | succ k' =>
        have hemp : (bs' ++ more).isEmpty = false := by
          cases bs' with
          | nil => exact absurd rfl hne
          | cons _ _ => rfl
        have hd := dec_prim' env k' (by omega) e (bs' ++ more) 0 false false depth _ (hdec more)
        have ih := rt_packed env d e he vs more k' depth (v :: acc) (n + bs'.length) hw.2 h2 (by omega)
        rw [reverse_cons_append] at ih
        simp only [decPacked, hemp, Bool.false_eq_true, if_false, hd]
        have hvn : ¬ bs'.length = 0 := by omega
        simp only [hvn, if_false, List.drop_left, ih, List.length_append]
        congr 2
        omega

/-- every ByteLength element encoding of the fragment is a length-prefixed string. -/
theorem blElem_enc_is_bytes {env : Env} {d : Nat} {ptr : Bool} {e : TD} {v : Val} {one : Bytes}
    (hok : listElemOK env ptr e = true) (ht3 : typ3 env e = .blen) (hwv : wf env d e v = true)
    (henc : enc env e v 1 false false = .ok one) : ∃ X, one = encBytes X := by
  rcases wf_cases hwv with ⟨hpv, hprim⟩ | ⟨vs', rfl⟩ | ⟨es, rfl⟩ | ⟨rfl, id, rfl⟩ | ⟨nm, cv, id, rfl, rfl⟩
  · rw [enc_primVal hpv] at henc
    cases e <;> cases v <;> simp only [primOK, Bool.false_eq_true] at hprim
    all_goals first
      | (simp [typ3, typ3Of] at ht3; done)
      | (simp only [encPrim] at henc
         first
           | (simp at henc; exact ⟨_, henc.symm⟩)
           | (split at henc <;> simp at henc; exact ⟨_, henc.symm⟩))
  · obtain ⟨name, n, ifs, fs, rs, d', rfl, hfind, _, _⟩ := wf_struct_inv hwv
    rw [enc_struct env name n ifs fs rs vs' 1 false false hfind] at henc
    cases hbuf : encFields env fs vs' with
    | error x => rw [hbuf] at henc; cases henc
    | ok buf =>
      rw [hbuf] at henc
      simp only [bind, Except.bind, pure, Except.pure, Except.ok.injEq, writeMaybeBare_false] at henc
      exact ⟨buf, henc.symm⟩
  · obtain ⟨ptr', e', htd, _, _⟩ := wf_list_inv hwv
    unfold listElemOK at hok
    rw [htd] at hok
    simp [isPackedElem, isBLElemPrim, isRefTD, isIfaceTD] at hok
  · simp only [enc, pure, Except.pure, Except.ok.injEq, writeMaybeBare_false] at henc
    exact ⟨[], henc.symm⟩
  · obtain ⟨_, n, ifs, fs, rs, _, hfind, _, _, _⟩ := wf_any_inv hwv
    rw [enc_any env id nm n ifs fs rs cv 1 false false hfind] at henc
    cases h2 : enc env (.ref nm) cv 1 true false with
    | error x => rw [h2] at henc; cases henc
    | ok buf2 =>
      rw [h2] at henc
      simp only [bind, Except.bind, pure, Except.pure, Except.ok.injEq, writeMaybeBare_false] at henc
      exact ⟨_, henc.symm⟩

/-- the next field's key (or the end) stops an unpacked list. -/
def stopsList (fnum : Nat) (more : Bytes) : Prop :=
  more = [] ∨ ∃ num t kn, decKeyRaw more = some (num, t, kn) ∧ fnum < num

theorem decUnpacked_stop (env : Env) (k : Nat) (e : TD) (ptr ne impl : Bool) (fnum : Nat) (more : Bytes)
    (depth : Nat) (acc : List Val) (n : Nat) (h : stopsList fnum more) :
    decUnpacked env (k + 1) e ptr ne impl fnum more depth acc n = some (acc.reverse, n) := by
  rcases h with rfl | ⟨num, t, kn, hkey, hlt⟩
  · simp [decUnpacked]
  · have hne : more.isEmpty = false := by
      cases more with
      | nil => simp [decKeyRaw, decUvarint, decUvarintAux] at hkey
      | cons _ _ => rfl
    simp [decUnpacked, hne, hkey, hlt]

/-- the list element descriptors: ByteLength typ3, never raw bytes, never implicit. -/
theorem listElem_unpacked_facts {env : Env} {ptr : Bool} {e : TD} (hok : listElemOK env ptr e = true)
    (ht3 : typ3 env e = .blen) :
    isByteElem env e = false ∧ writeImplicit env e = false ∧
      ((ptr = false ∧ isStructKind env e = false ∧ (isBLElemPrim e = true ∨ isIfaceTD e = true)) ∨
       (isRefTD e = true ∧ isStructKind env e = true)) := by
  unfold listElemOK at hok
  simp only [Bool.or_eq_true, Bool.and_eq_true, Bool.not_eq_true'] at hok
  rcases hok with ⟨(hpe | hble) | hif, hptr⟩ | ⟨hr, hs⟩
  · obtain ⟨_, hne, _⟩ := packedElem_facts (env := env) hpe
    simp [ht3] at hne
  · obtain ⟨_, _, hbe, hwi, hsk⟩ := blElem_facts (env := env) hble
    exact ⟨hbe, hwi, Or.inl ⟨hptr, hsk, Or.inl hble⟩⟩
  · cases hte : e <;> simp [hte, isIfaceTD] at hif
    rename_i id
    obtain ⟨_, hbe, hwi, hsk, _⟩ := ifaceElem_facts env id
    exact ⟨hbe, hwi, Or.inl ⟨hptr, hsk, Or.inr rfl⟩⟩
  · cases hte : e <;> simp [hte, isRefTD] at hr
    rename_i name
    rw [hte] at hs
    have hs' := hs
    simp only [isStructKind, Option.isNone_iff_eq_none] at hs'
    obtain ⟨_, hbe, hwi⟩ := refElem_facts hs'
    exact ⟨hbe, hwi, Or.inr ⟨rfl, hs⟩⟩

theorem writeMaybeBare_true' (buf : Bytes) : writeMaybeBare buf true = buf := by
  unfold writeMaybeBare
  cases buf <;> simp

theorem enc_nil (env : Env) (id : Bytes) (fnum : Nat) (bare bo : Bool) :
    enc env (.iface id) .nil fnum bare bo = .ok (writeMaybeBare [] bare) := by
  simp only [enc, pure, Except.pure]

theorem dec_iface (env : Env) (k : Nat) (id : Bytes) (bz : Bytes) (fnum : Nat) (bare bo : Bool) (depth : Nat) :
    dec env (k + 1) (.iface id) bz fnum bare bo depth = decIface env k id bz bare (depth + 1) := by
  unfold dec
  simp only [decPrim]

/-- a struct's field bytes are never the single byte 0x00. -/
theorem encFields_ne_zero {env : Env} {d : Nat} {fs : List FieldD} {vs : List Val} {buf : Bytes}
    (hw : wfFields env d fs vs = true) (hs : fieldsSorted 0 fs = true) (h : encFields env fs vs = .ok buf) :
    buf ≠ [0] := by
  intro hb
  subst hb
  obtain ⟨num, t, kn, hk, _⟩ := head_key env vs d fs 0 [0] hw hs h (by simp)
  simp [decKeyRaw, decUvarint, decUvarintAux] at hk

set_option maxHeartbeats 1600000 in
mutual
/-- value level: the non-bare encoding of a fragment value, followed by anything,
decodes back to the value and reports exactly the encoding's length. -/
theorem rt_val (env : Env) (hE : envOK env) : ∀ (v : Val) (d : Nat) (td : TD) (bs rest : Bytes) (k fnum depth : Nat),
    wf env d td v = true → (d ≤ env.length + 4 ∧ depth + d ≤ maxAnyDepth) → enc env td v fnum false false = .ok bs →
    bs.length < 2 ^ 64 → 0 < fnum → fnum < 2 ^ 29 → budget env bs.length ≤ k →
    dec env k td (bs ++ rest) fnum false false depth = some (v, bs.length)
  | .struct vs, d, td, bs, rest, k, fnum, depth, hw, hd, he, hlen, _, _, hk => by
    obtain ⟨name, n, ifs, fs, rs, d', rfl, hfind, rfl, hwf⟩ := wf_struct_inv hw
    rw [enc_struct env name n ifs fs rs vs fnum false false hfind] at he
    cases hbuf : encFields env fs vs with
    | error e => rw [hbuf] at he; cases he
    | ok buf =>
      rw [hbuf] at he
      simp only [bind, Except.bind, pure, Except.pure, Except.ok.injEq] at he
      rw [writeMaybeBare_false] at he
      subst he
      have hbl : buf.length < 2 ^ 64 := by
        rw [encBytes_length] at hlen; omega
      have hF := fields_le_sum hfind
      have hsz : 1 ≤ uvarintSize buf.length := encUvarint_length_pos _
      have hb1 := budget_step env buf.length
      have hb2 : budget env (buf.length + 1) ≤ budget env (encBytes buf).length :=
        budget_mono env (by rw [encBytes_length]; omega)
      cases k with
      | zero => have := budget_pos env (encBytes buf).length; omega
      | succ k' =>
        rw [dec_ref env k' name n ifs fs rs _ fnum false false depth hfind]
        rw [decMaybeBare_enc buf rest hbl]
        have hs : fieldsSorted 0 fs = true := by
          have := hE name _ hfind
          simpa using this
        have := rt_fields env hE vs d' fs buf k' depth 0 [] 0 hwf ⟨by omega, by omega⟩ hs hbuf hbl (by omega)
        simp only [this, Option.map]
        simp [encBytes_length]
  | .list vs, d, td, bs, rest, k, fnum, depth, hw, hd, he, hlen, hf0, hf29, hk => by
    obtain ⟨ptr, e, rfl, hok, hel⟩ := wf_list_inv hw
    rw [enc_list] at he
    split at he
    · -- packed
      rename_i hpk
      cases h1 : encPacked env e vs (isByteElem env e) with
      | error x => rw [h1] at he; cases he
      | ok body =>
        rw [h1] at he
        simp only [bind, Except.bind, pure, Except.pure, Except.ok.injEq, writeMaybeBare_false] at he
        subst he
        have hbl : body.length < 2 ^ 64 := by rw [encBytes_length] at hlen; omega
        -- the element descriptor is a packed primitive
        have hpe : isPackedElem e = true := by
          unfold listElemOK at hok
          simp only [Bool.or_eq_true, Bool.and_eq_true, Bool.not_eq_true'] at hok
          rcases hok with ⟨(hpe | hble) | hif, _⟩ | ⟨hr, hs⟩
          · exact hpe
          · obtain ⟨_, ht3, hbe, _⟩ := blElem_facts (env := env) hble
            simp [ht3, hbe] at hpk
          · cases hte : e <;> simp [hte, isIfaceTD] at hif
            rename_i id
            rw [hte] at hpk
            simp [(ifaceElem_facts env id).1, (ifaceElem_facts env id).2.1] at hpk
          · cases hte : e <;> simp [hte, isRefTD] at hr
            rename_i name
            rw [hte] at hs
            simp only [isStructKind, Option.isNone_iff_eq_none] at hs
            obtain ⟨ht3, hbe, _⟩ := refElem_facts hs
            rw [hte] at hpk
            simp [ht3, hbe] at hpk
        obtain ⟨hprim, _, hbe⟩ := packedElem_facts (env := env) hpe
        rw [hbe] at h1
        have hsz : 1 ≤ uvarintSize body.length := encUvarint_length_pos _
        have hbud : body.length + 3 ≤ budget env (encBytes body).length := by
          have h2 : 2 * ((encBytes body).length + 1) ≤ budget env (encBytes body).length := by
            unfold budget
            exact Nat.mul_le_mul_right _ (by omega)
          rw [encBytes_length] at h2 ⊢
          omega
        cases k with
        | zero => have := budget_pos env (encBytes body).length; omega
        | succ k' =>
          rw [dec_list, decMaybeBare_enc body rest hbl]
          simp only [hpk, if_true]
          rw [hbe]
          have := rt_packed env d e hprim vs body k' depth [] 0 hel h1 (by omega)
          simp only [this, Option.map]
          simp [encBytes_length]
    · -- unpacked (only reachable for a list nested as a value; same loop as the field case)
      rename_i hpk
      have ht3 : typ3 env e = .blen := by
        simp only [Bool.or_eq_true, bne_iff_ne, ne_eq, not_or, Decidable.not_not] at hpk
        exact hpk.1
      cases h1 : encUnpacked env e ptr false (writeImplicit env e) fnum vs with
      | error x => rw [h1] at he; cases he
      | ok body =>
        rw [h1] at he
        simp only [bind, Except.bind, pure, Except.pure, Except.ok.injEq, writeMaybeBare_false] at he
        subst he
        have hbl : body.length < 2 ^ 64 := by rw [encBytes_length] at hlen; omega
        have hsz : 1 ≤ uvarintSize body.length := encUvarint_length_pos _
        have hb1 := budget_step env body.length
        have hb2 : budget env (body.length + 1) ≤ budget env (encBytes body).length :=
          budget_mono env (by rw [encBytes_length]; omega)
        cases k with
        | zero => have := budget_pos env (encBytes body).length; omega
        | succ k' =>
          rw [dec_list, decMaybeBare_enc body rest hbl]
          simp only [hpk, Bool.false_eq_true, if_false]
          have := rt_unpacked env hE vs d e ptr fnum body [] k' depth [] 0 hok ht3 hel hd h1
            (Or.inl rfl) hf0 hf29 hbl (by omega)
          simp only [List.append_nil] at this
          simp only [this, Option.map]
          simp [encBytes_length]
  | .u x, d, td, bs, rest, k, fnum, depth, hw, _, he, _, _, _, hk => by
    have hv : isPrimVal (.u x) = true := rfl
    rw [wf_primVal hv] at hw
    rw [enc_primVal hv] at he
    obtain ⟨bs', hbs', _, hdec⟩ := prim_roundtrip td _ hw
    rw [hbs'] at he; simp at he; subst he
    exact dec_prim' env k (by have := budget_pos env bs'.length; omega) td _ fnum false false depth _ (hdec rest)
  | .i x, d, td, bs, rest, k, fnum, depth, hw, _, he, _, _, _, hk => by
    have hv : isPrimVal (.i x) = true := rfl
    rw [wf_primVal hv] at hw
    rw [enc_primVal hv] at he
    obtain ⟨bs', hbs', _, hdec⟩ := prim_roundtrip td _ hw
    rw [hbs'] at he; simp at he; subst he
    exact dec_prim' env k (by have := budget_pos env bs'.length; omega) td _ fnum false false depth _ (hdec rest)
  | .b x, d, td, bs, rest, k, fnum, depth, hw, _, he, _, _, _, hk => by
    have hv : isPrimVal (.b x) = true := rfl
    rw [wf_primVal hv] at hw
    rw [enc_primVal hv] at he
    obtain ⟨bs', hbs', _, hdec⟩ := prim_roundtrip td _ hw
    rw [hbs'] at he; simp at he; subst he
    exact dec_prim' env k (by have := budget_pos env bs'.length; omega) td _ fnum false false depth _ (hdec rest)
  | .x x, d, td, bs, rest, k, fnum, depth, hw, _, he, _, _, _, hk => by
    have hv : isPrimVal (.x x) = true := rfl
    rw [wf_primVal hv] at hw
    rw [enc_primVal hv] at he
    obtain ⟨bs', hbs', _, hdec⟩ := prim_roundtrip td _ hw
    rw [hbs'] at he; simp at he; subst he
    exact dec_prim' env k (by have := budget_pos env bs'.length; omega) td _ fnum false false depth _ (hdec rest)
  | .t _ _, _, _, _, _, _, _, _, hw, _, _, _, _, _, _ => by simp [wf] at hw
  | .d _, _, _, _, _, _, _, _, hw, _, _, _, _, _, _ => by simp [wf] at hw
  | .nil, d, td, bs, rest, k, fnum, depth, hw, hd, he, _, _, _, hk => by
    have hdpos := wf_nil_depth hw
    obtain ⟨id, rfl⟩ := wf_nil_inv hw
    simp only [enc, pure, Except.pure, Except.ok.injEq, writeMaybeBare_false] at he
    subst he
    have hd2 := hd.2
    cases k with
    | zero => have := budget_pos env (encBytes []).length; omega
    | succ k' =>
      rw [dec_iface]
      cases k' with
      | zero =>
        have h3 : 3 ≤ budget env (encBytes []).length := by
          unfold budget
          calc 3 ≤ (sumFields env + 2) * 2 := by omega
            _ = (sumFields env + 2) * ((encBytes []).length + 1) := by rw [encBytes_nil]; rfl
        omega
      | succ k'' =>
        have hdep : ¬ depth + 1 > maxAnyDepth := by omega
        rw [encBytes_nil]
        simp [decIface, hdep, decMaybeBare, decBytes, decUvarint, decUvarintAux, uvarintSize, encUvarint_small]
  | .any name cv, d, td, bs, rest, k, fnum, depth, hw, hd, he, hlen, _, _, hk => by
    obtain ⟨id, n, ifs, fs, rs, rfl, hfind, hid, hname, hwc⟩ := wf_any_inv hw
    have hd1 := hd.1
    have hd2 := hd.2
    rcases wf_cases hwc with ⟨hpv, hprim⟩ | ⟨vs, rfl⟩ | ⟨es, rfl⟩ | ⟨rfl, _, h⟩ | ⟨_, _, _, rfl, h⟩
    · cases cv <;> simp [isPrimVal] at hpv <;> simp [primOK] at hprim
    rotate_left
    · obtain ⟨_, _, h, _⟩ := wf_list_inv hwc; cases h
    · cases h
    · cases h
    obtain ⟨name', n', ifs', fs', rs', d', htd, hfind', rfl, hwf⟩ := wf_struct_inv hwc
    cases htd
    rw [hfind] at hfind'
    cases hfind'
    rw [enc_any env id name n ifs fs rs (.struct vs) fnum false false hfind] at he
    rw [enc_struct env name n ifs fs rs vs 1 true false hfind] at he
    cases hbuf : encFields env fs vs with
    | error x => rw [hbuf] at he; simp [bind, Except.bind] at he
    | ok buf2 =>
      rw [hbuf] at he
      simp only [bind, Except.bind, pure, Except.pure, Except.ok.injEq, writeMaybeBare_true',
        writeMaybeBare_false] at he
      subst he
      have hs : fieldsSorted 0 fs = true := by
        have := hE name _ hfind
        simpa using this
      have hb0 := encFields_ne_zero hwf hs hbuf
      have hlenE : (anyEnvelope name buf2).length < 2 ^ 64 := by rw [encBytes_length] at hlen; omega
      have hF := fields_le_sum hfind
      -- the envelope contains buf2 (when non-empty)
      have hsub : buf2.length + 3 ≤ (anyEnvelope name buf2).length ∨ buf2 = [] := by
        by_cases hemp : buf2 = []
        · exact Or.inr hemp
        · left
          have hemp' : buf2.isEmpty = false := by
            cases buf2 with
            | nil => exact absurd rfl hemp
            | cons _ _ => rfl
          have hb0' : (buf2 == [0]) = false := by simpa using hb0
          simp only [anyEnvelope, hemp', hb0', Bool.or_false, Bool.false_eq_true, if_false, List.length_append,
            encBytes_length]
          have h1 : 1 ≤ (encKey 1 .blen).length := encUvarint_length_pos _
          have h2 : 1 ≤ (encKey 2 .blen).length := encUvarint_length_pos _
          have h3 : 1 ≤ uvarintSize buf2.length := encUvarint_length_pos _
          have h4 : 1 ≤ uvarintSize (47 :: name).length := encUvarint_length_pos _
          omega
      have hlen2 : buf2.length < 2 ^ 64 := by
        rcases hsub with h | h
        · omega
        · subst h; norm_num
      have hsz : 1 ≤ uvarintSize (anyEnvelope name buf2).length := encUvarint_length_pos _
      cases k with
      | zero => have := budget_pos env (encBytes (anyEnvelope name buf2)).length; omega
      | succ k' =>
        rw [dec_iface]
        cases k' with
        | zero =>
          have h3 : 3 ≤ budget env (encBytes (anyEnvelope name buf2)).length := by
            unfold budget
            have : 1 ≤ (encBytes (anyEnvelope name buf2)).length := by rw [encBytes_length]; omega
            calc 3 ≤ (sumFields env + 2) * 2 := by omega
              _ ≤ (sumFields env + 2) * ((encBytes (anyEnvelope name buf2)).length + 1) :=
                Nat.mul_le_mul_left _ (by omega)
          omega
        | succ k'' =>
          apply decIface_envelope env k'' id name n ifs fs rs buf2 rest (depth + 1) (.struct vs) hfind hid hname
            (by omega) hlenE hlen2 hb0
          by_cases hemp : buf2 = []
          · subst hemp
            simp only [List.isEmpty_nil, if_true]
            have hz := zero_fields env vs d' fs hwf hbuf (env.length + 3) (by omega)
            rw [zeroOf, show env.length + 4 = (env.length + 3) + 1 from rfl,
              zeroVal_ref env (env.length + 3) name n ifs fs rs hfind, ← hz]
          · have hemp' : buf2.isEmpty = false := by
              cases buf2 with
              | nil => exact absurd rfl hemp
              | cons _ _ => rfl
            simp only [hemp', Bool.false_eq_true, if_false]
            have hb3 : buf2.length + 3 ≤ (anyEnvelope name buf2).length := by
              rcases hsub with h | h
              · exact h
              · exact absurd h hemp
            have hbud : fs.length + 2 + budget env buf2.length ≤ k'' := by
              have e1 := budget_step env buf2.length
              have e2 := budget_step env (buf2.length + 1)
              have e3 : budget env (buf2.length + 1 + 1) ≤ budget env (encBytes (anyEnvelope name buf2)).length :=
                budget_mono env (by rw [encBytes_length]; omega)
              omega
            cases k'' with
            | zero => omega
            | succ k3 =>
              rw [dec_ref env k3 name n ifs fs rs _ 1 true false (depth + 1) hfind]
              have := rt_fields env hE vs d' fs buf2 k3 (depth + 1) 0 [] 0 hwf ⟨by omega, by omega⟩ hs hbuf hlen2
                (by omega)
              simp [decMaybeBare, this]
  | .m _ _, _, _, _, _, _, _, _, hw, _, _, _, _, _, _ => by simp [wf] at hw

/-- unpacked list loop: one `key(fnum) value` per element, until a larger field number
(or the end of the buffer). -/
theorem rt_unpacked (env : Env) (hE : envOK env) : ∀ (vs : List Val) (d : Nat) (e : TD) (ptr : Bool) (fnum : Nat)
    (body more : Bytes) (k depth : Nat) (acc : List Val) (n : Nat),
    listElemOK env ptr e = true → typ3 env e = .blen → wfElems env d e vs = true →
    (d ≤ env.length + 4 ∧ depth + d ≤ maxAnyDepth) →
    encUnpacked env e ptr false (writeImplicit env e) fnum vs = .ok body → stopsList fnum more →
    0 < fnum → fnum < 2 ^ 29 → body.length < 2 ^ 64 → budget env body.length ≤ k →
    decUnpacked env k e ptr false (writeImplicit env e) fnum (body ++ more) depth acc n =
      some (acc.reverse ++ vs, n + body.length)
  | [], d, e, ptr, fnum, body, more, k, depth, acc, n, _, _, _, _, henc, hstop, _, _, _, hk => by
    rw [encUnpacked_nil] at henc
    simp only [Except.ok.injEq] at henc
    subst henc
    cases k with
    | zero => have := budget_pos env 0; simp at hk; omega
    | succ k' =>
      simp only [List.nil_append, List.append_nil, List.length_nil, Nat.add_zero]
      exact decUnpacked_stop env k' e ptr false _ fnum more depth acc n hstop
  | v :: vs, d, e, ptr, fnum, body, more, k, depth, acc, n, hok, ht3, hel, hd, henc, hstop, hf0, hf29, hlen, hk => by
    rw [wfElems_cons] at hel
    obtain ⟨hwv, hel'⟩ := hel
    obtain ⟨hbe, hwi, hkind⟩ := listElem_unpacked_facts hok ht3
    rw [encUnpacked_cons] at henc
    cases h1 : elemEnc env e ptr false (writeImplicit env e) v with
    | error x => rw [h1] at henc; cases henc
    | ok one =>
      cases h2 : encUnpacked env e ptr false (writeImplicit env e) fnum vs with
      | error x => rw [h1, h2] at henc; cases henc
      | ok body' =>
        rw [h1, h2] at henc
        simp only [bind, Except.bind, pure, Except.pure, Except.ok.injEq] at henc
        subst henc
        simp only [List.length_append] at hlen hk
        have hkey : ∀ rest : Bytes, decKeyRaw (encKey fnum .blen ++ rest) =
            some (fnum, 2, (encKey fnum .blen).length) := fun rest => decKeyRaw_encKey fnum .blen hf0 hf29 rest
        have hkpos : 1 ≤ (encKey fnum .blen).length := encUvarint_length_pos _
        have hne : ∀ rest : Bytes, (encKey fnum .blen ++ rest).isEmpty = false := by
          intro rest
          have := encKey_ne_nil fnum .blen
          cases hk' : encKey fnum .blen with
          | nil => exact absurd hk' this
          | cons _ _ => rfl
        cases k with
        | zero => have := budget_pos env ((encKey fnum .blen).length + one.length + body'.length); omega
        | succ k' =>
          have hbr : budget env body'.length ≤ k' := by
            have h1' := budget_step env body'.length
            have h2' : budget env (body'.length + 1) ≤
                budget env ((encKey fnum .blen).length + one.length + body'.length) := budget_mono env (by omega)
            omega
          have hbo : budget env one.length ≤ k' := by
            have h1' := budget_step env one.length
            have h2' : budget env (one.length + 1) ≤
                budget env ((encKey fnum .blen).length + one.length + body'.length) := budget_mono env (by omega)
            omega
          -- the recursive call on the remaining elements
          have ihrec := fun (n' : Nat) => rt_unpacked env hE vs d e ptr fnum body' more k' depth (v :: acc) n'
            hok ht3 hel' hd h2 hstop hf0 hf29 (by omega) hbr
          rw [hwi] at ihrec
          have hassoc : encKey fnum .blen ++ one ++ body' ++ more = encKey fnum .blen ++ (one ++ (body' ++ more)) := by
            simp [List.append_assoc]
          rw [hassoc]
          have hcode : Typ3.blen.code = 2 := rfl
          -- what the element contributes
          unfold elemEnc at h1
          rw [hwi] at h1
          simp only [Bool.false_eq_true, if_false] at h1
          by_cases hdef : isDefault env e v = true
          · -- default element (an empty string / byte slice): the single byte 0x00
            simp only [hdef, if_true] at h1
            rcases hkind with ⟨hptr, hsk, hbi⟩ | ⟨hr, hs⟩
            · subst hptr
              simp only [hsk, Bool.false_and, Bool.false_eq_true, if_false, pure, Except.pure,
                Except.ok.injEq] at h1
              subst h1
              have hdv : defaultSlot env false e = v := by
                rcases wf_cases hwv with ⟨hpv, hprim⟩ | ⟨vs', rfl⟩ | ⟨es, rfl⟩ | ⟨rfl, id, rfl⟩ | ⟨_, _, id, rfl, rfl⟩
                · obtain ⟨bs', hbs', _, _⟩ := prim_roundtrip e v hprim
                  have hz := prim_omitted_zero env e v hprim bs' hbs' (Or.inl hdef) (env.length + 4)
                  have htime : ¬ e = TD.time := by
                    have := primOK_isPrimTD hprim
                    cases e <;> simp [isPrimTD] at this ⊢
                  simp [defaultSlot, htime, zeroOf, ← hz]
                · simp [isDefault, isDefaultVal] at hdef
                · obtain ⟨_, e', htd, _⟩ := wf_list_inv hwv
                  rw [htd] at hbi
                  simp [isBLElemPrim, isIfaceTD] at hbi
                · rfl
                · simp [isDefault, isDefaultVal] at hdef
              have ih := ihrec (n + (encKey fnum .blen).length + 1)
              rw [reverse_cons_append] at ih
              simp only [decUnpacked, hne, Bool.false_eq_true, if_false, hkey, Nat.lt_irrefl, hcode,
                List.drop_left, List.singleton_append, List.cons_append, headZero, hsk, Bool.and_false,
                Bool.not_false, Bool.or_false, Bool.and_true, beq_self_eq_true, if_true,
                ne_eq, not_true_eq_false, hdv, List.drop_succ_cons, List.drop_zero]
              simp only [hwi, List.nil_append]
              rw [ih]
              simp only [List.length_append, List.length_cons, List.length_nil, Option.some.injEq, Prod.mk.injEq,
                true_and]
              omega
            · -- struct elements are never default
              exfalso
              rcases wf_cases hwv with ⟨_, hprim⟩ | ⟨vs', rfl⟩ | ⟨es, rfl⟩ | ⟨_, id, htd⟩ | ⟨_, _, id, _, htd⟩
              · have := primOK_isPrimTD hprim
                cases hte : e <;> simp [hte, isRefTD, isPrimTD] at hr this
              · simp [isDefault, isDefaultVal] at hdef
              · obtain ⟨_, e', htd, _⟩ := wf_list_inv hwv
                rw [htd] at hr; cases hr
              · rw [htd] at hr; cases hr
              · rw [htd] at hr; cases hr
          · -- non-default element: its non-bare encoding
            simp only [hdef, Bool.false_eq_true, if_false] at h1
            obtain ⟨X, hX⟩ := blElem_enc_is_bytes hok ht3 hwv h1
            have hval := rt_val env hE v d e one (body' ++ more) k' 1 depth hwv hd h1 (by omega)
              (by omega) (by norm_num) hbo
            have hsp : (ptr && isStructKind env e) = true ∨ one ≠ [0] ∨ (one = [0] ∧ (ptr && isStructKind env e) = false) := by
              by_cases h0 : one = [0]
              · cases hps : (ptr && isStructKind env e)
                · exact Or.inr (Or.inr ⟨h0, rfl⟩)
                · exact Or.inl rfl
              · exact Or.inr (Or.inl h0)
            rcases hsp with hsp | hn0 | ⟨h0, hnsp⟩
            · -- pointer to struct: never the 0x00 special case
              have ih := ihrec (n + (encKey fnum .blen).length + one.length)
              rw [reverse_cons_append] at ih
              have hps : (ptr && isStructKind env e) = true := hsp
              simp only [decUnpacked, hne, Bool.false_eq_true, if_false, hkey, Nat.lt_irrefl, hcode,
                List.drop_left, hps, Bool.not_true, Bool.or_false, Bool.and_false, ne_eq,
                not_true_eq_false, hwi]
              simp only [hval]
              have hdrop : List.drop one.length (one ++ (body' ++ more)) = body' ++ more := List.drop_left
              rw [hdrop, ih]
              simp only [List.length_append, Option.some.injEq, Prod.mk.injEq, true_and]
              omega
            · -- the encoding does not start with 0x00
              have hhead : headZero (one ++ (body' ++ more)) = false := by
                rw [hX]
                cases hXe : encBytes X with
                | nil => exact absurd hXe (by simp [encBytes, encUvarint_ne_nil])
                | cons b t =>
                  simp only [List.cons_append, headZero, beq_eq_false_iff_ne, ne_eq]
                  intro hb0
                  subst hb0
                  have := encBytes_head_zero hXe
                  subst this
                  rw [encBytes_nil] at hX
                  exact hn0 hX
              have ih := ihrec (n + (encKey fnum .blen).length + one.length)
              rw [reverse_cons_append] at ih
              simp only [decUnpacked, hne, Bool.false_eq_true, if_false, hkey, Nat.lt_irrefl, hcode,
                List.drop_left, hhead, Bool.false_and, ne_eq, not_true_eq_false, hwi]
              simp only [hval]
              have hdrop : List.drop one.length (one ++ (body' ++ more)) = body' ++ more := List.drop_left
              rw [hdrop, ih]
              simp only [List.length_append, Option.some.injEq, Prod.mk.injEq, true_and]
              omega
            · -- a non-pointer element encoded as 0x00: the decoder supplies the default, which it equals
              subst h0
              have hz := zero_val env v d e [0] 1 hwv h1 (Or.inr rfl) (by norm_num) (env.length + 4) hd.1
              have hptrF : ptr = false ∨ isStructKind env e = false := by
                cases ptr <;> simp_all
              have hdv : defaultSlot env ptr e = v := by
                have htime : ¬ e = TD.time := by
                  rcases hkind with ⟨_, _, hble | hif⟩ | ⟨hr, _⟩
                  · cases e <;> simp [isBLElemPrim] at hble ⊢
                  · cases e <;> simp [isIfaceTD] at hif ⊢
                  · cases e <;> simp [isRefTD] at hr ⊢
                have hcond : (ptr && isStructKind env e) = false := hnsp
                simp only [defaultSlot, htime, beq_iff_eq, if_false, hcond, Bool.false_eq_true, zeroOf]
                exact hz.symm
              have ih := ihrec (n + (encKey fnum .blen).length + 1)
              rw [reverse_cons_append] at ih
              simp only [decUnpacked, hne, Bool.false_eq_true, if_false, hkey, Nat.lt_irrefl, hcode,
                List.drop_left, List.singleton_append, List.cons_append, headZero, hnsp, Bool.not_false,
                Bool.or_false, Bool.and_true, beq_self_eq_true, if_true, ne_eq, not_true_eq_false, hdv,
                List.drop_succ_cons, List.drop_zero]
              simp only [hwi, List.nil_append]
              rw [ih]
              simp only [List.length_append, List.length_cons, List.length_nil, Option.some.injEq, Prod.mk.injEq,
                true_and]
              omega

/-- field loop: the concatenated field encodings decode back to the field values. -/
theorem rt_fields (env : Env) (hE : envOK env) : ∀ (vs : List Val) (d : Nat) (fs : List FieldD) (bs : Bytes)
    (k depth last : Nat) (acc : List Val) (n : Nat),
    wfFields env d fs vs = true → (d ≤ env.length + 4 ∧ depth + d ≤ maxAnyDepth) → fieldsSorted last fs = true →
    encFields env fs vs = .ok bs → bs.length < 2 ^ 64 → fs.length + 1 + budget env bs.length ≤ k →
    decFields env k fs bs last depth acc n = some (acc.reverse ++ vs, n + bs.length)
  | [], d, fs, bs, k, depth, last, acc, n, hw, _, _, he, _, hk => by
    cases fs with
    | cons f fs => simp [wfFields] at hw
    | nil =>
      simp [encFields, pure, Except.pure] at he
      subst he
      cases k with
      | zero => simp at hk
      | succ k' => simp [decFields]
  | v :: vs, d, fs, bs, k, depth, last, acc, n, hw, hd, hs, he, hlen, hk => by
    cases fs with
    | nil => simp [wfFields] at hw
    | cons f fs =>
      obtain ⟨hwe, hp, hnp, hrest⟩ := wfFields_cons_inv hw
      have hs0 := hs
      simp only [fieldsSorted, Bool.and_eq_true, decide_eq_true_eq] at hs
      obtain ⟨⟨hlt, h29⟩, hs'⟩ := hs
      simp only [List.length_cons] at hk
      cases hK : isUnpackedList env f.td
      · -- ordinary field (primitive, struct, pointer, packed list)
        have hnl := hK
        rw [encFields_cons env f fs v vs hnl] at he
        cases hone : fieldEnc env f v with
        | error e => rw [hone] at he; cases he
        | ok one =>
          cases hmore : encFields env fs vs with
          | error e => rw [hone, hmore] at he; cases he
          | ok more =>
            rw [hone, hmore] at he
            simp only [bind, Except.bind, pure, Except.pure, Except.ok.injEq] at he
            subst he
            simp only [List.length_append] at hlen
            cases k with
            | zero => omega
            | succ k' =>
              rcases fieldEnc_shape hone with rfl | ⟨value, henc, rfl⟩
              · -- the field is omitted: the decoder supplies its default
                have hz := omitted_field_zero env d f fs v vs hw hone (env.length + 4) hd.1
                have hdf := defaultSlot_eq_zeroSlot env d f fs v vs hw
                have hdv : defaultSlot env f.ptr f.td = v := by rw [hdf, ← hz]
                simp only [List.nil_append, List.length_nil, Nat.zero_add] at hk ⊢
                have ih := rt_fields env hE vs d fs more k' depth last (v :: acc) n hrest hd
                  (fieldsSorted_weaken fs last f.num (by omega) hs') hmore (by omega) (by omega)
                rw [reverse_cons_append] at ih
                by_cases hemp : more = []
                · subst hemp
                  simp only [decFields, List.isEmpty_nil, if_true, hdv]
                  exact ih
                · obtain ⟨num, t, kn, hkey, hnum⟩ := head_key env vs d fs f.num more hrest hs' hmore hemp
                  have hne : more.isEmpty = false := by
                    cases more with
                    | nil => exact absurd rfl hemp
                    | cons _ _ => rfl
                  simp only [decFields, hne, Bool.false_eq_true, if_false, hnl, hkey, hnum, if_true, hdv]
                  exact ih
              · -- the field is present: key, value, then the remaining fields
                have hkey := decKeyRaw_encKey f.num (typ3 env f.td) (by omega) h29 (value ++ more)
                have hkpos : 1 ≤ (encKey f.num (typ3 env f.td)).length := encUvarint_length_pos _
                have hne : (encKey f.num (typ3 env f.td) ++ value ++ more).isEmpty = false := by
                  have := encKey_ne_nil f.num (typ3 env f.td)
                  cases hk' : encKey f.num (typ3 env f.td) with
                  | nil => exact absurd hk' this
                  | cons _ _ => rfl
                have hwv : wf env d f.td v = true := by
                  cases hptr : f.ptr
                  · exact hnp hptr
                  · rcases (hp hptr).2.2 with rfl | h
                    · exfalso
                      have h0 : fieldEnc env f Val.nil = .ok [] := by
                        simp [fieldEnc, hwe, isDefault, isDefaultVal, pure, Except.pure]
                      rw [h0] at hone
                      simp only [Except.ok.injEq] at hone
                      have := encKey_ne_nil f.num (typ3 env f.td)
                      cases hk' : encKey f.num (typ3 env f.td) with
                      | nil => exact this hk'
                      | cons _ _ => rw [hk'] at hone; simp at hone
                    · exact h
                simp only [List.length_append] at hlen hk
                have hbv : budget env value.length ≤
                    budget env ((encKey f.num (typ3 env f.td)).length + value.length + more.length) :=
                  budget_mono env (by omega)
                have hbm : budget env more.length ≤
                    budget env ((encKey f.num (typ3 env f.td)).length + value.length + more.length) :=
                  budget_mono env (by omega)
                -- (the value encoder ignores the repeated-field number for non-list values; for a
                -- packed list it is unused as well) — we decode with fnum = 0 as the struct decoder does
                have hval : dec env k' f.td (value ++ more) 0 false false depth = some (v, value.length) := by
                  rcases wf_cases hwv with ⟨hpv, hprim⟩ | ⟨vs', rfl⟩ | ⟨es, rfl⟩ | ⟨hvnil, id, htd⟩ | ⟨nm, cv, id, hvany, htd⟩
                  rotate_left 3
                  · -- nil interface (never actually present on the wire as a field, but decodes fine)
                    have e1 : enc env f.td v 1 false false = .ok value := by
                      rw [htd, hvnil] at henc ⊢; rw [enc_nil] at henc ⊢; exact henc
                    have := rt_val env hE v d f.td value more k' 1 depth hwv hd e1 (by omega)
                      (by norm_num) (by norm_num) (by omega)
                    rw [htd] at this ⊢
                    cases k' with
                    | zero => have := budget_pos env value.length; omega
                    | succ k'' => rw [dec_iface] at this ⊢; exact this
                  · have e1 : enc env f.td v 1 false false = .ok value := by
                      rw [hvany] at hwv
                      obtain ⟨_, n', ifs', fs', rs', _, hfind', _, _, _⟩ := wf_any_inv hwv
                      rw [htd, hvany] at henc ⊢
                      rw [enc_any env id nm n' ifs' fs' rs' cv 0 false false hfind'] at henc
                      rw [enc_any env id nm n' ifs' fs' rs' cv 1 false false hfind']
                      exact henc
                    have := rt_val env hE v d f.td value more k' 1 depth hwv hd e1 (by omega)
                      (by norm_num) (by norm_num) (by omega)
                    rw [htd] at this ⊢
                    cases k' with
                    | zero => have := budget_pos env value.length; omega
                    | succ k'' => rw [dec_iface] at this ⊢; exact this
                  · rw [enc_primVal hpv] at henc
                    obtain ⟨bs', hbs', _, hdec⟩ := prim_roundtrip f.td _ hprim
                    rw [hbs'] at henc; simp at henc; subst henc
                    exact dec_prim' env k' (by have := budget_pos env bs'.length; omega) f.td _ 0 false false
                      depth _ (hdec more)
                  · obtain ⟨name, n', ifs, fs', rs, d', htd, hfind, _, _⟩ := wf_struct_inv hwv
                    have e1 : enc env f.td (.struct vs') 1 false false = .ok value := by
                      rw [htd, enc_struct env name n' ifs fs' rs vs' 1 false false hfind,
                        ← enc_struct env name n' ifs fs' rs vs' 0 false false hfind, ← htd]; exact henc
                    have := rt_val env hE (.struct vs') d f.td value more k' 1 depth hwv hd e1 (by omega)
                      (by norm_num) (by norm_num) (by omega)
                    rw [htd] at this ⊢
                    cases k' with
                    | zero => have := budget_pos env value.length; omega
                    | succ k'' =>
                      rw [dec_ref env k'' name n' ifs fs' rs _ 0 false false depth hfind]
                      rw [dec_ref env k'' name n' ifs fs' rs _ 1 false false depth hfind] at this
                      exact this
                  · -- a list that is not an unpacked-list field is packed: fnum is unused
                    obtain ⟨ptr, e, htd, hok, hel⟩ := wf_list_inv hwv
                    rw [htd, isUnpackedList_list] at hK
                    have hpk : (typ3 env e != .blen || isByteElem env e) = true := by
                      simp only [beq_eq_false_iff_ne, ne_eq] at hK
                      simp [hK]
                    have e1 : enc env f.td (.list es) 1 false false = .ok value := by
                      rw [htd, enc_list]; rw [htd, enc_list] at henc
                      simp only [hpk, if_true] at henc ⊢; exact henc
                    have := rt_val env hE (.list es) d f.td value more k' 1 depth hwv hd e1 (by omega)
                      (by norm_num) (by norm_num) (by omega)
                    rw [htd] at this ⊢
                    cases k' with
                    | zero => have := budget_pos env value.length; omega
                    | succ k'' =>
                      rw [dec_list] at this ⊢
                      simp only [hpk, if_true] at this ⊢
                      exact this
                have ih := rt_fields env hE vs d fs more k' depth f.num (v :: acc)
                  (n + (encKey f.num (typ3 env f.td)).length + value.length) hrest hd hs' hmore (by omega) (by omega)
                rw [reverse_cons_append] at ih
                rw [List.append_assoc] at hne ⊢
                simp only [decFields, hne, Bool.false_eq_true, if_false, hnl, hkey, Nat.lt_irrefl, if_false]
                have hlast : ¬ f.num ≤ last := by omega
                simp only [hlast, if_false, ne_eq, not_true_eq_false, List.drop_left', hval]
                simp only [List.drop_append_of_le_length, List.length_append]
                have hdrop : List.drop ((encKey f.num (typ3 env f.td)).length + value.length)
                    (encKey f.num (typ3 env f.td) ++ (value ++ more)) = more := by
                  rw [← List.append_assoc, ← List.length_append, List.drop_left]
                rw [hdrop, ih]
                congr 2
                omega
      · -- unpacked list field: repeated `key(f.num) element`
        obtain ⟨hptr, ptr, e, es, htd, rfl, hok, hel, ht3⟩ := wf_list_field hw hK
        rw [encFields_cons_list env f fs (.list es) vs hK] at he
        cases hone : listFieldEnc env f (.list es) with
        | error x => rw [hone] at he; cases he
        | ok one =>
          cases hmore : encFields env fs vs with
          | error x => rw [hone, hmore] at he; cases he
          | ok more =>
            rw [hone, hmore] at he
            simp only [bind, Except.bind, pure, Except.pure, Except.ok.injEq] at he
            subst he
            simp only [List.length_append] at hlen hk
            have hstop : stopsList f.num more := by
              by_cases hemp : more = []
              · exact Or.inl hemp
              · exact Or.inr (head_key env vs d fs f.num more hrest hs' hmore hemp)
            have hbm : budget env more.length ≤ budget env (one.length + more.length) := budget_mono env (by omega)
            have hbo : budget env one.length ≤ budget env (one.length + more.length) := budget_mono env (by omega)
            cases k with
            | zero => omega
            | succ k' =>
              have ih := fun (acc' : List Val) (n' : Nat) => rt_fields env hE vs d fs more k' depth last acc' n' hrest hd
                (fieldsSorted_weaken fs last f.num (by omega) hs') hmore (by omega) (by omega)
              by_cases hes : es = []
              · -- empty list: omitted
                subst hes
                have h1 : one = [] := by
                  have := omitted_list_field env d f fs (.list []) vs hw hK
                  unfold listFieldEnc at hone
                  split at hone
                  · simp only [pure, Except.pure, Except.ok.injEq] at hone; exact hone.symm
                  · simp only [htd, encUnpacked_nil, Except.ok.injEq] at hone; exact hone.symm
                subst h1
                simp only [List.nil_append, List.length_nil, Nat.zero_add]
                have hz : zeroOf env f.td = Val.list [] := by rw [htd]; rfl
                have hdv : defaultSlot env f.ptr f.td = Val.list [] := by
                  rw [htd, hptr]; rfl
                have ih' := ih (Val.list [] :: acc) n
                rw [reverse_cons_append] at ih'
                rcases hstop with rfl | ⟨num, t, kn, hkey, hnum⟩
                · simp only [decFields, List.isEmpty_nil, if_true, hdv]
                  exact ih'
                · have hne : more.isEmpty = false := by
                    cases more with
                    | nil => simp [decKeyRaw, decUvarint, decUvarintAux] at hkey
                    | cons _ _ => rfl
                  simp only [decFields, hne, Bool.false_eq_true, if_false, hK, if_true, hkey, hnum, hz]
                  exact ih'
              · -- non-empty list
                have hbody : encUnpacked env e ptr false (writeImplicit env e) f.num es = .ok one := by
                  unfold listFieldEnc at hone
                  have hnd : isDefault env (TD.list ptr false e) (Val.list es) = false := by
                    simp only [isDefault, isDefaultVal, List.isEmpty_iff]
                    simpa using hes
                  simp only [htd, hnd, Bool.and_false, Bool.false_eq_true, if_false] at hone
                  exact hone
                obtain ⟨x, xs, rfl⟩ : ∃ x xs, es = x :: xs := by
                  cases es with
                  | nil => exact absurd rfl hes
                  | cons x xs => exact ⟨x, xs, rfl⟩
                obtain ⟨rest1, hr1⟩ := encUnpacked_ne_nil hbody
                have hkey := decKeyRaw_encKey f.num .blen (by omega) h29 (rest1 ++ more)
                have hne : (one ++ more).isEmpty = false := by
                  rw [hr1]
                  have := encKey_ne_nil f.num .blen
                  cases hk' : encKey f.num .blen with
                  | nil => exact absurd hk' this
                  | cons _ _ => rfl
                have hkey' : decKeyRaw (one ++ more) = some (f.num, Typ3.blen.code, (encKey f.num .blen).length) := by
                  rw [hr1, List.append_assoc]; exact hkey
                cases k' with
                | zero => have := budget_pos env (one.length + more.length); omega
                | succ k'' =>
                  have hun := rt_unpacked env hE (x :: xs) d e ptr f.num one more k'' depth [] 0 hok ht3 hel hd hbody
                    hstop (by omega) h29 (by omega) (by omega)
                  have hdec : dec env (k'' + 1) f.td (one ++ more) f.num true false depth =
                      some (Val.list (x :: xs), one.length) := by
                    rw [htd, dec_list]
                    have hpk : (typ3 env e != .blen || isByteElem env e) = false := by
                      obtain ⟨hbe, _, _⟩ := listElem_unpacked_facts hok ht3
                      simp [ht3, hbe]
                    simp only [decMaybeBare, if_true, hpk, Bool.false_eq_true, if_false, hun, Option.map]
                    simp
                  have ih' := ih (Val.list (x :: xs) :: acc) (n + one.length)
                  rw [reverse_cons_append] at ih'
                  have hnlt : ¬ f.num < f.num := Nat.lt_irrefl _
                  simp only [decFields, hne, Bool.false_eq_true, if_false, hK, if_true, hkey', hnlt, hdec,
                    List.drop_left]
                  rw [ih']
                  simp only [List.length_append, Option.some.injEq, Prod.mk.injEq, true_and]
                  omega
end

end GnoVerif.C20
