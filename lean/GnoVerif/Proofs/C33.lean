import GnoVerif.Model.C33
/-! Helper lemmas for C33 (crash recovery): the invariant of every reachable durable world. -/
namespace GnoVerif.C33

/-! ### applying steps -/

theorem applyAllCore_nil (c : Core) : applyAllCore c [] = c := rfl
theorem applyAllCore_cons (c : Core) (e : Ev) (l : List Ev) :
    applyAllCore c (e :: l) = applyAllCore (applyCore c e) l := rfl
theorem applyAllCore_append (c : Core) (a b : List Ev) :
    applyAllCore c (a ++ b) = applyAllCore (applyAllCore c a) b := by
  simp [applyAllCore, List.foldl_append]

theorem applyAll_nil (d : Disk) : applyAll d [] = d := rfl
theorem applyAll_cons (d : Disk) (e : Ev) (l : List Ev) :
    applyAll d (e :: l) = applyAll (apply d e) l := rfl
theorem applyAll_append (d : Disk) (a b : List Ev) :
    applyAll d (a ++ b) = applyAll (applyAll d a) b := by
  simp [applyAll, List.foldl_append]

theorem apply_toCore (d : Disk) (e : Ev) : (apply d e).toCore = applyCore d.toCore e := rfl

theorem applyAll_toCore (d : Disk) (l : List Ev) :
    (applyAll d l).toCore = applyAllCore d.toCore l := by
  induction l generalizing d with
  | nil => rfl
  | cons e l ih => rw [applyAll_cons, applyAllCore_cons, ih, apply_toCore]

/-- a step that does not touch the three databases' records the handshake reads -/
def Inert (e : Ev) : Prop := ∀ c, applyCore c e = c

theorem applyAllCore_inert {l : List Ev} (h : ∀ e ∈ l, Inert e) (c : Core) : applyAllCore c l = c := by
  induction l generalizing c with
  | nil => rfl
  | cons e l ih =>
    rw [applyAllCore_cons, h e (by simp), ih (fun e' he' => h e' (by simp [he']))]

/-! ### `AllAlong P c l`: `P` holds before every step of `l` and at its end -/

def AllAlong (P : Core → Prop) (c : Core) : List Ev → Prop
  | [] => P c
  | e :: l => P c ∧ AllAlong P (applyCore c e) l

theorem AllAlong.start {P : Core → Prop} {c : Core} {l : List Ev} (h : AllAlong P c l) : P c := by
  cases l with
  | nil => exact h
  | cons e l => exact h.1

theorem AllAlong.prefix {P : Core → Prop} {c : Core} {l p : List Ev}
    (h : AllAlong P c l) (hp : p <+: l) : P (applyAllCore c p) := by
  induction l generalizing c p with
  | nil =>
    have : p = [] := List.prefix_nil.mp hp
    subst this; exact h
  | cons e l ih =>
    rcases List.prefix_cons_iff.mp hp with rfl | ⟨t, rfl, ht⟩
    · exact h.1
    · rw [applyAllCore_cons]; exact ih h.2 ht

theorem AllAlong.end_ {P : Core → Prop} {c : Core} {l : List Ev} (h : AllAlong P c l) :
    P (applyAllCore c l) := h.prefix (List.prefix_refl l)

theorem AllAlong.append {P : Core → Prop} {c : Core} {a b : List Ev}
    (ha : AllAlong P c a) (hb : AllAlong P (applyAllCore c a) b) : AllAlong P c (a ++ b) := by
  induction a generalizing c with
  | nil => exact hb
  | cons e a ih =>
    exact ⟨ha.1, ih ha.2 (by rwa [applyAllCore_cons] at hb)⟩

theorem AllAlong.inert {P : Core → Prop} {c : Core} {l : List Ev} (hc : P c)
    (h : ∀ e ∈ l, Inert e) : AllAlong P c l := by
  induction l with
  | nil => exact hc
  | cons e l ih =>
    refine ⟨hc, ?_⟩
    rw [h e (by simp)]
    exact ih (fun e' he' => h e' (by simp [he']))

/-! ### steps that matter for the handshake -/

def isCore : Ev → Bool
  | .bsJ _ | .stG | .stR _ | .stS _ _ _ | .apS _ _ => true
  | _ => false

theorem inert_of_not_core {e : Ev} (h : isCore e = false) : Inert e := by
  intro c; cases e <;> first | rfl | simp [isCore] at h

theorem applyAllCore_filter (c : Core) (l : List Ev) :
    applyAllCore c l = applyAllCore c (l.filter isCore) := by
  induction l generalizing c with
  | nil => rfl
  | cons e l ih =>
    cases he : isCore e with
    | true => simp only [List.filter_cons, he, if_true, applyAllCore_cons]; exact ih _
    | false =>
      simp only [List.filter_cons, he, applyAllCore_cons]
      rw [inert_of_not_core he c]; simpa using ih c

theorem AllAlong.of_filter {P : Core → Prop} {c : Core} {l : List Ev}
    (h : AllAlong P c (l.filter isCore)) : AllAlong P c l := by
  induction l generalizing c with
  | nil => exact h
  | cons e l ih =>
    cases he : isCore e with
    | true =>
      simp only [List.filter_cons, he, if_true] at h
      exact ⟨h.1, ih h.2⟩
    | false =>
      simp only [List.filter_cons, he] at h
      have h' : AllAlong P c (List.filter isCore l) := by simpa using h
      refine ⟨h'.start, ?_⟩
      rw [inert_of_not_core he c]; exact ih h'

/-! ### the invariant of every reachable world -/

theorem chainHash_append (bs : List Block) (b : Block) :
    chainHash (bs ++ [b]) = execTxs (chainHash bs) b.txs := by
  simp [chainHash, List.foldl_append]

theorem chainHash_take_succ {bs : List Block} {i : Nat} (h : i < bs.length) :
    chainHash (bs.take (i + 1)) = execTxs (chainHash (bs.take i)) (bs[i]'h).txs := by
  rw [List.take_add_one, List.getElem?_eq_getElem h]
  simpa using chainHash_append (bs.take i) (bs[i]'h)

/-- every header carries the application hash after the previous block -/
def WellChained (bs : List Block) : Prop :=
  ∀ i (h : i < bs.length), (bs[i]'h).appHash = chainHash (bs.take i)

theorem WellChained.append {bs : List Block} {b : Block} (h : WellChained bs)
    (hb : b.appHash = chainHash bs) : WellChained (bs ++ [b]) := by
  intro i hi
  by_cases hlt : i < bs.length
  · rw [List.getElem_append_left hlt]
    have : (bs ++ [b]).take i = bs.take i := by
      rw [List.take_append_of_le_length (Nat.le_of_lt hlt)]
    rw [this]; exact h i hlt
  · have hi' : i = bs.length := by simp at hi; omega
    subst hi'
    simp [hb]

def Synced (c : Core) : Prop := c.blocks.length = c.st ∧ c.app = c.st ∧ c.appHash = c.stHash
def Saved (c : Core) : Prop := c.blocks.length = c.st + 1 ∧ c.app = c.st ∧ c.appHash = c.stHash
def Committed (c : Core) : Prop :=
  c.blocks.length = c.st + 1 ∧ c.app = c.st + 1 ∧ c.appHash = chainHash c.blocks ∧ (c.st + 1) ∈ c.resp

structure Inv (c : Core) : Prop where
  chained : WellChained c.blocks
  stHashEq : c.stHash = chainHash (c.blocks.take c.st)
  shape : Synced c ∨ Saved c ∨ Committed c
  fresh : c.stRec = false → c.st = 0 ∧ c.stHash = 0 ∧ c.blocks = [] ∧ c.app = 0 ∧ c.appHash = 0

/-! ### steps that keep heights, hashes and blocks -/

/-- `e` leaves blocks, heights and hashes of `c` alone -/
def Harmless (c : Core) (e : Ev) : Prop :=
  isCore e = false ∨ e = .stG ∨ (∃ n, e = .stR n) ∨ (∃ v, e = .stS c.st c.stHash v)

structure SameData (c c' : Core) : Prop where
  blocks : c'.blocks = c.blocks
  st : c'.st = c.st
  stHash : c'.stHash = c.stHash
  app : c'.app = c.app
  appHash : c'.appHash = c.appHash
  resp : ∀ n, n ∈ c.resp → n ∈ c'.resp
  stRec : c.stRec = true → c'.stRec = true

theorem SameData.refl (c : Core) : SameData c c := ⟨rfl, rfl, rfl, rfl, rfl, fun _ h => h, id⟩

theorem SameData.trans {a b c : Core} (h1 : SameData a b) (h2 : SameData b c) : SameData a c :=
  ⟨h2.blocks.trans h1.blocks, h2.st.trans h1.st, h2.stHash.trans h1.stHash, h2.app.trans h1.app,
   h2.appHash.trans h1.appHash, fun n h => h2.resp n (h1.resp n h), fun h => h2.stRec (h1.stRec h)⟩

theorem Inv.of_sameData {c c' : Core} (h : Inv c) (s : SameData c c')
    (hf : c'.stRec = false → c.stRec = false) : Inv c' := by
  refine ⟨?_, ?_, ?_, ?_⟩
  · rw [s.blocks]; exact h.chained
  · rw [s.stHash, s.blocks, s.st]; exact h.stHashEq
  · rcases h.shape with ⟨a, b, d⟩ | ⟨a, b, d⟩ | ⟨a, b, d, e⟩
    · exact Or.inl ⟨by rw [s.blocks, s.st]; exact a, by rw [s.app, s.st]; exact b, by rw [s.appHash, s.stHash]; exact d⟩
    · exact Or.inr (Or.inl ⟨by rw [s.blocks, s.st]; exact a, by rw [s.app, s.st]; exact b, by rw [s.appHash, s.stHash]; exact d⟩)
    · exact Or.inr (Or.inr ⟨by rw [s.blocks, s.st]; exact a, by rw [s.app, s.st]; exact b,
        by rw [s.appHash, s.blocks]; exact d, by rw [s.st]; exact s.resp _ e⟩)
  · intro hf'
    obtain ⟨a, b, d, e, f⟩ := h.fresh (hf hf')
    exact ⟨by rw [s.st]; exact a, by rw [s.stHash]; exact b, by rw [s.blocks]; exact d,
      by rw [s.app]; exact e, by rw [s.appHash]; exact f⟩

theorem harmless_step {c : Core} {e : Ev} (h : Harmless c e) :
    SameData c (applyCore c e) ∧ ((applyCore c e).stRec = false → c.stRec = false) := by
  rcases h with h | rfl | ⟨n, rfl⟩ | ⟨v, rfl⟩
  · rw [inert_of_not_core h c]; exact ⟨SameData.refl c, id⟩
  · exact ⟨⟨rfl, rfl, rfl, rfl, rfl, fun _ h => h, id⟩, id⟩
  · exact ⟨⟨rfl, rfl, rfl, rfl, rfl, fun _ h => List.mem_cons_of_mem _ h, id⟩, id⟩
  · exact ⟨⟨rfl, rfl, rfl, rfl, rfl, fun _ h => h, fun _ => rfl⟩, fun h => by simp [applyCore] at h⟩

theorem harmless_along {c : Core} {l : List Ev} (hi : Inv c) (h : ∀ e ∈ l, Harmless c e) :
    AllAlong Inv c l ∧ SameData c (applyAllCore c l) := by
  induction l generalizing c with
  | nil => exact ⟨hi, SameData.refl c⟩
  | cons e l ih =>
    obtain ⟨s, hf⟩ := harmless_step (h e (by simp))
    have hi' : Inv (applyCore c e) := hi.of_sameData s hf
    have h' : ∀ e' ∈ l, Harmless (applyCore c e) e' := by
      intro e' he'
      rcases h e' (by simp [he']) with a | a | a | ⟨v, a⟩
      · exact Or.inl a
      · exact Or.inr (Or.inl a)
      · exact Or.inr (Or.inr (Or.inl a))
      · exact Or.inr (Or.inr (Or.inr ⟨v, by rw [s.st, s.stHash]; exact a⟩))
    obtain ⟨a1, a2⟩ := ih hi' h'
    exact ⟨⟨hi, a1⟩, s.trans a2⟩

/-! ### the steps that move a world from one shape to the next -/

theorem take_length_append (bs : List Block) (b : Block) (n : Nat) (h : n ≤ bs.length) :
    (bs ++ [b]).take n = bs.take n := List.take_append_of_le_length h

/-- `SaveBlock`'s height record on a synced world -/
theorem bsJ_step {c : Core} (hi : Inv c) (hs : Synced c) (hr : c.stRec = true) (txs : List Tx) :
    Inv (applyCore c (.bsJ ⟨txs, c.stHash⟩)) ∧ Saved (applyCore c (.bsJ ⟨txs, c.stHash⟩)) ∧
    (applyCore c (.bsJ ⟨txs, c.stHash⟩)).blocks[c.st]? = some ⟨txs, c.stHash⟩ ∧
    (applyCore c (.bsJ ⟨txs, c.stHash⟩)).stRec = true := by
  obtain ⟨hlen, happ, hh⟩ := hs
  have hfull : c.stHash = chainHash c.blocks := by
    have := hi.stHashEq; rwa [← hlen, List.take_length] at this
  refine ⟨⟨?_, ?_, ?_, ?_⟩, ?_, ?_, hr⟩
  · exact hi.chained.append hfull
  · show c.stHash = chainHash ((c.blocks ++ [_]).take c.st)
    rw [take_length_append _ _ _ (by omega)]; exact hi.stHashEq
  · exact Or.inr (Or.inl ⟨by show (c.blocks ++ [_]).length = c.st + 1; simp [hlen], happ, hh⟩)
  · intro hf; have : c.stRec = false := hf; rw [hr] at this; cases this
  · exact ⟨by show (c.blocks ++ [_]).length = c.st + 1; simp [hlen], happ, hh⟩
  · show (c.blocks ++ [_])[c.st]? = some _
    rw [← hlen]; simp

theorem saved_nh {c : Core} {b : Block} (hi : Inv c) (hs : Saved c) (hb : c.blocks[c.st]? = some b) :
    execTxs c.appHash b.txs = chainHash c.blocks := by
  obtain ⟨hlen, _, hh⟩ := hs
  obtain ⟨hlt, hbe⟩ := List.getElem?_eq_some_iff.mp hb
  have h1 := chainHash_take_succ hlt
  rw [hbe, ← hi.stHashEq, ← hh] at h1
  rw [← h1, ← hlen, List.take_length]

/-- `ApplyBlock` of the stored block `st+1` on the real application -/
theorem real_apply_along {c : Core} {b : Block} (hi : Inv c) (hs : Saved c) (hr : c.stRec = true)
    (hb : c.blocks[c.st]? = some b) (v : Bool) :
    AllAlong Inv c [.stR (c.st + 1), .apS (c.st + 1) (execTxs c.appHash b.txs), .stS (c.st + 1) (execTxs c.appHash b.txs) v] ∧
    Synced (applyAllCore c [.stR (c.st + 1), .apS (c.st + 1) (execTxs c.appHash b.txs), .stS (c.st + 1) (execTxs c.appHash b.txs) v]) ∧
    (applyAllCore c [.stR (c.st + 1), .apS (c.st + 1) (execTxs c.appHash b.txs), .stS (c.st + 1) (execTxs c.appHash b.txs) v]).blocks = c.blocks ∧
    (applyAllCore c [.stR (c.st + 1), .apS (c.st + 1) (execTxs c.appHash b.txs), .stS (c.st + 1) (execTxs c.appHash b.txs) v]).st = c.st + 1 ∧
    (applyAllCore c [.stR (c.st + 1), .apS (c.st + 1) (execTxs c.appHash b.txs), .stS (c.st + 1) (execTxs c.appHash b.txs) v]).stRec = true := by
  have hnh := saved_nh hi hs hb
  obtain ⟨hlen, happ, hh⟩ := hs
  have hnot : ∀ {P : Prop}, c.stRec = false → P := fun hf => by rw [hr] at hf; cases hf
  have i1 : Inv (applyCore c (.stR (c.st + 1))) :=
    hi.of_sameData ⟨rfl, rfl, rfl, rfl, rfl, fun _ h => List.mem_cons_of_mem _ h, id⟩ id
  have i2 : Inv (applyCore (applyCore c (.stR (c.st + 1))) (.apS (c.st + 1) (execTxs c.appHash b.txs))) := by
    refine ⟨hi.chained, hi.stHashEq, Or.inr (Or.inr ⟨hlen, rfl, hnh, ?_⟩), fun hf => hnot hf⟩
    show c.st + 1 ∈ (c.st + 1) :: c.resp
    simp
  have i3 : Inv (applyCore (applyCore (applyCore c (.stR (c.st + 1))) (.apS (c.st + 1) (execTxs c.appHash b.txs)))
      (.stS (c.st + 1) (execTxs c.appHash b.txs) v)) := by
    refine ⟨hi.chained, ?_, Or.inl ⟨hlen, rfl, rfl⟩, fun hf => by simp [applyCore] at hf⟩
    show execTxs c.appHash b.txs = chainHash (c.blocks.take (c.st + 1))
    rw [hnh, ← hlen, List.take_length]
  exact ⟨⟨hi, i1, i2, i3⟩, ⟨hlen, rfl, rfl⟩, rfl, rfl, rfl⟩

/-- `ApplyBlock` of the stored block `st+1` on the mock application (the real one committed already) -/
theorem mock_apply_along {c : Core} (hi : Inv c) (hs : Committed c) (v : Bool) :
    AllAlong Inv c [.stR (c.st + 1), .stS (c.st + 1) c.appHash v] ∧
    Synced (applyAllCore c [.stR (c.st + 1), .stS (c.st + 1) c.appHash v]) ∧
    (applyAllCore c [.stR (c.st + 1), .stS (c.st + 1) c.appHash v]).blocks = c.blocks ∧
    (applyAllCore c [.stR (c.st + 1), .stS (c.st + 1) c.appHash v]).st = c.st + 1 ∧
    (applyAllCore c [.stR (c.st + 1), .stS (c.st + 1) c.appHash v]).stRec = true := by
  obtain ⟨hlen, happ, hh, hm⟩ := hs
  have i1 : Inv (applyCore c (.stR (c.st + 1))) :=
    hi.of_sameData ⟨rfl, rfl, rfl, rfl, rfl, fun _ h => List.mem_cons_of_mem _ h, id⟩ id
  have i2 : Inv (applyCore (applyCore c (.stR (c.st + 1))) (.stS (c.st + 1) c.appHash v)) := by
    refine ⟨hi.chained, ?_, Or.inl ⟨hlen, happ, rfl⟩, fun hf => by simp [applyCore] at hf⟩
    show c.appHash = chainHash (c.blocks.take (c.st + 1))
    rw [hh, ← hlen, List.take_length]
  exact ⟨⟨hi, i1, i2⟩, ⟨hlen, happ, rfl⟩, rfl, rfl, rfl⟩

/-! ### which steps of the code's sequences matter -/

theorem filter_replicate_nc (n : Nat) {e : Ev} (h : isCore e = false) :
    (List.replicate n e).filter isCore = [] := by
  simp [List.filter_replicate, h]

theorem applyEvs_filter (h : Nat) (b : Block) (cur : Nat) (v : Bool) :
    (applyEvs h b cur v).filter isCore =
      [.stR h, .apS h (execTxs cur b.txs), .stS h (execTxs cur b.txs) v] := by
  simp [applyEvs, List.filter_append, List.filter_cons, filter_replicate_nc, isCore]

theorem votingEvs_filter (h k p : Nat) : (votingEvs h k p).filter isCore = [] := by
  rw [List.filter_eq_nil_iff]
  intro e he
  simp only [votingEvs, List.mem_append, List.mem_flatMap, List.mem_range, List.mem_cons,
    List.mem_replicate, List.not_mem_nil, or_false] at he
  rcases he with ((⟨r, _, hr⟩ | hr) | hr) | hr
  · rcases hr with rfl | rfl | rfl | rfl <;> simp [isCore]
  · rcases hr with rfl | rfl <;> simp [isCore]
  · rw [hr.2]; simp [isCore]
  · rcases hr with rfl | rfl | rfl | rfl <;> simp [isCore]

theorem heightEvs_filter (d : Disk) (txs : List Tx) (k : Nat) :
    (heightEvs d txs k).filter isCore =
      [.bsJ ⟨txs, d.stHash⟩, .stR (d.st + 1), .apS (d.st + 1) (execTxs d.appHash txs),
       .stS (d.st + 1) (execTxs d.appHash txs) d.ver] := by
  simp [heightEvs, finalizeEvs, List.filter_append, votingEvs_filter, applyEvs_filter,
    List.filter_cons, filter_replicate_nc, isCore]

theorem mockApplyEvs_filter (h : Nat) (b : Block) (cur : Nat) (v : Bool) :
    (mockApplyEvs h b cur v).filter isCore = [.stR h, .stS h cur v] := by
  simp [mockApplyEvs, List.filter_append, List.filter_cons, isCore]

/-! ### the handshake on each shape -/

theorem blockAt_succ (c : Core) (n : Nat) : blockAt c (n + 1) = c.blocks[n]? := by
  simp [blockAt]

theorem replayBlocksEvs_synced {c : Core} (hs : Synced c) :
    replayBlocksEvs c = .ok (initChainEvs c) := by
  obtain ⟨hlen, happ, hh⟩ := hs
  unfold replayBlocksEvs
  simp only [Core.store, hlen, happ, hh]
  by_cases h0 : c.st = 0
  · simp [h0]
  · simp [h0]

theorem replayBlocksEvs_saved {c : Core} {b : Block} (hs : Saved c)
    (hb : c.blocks[c.st]? = some b) (hbh : b.appHash = c.stHash) :
    replayBlocksEvs c = .ok (initChainEvs c ++ applyEvs (c.st + 1) b c.appHash c.ver) := by
  obtain ⟨hlen, happ, hh⟩ := hs
  obtain ⟨hlt, hbe⟩ := List.getElem?_eq_some_iff.mp hb
  subst hbe
  have hn : ¬ (c.st + 1 < c.st) := by omega
  unfold replayBlocksEvs
  simp only [Core.store, hlen, happ]
  simp [replayLast, Core.store, hlen, blockAt_succ, hb, hbh, hn]

theorem replayBlocksEvs_committed {c : Core} {b : Block} (hs : Committed c)
    (hb : c.blocks[c.st]? = some b) (hbh : b.appHash = c.stHash) :
    replayBlocksEvs c = .ok (initChainEvs c ++ mockApplyEvs (c.st + 1) b c.appHash c.ver) := by
  obtain ⟨hlen, happ, hh, hm⟩ := hs
  obtain ⟨hlt, hbe⟩ := List.getElem?_eq_some_iff.mp hb
  subst hbe
  have hn : ¬ (c.st + 1 < c.st) := by omega
  unfold replayBlocksEvs
  simp only [Core.store, hlen, happ]
  simp [replayLast, Core.store, hlen, blockAt_succ, hb, hbh, hm, hn]

/-! ### the handshake on a world that satisfies the invariant -/

theorem mem_saveStateEvs {e : Ev} {s h : Nat} {v : Bool} (he : e ∈ saveStateEvs s h v) :
    e = .stV ∨ e = .stP ∨ e = .stS s h v := by
  unfold saveStateEvs at he
  split at he
  · simp only [List.cons_append, List.nil_append, List.mem_cons, List.not_mem_nil, or_false] at he
    rcases he with rfl | rfl | rfl | rfl <;> simp
  · simp only [List.cons_append, List.nil_append, List.mem_cons, List.not_mem_nil, or_false] at he
    rcases he with rfl | rfl | rfl <;> simp

theorem harmless_of_saveState {c : Core} {e : Ev} {v : Bool}
    (he : e ∈ saveStateEvs c.st c.stHash v) : Harmless c e := by
  rcases mem_saveStateEvs he with rfl | rfl | rfl
  · exact Or.inl rfl
  · exact Or.inl rfl
  · exact Or.inr (Or.inr (Or.inr ⟨v, rfl⟩))

theorem prelude_harmless {c : Core} (hi : Inv c) : ∀ e ∈ preludeEvs c, Harmless c e := by
  intro e he
  simp only [preludeEvs, List.mem_append] at he
  rcases he with (he | he) | he
  · split at he
    · simp at he
    · simp at he; exact Or.inr (Or.inl he)
  · split at he
    · simp at he
    · rename_i hr
      have hr' : c.stRec = false := by simpa using hr
      obtain ⟨h1, h2, _⟩ := hi.fresh hr'
      have : e ∈ saveStateEvs c.st c.stHash false := by rw [h1, h2]; exact he
      exact harmless_of_saveState this
  · split at he
    · simp at he
    · exact harmless_of_saveState he

theorem initChain_harmless (c : Core) : ∀ e ∈ initChainEvs c, Harmless c e := by
  intro e he
  unfold initChainEvs at he
  split at he
  · simp only [List.mem_append, List.mem_cons, List.not_mem_nil, or_false] at he
    rcases he with rfl | he
    · exact Or.inr (Or.inr (Or.inl ⟨0, rfl⟩))
    · split at he
      · exact harmless_of_saveState he
      · simp at he
  · simp at he

theorem stRec_mono (c : Core) (l : List Ev) (h : c.stRec = true) : (applyAllCore c l).stRec = true := by
  induction l generalizing c with
  | nil => exact h
  | cons e l ih =>
    rw [applyAllCore_cons]; apply ih
    cases e <;> first | exact h | rfl

theorem stRec_of_mem_stS {c : Core} {l : List Ev} {s h : Nat} {v : Bool}
    (hm : Ev.stS s h v ∈ l) : (applyAllCore c l).stRec = true := by
  induction l generalizing c with
  | nil => simp at hm
  | cons e l ih =>
    rw [applyAllCore_cons]
    rcases List.mem_cons.mp hm with rfl | hm'
    · exact stRec_mono _ _ rfl
    · exact ih hm'

theorem prelude_stRec (c : Core) : (applyAllCore c (preludeEvs c)).stRec = true := by
  cases hr : c.stRec with
  | true => exact stRec_mono _ _ hr
  | false =>
    apply stRec_of_mem_stS (s := 0) (h := 0) (v := false)
    simp [preludeEvs, hr, saveStateEvs]

theorem Synced.of_sameData {c c' : Core} (h : Synced c) (s : SameData c c') : Synced c' :=
  ⟨by rw [s.blocks, s.st]; exact h.1, by rw [s.app, s.st]; exact h.2.1, by rw [s.appHash, s.stHash]; exact h.2.2⟩
theorem Saved.of_sameData {c c' : Core} (h : Saved c) (s : SameData c c') : Saved c' :=
  ⟨by rw [s.blocks, s.st]; exact h.1, by rw [s.app, s.st]; exact h.2.1, by rw [s.appHash, s.stHash]; exact h.2.2⟩
theorem Committed.of_sameData {c c' : Core} (h : Committed c) (s : SameData c c') : Committed c' :=
  ⟨by rw [s.blocks, s.st]; exact h.1, by rw [s.app, s.st]; exact h.2.1, by rw [s.appHash, s.blocks]; exact h.2.2.1,
   by rw [s.st]; exact s.resp _ h.2.2.2⟩

/-- the block at index `st` of a world whose store is one ahead, and its header hash -/
theorem last_block {c : Core} (hi : Inv c) (hlen : c.blocks.length = c.st + 1) :
    ∃ b, c.blocks[c.st]? = some b ∧ b.appHash = c.stHash := by
  have hlt : c.st < c.blocks.length := by omega
  refine ⟨c.blocks[c.st], List.getElem?_eq_getElem hlt, ?_⟩
  rw [hi.chained c.st hlt, hi.stHashEq]

/-- what the handshake achieves from a world satisfying the invariant -/
structure HsGoal (c : Core) (evs : List Ev) : Prop where
  along : AllAlong Inv c evs
  synced : Synced (applyAllCore c evs)
  blocks : (applyAllCore c evs).blocks = c.blocks
  st : (applyAllCore c evs).st = c.blocks.length
  stRec : (applyAllCore c evs).stRec = true

theorem replayBlocks_of_inv {c : Core} (hi : Inv c) (hr : c.stRec = true) :
    ∃ evs, replayBlocksEvs c = .ok evs ∧ HsGoal c evs := by
  obtain ⟨a1, s1⟩ := harmless_along hi (initChain_harmless c)
  have hi1 : Inv (applyAllCore c (initChainEvs c)) := a1.end_
  have hr1 : (applyAllCore c (initChainEvs c)).stRec = true := s1.stRec hr
  rcases hi.shape with hs | hs | hs
  · refine ⟨_, replayBlocksEvs_synced hs, a1, hs.of_sameData s1, s1.blocks, ?_, hr1⟩
    rw [s1.st]; exact hs.1.symm
  · obtain ⟨b, hb, hbh⟩ := last_block hi hs.1
    refine ⟨_, replayBlocksEvs_saved hs hb hbh, ?_⟩
    have hs1 := hs.of_sameData s1
    have hb1 : (applyAllCore c (initChainEvs c)).blocks[(applyAllCore c (initChainEvs c)).st]? = some b := by
      rw [s1.blocks, s1.st]; exact hb
    obtain ⟨b1, b2, b3, b4, b5⟩ := real_apply_along hi1 hs1 hr1 hb1 c.ver
    rw [s1.st, s1.appHash] at b1 b2 b3 b4 b5
    have hf := applyEvs_filter (c.st + 1) b c.appHash c.ver
    refine ⟨a1.append (AllAlong.of_filter (by rw [hf]; exact b1)), ?_, ?_, ?_, ?_⟩
    all_goals rw [applyAllCore_append, applyAllCore_filter _ (applyEvs _ _ _ _), hf]
    · exact b2
    · rw [b3, s1.blocks]
    · rw [b4, hs.1]
    · exact b5
  · obtain ⟨b, hb, hbh⟩ := last_block hi hs.1
    refine ⟨_, replayBlocksEvs_committed hs hb hbh, ?_⟩
    have hs1 := hs.of_sameData s1
    obtain ⟨b1, b2, b3, b4, b5⟩ := mock_apply_along hi1 hs1 c.ver
    rw [s1.st, s1.appHash] at b1 b2 b3 b4 b5
    have hf := mockApplyEvs_filter (c.st + 1) b c.appHash c.ver
    refine ⟨a1.append (AllAlong.of_filter (by rw [hf]; exact b1)), ?_, ?_, ?_, ?_⟩
    all_goals rw [applyAllCore_append, applyAllCore_filter _ (mockApplyEvs _ _ _ _), hf]
    · exact b2
    · rw [b3, s1.blocks]
    · rw [b4, hs.1]
    · exact b5

theorem newNode_of_inv {c : Core} (hi : Inv c) :
    ∃ evs, newNode c = .ok (evs, applyAllCore c evs) ∧ HsGoal c evs := by
  obtain ⟨a0, s0⟩ := harmless_along hi (prelude_harmless hi)
  have hi0 : Inv (applyAllCore c (preludeEvs c)) := a0.end_
  obtain ⟨evs, he, g⟩ := replayBlocks_of_inv hi0 (prelude_stRec c)
  have hsy : Synced (applyAllCore c (preludeEvs c ++ evs)) := by
    rw [applyAllCore_append]; exact g.synced
  refine ⟨preludeEvs c ++ evs, ?_, a0.append g.along, hsy, ?_, ?_, ?_⟩
  · have hno : ¬ (1 ≤ (applyAllCore c (preludeEvs c ++ evs)).st ∧
        (applyAllCore c (preludeEvs c ++ evs)).store < (applyAllCore c (preludeEvs c ++ evs)).st) := by
      intro h; have := hsy.1; unfold Core.store at h; omega
    simp [newNode, handshakeEvs, he, hno]
  · rw [applyAllCore_append, g.blocks, s0.blocks]
  · rw [applyAllCore_append, g.st, s0.blocks]
  · rw [applyAllCore_append]; exact g.stRec

/-! ### a running node -/

/-- one whole height from a synced world: every intermediate world satisfies the invariant and
the height ends synced, one higher -/
theorem height_along (d : Disk) (txs : List Tx) (k : Nat) (hi : Inv d.toCore)
    (hs : Synced d.toCore) (hr : d.stRec = true) :
    AllAlong Inv d.toCore (heightEvs d txs k) ∧
    Synced (applyAllCore d.toCore (heightEvs d txs k)) ∧
    (applyAllCore d.toCore (heightEvs d txs k)).stRec = true := by
  obtain ⟨j1, j2, j3, j4⟩ := bsJ_step hi hs hr txs
  obtain ⟨b1, b2, _, _, b5⟩ := real_apply_along j1 j2 j4 j3 d.ver
  have hf := heightEvs_filter d txs k
  refine ⟨AllAlong.of_filter (by rw [hf]; exact ⟨hi, b1⟩), ?_, ?_⟩
  · rw [applyAllCore_filter, hf]; exact b2
  · rw [applyAllCore_filter, hf]; exact b5

theorem heights_along {d : Disk} {run : List Ev} (h : Heights d run) (hi : Inv d.toCore)
    (hs : Synced d.toCore) (hr : d.stRec = true) :
    AllAlong Inv d.toCore run ∧ Synced (applyAllCore d.toCore run) := by
  induction h with
  | done d => exact ⟨hi, hs⟩
  | height d txs k rest _ ih =>
    obtain ⟨a, s, r⟩ := height_along d txs k hi hs hr
    have ih' := ih (by rw [applyAll_toCore]; exact a.end_) (by rw [applyAll_toCore]; exact s)
      (by show (applyAll d (heightEvs d txs k)).toCore.stRec = true; rw [applyAll_toCore]; exact r)
    rw [applyAll_toCore] at ih'
    exact ⟨a.append ih'.1, by rw [applyAllCore_append]; exact ih'.2⟩

theorem inert_wE (n : Nat) : Inert (.wE n) := fun _ => rfl

theorem walOpen_inert (d : Disk) : ∀ e ∈ walOpenEvs d, Inert e := by
  intro e he
  unfold walOpenEvs at he
  split at he
  · simp at he; subst he; exact inert_wE 0
  · simp at he

/-- every trace of a process started on a world satisfying the invariant keeps it at every step -/
theorem proc_along {d : Disk} {evs : List Ev} (hi : Inv d.toCore) (hp : Proc d evs) :
    Inv (applyAll d evs).toCore := by
  rw [applyAll_toCore]
  obtain ⟨hs, hn, g⟩ := newNode_of_inv hi
  cases hp with
  | handshake hsEvs c1 pre h1 h2 =>
    rw [hn] at h1; cases h1
    exact g.along.prefix h2
  | running hsEvs c1 run pre h1 _ h3 h4 =>
    rw [hn] at h1; cases h1
    have hd1 : (applyAll d hs).toCore = applyAllCore d.toCore hs := applyAll_toCore d hs
    have hw := walOpen_inert (applyAll d hs)
    have hopen : (applyAll (applyAll d hs) (walOpenEvs (applyAll d hs))).toCore = applyAllCore d.toCore hs := by
      rw [applyAll_toCore, applyAllCore_inert hw, hd1]
    obtain ⟨a, _⟩ := heights_along h3 (by rw [hopen]; exact g.along.end_) (by rw [hopen]; exact g.synced)
      (by show (applyAll (applyAll d hs) (walOpenEvs (applyAll d hs))).toCore.stRec = true; rw [hopen]; exact g.stRec)
    rw [hopen] at a
    have hall : AllAlong Inv d.toCore (hs ++ walOpenEvs (applyAll d hs) ++ run) := by
      refine (g.along.append ?_).append ?_
      · exact AllAlong.inert g.along.end_ hw
      · rw [applyAllCore_append, applyAllCore_inert hw]; exact a
    exact hall.prefix h4
  | stalled hsEvs c1 pre h1 _ h3 =>
    rw [hn] at h1; cases h1
    have hw := walOpen_inert (applyAll d hs)
    exact (g.along.append (AllAlong.inert g.along.end_ hw)).prefix h3

theorem inv_empty : Inv Core.empty :=
  ⟨fun i h => by simp [Core.empty] at h, rfl, Or.inl ⟨rfl, rfl, rfl⟩, fun _ => ⟨rfl, rfl, rfl, rfl, rfl⟩⟩

/-- the invariant of every durable world reachable by kills and restarts -/
theorem reach_inv {d : Disk} (h : Reach d) : Inv d.toCore := by
  induction h with
  | genesis => exact inv_empty
  | kill d evs _ hp ih => exact proc_along ih hp

/-! ### blocks only grow, the sign state only rises -/

theorem blocks_mono (c : Core) (l : List Ev) : c.blocks <+: (applyAllCore c l).blocks := by
  induction l generalizing c with
  | nil => exact List.prefix_refl _
  | cons e l ih =>
    rw [applyAllCore_cons]
    refine List.IsPrefix.trans ?_ (ih _)
    cases e <;> first | exact List.prefix_refl _ | exact List.prefix_append _ _

theorem HRS.le_refl (a : HRS) : a.le a = true := by simp [HRS.le]

theorem HRS.le_trans {a b c : HRS} (h1 : a.le b = true) (h2 : b.le c = true) : a.le c = true := by
  simp only [HRS.le, Bool.or_eq_true, Bool.and_eq_true, decide_eq_true_eq, beq_iff_eq] at *
  omega

theorem HRS.le_max (a b : HRS) : a.le (a.max b) = true := by
  unfold HRS.max; split
  · assumption
  · exact HRS.le_refl a

theorem pv_mono (d : Disk) (l : List Ev) : d.pv.le (applyAll d l).pv = true := by
  induction l generalizing d with
  | nil => exact HRS.le_refl _
  | cons e l ih =>
    rw [applyAll_cons]
    refine HRS.le_trans ?_ (ih _)
    cases e <;> first | exact HRS.le_refl _ | exact HRS.le_max _ _

/-! ### the handshake writes to the databases only -/

def isDb : Ev → Bool
  | .stG | .stR _ | .stT | .stP | .stV | .stS _ _ _ | .apC | .apK | .apS _ _ => true
  | _ => false

theorem apply_db_log {d : Disk} {e : Ev} (h : isDb e = true) :
    (apply d e).wal = d.wal ∧ (apply d e).pv = d.pv := by
  cases e <;> first | exact ⟨rfl, rfl⟩ | simp [isDb] at h

theorem applyAll_db_log {d : Disk} {l : List Ev} (h : ∀ e ∈ l, isDb e = true) :
    (applyAll d l).wal = d.wal ∧ (applyAll d l).pv = d.pv := by
  induction l generalizing d with
  | nil => exact ⟨rfl, rfl⟩
  | cons e l ih =>
    rw [applyAll_cons]
    obtain ⟨a, b⟩ := ih (d := apply d e) (fun e' he' => h e' (by simp [he']))
    obtain ⟨a', b'⟩ := apply_db_log (d := d) (h e (by simp))
    exact ⟨a.trans a', b.trans b'⟩

theorem saveState_db {e : Ev} {s h : Nat} {v : Bool} (he : e ∈ saveStateEvs s h v) : isDb e = true := by
  rcases mem_saveStateEvs he with rfl | rfl | rfl <;> rfl

theorem prelude_db (c : Core) : ∀ e ∈ preludeEvs c, isDb e = true := by
  intro e he
  simp only [preludeEvs, List.mem_append] at he
  rcases he with (he | he) | he <;> split at he
  all_goals first
    | (simp at he; done)
    | exact saveState_db he
    | (simp at he; subst he; rfl)

theorem initChain_db (c : Core) : ∀ e ∈ initChainEvs c, isDb e = true := by
  intro e he
  unfold initChainEvs at he
  split at he
  · simp only [List.mem_append, List.mem_cons, List.not_mem_nil, or_false] at he
    rcases he with rfl | he
    · rfl
    · split at he
      · exact saveState_db he
      · simp at he
  · simp at he

theorem applyEvs_db (h : Nat) (b : Block) (cur : Nat) (v : Bool) : ∀ e ∈ applyEvs h b cur v, isDb e = true := by
  intro e he
  simp only [applyEvs, List.mem_append, List.mem_cons, List.mem_replicate, List.not_mem_nil, or_false] at he
  rcases he with (((rfl | ⟨_, rfl⟩) | rfl) | ⟨_, rfl⟩) | (rfl | rfl | rfl | rfl) <;> rfl

theorem mockApplyEvs_db (h : Nat) (b : Block) (cur : Nat) (v : Bool) : ∀ e ∈ mockApplyEvs h b cur v, isDb e = true := by
  intro e he
  simp only [mockApplyEvs, List.mem_append, List.mem_cons, List.mem_replicate, List.not_mem_nil, or_false] at he
  rcases he with (rfl | ⟨_, rfl⟩) | (rfl | rfl | rfl) <;> rfl

theorem replayBlocks_db {c : Core} (hi : Inv c) {evs : List Ev} (h : replayBlocksEvs c = .ok evs) :
    ∀ e ∈ evs, isDb e = true := by
  rcases hi.shape with hs | hs | hs
  · rw [replayBlocksEvs_synced hs] at h; cases h; exact initChain_db c
  · obtain ⟨b, hb, hbh⟩ := last_block hi hs.1
    rw [replayBlocksEvs_saved hs hb hbh] at h; cases h
    intro e he
    rcases List.mem_append.mp he with he | he
    · exact initChain_db c e he
    · exact applyEvs_db _ _ _ _ e he
  · obtain ⟨b, hb, hbh⟩ := last_block hi hs.1
    rw [replayBlocksEvs_committed hs hb hbh] at h; cases h
    intro e he
    rcases List.mem_append.mp he with he | he
    · exact initChain_db c e he
    · exact mockApplyEvs_db _ _ _ _ e he

theorem newNode_db {c : Core} (hi : Inv c) {evs : List Ev} {c' : Core} (h : newNode c = .ok (evs, c')) :
    ∀ e ∈ evs, isDb e = true := by
  obtain ⟨a0, _⟩ := harmless_along hi (prelude_harmless hi)
  have hi0 : Inv (applyAllCore c (preludeEvs c)) := a0.end_
  unfold newNode handshakeEvs at h
  cases hr : replayBlocksEvs (applyAllCore c (preludeEvs c)) with
  | error e => simp [hr] at h
  | ok evs' =>
    simp only [hr] at h
    split at h
    · cases h
    · cases h
      intro e he
      rcases List.mem_append.mp he with he | he
      · exact prelude_db c e he
      · exact replayBlocks_db hi0 hr e he

/-! ### torn WAL records -/

theorem apply_no_torn {d : Disk} {e : Ev} (h : Rec.torn ∉ d.wal) : Rec.torn ∉ (apply d e).wal := by
  cases e <;> first
    | exact h
    | (show Rec.torn ∉ d.wal ++ [_]; simp [h])

theorem applyAll_no_torn {d : Disk} {l : List Ev} (h : Rec.torn ∉ d.wal) : Rec.torn ∉ (applyAll d l).wal := by
  induction l generalizing d with
  | nil => exact h
  | cons e l ih => rw [applyAll_cons]; exact ih (apply_no_torn h)

theorem reach_no_torn {d : Disk} (h : Reach d) : Rec.torn ∉ d.wal := by
  induction h with
  | genesis => simp [Disk.empty]
  | kill d evs _ _ ih => exact applyAll_no_torn ih

theorem afterMark_subset {w seg : List Rec} {n : Nat} (h : afterMark w n = some seg) :
    ∀ r ∈ seg, r ∈ w := by
  induction w with
  | nil => simp [afterMark] at h
  | cons a w ih =>
    unfold afterMark at h
    split at h
    · cases h; intro r hr; exact List.mem_cons_of_mem _ hr
    · intro r hr; exact List.mem_cons_of_mem _ (ih h r hr)

theorem noTornInside_of_not_mem : ∀ {seg : List Rec}, Rec.torn ∉ seg → noTornInside seg = true
  | [], _ => rfl
  | [_], _ => rfl
  | a :: b :: rest, h => by
    have hrest : Rec.torn ∉ b :: rest := fun hm => h (List.mem_cons_of_mem _ hm)
    have ha : a ≠ Rec.torn := fun he => h (by simp [he])
    cases a <;> first
      | exact absurd rfl ha
      | (simp only [noTornInside]; exact noTornInside_of_not_mem hrest)

/-- a world without partial lines in its WAL starts -/
theorem startOK_of_no_torn {d : Disk} (h : Rec.torn ∉ d.wal) : startOK d = true := by
  unfold startOK
  split
  · rfl
  · rename_i seg hs
    exact noTornInside_of_not_mem (fun hm => h (afterMark_subset hs _ hm))

theorem noTornInside_tail : ∀ {seg : List Rec}, Rec.torn ∉ seg → noTornInside (seg ++ [Rec.torn]) = true
  | [], _ => rfl
  | [a], h => by
    have ha : a ≠ Rec.torn := fun he => h (by simp [he])
    cases a <;> first | exact absurd rfl ha | rfl
  | a :: b :: rest, h => by
    have hrest : Rec.torn ∉ b :: rest := fun hm => h (List.mem_cons_of_mem _ hm)
    have ha : a ≠ Rec.torn := fun he => h (by simp [he])
    have ih := noTornInside_tail hrest
    cases a <;> first
      | exact absurd rfl ha
      | (simpa only [List.cons_append, noTornInside] using ih)

theorem afterMark_append_torn {w : List Rec} {n : Nat} :
    afterMark (w ++ [Rec.torn]) n = (afterMark w n).map (· ++ [Rec.torn]) := by
  induction w with
  | nil => simp [afterMark]
  | cons a w ih =>
    simp only [List.cons_append, afterMark]
    split
    · rfl
    · exact ih

/-- the partial line alone does no harm: the world left by a kill inside a write still starts -/
theorem startOK_tornKill {d : Disk} (h : Rec.torn ∉ d.wal) : startOK (tornKill d) = true := by
  unfold startOK tornKill
  simp only [afterMark_append_torn]
  cases hs : afterMark d.wal (d.st + 1) with
  | none => rfl
  | some seg =>
    simp only [Option.map_some]
    exact noTornInside_tail (fun hm => h (afterMark_subset hs _ hm))

/-! ### the case table is exhaustive for every input -/

theorem replayLoop_not_uncovered (c : Core) : ∀ fuel i last cur first,
    replayLoop c fuel i last cur first ≠ .error .uncovered := by
  intro fuel
  induction fuel with
  | zero => intro i last cur first h; simp [replayLoop] at h
  | succ n ih =>
    intro i last cur first h
    unfold replayLoop at h
    split at h
    · cases h
    · split at h
      · cases h
      · split at h
        · cases h
        · dsimp only at h
          split at h
          · rename_i e he
            cases h
            exact ih _ _ _ _ he
          · cases h

theorem replayLast_not_uncovered (c : Core) (a b : Nat) (m : Bool) :
    replayLast c a b m ≠ .error .uncovered := by
  intro h
  unfold replayLast at h
  dsimp only at h
  split at h
  · cases h
  · split at h
    · cases h
    · split at h <;> cases h

/-- the `panic("uncovered case!")` at the end of `ReplayBlocks` is dead code: for EVERY triple of
heights and every content of the databases the case analysis above it is exhaustive -/
theorem replayBlocks_not_uncovered (c : Core) : replayBlocksEvs c ≠ .error .uncovered := by
  intro h
  unfold replayBlocksEvs at h
  dsimp only at h
  repeat' split at h
  all_goals first
    | (cases h; done)
    | (cases h; rename_i he; first
        | exact replayLoop_not_uncovered _ _ _ _ _ _ he
        | exact replayLast_not_uncovered _ _ _ _ he)
    | (simp only [Core.store] at *; omega)

theorem newNode_not_uncovered (c : Core) : newNode c ≠ .error .uncovered := by
  intro h
  unfold newNode handshakeEvs at h
  dsimp only at h
  cases hr : replayBlocksEvs (applyAllCore c (preludeEvs c)) with
  | error e =>
    simp only [hr] at h
    cases h
    exact replayBlocks_not_uncovered _ hr
  | ok evs =>
    simp only [hr] at h
    split at h <;> cases h

end GnoVerif.C33
