import GnoVerif.Model.C45
/-!
C45 helper lemmas, part 1: the checksum round is GF(2)-affine in the state,
its linear part `shiftMix` is injective on 30-bit states, and the orbit of a
non-zero 5-bit symbol under `shiftMix` never reaches `0` nor `1 ⊕ 0x2bc830a3`.
-/
namespace GnoVerif.C45

theorem ite_bxor (x y : Bool) (g : BitVec 32) :
    (if (x ^^ y) = true then g else 0#32) = (if x = true then g else 0#32) ^^^ (if y = true then g else 0#32) := by
  cases x <;> cases y <;> simp

theorem genMix_xor (a b : BitVec 32) : genMix (a ^^^ b) = genMix a ^^^ genMix b := by
  simp only [genMix, BitVec.getLsbD_xor, ite_bxor]
  ac_rfl

theorem and_xor_mask (a b m : BitVec 32) : (a ^^^ b) &&& m = (a &&& m) ^^^ (b &&& m) := by
  ext i hi
  simp [Bool.and_xor_distrib_right]

theorem shiftMix_xor (a b : BitVec 32) : shiftMix (a ^^^ b) = shiftMix a ^^^ shiftMix b := by
  simp only [shiftMix, and_xor_mask, BitVec.shiftLeft_xor_distrib, BitVec.ushiftRight_xor_distrib, genMix_xor]
  ac_rfl

theorem genMix_zero : genMix 0#32 = 0#32 := by decide
theorem shiftMix_zero : shiftMix 0#32 = 0#32 := by decide

/-! ### the state stays inside 30 bits -/

theorem genMix_lt (b : BitVec 32) : (genMix b).toNat < 2 ^ 30 := by
  simp only [genMix]
  cases b.getLsbD 0 <;> cases b.getLsbD 1 <;> cases b.getLsbD 2 <;> cases b.getLsbD 3 <;>
    cases b.getLsbD 4 <;> decide

theorem mask_toNat (c : BitVec 32) : (c &&& 0x1ffffff#32).toNat = c.toNat % 2 ^ 25 := by
  rw [BitVec.toNat_and]
  exact Nat.and_two_pow_sub_one_eq_mod c.toNat 25

theorem shiftPart_toNat (c : BitVec 32) :
    ((c &&& 0x1ffffff#32) <<< 5).toNat = (c.toNat % 2 ^ 25) * 32 := by
  rw [BitVec.toNat_shiftLeft, mask_toNat, Nat.shiftLeft_eq]
  have : c.toNat % 2 ^ 25 < 2 ^ 25 := Nat.mod_lt _ (by decide)
  omega

theorem shiftMix_lt (c : BitVec 32) : (shiftMix c).toNat < 2 ^ 30 := by
  unfold shiftMix
  rw [BitVec.toNat_xor]
  apply Nat.xor_lt_two_pow
  · rw [shiftPart_toNat]
    have : c.toNat % 2 ^ 25 < 2 ^ 25 := Nat.mod_lt _ (by decide)
    omega
  · exact genMix_lt _

theorem polymodStep_lt (c v : BitVec 32) (hv : v.toNat < 2 ^ 30) : (polymodStep c v).toNat < 2 ^ 30 := by
  unfold polymodStep
  rw [BitVec.toNat_xor]
  exact Nat.xor_lt_two_pow (shiftMix_lt c) hv

/-! ### the linear part is injective on 30-bit states -/

/-- the low five bits of the generator combination determine the five top state bits. -/
theorem genMix_low_inj : ∀ k : Fin 32, genMix (BitVec.ofNat 32 k.val) &&& 31#32 = 0#32 → k.val = 0 := by
  decide

theorem shiftMix_eq_zero (c : BitVec 32) (hc : c.toNat < 2 ^ 30) (h : shiftMix c = 0#32) : c = 0#32 := by
  unfold shiftMix at h
  rw [BitVec.xor_eq_zero_iff] at h
  have hb : (c >>> 25).toNat < 32 := by
    rw [BitVec.toNat_ushiftRight, Nat.shiftRight_eq_div_pow]; omega
  -- low five bits of the shifted part are zero
  have hlow : (genMix (c >>> 25) &&& 31#32) = 0#32 := by
    rw [← h]
    apply BitVec.eq_of_toNat_eq
    rw [BitVec.toNat_and, shiftPart_toNat]
    show (c.toNat % 2 ^ 25 * 32) &&& (2 ^ 5 - 1) = 0
    rw [Nat.and_two_pow_sub_one_eq_mod]
    omega
  have hk := genMix_low_inj ⟨(c >>> 25).toNat, hb⟩
  simp only [BitVec.ofNat_toNat, BitVec.setWidth_eq] at hk
  have hb0 := hk hlow
  have hbz : c >>> 25 = 0#32 := by
    apply BitVec.eq_of_toNat_eq; simpa using hb0
  rw [hbz, genMix_zero] at h
  have h2 := congrArg BitVec.toNat h
  rw [shiftPart_toNat] at h2
  rw [BitVec.toNat_ushiftRight, Nat.shiftRight_eq_div_pow] at hb0
  apply BitVec.eq_of_toNat_eq
  simp only [BitVec.toNat_ofNat] at h2 ⊢
  omega

theorem shiftMix_injective (a b : BitVec 32) (ha : a.toNat < 2 ^ 30) (hb : b.toNat < 2 ^ 30)
    (h : shiftMix a = shiftMix b) : a = b := by
  have h0 : shiftMix (a ^^^ b) = 0#32 := by rw [shiftMix_xor, h, BitVec.xor_self]
  have hlt : (a ^^^ b).toNat < 2 ^ 30 := by
    rw [BitVec.toNat_xor]; exact Nat.xor_lt_two_pow ha hb
  exact BitVec.xor_eq_zero_iff.mp (shiftMix_eq_zero _ hlt h0)

end GnoVerif.C45
