import GnoVerif.Proofs.C05Pack
import GnoVerif.Proofs.C05Fuel
set_option linter.unusedSimpArgs false
namespace GnoVerif.C05

namespace L

/-- one-bit RNE step as the code does it: `up` iff round bit ∧ (sticky ∨ odd quotient) -/
theorem rneShift_one (n : Nat) (st : Bool) :
    rneShift n 1 st = (n + (if n % 2 = 1 ∧ (st = true ∨ n / 2 % 2 = 1) then 1 else 0)) / 2 := by
  unfold rneShift
  simp only [Nat.one_ne_zero, if_false, Nat.sub_self, Nat.pow_zero, Nat.pow_one]
  have h2 : n % 2 < 2 := Nat.mod_lt _ (by decide)
  by_cases hc : (n % 2 = 1 ∧ (st = true ∨ n / 2 % 2 = 1))
  · have : (1 < n % 2 ∨ n % 2 = 1 ∧ (st = true ∨ n / 2 % 2 = 1)) := Or.inr hc
    rw [if_pos this, if_pos hc]; omega
  · have : ¬ (1 < n % 2 ∨ n % 2 = 1 ∧ (st = true ∨ n / 2 % 2 = 1)) := by
      rintro (h | h)
      · omega
      · exact hc h
    rw [if_neg this, if_neg hc]; omega

/-- sticky composition: shifting out `a` bits into the sticky flag first does not change the rounding -/
theorem rneShift_split (n a b : Nat) (hb : 0 < b) (st : Bool) :
    rneShift n (a + b) st = rneShift (n / 2^a) b (st || decide (n % 2^a ≠ 0)) := by
  have hab : a + b ≠ 0 := by omega
  have hb0 : b ≠ 0 := by omega
  unfold rneShift
  simp only [hab, hb0, if_false]
  -- names
  have hA : 0 < 2^a := Nat.two_pow_pos a
  obtain ⟨H, hH⟩ : ∃ H, H = 2^(b-1) := ⟨_, rfl⟩
  have hHpos : 0 < H := by rw [hH]; exact Nat.two_pow_pos _
  have hB : 2^b = 2 * H := by
    rw [hH, show b = (b - 1) + 1 by omega, Nat.pow_succ]; simp; omega
  have hAB : 2^(a+b) = 2^a * (2 * H) := by rw [Nat.pow_add, hB]
  have hhalf : 2^(a+b-1) = 2^a * H := by
    rw [show a + b - 1 = a + (b-1) by omega, Nat.pow_add, hH]
  have hq : n / 2^(a+b) = n / 2^a / 2^b := by rw [Nat.pow_add, Nat.div_div_eq_div_mul]
  generalize hA' : 2^a = A at *
  -- decomposition n = A * (n/A) + n%A, n/A = 2H * q + r'
  have d1 := Nat.div_add_mod n A
  have d2 := Nat.div_add_mod (n / A) (2 * H)
  have hlow : n % A < A := Nat.mod_lt _ hA
  have hr' : n / A % (2 * H) < 2 * H := Nat.mod_lt _ (by omega)
  have hr : n % (A * (2 * H)) = A * (n / A % (2 * H)) + n % A := by
    rw [Nat.mod_mul, Nat.add_comm]
  rw [hq, hAB, hhalf, hB, hr]
  generalize n / A % (2 * H) = r' at *
  generalize n % A = low at *
  generalize n / A / (2 * H) = q at *
  -- compare A*r' + low with A*H
  have key1 : (A * H < A * r' + low) ↔ (H < r' ∨ (r' = H ∧ low ≠ 0)) := by
    constructor
    · intro h
      by_cases hlt : H < r'
      · exact Or.inl hlt
      · by_cases heq : r' = H
        · subst heq; right; exact ⟨rfl, by omega⟩
        · have : r' + 1 ≤ H := by omega
          have : A * (r' + 1) ≤ A * H := Nat.mul_le_mul_left _ this
          rw [Nat.mul_add] at this; omega
    · rintro (h | ⟨h, hl⟩)
      · have : A * (H + 1) ≤ A * r' := Nat.mul_le_mul_left _ h
        rw [Nat.mul_add] at this; omega
      · subst h; omega
  have key2 : (A * r' + low = A * H) ↔ (r' = H ∧ low = 0) := by
    constructor
    · intro h
      by_cases hlt : H < r'
      · have : A * (H + 1) ≤ A * r' := Nat.mul_le_mul_left _ hlt
        rw [Nat.mul_add] at this; omega
      · by_cases heq : r' = H
        · subst heq; exact ⟨rfl, by omega⟩
        · have : r' + 1 ≤ H := by omega
          have : A * (r' + 1) ≤ A * H := Nat.mul_le_mul_left _ this
          rw [Nat.mul_add] at this; omega
    · rintro ⟨h, hl⟩; subst h; omega
  simp only [key1, key2, ← hH]
  cases st <;> by_cases hl : low = 0 <;> by_cases h1 : H < r' <;> by_cases h2 : r' = H <;>
    simp [hl, h1, h2] <;> omega


open GnoVerif.Gen.C05

theorem and_one_eq_zero_iff (m : BitVec 64) : (m &&& 1#64) = 0#64 ↔ m.toNat % 2 = 0 := by
  constructor
  · intro h
    have := congrArg BitVec.toNat h
    simp only [BitVec.toNat_and, BitVec.toNat_ofNat] at this
    have e : m.toNat &&& 1 = m.toNat % 2 := Nat.and_one_is_mod _
    simp at this; omega
  · intro h
    apply BitVec.eq_of_toNat_eq
    simp only [BitVec.toNat_and, BitVec.toNat_ofNat]
    have e : m.toNat &&& 1 = m.toNat % 2 := Nat.and_one_is_mod _
    simp; omega

theorem or_eq_zero_iff64 (a b : BitVec 64) : (a ||| b) = 0#64 ↔ a = 0#64 ∧ b = 0#64 := by
  constructor
  · intro h
    have h' := congrArg BitVec.toNat h
    simp only [BitVec.toNat_or, BitVec.toNat_ofNat, Nat.zero_mod] at h'
    have := Nat.or_eq_zero_iff.1 h'
    exact ⟨BitVec.eq_of_toNat_eq (by simpa using this.1), BitVec.eq_of_toNat_eq (by simpa using this.2)⟩
  · rintro ⟨rfl, rfl⟩; simp

theorem mod_two_pow_succ_eq_zero (n c : Nat) : n % 2^(c+1) = 0 ↔ (n % 2 = 0 ∧ (n / 2) % 2^c = 0) := by
  rw [Nat.pow_succ, Nat.mul_comm]
  have h := Nat.mod_mul (a := 2) (b := 2^c) (x := n)
  rw [h]
  have : n % 2 < 2 := Nat.mod_lt _ (by decide)
  constructor
  · intro h0; omega
  · rintro ⟨h1, h2⟩; rw [h1, h2]

/-- the right-normalising loop of `fpack64`: `c` shifts, the shifted-out bits go to the sticky word -/
theorem fpack64_loop2_spec (fuel : Nat) : ∀ (e m t : BitVec 64), m.toNat < 2^54 * 2^fuel →
    ∃ c t', c ≤ fuel ∧ fpack64_loop2 fuel e m t = (e + BitVec.ofNat 64 c, m >>> c, t') ∧
      (m >>> c).toNat < 2^54 ∧ (c ≠ 0 → 2^53 ≤ (m >>> c).toNat) ∧
      (t' = 0#64 ↔ (t = 0#64 ∧ m.toNat % 2^c = 0)) := by
  induction fuel with
  | zero =>
    intro e m t h
    refine ⟨0, t, Nat.le_refl _, ?_, ?_, ?_, ?_⟩
    · simp [fpack64_loop2]
    · simpa using h
    · intro h; exact absurd rfl h
    · simp [Nat.mod_one]
  | succ n ih =>
    intro e m t h
    rw [fpack64_loop2_succ]
    by_cases hge : 2^54 ≤ m.toNat
    · have c : BitVec.ule 18014398509481984#64 m = true := by simp [BitVec.ule]; omega
      simp only [c, if_true]
      have hm1 : (m >>> 1).toNat = m.toNat / 2 := by
        rw [BitVec.toNat_ushiftRight, Nat.shiftRight_eq_div_pow]
      obtain ⟨c', t', hc', heq, hlt, hge', ht'⟩ := ih (e + 1#64) (m >>> 1) (t ||| (m &&& 1#64))
        (by rw [hm1]; rw [Nat.pow_succ] at h; omega)
      refine ⟨c' + 1, t', by omega, ?_, ?_, ?_, ?_⟩
      · rw [heq]
        congr 1
        · rw [BitVec.add_assoc]; congr 1
          apply BitVec.eq_of_toNat_eq; simp [BitVec.toNat_add]; omega
        · congr 1
          rw [← BitVec.shiftRight_add, Nat.add_comm]
      · rw [show m >>> (c' + 1) = m >>> 1 >>> c' by rw [← BitVec.shiftRight_add, Nat.add_comm]]; exact hlt
      · intro _
        rw [show m >>> (c' + 1) = m >>> 1 >>> c' by rw [← BitVec.shiftRight_add, Nat.add_comm]]
        by_cases hc0 : c' = 0
        · subst hc0; simp only [BitVec.ushiftRight_zero]; rw [hm1]; omega
        · exact hge' hc0
      · rw [ht', or_eq_zero_iff64, and_one_eq_zero_iff, hm1, mod_two_pow_succ_eq_zero]
        constructor
        · rintro ⟨⟨h1, h2⟩, h3⟩; exact ⟨h1, h2, h3⟩
        · rintro ⟨h1, h2, h3⟩; exact ⟨⟨h1, h2⟩, h3⟩
    · have c : BitVec.ule 18014398509481984#64 m = false := by simp [BitVec.ule]; omega
      simp only [c]
      refine ⟨0, t, by omega, ?_, ?_, ?_, ?_⟩
      · simp
      · simp; omega
      · intro h; exact absurd rfl h
      · simp [Nat.mod_one]


/-- the denormalising loop of `fpack64`: `d = -1023 - exp` shifts with sticky -/
theorem fpack64_loop3_spec (d : Nat) : ∀ (fuel : Nat) (e m t : BitVec 64), d ≤ fuel →
    e.toInt = -1023 - (d : Int) →
    ∃ t', fpack64_loop3 fuel e m t = (BitVec.ofInt 64 (-1023), m >>> d, t') ∧
      (t' = 0#64 ↔ (t = 0#64 ∧ m.toNat % 2^d = 0)) := by
  induction d with
  | zero =>
    intro fuel e m t _ he
    have hE : e = BitVec.ofInt 64 (-1023) := by
      apply BitVec.eq_of_toInt_eq; rw [toInt_lit_neg1023]; omega
    subst hE
    refine ⟨t, ?_, by simp [Nat.mod_one]⟩
    cases fuel with
    | zero => simp [fpack64_loop3]
    | succ n =>
      rw [fpack64_loop3_succ]
      have : BitVec.slt (BitVec.ofInt 64 (-1023)) (BitVec.ofInt 64 (-1023)) = false := by decide
      simp only [this, Bool.false_eq_true, if_false, BitVec.ushiftRight_zero]
  | succ j ih =>
    intro fuel e m t hf he
    cases fuel with
    | zero => omega
    | succ n =>
      rw [fpack64_loop3_succ]
      have c : BitVec.slt e (BitVec.ofInt 64 (-1023)) = true := by
        simp only [BitVec.slt, toInt_lit_neg1023]; simp; omega
      simp only [c, if_true]
      have he' : (e + 1#64).toInt = -1023 - (j : Int) := by
        rw [toInt_add_one e (by omega)]; omega
      have hm1 : (m >>> 1).toNat = m.toNat / 2 := by
        rw [BitVec.toNat_ushiftRight, Nat.shiftRight_eq_div_pow]
      obtain ⟨t', heq, ht'⟩ := ih n (e + 1#64) (m >>> 1) (t ||| (m &&& 1#64)) (by omega) he'
      refine ⟨t', ?_, ?_⟩
      · rw [heq, ← BitVec.shiftRight_add, Nat.add_comm]
      · rw [ht', or_eq_zero_iff64, and_one_eq_zero_iff, hm1, mod_two_pow_succ_eq_zero]
        constructor
        · rintro ⟨⟨h1, h2⟩, h3⟩; exact ⟨h1, h2, h3⟩
        · rintro ⟨h1, h2, h3⟩; exact ⟨⟨h1, h2⟩, h3⟩


/-! ### `fpack64` cut into its phases (definitionally the generated code) -/

def assemble64 (sign exp mant : BitVec 64) : BitVec 64 :=
  ((sign ||| ((exp - (BitVec.ofInt 64 (-1023))) <<< 52)) ||| (mant &&& 4503599627370495#64))

def roundUp64 (mant trunc : BitVec 64) : Bool :=
  (((mant &&& 1#64) != 0#64) && ((trunc != 0#64) || ((mant &&& 2#64) != 0#64)))

def roundStep64 (exp mant trunc : BitVec 64) : BitVec 64 × BitVec 64 :=
  (if (BitVec.ule 9007199254740992#64 mant) then
      let (exp, mant) := (if roundUp64 mant trunc then
        let mant := (mant + 1#64)
        let (exp, mant) := (if (BitVec.ule 18014398509481984#64 mant) then
          let mant := (mant >>> 1)
          let exp := (exp + 1#64)
          (exp, mant)
        else
          (exp, mant))
        (exp, mant)
      else
        (exp, mant))
      let mant := (mant >>> 1)
      let exp := (exp + 1#64)
      (exp, mant)
    else
      (exp, mant))

def denormTail64 (sign mant0 exp0 trunc0 : BitVec 64) : BitVec 64 :=
  let (mant, exp, trunc) := (mant0, exp0, trunc0)
  let (exp, mant, trunc) := fpack64_loop3 loopFuel exp mant trunc
  let mant := (if roundUp64 mant trunc then
    let mant := (mant + 1#64)
    mant
  else
    mant)
  let mant := (mant >>> 1)
  let exp := (exp + 1#64)
  if (BitVec.ult mant 4503599627370496#64) then
    (sign ||| mant)
  else
    assemble64 sign exp mant

def tail64 (sign mant0 exp0 trunc0 exp mant : BitVec 64) : BitVec 64 :=
  if (BitVec.sle 1024#64 exp) then
    (sign ^^^ 9218868437227405312#64)
  else
    if (BitVec.slt exp (BitVec.ofInt 64 (-1022))) then
      if (BitVec.slt exp (BitVec.ofInt 64 (-1075))) then
        (sign ||| 0#64)
      else
        denormTail64 sign mant0 exp0 trunc0
    else
      assemble64 sign exp mant

theorem fpack64_phases (sign mant exp trunc : BitVec 64) :
    fpack64 sign mant exp trunc =
      if (mant == 0#64) then sign else
        let (exp, mant) := fpack64_loop1 loopFuel exp mant
        let (exp2, mant2, trunc2) := fpack64_loop2 loopFuel exp mant trunc
        let (exp3, mant3) := roundStep64 exp2 mant2 trunc2
        tail64 sign mant exp trunc exp3 mant3 := by
  unfold fpack64 tail64 denormTail64 roundStep64 roundUp64 assemble64
  rfl


theorem and_two_ne_zero_iff (m : BitVec 64) : ((m &&& 2#64) != 0#64) = true ↔ m.toNat / 2 % 2 = 1 := by
  have e : (m &&& 2#64).toNat = (m.toNat / 2 % 2) * 2 := by
    rw [BitVec.toNat_and]
    show m.toNat &&& 2^1 = _
    rw [nat_and_two_pow]
  constructor
  · intro h
    have hne : (m &&& 2#64) ≠ 0#64 := by simpa using h
    have : (m &&& 2#64).toNat ≠ 0 := fun h0 => hne (BitVec.eq_of_toNat_eq (by simpa using h0))
    omega
  · intro h
    have : (m &&& 2#64) ≠ 0#64 := by
      intro h0
      have := congrArg BitVec.toNat h0
      rw [e] at this; simp at this; omega
    simpa using this

theorem roundUp64_iff (m t : BitVec 64) :
    roundUp64 m t = true ↔ (m.toNat % 2 = 1 ∧ ((decide (t ≠ 0#64)) = true ∨ m.toNat / 2 % 2 = 1)) := by
  unfold roundUp64
  rw [Bool.and_eq_true, Bool.or_eq_true, and_two_ne_zero_iff]
  have h1 : ((m &&& 1#64) != 0#64) = true ↔ m.toNat % 2 = 1 := by
    have := and_one_eq_zero_iff m
    constructor
    · intro h
      have hne : (m &&& 1#64) ≠ 0#64 := by simpa using h
      have : ¬ (m.toNat % 2 = 0) := fun h0 => hne (this.2 h0)
      omega
    · intro h
      have : (m &&& 1#64) ≠ 0#64 := fun h0 => by have := this.1 h0; omega
      simpa using this
  rw [h1]
  simp

theorem toInt_add_small (e : BitVec 64) (k : Nat) (he1 : -(2^62) ≤ e.toInt) (he2 : e.toInt < 2^62) (hk : k < 2^32) :
    (e + BitVec.ofNat 64 k).toInt = e.toInt + k := by
  rw [BitVec.toInt_add, BitVec.toInt_ofNat']
  simp only [Int.bmod_def]; omega

/-- the rounding block of `fpack64` on a 54-bit mantissa: nearest-even on one bit, carry into the exponent -/
theorem roundStep64_spec (e m t : BitVec 64) (h1 : 2^53 ≤ m.toNat) (h2 : m.toNat < 2^54) :
    ∃ e3 m3, roundStep64 e m t = (e3, m3) ∧
      ((rneShift m.toNat 1 (decide (t ≠ 0#64)) < 2^53 ∧ e3 = e + 1#64 ∧ m3.toNat = rneShift m.toNat 1 (decide (t ≠ 0#64))) ∨
       (rneShift m.toNat 1 (decide (t ≠ 0#64)) = 2^53 ∧ e3 = e + 1#64 + 1#64 ∧ m3.toNat = 2^52)) := by
  have hc : BitVec.ule 9007199254740992#64 m = true := by simp [BitVec.ule]; omega
  have hm1 : ∀ x : BitVec 64, (x >>> 1).toNat = x.toNat / 2 := by
    intro x; rw [BitVec.toNat_ushiftRight, Nat.shiftRight_eq_div_pow]
  rw [rneShift_one]
  unfold roundStep64
  simp only [hc, if_true]
  by_cases hup : roundUp64 m t = true
  · have hup' := (roundUp64_iff m t).1 hup
    simp only [hup, hup', and_self, if_true]
    have hadd : (m + 1#64).toNat = m.toNat + 1 := by
      rw [BitVec.toNat_add]; simp; omega
    by_cases hcar : 2^54 ≤ m.toNat + 1
    · have c2 : BitVec.ule 18014398509481984#64 (m + 1#64) = true := by simp [BitVec.ule, hadd]; omega
      simp only [c2, if_true]
      refine ⟨_, _, rfl, Or.inr ⟨by omega, rfl, ?_⟩⟩
      rw [hm1, hm1, hadd]; omega
    · have c2 : BitVec.ule 18014398509481984#64 (m + 1#64) = false := by simp [BitVec.ule, hadd]; omega
      simp only [c2, Bool.false_eq_true, if_false]
      refine ⟨_, _, rfl, Or.inl ⟨by omega, rfl, ?_⟩⟩
      rw [hm1, hadd]
  · have hup' : ¬ (m.toNat % 2 = 1 ∧ ((decide (t ≠ 0#64)) = true ∨ m.toNat / 2 % 2 = 1)) :=
      fun h => hup ((roundUp64_iff m t).2 h)
    simp only [hup, hup', Bool.false_eq_true, if_false]
    refine ⟨_, _, rfl, Or.inl ⟨by omega, rfl, ?_⟩⟩
    rw [hm1]; simp

theorem roundStep64_small (e m t : BitVec 64) (h : m.toNat < 2^53) : roundStep64 e m t = (e, m) := by
  have hc : BitVec.ule 9007199254740992#64 m = false := by simp [BitVec.ule]; omega
  unfold roundStep64
  simp only [hc, Bool.false_eq_true, if_false]


theorem toNat_of_toInt_nonneg (x : BitVec 64) (h : 0 ≤ x.toInt) : (x.toNat : Int) = x.toInt := by
  have := x.isLt
  rw [BitVec.toInt_eq_toNat_cond] at h ⊢
  split
  · rfl
  · rename_i hc; rw [if_neg hc] at h; omega

theorem assemble64_eq (s e m : BitVec 64) (hm1 : 2^52 ≤ m.toNat) (hm2 : m.toNat < 2^53)
    (he1 : -1022 ≤ e.toInt) (he2 : e.toInt ≤ 1023) :
    assemble64 s e m = s ||| BitVec.ofNat 64 ((e.toInt + 1023).toNat * 2^52 + (m.toNat - 2^52)) := by
  unfold assemble64
  rw [BitVec.or_assoc]
  have key : (((e - BitVec.ofInt 64 (-1023)) <<< 52) ||| (m &&& 4503599627370495#64)) =
      BitVec.ofNat 64 ((e.toInt + 1023).toNat * 2^52 + (m.toNat - 2^52)) := by
    apply BitVec.eq_of_toNat_eq
    have hx : (e - BitVec.ofInt 64 (-1023)).toInt = e.toInt + 1023 := by
      rw [BitVec.toInt_sub, toInt_lit_neg1023]; simp only [Int.bmod_def]; omega
    have hxn : ((e - BitVec.ofInt 64 (-1023)).toNat : Int) = e.toInt + 1023 := by
      rw [toNat_of_toInt_nonneg _ (by omega), hx]
    rw [BitVec.toNat_or, BitVec.toNat_shiftLeft, toNat_and_mant64, BitVec.toNat_ofNat]
    generalize (e - BitVec.ofInt 64 (-1023)).toNat = X at hxn ⊢
    have hX : X = (e.toInt + 1023).toNat := by omega
    have hXlt : X < 2048 := by omega
    rw [← hX]
    have hb : m.toNat % 2^52 < 2^52 := Nat.mod_lt _ (Nat.two_pow_pos _)
    rw [Nat.mod_eq_of_lt (show X <<< 52 < 2^64 by rw [Nat.shiftLeft_eq]; omega)]
    rw [← Nat.shiftLeft_add_eq_or_of_lt hb, Nat.shiftLeft_eq]
    have : m.toNat % 2^52 = m.toNat - 2^52 := by omega
    rw [this, Nat.mod_eq_of_lt (by omega)]
  rw [key]

theorem xor_inf_eq (s : BitVec 64) (hs : s = 0#64 ∨ s = 9223372036854775808#64) :
    s ^^^ 9218868437227405312#64 = s ||| BitVec.ofNat 64 (2047 * 2^52) := by
  rcases hs with rfl | rfl <;> decide


theorem decide_ne_zero_or (t t' : BitVec 64) (low : Nat) (h : t' = 0#64 ↔ (t = 0#64 ∧ low = 0)) :
    decide (t' ≠ 0#64) = (decide (t ≠ 0#64) || decide (low ≠ 0)) := by
  by_cases h1 : t = 0#64 <;> by_cases h2 : low = 0 <;> by_cases h3 : t' = 0#64 <;> simp_all

/-- the subnormal tail of `fpack64`: one rounding of the ORIGINAL mantissa at the fixed quantum 2^-1074 -/
theorem denormTail64_spec (s m0 e0 t0 : BitVec 64) (D : Nat) (hD1 : 1 ≤ D) (hD2 : D ≤ 128)
    (he : e0.toInt = -1022 - (D : Int)) (hm : m0.toNat < 2^(D-1) * 2^53) :
    denormTail64 s m0 e0 t0 = s ||| BitVec.ofNat 64 (rneShift m0.toNat D (decide (t0 ≠ 0#64))) := by
  obtain ⟨t', hloop, ht'⟩ := fpack64_loop3_spec (D - 1) loopFuel e0 m0 t0 (by unfold loopFuel; omega)
    (by omega)
  have hsplit := rneShift_split m0.toNat (D - 1) 1 (by decide) (decide (t0 ≠ 0#64))
  rw [show D - 1 + 1 = D by omega] at hsplit
  have hm4 : (m0 >>> (D - 1)).toNat = m0.toNat / 2^(D-1) := by
    rw [BitVec.toNat_ushiftRight, Nat.shiftRight_eq_div_pow]
  have hm4lt : (m0 >>> (D - 1)).toNat < 2^53 := by
    rw [hm4, Nat.div_lt_iff_lt_mul (Nat.two_pow_pos _), Nat.mul_comm]; exact hm
  have hst := decide_ne_zero_or t0 t' (m0.toNat % 2^(D-1)) ht'
  rw [hsplit, ← hst, ← hm4, rneShift_one]
  generalize m0 >>> (D - 1) = m4 at *
  have hm1 : ∀ x : BitVec 64, (x >>> 1).toNat = x.toNat / 2 := by
    intro x; rw [BitVec.toNat_ushiftRight, Nat.shiftRight_eq_div_pow]
  have hexp : (BitVec.ofInt 64 (-1023) + 1#64).toInt = -1022 := by decide
  unfold denormTail64
  simp only [hloop]
  by_cases hup : roundUp64 m4 t' = true
  · have hup' := (roundUp64_iff m4 t').1 hup
    simp only [hup, hup', and_self, if_true]
    have hadd : (m4 + 1#64).toNat = m4.toNat + 1 := by
      rw [BitVec.toNat_add]; simp; omega
    by_cases hlt : (m4.toNat + 1) / 2 < 2^52
    · have c : BitVec.ult ((m4 + 1#64) >>> 1) 4503599627370496#64 = true := by
        simp [BitVec.ult, hm1, hadd]; omega
      simp only [c, if_true]
      congr 1
      apply BitVec.eq_of_toNat_eq
      rw [hm1, hadd, BitVec.toNat_ofNat, Nat.mod_eq_of_lt (by omega)]
    · have c : BitVec.ult ((m4 + 1#64) >>> 1) 4503599627370496#64 = false := by
        simp [BitVec.ult, hm1, hadd]; omega
      simp only [c, Bool.false_eq_true, if_false]
      rw [assemble64_eq _ _ _ (by rw [hm1, hadd]; omega) (by rw [hm1, hadd]; omega) (by omega) (by omega)]
      rw [hexp, hm1, hadd]
      have : (m4.toNat + 1) / 2 = 2^52 := by omega
      rw [this]; rfl
  · have hup' : ¬ (m4.toNat % 2 = 1 ∧ ((decide (t' ≠ 0#64)) = true ∨ m4.toNat / 2 % 2 = 1)) :=
      fun h => hup ((roundUp64_iff m4 t').2 h)
    simp only [hup, hup', Bool.false_eq_true, if_false]
    have c : BitVec.ult (m4 >>> 1) 4503599627370496#64 = true := by
      simp [BitVec.ult, hm1]; omega
    simp only [c, if_true, Nat.add_zero]
    congr 1
    apply BitVec.eq_of_toNat_eq
    rw [hm1, BitVec.toNat_ofNat, Nat.mod_eq_of_lt (by omega)]


theorem rneShift_small (m k : Nat) (st : Bool) (hk : 1 ≤ k) (h : m < 2^(k-1)) : rneShift m k st = 0 := by
  unfold rneShift
  have hk0 : k ≠ 0 := by omega
  have hpow : 2^k = 2 * 2^(k-1) := by
    rw [show k = (k-1) + 1 by omega, Nat.pow_succ]; simp; omega
  have hlt : m < 2^k := by omega
  rw [if_neg hk0, Nat.mod_eq_of_lt hlt, Nat.div_eq_of_lt hlt]
  have : ¬ (2^(k-1) < m ∨ m = 2^(k-1) ∧ (st = true ∨ 0 % 2 = 1)) := by
    rintro (h1 | ⟨h1, _⟩) <;> omega
  rw [if_neg this]

/-- a rounding carry to 2^53 at shift `k` means rounding to 2^52 at shift `k+1` -/
theorem rneShift_carry (m k : Nat) (st : Bool) (hk : 1 ≤ k) (hm : m < 2^k * 2^53)
    (h : rneShift m k st = 2^53) : rneShift m (k + 1) st = 2^52 := by
  have hk0 : k ≠ 0 := by omega
  have hP : 0 < 2^k := Nat.two_pow_pos k
  obtain ⟨H, hH⟩ : ∃ H, H = 2^(k-1) := ⟨_, rfl⟩
  have hHpos : 0 < H := by rw [hH]; exact Nat.two_pow_pos _
  have hpow : 2^k = 2 * H := by
    rw [hH, show k = (k-1) + 1 by omega, Nat.pow_succ]; simp; omega
  have hq : m / 2^k < 2^53 := by rw [Nat.div_lt_iff_lt_mul hP, Nat.mul_comm]; exact hm
  have d := Nat.div_add_mod m (2^k)
  have hr : m % 2^k < 2^k := Nat.mod_lt _ hP
  unfold rneShift at h
  rw [if_neg hk0, ← hH] at h
  -- the quotient must be 2^53 - 1 and the remainder at least half
  have hup : (H < m % 2^k ∨ m % 2^k = H ∧ (st = true ∨ m / 2^k % 2 = 1)) := by
    by_cases hc : (H < m % 2^k ∨ m % 2^k = H ∧ (st = true ∨ m / 2^k % 2 = 1))
    · exact hc
    · rw [if_neg hc] at h; omega
  rw [if_pos hup] at h
  have hqv : m / 2^k = 2^53 - 1 := by omega
  have hrge : H ≤ m % 2^k := by rcases hup with h1 | ⟨h1, _⟩ <;> omega
  -- now at shift k+1
  unfold rneShift
  rw [if_neg (by omega : k + 1 ≠ 0), show k + 1 - 1 = k by omega]
  have hpow2 : 2^(k+1) = 2 * 2^k := by rw [Nat.pow_succ]; omega
  rw [hpow2]
  rw [hpow] at d hr hqv hrge ⊢
  generalize m % (2 * H) = r at *
  have hm' : m = 2 * (2 * H) * (2^52 - 1) + (2 * H + r) := by
    rw [← d, hqv]; simp; omega
  have hdiv : m / (2 * (2 * H)) = 2^52 - 1 := by
    rw [hm']
    rw [Nat.mul_add_div (by omega)]
    have : (2 * H + r) / (2 * (2 * H)) = 0 := Nat.div_eq_of_lt (by omega)
    omega
  have hmod : m % (2 * (2 * H)) = 2 * H + r := by
    rw [hm', Nat.mul_add_mod]
    exact Nat.mod_eq_of_lt (by omega)
  rw [hdiv, hmod]
  have : (2 * H < 2 * H + r ∨ 2 * H + r = 2 * H ∧ (st = true ∨ (2 ^ 52 - 1) % 2 = 1)) := Or.inl (by omega)
  rw [if_pos this]


end L
end GnoVerif.C05
