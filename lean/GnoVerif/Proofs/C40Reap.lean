import GnoVerif.Proofs.C40
/-! Helper lemmas for C40: the two reap loops compute the specified prefixes. -/
namespace GnoVerif.C40

/-! ### ReapMaxTxs -/

theorem reapNLoop_spec (m : Int) (l : List MemTx) (acc : List Tx) :
    reapNLoop m l acc = acc ++ (l.take (m.toNat - acc.length)).map (·.tx) := by
  induction l generalizing acc with
  | nil => simp [reapNLoop]
  | cons t rest ih =>
    unfold reapNLoop
    by_cases h : (acc.length : Int) < m
    · rw [if_pos h, ih]
      have hk : m.toNat - acc.length = (m.toNat - (acc ++ [t.tx]).length) + 1 := by
        simp only [List.length_append, List.length_singleton]; omega
      rw [hk, List.take_succ_cons]
      simp
    · rw [if_neg h]
      have hk : m.toNat - acc.length = 0 := by omega
      rw [hk]; simp

theorem reapN_spec (s : State) (n : Int) :
    reapN s n = (s.txs.take (if n < 0 then s.txs.length else n.toNat)).map (·.tx) := by
  unfold reapN
  rw [reapNLoop_spec]
  by_cases hn : n < 0
  · simp [hn]
  · simp [hn]

/-! ### ReapMaxBytesMaxGas -/

theorem sumBytes_take_mono (l : List MemTx) {a b : Nat} (h : a ≤ b) :
    sumBytes (l.take a) ≤ sumBytes (l.take b) := by
  induction l generalizing a b with
  | nil => simp
  | cons x xs ih =>
    cases a with
    | zero => simp only [List.take_zero, sumBytes_nil]; exact sumBytes_nonneg _
    | succ a =>
      cases b with
      | zero => omega
      | succ b =>
        simp only [List.take_succ_cons, sumBytes_cons]
        have := ih (a := a) (b := b) (by omega)
        omega

theorem sumGas_nonneg {l : List MemTx} (hg : ∀ t ∈ l, 0 ≤ t.gas) : 0 ≤ sumGas l := by
  induction l with
  | nil => simp [sumGas]
  | cons x xs ih =>
    rw [sumGas_cons]
    have := hg x List.mem_cons_self
    have := ih (fun t ht => hg t (List.mem_cons_of_mem _ ht))
    omega

theorem sumGas_take_mono {l : List MemTx} (hg : ∀ t ∈ l, 0 ≤ t.gas) {a b : Nat} (h : a ≤ b) :
    sumGas (l.take a) ≤ sumGas (l.take b) := by
  induction l generalizing a b with
  | nil => simp
  | cons x xs ih =>
    have hgx := fun t ht => hg t (List.mem_cons_of_mem x ht)
    cases a with
    | zero =>
      simp only [List.take_zero]
      have : sumGas ([] : List MemTx) = 0 := rfl
      rw [this]
      exact sumGas_nonneg (fun t ht => hg t (List.mem_of_mem_take ht))
    | succ a =>
      cases b with
      | zero => omega
      | succ b =>
        simp only [List.take_succ_cons, sumGas_cons]
        have := ih hgx (a := a) (b := b) (by omega)
        omega

/-- `Fits` shifted by the running totals of the loop. -/
def FitsFrom (mb mg tb tg : Int) (p : List MemTx) : Prop :=
  (0 ≤ mb → tb + sumBytes p ≤ mb) ∧ (0 ≤ mg → tg + sumGas p ≤ mg)

theorem reapBGLoop_spec (mb mg : Int) (l : List MemTx) (tb tg : Int) (acc : List Tx)
    (pre : FitsFrom mb mg tb tg []) :
    ∃ k, k ≤ l.length ∧ reapBGLoop mb mg l tb tg acc = acc ++ (l.take k).map (·.tx) ∧
      FitsFrom mb mg tb tg (l.take k) ∧ (k < l.length → ¬ FitsFrom mb mg tb tg (l.take (k+1))) := by
  induction l generalizing tb tg acc with
  | nil => exact ⟨0, Nat.le_refl _, by simp [reapBGLoop], pre, fun h => absurd h (by simp)⟩
  | cons t rest ih =>
    unfold reapBGLoop
    by_cases hb : mb > -1 ∧ tb + (t.tx.length : Int) > mb
    · rw [if_pos hb]
      refine ⟨0, Nat.zero_le _, by simp, pre, ?_⟩
      intro _ hf
      have := hf.1 (by omega)
      simp only [Nat.zero_add, List.take_succ_cons, List.take_zero, sumBytes_cons, sumBytes_nil] at this
      omega
    · rw [if_neg hb]
      simp only
      by_cases hgas : mg > -1 ∧ tg + t.gas > mg
      · rw [if_pos hgas]
        refine ⟨0, Nat.zero_le _, by simp, pre, ?_⟩
        intro _ hf
        have := hf.2 (by omega)
        have h0 : sumGas ([] : List MemTx) = 0 := rfl
        simp only [Nat.zero_add, List.take_succ_cons, List.take_zero, sumGas_cons, h0] at this
        omega
      · rw [if_neg hgas]
        have pre' : FitsFrom mb mg (tb + (t.tx.length : Int)) (tg + t.gas) [] := by
          have h0 : sumGas ([] : List MemTx) = 0 := rfl
          refine ⟨fun h => ?_, fun h => ?_⟩
          · rw [sumBytes_nil]; omega
          · rw [h0]; omega
        obtain ⟨k, hk, heq, hfit, hmax⟩ := ih (tb + (t.tx.length : Int)) (tg + t.gas) (acc ++ [t.tx]) pre'
        refine ⟨k + 1, by simp only [List.length_cons]; omega, ?_, ?_, ?_⟩
        · rw [heq]; simp
        · simp only [List.take_succ_cons, sumBytes_cons, sumGas_cons, FitsFrom]
          refine ⟨fun h => ?_, fun h => ?_⟩
          · have := hfit.1 h; omega
          · have := hfit.2 h; omega
        · intro hlt hf
          apply hmax (by simp only [List.length_cons] at hlt; omega)
          simp only [List.take_succ_cons, sumBytes_cons, sumGas_cons, FitsFrom] at hf ⊢
          refine ⟨fun h => ?_, fun h => ?_⟩
          · have := hf.1 h; omega
          · have := hf.2 h; omega

theorem fitsFrom_zero (mb mg : Int) (p : List MemTx) : FitsFrom mb mg 0 0 p ↔ Fits mb mg p := by
  simp [FitsFrom, Fits]

/-- a prefix that does not fit stays unfit when extended (sizes and gas are non-negative). -/
theorem not_fits_mono {mb mg : Int} {l : List MemTx} (hg : ∀ t ∈ l, 0 ≤ t.gas) {a b : Nat} (h : a ≤ b)
    (hn : ¬ Fits mb mg (l.take a)) : ¬ Fits mb mg (l.take b) := by
  intro hf
  apply hn
  refine ⟨fun hm => ?_, fun hm => ?_⟩
  · have := hf.1 hm
    have := sumBytes_take_mono l h
    omega
  · have := hf.2 hm
    have := sumGas_take_mono hg h
    omega

end GnoVerif.C40
