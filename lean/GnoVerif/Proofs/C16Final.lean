import GnoVerif.Proofs.C16Hist
/-! Helper lemmas for C16: histories, dead sessions, granted actions. -/
namespace GnoVerif.C16

theorem run_cons (w : World) (o : Op) (r : List Op) : run w (o :: r) = run (step w o) r := rfl

theorem run_append (w : World) (a b : List Op) : run w (a ++ b) = run (run w a) b := by
  unfold run; exact List.foldl_append ..

theorem base_nonneg {m k : Nat} {r : Int} {d : Denom} {w : World}
    (hwf : ∀ s, sessionOf w m k = some s → WFS s) : 0 ≤ base m k r d w := by
  unfold base
  cases h : sessionOf w m k with
  | none => exact Int.le_refl _
  | some s =>
    simp only
    split
    · exact amountOf_nonneg (hwf s h).used d
    · exact Int.le_refl _

/-- history form of `step_bound` -/
theorem hist_bound {m k : Nat} {r : Int} {d : Denom} : ∀ (ops : List Op) (w : World), ops ≠ [] →
    (∀ s, sessionOf w m k = some s → WFS s) → NoCreate m k ops → SamePeriod m k r w ops →
    ∃ s, sessionOf (run w ops) m k = some s ∧ s.reset = r ∧ WFS s ∧
      totalOutflow m k d w ops + base m k r d w ≤ amountOf s.used d := by
  intro ops
  induction ops with
  | nil => intro w h; exact absurd rfl h
  | cons o rest ih =>
    intro w _ hwf hnc hper
    obtain ⟨⟨s1, h1, hr⟩, hrest⟩ := hper
    obtain ⟨hw1, hb⟩ := step_bound (d := d) hwf (hnc o (List.mem_cons_self ..)) h1 hr
    cases rest with
    | nil =>
      refine ⟨s1, h1, hr, hw1, ?_⟩
      simp only [totalOutflow]
      omega
    | cons o2 rest2 =>
      have hwf1 : ∀ s, sessionOf (step w o) m k = some s → WFS s := by
        intro s hs; rw [h1] at hs; cases hs; exact hw1
      obtain ⟨s, hs, hsr, hws, hb2⟩ := ih (step w o) (by simp) hwf1
        (fun x hx => hnc x (List.mem_cons_of_mem _ hx)) hrest
      refine ⟨s, by rw [run_cons]; exact hs, hsr, hws, ?_⟩
      have hb1 : base m k r d (step w o) = amountOf s1.used d := by
        simp [base, h1, hr]
      simp only [totalOutflow] at hb2 ⊢
      omega

/-! ### dead sessions -/

theorem findSome_isSome_of_mem {α β : Type} {f : α → Option β} {l : List α} {a : α} {b : β}
    (ha : a ∈ l) (hf : f a = some b) : ∃ c, l.findSome? f = some c := by
  cases h : l.findSome? f with
  | some c => exact ⟨c, rfl⟩
  | none =>
    have := (List.findSome?_eq_none_iff.mp h) a ha
    rw [hf] at this; cases this

theorem resolve_dead {auth : List (Nat × Nat)} {w : World} {m k : Nat} (hauth : auth.lookup m = some k)
    (hd : deadAt w m k = true) : ∃ e, resolveSigner auth w m = some e := by
  unfold resolveSigner
  split
  · exact ⟨_, rfl⟩
  · simp only [hauth]
    unfold deadAt sessionOf at hd
    cases hl : lookupSess w.sess (m, k) with
    | none => exact ⟨_, rfl⟩
    | some s =>
      simp only [hl] at hd
      simp only [hd, if_true]
      exact ⟨_, rfl⟩

theorem ante_dead {w : World} {tx : Tx} {m k : Nat} (hauth : tx.auth.lookup m = some k)
    (hm : m ∈ signersOf tx.msgs) (hd : deadAt w m k = true) : ∃ e, ante w tx = .error e := by
  unfold ante
  simp only
  split
  · exact ⟨_, rfl⟩
  · obtain ⟨e, he⟩ := resolve_dead hauth hd
    obtain ⟨c, hc⟩ := findSome_isSome_of_mem hm he
    simp only [hc]
    exact ⟨_, rfl⟩

theorem runTx_dead {w : World} {t : Tx} {m k : Nat} (hs : t.signedBy m k = true) (hd : deadAt w m k = true) :
    ∃ e, runTx w t = (w, .error e) := by
  obtain ⟨hm, hauth⟩ := signedBy_iff.mp hs
  unfold runTx
  cases hdec : t.decode with
  | none => exact ⟨_, rfl⟩
  | some tx =>
    obtain ⟨hau, hsg, _, _⟩ := Tx.decode_spec hdec
    simp only
    split
    · exact ⟨_, rfl⟩
    · split
      · exact ⟨_, rfl⟩
      · obtain ⟨e, he⟩ := ante_dead (tx := tx) (by rw [hau]; exact hauth) (by rw [hsg]; exact hm) hd
        simp only [he]
        exact ⟨_, rfl⟩

/-! ### granted actions -/

theorem msgAllowed_iff_granted (s : Session) (msg : Msg) : msgAllowed s msg = true ↔ Granted s.paths msg := by
  unfold msgAllowed Granted alwaysDenied
  constructor
  · intro h
    split at h
    · cases h
    · rename_i hden
      have hden' : ¬ (msg.route = "auth" ∨ (msg.route = "vm" ∧ msg.type = "add_package")) := by
        simpa using hden
      refine ⟨fun e => hden' (Or.inl e), fun e => hden' (Or.inr e), ?_⟩
      cases hp : parsePaths s.paths with
      | none => simp [hp] at h
      | some es =>
        simp only [hp] at h
        obtain ⟨e, he, hmatch⟩ := List.any_eq_true.mp h
        refine ⟨es, rfl, e, he, ?_⟩
        unfold entryMatches at hmatch
        unfold Entry.permits
        split at hmatch
        · left; assumption
        · right
          split at hmatch
          · cases hmatch
          · rename_i hrt
            have hrt' : e.route = msg.route ∧ e.type = msg.type := by
              simpa [not_or] using hrt
            refine ⟨hrt'.1, hrt'.2, ?_⟩
            split at hmatch
            · left; rename_i hp0; simpa using hp0
            · right
              cases hpp : msg.pkgPath with
              | none => simp [hpp] at hmatch
              | some p =>
                simp only [hpp] at hmatch
                refine ⟨p, rfl, ?_⟩
                simpa using hmatch
  · rintro ⟨h1, h2, es, hp, e, he, hperm⟩
    have hden : (msg.route == "auth" || (msg.route == "vm" && msg.type == "add_package")) = false := by
      simp only [Bool.or_eq_false_iff, beq_eq_false_iff_ne, ne_eq, Bool.and_eq_false_iff]
      refine ⟨h1, ?_⟩
      by_cases hv : msg.route = "vm"
      · right; exact fun e' => h2 ⟨hv, e'⟩
      · left; exact hv
    simp only [hden, hp]
    apply List.any_eq_true.mpr
    refine ⟨e, he, ?_⟩
    unfold entryMatches
    rcases hperm with hw | ⟨hr, ht, hpath⟩
    · simp [hw]
    · by_cases hw : e.wildcard = true
      · simp [hw]
      · simp only [hw, hr, ht]
        simp only [bne_self_eq_false, Bool.or_self]
        rcases hpath with h0 | ⟨p, hpp, hm⟩
        · simp [h0]
        · by_cases h0 : e.path = ""
          · simp [h0]
          · simp only [hpp]
            have h0' : (e.path == "") = false := by simpa using h0
            simp only [h0']
            rcases hm with rfl | hpre
            · simp
            · simp [hpre]

/-- after a successful ante, every message signed through session `(m,k)` is within its grant -/
theorem ante_granted {w wa : World} {tx : Tx} {m k : Nat} (hauth : tx.auth.lookup m = some k)
    (hm : m ∈ signersOf tx.msgs) (hwf : ∀ s, lookupSess w.sess (m, k) = some s → WFS s) (h : ante w tx = .ok wa) :
    ∃ s, sessionOf w m k = some s ∧ ∀ msg ∈ tx.msgs, msg.signer = m → Granted s.paths msg := by
  obtain ⟨inv, _, hall⟩ := ante_inv (d := "") hauth hm hwf h
  obtain ⟨_, s, s', hl, hl', hadv, _⟩ := inv
  refine ⟨s, hl, fun msg hmsg hsg => ?_⟩
  have := (List.all_eq_true.mp hall) msg hmsg
  unfold restrictionOK at this
  rw [hsg, hauth] at this
  simp only [hl'] at this
  have hg := (msgAllowed_iff_granted s' msg).mp this
  rw [hadv.1.2.2.2] at hg
  exact hg

/-- a transaction that had any effect passed the ante -/
theorem effect_implies_ante {w : World} {t : Tx} (h : t.tookEffect w) :
    ∃ tx wa, t.decode = some tx ∧ ante w tx = .ok wa := by
  unfold Tx.tookEffect runTx at h
  cases hd : t.decode with
  | none => simp [hd] at h
  | some tx =>
    simp only [hd] at h
    split at h
    · simp at h
    · split at h
      · simp at h
      · cases ha : ante w tx with
        | error e => simp [ha] at h
        | ok wa => exact ⟨tx, wa, rfl, ha⟩

/-! ### decidable forms, for the examples in Props -/

def samePeriodB (m k : Nat) (r : Int) : World → List Op → Bool
  | _, [] => true
  | w, o :: rest =>
    (match sessionOf (step w o) m k with
     | some s => decide (s.reset = r)
     | none => false) && samePeriodB m k r (step w o) rest

theorem samePeriodB_iff {m k : Nat} {r : Int} {w : World} {ops : List Op} :
    samePeriodB m k r w ops = true → SamePeriod m k r w ops := by
  induction ops generalizing w with
  | nil => intro _; trivial
  | cons o rest ih =>
    intro h
    simp only [samePeriodB, Bool.and_eq_true] at h
    obtain ⟨h1, h2⟩ := h
    refine ⟨?_, ih h2⟩
    cases hs : sessionOf (step w o) m k with
    | none => simp [hs] at h1
    | some s => exact ⟨s, rfl, by simpa [hs] using h1⟩

instance (m k : Nat) (ops : List Op) : Decidable (NoCreate m k ops) := by
  unfold NoCreate; infer_instance

def errOf {α : Type} : Except Err α → Option Err
  | .ok _ => none
  | .error e => some e

def isOk {ε α : Type} : Except ε α → Bool
  | .ok _ => true
  | .error _ => false

theorem tookEffect_of_ok {w : World} {t : Tx} (h : isOk (runTx w t).2 = true) : t.tookEffect w := by
  right
  cases hr : (runTx w t).2 with
  | error e => simp [hr, isOk] at h
  | ok u => cases u; rfl

end GnoVerif.C16
