import GnoVerif.Proofs.C08Steps
/-! C08 — invariants of the registries, the event log and the ledger along atomic steps. -/
namespace GnoVerif.C08

theorem getElem?_append_some {α : Type} : ∀ (l l' : List α) (i : Nat) (x : α), l[i]? = some x → (l ++ l')[i]? = some x
  | [], _, _, _, h => by simp at h
  | _ :: _, _, 0, _, h => by simpa using h
  | _ :: l, l', i + 1, x, h => by simpa using getElem?_append_some l l' i x (by simpa using h)

theorem getElem?_snoc {α : Type} : ∀ (l : List α) (x : α) (i : Nat) (y : α), (l ++ [x])[i]? = some y →
    l[i]? = some y ∨ (i = l.length ∧ y = x)
  | [], x, 0, y, h => by right; simpa using h.symm
  | [], x, i + 1, y, h => by simp at h
  | _ :: _, _, 0, _, h => by left; simpa using h
  | _ :: l, x, i + 1, y, h => by
    rcases getElem?_snoc l x i y (by simpa using h) with h1 | ⟨h1, h2⟩
    · left; simpa using h1
    · right; exact ⟨by simp [h1], h2⟩

/-! ### stability under growth of the registries -/

theorem TokOk.mono {env : Env} {toks : List TokInfo} {ti : TokInfo} (l : List TokInfo)
    (h : TokOk env toks ti) : TokOk env (toks ++ l) ti := by
  unfold TokOk at h ⊢
  split
  · rename_i hk; simp only [hk] at h; exact h
  · rename_i hk; simp only [hk] at h; exact h
  · rename_i parent name hk
    simp only [hk] at h
    obtain ⟨pi, h1, h2⟩ := h
    exact ⟨pi, getElem?_append_some _ _ _ _ h1, h2⟩

theorem BankerOk.mono {nP : Nat} {toks : List TokInfo} {bid : Nat} {bi : BankerInfo} (l : List TokInfo)
    (h : BankerOk nP toks bid bi) : BankerOk nP (toks ++ l) bid bi := by
  unfold BankerOk at h ⊢
  split
  · rename_i hk; simp only [hk] at h; exact h
  · rename_i hk; simp only [hk] at h; exact h
  · rename_i t top hk
    simp only [hk] at h
    obtain ⟨ti, h1, h2, h3, h4, h5, h6, h7, h8⟩ := h
    refine ⟨ti, getElem?_append_some _ _ _ _ h1, h2, h3, h4, h5, h6, h7, ?_⟩
    intro hb
    obtain ⟨p, pi, hp, hpi, hpath⟩ := h8 hb
    exact ⟨p, pi, hp, getElem?_append_some _ _ _ _ hpi, hpath⟩

theorem MoveOk.mono {bankers : List BankerInfo} {a : Addr} {d : Str} {x : Int} {c : Cause} (l : List BankerInfo)
    (h : MoveOk bankers a d x c) : MoveOk (bankers ++ l) a d x c := by
  cases c with
  | bankerSend bid =>
    obtain ⟨bi, h1, h2⟩ := h
    exact ⟨bi, getElem?_append_some _ _ _ _ h1, h2⟩
  | mint bid =>
    obtain ⟨hx, bi, h1, h2⟩ := h
    exact ⟨hx, bi, getElem?_append_some _ _ _ _ h1, h2⟩
  | burn bid =>
    obtain ⟨bi, h1, h2⟩ := h
    exact ⟨bi, getElem?_append_some _ _ _ _ h1, h2⟩
  | msgSend => exact h
  | depositLock _ => exact h
  | depositRefund _ => exact h
  | bankSend => exact h

theorem SupplyOk.mono {bankers : List BankerInfo} {d : Str} (l : List BankerInfo)
    (h : SupplyOk bankers d) : SupplyOk (bankers ++ l) d := by
  obtain ⟨bid, bi, h1, h2⟩ := h
  exact ⟨bid, bi, getElem?_append_some _ _ _ _ h1, h2⟩

/-! ### the invariants -/

/-- every realm value of the registry has a lawful origin -/
def ToksInv (env : Env) (st : St) : Prop := ∀ (t : Nat) (ti : TokInfo), st.toks[t]? = some ti → TokOk env st.toks ti

/-- every banker of the registry has a lawful origin -/
def BankersInv (nP : Nat) (st : St) : Prop := ∀ (bid : Nat) (bi : BankerInfo), st.bankers[bid]? = some bi → BankerOk nP st.toks bid bi

/-- every event logged after `log0` was caused through a banker entitled to it -/
def LogInv (log0 : List Ev) (st : St) : Prop :=
  ∃ l, st.bank.log = l ++ log0 ∧ ∀ e ∈ l, MoveOk st.bankers e.addr e.denom e.amt e.cause

/-- balances move only together with a log entry -/
def LedgerInv (led0 : Ledger) (log0 : List Ev) (st : St) : Prop :=
  ∀ a d, st.bank.led.bal a d - logSum st.bank.log a d = led0.bal a d - logSum log0 a d

/-- supplies move only under an issue banker of the denomination's realm -/
def SupplyInv (led0 : Ledger) (st : St) : Prop :=
  ∀ d, st.bank.led.supply d ≠ led0.supply d → SupplyOk st.bankers d

theorem TokNew.ok {env : Env} {st : St} {ti : TokInfo} (h : TokNew env st ti) : TokOk env (st.toks ++ [ti]) ti := by
  unfold TokOk
  rcases h with ⟨hk, ha⟩ | ⟨parent, name, pi, hk, h1, h2⟩
  · simp only [hk]; exact Or.inl ha
  · simp only [hk]; exact ⟨pi, getElem?_append_some _ _ _ _ h1, h2⟩

theorem atom_toksInv {env : Env} {sends : Bool} {a b : St} (h : Atom env sends a b) (hi : ToksInv env a) : ToksInv env b := by
  unfold ToksInv at hi ⊢
  cases h with
  | tok ti hn =>
    intro t ti' ht
    rcases getElem?_snoc _ _ _ _ ht with h1 | ⟨_, h2⟩
    · exact (hi t ti' h1).mono [ti]
    · subst h2; exact hn.ok
  | banker _ _ => exact hi
  | move _ _ _ _ _ _ => exact hi
  | supply _ _ _ => exact hi
  | spent _ _ _ => exact hi
  | params _ _ => exact hi

theorem BankerNew.ok {nP : Nat} {st : St} {bi : BankerInfo} (h : BankerNew st bi) (bid : Nat) : BankerOk nP st.toks bid bi := by
  unfold BankerOk
  rcases h with ⟨hs, h1, h2⟩ | ⟨t, top, ti, hs, h⟩
  · simp only [hs]; exact ⟨h1, h2⟩
  · simp only [hs]; exact ⟨ti, h⟩

theorem atom_bankersInv {env : Env} {sends : Bool} {nP : Nat} {a b : St} (h : Atom env sends a b) (hi : BankersInv nP a) : BankersInv nP b := by
  unfold BankersInv at hi ⊢
  cases h with
  | tok ti _ => intro bid bi hb; exact (hi bid bi hb).mono [ti]
  | banker bi' hn =>
    intro bid bi hb
    rcases getElem?_snoc _ _ _ _ hb with h1 | ⟨_, h2⟩
    · exact hi bid bi h1
    · subst h2; exact hn.ok bid
  | move _ _ _ _ _ _ => exact hi
  | supply _ _ _ => exact hi
  | spent _ _ _ => exact hi
  | params _ _ => exact hi

theorem atom_logInv {env : Env} {sends : Bool} {log0 : List Ev} {a b : St} (h : Atom env sends a b) (hi : LogInv log0 a) : LogInv log0 b := by
  unfold LogInv at hi ⊢
  obtain ⟨l, hl, hok⟩ := hi
  cases h with
  | tok _ _ => exact ⟨l, hl, hok⟩
  | banker bi _ => exact ⟨l, hl, fun e he => (hok e he).mono [bi]⟩
  | move x d amt c hm _ =>
    refine ⟨⟨x, d, amt, c⟩ :: l, by simp [Bank.move, hl], ?_⟩
    intro e he
    rcases List.mem_cons.mp he with rfl | he'
    · exact hm
    · exact hok e he'
  | supply _ _ _ => exact ⟨l, hl, hok⟩
  | spent _ _ _ => exact ⟨l, hl, hok⟩
  | params _ _ => exact ⟨l, hl, hok⟩

theorem logSum_cons (e : Ev) (log : List Ev) (a : Addr) (d : Str) :
    logSum (e :: log) a d = (if e.addr = a ∧ e.denom = d then e.amt else 0) + logSum log a d := by
  unfold logSum
  by_cases h : e.addr = a ∧ e.denom = d
  · simp [List.filter, h.1, h.2]
  · have : (decide (e.addr = a) && decide (e.denom = d)) = false := by
      simp only [Bool.and_eq_false_imp, decide_eq_true_eq, decide_eq_false_iff_not]
      intro h1 h2; exact h ⟨h1, h2⟩
    simp [List.filter, this, h]

theorem atom_ledgerInv {env : Env} {sends : Bool} {led0 : Ledger} {log0 : List Ev} {a b : St} (h : Atom env sends a b)
    (hi : LedgerInv led0 log0 a) : LedgerInv led0 log0 b := by
  unfold LedgerInv at hi ⊢
  cases h with
  | tok _ _ => exact hi
  | banker _ _ => exact hi
  | move x d amt c _ _ =>
    intro a' d'
    have := hi a' d'
    simp only [Bank.move, Ledger.credit, logSum_cons]
    by_cases hh : a' = x ∧ d' = d
    · obtain ⟨rfl, rfl⟩ := hh
      simp only [and_self, if_true]
      omega
    · have h2 : ¬ (x = a' ∧ d = d') := fun h3 => hh ⟨h3.1.symm, h3.2.symm⟩
      simp only [hh, h2, if_false]
      omega
  | supply _ _ _ => exact hi
  | spent _ _ _ => exact hi
  | params _ _ => exact hi

theorem atom_supplyInv {env : Env} {sends : Bool} {led0 : Ledger} {a b : St} (h : Atom env sends a b)
    (hi : SupplyInv led0 a) : SupplyInv led0 b := by
  unfold SupplyInv at hi ⊢
  cases h with
  | tok _ _ => exact hi
  | banker bi _ => exact fun d hd => (hi d hd).mono [bi]
  | move _ _ _ _ _ _ => exact hi
  | supply d x hs =>
    intro d' hd'
    by_cases hdd : d' = d
    · subst hdd; exact hs
    · apply hi d'
      simpa [Ledger.setSupply, hdd] using hd'
  | spent _ _ _ => exact hi
  | params _ _ => exact hi

/-! ### along a whole run -/

theorem steps_inv {env : Env} {sends : Bool} (P : St → Prop) (hatom : ∀ a b, Atom env sends a b → P a → P b) {a b : St}
    (h : Steps env sends a b) (hp : P a) : P b := by
  induction h with
  | refl => exact hp
  | tail _ hat ih => exact hatom _ _ hat ih

end GnoVerif.C08
