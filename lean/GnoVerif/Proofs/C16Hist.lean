import GnoVerif.Proofs.C16Keep
/-! Helper lemmas for C16: whole transactions (`runTx`), single operations and histories. -/
namespace GnoVerif.C16

/-! ### global well-formedness of the session table -/

theorem WF.set {w : World} (h : WF w) {key : SessKey} {s : Session} (hs : WFS s) :
    WF { w with sess := setSess w.sess key s } := by
  intro key' s' hl
  simp only [lookup_setSess] at hl
  split at hl
  · cases hl; exact hs
  · exact h key' s' hl

theorem WF.of_sess_eq {w w' : World} (h : WF w) (e : w'.sess = w.sess) : WF w' := by
  intro key s hl; rw [e] at hl; exact h key s hl

theorem hook_WF {auth : List (Nat × Nat)} {w w' : World} {a : Acct} {amt : Coins} (hw : WF w)
    (h : hookDeduct auth w a amt = .ok w') : WF w' := by
  rcases hookDeduct_spec h with rfl | ⟨i, k, s, s', _, _, hl, hd, rfl⟩
  · exact hw
  · exact hw.set (deduct_WFS (hw _ _ hl) hd).1

theorem debit_WF {w w' : World} {a : Acct} {amt : Coins} (hw : WF w) (h : debit w a amt = .ok w') : WF w' :=
  hw.of_sess_eq (debit_spec h).2.2.1

theorem credit_WF {w w' : World} {to : Option Acct} {amt : Coins} (hw : WF w) (h : credit w to amt = .ok w') :
    WF w' :=
  hw.of_sess_eq (credit_spec h).2.2.1

theorem bankSend_WF {auth : List (Nat × Nat)} {w w' : World} {src : Acct} {to : Option Acct} {amt : Coins}
    (hw : WF w) (h : bankSend auth w src to amt = .ok w') : WF w' := by
  unfold bankSend at h
  split at h
  · cases h; exact hw
  · cases h1 : hookDeduct auth w src amt with
    | error e => simp [h1, bind, Except.bind] at h
    | ok w1 =>
      cases h2 : debit w1 src amt with
      | error e => simp [h1, h2, bind, Except.bind] at h
      | ok w2 =>
        simp only [h1, h2, bind, Except.bind] at h
        exact credit_WF (debit_WF (hook_WF hw h1) h2) h

theorem lockDeposit_WF {auth : List (Nat × Nat)} {w w' : World} {i : Nat} {req : Int} (hw : WF w)
    (h : lockDeposit auth w i req = .ok w') : WF w' := by
  unfold lockDeposit at h
  cases h1 : hookDeduct auth w (.m i) (ugnot req) with
  | error e => simp [h1] at h
  | ok w1 =>
    simp only [h1] at h
    unfold bankSendUnrestricted at h
    cases h2 : debit w1 (.m i) (ugnot req) with
    | error e => simp [h2, bind, Except.bind] at h
    | ok w2 =>
      simp only [h2, bind, Except.bind] at h
      cases h3 : credit w2 none (ugnot req) with
      | error e => simp [h3] at h
      | ok w3 =>
        simp only [h3] at h
        cases h
        exact credit_WF (debit_WF (hook_WF hw h1) h2) h3

/-- `refundStorageDeposit` never touches a session record: refunds do not lower `used` -/
theorem refundDeposit_sess {w w' : World} {i : Nat} {amt : Int} (h : refundDeposit w i amt = .ok w') :
    w'.sess = w.sess := by
  unfold refundDeposit at h
  cases h3 : credit w (some (.m i)) (ugnot amt) with
  | error e => simp [h3] at h
  | ok w3 =>
    simp only [h3] at h
    cases h
    exact (credit_spec h3).2.2.1

theorem storageDeposit_WF {auth : List (Nat × Nat)} {w w' : World} {i realm : Nat} {n : Int} (hw : WF w)
    (h : storageDeposit auth w i realm n = .ok w') : WF w' := by
  unfold storageDeposit at h
  simp only at h
  have h0 : WF (setSink w realm n) := hw.of_sess_eq rfl
  split at h
  · split at h
    · cases h
    · exact lockDeposit_WF h0 h
  · split at h
    · exact h0.of_sess_eq (refundDeposit_sess h)
    · cases h; exact h0

/-- the limit of every `create` message is a valid coin set (true after decoding) -/
def Msg.limitOK : Msg → Prop
  | .create _ _ _ _ l _ => validCoins l = true
  | _ => True

theorem decodeCoins_valid {cs r : Coins} (h : decodeCoins cs = some r) : validCoins r = true := by
  unfold decodeCoins at h
  split at h
  · cases h; rfl
  · split at h
    · cases h; rfl
    · split at h
      · cases h
      · simp only at h
        split at h
        · cases h; assumption
        · cases h

theorem Msg.decode_limitOK {m m' : Msg} (h : m.decode = some m') : m'.limitOK := by
  cases m <;> simp only [Msg.decode, Option.map_eq_some_iff] at h
  all_goals first
    | (obtain ⟨l, hl, rfl⟩ := h; first | exact decodeCoins_valid hl | trivial)
    | (cases h; trivial)

theorem decodeMsgs_limitOK {msgs msgs' : List Msg} (h : decodeMsgs msgs = some msgs') :
    ∀ x ∈ msgs', x.limitOK := by
  induction msgs generalizing msgs' with
  | nil => simp only [decodeMsgs] at h; cases h; intro x hx; cases hx
  | cons m r ih =>
    simp only [decodeMsgs] at h
    cases hm : m.decode with
    | none => simp [hm] at h
    | some m' =>
      cases hr : decodeMsgs r with
      | none => simp [hm, hr] at h
      | some r' =>
        simp only [hm, hr] at h
        cases h
        intro x hx
        cases hx with
        | head => exact Msg.decode_limitOK hm
        | tail _ hx => exact ih hr x hx

theorem execMsg_WF {auth : List (Nat × Nat)} {w w' : World} {msg : Msg} (hw : WF w) (hl : msg.limitOK)
    (h : execMsg auth w msg = .ok w') : WF w' := by
  cases msg with
  | send src to amt => exact bankSend_WF hw h
  | exec src realm fn snd =>
    simp only [execMsg] at h
    cases h1 : bankSend auth w (.m src) none snd with
    | error e => simp [h1, bind, Except.bind] at h
    | ok w1 =>
      simp only [h1, bind, Except.bind] at h
      have i1 := bankSend_WF hw h1
      cases fn with
      | noop => simp only at h; cases h; exact i1
      | fail => simp at h
      | grow n => simp only at h; exact storageDeposit_WF i1 h
  | run src fn snd =>
    simp only [execMsg] at h
    cases h1 : bankSend auth w (.m src) (some (.m src)) snd with
    | error e => simp [h1, bind, Except.bind] at h
    | ok w1 =>
      simp only [h1, bind, Except.bind] at h
      have i1 := bankSend_WF hw h1
      cases fn with
      | noop => simp only at h; cases h; exact i1
      | fail => simp at h
      | pay to coins =>
        simp only at h
        cases h2 : bankSend auth w1 (.m src) (some to) coins with
        | error e => simp [h2] at h
        | ok w2 =>
          simp only [h2] at h
          cases h
          exact bankSend_WF i1 h2
  | addpkg src snd => simp [execMsg] at h
  | create src k0 e p l ps =>
    simp only [execMsg] at h
    obtain ⟨_, rfl⟩ := createSession_spec h
    refine hw.set ⟨rfl, hl, fun d => ?_⟩
    simpa [newSession, amountOf] using amountOf_nonneg hl d
  | revoke src k0 =>
    simp only [execMsg] at h
    split at h
    · cases h
    · cases h
      intro key s hs
      simp only [lookup_eraseSess] at hs
      split at hs
      · cases hs
      · exact hw key s hs
  | revokeall src =>
    simp only [execMsg] at h
    cases h
    intro key s hs
    simp only [lookup_filter_master] at hs
    split at hs
    · cases hs
    · exact hw key s hs

theorem execMsgs_WF {auth : List (Nat × Nat)} {msgs : List Msg} {w w' : World} (hw : WF w)
    (hl : ∀ x ∈ msgs, x.limitOK) (h : execMsgs auth w msgs = .ok w') : WF w' := by
  induction msgs generalizing w with
  | nil => simp only [execMsgs] at h; cases h; exact hw
  | cons msg r ih =>
    simp only [execMsgs] at h
    cases h1 : execMsg auth w msg with
    | error e => simp [h1] at h
    | ok w1 =>
      simp only [h1] at h
      exact ih (execMsg_WF hw (hl msg (List.mem_cons_self ..)) h1) (fun x hx => hl x (List.mem_cons_of_mem _ hx)) h

theorem bumpSeq_WF {auth : List (Nat × Nat)} {w : World} (hw : WF w) (i : Nat) : WF (bumpSeq auth w i) := by
  unfold bumpSeq
  split
  · exact hw
  · split
    · exact hw
    · rename_i s hs
      have := hw _ _ hs
      exact hw.set ⟨this.used, this.limit, this.le⟩

theorem bumpSeq_fold_WF {auth : List (Nat × Nat)} {w : World} (hw : WF w) (l : List Nat) :
    WF (l.foldl (bumpSeq auth) w) := by
  induction l generalizing w with
  | nil => exact hw
  | cons i r ih => exact ih (bumpSeq_WF hw i)

theorem payFee_WF {w w' : World} {tx : Tx} {first : Nat} (hw : WF w) (h : payFee w tx first = .ok w') : WF w' := by
  unfold payFee at h
  split at h
  · cases h; exact hw
  · cases h1 : hookDeduct tx.auth w (.m first) [tx.fee] with
    | error e => simp [h1] at h
    | ok w1 =>
      simp only [h1] at h
      split at h
      · cases h
      · unfold bankSendUnrestricted at h
        cases h2 : debit w1 (.m first) [tx.fee] with
        | error e => simp [h2, bind, Except.bind] at h
        | ok w2 =>
          simp only [h2, bind, Except.bind] at h
          exact credit_WF (debit_WF (hook_WF hw h1) h2) h

theorem ante_WF {w wa : World} {tx : Tx} (hw : WF w) (h : ante w tx = .ok wa) : WF wa := by
  unfold ante at h
  simp only at h
  split at h
  · cases h
  · split at h
    · cases h
    · split at h
      · cases h
      · split at h
        · cases h
        · rename_i w1 hpay
          split at h
          · cases h; exact bumpSeq_fold_WF (payFee_WF hw hpay) _
          · cases h

/-! ### whole transactions -/

/-- the shape of `runTx`: nothing kept, the ante writes kept, or everything kept -/
theorem runTx_cases (w : World) (t : Tx) :
    (runTx w t).1 = w ∨
    ∃ tx wa, t.decode = some tx ∧ tx.msgs ≠ [] ∧ ante w tx = .ok wa ∧
      ((runTx w t).1 = wa ∨ ∃ wm, execMsgs tx.auth wa tx.msgs = .ok wm ∧ (runTx w t).1 = wm) := by
  unfold runTx
  cases hd : t.decode with
  | none => exact Or.inl rfl
  | some tx =>
    simp only
    split
    · exact Or.inl rfl
    · rename_i hne
      split
      · exact Or.inl rfl
      · cases ha : ante w tx with
        | error e => exact Or.inl rfl
        | ok wa =>
          right
          refine ⟨tx, wa, rfl, by simpa using hne, ha, ?_⟩
          simp only
          cases hm : execMsgs tx.auth wa tx.msgs with
          | error e => exact Or.inl rfl
          | ok wm => exact Or.inr ⟨wm, rfl, rfl⟩

theorem runTx_WF {w : World} (hw : WF w) (t : Tx) : WF (runTx w t).1 := by
  rcases runTx_cases w t with e | ⟨tx, wa, hd, _, ha, e | ⟨wm, hm, e⟩⟩
  · rw [e]; exact hw
  · rw [e]; exact ante_WF hw ha
  · rw [e]
    have hl : ∀ x ∈ tx.msgs, x.limitOK := by
      unfold Tx.decode at hd
      cases hf : decodeFee t.fee with
      | none => simp [hf] at hd
      | some fee =>
        cases hms : decodeMsgs t.msgs with
        | none => simp [hf, hms] at hd
        | some msgs =>
          simp only [hf, hms] at hd
          cases hd
          exact decodeMsgs_limitOK hms
    exact execMsgs_WF (ante_WF hw ha) hl hm

theorem signedBy_iff {t : Tx} {m k : Nat} :
    t.signedBy m k = true ↔ m ∈ signersOf t.msgs ∧ t.auth.lookup m = some k := by
  simp [Tx.signedBy]

/-- a tx signed through `(m,k)`: nothing is kept, or the per-transaction invariant holds -/
theorem runTx_signed {w : World} {t : Tx} {m k : Nat} (d : Denom) (hs : t.signedBy m k = true)
    (hwf : ∀ s, lookupSess w.sess (m, k) = some s → WFS s) :
    (runTx w t).1 = w ∨ TxInv m k d w (runTx w t).1 := by
  obtain ⟨hm, hauth⟩ := signedBy_iff.mp hs
  rcases runTx_cases w t with e | ⟨tx, wa, hd, _, ha, e | ⟨wm, hmsgs, e⟩⟩
  · exact Or.inl e
  · obtain ⟨hau, hsg, _, _⟩ := Tx.decode_spec hd
    right; rw [e]
    exact (ante_inv (by rw [hau]; exact hauth) (by rw [hsg]; exact hm) hwf ha).1
  · obtain ⟨hau, hsg, _, _⟩ := Tx.decode_spec hd
    right; rw [e]
    obtain ⟨i1, hden, _⟩ := ante_inv (d := d) (by rw [hau]; exact hauth) (by rw [hsg]; exact hm) hwf ha
    exact i1.trans (execMsgs_inv (by rw [hau]; exact hauth) i1.has hden hmsgs)

/-- a tx not signed through `(m,k)` and carrying no create for it keeps or removes the record -/
theorem runTx_unsigned {w : World} {t : Tx} {m k : Nat} (hs : t.signedBy m k = false)
    (hnc : (t.msgs.any fun x => x.creates m k) = false) : Keep (m, k) w (runTx w t).1 := by
  have hT : ∀ i ∈ signersOf t.msgs, NotVia t.auth (m, k) i := by
    intro i hi k' hk e
    cases e
    have : t.signedBy m k = true := signedBy_iff.mpr ⟨hi, hk⟩
    rw [hs] at this; cases this
  rcases runTx_cases w t with e | ⟨tx, wa, hd, hne, ha, e | ⟨wm, hmsgs, e⟩⟩
  · rw [e]; exact Or.inl rfl
  · obtain ⟨hau, hsg, _, _⟩ := Tx.decode_spec hd
    rw [e]
    exact Or.inl (ante_same hne (by rw [hau, hsg]; exact hT) ha)
  · obtain ⟨hau, hsg, _, hcr⟩ := Tx.decode_spec hd
    rw [e]
    have h1 : SameAt (m, k) w wa := ante_same hne (by rw [hau, hsg]; exact hT) ha
    have hT' : ∀ msg ∈ tx.msgs, NotVia tx.auth (m, k) msg.signer := by
      intro msg hmsg
      rw [hau]
      exact hT _ (by rw [← hsg]; exact mem_signersOf.mpr ⟨msg, hmsg, rfl⟩)
    have hnc' : ∀ msg ∈ tx.msgs, msg.creates m k = false := by
      intro msg hmsg
      have := hcr m k
      rw [hnc] at this
      have h2 := List.any_eq_false.mp this msg hmsg
      simpa using h2
    exact Keep.trans (Or.inl h1) (execMsgs_keep hT' hnc' hmsgs)

/-! ### single operations -/

theorem fund_sess (w : World) (a : Acct) (amt : Coins) : (fund w a amt).sess = w.sess := by
  unfold fund
  cases h : credit w (some a) amt with
  | error e => rfl
  | ok w' => exact (credit_spec h).2.2.1

theorem step_WF {w : World} (hw : WF w) (o : Op) : WF (step w o) := by
  cases o with
  | time t => exact hw.of_sess_eq rfl
  | fund a amt => exact hw.of_sess_eq (fund_sess w a amt)
  | tx t => exact runTx_WF hw t

theorem run_WF {w : World} (hw : WF w) (ops : List Op) : WF (run w ops) := by
  induction ops generalizing w with
  | nil => exact hw
  | cons o r ih => exact ih (step_WF hw o)

theorem init_WF : WF World.init := by
  intro key s h; simp [World.init, lookupSess] at h

/-- spend already counted in the period that started at `r` -/
def base (m k : Nat) (r : Int) (d : Denom) (w : World) : Int :=
  match sessionOf w m k with
  | some s => if s.reset = r then amountOf s.used d else 0
  | none => 0

theorem outflow_nonneg (m k : Nat) (d : Denom) (w : World) (o : Op) : 0 ≤ outflow m k d w o := by
  unfold outflow; split
  · exact Int.le_max_left _ _
  · exact Int.le_refl _

/-- One operation: what leaves the master plus what was already counted in period `r` is
    covered by what is counted after the operation — whenever the session then sits in `r`. -/
theorem step_bound {w : World} {o : Op} {m k : Nat} {r : Int} {d : Denom}
    (hwf : ∀ s, sessionOf w m k = some s → WFS s) (hnc : o.creates m k = false)
    {s1 : Session} (h1 : sessionOf (step w o) m k = some s1) (hr : s1.reset = r) :
    WFS s1 ∧ outflow m k d w o + base m k r d w ≤ amountOf s1.used d := by
  have same : sessionOf w m k = some s1 → WFS s1 ∧ o.signedBy m k = false →
      WFS s1 ∧ outflow m k d w o + base m k r d w ≤ amountOf s1.used d := by
    intro h0 ⟨hw1, hsb⟩
    refine ⟨hw1, ?_⟩
    simp only [outflow, hsb, base, h0, hr, if_true]
    simp
  cases o with
  | time t =>
    have h0 : sessionOf w m k = some s1 := h1
    exact same h0 ⟨hwf _ h0, rfl⟩
  | fund a amt =>
    have h0 : sessionOf w m k = some s1 := by
      unfold sessionOf at h1 ⊢
      simpa [step, fund_sess] using h1
    exact same h0 ⟨hwf _ h0, rfl⟩
  | tx t =>
    by_cases hs : t.signedBy m k = true
    · rcases runTx_signed d hs hwf with e | inv
      · -- nothing was kept
        have h0 : sessionOf w m k = some s1 := by
          unfold sessionOf at h1 ⊢
          simpa [step, e] using h1
        refine ⟨hwf _ h0, ?_⟩
        simp only [outflow, Op.signedBy, hs, if_true, step, e, base, h0, hr]
        simp
      · obtain ⟨_, s, s', hl, hl', hadv, hpot⟩ := inv
        have e1 : s' = s1 := by
          unfold sessionOf at h1
          simp only [step] at h1
          rw [hl'] at h1; cases h1; rfl
        subst e1
        have hw1 : WFS s' := hadv.2.1
        refine ⟨hw1, ?_⟩
        have hout : w.bal (.m m) d - (runTx w t).1.bal (.m m) d ≤ U s' w.now d - U s w.now d := by omega
        obtain ⟨b1, b2⟩ := adv_outflow_bound hadv hout
        have hnn : 0 ≤ amountOf s'.used d := amountOf_nonneg hw1.used d
        simp only [outflow, Op.signedBy, hs, if_true, step, base, sessionOf, hl]
        by_cases hre : s'.reset = s.reset
        · have hsr : s.reset = r := by rw [← hre]; exact hr
          have := b1 hre
          have := adv_used_mono hadv hre d
          simp only [hsr, if_true]
          omega
        · have hsr : ¬ s.reset = r := by
            intro e; exact hre (by rw [hr, e])
          have := b2 hre
          simp only [hsr, if_false]
          omega
    · have hs' : t.signedBy m k = false := by simpa using hs
      rcases runTx_unsigned hs' (by simpa [Op.creates] using hnc) with sm | nn
      · have h0 : sessionOf w m k = some s1 := by
          unfold sessionOf at h1 ⊢
          simp only [step] at h1
          rw [← sm]; exact h1
        exact same h0 ⟨hwf _ h0, by simp [Op.signedBy, hs']⟩
      · exfalso
        unfold sessionOf at h1
        simp only [step] at h1
        rw [nn] at h1; cases h1

/-- a stored period start only moves in a transaction signed with that session key, at a
    block time at least one full period after the previous start, and moves to that block time -/
theorem step_reset {w : World} {o : Op} {m k : Nat}
    (hwf : ∀ s, sessionOf w m k = some s → WFS s) (hnc : o.creates m k = false)
    {s s' : Session} (h0 : sessionOf w m k = some s) (h1 : sessionOf (step w o) m k = some s')
    (hne : s'.reset ≠ s.reset) :
    o.signedBy m k = true ∧ s.period > 0 ∧ w.now ≥ s.reset + s.period ∧ s'.reset = w.now := by
  have same : sessionOf (step w o) m k = sessionOf w m k → False := by
    intro e; rw [h0, h1] at e; cases e; exact hne rfl
  cases o with
  | time t => exact (same rfl).elim
  | fund a amt =>
    exfalso; apply same
    unfold sessionOf; simp [step, fund_sess]
  | tx t =>
    by_cases hs : t.signedBy m k = true
    · rcases runTx_signed "" hs hwf with e | inv
      · exfalso; apply same; unfold sessionOf; simp [step, e]
      · obtain ⟨_, t0, t1, hl, hl', hadv, _⟩ := inv
        have e0 : t0 = s := by unfold sessionOf at h0; rw [hl] at h0; cases h0; rfl
        have e1 : t1 = s' := by
          unfold sessionOf at h1; simp only [step] at h1; rw [hl'] at h1; cases h1; rfl
        subst e0 e1
        obtain ⟨hd, hn, _⟩ := reset_change_due hadv hne
        have := resetDue_iff.mp hd
        exact ⟨by simp [Op.signedBy, hs], this.1, this.2, hn⟩
    · have hs' : t.signedBy m k = false := by simpa using hs
      rcases runTx_unsigned hs' (by simpa [Op.creates] using hnc) with sm | nn
      · exfalso; apply same; unfold sessionOf; simp only [step]; exact sm
      · exfalso
        unfold sessionOf at h1
        simp only [step] at h1
        rw [nn] at h1; cases h1

end GnoVerif.C16
