/-
Proofs.C26DB — DB-level lemmas: frames, soundness of a fast hit, the rebuild
writes, the commit, the prune.
-/
import GnoVerif.Proofs.C26Basic

set_option linter.unusedSimpArgs false

namespace GnoVerif.C26
open GnoVerif

/-- a DB transition that keeps every retained version and never lowers the stamp. -/
def Frame (db db' : DB) : Prop :=
  (∀ v m, db.tree v = some m → db'.tree v = some m) ∧
  (∀ S, db.stamp = some S → ∃ S', db'.stamp = some S' ∧ S ≤ S')

theorem Frame.refl (db : DB) : Frame db db :=
  ⟨fun _ _ h => h, fun S h => ⟨S, h, Nat.le_refl _⟩⟩

theorem Frame.trans {a b c : DB} (h1 : Frame a b) (h2 : Frame b c) : Frame a c := by
  refine ⟨fun v m h => h2.1 v m (h1.1 v m h), fun S h => ?_⟩
  obtain ⟨S1, e1, l1⟩ := h1.2 S h
  obtain ⟨S2, e2, l2⟩ := h2.2 S1 e1
  exact ⟨S2, e2, Nat.le_trans l1 l2⟩

theorem HInv.frame {db db' : DB} {h : Handle} (hf : Frame db db') (hi : HInv db h) : HInv db' h := by
  refine ⟨?_, hi.cleanOk, hi.delta, hi.stage, hi.nostage, ?_⟩
  · have := hi.savedOk
    split at this
    · rename_i h0; simp [h0, this]
    · rename_i h0; simp only [h0, if_false]; exact hf.1 _ _ this
  · intro a b c
    obtain ⟨S, e, l⟩ := hi.covered a b c
    obtain ⟨S', e', l'⟩ := hf.2 S e
    exact ⟨S', e', Nat.le_trans l l'⟩

theorem VInv.frame {db db' : DB} {v : View} (hf : Frame db db') (hi : VInv db v) : VInv db' v := by
  refine ⟨hf.1 _ _ hi.rootOk, fun a => ?_⟩
  obtain ⟨S, e, l⟩ := hi.covered a
  obtain ⟨S', e', l'⟩ := hf.2 S e
  exact ⟨S', e', Nat.le_trans l l'⟩

/-! ### a trusted fast hit is the tree's value -/

theorem fastGet_sound {db : DB} (hi : DBInv db) {S s : Ver} {m : Tree} {k val : Bytes}
    (hS : db.stamp = some S) (hs : s ≤ S) (ht : db.tree s = some m)
    (hg : fastGet db k s = some val) : walk m k = some val := by
  unfold fastGet at hg
  split at hg
  · rename_i w v' hget
    split at hg
    · simp at hg
    · rename_i hw
      simp only [Option.some.injEq] at hg
      subst hg
      have := (hi.fast S hS k w v' hget).2 s m (tree_mem ht) (Nat.le_of_not_lt hw) hs
      simp [walk, this]
  · simp at hg

/-! ### the rebuild writes -/

theorem clearW_inv {d : DB} (hi : DBInv d) : DBInv (clearW d) := by
  refine ⟨hi.nodup, hi.pos, hi.hist, ?_, fun _ => rfl, hi.stampLe, hi.contig⟩
  intro S _ k w val hg
  simp [clearW] at hg

theorem clearW_frame (d : DB) : Frame d (clearW d) :=
  ⟨fun _ _ h => h, fun S h => ⟨S, h, Nat.le_refl _⟩⟩

theorem fillW_inv {d : DB} {h : Handle} (hi : DBInv d) (ht : d.tree h.version = some h.work) :
    DBInv (fillW h d) := by
  have hm := tree_mem ht
  refine ⟨hi.nodup, hi.pos, hi.hist, ?_, ?_, ?_, hi.contig⟩
  · intro S hS k w val hg
    simp only [fillW, Option.some.injEq] at hS hg
    subst hS
    exact hi.hist _ _ hm k w val hg
  · intro hn
    have hn : d.vers = [] := hn
    rw [hn] at hm; simp at hm
  · intro S hS
    simp only [fillW, Option.some.injEq] at hS
    subst hS
    exact ⟨_, hm, Nat.le_refl _⟩

theorem fillW_frame {d : DB} {h : Handle} (hle : ∀ S, d.stamp = some S → S ≤ h.version) :
    Frame d (fillW h d) :=
  ⟨fun _ _ hx => hx, fun S hS => ⟨h.version, rfl, hle S hS⟩⟩

/-- every cut point of `rebuildFastIndex`'s write sequence leaves a consistent DB. -/
theorem rebuild_take_inv {db : DB} {h : Handle} (hi : DBInv db)
    (ht : db.tree h.version = some h.work) (hle : ∀ S, db.stamp = some S → S ≤ h.version) (n : Nat) :
    DBInv (applyWrites db ((rebuildWrites db h).take n)) ∧
    Frame db (applyWrites db ((rebuildWrites db h).take n)) := by
  unfold rebuildWrites applyWrites
  by_cases he : db.fast.isEmpty = true
  · rw [if_pos he]
    rcases n with _ | n
    · exact ⟨hi, Frame.refl _⟩
    · simp only [List.nil_append, List.cons_append, List.take_succ_cons, List.take_nil, List.take_zero, List.foldl_cons, List.foldl_nil]
      exact ⟨fillW_inv hi ht, fillW_frame hle⟩
  · rw [if_neg he]
    rcases n with _ | _ | n
    · exact ⟨hi, Frame.refl _⟩
    · simp only [List.nil_append, List.cons_append, List.take_succ_cons, List.take_nil, List.take_zero, List.foldl_cons, List.foldl_nil]
      exact ⟨clearW_inv hi, clearW_frame _⟩
    · simp only [List.nil_append, List.cons_append, List.take_succ_cons, List.take_nil, List.take_zero, List.foldl_cons, List.foldl_nil]
      exact ⟨fillW_inv (clearW_inv hi) ht, Frame.trans (clearW_frame _) (fillW_frame hle)⟩

theorem delStampW_inv {d : DB} (hi : DBInv d) : DBInv (delStampW d) :=
  ⟨hi.nodup, hi.pos, hi.hist, fun S hS => by simp [delStampW] at hS, hi.emptyFast,
   fun S hS => by simp [delStampW] at hS, hi.contig⟩

/-- every cut point of `dropFastIndex`'s write sequence (stamp delete, then the clear chunk). -/
theorem drop_take_inv {db : DB} (hi : DBInv db) (n : Nat) :
    DBInv (applyWrites db ((dropWrites db).take n)) := by
  unfold dropWrites applyWrites
  by_cases he : db.fast.isEmpty = true
  · rw [if_pos he]
    rcases n with _ | n
    · exact hi
    · simp only [List.append_nil, List.take_succ_cons, List.take_nil, List.foldl_cons, List.foldl_nil]
      exact delStampW_inv hi
  · rw [if_neg he]
    rcases n with _ | _ | n
    · exact hi
    · simp only [List.nil_append, List.cons_append, List.take_succ_cons, List.take_nil, List.take_zero, List.foldl_cons, List.foldl_nil]
      exact delStampW_inv hi
    · simp only [List.nil_append, List.cons_append, List.take_succ_cons, List.take_nil, List.take_zero, List.foldl_cons, List.foldl_nil]
      exact clearW_inv (delStampW_inv hi)

theorem rebuild_eq_take (db : DB) (h : Handle) :
    rebuild db h = applyWrites db ((rebuildWrites db h).take 2) := by
  unfold rebuild rebuildWrites
  by_cases he : db.fast.isEmpty = true <;> simp [he]

theorem rebuild_inv {db : DB} {h : Handle} (hi : DBInv db)
    (ht : db.tree h.version = some h.work) (hle : ∀ S, db.stamp = some S → S ≤ h.version) :
    DBInv (rebuild db h) ∧ Frame db (rebuild db h) := by
  rw [rebuild_eq_take]; exact rebuild_take_inv hi ht hle 2

theorem rebuild_stamp (db : DB) (h : Handle) : (rebuild db h).stamp = some h.version := by
  unfold rebuild rebuildWrites applyWrites
  by_cases he : db.fast.isEmpty = true <;> simp [he, fillW, clearW]

theorem rebuild_vers (db : DB) (h : Handle) : (rebuild db h).vers = db.vers := by
  unfold rebuild rebuildWrites applyWrites
  by_cases he : db.fast.isEmpty = true <;> simp [he, fillW, clearW]

end GnoVerif.C26
