import GnoVerif.Proofs.C33
/-! Concrete histories for C33: the two kill sequences after which a single validator never
commits again (the witnesses the harness replays on the real node: corpus/C33/finding-*.ops). -/
namespace GnoVerif.C33

/-- durable steps of `node.NewNode` on the empty world (genesis doc, genesis state, app version,
InitChain) — exactly what the harness observes (`events hs 1`) -/
def genesisHs : List Ev :=
  [.stG, .stV, .stP, .stV, .stS 0 0 false, .stV, .stP, .stV, .stS 0 0 true,
   .stR 0, .stV, .stP, .stV, .stS 0 0 true]

theorem genesis_newNode :
    newNode Disk.empty.toCore = .ok (genesisHs, applyAllCore Disk.empty.toCore genesisHs) := rfl

/-- handshake steps of a restart on `c` (empty if it fails) -/
def hsOf (c : Core) : List Ev := match newNode c with
  | .ok (e, _) => e
  | .error _ => []

def w0 : Disk := applyAll Disk.empty genesisHs
def w1 : Disk := applyAll w0 (walOpenEvs w0)
def h1Evs : List Ev := heightEvs w1 [] 0
def w2 : Disk := applyAll w1 h1Evs
def h2Evs : List Ev := heightEvs w2 [⟨7, 8⟩] 0

theorem w2_eq : applyAll Disk.empty (genesisHs ++ walOpenEvs w0 ++ (h1Evs ++ [])) = w2 := by
  rw [List.append_nil, applyAll_append, applyAll_append]; rfl

/-- the world after an uncrashed first height -/
theorem reach_w2 : Reach w2 :=
  w2_eq ▸ Reach.kill _ _ Reach.genesis
    (Proc.running genesisHs _ (h1Evs ++ []) _ genesis_newNode rfl
      (Heights.height w1 [] 0 [] (Heights.done _)) (List.prefix_refl _))

/-! #### A: one kill in the first height, right before `SaveBlock` (prevote and precommit signed) -/

def killA : List Ev := (genesisHs ++ walOpenEvs w0 ++ (h1Evs ++ [])).take 22
def worldA : Disk := applyAll Disk.empty killA

theorem reach_worldA : Reach worldA :=
  Reach.kill _ _ Reach.genesis
    (Proc.running genesisHs _ (h1Evs ++ []) killA genesis_newNode rfl
      (Heights.height w1 [] 0 [] (Heights.done _)) (List.take_prefix _ _))

theorem worldA_newNode :
    newNode worldA.toCore = .ok (hsOf worldA.toCore, applyAllCore worldA.toCore (hsOf worldA.toCore)) := rfl

theorem worldA_not_live : live (applyAll worldA (hsOf worldA.toCore)) = false := rfl

theorem worldA_first_height : (applyAll worldA (hsOf worldA.toCore)).st = 0 ∧ worldA.pv = ⟨1, 0, 3⟩ ∧
    hasMark worldA.wal 1 = false := ⟨rfl, rfl, rfl⟩

/-! #### B: kill #1 in height 2 between the block store's height record and the WAL marker;
kill #2 in height 3 after the prevote was signed -/

def kill1 : List Ev := (genesisHs ++ walOpenEvs w0 ++ (h1Evs ++ (h2Evs ++ []))).take 48
def world1 : Disk := applyAll Disk.empty kill1

theorem reach_world1 : Reach world1 :=
  Reach.kill _ _ Reach.genesis
    (Proc.running genesisHs _ (h1Evs ++ (h2Evs ++ [])) kill1 genesis_newNode rfl
      (Heights.height w1 [] 0 _ (Heights.height w2 [⟨7, 8⟩] 0 [] (Heights.done _))) (List.take_prefix _ _))

def hs2 : List Ev := hsOf world1.toCore
theorem world1_newNode :
    newNode world1.toCore = .ok (hs2, applyAllCore world1.toCore hs2) := rfl

def w3 : Disk := applyAll (applyAll world1 hs2) (walOpenEvs (applyAll world1 hs2))
def h3Evs : List Ev := heightEvs w3 [] 0
def kill2 : List Ev := (hs2 ++ walOpenEvs (applyAll world1 hs2) ++ (h3Evs ++ [])).take 13
def worldB : Disk := applyAll world1 kill2

theorem reach_worldB : Reach worldB :=
  Reach.kill _ _ reach_world1
    (Proc.running hs2 _ (h3Evs ++ []) kill2 world1_newNode rfl
      (Heights.height w3 [] 0 [] (Heights.done _)) (List.take_prefix _ _))

theorem worldB_newNode :
    newNode worldB.toCore = .ok (hsOf worldB.toCore, applyAllCore worldB.toCore (hsOf worldB.toCore)) := rfl

theorem worldB_not_live : live (applyAll worldB (hsOf worldB.toCore)) = false := rfl

theorem worldB_facts : worldB.store = 2 ∧ worldB.st = 2 ∧ worldB.app = 2 ∧ worldB.pv = ⟨3, 0, 2⟩ ∧
    hasMark worldB.wal 3 = false ∧ hasMark worldB.wal 2 = true := ⟨rfl, rfl, rfl, rfl, rfl, rfl⟩

/-! #### C: kill #1 tears the WAL record of the proposal of height 2; kill #2 before `SaveBlock` -/

def killT : List Ev := (genesisHs ++ walOpenEvs w0 ++ (h1Evs ++ (h2Evs ++ []))).take 36
def worldT0 : Disk := applyAll Disk.empty killT

theorem reach_worldT0 : Reach worldT0 :=
  Reach.kill _ _ Reach.genesis
    (Proc.running genesisHs _ (h1Evs ++ (h2Evs ++ [])) killT genesis_newNode rfl
      (Heights.height w1 [] 0 _ (Heights.height w2 [⟨7, 8⟩] 0 [] (Heights.done _))) (List.take_prefix _ _))

/-- the world kill #1 leaves: the proposal was signed, half of its WAL line is on disk -/
def worldT1 : Disk := tornKill worldT0
def hsT : List Ev := hsOf worldT1.toCore
theorem worldT1_newNode : newNode worldT1.toCore = .ok (hsT, applyAllCore worldT1.toCore hsT) := rfl
def wT : Disk := applyAll (applyAll worldT1 hsT) (walOpenEvs (applyAll worldT1 hsT))
def hTEvs : List Ev := heightEvs wT [⟨7, 8⟩] 0
/-- the restarted node signs and logs again, and is killed right before `SaveBlock` -/
def killT2 : List Ev := (hsT ++ walOpenEvs (applyAll worldT1 hsT) ++ (hTEvs ++ [])).take 7
def worldT2 : Disk := applyAll worldT1 killT2

theorem proc_worldT2 : Proc worldT1 killT2 :=
  Proc.running hsT _ (hTEvs ++ []) killT2 worldT1_newNode rfl
    (Heights.height wT [⟨7, 8⟩] 0 [] (Heights.done _)) (List.take_prefix _ _)

theorem worldT2_newNode :
    newNode worldT2.toCore = .ok (hsOf worldT2.toCore, applyAllCore worldT2.toCore (hsOf worldT2.toCore)) := rfl

theorem worldT2_not_startable : startOK (applyAll worldT2 (hsOf worldT2.toCore)) = false := rfl

theorem worldT1_starts : startOK (applyAll worldT1 hsT) = true ∧ live (applyAll worldT1 hsT) = true := ⟨rfl, rfl⟩

end GnoVerif.C33
