import GnoVerif.Spec.C52Html
/-!
C52 helper lemmas, part 2: contexts of the HTML tokenizer that escaped text cannot leave.
-/
namespace GnoVerif.C52

theorem run_nil (t : Tok) : run t [] = t := rfl
theorem run_cons (t : Tok) (c : Nat) (e : Bytes) : run t (c :: e) = run (step t c) e := rfl
theorem run_append (t : Tok) (a b : Bytes) : run t (a ++ b) = run (run t a) b := by
  simp [run, List.foldl_append]

/-! ### data state: only `<` leaves it -/

theorem step_data (t : Tok) (c : Nat) (hst : t.st = .data) (hc : c ≠ 60) : step t c = t := by
  cases t; simp only at hst; subst hst; simp [step, stepData, hc]

theorem run_data (t : Tok) (e : Bytes) (hst : t.st = .data) (he : ∀ b ∈ e, b ≠ 60) : run t e = t := by
  induction e with
  | nil => rfl
  | cons c r ih =>
    rw [run_cons, step_data t c hst (he c (by simp))]
    exact ih (fun b hb => he b (by simp [hb]))

/-! ### double-quoted attribute value: only `"` leaves it -/

theorem step_attrDQ (t : Tok) (c : Nat) (hst : t.st = .attrDQ) (hc : c ≠ 34) :
    step t c = { t with av := c :: t.av } := by
  cases t; simp only at hst; subst hst; simp [step, hc]

theorem run_attrDQ (t : Tok) (e : Bytes) (hst : t.st = .attrDQ) (he : ∀ b ∈ e, b ≠ 34) :
    run t e = { t with av := e.reverse ++ t.av } := by
  induction e generalizing t with
  | nil => simp [run_nil]
  | cons c r ih =>
    rw [run_cons, step_attrDQ t c hst (he c (by simp))]
    rw [ih _ (by simpa using hst) (fun b hb => he b (by simp [hb]))]
    simp

/-! ### single-quoted attribute value: only `'` leaves it -/

theorem step_attrSQ (t : Tok) (c : Nat) (hst : t.st = .attrSQ) (hc : c ≠ 39) :
    step t c = { t with av := c :: t.av } := by
  cases t; simp only at hst; subst hst; simp [step, hc]

theorem run_attrSQ (t : Tok) (e : Bytes) (hst : t.st = .attrSQ) (he : ∀ b ∈ e, b ≠ 39) :
    run t e = { t with av := e.reverse ++ t.av } := by
  induction e generalizing t with
  | nil => simp [run_nil]
  | cons c r ih =>
    rw [run_cons, step_attrSQ t c hst (he c (by simp))]
    rw [ih _ (by simpa using hst) (fun b hb => he b (by simp [hb]))]
    simp

/-! ### comments: only `>` leaves them -/

theorem step_comment (t : Tok) (c : Nat) (hst : inComment t.st) (hc : c ≠ 62) :
    ∃ s', inComment s' ∧ step t c = { t with st := s' } := by
  cases t with
  | mk st closing name attrs hasCur an av rawName rawBuf out =>
    simp only [inComment] at hst
    rcases hst with h | h | h | h | h | h <;> subst h <;> simp only [step, stepComment, hc, if_false]
    all_goals (repeat' split)
    all_goals first
      | exact ⟨_, Or.inl rfl, rfl⟩
      | exact ⟨_, Or.inr (Or.inl rfl), rfl⟩
      | exact ⟨_, Or.inr (Or.inr (Or.inl rfl)), rfl⟩
      | exact ⟨_, Or.inr (Or.inr (Or.inr (Or.inl rfl))), rfl⟩
      | exact ⟨_, Or.inr (Or.inr (Or.inr (Or.inr (Or.inl rfl)))), rfl⟩
      | exact ⟨_, Or.inr (Or.inr (Or.inr (Or.inr (Or.inr rfl)))), rfl⟩

theorem run_comment (t : Tok) (e : Bytes) (hst : inComment t.st) (he : ∀ b ∈ e, b ≠ 62) :
    ∃ s', inComment s' ∧ run t e = { t with st := s' } := by
  induction e generalizing t with
  | nil => exact ⟨t.st, hst, by cases t; rfl⟩
  | cons c r ih =>
    obtain ⟨s1, h1, e1⟩ := step_comment t c hst (he c (by simp))
    rw [run_cons, e1]
    obtain ⟨s2, h2, e2⟩ := ih { t with st := s1 } h1 (fun b hb => he b (by simp [hb]))
    exact ⟨s2, h2, by rw [e2]⟩

/-! ### RCDATA / raw text (`<textarea>` …): only `<` starts leaving it -/

theorem step_rawText (t : Tok) (c : Nat) (hst : t.st = .rawText) (hb : t.rawBuf = []) (hc : c ≠ 60) :
    step t c = t := by
  cases t; simp only at hst hb; subst hst; subst hb; simp [step, stepRawText, hc]

theorem run_rawText (t : Tok) (e : Bytes) (hst : t.st = .rawText) (hb : t.rawBuf = [])
    (he : ∀ b ∈ e, b ≠ 60) : run t e = t := by
  induction e with
  | nil => rfl
  | cons c r ih =>
    rw [run_cons, step_rawText t c hst hb (he c (by simp))]
    exact ih (fun b hb => he b (by simp [hb]))

end GnoVerif.C52
