import GnoVerif.Spec.C52Html
/-!
C52 helper lemmas, part 2: contexts of the HTML tokenizer that escaped text cannot leave.
-/
namespace GnoVerif.C52

theorem run_nil (t : Tok) : run t [] = t := rfl
theorem run_cons (t : Tok) (c : Nat) (e : Bytes) : run t (c :: e) = run (step t c) e := rfl
theorem run_append (t : Tok) (a b : Bytes) : run t (a ++ b) = run (run t a) b := by
  simp [run, List.foldl_append]

/-! ### data state: only `<` leaves it -/

theorem step_data (t : Tok) (c : Nat) (hst : t.st = .data) (hc : c ≠ 60) : step t c = t := by
  cases t; simp only at hst; subst hst; simp [step, stepData, hc]

theorem run_data (t : Tok) (e : Bytes) (hst : t.st = .data) (he : ∀ b ∈ e, b ≠ 60) : run t e = t := by
  induction e with
  | nil => rfl
  | cons c r ih =>
    rw [run_cons, step_data t c hst (he c (by simp))]
    exact ih (fun b hb => he b (by simp [hb]))

/-! ### double-quoted attribute value: only `"` leaves it -/

theorem step_attrDQ (t : Tok) (c : Nat) (hst : t.st = .attrDQ) (hc : c ≠ 34) :
    step t c = { t with av := c :: t.av } := by
  cases t; simp only at hst; subst hst; simp [step, hc]

theorem run_attrDQ (t : Tok) (e : Bytes) (hst : t.st = .attrDQ) (he : ∀ b ∈ e, b ≠ 34) :
    run t e = { t with av := e.reverse ++ t.av } := by
  induction e generalizing t with
  | nil => simp [run_nil]
  | cons c r ih =>
    rw [run_cons, step_attrDQ t c hst (he c (by simp))]
    rw [ih _ (by simpa using hst) (fun b hb => he b (by simp [hb]))]
    simp

/-! ### single-quoted attribute value: only `'` leaves it -/

theorem step_attrSQ (t : Tok) (c : Nat) (hst : t.st = .attrSQ) (hc : c ≠ 39) :
    step t c = { t with av := c :: t.av } := by
  cases t; simp only at hst; subst hst; simp [step, hc]

theorem run_attrSQ (t : Tok) (e : Bytes) (hst : t.st = .attrSQ) (he : ∀ b ∈ e, b ≠ 39) :
    run t e = { t with av := e.reverse ++ t.av } := by
  induction e generalizing t with
  | nil => simp [run_nil]
  | cons c r ih =>
    rw [run_cons, step_attrSQ t c hst (he c (by simp))]
    rw [ih _ (by simpa using hst) (fun b hb => he b (by simp [hb]))]
    simp

/-! ### comments: only `>` leaves them -/

theorem step_comment (t : Tok) (c : Nat) (hst : inComment t.st) (hc : c ≠ 62) :
    ∃ s', inComment s' ∧ step t c = { t with st := s' } := by
  cases t with
  | mk st closing name attrs hasCur an av rawName rawBuf out =>
    simp only [inComment] at hst
    rcases hst with h | h | h | h | h | h <;> subst h <;> simp only [step, stepComment, hc, if_false]
    all_goals (repeat' split)
    all_goals first
      | exact ⟨_, Or.inl rfl, rfl⟩
      | exact ⟨_, Or.inr (Or.inl rfl), rfl⟩
      | exact ⟨_, Or.inr (Or.inr (Or.inl rfl)), rfl⟩
      | exact ⟨_, Or.inr (Or.inr (Or.inr (Or.inl rfl))), rfl⟩
      | exact ⟨_, Or.inr (Or.inr (Or.inr (Or.inr (Or.inl rfl)))), rfl⟩
      | exact ⟨_, Or.inr (Or.inr (Or.inr (Or.inr (Or.inr rfl)))), rfl⟩

theorem run_comment (t : Tok) (e : Bytes) (hst : inComment t.st) (he : ∀ b ∈ e, b ≠ 62) :
    ∃ s', inComment s' ∧ run t e = { t with st := s' } := by
  induction e generalizing t with
  | nil => exact ⟨t.st, hst, by cases t; rfl⟩
  | cons c r ih =>
    obtain ⟨s1, h1, e1⟩ := step_comment t c hst (he c (by simp))
    rw [run_cons, e1]
    obtain ⟨s2, h2, e2⟩ := ih { t with st := s1 } h1 (fun b hb => he b (by simp [hb]))
    exact ⟨s2, h2, by rw [e2]⟩

/-! ### RCDATA / raw text (`<textarea>` …): only `<` starts leaving it -/

theorem step_rawText (t : Tok) (c : Nat) (hst : t.st = .rawText) (hb : t.rawBuf = []) (hc : c ≠ 60) :
    step t c = t := by
  cases t; simp only at hst hb; subst hst; subst hb; simp [step, stepRawText, hc]

theorem run_rawText (t : Tok) (e : Bytes) (hst : t.st = .rawText) (hb : t.rawBuf = [])
    (he : ∀ b ∈ e, b ≠ 60) : run t e = t := by
  induction e with
  | nil => rfl
  | cons c r ih =>
    rw [run_cons, step_rawText t c hst hb (he c (by simp))]
    exact ih (fun b hb => he b (by simp [hb]))

/-! ### the tokenizer never looks at the tags it has already emitted -/

/-- `t` with `o` appended to (i.e. emitted before) its emitted tags -/
def app (t : Tok) (o : List Tag) : Tok := { t with out := t.out ++ o }

theorem finishAttr_app (t : Tok) (o : List Tag) : finishAttr (app t o) = app (finishAttr t) o := by
  cases t with
  | mk st closing name attrs hasCur an av rawName rawBuf out =>
    cases hasCur <;> rfl

theorem emitTag_app (t : Tok) (o : List Tag) : emitTag (app t o) = app (emitTag t) o := by
  unfold emitTag
  rw [finishAttr_app]
  simp [app]

theorem startAttr_app (t : Tok) (c : Nat) (o : List Tag) : startAttr (app t o) c = app (startAttr t c) o := by
  unfold startAttr
  rw [finishAttr_app]
  simp [app]

theorem stepAfterAttrName_app (t : Tok) (c : Nat) (o : List Tag) :
    stepAfterAttrName (app t o) c = app (stepAfterAttrName t c) o := by
  unfold stepAfterAttrName
  by_cases h1 : isWs c = true
  · simp only [h1, if_true]; rfl
  · simp only [h1, if_false]
    by_cases h2 : c = 47
    · simp only [h2, if_true]; rfl
    · simp only [h2, if_false]
      by_cases h3 : c = 61
      · simp only [h3, if_true]; rfl
      · simp only [h3, if_false]
        by_cases h4 : c = 62
        · simp only [h4, if_true]; exact emitTag_app t o
        · simp only [h4, if_false]; exact startAttr_app t c o

theorem stepBeforeAttrName_app (t : Tok) (c : Nat) (o : List Tag) :
    stepBeforeAttrName (app t o) c = app (stepBeforeAttrName t c) o := by
  unfold stepBeforeAttrName
  by_cases h1 : isWs c = true
  · simp only [h1, if_true]; rfl
  · simp only [h1, if_false]
    by_cases h2 : c = 47 ∨ c = 62
    · simp only [h2, if_true]
      rw [finishAttr_app]; exact stepAfterAttrName_app _ c o
    · simp only [h2, if_false]; exact startAttr_app t c o

/-- congruence of `app` through a conditional -/
theorem app_ite (p : Prop) [Decidable p] (a b : Tok) (o : List Tag) :
    app (if p then a else b) o = if p then app a o else app b o := by
  split <;> rfl

theorem stepData_app (t : Tok) (c : Nat) (o : List Tag) : stepData (app t o) c = app (stepData t c) o := by
  unfold stepData; rw [app_ite]; exact ite_congr rfl (fun _ => rfl) (fun _ => rfl)
theorem stepBogus_app (t : Tok) (c : Nat) (o : List Tag) : stepBogus (app t o) c = app (stepBogus t c) o := by
  unfold stepBogus; rw [app_ite]; exact ite_congr rfl (fun _ => rfl) (fun _ => rfl)
theorem stepComment_app (t : Tok) (c : Nat) (o : List Tag) : stepComment (app t o) c = app (stepComment t c) o := by
  unfold stepComment; rw [app_ite]; exact ite_congr rfl (fun _ => rfl) (fun _ => rfl)
theorem stepRawText_app (t : Tok) (c : Nat) (o : List Tag) : stepRawText (app t o) c = app (stepRawText t c) o := by
  unfold stepRawText; rw [app_ite]; exact ite_congr rfl (fun _ => rfl) (fun _ => rfl)

theorem app_st (t : Tok) (o : List Tag) : (app t o).st = t.st := rfl

theorem step_app (t : Tok) (c : Nat) (o : List Tag) : step (app t o) c = app (step t c) o := by
  unfold step
  rw [app_st]
  split
  all_goals try simp only [app_ite]
  all_goals repeat' (first | refine ite_congr rfl (fun _ => ?_) (fun _ => ?_))
  all_goals first
    | rfl
    | exact emitTag_app _ o
    | exact stepBeforeAttrName_app _ c o
    | exact stepAfterAttrName_app _ c o
    | exact stepData_app _ c o
    | exact stepBogus_app _ c o
    | exact stepComment_app _ c o
    | exact stepRawText_app _ c o
    | exact emitTag_app { t with closing := true, name := t.rawBuf, attrs := [], hasCur := false, an := [], av := [], rawBuf := [] } o

theorem run_app (t : Tok) (bs : Bytes) (o : List Tag) : run (app t o) bs = app (run t bs) o := by
  induction bs generalizing t with
  | nil => rfl
  | cons c r ih => rw [run_cons, step_app, ih, run_cons]

end GnoVerif.C52
