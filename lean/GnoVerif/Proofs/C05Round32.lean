import GnoVerif.Proofs.C05RoundInt
import GnoVerif.Spec.C05Round32
/-! C05: the rounding theorem for `fpack32` — the binary32 twin of C05Round/C05Round2 (same proofs,
constants 23/24/25, −126/−127/−150, 128, 255; mantissa, sign and sticky word are 32 bit, the
exponent stays a 64-bit Go `int`). -/
set_option linter.unusedSimpArgs false
set_option linter.unusedVariables false
namespace GnoVerif.C05

namespace L
open GnoVerif.Gen.C05

theorem fpack32_loop1_done (fuel : Nat) (e : BitVec 64) (m : BitVec 32) (h : ¬ m.toNat < 2^23) :
    fpack32_loop1 fuel e m = (e, m) := by
  cases fuel with
  | zero => rfl
  | succ n =>
    unfold fpack32_loop1
    have : BitVec.ult m 8388608#32 = false := by simp [BitVec.ult]; omega
    simp [this]

theorem toInt_lit_neg126 : (BitVec.ofInt 64 (-126)).toInt = -126 := by decide
theorem toInt_lit_neg127 : (BitVec.ofInt 64 (-127)).toInt = -127 := by decide
theorem toInt_lit_neg150 : (BitVec.ofInt 64 (-150)).toInt = -150 := by decide

theorem and_one_eq_zero_iff32 (m : BitVec 32) : (m &&& 1#32) = 0#32 ↔ m.toNat % 2 = 0 := by
  constructor
  · intro h
    have := congrArg BitVec.toNat h
    simp only [BitVec.toNat_and, BitVec.toNat_ofNat] at this
    have e : m.toNat &&& 1 = m.toNat % 2 := Nat.and_one_is_mod _
    simp at this; omega
  · intro h
    apply BitVec.eq_of_toNat_eq
    simp only [BitVec.toNat_and, BitVec.toNat_ofNat]
    have e : m.toNat &&& 1 = m.toNat % 2 := Nat.and_one_is_mod _
    simp; omega

theorem or_eq_zero_iff32 (a b : BitVec 32) : (a ||| b) = 0#32 ↔ a = 0#32 ∧ b = 0#32 := by
  constructor
  · intro h
    have h' := congrArg BitVec.toNat h
    simp only [BitVec.toNat_or, BitVec.toNat_ofNat, Nat.zero_mod] at h'
    have := Nat.or_eq_zero_iff.1 h'
    exact ⟨BitVec.eq_of_toNat_eq (by simpa using this.1), BitVec.eq_of_toNat_eq (by simpa using this.2)⟩
  · rintro ⟨rfl, rfl⟩; simp

theorem fpack32_loop2_spec (fuel : Nat) : ∀ (e : BitVec 64) (m t : BitVec 32), m.toNat < 2^25 * 2^fuel →
    ∃ c t', c ≤ fuel ∧ fpack32_loop2 fuel e m t = (e + BitVec.ofNat 64 c, m >>> c, t') ∧
      (m >>> c).toNat < 2^25 ∧ (c ≠ 0 → 2^24 ≤ (m >>> c).toNat) ∧
      (t' = 0#32 ↔ (t = 0#32 ∧ m.toNat % 2^c = 0)) := by
  induction fuel with
  | zero =>
    intro e m t h
    refine ⟨0, t, Nat.le_refl _, ?_, ?_, ?_, ?_⟩
    · simp [fpack32_loop2]
    · simpa using h
    · intro h; exact absurd rfl h
    · simp [Nat.mod_one]
  | succ n ih =>
    intro e m t h
    rw [fpack32_loop2_succ]
    by_cases hge : 2^25 ≤ m.toNat
    · have c : BitVec.ule 33554432#32 m = true := by simp [BitVec.ule]; omega
      simp only [c, if_true]
      have hm1 : (m >>> 1).toNat = m.toNat / 2 := by
        rw [BitVec.toNat_ushiftRight, Nat.shiftRight_eq_div_pow]
      obtain ⟨c', t', hc', heq, hlt, hge', ht'⟩ := ih (e + 1#64) (m >>> 1) (t ||| (m &&& 1#32))
        (by rw [hm1]; rw [Nat.pow_succ] at h; omega)
      refine ⟨c' + 1, t', by omega, ?_, ?_, ?_, ?_⟩
      · rw [heq]
        congr 1
        · rw [BitVec.add_assoc]; congr 1
          apply BitVec.eq_of_toNat_eq; simp [BitVec.toNat_add]; omega
        · congr 1
          rw [← BitVec.shiftRight_add, Nat.add_comm]
      · rw [show m >>> (c' + 1) = m >>> 1 >>> c' by rw [← BitVec.shiftRight_add, Nat.add_comm]]; exact hlt
      · intro _
        rw [show m >>> (c' + 1) = m >>> 1 >>> c' by rw [← BitVec.shiftRight_add, Nat.add_comm]]
        by_cases hc0 : c' = 0
        · subst hc0; simp only [BitVec.ushiftRight_zero]; rw [hm1]; omega
        · exact hge' hc0
      · rw [ht', or_eq_zero_iff32, and_one_eq_zero_iff32, hm1, mod_two_pow_succ_eq_zero]
        constructor
        · rintro ⟨⟨h1, h2⟩, h3⟩; exact ⟨h1, h2, h3⟩
        · rintro ⟨h1, h2, h3⟩; exact ⟨⟨h1, h2⟩, h3⟩
    · have c : BitVec.ule 33554432#32 m = false := by simp [BitVec.ule]; omega
      simp only [c]
      refine ⟨0, t, by omega, ?_, ?_, ?_, ?_⟩
      · simp
      · simp; omega
      · intro h; exact absurd rfl h
      · simp [Nat.mod_one]


/-- the denormalising loop of `fpack32`: `d = -127 - exp` shifts with sticky -/
theorem fpack32_loop3_spec (d : Nat) : ∀ (fuel : Nat) (e : BitVec 64) (m t : BitVec 32), d ≤ fuel →
    e.toInt = -127 - (d : Int) →
    ∃ t', fpack32_loop3 fuel e m t = (BitVec.ofInt 64 (-127), m >>> d, t') ∧
      (t' = 0#32 ↔ (t = 0#32 ∧ m.toNat % 2^d = 0)) := by
  induction d with
  | zero =>
    intro fuel e m t _ he
    have hE : e = BitVec.ofInt 64 (-127) := by
      apply BitVec.eq_of_toInt_eq; rw [toInt_lit_neg127]; omega
    subst hE
    refine ⟨t, ?_, by simp [Nat.mod_one]⟩
    cases fuel with
    | zero => simp [fpack32_loop3]
    | succ n =>
      rw [fpack32_loop3_succ]
      have : BitVec.slt (BitVec.ofInt 64 (-127)) (BitVec.ofInt 64 (-127)) = false := by decide
      simp only [this, Bool.false_eq_true, if_false, BitVec.ushiftRight_zero]
  | succ j ih =>
    intro fuel e m t hf he
    cases fuel with
    | zero => omega
    | succ n =>
      rw [fpack32_loop3_succ]
      have c : BitVec.slt e (BitVec.ofInt 64 (-127)) = true := by
        simp only [BitVec.slt, toInt_lit_neg127]; simp; omega
      simp only [c, if_true]
      have he' : (e + 1#64).toInt = -127 - (j : Int) := by
        rw [toInt_add_one e (by omega)]; omega
      have hm1 : (m >>> 1).toNat = m.toNat / 2 := by
        rw [BitVec.toNat_ushiftRight, Nat.shiftRight_eq_div_pow]
      obtain ⟨t', heq, ht'⟩ := ih n (e + 1#64) (m >>> 1) (t ||| (m &&& 1#32)) (by omega) he'
      refine ⟨t', ?_, ?_⟩
      · rw [heq, ← BitVec.shiftRight_add, Nat.add_comm]
      · rw [ht', or_eq_zero_iff32, and_one_eq_zero_iff32, hm1, mod_two_pow_succ_eq_zero]
        constructor
        · rintro ⟨⟨h1, h2⟩, h3⟩; exact ⟨h1, h2, h3⟩
        · rintro ⟨h1, h2, h3⟩; exact ⟨⟨h1, h2⟩, h3⟩


/-! ### `fpack32` cut into its phases (definitionally the generated code) -/

def assemble32 (sign : BitVec 32) (exp : BitVec 64) (mant : BitVec 32) : BitVec 32 :=
  ((sign ||| ((BitVec.setWidth 32 (exp - (BitVec.ofInt 64 (-127)))) <<< 23)) ||| (mant &&& 8388607#32))

def roundUp32 (mant trunc : BitVec 32) : Bool :=
  (((mant &&& 1#32) != 0#32) && ((trunc != 0#32) || ((mant &&& 2#32) != 0#32)))

def roundStep32 (exp : BitVec 64) (mant trunc : BitVec 32) : BitVec 64 × BitVec 32 :=
  (if (BitVec.ule 16777216#32 mant) then
      let (exp, mant) := (if roundUp32 mant trunc then
        let mant := (mant + 1#32)
        let (exp, mant) := (if (BitVec.ule 33554432#32 mant) then
          let mant := (mant >>> 1)
          let exp := (exp + 1#64)
          (exp, mant)
        else
          (exp, mant))
        (exp, mant)
      else
        (exp, mant))
      let mant := (mant >>> 1)
      let exp := (exp + 1#64)
      (exp, mant)
    else
      (exp, mant))

def denormTail32 (sign mant0 : BitVec 32) (exp0 : BitVec 64) (trunc0 : BitVec 32) : BitVec 32 :=
  let (mant, exp, trunc) := (mant0, exp0, trunc0)
  let (exp, mant, trunc) := fpack32_loop3 loopFuel exp mant trunc
  let mant := (if roundUp32 mant trunc then
    let mant := (mant + 1#32)
    mant
  else
    mant)
  let mant := (mant >>> 1)
  let exp := (exp + 1#64)
  if (BitVec.ult mant 8388608#32) then
    (sign ||| mant)
  else
    assemble32 sign exp mant

def tail32 (sign mant0 : BitVec 32) (exp0 : BitVec 64) (trunc0 : BitVec 32) (exp : BitVec 64) (mant : BitVec 32) : BitVec 32 :=
  if (BitVec.sle 128#64 exp) then
    (sign ^^^ 2139095040#32)
  else
    if (BitVec.slt exp (BitVec.ofInt 64 (-126))) then
      if (BitVec.slt exp (BitVec.ofInt 64 (-150))) then
        (sign ||| 0#32)
      else
        denormTail32 sign mant0 exp0 trunc0
    else
      assemble32 sign exp mant

theorem fpack32_phases (sign mant : BitVec 32) (exp : BitVec 64) (trunc : BitVec 32) :
    fpack32 sign mant exp trunc =
      if (mant == 0#32) then sign else
        let (exp, mant) := fpack32_loop1 loopFuel exp mant
        let (exp2, mant2, trunc2) := fpack32_loop2 loopFuel exp mant trunc
        let (exp3, mant3) := roundStep32 exp2 mant2 trunc2
        tail32 sign mant exp trunc exp3 mant3 := by
  unfold fpack32 tail32 denormTail32 roundStep32 roundUp32 assemble32
  rfl


theorem and_two_ne_zero_iff32 (m : BitVec 32) : ((m &&& 2#32) != 0#32) = true ↔ m.toNat / 2 % 2 = 1 := by
  have e : (m &&& 2#32).toNat = (m.toNat / 2 % 2) * 2 := by
    rw [BitVec.toNat_and]
    show m.toNat &&& 2^1 = _
    rw [nat_and_two_pow]
  constructor
  · intro h
    have hne : (m &&& 2#32) ≠ 0#32 := by simpa using h
    have : (m &&& 2#32).toNat ≠ 0 := fun h0 => hne (BitVec.eq_of_toNat_eq (by simpa using h0))
    omega
  · intro h
    have : (m &&& 2#32) ≠ 0#32 := by
      intro h0
      have := congrArg BitVec.toNat h0
      rw [e] at this; simp at this; omega
    simpa using this

theorem roundUp32_iff (m t : BitVec 32) :
    roundUp32 m t = true ↔ (m.toNat % 2 = 1 ∧ ((decide (t ≠ 0#32)) = true ∨ m.toNat / 2 % 2 = 1)) := by
  unfold roundUp32
  rw [Bool.and_eq_true, Bool.or_eq_true, and_two_ne_zero_iff32]
  have h1 : ((m &&& 1#32) != 0#32) = true ↔ m.toNat % 2 = 1 := by
    have := and_one_eq_zero_iff32 m
    constructor
    · intro h
      have hne : (m &&& 1#32) ≠ 0#32 := by simpa using h
      have : ¬ (m.toNat % 2 = 0) := fun h0 => hne (this.2 h0)
      omega
    · intro h
      have : (m &&& 1#32) ≠ 0#32 := fun h0 => by have := this.1 h0; omega
      simpa using this
  rw [h1]
  simp

theorem roundStep32_spec (e : BitVec 64) (m t : BitVec 32) (h1 : 2^24 ≤ m.toNat) (h2 : m.toNat < 2^25) :
    ∃ (e3 : BitVec 64) (m3 : BitVec 32), roundStep32 e m t = (e3, m3) ∧
      ((rneShift m.toNat 1 (decide (t ≠ 0#32)) < 2^24 ∧ e3 = e + 1#64 ∧ m3.toNat = rneShift m.toNat 1 (decide (t ≠ 0#32))) ∨
       (rneShift m.toNat 1 (decide (t ≠ 0#32)) = 2^24 ∧ e3 = e + 1#64 + 1#64 ∧ m3.toNat = 2^23)) := by
  have hc : BitVec.ule 16777216#32 m = true := by simp [BitVec.ule]; omega
  have hm1 : ∀ x : BitVec 32, (x >>> 1).toNat = x.toNat / 2 := by
    intro x; rw [BitVec.toNat_ushiftRight, Nat.shiftRight_eq_div_pow]
  rw [rneShift_one]
  unfold roundStep32
  simp only [hc, if_true]
  by_cases hup : roundUp32 m t = true
  · have hup' := (roundUp32_iff m t).1 hup
    simp only [hup, hup', and_self, if_true]
    have hadd : (m + 1#32).toNat = m.toNat + 1 := by
      rw [BitVec.toNat_add]; simp; omega
    by_cases hcar : 2^25 ≤ m.toNat + 1
    · have c2 : BitVec.ule 33554432#32 (m + 1#32) = true := by simp [BitVec.ule, hadd]; omega
      simp only [c2, if_true]
      refine ⟨_, _, rfl, Or.inr ⟨by omega, rfl, ?_⟩⟩
      rw [hm1, hm1, hadd]; omega
    · have c2 : BitVec.ule 33554432#32 (m + 1#32) = false := by simp [BitVec.ule, hadd]; omega
      simp only [c2, Bool.false_eq_true, if_false]
      refine ⟨_, _, rfl, Or.inl ⟨by omega, rfl, ?_⟩⟩
      rw [hm1, hadd]
  · have hup' : ¬ (m.toNat % 2 = 1 ∧ ((decide (t ≠ 0#32)) = true ∨ m.toNat / 2 % 2 = 1)) :=
      fun h => hup ((roundUp32_iff m t).2 h)
    simp only [hup, hup', Bool.false_eq_true, if_false]
    refine ⟨_, _, rfl, Or.inl ⟨by omega, rfl, ?_⟩⟩
    rw [hm1]; simp

theorem roundStep32_small (e : BitVec 64) (m t : BitVec 32) (h : m.toNat < 2^24) : roundStep32 e m t = (e, m) := by
  have hc : BitVec.ule 16777216#32 m = false := by simp [BitVec.ule]; omega
  unfold roundStep32
  simp only [hc, Bool.false_eq_true, if_false]


theorem assemble32_eq (s : BitVec 32) (e : BitVec 64) (m : BitVec 32) (hm1 : 2^23 ≤ m.toNat) (hm2 : m.toNat < 2^24)
    (he1 : -126 ≤ e.toInt) (he2 : e.toInt ≤ 127) :
    assemble32 s e m = s ||| BitVec.ofNat 32 ((e.toInt + 127).toNat * 2^23 + (m.toNat - 2^23)) := by
  unfold assemble32
  rw [BitVec.or_assoc]
  have key : (((BitVec.setWidth 32 (e - BitVec.ofInt 64 (-127))) <<< 23) ||| (m &&& 8388607#32)) =
      BitVec.ofNat 32 ((e.toInt + 127).toNat * 2^23 + (m.toNat - 2^23)) := by
    apply BitVec.eq_of_toNat_eq
    have hx : (e - BitVec.ofInt 64 (-127)).toInt = e.toInt + 127 := by
      rw [BitVec.toInt_sub, toInt_lit_neg127]; simp only [Int.bmod_def]; omega
    have hxn : ((e - BitVec.ofInt 64 (-127)).toNat : Int) = e.toInt + 127 := by
      rw [toNat_of_toInt_nonneg _ (by omega), hx]
    rw [BitVec.toNat_or, BitVec.toNat_shiftLeft, BitVec.toNat_setWidth, toNat_and_mant32, BitVec.toNat_ofNat]
    generalize (e - BitVec.ofInt 64 (-127)).toNat = X at hxn ⊢
    have hX : X = (e.toInt + 127).toNat := by omega
    have hXlt : X < 256 := by omega
    rw [← hX]
    have hb : m.toNat % 2^23 < 2^23 := Nat.mod_lt _ (Nat.two_pow_pos _)
    rw [Nat.mod_eq_of_lt (show X < 2^32 by omega)]
    rw [Nat.mod_eq_of_lt (show X <<< 23 < 2^32 by rw [Nat.shiftLeft_eq]; omega)]
    rw [← Nat.shiftLeft_add_eq_or_of_lt hb, Nat.shiftLeft_eq]
    have : m.toNat % 2^23 = m.toNat - 2^23 := by omega
    rw [this, Nat.mod_eq_of_lt (by omega)]
  rw [key]

theorem xor_inf_eq32 (s : BitVec 32) (hs : s = 0#32 ∨ s = 2147483648#32) :
    s ^^^ 2139095040#32 = s ||| BitVec.ofNat 32 (255 * 2^23) := by
  rcases hs with rfl | rfl <;> decide


theorem decide_ne_zero_or32 (t t' : BitVec 32) (low : Nat) (h : t' = 0#32 ↔ (t = 0#32 ∧ low = 0)) :
    decide (t' ≠ 0#32) = (decide (t ≠ 0#32) || decide (low ≠ 0)) := by
  by_cases h1 : t = 0#32 <;> by_cases h2 : low = 0 <;> by_cases h3 : t' = 0#32 <;> simp_all

/-- the subnormal tail of `fpack32`: one rounding of the ORIGINAL mantissa at the fixed quantum 2^-1074 -/
theorem denormTail32_spec (s m0 : BitVec 32) (e0 : BitVec 64) (t0 : BitVec 32) (D : Nat) (hD1 : 1 ≤ D) (hD2 : D ≤ 128)
    (he : e0.toInt = -126 - (D : Int)) (hm : m0.toNat < 2^(D-1) * 2^24) :
    denormTail32 s m0 e0 t0 = s ||| BitVec.ofNat 32 (rneShift m0.toNat D (decide (t0 ≠ 0#32))) := by
  obtain ⟨t', hloop, ht'⟩ := fpack32_loop3_spec (D - 1) loopFuel e0 m0 t0 (by unfold loopFuel; omega)
    (by omega)
  have hsplit := rneShift_split m0.toNat (D - 1) 1 (by decide) (decide (t0 ≠ 0#32))
  rw [show D - 1 + 1 = D by omega] at hsplit
  have hm4 : (m0 >>> (D - 1)).toNat = m0.toNat / 2^(D-1) := by
    rw [BitVec.toNat_ushiftRight, Nat.shiftRight_eq_div_pow]
  have hm4lt : (m0 >>> (D - 1)).toNat < 2^24 := by
    rw [hm4, Nat.div_lt_iff_lt_mul (Nat.two_pow_pos _), Nat.mul_comm]; exact hm
  have hst := decide_ne_zero_or32 t0 t' (m0.toNat % 2^(D-1)) ht'
  rw [hsplit, ← hst, ← hm4, rneShift_one]
  generalize m0 >>> (D - 1) = m4 at *
  have hm1 : ∀ x : BitVec 32, (x >>> 1).toNat = x.toNat / 2 := by
    intro x; rw [BitVec.toNat_ushiftRight, Nat.shiftRight_eq_div_pow]
  have hexp : (BitVec.ofInt 64 (-127) + 1#64).toInt = -126 := by decide
  unfold denormTail32
  simp only [hloop]
  by_cases hup : roundUp32 m4 t' = true
  · have hup' := (roundUp32_iff m4 t').1 hup
    simp only [hup, hup', and_self, if_true]
    have hadd : (m4 + 1#32).toNat = m4.toNat + 1 := by
      rw [BitVec.toNat_add]; simp; omega
    by_cases hlt : (m4.toNat + 1) / 2 < 2^23
    · have c : BitVec.ult ((m4 + 1#32) >>> 1) 8388608#32 = true := by
        simp [BitVec.ult, hm1, hadd]; omega
      simp only [c, if_true]
      congr 1
      apply BitVec.eq_of_toNat_eq
      rw [hm1, hadd, BitVec.toNat_ofNat, Nat.mod_eq_of_lt (by omega)]
    · have c : BitVec.ult ((m4 + 1#32) >>> 1) 8388608#32 = false := by
        simp [BitVec.ult, hm1, hadd]; omega
      simp only [c, Bool.false_eq_true, if_false]
      rw [assemble32_eq _ _ _ (by rw [hm1, hadd]; omega) (by rw [hm1, hadd]; omega) (by omega) (by omega)]
      rw [hexp, hm1, hadd]
      have : (m4.toNat + 1) / 2 = 2^23 := by omega
      rw [this]; rfl
  · have hup' : ¬ (m4.toNat % 2 = 1 ∧ ((decide (t' ≠ 0#32)) = true ∨ m4.toNat / 2 % 2 = 1)) :=
      fun h => hup ((roundUp32_iff m4 t').2 h)
    simp only [hup, hup', Bool.false_eq_true, if_false]
    have c : BitVec.ult (m4 >>> 1) 8388608#32 = true := by
      simp [BitVec.ult, hm1]; omega
    simp only [c, if_true, Nat.add_zero]
    congr 1
    apply BitVec.eq_of_toNat_eq
    rw [hm1, BitVec.toNat_ofNat, Nat.mod_eq_of_lt (by omega)]



/-- a rounding carry to 2^24 at shift `k` means rounding to 2^23 at shift `k+1` -/
theorem rneShift_carry32 (m k : Nat) (st : Bool) (hk : 1 ≤ k) (hm : m < 2^k * 2^24)
    (h : rneShift m k st = 2^24) : rneShift m (k + 1) st = 2^23 := by
  have hk0 : k ≠ 0 := by omega
  have hP : 0 < 2^k := Nat.two_pow_pos k
  obtain ⟨H, hH⟩ : ∃ H, H = 2^(k-1) := ⟨_, rfl⟩
  have hHpos : 0 < H := by rw [hH]; exact Nat.two_pow_pos _
  have hpow : 2^k = 2 * H := by
    rw [hH, show k = (k-1) + 1 by omega, Nat.pow_succ]; simp; omega
  have hq : m / 2^k < 2^24 := by rw [Nat.div_lt_iff_lt_mul hP, Nat.mul_comm]; exact hm
  have d := Nat.div_add_mod m (2^k)
  have hr : m % 2^k < 2^k := Nat.mod_lt _ hP
  unfold rneShift at h
  rw [if_neg hk0, ← hH] at h
  -- the quotient must be 2^24 - 1 and the remainder at least half
  have hup : (H < m % 2^k ∨ m % 2^k = H ∧ (st = true ∨ m / 2^k % 2 = 1)) := by
    by_cases hc : (H < m % 2^k ∨ m % 2^k = H ∧ (st = true ∨ m / 2^k % 2 = 1))
    · exact hc
    · rw [if_neg hc] at h; omega
  rw [if_pos hup] at h
  have hqv : m / 2^k = 2^24 - 1 := by omega
  have hrge : H ≤ m % 2^k := by rcases hup with h1 | ⟨h1, _⟩ <;> omega
  -- now at shift k+1
  unfold rneShift
  rw [if_neg (by omega : k + 1 ≠ 0), show k + 1 - 1 = k by omega]
  have hpow2 : 2^(k+1) = 2 * 2^k := by rw [Nat.pow_succ]; omega
  rw [hpow2]
  rw [hpow] at d hr hqv hrge ⊢
  generalize m % (2 * H) = r at *
  have hm' : m = 2 * (2 * H) * (2^23 - 1) + (2 * H + r) := by
    rw [← d, hqv]; simp; omega
  have hdiv : m / (2 * (2 * H)) = 2^23 - 1 := by
    rw [hm']
    rw [Nat.mul_add_div (by omega)]
    have : (2 * H + r) / (2 * (2 * H)) = 0 := Nat.div_eq_of_lt (by omega)
    omega
  have hmod : m % (2 * (2 * H)) = 2 * H + r := by
    rw [hm', Nat.mul_add_mod]
    exact Nat.mod_eq_of_lt (by omega)
  rw [hdiv, hmod]
  have : (2 * H < 2 * H + r ∨ 2 * H + r = 2 * H ∧ (st = true ∨ (2 ^ 23 - 1) % 2 = 1)) := Or.inl (by omega)
  rw [if_pos this]



theorem toInt_lit_128 : (128#64).toInt = 128 := by decide

theorem tail32_spec (s m : BitVec 32) (e : BitVec 64) (t : BitVec 32) (e3 : BitVec 64) (m3 : BitVec 32) (L : Nat)
    (hs : s = 0#32 ∨ s = 2147483648#32)
    (_hL1 : 2^(L-1) ≤ m.toNat) (hL2 : m.toNat < 2^L) (hL53 : 24 ≤ L) (hL64 : L ≤ 32)
    (he1 : -(2^40) ≤ e.toInt) (he2 : e.toInt ≤ 2^40)
    (hm3a : 2^23 ≤ m3.toNat) (hm3b : m3.toNat < 2^24)
    (hcase :
      (rneShift m.toNat (L-24) (decide (t ≠ 0#32)) < 2^24 ∧ e3.toInt = e.toInt + ((L - 24 : Nat) : Int) ∧
        m3.toNat = rneShift m.toNat (L-24) (decide (t ≠ 0#32))) ∨
      (rneShift m.toNat (L-24) (decide (t ≠ 0#32)) = 2^24 ∧ 25 ≤ L ∧
        e3.toInt = e.toInt + ((L - 24 : Nat) : Int) + 1 ∧ m3.toNat = 2^23)) :
    tail32 s m e t e3 m3 = s ||| BitVec.ofNat 32 (packSpecL32 L m.toNat e.toInt (decide (t ≠ 0#32))) := by
  generalize hst : decide (t ≠ 0#32) = st at *
  generalize hq : rneShift m.toNat (L-24) st = q at *
  have hLi : ((L : Int) - 24) = ((L - 24 : Nat) : Int) := by omega
  unfold tail32 packSpecL32
  simp only [hLi, hq]
  have b1 : BitVec.sle 128#64 e3 = decide (128 ≤ e3.toInt) := by
    simp only [BitVec.sle, toInt_lit_128]
  have b2 : BitVec.slt e3 (BitVec.ofInt 64 (-126)) = decide (e3.toInt < -126) := by
    simp only [BitVec.slt, toInt_lit_neg126]
  have b3 : BitVec.slt e3 (BitVec.ofInt 64 (-150)) = decide (e3.toInt < -150) := by
    simp only [BitVec.slt, toInt_lit_neg150]
  rw [b1, b2, b3]
  by_cases c1 : 128 ≤ e3.toInt
  · -- overflow
    simp only [c1, decide_true, if_true]
    rw [xor_inf_eq32 s hs]
    have : -126 ≤ e.toInt + ((L - 24 : Nat) : Int) := by
      rcases hcase with ⟨_, h, _⟩ | ⟨_, _, h, _⟩ <;> omega
    rw [if_pos this]
    have hY : (((e.toInt + ((L - 24 : Nat) : Int) + 126).toNat : Nat) : Int) = e.toInt + ((L - 24 : Nat) : Int) + 126 := by omega
    generalize (e.toInt + ((L - 24 : Nat) : Int) + 126).toNat = Y at hY ⊢
    have hge : 255 * 2^23 ≤ Y * 2^23 + q := by
      rcases hcase with ⟨_, h, h'⟩ | ⟨h0, _, h, _⟩ <;> omega
    rw [Nat.min_eq_right hge]
  · simp only [c1, decide_false, Bool.false_eq_true, if_false]
    by_cases c2 : e3.toInt < -126
    · simp only [c2, decide_true, if_true]
      have hEu : ¬ (-126 ≤ e.toInt + ((L - 24 : Nat) : Int)) := by
        rcases hcase with ⟨_, h, _⟩ | ⟨_, _, h, _⟩ <;> omega
      rw [if_neg hEu]
      have hD : e.toInt = -126 - (((-126 - e.toInt).toNat : Nat) : Int) := by omega
      generalize (-126 - e.toInt).toNat = D at hD ⊢
      by_cases c3 : e3.toInt < -150
      · simp only [c3, decide_true, if_true]
        have hLD : L ≤ D - 1 := by
          rcases hcase with ⟨_, h, _⟩ | ⟨_, _, h, _⟩ <;> omega
        have : m.toNat < 2^(D-1) := Nat.lt_of_lt_of_le hL2 (Nat.pow_le_pow_right (by decide) hLD)
        rw [rneShift_small _ _ _ (by omega) this]
      · simp only [c3, decide_false, Bool.false_eq_true, if_false]
        have hD1 : 1 ≤ D := by omega
        have hD2 : D ≤ 128 := by
          rcases hcase with ⟨_, h, _⟩ | ⟨_, _, h, _⟩ <;> omega
        have hLD : L ≤ D - 1 + 24 := by omega
        have hmD : m.toNat < 2^(D-1) * 2^24 := by
          rw [← Nat.pow_add]
          exact Nat.lt_of_lt_of_le hL2 (Nat.pow_le_pow_right (by decide) hLD)
        rw [denormTail32_spec s m e t D hD1 hD2 hD hmD, hst]
    · simp only [c2, decide_false, Bool.false_eq_true, if_false]
      rw [assemble32_eq s e3 m3 hm3a hm3b (by omega) (by omega)]
      by_cases hEu : -126 ≤ e.toInt + ((L - 24 : Nat) : Int)
      · rw [if_pos hEu]
        have hY : (((e.toInt + ((L - 24 : Nat) : Int) + 126).toNat : Nat) : Int) = e.toInt + ((L - 24 : Nat) : Int) + 126 := by omega
        generalize (e.toInt + ((L - 24 : Nat) : Int) + 126).toNat = Y at hY ⊢
        have hZ : (((e3.toInt + 127).toNat : Nat) : Int) = e3.toInt + 127 := by omega
        generalize (e3.toInt + 127).toNat = Z at hZ ⊢
        have hle : Y * 2^23 + q ≤ 255 * 2^23 := by
          rcases hcase with ⟨_, h, h'⟩ | ⟨h0, _, h, h'⟩ <;> omega
        rw [Nat.min_eq_left hle]
        have : Z * 2^23 + (m3.toNat - 2^23) = Y * 2^23 + q := by
          rcases hcase with ⟨_, h, h'⟩ | ⟨h0, _, h, h'⟩ <;> omega
        rw [this]
      · rw [if_neg hEu]
        rcases hcase with ⟨_, h, h'⟩ | ⟨h0, hL54, h, h'⟩
        · omega
        · have hk : (-126 - e.toInt).toNat = (L - 24) + 1 := by omega
          have hmk : m.toNat < 2^(L-24) * 2^24 := by
            rw [← Nat.pow_add, show L - 24 + 24 = L by omega]; exact hL2
          rw [hk, rneShift_carry32 _ _ _ (by omega) hmk (hq.trans h0)]
          have hZ : (((e3.toInt + 127).toNat : Nat) : Int) = e3.toInt + 127 := by omega
          generalize (e3.toInt + 127).toNat = Z at hZ ⊢
          have : Z * 2^23 + (m3.toNat - 2^23) = 2^23 := by omega
          rw [this]


theorem fpack32_rne (s m : BitVec 32) (e : BitVec 64) (t : BitVec 32) (hs : s = 0#32 ∨ s = 2147483648#32)
    (hm : 2^23 ≤ m.toNat) (he1 : -(2^40) ≤ e.toInt) (he2 : e.toInt ≤ 2^40) :
    fpack32 s m e t = s ||| BitVec.ofNat 32 (packSpec32 m.toNat e.toInt (decide (t ≠ 0#32))) := by
  have hm0 : (m == 0#32) = false := by
    rw [Bool.eq_false_iff]; intro h
    have := congrArg BitVec.toNat (eq_of_beq h); simp at this; omega
  have hmne : m.toNat ≠ 0 := by omega
  have h1 : fpack32_loop1 loopFuel e m = (e, m) := fpack32_loop1_done _ e m (by omega)
  obtain ⟨c, t2, hc, hl2, hlt, hge, ht2⟩ := fpack32_loop2_spec loopFuel e m t (by
    have := m.isLt
    have : (2:Nat)^7 ≤ 2^loopFuel := Nat.pow_le_pow_right (by decide) (by unfold loopFuel; omega)
    have : 2^25 * 2^7 ≤ 2^25 * 2^loopFuel := Nat.mul_le_mul_left _ this
    omega)
  have hm2 : (m >>> c).toNat = m.toNat / 2^c := by
    rw [BitVec.toNat_ushiftRight, Nat.shiftRight_eq_div_pow]
  rw [fpack32_phases]
  simp only [hm0, Bool.false_eq_true, if_false, h1, hl2]
  unfold packSpec32
  by_cases hsmall : (m >>> c).toNat < 2^24
  · -- no rounding at all: 24-bit mantissa, trunc = 0
    have hc0 : c = 0 := by
      by_cases h : c = 0
      · exact h
      · have := hge h; omega
    subst hc0
    simp only [BitVec.ushiftRight_zero] at hsmall hlt
    have hlog : Nat.log2 m.toNat = 23 := (Nat.log2_eq_iff hmne).2 ⟨hm, hsmall⟩
    rw [roundStep32_small _ _ _ (by simpa using hsmall), hlog]
    simp only [BitVec.ushiftRight_zero]
    have hE : (e + BitVec.ofNat 64 0) = e := by simp
    rw [hE]
    exact tail32_spec s m e t e m 24 hs (by simpa using hm) hsmall (by omega) (by omega) he1 he2 hm hsmall
      (Or.inl ⟨by simp [rneShift]; exact hsmall, by simp, by simp [rneShift]⟩)
  · -- one rounding of the top 25 bits, sticky = trunc ∨ shifted-out bits
    have hbig : 2^24 ≤ (m >>> c).toNat := by omega
    rw [hm2] at hbig hlt
    obtain ⟨hlo, hhi⟩ := pow_bounds_of_shift m.toNat c 24 25 hbig hlt
    have hlog : Nat.log2 m.toNat = c + 24 := (Nat.log2_eq_iff hmne).2 ⟨hlo, hhi⟩
    have hc10 : c ≤ 7 := by
      have := m.isLt
      have : 2^(c+24) < 2^32 := by omega
      have := (Nat.pow_lt_pow_iff_right (by decide : 1 < 2)).1 this
      omega
    rw [hlog]
    have hst := decide_ne_zero_or32 t t2 (m.toNat % 2^c) ht2
    have hsplit := rneShift_split m.toNat c 1 (by decide) (decide (t ≠ 0#32))
    rw [← hst, ← hm2] at hsplit
    have he2i : (e + BitVec.ofNat 64 c).toInt = e.toInt + c := toInt_add_small e c (by omega) (by omega) (by omega)
    obtain ⟨e3, m3, hrs, hcases⟩ := roundStep32_spec (e + BitVec.ofNat 64 c) (m >>> c) t2 (by rw [hm2]; exact hbig) (by rw [hm2]; exact hlt)
    rw [hrs]
    simp only []
    have hL : c + 24 + 1 - 24 = c + 1 := by omega
    refine tail32_spec s m e t e3 m3 (c + 24 + 1) hs (by simpa using hlo) hhi (by omega) (by omega) he1 he2 ?_ ?_ ?_
    · rcases hcases with ⟨h, _, h3⟩ | ⟨_, _, h3⟩
      · rw [h3]
        -- rneShift of a ≥ 2^24 value by one bit is ≥ 2^23
        rw [rneShift_one]; rw [hm2]; omega
      · omega
    · rcases hcases with ⟨h, _, h3⟩ | ⟨_, _, h3⟩ <;> omega
    · rw [hL, hsplit]
      rcases hcases with ⟨h, h2', h3⟩ | ⟨h, h2', h3⟩
      · refine Or.inl ⟨h, ?_, h3⟩
        rw [h2', toInt_add_one _ (by omega), he2i]; omega
      · refine Or.inr ⟨h, by omega, ?_, h3⟩
        rw [h2', toInt_add_one _ (by rw [toInt_add_one _ (by omega)]; omega), toInt_add_one _ (by omega), he2i]; omega


/-- left-normalising loop of `fpack32` (same body as in `funpack64`) -/
theorem fpack32_loop1_spec (fuel : Nat) (e : BitVec 64) (m : BitVec 32)
    (h0 : m.toNat ≠ 0) (h1 : m.toNat < 2^24) (hf : 2^23 ≤ m.toNat * 2^fuel) :
    ∃ k, k ≤ fuel ∧ fpack32_loop1 fuel e m = (e - BitVec.ofNat 64 k, m <<< k) ∧
      (m <<< k).toNat = m.toNat * 2^k ∧ 2^23 ≤ m.toNat * 2^k ∧ m.toNat * 2^k < 2^24 ∧
      (k ≠ 0 → m.toNat < 2^23) := by
  induction fuel generalizing e m with
  | zero =>
    refine ⟨0, Nat.le_refl _, ?_, ?_, ?_, ?_, ?_⟩ <;> simp_all [fpack32_loop1]
  | succ n ih =>
    rw [fpack32_loop1_succ]
    by_cases hlt : m.toNat < 2^23
    · have hc : BitVec.ult m 8388608#32 = true := by
        simp [BitVec.ult, hlt]
      simp only [hc, if_true]
      have hm1 : (m <<< 1).toNat = m.toNat * 2 := by
        rw [BitVec.toNat_shiftLeft, Nat.shiftLeft_eq]; simp; omega
      have e2 : ∀ j, m.toNat * 2 * 2^j = m.toNat * 2^(j+1) := by
        intro j; rw [Nat.pow_succ, Nat.mul_assoc, Nat.mul_comm 2]
      obtain ⟨k, hk, heq, htn, hlo, hhi, _⟩ := ih (e - 1#64) (m <<< 1) (by omega) (by omega)
        (by rw [hm1, e2]; exact hf)
      have hsh : m <<< (k + 1) = m <<< 1 <<< k := by
        rw [Nat.add_comm, BitVec.shiftLeft_add]
      rw [hm1, e2] at htn hlo hhi
      refine ⟨k + 1, by omega, ?_, ?_, hlo, hhi, fun _ => hlt⟩
      · rw [heq, hsh]
        congr 1
        rw [BitVec.sub_sub]; congr 1
        apply BitVec.eq_of_toNat_eq; simp [BitVec.toNat_add]; omega
      · rw [hsh, htn]
    · have hc : BitVec.ult m 8388608#32 = false := by
        simp [BitVec.ult]; omega
      simp only [hc]
      refine ⟨0, by omega, ?_, ?_, ?_, ?_, ?_⟩ <;> simp <;> omega

/-- a short mantissa is first shifted up (exactly): `fpack32 s m e t = fpack32 s (m·2^j) (e − j) t` -/
theorem fpack32_prenorm (s m : BitVec 32) (e : BitVec 64) (t : BitVec 32) (hm0 : m.toNat ≠ 0) (hlt : m.toNat < 2^23) :
    ∃ j, 1 ≤ j ∧ j ≤ 23 ∧ 2^23 ≤ m.toNat * 2^j ∧ m.toNat * 2^j < 2^24 ∧ (m <<< j).toNat = m.toNat * 2^j ∧
      fpack32 s m e t = fpack32 s (m <<< j) (e - BitVec.ofNat 64 j) t := by
  obtain ⟨j, hj, heq, htn, hlo, hhi, _⟩ := fpack32_loop1_spec loopFuel e m hm0 (by omega)
    (two_pow_le_mul _ _ _ hm0 (by unfold loopFuel; omega))
  have hj1 : 1 ≤ j := by
    rcases Nat.eq_zero_or_pos j with h | h
    · subst h; simp at hlo; omega
    · exact h
  have hj52 : j ≤ 23 := by
    rcases Nat.lt_or_ge 23 j with h | h
    · have : 2^24 ≤ 2^j := Nat.pow_le_pow_right (by decide) h
      have : 1 * 2^j ≤ m.toNat * 2^j := Nat.mul_le_mul_right _ (by omega)
      omega
    · exact h
  refine ⟨j, hj1, hj52, hlo, hhi, htn, ?_⟩
  have hm0' : (m == 0#32) = false := by
    rw [Bool.eq_false_iff]; intro h
    have := congrArg BitVec.toNat (eq_of_beq h); simp at this; omega
  have hm1' : ((m <<< j) == 0#32) = false := by
    rw [Bool.eq_false_iff]; intro h
    have := congrArg BitVec.toNat (eq_of_beq h); rw [htn] at this; simp at this; omega
  have h1 : fpack32_loop1 loopFuel (e - BitVec.ofNat 64 j) (m <<< j) = (e - BitVec.ofNat 64 j, m <<< j) :=
    fpack32_loop1_done _ _ _ (by rw [htn]; omega)
  rw [fpack32_phases, fpack32_phases]
  simp only [hm0', hm1', Bool.false_eq_true, if_false, heq, h1]


end L
end GnoVerif.C05
