import GnoVerif.Proofs.C20Core
/-! Round trip of the primitive descriptors (property C20). -/
namespace GnoVerif.C20

theorem inRangeI_bounds {bits : Nat} {z : Int} (hb : bits = 8 ∨ bits = 16 ∨ bits = 32 ∨ bits = 64)
    (h : inRangeI bits z = true) : -(2 ^ 63 : Int) ≤ z ∧ z < (2 ^ 63 : Int) := by
  unfold inRangeI at h
  simp only [decide_eq_true_eq] at h
  rcases hb with rfl | rfl | rfl | rfl <;> norm_num at h ⊢ <;> omega

/-- primitive encodings decode back, whatever follows. -/
theorem prim_roundtrip (td : TD) (v : Val) (h : primOK td v = true) :
    ∃ bs, encPrim td v false = some (.ok bs) ∧ bs ≠ [] ∧
      ∀ rest, decPrim td (bs ++ rest) false = some (some (v, bs.length)) := by
  cases td <;> cases v <;> simp only [primOK, Bool.false_eq_true] at h
  case uvar.u bits n =>
    simp only [Bool.and_eq_true, Bool.or_eq_true, beq_iff_eq, decide_eq_true_eq] at h
    obtain ⟨hb, hn⟩ := h
    refine ⟨encUvarint n, ?_, encUvarint_ne_nil n, ?_⟩
    · simp [encPrim, inRangeU, hn]
    · intro rest
      have h64 : n < 2 ^ 64 := by
        rcases hb with ((rfl | rfl) | rfl) | rfl <;> norm_num at hn ⊢ <;> omega
      simp only [decPrim, Bool.false_and, Bool.false_eq_true, if_false]
      rw [decUvarint_encUvarint n h64]
      rcases hb with ((rfl | rfl) | rfl) | rfl <;> simp [hn, Nat.mod_eq_of_lt hn] <;>
        (norm_num at hn ⊢; try omega)
  case svar.i bits z =>
    simp only [Bool.and_eq_true, Bool.or_eq_true, beq_iff_eq] at h
    obtain ⟨hb, hz⟩ := h
    have hb' : bits = 8 ∨ bits = 16 ∨ bits = 32 ∨ bits = 64 := by
      rcases hb with ((h | h) | h) | h <;> simp [h]
    obtain ⟨h1, h2⟩ := inRangeI_bounds hb' hz
    refine ⟨encVarint z, ?_, encUvarint_ne_nil _, ?_⟩
    · simp [encPrim, hz]
    · intro rest
      simp only [decPrim]
      have := decUvarint_encUvarint (zigzag z) (zigzag_lt h1 h2) rest
      simp only [decVarint, encVarint, this, Option.map_some, unzigzag_zigzag]
      rcases hb' with rfl | rfl | rfl | rfl
      · simp [hz]
      · simp [hz]
      · have hr : -(2 ^ 31 : Int) ≤ z ∧ z < (2 ^ 31 : Int) := by
          unfold inRangeI at hz; simp only [decide_eq_true_eq] at hz; norm_num at hz ⊢; omega
        simp [ofU32_toU32 hr.1 hr.2]
      · simp
  case pvar.i bits z =>
    simp only [Bool.and_eq_true, Bool.or_eq_true, beq_iff_eq] at h
    obtain ⟨hb, hz⟩ := h
    have hb' : bits = 8 ∨ bits = 16 ∨ bits = 32 ∨ bits = 64 := by
      rcases hb with h | h <;> simp [h]
    obtain ⟨h1, h2⟩ := inRangeI_bounds hb' hz
    refine ⟨encPlainVarint z, ?_, encUvarint_ne_nil _, ?_⟩
    · simp [encPrim, hz]
    · intro rest
      simp only [decPrim]
      have := decUvarint_encUvarint (toU64 z) (toU64_lt z) rest
      simp only [decPlainVarint, encPlainVarint, this, Option.map_some, ofU64_toU64 h1 h2]
      rcases hb with rfl | rfl
      · simp [hz]
      · simp
  case fix32.i s z =>
    cases s <;> simp only [primOK, Bool.false_eq_true] at h
    have hr : -(2 ^ 31 : Int) ≤ z ∧ z < (2 ^ 31 : Int) := by
      unfold inRangeI at h; simp only [decide_eq_true_eq] at h; norm_num at h ⊢; omega
    refine ⟨encFixed32 (toU32 z), ?_, ?_, ?_⟩
    · simp [encPrim, h]
    · simp [encFixed32, leBytes]
    · intro rest
      simp only [decPrim, encFixed32]
      rw [decFixed_enc 4 (toU32 z) (by have := toU32_lt z; norm_num at this ⊢; omega)]
      simp [ofU32_toU32 hr.1 hr.2, leBytes_length]
  case fix32.u s n =>
    cases s <;> simp only [primOK, Bool.false_eq_true, decide_eq_true_eq] at h
    refine ⟨encFixed32 n, ?_, ?_, ?_⟩
    · simp [encPrim, inRangeU]; norm_num at h; omega
    · simp [encFixed32, leBytes]
    · intro rest
      simp only [decPrim, encFixed32]
      rw [decFixed_enc 4 n (by norm_num at h ⊢; omega)]
      simp [leBytes_length]
  case fix64.i s z =>
    cases s <;> simp only [primOK, Bool.false_eq_true] at h
    have hr : -(2 ^ 63 : Int) ≤ z ∧ z < (2 ^ 63 : Int) := by
      unfold inRangeI at h; simp only [decide_eq_true_eq] at h; norm_num at h ⊢; omega
    refine ⟨encFixed64 (toU64 z), ?_, ?_, ?_⟩
    · simp [encPrim, h]
    · simp [encFixed64, leBytes]
    · intro rest
      simp only [decPrim, encFixed64]
      rw [decFixed_enc 8 (toU64 z) (by have := toU64_lt z; norm_num at this ⊢; omega)]
      simp [ofU64_toU64 hr.1 hr.2, leBytes_length]
  case fix64.u s n =>
    cases s <;> simp only [primOK, Bool.false_eq_true, decide_eq_true_eq] at h
    refine ⟨encFixed64 n, ?_, ?_, ?_⟩
    · simp [encPrim, inRangeU]; norm_num at h; omega
    · simp [encFixed64, leBytes]
    · intro rest
      simp only [decPrim, encFixed64]
      rw [decFixed_enc 8 n (by norm_num at h ⊢; omega)]
      simp [leBytes_length]
  case bool.b x =>
    refine ⟨encBool x, ?_, ?_, ?_⟩
    · simp [encPrim]
    · simp [encBool]
    · intro rest
      cases x <;> simp [decPrim, encBool, decBool]
  case str.x bs =>
    simp only [decide_eq_true_eq] at h
    refine ⟨encBytes bs, ?_, ?_, ?_⟩
    · simp [encPrim]
    · simp [encBytes, encUvarint_ne_nil]
    · intro rest
      simp [decPrim, decBytes_encBytes bs rest h]
  case bytes.x bs =>
    simp only [decide_eq_true_eq] at h
    refine ⟨encBytes bs, ?_, ?_, ?_⟩
    · simp [encPrim]
    · simp [encBytes, encUvarint_ne_nil]
    · intro rest
      have hne : (encBytes bs ++ rest).isEmpty = false := by
        simp [encBytes, encUvarint_ne_nil]
      simp [decPrim, hne, decBytes_encBytes bs rest h]
  case barr.x k bs =>
    simp only [Bool.and_eq_true, beq_iff_eq, decide_eq_true_eq] at h
    obtain ⟨hl, hk⟩ := h
    refine ⟨encBytes bs, ?_, ?_, ?_⟩
    · simp [encPrim, hl]
    · simp [encBytes, encUvarint_ne_nil]
    · intro rest
      have hlen : ¬ (encBytes bs ++ rest).length < k := by
        simp [encBytes, hl]; omega
      simp only [List.length_append, Nat.not_lt] at hlen
      simp [decPrim, decBytes_encBytes bs rest (by omega), hl, hlen]

end GnoVerif.C20
