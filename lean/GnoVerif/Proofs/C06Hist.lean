import GnoVerif.Proofs.C06Prim
import GnoVerif.Proofs.C06Clause
/-!
C06 — histories: every reference count is exact at every transaction boundary
of every history of valid transactions of one realm (allocations, writes with
their DidUpdate, FinalizeRealmTransaction, end of transaction).
-/
namespace GnoVerif.C06
open State

/-! ### the deleting crawl only lowers counts -/

/-- same size, same ids, counts not higher -/
def Shrink (s s' : State) : Prop :=
  s'.heap.length = s.heap.length ∧ ∀ x, s'.isReal x = s.isReal x ∧ (s'.get x).rc ≤ (s.get x).rc

theorem Shrink.refl (s : State) : Shrink s s := ⟨rfl, fun _ => ⟨rfl, Int.le_refl _⟩⟩

theorem Shrink.trans {s1 s2 s3 : State} (h1 : Shrink s1 s2) (h2 : Shrink s2 s3) : Shrink s1 s3 :=
  ⟨h2.1.trans h1.1, fun x => ⟨(h2.2 x).1.trans (h1.2 x).1, Int.le_trans (h2.2 x).2 (h1.2 x).2⟩⟩

theorem SameCore.shrink {s s' : State} (h : SameCore s s') : Shrink s s' :=
  ⟨h.1, fun x => ⟨h.isReal x, by rw [h.rc x]; exact Int.le_refl _⟩⟩

theorem shrink_decRc (s : State) (c : Nat) : Shrink s (decRc s c) := by
  refine ⟨length_modify _ _ _, fun x => ⟨isReal_modify_rc s c (· - 1) x, ?_⟩⟩
  show ((s.modify c fun o => { o with rc := o.rc - 1 }).get x).rc ≤ _
  rw [get_modify]
  split
  · rename_i h; rw [h.1]; show (s.get c).rc - 1 ≤ _; omega
  · exact Int.le_refl _

theorem shrink_decRefChild (recur : State → Nat → State) (hrec : ∀ s c, Shrink s (recur s c)) (r : Nat)
    (s : State) (c : Nat) : Shrink s (decRefChild recur r s c) := by
  have h1 := shrink_decRc s c
  unfold decRefChild
  simp only []
  split
  · exact h1.trans (hrec _ c)
  · split
    · exact h1.trans (sameCore_markDirty _ r c).shrink
    · exact h1.trans (sameCore_fail _).shrink

theorem shrink_fold {α : Type} (f : State → α → State) (hf : ∀ s x, Shrink s (f s x)) :
    ∀ (l : List α) (s : State), Shrink s (l.foldl f s) := by
  intro l
  induction l with
  | nil => intro s; exact Shrink.refl s
  | cons x xs ih => intro s; exact (hf s x).trans (ih _)

theorem shrink_decRef (r : Nat) : ∀ (fuel : Nat) (s : State) (a : Nat), Shrink s (decRef fuel s r a) := by
  intro fuel
  induction fuel with
  | zero => intro s a; exact (sameCore_fail s).shrink
  | succ fuel ih =>
    intro s a
    rw [decRef_succ]
    split
    · exact Shrink.refl s
    · have h0 : Shrink s ((s.modify a delMark).modMarks r fun m => { m with deleted := m.deleted ++ [a] }) := by
        refine ⟨by simp, fun x => ⟨?_, ?_⟩⟩
        · rw [(sameCore_modMarks _ r _).isReal, isReal_delete]
        · rw [get_modMarks, get_delete]
          split
          · rename_i h; rw [h.1]; exact Int.le_refl _
          · exact Int.le_refl _
      exact h0.trans (shrink_fold _ (fun s c => shrink_decRefChild _ (fun s c => ih s c) r s c) _ _)

theorem shrink_processNewDeleted (s : State) (r : Nat) : Shrink s (processNewDeleted s r) := by
  unfold processNewDeleted
  apply shrink_fold
  intro s a
  split
  · exact (sameCore_modify s a _ (by intro o; rfl)).shrink
  · exact shrink_decRef r _ s a

theorem Shrink.nur {s s' : State} (h : Shrink s s') (hn : NUR s) : NUR s' := by
  intro x hu
  rw [(h.2 x).1] at hu
  exact Int.le_trans (h.2 x).2 (hn x hu)

theorem SameCore.nur {s s' : State} (h : SameCore s s') (hn : NUR s) : NUR s' := h.shrink.nur hn

/-! ### with nothing unreal referenced, processNewEscapedMarks only touches flags -/

theorem escapeOne_sameCore (s : State) (r e : Nat) (hn : NUR s) : SameCore s (escapeOne s r e) := by
  unfold escapeOne
  split
  · exact sameCore_modify s e _ (by intro o; rfl)
  · rename_i hrc
    split
    · exact SameCore.refl s
    · rename_i po _
      simp only []
      have sc1 : SameCore s (if (s.get po).rc = 0 then s else if (s.get po).newReal = true then s else markDirty s r po) := by
        split
        · exact SameCore.refl s
        · split
          · exact SameCore.refl s
          · exact sameCore_markDirty _ _ _
      generalize (if (s.get po).rc = 0 then s else if (s.get po).newReal = true then s else markDirty s r po) = s1 at sc1 ⊢
      have hreal : s1.isReal e = true := by
        rw [sc1.isReal]
        apply Classical.byContradiction
        intro hne
        have hu : s.isReal e = false := by simpa using hne
        have := hn e hu
        omega
      rw [if_neg (by simpa using hreal)]
      exact sc1.trans (sameCore_setOwner s1 e none)

theorem processNewEscapedLoop_sameCore (r : Nat) :
    ∀ (fuel : Nat) (s : State) (i : Nat), NUR s → SameCore s (processNewEscapedLoop fuel s r i) := by
  intro fuel
  induction fuel with
  | zero => intro s i _; exact sameCore_fail s
  | succ fuel ih =>
    intro s i hn
    unfold processNewEscapedLoop
    split
    · exact SameCore.refl s
    · rename_i e _
      have sc := escapeOne_sameCore s r e hn
      exact sc.trans (ih _ (i + 1) (sc.nur hn))

/-! ### FinalizeRealmTransaction from a pre-final state: nothing unreal stays referenced -/

theorem finalize_nur (s : State) (r : Nat) (h : PreFinal s r) : NUR (finalize s r) := by
  obtain ⟨hnur, _, _⟩ := processNewCreated_strong r (s.marksOf r).newCreated s h.wf h.created_in_range h.unreal_marked
  have e : processNewCreated s r = List.foldl (fun s a => if (s.get a).rc = 0 then s else incRef s.fuelFor s r a) s
      (s.marksOf r).newCreated := rfl
  rw [← e] at hnur
  have h2 := (shrink_processNewDeleted (processNewCreated s r) r).nur hnur
  have sc3 : SameCore (processNewDeleted (processNewCreated s r) r)
      (processNewEscaped (processNewDeleted (processNewCreated s r) r) r) :=
    processNewEscapedLoop_sameCore r _ _ 0 h2
  have sc := sc3.trans ((sameCore_markDirtyAncestors _ r).trans
    ((sameCore_saveUnsaved _ r).trans ((sameCore_removeDeleted _ r).trans (sameCore_clearMarks _ r))))
  exact sc.nur h2

theorem finalize_marks (s : State) (r : Nat) (hr : r < s.marks.length) :
    (finalize s r).marks.length = s.marks.length ∧ (finalize s r).marksOf r = {} := by
  have hl : (finalize s r).marks.length = s.marks.length := (prim_marksLength s.marks.length).finalize s r rfl
  refine ⟨hl, ?_⟩
  unfold finalize
  simp only []
  unfold clearMarks
  rw [marksOf_modMarks_lt]
  -- the realm index is still in range just before clearMarks
  have h1 := (prim_marksLength s.marks.length).stable r |>.processNewCreated s rfl
  have h2 := (prim_marksLength s.marks.length).processNewDeleted _ r h1
  have h3 : (processNewEscaped (processNewDeleted (processNewCreated s r) r) r).marks.length = s.marks.length :=
    (prim_marksLength s.marks.length).processNewEscapedLoop r _ _ 0 h2
  have h4 := (prim_marksLength s.marks.length).markDirtyAncestors _ r h3
  have h5 := (prim_marksLength s.marks.length).saveUnsaved _ r h4
  have h6 := (prim_marksLength s.marks.length).removeDeleted _ r h5
  rw [h6]; exact hr

/-! ### the end of a transaction -/

theorem sameCore_endTx (s : State) : SameCore s (endTx s) := by
  refine ⟨length_endTx s, fun x => ?_⟩
  by_cases hx : x < s.heap.length
  · rw [get_endTx s x hx]; rfl
  · rw [get_default_of_ge s x (by omega), get_default_of_ge (endTx s) x (by rw [length_endTx]; omega)]

theorem newReal_endTx (s : State) (x : Nat) : ((endTx s).get x).newReal = false := by
  by_cases hx : x < s.heap.length
  · rw [get_endTx s x hx]
  · rw [get_default_of_ge (endTx s) x (by rw [length_endTx]; omega)]; rfl

@[simp] theorem marks_endTx (s : State) : (endTx s).marks = s.marks := rfl

/-! ### allocation -/

/-- a freshly allocated object: no id, no references to it, no flags -/
def freshObj (k : Kind) (p : Nat) (kids : List (Option Nat)) : Obj := { kind := k, pkg := p, kids := kids }

def allocObj (s : State) (k : Kind) (p : Nat) (kids : List (Option Nat)) : State :=
  { s with heap := s.heap ++ [freshObj k p kids] }

theorem get_alloc (s : State) (k : Kind) (p : Nat) (kids : List (Option Nat)) (x : Nat) :
    (allocObj s k p kids).get x =
      if x < s.heap.length then s.get x else if x = s.heap.length then freshObj k p kids else default := by
  unfold allocObj State.get
  simp only [List.getD_eq_getElem?_getD]
  by_cases h1 : x < s.heap.length
  · simp [h1, List.getElem?_append_left h1]
  · by_cases h2 : x = s.heap.length
    · subst h2; simp
    · have : s.heap.length < x := by omega
      simp [h1, h2]
      rw [List.getElem?_eq_none (by simp; omega)]
      rfl

@[simp] theorem length_alloc (s : State) (k : Kind) (p : Nat) (kids : List (Option Nat)) :
    (allocObj s k p kids).heap.length = s.heap.length + 1 := by simp [allocObj]

theorem contrib_default (a : Nat) : contrib (default : Obj) a = 0 := rfl

theorem alloc_inTx (s : State) (r : Nat) (k : Kind) (p : Nat) (kids : List (Option Nat)) (h : InTx s r)
    (hk : k ≠ .block) (hkids : ∀ c, some c ∈ kids → c < s.heap.length + 1) : InTx (allocObj s k p kids) r := by
  have hget := get_alloc s k p kids
  have hold : ∀ x, x < s.heap.length → (allocObj s k p kids).get x = s.get x := fun x hx => by rw [hget]; simp [hx]
  have hnew : (allocObj s k p kids).get s.heap.length = freshObj k p kids := by rw [hget]; simp
  have hbig : ∀ x, s.heap.length < x → (allocObj s k p kids).get x = default := fun x hx => by
    rw [hget]; simp [Nat.not_lt.2 (Nat.le_of_lt hx), Nat.ne_of_gt hx]
  have hdef : ∀ x, s.heap.length ≤ x → s.get x = default := fun x hx => get_default_of_ge s x hx
  have hreal : ∀ x, (allocObj s k p kids).isReal x = s.isReal x := by
    intro x
    unfold State.isReal
    rcases Nat.lt_trichotomy x s.heap.length with hx | hx | hx
    · rw [hold x hx]
    · subst hx; rw [hnew, hdef _ (Nat.le_refl _)]; rfl
    · rw [hbig x hx, hdef x (Nat.le_of_lt hx)]
  refine ⟨⟨fun a ht => ?_, fun a ha c hc => ?_⟩, ?_, ?_⟩
  · rcases Nat.lt_trichotomy a s.heap.length with hx | hx | hx
    · rw [hold a hx] at ht ⊢; exact h.wf.unreal_not_deleted a ht
    · subst hx; rw [hnew]; rfl
    · rw [hbig a hx]; rfl
  · rw [length_alloc] at ha ⊢
    unfold State.children at hc
    rcases Nat.lt_or_ge a s.heap.length with hx | hx
    · rw [hold a hx] at hc
      exact Nat.lt_succ_of_lt (h.wf.kids_in_range a hx c hc)
    · have : a = s.heap.length := by omega
      subst this
      rw [hnew] at hc
      apply hkids c
      simp only [freshObj, List.mem_filterMap, id_eq] at hc
      obtain ⟨o, ho, he⟩ := hc
      rw [← he]; exact ho
  · -- counts
    intro a ha
    rw [length_alloc] at ha
    have hcontrib : ∀ q, q ≤ s.heap.length → contrib ((allocObj s k p kids).get q) a = (if q < s.heap.length then contrib (s.get q) a else 0) := by
      intro q hq
      by_cases hlt : q < s.heap.length
      · rw [hold q hlt]; simp [hlt]
      · have : q = s.heap.length := by omega
        subst this; rw [hnew]; simp [contrib, counted, freshObj]
    have hrefs : refs (allocObj s k p kids) a = refs s a := by
      unfold refs
      rw [length_alloc, sumTo_succ, hcontrib _ (Nat.le_refl _)]
      simp only [Nat.lt_irrefl, if_false, Int.add_zero]
      exact sumTo_congr _ _ _ (fun i hi => by rw [hcontrib i (Nat.le_of_lt hi)]; simp [hi])
    rw [hrefs]
    rcases Nat.lt_or_ge a s.heap.length with hx | hx
    · rw [hold a hx]; exact h.rci a hx
    · have : a = s.heap.length := by omega
      subst this
      rw [hnew]
      -- no counted object points past the end of the old heap
      have hz : refs s s.heap.length = 0 := by
        unfold refs
        have : ∀ i, i < s.heap.length → contrib (s.get i) s.heap.length = 0 := by
          intro i hi
          unfold contrib
          split
          · have : (s.get i).kids.count (some s.heap.length) = 0 := by
              rw [List.count_eq_zero]
              intro hm
              have := h.wf.kids_in_range i hi s.heap.length ((mem_children_iff s i _).2 hm)
              omega
            simp [this]
          · rfl
        rw [sumTo_congr _ _ (fun _ => 0) this]
        clear this
        induction s.heap.length with
        | zero => rfl
        | succ n ih => rw [sumTo_succ, ih]; rfl
      rw [hz]
      cases k <;> simp_all [freshObj, pinned]
  · -- marks
    have hm : ∀ q, (allocObj s k p kids).marksOf q = s.marksOf q := fun _ => rfl
    refine ⟨h.marks.realm, fun x hx => ?_, fun x hu hr => ?_, fun a ha => ?_, fun a ha => ?_⟩
    · rw [hm]
      apply h.marks.flag_listed x
      rcases Nat.lt_trichotomy x s.heap.length with hlt | he | hgt
      · rw [hold x hlt] at hx; exact hx
      · subst he; rw [hnew] at hx; exact absurd hx (by simp [freshObj])
      · rw [hbig x hgt] at hx; exact absurd hx (by decide)
    · rw [hm]
      rw [hreal] at hu
      rcases Nat.lt_trichotomy x s.heap.length with hlt | he | hgt
      · rw [hold x hlt] at hr; exact h.marks.unreal_marked x hu hr
      · subst he; rw [hnew] at hr; simp [freshObj] at hr
      · rw [hbig x hgt] at hr; exact absurd hr (by decide)
    · rw [hreal]; exact h.marks.deleted_real a ha
    · rw [length_alloc]; exact Nat.lt_succ_of_lt (h.marks.created_in_range a ha)

/-! ### transactions and histories in the abstract -/

inductive Op where
  | alloc (k : Kind) (p : Nat) (kids : List (Option Nat))
  | write (w : Write)

def Op.apply (s : State) (r : Nat) : Op → State
  | .alloc k p kids => allocObj s k p kids
  | .write w => assign s r w.po w.i w.v

/-- what the VM guarantees about one step of realm `r`: a new object is not a package block and its
    slots hold nil or addresses of existing objects (or itself); a write is `Write.valid` -/
def Op.valid (s : State) (r : Nat) : Op → Prop
  | .alloc k _ kids => k ≠ .block ∧ ∀ c, some c ∈ kids → c < s.heap.length + 1
  | .write w => w.valid s r

def validOps (s : State) (r : Nat) : List Op → Prop
  | [] => True
  | op :: rest => op.valid s r ∧ validOps (op.apply s r) r rest

def runOps (s : State) (r : Nat) (ops : List Op) : State := ops.foldl (fun s op => op.apply s r) s

/-- one transaction of realm `r`: its steps, FinalizeRealmTransaction, the end of the transaction;
    dropped as a whole when the finalizer panics -/
def commitTx (s : State) (r : Nat) (ops : List Op) : State :=
  let s' := finalize (runOps s r ops) r
  if s'.err then s else endTx s'

def validHistory (s : State) (r : Nat) : List (List Op) → Prop
  | [] => True
  | tx :: rest => validOps s r tx ∧ validHistory (commitTx s r tx) r rest

def runHistory (s : State) (r : Nat) (txs : List (List Op)) : State := txs.foldl (fun s tx => commitTx s r tx) s

/-- the state between two transactions -/
structure Quiescent (s : State) (r : Nat) : Prop where
  wf : WF s
  rci : RCI s fun _ => 0
  nur : NUR s
  realm : r < s.marks.length
  marks : s.marksOf r = {}
  flags : ∀ x, (s.get x).newReal = false

theorem Quiescent.inTx {s : State} {r : Nat} (h : Quiescent s r) : InTx s r := by
  refine ⟨h.wf, h.rci, h.realm, fun x hx => ?_, fun x hu hr => ?_, fun a ha => ?_, fun a ha => ?_⟩
  · rw [h.flags x] at hx; exact absurd hx (by decide)
  · have := h.nur x hu; omega
  · rw [h.marks] at ha; cases ha
  · rw [h.marks] at ha; cases ha

theorem runOps_inTx (r : Nat) : ∀ (ops : List Op) (s : State), InTx s r → validOps s r ops → InTx (runOps s r ops) r := by
  intro ops
  induction ops with
  | nil => intro s h _; exact h
  | cons op ops ih =>
    intro s h hv
    obtain ⟨hv1, hv2⟩ := hv
    apply ih _ _ hv2
    cases op with
    | alloc k p kids => exact alloc_inTx s r k p kids h hv1.1 hv1.2
    | write w => exact assign_inTx s r w h hv1

theorem marksLength_runOps (r : Nat) : ∀ (ops : List Op) (s : State), (runOps s r ops).marks.length = s.marks.length := by
  intro ops
  induction ops with
  | nil => intro s; rfl
  | cons op ops ih =>
    intro s
    show (runOps (op.apply s r) r ops).marks.length = _
    rw [ih]
    cases op with
    | alloc k p kids => rfl
    | write w => exact (prim_marksLength s.marks.length).keepAssign s r w.po w.i w.v rfl

/-- One valid transaction keeps the boundary invariant. -/
theorem commitTx_quiescent (s : State) (r : Nat) (ops : List Op) (h : Quiescent s r) (hv : validOps s r ops) :
    Quiescent (commitTx s r ops) r := by
  have hin := runOps_inTx r ops s h.inTx hv
  have hpf := inTx_preFinal hin
  obtain ⟨_, w, rc⟩ := finalize_keeps_of_preFinal _ r hpf
  have hn := finalize_nur _ r hpf
  have hrl : r < (runOps s r ops).marks.length := by rw [marksLength_runOps]; exact h.realm
  obtain ⟨ml, mk⟩ := finalize_marks _ r hrl
  have hrl2 : r < (finalize (runOps s r ops) r).marks.length := by rw [ml]; exact hrl
  unfold commitTx
  generalize finalize (runOps s r ops) r = sf at w rc hn mk hrl2 ⊢
  show Quiescent (if sf.err = true then s else endTx sf) r
  split
  · exact h
  · have sc := sameCore_endTx sf
    exact ⟨sc.wf w, sc.rci rc, sc.nur hn, hrl2, mk, newReal_endTx sf⟩

theorem runHistory_cons (s : State) (r : Nat) (tx : List Op) (txs : List (List Op)) :
    runHistory s r (tx :: txs) = runHistory (commitTx s r tx) r txs := by
  unfold runHistory
  rw [List.foldl_cons]

theorem validHistory_cons (s : State) (r : Nat) (tx : List Op) (txs : List (List Op)) :
    validHistory s r (tx :: txs) = (validOps s r tx ∧ validHistory (commitTx s r tx) r txs) := by
  simp only [validHistory]

/-- Every history of valid transactions keeps the boundary invariant: in particular every
    reference count is exact at every transaction boundary. -/
theorem runHistory_quiescent (r : Nat) : ∀ (txs : List (List Op)) (s : State), Quiescent s r → validHistory s r txs →
    Quiescent (runHistory s r txs) r := by
  intro txs
  induction txs with
  | nil => intro s h _; exact h
  | cons tx txs ih =>
    intro s h hv
    rw [runHistory_cons]
    rw [validHistory_cons] at hv
    exact ih (commitTx s r tx) (commitTx_quiescent s r tx h hv.1) hv.2

end GnoVerif.C06
