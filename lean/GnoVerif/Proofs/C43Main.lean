import GnoVerif.Proofs.C43Inv
/-! C43 helper lemmas: the invariant holds initially and along every run; chunk independence. -/
namespace GnoVerif.C43

theorem Inv.init (P : Nat) (sd : List SDesc) (rd : List RDesc)
    (hsd : (sd.map (·.id)).Nodup) (hrd : (rd.map (·.id)).Nodup)
    (hsub : ∀ d ∈ sd, ∃ d' ∈ rd, d'.id = d.id) :
    Inv P rd (initRun P sd) (mkRecv P rd) := by
  refine ⟨rfl, rfl, rfl, rfl, ?_, ?_, ?_, ?_, ?_⟩
  · show ((sd.map mkSChan).map (·.id)).Nodup
    rw [List.map_map]; exact hsd
  · show ((rd.map mkRChan).map (·.id)).Nodup
    rw [List.map_map]; exact hrd
  · intro d hd
    exact ⟨mkRChan d, List.mem_map.mpr ⟨d, hd, rfl⟩, rfl, rfl⟩
  · intro c hc
    obtain ⟨d, hd, rfl⟩ := List.mem_map.mp hc
    obtain ⟨d', hd', hid⟩ := hsub d hd
    refine ⟨mkRChan d', List.mem_map.mpr ⟨d', hd', rfl⟩, ?_⟩
    exact ⟨hid, by simp [onCh, initRun, mkRecv, mkSChan], fun _ => rfl, fun h => absurd rfl h,
      fun m hm => by simp [mkSChan] at hm⟩
  · intro ch _
    exact ⟨rfl, rfl⟩

theorem wireOf_nil : wireOf [] = [] := rfl
theorem wireOf_single (p : Packet) : wireOf [p] = encFrame p := by simp [wireOf]
theorem wireOf_append (a b : List Packet) : wireOf (a ++ b) = wireOf a ++ wireOf b := by
  simp [wireOf, List.flatMap_append]

theorem SRun.act_out (t : SRun) (a : Act) : (t.act a).out = t.out ++ t.emit a := by
  cases a with
  | send id m => simp only [SRun.act, SRun.emit]; split <;> simp
  | trySend id m => simp only [SRun.act, SRun.emit]; split <;> simp
  | step i =>
    simp only [SRun.act, SRun.emit]
    cases t.snd.stepAt i with
    | none => simp
    | some sp => simp
  | ping => simp [SRun.act, SRun.emit]
  | pong => simp [SRun.act, SRun.emit]

/-- one action of the sending side, then the receiver reads what it wrote. -/
theorem Inv.act {P : Nat} {rd : List RDesc} {t : SRun} {r : Recv} (h : Inv P rd t r)
    (hP0 : 0 < P) (hP1 : P ≤ 2 ^ 20) (a : Act) (hok : ActOK rd a) :
    Inv P rd (t.act a) (r.feed (wireOf (t.emit a))) := by
  cases a with
  | send id m => simpa [SRun.emit, wireOf, Recv.feed] using h.act_send id m hok
  | trySend id m => simpa [SRun.emit, wireOf, Recv.feed] using h.act_trySend id m hok
  | step i =>
    simp only [SRun.act, SRun.emit]
    cases hs : t.snd.stepAt i with
    | none => simpa [wireOf, Recv.feed] using h
    | some sp =>
      obtain ⟨s', p⟩ := sp
      simp only [wireOf_single]
      exact h.step hP0 hP1 i s' p hs
  | ping =>
    simp only [SRun.act, SRun.emit, wireOf_single]
    exact h.ctl hP0 hP1 .ping (Or.inl rfl)
  | pong =>
    simp only [SRun.act, SRun.emit, wireOf_single]
    exact h.ctl hP0 hP1 .pong (Or.inr rfl)

/-- along any run: the receiver that has read everything written satisfies the invariant. -/
theorem Inv.run {P : Nat} {rd : List RDesc} (hP0 : 0 < P) (hP1 : P ≤ 2 ^ 20) (acts : List Act) :
    ∀ (t : SRun) (r : Recv), Inv P rd t r → (∀ a ∈ acts, ActOK rd a) →
      ∃ out', (t.run acts).out = t.out ++ out' ∧ Inv P rd (t.run acts) (r.feed (wireOf out')) := by
  induction acts with
  | nil =>
    intro t r h _
    exact ⟨[], by simp [SRun.run], by simpa [SRun.run, wireOf, Recv.feed] using h⟩
  | cons a acts ih =>
    intro t r h hok
    have h1 := h.act hP0 hP1 a (hok a (by simp))
    obtain ⟨out', ho, hi⟩ := ih (t.act a) _ h1 (fun b hb => hok b (by simp [hb]))
    refine ⟨t.emit a ++ out', ?_, ?_⟩
    · show ((t.act a).run acts).out = _
      rw [ho, SRun.act_out, List.append_assoc]
    · show Inv P rd ((t.act a).run acts) _
      rw [wireOf_append, Recv.feed_append]; exact hi

/-! ### chunking -/

theorem Recv.onEv_byte (r : Recv) (b : UInt8) : r.onEv (.byte b) = r.onByte b := by
  unfold Recv.onEv
  cases he : r.err with
  | none => rfl
  | some e => simp [Recv.onByte, he]

theorem Recv.run_bytes (r : Recv) (bs : Bytes) : r.run (bs.map .byte) = r.feed bs := by
  induction bs generalizing r with
  | nil => rfl
  | cons b bs ih =>
    simp only [List.map_cons, Recv.run, List.foldl_cons, Recv.feed] at *
    rw [Recv.onEv_byte]; exact ih _

theorem Recv.run_append (r : Recv) (a b : List Ev) : r.run (a ++ b) = (r.run a).run b := by
  simp [Recv.run, List.foldl_append]

/-- reads that all return at least one byte: only the concatenation matters. -/
theorem Recv.feedChunks_nonempty (r : Recv) (chunks : List Bytes) (h : ∀ c ∈ chunks, c ≠ []) :
    r.feedChunks chunks = r.feed chunks.flatten := by
  induction chunks generalizing r with
  | nil => rfl
  | cons c cs ih =>
    have hc : c ≠ [] := h c (by simp)
    have hl : ¬ c.length = 0 := by
      intro e; exact hc (List.eq_nil_of_length_eq_zero e)
    unfold Recv.feedChunks at *
    simp only [List.flatMap_cons, List.flatten_cons, Recv.run_append, Recv.feed_append]
    simp only [chunkEvs, hl, if_false, Recv.run_bytes]
    exact ih _ (fun c' hc' => h c' (by simp [hc']))

end GnoVerif.C43
