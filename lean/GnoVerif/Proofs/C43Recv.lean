import GnoVerif.Proofs.C43Frame
/-! C43 helper lemmas: the byte-driven receiver, fed one complete frame, dispatches its packet. -/
namespace GnoVerif.C43

theorem Recv.onByte_err (r : Recv) (b : UInt8) (e : Err) (h : r.err = some e) : r.onByte b = r := by
  simp [Recv.onByte, h]

theorem Recv.feed_err (r : Recv) (bs : Bytes) (e : Err) (h : r.err = some e) : r.feed bs = r := by
  induction bs with
  | nil => rfl
  | cons b bs ih => simp only [Recv.feed, List.foldl_cons] at *; rw [Recv.onByte_err r b e h]; exact ih

theorem Recv.feed_append (r : Recv) (a b : Bytes) : r.feed (a ++ b) = (r.feed a).feed b := by
  simp [Recv.feed, List.foldl_append]

theorem Recv.feed_cons (r : Recv) (a : UInt8) (b : Bytes) : r.feed (a :: b) = (r.onByte a).feed b := rfl

theorem Recv.onLen_phase (r : Recv) (ph : Phase) (acc : Bytes) :
    ({ r with phase := ph }).onLen acc = r.onLen acc := by
  simp only [Recv.onLen, Recv.close, Recv.onBody]

/-- feeding the bytes of a uvarint to a receiver that is reading the length prefix. -/
theorem Recv.feed_put_aux (f : Nat) : ∀ (k n : Nat) (r : Recv) (acc : Bytes),
    r.err = none → r.phase = .len acc → n < 128 ^ k → 1 ≤ k → k ≤ f + 1 → acc.length + k ≤ 9 →
    r.feed (putUvarintAux f n) = r.onLen (acc ++ putUvarintAux f n) := by
  induction f with
  | zero =>
    intro k n r acc he hp hn hk1 hk hacc
    have : k = 1 := by omega
    subst this
    have hn' : n < 128 := by simpa using hn
    have h1 : UInt8.ofNat n < 0x80 := u8_lt_128 n hn'
    simp [putUvarintAux, Recv.feed, Recv.onByte, he, hp, h1]
  | succ f ih =>
    intro k n r acc he hp hn hk1 hk hacc
    unfold putUvarintAux
    by_cases hlt : n < 128
    · have h1 : UInt8.ofNat n < 0x80 := u8_lt_128 n hlt
      simp [hlt, Recv.feed, Recv.onByte, he, hp, h1]
    · have hk2 : 2 ≤ k := by
        rcases Nat.lt_or_ge k 2 with h | h
        · have : k = 1 := by omega
          subst this; simp at hn; omega
        · exact h
      have hdiv : n / 128 < 128 ^ (k - 1) := by
        have : 128 ^ k = 128 * 128 ^ (k - 1) := by
          rw [← Nat.pow_succ']; congr 1; omega
        rw [this] at hn
        exact Nat.div_lt_of_lt_mul hn
      have hmod : n % 128 < 128 := Nat.mod_lt _ (by omega)
      have h2 : ¬ UInt8.ofNat (n % 128 + 128) < 0x80 := u8_not_lt_128 _ hmod
      simp only [hlt, if_false]
      rw [Recv.feed_cons]
      have hstep : r.onByte (UInt8.ofNat (n % 128 + 128)) =
          { r with phase := .len (acc ++ [UInt8.ofNat (n % 128 + 128)]) } := by
        have h10 : ¬ (acc ++ [UInt8.ofNat (n % 128 + 128)]).length = 10 := by
          simp only [List.length_append, List.length_cons, List.length_nil]; omega
        unfold Recv.onByte
        simp only [he, hp]
        rw [if_neg]
        rintro (h | h)
        · exact h2 h
        · exact h10 h
      rw [hstep]
      rw [ih (k - 1) (n / 128) { r with phase := .len (acc ++ [UInt8.ofNat (n % 128 + 128)]) }
        (acc ++ [UInt8.ofNat (n % 128 + 128)]) he rfl hdiv (by omega) (by omega)
        (by simp only [List.length_append, List.length_cons, List.length_nil]; omega)]
      rw [Recv.onLen_phase]
      simp

/-- feeding exactly the missing body bytes completes the frame. -/
theorem Recv.feed_body : ∀ (bs : Bytes) (r : Recv) (need : Nat) (accRev : Bytes),
    r.err = none → r.phase = .body need accRev → bs.length = need → 1 ≤ need →
    r.feed bs = ({ r with phase := .len [] }).onBody (accRev.reverse ++ bs) := by
  intro bs
  induction bs with
  | nil => intro r need accRev _ _ hl hn; simp at hl; omega
  | cons b bs ih =>
    intro r need accRev he hp hl hn
    rw [Recv.feed_cons]
    by_cases h1 : need ≤ 1
    · have hb : bs = [] := by
        have : bs.length = 0 := by simp at hl; omega
        exact List.eq_nil_of_length_eq_zero this
      subst hb
      simp [Recv.onByte, he, hp, h1, Recv.feed]
    · have hstep : r.onByte b = { r with phase := .body (need - 1) (b :: accRev) } := by
        simp [Recv.onByte, he, hp, h1]
      rw [hstep, ih { r with phase := .body (need - 1) (b :: accRev) } (need - 1) (b :: accRev) he rfl
        (by simp at hl; omega) (by omega)]
      simp


theorem goUvarint_put_fst (n : Nat) (h : n < 2 ^ 63) : (goUvarint (putUvarint n)).1 = n := by
  have hp := goUvarintAux_put 9 9 n 0 0 0 [] (by simpa using h) (by omega) (by omega) (by omega)
  unfold goUvarint putUvarint
  simp only [List.append_nil] at hp
  rw [hp]; simp

theorem encAny_pos (p : Packet) : 0 < (encAny p).length := by
  cases p <;> simp [encAny]

theorem encAny_len_lt (p : Packet) (hp : ∀ ch eof bs, p = .msg ch eof bs → bs.length < 2 ^ 62) :
    (encAny p).length < 2 ^ 63 := by
  cases p with
  | ping => decide
  | pong => decide
  | msg ch eof bs =>
    have hbs := hp ch eof bs rfl
    rw [encAny_msg_len]
    have h1 := encMsgValue_len_le ch eof bs
    have h2 := putUvarint_len_le (encMsgValue ch eof bs).length
    split <;> omega

/-- a receiver at a frame boundary, fed one complete frame that fits, dispatches its packet. -/
theorem Recv.feed_frame (r : Recv) (p : Packet) (hr : r.err = none) (hph : r.phase = .len [])
    (hlen : (encFrame p).length ≤ r.maxFrame)
    (hp : ∀ ch eof bs, p = .msg ch eof bs → bs.length < 2 ^ 62) :
    r.feed (encFrame p) = r.onPacket p := by
  have hL := encAny_len_lt p hp
  have hpos := encAny_pos p
  have hflen : (encFrame p).length = (putUvarint (encAny p).length).length + (encAny p).length := by
    simp [encFrame]
  unfold encFrame
  simp only []
  rw [Recv.feed_append]
  have h1 := Recv.feed_put_aux 9 9 (encAny p).length r [] hr hph (by simpa using hL) (by omega) (by omega)
    (by simp)
  simp only [List.nil_append] at h1
  have e1 : r.feed (putUvarint (encAny p).length) = { r with phase := .body (encAny p).length [] } := by
    unfold putUvarint
    rw [h1]
    unfold Recv.onLen
    have hu : (goUvarint (putUvarintAux 9 (encAny p).length)).1 = (encAny p).length := goUvarint_put_fst _ hL
    simp only [hu]
    have c1 : ¬ r.maxFrame < (encAny p).length := by omega
    have c2 : ¬ ((r.maxFrame : Int) - ((putUvarintAux 9 (encAny p).length).length : Nat) < ((encAny p).length : Nat)) := by
      unfold putUvarint at hflen; omega
    have c3 : ¬ (encAny p).length = 0 := by omega
    rw [if_neg c1, if_neg c2, if_neg c3]
  rw [e1]
  rw [Recv.feed_body (encAny p) { r with phase := .body (encAny p).length [] } (encAny p).length [] hr rfl rfl
    (by omega)]
  simp only [List.reverse_nil, List.nil_append, Recv.onBody, decodePacket_enc p hp]
  congr 1
  cases r
  simp_all

end GnoVerif.C43
