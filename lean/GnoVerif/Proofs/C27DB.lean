import GnoVerif.Model.C27
/-!
C27 helper lemmas, part 1: the physical database as an association list —
`get` after `put` / `erase` / a whole batch, `lastOp`, root-version scans.
-/
namespace GnoVerif.C27

theorem PDB.get_erase_self (d : PDB) (k : PKey) : (PDB.erase d k).get k = none := by
  induction d with
  | nil => rfl
  | cons e r ih =>
    obtain ⟨k', v⟩ := e
    by_cases h : k' = k
    · simp [PDB.erase, List.filter, h]
      simpa [PDB.erase] using ih
    · simp only [PDB.erase, List.filter, ne_eq, h, not_false_eq_true, decide_true, PDB.get, ↓reduceIte]
      simpa [PDB.erase] using ih

theorem PDB.get_erase_ne (d : PDB) {k k' : PKey} (h : k' ≠ k) : (PDB.erase d k).get k' = d.get k' := by
  induction d with
  | nil => rfl
  | cons e r ih =>
    obtain ⟨k'', v⟩ := e
    by_cases h2 : k'' = k
    · subst h2
      have : ¬ k'' = k' := fun e => h e.symm
      simp only [PDB.erase, List.filter, ne_eq, not_true_eq_false, decide_false, PDB.get, this, ↓reduceIte]
      simpa [PDB.erase] using ih
    · simp only [PDB.erase, List.filter, ne_eq, h2, not_false_eq_true, decide_true, PDB.get]
      split
      · rfl
      · simpa [PDB.erase] using ih

theorem PDB.get_put_self (d : PDB) (k : PKey) (v : PVal) : (PDB.put d k v).get k = some v := by
  simp [PDB.put, PDB.get]

theorem PDB.get_put_ne (d : PDB) {k k' : PKey} (v : PVal) (h : k' ≠ k) :
    (PDB.put d k v).get k' = d.get k' := by
  have : ¬ k = k' := fun e => h e.symm
  simp only [PDB.put, PDB.get, this, ↓reduceIte]
  exact PDB.get_erase_ne d h

/-- what one op does to a point read. -/
theorem get_applyOp (d : PDB) (op : WOp) (k : PKey) :
    (applyOp d op).get k =
      match op with
      | .set k' v => if k' = k then some v else d.get k
      | .del k' => if k' = k then none else d.get k := by
  cases op with
  | set k' v =>
    by_cases h : k' = k
    · subst h; simp [applyOp, PDB.get_put_self]
    · simp only [applyOp, h, ↓reduceIte]
      exact PDB.get_put_ne d v (fun e => h e.symm)
  | del k' =>
    by_cases h : k' = k
    · subst h; simp [applyOp, PDB.get_erase_self]
    · simp only [applyOp, h, ↓reduceIte]
      exact PDB.get_erase_ne d (fun e => h e.symm)

theorem lastOp_append (l1 l2 : List WOp) (k : PKey) :
    lastOp (l1 ++ l2) k = match lastOp l2 k with | some x => some x | none => lastOp l1 k := by
  induction l1 with
  | nil =>
    simp only [List.nil_append, lastOp]
    cases lastOp l2 k <;> rfl
  | cons op r ih =>
    simp only [List.cons_append, lastOp, ih]
    cases h2 : lastOp l2 k with
    | some x => simp
    | none => simp

theorem lastOp_singleton_set (k' k : PKey) (v : PVal) :
    lastOp [.set k' v] k = if k' = k then some (some v) else none := by
  simp [lastOp]

theorem lastOp_singleton_del (k' k : PKey) :
    lastOp [.del k'] k = if k' = k then some none else none := by
  simp [lastOp]

/-- a point read after a whole batch: the last op of the batch on the key wins. -/
theorem get_applyBatch (d : PDB) (ops : List WOp) (k : PKey) :
    (applyBatch d ops).get k = match lastOp ops k with | some x => x | none => d.get k := by
  induction ops generalizing d with
  | nil => simp [applyBatch, lastOp]
  | cons op r ih =>
    have hstep : applyBatch d (op :: r) = applyBatch (applyOp d op) r := by simp [applyBatch]
    rw [hstep, ih]
    simp only [lastOp]
    cases hr : lastOp r k with
    | some x => simp
    | none =>
      simp only [get_applyOp]
      cases op with
      | set k' v => by_cases h : k' = k <;> simp [h]
      | del k' => by_cases h : k' = k <;> simp [h]

theorem lastOp_none_of_keys {ops : List WOp} {k : PKey} (h : ∀ op ∈ ops, op.key ≠ k) :
    lastOp ops k = none := by
  induction ops with
  | nil => rfl
  | cons op r ih =>
    have hr := ih (fun o ho => h o (List.mem_cons_of_mem _ ho))
    have h0 := h op List.mem_cons_self
    simp only [lastOp, hr]
    cases op with
    | set k' v => simp [WOp.key] at h0; simp [h0]
    | del k' => simp [WOp.key] at h0; simp [h0]

/-- an op list that only deletes: the last op on a key is a delete or nothing. -/
theorem lastOp_of_dels {ops : List WOp} (h : ∀ op ∈ ops, ∃ k, op = .del k) (k : PKey) :
    lastOp ops k = none ∨ lastOp ops k = some none := by
  induction ops with
  | nil => left; rfl
  | cons op r ih =>
    have hr := ih (fun o ho => h o (List.mem_cons_of_mem _ ho))
    obtain ⟨k', rfl⟩ := h op List.mem_cons_self
    simp only [lastOp]
    rcases hr with hr | hr
    · simp only [hr]
      by_cases hk : k' = k <;> simp [hk]
    · simp [hr]

theorem lastOp_del_mem {ops : List WOp} {k : PKey} (h : WOp.del k ∈ ops)
    (hd : ∀ op ∈ ops, ∃ k, op = .del k) : lastOp ops k = some none := by
  induction ops with
  | nil => cases h
  | cons op r ih =>
    simp only [lastOp]
    rcases List.mem_cons.1 h with h | h
    · subst h
      rcases lastOp_of_dels (fun o ho => hd o (List.mem_cons_of_mem _ ho)) k with hr | hr
      · simp [hr]
      · simp [hr]
    · simp [ih h (fun o ho => hd o (List.mem_cons_of_mem _ ho))]

/-! ## root-version scans -/

theorem mem_rootVersions (d : PDB) (s : SName) (v : Nat) :
    v ∈ rootVersions d s ↔ (d.get (.root s v)).isSome = true := by
  induction d with
  | nil => simp [rootVersions, PDB.get]
  | cons e r ih =>
    obtain ⟨k', pv⟩ := e
    have ih' : v ∈ rootVersions r s ↔ (PDB.get r (.root s v)).isSome = true := ih
    simp only [rootVersions, List.filterMap_cons, PDB.get] at ih' ⊢
    by_cases hk : k' = .root s v
    · subst hk; simp
    · simp only [hk, ↓reduceIte]
      cases k' with
      | root s' v' =>
        by_cases hs : s' = s
        · subst hs
          have : v' ≠ v := fun e => hk (by rw [e])
          simp only [↓reduceIte, List.mem_cons]
          constructor
          · rintro (h | h)
            · exact absurd h.symm this
            · exact ih'.1 h
          · intro h; exact Or.inr (ih'.2 h)
        · simp only [hs, ↓reduceIte]; exact ih'
      | _ => simpa using ih'

theorem foldl_max_le {l : List Nat} {m a : Nat} (ha : a ≤ m) (h : ∀ v ∈ l, v ≤ m) :
    l.foldl max a ≤ m := by
  induction l generalizing a with
  | nil => simpa
  | cons x r ih =>
    simp only [List.foldl_cons]
    apply ih
    · exact Nat.max_le.2 ⟨ha, h x List.mem_cons_self⟩
    · exact fun v hv => h v (List.mem_cons_of_mem _ hv)

theorem le_foldl_max (l : List Nat) (a : Nat) : a ≤ l.foldl max a := by
  induction l generalizing a with
  | nil => simp
  | cons x r ih =>
    simp only [List.foldl_cons]
    exact Nat.le_trans (Nat.le_max_left a x) (ih _)

theorem mem_le_foldl_max {l : List Nat} {m : Nat} (a : Nat) (h : m ∈ l) : m ≤ l.foldl max a := by
  induction l generalizing a with
  | nil => cases h
  | cons x r ih =>
    simp only [List.foldl_cons]
    rcases List.mem_cons.1 h with h | h
    · subst h; exact Nat.le_trans (Nat.le_max_right a m) (le_foldl_max _ _)
    · exact ih _ h

/-- `discoverVersions`: the latest version is the greatest root version. -/
theorem latestRoot_eq {d : PDB} {s : SName} {m : Nat}
    (hle : ∀ v ∈ rootVersions d s, v ≤ m) (hm : m ∈ rootVersions d s) : latestRoot d s = m :=
  Nat.le_antisymm (foldl_max_le (Nat.zero_le _) hle) (mem_le_foldl_max 0 hm)

end GnoVerif.C27
