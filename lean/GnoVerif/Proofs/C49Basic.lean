import GnoVerif.Model.C49Inv
/-! C49 helper lemmas: counting, the CElement setters on known shapes. -/
namespace GnoVerif.C49

/-! ### cnt -/

theorem cnt_congr {r r' : Nat → Bool} {n : Nat} (h : ∀ j, j < n → r j = r' j) : cnt r n = cnt r' n := by
  induction n with
  | zero => rfl
  | succ n ih =>
    simp only [cnt]
    rw [ih (fun j hj => h j (by omega)), h n (by omega)]

theorem cnt_zero_iff {r : Nat → Bool} {n : Nat} : cnt r n = 0 ↔ ∀ j, j < n → r j = true := by
  induction n with
  | zero => simp [cnt]
  | succ n ih =>
    simp only [cnt]
    constructor
    · intro h j hj
      have h1 : cnt r n = 0 := by omega
      by_cases hjn : j = n
      · subst hjn
        by_cases hr : r j = true
        · exact hr
        · simp [hr] at h
      · exact ih.1 h1 j (by omega)
    · intro h
      have h1 := ih.2 (fun j hj => h j (by omega))
      have h2 := h n (by omega)
      simp [h1, h2]

theorem cnt_pos {r : Nat → Bool} {n e : Nat} (he : e < n) (hr : r e = false) : 1 ≤ cnt r n := by
  by_cases h : cnt r n = 0
  · have := cnt_zero_iff.1 h e he
    simp [hr] at this
  · omega

/-- marking one more id as removed lowers the count by one. -/
theorem cnt_remove {r r' : Nat → Bool} {n e : Nat} (he : e < n) (hr : r e = false)
    (h' : ∀ j, r' j = (r j || j == e)) : cnt r' n + 1 = cnt r n := by
  induction n with
  | zero => omega
  | succ n ih =>
    simp only [cnt]
    by_cases hen : e = n
    · subst hen
      have h1 : cnt r' e = cnt r e := cnt_congr (fun j hj => by
        rw [h' j]; have : (j == e) = false := by simp; omega
        simp [this])
      have h2 : r' e = true := by rw [h' e]; simp
      simp [h1, h2, hr]
    · have := ih (by omega)
      have h2 : r' n = r n := by
        rw [h' n]; have : (n == e) = false := by simp; omega
        simp [this]
      rw [h2]; omega

theorem cnt_two {r : Nat → Bool} {n a b : Nat} (hab : a < b) (hb : b < n)
    (ha' : r a = false) (hb' : r b = false) : 2 ≤ cnt r n := by
  induction n with
  | zero => omega
  | succ n ih =>
    simp only [cnt]
    by_cases hbn : b = n
    · subst hbn
      have := cnt_pos (r := r) (n := b) hab ha'
      simp [hb']; omega
    · have := ih (by omega)
      omega

/-- if `e` is the only id `< n` not removed, the count is one. -/
theorem cnt_one {r : Nat → Bool} {n e : Nat} (he : e < n) (hr : r e = false)
    (ho : ∀ j, j < n → j ≠ e → r j = true) : cnt r n = 1 := by
  have h1 : cnt (fun j => r j || j == e) n + 1 = cnt r n := cnt_remove he hr (fun _ => rfl)
  have h2 : cnt (fun j => r j || j == e) n = 0 := cnt_zero_iff.2 (fun j hj => by
    by_cases hje : j = e
    · simp [hje]
    · simp [ho j hj hje])
  omega

theorem cnt_succ_live {r : Nat → Bool} {n : Nat} (h : r n = false) : cnt r (n+1) = cnt r n + 1 := by
  simp [cnt, h]

/-! ### setters on known shapes -/

@[simp] theorem setElem_elems_self (s : State) (i : Nat) (e : Elem) : (s.setElem i e).elems i = e := by
  simp [State.setElem]

theorem setElem_elems (s : State) (i j : Nat) (e : Elem) :
    (s.setElem i e).elems j = if j = i then e else s.elems j := rfl

theorem setNext_some_some {s : State} {x a : Nat} (h : (s.elems x).next = some a) (b : Nat) :
    setNext s x (some b) = some (s.setElem x { s.elems x with next := some b }) := by
  simp [setNext, h]

theorem setNext_some_none {s : State} {x a : Nat} (h : (s.elems x).next = some a) :
    setNext s x none = some (s.setElem x { s.elems x with next := none, nextStale := (s.elems x).nextStale ++ [(s.elems x).nextClosed], nextClosed := false }) := by
  simp [setNext, h]

theorem setNext_none_some {s : State} {x : Nat} (h : (s.elems x).next = none)
    (hc : (s.elems x).nextClosed = false) (b : Nat) :
    setNext s x (some b) = some (s.setElem x { s.elems x with next := some b, nextClosed := true }) := by
  simp [setNext, h, hc]

theorem setPrev_some_some {s : State} {x a : Nat} (h : (s.elems x).prev = some a) (b : Nat) :
    setPrev s x (some b) = some (s.setElem x { s.elems x with prev := some b }) := by
  simp [setPrev, h]

theorem setPrev_some_none {s : State} {x a : Nat} (h : (s.elems x).prev = some a) :
    setPrev s x none = some (s.setElem x { s.elems x with prev := none, prevStale := (s.elems x).prevStale ++ [(s.elems x).prevClosed], prevClosed := false }) := by
  simp [setPrev, h]

theorem setPrev_none_some {s : State} {x : Nat} (h : (s.elems x).prev = none)
    (hc : (s.elems x).prevClosed = false) (b : Nat) :
    setPrev s x (some b) = some (s.setElem x { s.elems x with prev := some b, prevClosed := true }) := by
  simp [setPrev, h, hc]

end GnoVerif.C49
