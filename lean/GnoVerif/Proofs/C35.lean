import GnoVerif.Model.C35
/-! Helper lemmas for Props/C35.lean (core Lean only). -/
set_option linter.unusedSimpArgs false
set_option linter.unusedVariables false
namespace GnoVerif.C35

-- ---------------------------------------------------------------- association lists

theorem alGet_alSet {β : Type} (k k' : Nat) (b : β) (l : List (Nat × β)) :
    alGet k' (alSet k b l) = if k' = k then some b else alGet k' l := by
  induction l with
  | nil => simp [alSet, alGet]; split <;> simp_all [eq_comm]
  | cons h t ih =>
    obtain ⟨hk, hb⟩ := h
    simp only [alSet]
    split
    · rename_i h1; subst h1
      simp only [alGet]
      split <;> simp_all [eq_comm]
    · rename_i h1
      simp only [alGet, ih]
      split <;> rename_i h2
      · subst h2; simp [h1]
      · rfl

theorem alGet_alSet_self {β : Type} (k : Nat) (b : β) (l : List (Nat × β)) :
    alGet k (alSet k b l) = some b := by simp [alGet_alSet]

theorem alGet_alSet_ne {β : Type} {k k' : Nat} (b : β) (l : List (Nat × β)) (h : k' ≠ k) :
    alGet k' (alSet k b l) = alGet k' l := by simp [alGet_alSet, h]

-- ---------------------------------------------------------------- at?

theorem at?_set_self {l : List (Option Vote)} {i : Nat} (h : i < l.length) (x : Option Vote) :
    at? (l.set i x) i = x := by
  simp [at?, List.getElem?_set, h]

theorem at?_set_ne {l : List (Option Vote)} {i j : Nat} (h : i ≠ j) (x : Option Vote) :
    at? (l.set i x) j = at? l j := by
  simp [at?, List.getElem?_set, h]

theorem at?_set (l : List (Option Vote)) (i j : Nat) (x : Option Vote) :
    at? (l.set i x) j = if i = j ∧ i < l.length then x else at? l j := by
  by_cases h : i = j
  · subst h
    by_cases h2 : i < l.length
    · simp [at?_set_self h2, h2]
    · simp [h2, at?, List.getElem?_set]
  · simp [at?_set_ne h, h]

theorem at?_replicate (n i : Nat) : at? (List.replicate n none) i = none := by
  simp [at?, List.getElem?_replicate]
  split <;> simp

theorem at?_ge {l : List (Option Vote)} {i : Nat} (h : l.length ≤ i) : at? l i = none := by
  simp [at?, List.getElem?_eq_none h]

theorem at?_some_lt {l : List (Option Vote)} {i : Nat} {v : Vote} (h : at? l i = some v) : i < l.length := by
  by_cases h2 : i < l.length
  · exact h2
  · rw [at?_ge (by omega)] at h; cases h

theorem at?_copyVotes {dst src : List (Option Vote)} (hl : dst.length = src.length) (j : Nat) :
    at? (copyVotes dst src) j = match at? src j with | some x => some x | none => at? dst j := by
  unfold copyVotes at?
  rw [List.getElem?_zipWith]
  by_cases h : j < dst.length
  · have h2 : j < src.length := by omega
    rw [List.getElem?_eq_getElem h, List.getElem?_eq_getElem h2]
    simp
    cases src[j] <;> simp
  · rw [List.getElem?_eq_none (by omega), List.getElem?_eq_none (by omega)]
    simp

theorem length_copyVotes {dst src : List (Option Vote)} (hl : dst.length = src.length) :
    (copyVotes dst src).length = dst.length := by
  simp [copyVotes, hl]

-- ---------------------------------------------------------------- sumPow

theorem sumPow_replicate (vals : List (Nat × Nat)) (n : Nat) : sumPow vals (List.replicate n none) = 0 := by
  induction vals generalizing n with
  | nil => cases n <;> simp [sumPow, List.replicate]
  | cons h t ih =>
    cases n with
    | zero => simp [sumPow]
    | succ n => obtain ⟨a, p⟩ := h; simp [sumPow, List.replicate, ih]

theorem sumPow_congr (vals : List (Nat × Nat)) {l1 l2 : List (Option Vote)} (hl : l1.length = l2.length)
    (h : ∀ j, (at? l1 j).isSome = (at? l2 j).isSome) : sumPow vals l1 = sumPow vals l2 := by
  induction vals generalizing l1 l2 with
  | nil => simp [sumPow]
  | cons hd t ih =>
    obtain ⟨a, p⟩ := hd
    cases l1 with
    | nil => cases l2 with
      | nil => rfl
      | cons _ _ => simp at hl
    | cons o1 r1 =>
      cases l2 with
      | nil => simp at hl
      | cons o2 r2 =>
        simp only [sumPow]
        have h0 := h 0
        simp [at?] at h0
        have : sumPow t r1 = sumPow t r2 := by
          apply ih (by simpa using hl)
          intro j
          have := h (j+1)
          simpa [at?] using this
        rw [this, h0]

theorem sumPow_set_none {vals : List (Nat × Nat)} {l : List (Option Vote)} {i a p : Nat} (v : Vote)
    (hv : vals[i]? = some (a, p)) (hl : i < l.length) (hn : at? l i = none) :
    sumPow vals (l.set i (some v)) = sumPow vals l + p := by
  induction vals generalizing l i with
  | nil => simp at hv
  | cons hd t ih =>
    obtain ⟨a', p'⟩ := hd
    cases l with
    | nil => simp at hl
    | cons o r =>
      cases i with
      | zero =>
        simp at hv
        simp [at?] at hn
        subst hn
        simp [sumPow, hv.2]
        omega
      | succ i =>
        simp at hv
        simp only [List.set, sumPow]
        rw [ih hv (by simpa using hl) (by simpa [at?] using hn)]
        omega

theorem sumPow_set_some {vals : List (Nat × Nat)} {l : List (Option Vote)} {i : Nat} (v e : Vote)
    (hs : at? l i = some e) : sumPow vals (l.set i (some v)) = sumPow vals l := by
  apply sumPow_congr _ (by simp)
  intro j
  rw [at?_set]
  split
  · rename_i h; rw [← h.1, hs]; rfl
  · rfl

theorem sumPow_le_total (vals : List (Nat × Nat)) (l : List (Option Vote)) : sumPow vals l ≤ totalPower vals := by
  induction vals generalizing l with
  | nil => simp [sumPow, totalPower]
  | cons hd t ih =>
    obtain ⟨a, p⟩ := hd
    cases l with
    | nil => simp [sumPow]
    | cons o r =>
      have := ih r
      simp only [sumPow, totalPower, List.map_cons, List.sum_cons] at *
      split <;> omega

end GnoVerif.C35
