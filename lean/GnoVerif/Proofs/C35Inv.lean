import GnoVerif.Proofs.C35
/-! The invariant of the VoteSet model and its preservation (core Lean only). -/
set_option linter.unusedSimpArgs false
set_option linter.unusedVariables false
namespace GnoVerif.C35

/-- A stored vote `v` at index `i` passed every check of `addVote`. -/
structure WF (h r : Int) (t : Nat) (vals : List (Nat × Nat)) (i : Nat) (v : Vote) : Prop where
  idx : v.idx = (i : Int)
  height : v.height = h
  round : v.round = r
  type : v.type = t
  addr : ∃ p, vals[i]? = some (v.addr, p)
  sigOk : v.sigOk = true

abbrev VoteSet.WFv (s : VoteSet) (i : Nat) (v : Vote) : Prop := WF s.height s.round s.type s.vals i v

/-- The invariant without `noMaj`; `ex` is a temporary exception to `canon` inside `addVerifiedVote`. -/
structure InvA (s : VoteSet) (ex : Option (Nat × Vote)) : Prop where
  lenVotes : s.votes.length = s.vals.length
  lenBV : ∀ k bv, alGet k s.vbb = some bv → bv.votes.length = s.vals.length
  sumBV : ∀ k bv, alGet k s.vbb = some bv → bv.sum = sumPow s.vals bv.votes
  sumAll : s.sum = sumPow s.vals s.votes
  wfVotes : ∀ i v, at? s.votes i = some v → s.WFv i v
  wfBV : ∀ k bv i v, alGet k s.vbb = some bv → at? bv.votes i = some v → s.WFv i v ∧ v.block.key = k
  hasVote : ∀ k bv i v, alGet k s.vbb = some bv → at? bv.votes i = some v → (at? s.votes i).isSome
  majQuorum : ∀ m, s.maj23 = some m → ∃ bv, alGet m.key s.vbb = some bv ∧ s.quorum ≤ bv.sum ∧
      ∀ i v, at? bv.votes i = some v → at? s.votes i = some v
  canon : ∀ i v, at? s.votes i = some v →
      Tracked s v.block.key i v ∨ (∃ m, s.maj23 = some m ∧ m.key = v.block.key) ∨ ex = some (i, v)

structure InvX (s : VoteSet) (ex : Option (Nat × Vote)) : Prop extends InvA s ex where
  noMaj : s.maj23 = none → ∀ k bv, alGet k s.vbb = some bv → bv.sum < s.quorum

abbrev Inv (s : VoteSet) : Prop := InvX s none

theorem inv_new (h r : Int) (t : Nat) (vals : List (Nat × Nat)) : Inv (newVoteSet h r t vals) := by
  refine ⟨?_, ?_⟩
  · constructor <;> simp [newVoteSet, alGet, at?_replicate, sumPow_replicate]
  · simp [newVoteSet, alGet]

theorem add_of_none {bv : BlockVotes} {v : Vote} {i power : Nat} (h : at? bv.votes i = none) :
    bv.add v i power = { bv with votes := bv.votes.set i (some v), sum := bv.sum + power } := by
  simp [BlockVotes.add, h]

theorem quorum_pos (s : VoteSet) : 0 < s.quorum := by simp [VoteSet.quorum]

/-- Preservation by the tail of `addVerifiedVote`. -/
theorem inv_track {s1 : VoteSet} {ex : Option (Nat × Vote)} {bv : BlockVotes} {v : Vote} {i power a : Nat}
    {c : Option Vote}
    (hI : InvX s1 ex) (hex : ex = none ∨ ex = some (i, v))
    (hbv : alGet v.block.key s1.vbb = some bv ∨
      (alGet v.block.key s1.vbb = none ∧ bv = newBlockVotes false s1.vals.length))
    (hnone : at? bv.votes i = none)
    (hwf : s1.WFv i v) (hval : s1.vals[i]? = some (a, power))
    (hsome : (at? s1.votes i).isSome)
    (hmaj : ∀ m, s1.maj23 = some m → m.key = v.block.key → at? s1.votes i = some v) :
    Inv (trackVote s1 bv v i power c).s := by
  have hi : i < s1.vals.length := by
    have := List.getElem?_eq_some_iff.mp hval; exact this.1
  -- facts about bv, whether it was tracked already or is fresh
  have blen : bv.votes.length = s1.vals.length := by
    rcases hbv with h | ⟨_, h⟩
    · exact hI.lenBV _ _ h
    · simp [h, newBlockVotes]
  have bsum : bv.sum = sumPow s1.vals bv.votes := by
    rcases hbv with h | ⟨_, h⟩
    · exact hI.sumBV _ _ h
    · simp [h, newBlockVotes, sumPow_replicate]
  have bwf : ∀ j w, at? bv.votes j = some w → s1.WFv j w ∧ w.block.key = v.block.key := by
    rcases hbv with h | ⟨_, h⟩
    · exact fun j w => hI.wfBV _ _ j w h
    · intro j w; simp [h, newBlockVotes, at?_replicate]
  have bhas : ∀ j w, at? bv.votes j = some w → (at? s1.votes j).isSome := by
    rcases hbv with h | ⟨_, h⟩
    · exact fun j w => hI.hasVote _ _ j w h
    · intro j w; simp [h, newBlockVotes, at?_replicate]
  have bmaj : ∀ m, s1.maj23 = some m → m.key = v.block.key →
      s1.quorum ≤ bv.sum ∧ ∀ j w, at? bv.votes j = some w → at? s1.votes j = some w := by
    intro m hm hk
    obtain ⟨bv0, h0, h1, h2⟩ := hI.majQuorum m hm
    rw [hk] at h0
    rcases hbv with h | ⟨h, _⟩
    · rw [h] at h0; cases h0; exact ⟨h1, h2⟩
    · rw [h] at h0; cases h0
  have bno : s1.maj23 = none → bv.sum < s1.quorum := by
    intro hm
    rcases hbv with h | ⟨_, h⟩
    · exact hI.noMaj hm _ _ h
    · simp [h, newBlockVotes, quorum_pos]
  -- the updated blockVotes
  have hadd := add_of_none (v := v) (power := power) hnone
  have bilt : i < bv.votes.length := by omega
  have b'at : ∀ j, at? (bv.votes.set i (some v)) j = if i = j then some v else at? bv.votes j := by
    intro j; rw [at?_set]; by_cases h : i = j
    · subst h; simp [bilt]
    · simp [h]
  have b'sum : bv.sum + power = sumPow s1.vals (bv.votes.set i (some v)) := by
    rw [sumPow_set_none v hval bilt hnone, bsum]
  -- the state before the quorum test
  have key : ∀ k', alGet k' (alSet v.block.key (bv.add v i power) s1.vbb) =
      if k' = v.block.key then some (bv.add v i power) else alGet k' s1.vbb := fun k' => alGet_alSet _ _ _ _
  have core : InvA { s1 with vbb := alSet v.block.key (bv.add v i power) s1.vbb } none := by
    constructor
    · exact hI.lenVotes
    · intro k' bv' h; simp only [key] at h
      split at h
      · cases h; simp [hadd, blen]
      · exact hI.lenBV _ _ h
    · intro k' bv' h; simp only [key] at h
      split at h
      · cases h; simp only [hadd]; exact b'sum
      · exact hI.sumBV _ _ h
    · exact hI.sumAll
    · exact hI.wfVotes
    · intro k' bv' j w h hw; simp only [key] at h
      split at h
      · rename_i hk; cases h; simp only [hadd, b'at] at hw
        split at hw
        · rename_i hij; cases hw; subst hij; exact ⟨hwf, hk.symm⟩
        · have := bwf j w hw; exact ⟨this.1, by rw [hk]; exact this.2⟩
      · exact hI.wfBV _ _ j w h hw
    · intro k' bv' j w h hw; simp only [key] at h
      split at h
      · cases h; simp only [hadd, b'at] at hw
        split at hw
        · rename_i hij; subst hij; exact hsome
        · exact bhas j w hw
      · exact hI.hasVote _ _ j w h hw
    · intro m hm
      by_cases hk : m.key = v.block.key
      · refine ⟨bv.add v i power, by simp [key, hk], ?_, ?_⟩
        · have := (bmaj m hm hk).1; simp only [hadd]; show s1.quorum ≤ bv.sum + power; omega
        · intro j w hw; simp only [hadd, b'at] at hw
          split at hw
          · rename_i hij; cases hw; subst hij; exact hmaj m hm hk
          · exact (bmaj m hm hk).2 j w hw
      · obtain ⟨bv0, h0, h1, h2⟩ := hI.majQuorum m hm
        exact ⟨bv0, by simp [key, hk, h0], h1, h2⟩
    · intro j w hw
      rcases hI.canon j w hw with ⟨bv0, h0, h1⟩ | h | h
      · left
        by_cases hk : w.block.key = v.block.key
        · refine ⟨bv.add v i power, by simp [key, hk], ?_⟩
          rw [hk] at h0
          rcases hbv with h | ⟨h, _⟩
          · rw [h] at h0; cases h0
            simp only [hadd, b'at]
            split
            · rename_i hij; subst hij; rw [hnone] at h1; cases h1
            · exact h1
          · rw [h] at h0; cases h0
        · exact ⟨bv0, by simp [key, hk, h0], h1⟩
      · right; left; exact h
      · left
        rcases hex with hex | hex
        · rw [hex] at h; cases h
        · rw [hex] at h; cases h
          exact ⟨bv.add v i power, by simp [key], by simp [hadd, b'at]⟩
  unfold trackVote
  simp only []
  split
  · rename_i hc
    split
    · rename_i hm
      -- first quorum: maj23 := v.block, votes copied over
      have hlen : s1.votes.length = (bv.add v i power).votes.length := by
        simp [hadd, blen, hI.lenVotes]
      have hat : ∀ j, at? (copyVotes s1.votes (bv.add v i power).votes) j =
          match at? (bv.add v i power).votes j with | some x => some x | none => at? s1.votes j :=
        fun j => at?_copyVotes hlen j
      have hiss : ∀ j, (at? (copyVotes s1.votes (bv.add v i power).votes) j).isSome = (at? s1.votes j).isSome := by
        intro j; rw [hat]
        split
        · rename_i x hx
          have := core.hasVote v.block.key (bv.add v i power) j x (by simp [key]) hx
          simpa using this
        · rfl
      refine ⟨?_, ?_⟩
      · constructor
        · show (copyVotes s1.votes (bv.add v i power).votes).length = s1.vals.length
          rw [length_copyVotes hlen]; exact hI.lenVotes
        · exact core.lenBV
        · exact core.sumBV
        · show s1.sum = sumPow s1.vals (copyVotes s1.votes (bv.add v i power).votes)
          rw [hI.sumAll]
          exact (sumPow_congr _ (length_copyVotes hlen) hiss).symm
        · intro j w hw
          change at? (copyVotes s1.votes (bv.add v i power).votes) j = some w at hw
          rw [hat] at hw
          split at hw
          · rename_i x hx; cases hw
            exact (core.wfBV v.block.key (bv.add v i power) j _ (by simp [key]) hx).1
          · exact hI.wfVotes j w hw
        · exact core.wfBV
        · intro k' bv' j w h hw
          have := core.hasVote k' bv' j w h hw
          change (at? (copyVotes s1.votes (bv.add v i power).votes) j).isSome = true
          rw [hiss]; exact this
        · intro m hm'
          cases hm'
          refine ⟨bv.add v i power, by simp [key], hc.2, ?_⟩
          intro j w hw
          change at? (copyVotes s1.votes (bv.add v i power).votes) j = some w
          rw [hat, hw]
        · intro j w hw
          change at? (copyVotes s1.votes (bv.add v i power).votes) j = some w at hw
          rw [hat] at hw
          split at hw
          · rename_i x hx; cases hw
            have hk := (core.wfBV v.block.key (bv.add v i power) j _ (by simp [key]) hx).2
            left
            exact ⟨bv.add v i power, by simp [key, hk], hx⟩
          · rcases core.canon j w hw with h | ⟨m, h, _⟩ | h
            · left; exact h
            · change s1.maj23 = some m at h; rw [hm] at h; cases h
            · cases h
      · intro h; cases h
    · rename_i m hm
      exact ⟨core, by intro h; change s1.maj23 = none at h; rw [hm] at h; cases h⟩
  · rename_i hc
    refine ⟨core, ?_⟩
    intro hm k' bv' h
    change s1.maj23 = none at hm
    change alGet k' (alSet v.block.key (bv.add v i power) s1.vbb) = some bv' at h
    simp only [key] at h
    split at h
    · cases h
      have := bno hm
      show (bv.add v i power).sum < s1.quorum
      omega
    · exact hI.noMaj hm _ _ h

theorem getVote_none {s : VoteSet} {i k : Nat} (h : getVote s i k = none) :
    (∀ e, at? s.votes i = some e → e.block.key ≠ k) ∧ (∀ bv, alGet k s.vbb = some bv → at? bv.votes i = none) := by
  unfold getVote at h
  split at h
  · rename_i e he
    split at h
    · cases h
    · rename_i hk
      refine ⟨fun e' he' => (by rw [he] at he'; cases he'; exact hk), ?_⟩
      intro bv hb; rw [hb] at h; exact h
  · rename_i he
    refine ⟨fun e' he' => (by rw [he] at he'; cases he'), ?_⟩
    intro bv hb; rw [hb] at h; exact h

/-- What the first half of `addVerifiedVote` establishes. -/
theorem place_spec {s : VoteSet} {v : Vote} {i power a : Nat}
    (hI : Inv s) (hval : s.vals[i]? = some (a, power)) (hwf : s.WFv i v)
    (hk : ∀ e, at? s.votes i = some e → e.block.key ≠ v.block.key) :
    let s1 := (placeVote s v i power).1
    s1.vbb = s.vbb ∧ s1.maj23 = s.maj23 ∧ s1.vals = s.vals ∧ s1.height = s.height ∧ s1.round = s.round ∧
    s1.type = s.type ∧ s1.peerMaj23s = s.peerMaj23s ∧
    (placeVote s v i power).2 = at? s.votes i ∧
    InvX s1 (if (at? s.votes i).isSome then none else some (i, v)) ∧
    (at? s1.votes i).isSome ∧
    (∀ m, s1.maj23 = some m → m.key = v.block.key → at? s1.votes i = some v) ∧
    (∀ j, j ≠ i → at? s1.votes j = at? s.votes j) ∧
    ((at? s1.votes i = some v ∧ (at? s.votes i = none ∨ ∃ m, s.maj23 = some m ∧ m.key = v.block.key)) ∨
      s1.votes = s.votes) := by
  have hi : i < s.vals.length := (List.getElem?_eq_some_iff.mp hval).1
  have hil : i < s.votes.length := by rw [hI.lenVotes]; exact hi
  have hat : ∀ j, at? (s.votes.set i (some v)) j = if i = j then some v else at? s.votes j := by
    intro j; rw [at?_set]; by_cases h : i = j
    · subst h; simp [hil]
    · simp [h]
  unfold placeVote
  split
  · rename_i e he
    have hek := hk e he
    -- the replaced state
    have hrep : ∀ m, s.maj23 = some m → m.key = v.block.key →
        InvX { s with votes := s.votes.set i (some v) } none := by
      intro m hm hmk
      refine ⟨?_, ?_⟩
      · constructor
        · simp [hI.lenVotes]
        · exact hI.lenBV
        · exact hI.sumBV
        · show s.sum = sumPow s.vals (s.votes.set i (some v))
          rw [sumPow_set_some v e he]; exact hI.sumAll
        · intro j w hw
          change at? (s.votes.set i (some v)) j = some w at hw
          rw [hat] at hw
          split at hw
          · rename_i hij; cases hw; subst hij; exact hwf
          · exact hI.wfVotes j w hw
        · exact hI.wfBV
        · intro k' bv' j w h hw
          change (at? (s.votes.set i (some v)) j).isSome = true
          rw [hat]; split
          · rfl
          · exact hI.hasVote k' bv' j w h hw
        · intro m' hm'
          change s.maj23 = some m' at hm'
          obtain ⟨bv0, h0, h1, h2⟩ := hI.majQuorum m' hm'
          refine ⟨bv0, h0, h1, ?_⟩
          intro j w hw
          change at? (s.votes.set i (some v)) j = some w
          rw [hat]; split
          · rename_i hij; subst hij
            -- bv0.votes[i] = some w would force votes[i] = w = e with e.key = m.key = k
            have h3 := h2 i w hw
            rw [he] at h3; cases h3
            have h4 := (hI.wfBV _ _ i e h0 hw).2
            rw [hm] at hm'; cases hm'
            exact absurd (h4.trans hmk) hek
          · exact h2 j w hw
        · intro j w hw
          change at? (s.votes.set i (some v)) j = some w at hw
          rw [hat] at hw
          split at hw
          · cases hw; right; left; exact ⟨m, hm, hmk⟩
          · rcases hI.canon j w hw with h | h | h
            · left; exact h
            · right; left; exact h
            · cases h
      · intro h; change s.maj23 = none at h; rw [hm] at h; cases h
    have hif : (if (at? s.votes i).isSome then (none : Option (Nat × Vote)) else some (i, v)) = none := by simp [he]
    rw [hif]
    split
    · rename_i m hm
      split
      · rename_i hmk
        refine ⟨rfl, rfl, rfl, rfl, rfl, rfl, rfl, he.symm, hrep m hm hmk, ?_, ?_, ?_, ?_⟩
        · show (at? (s.votes.set i (some v)) i).isSome = true
          simp [hat]
        · intro _ _ _; show at? (s.votes.set i (some v)) i = some v; simp [hat]
        · intro j hj; show at? (s.votes.set i (some v)) j = at? s.votes j
          rw [hat]; simp [Ne.symm hj]
        · left; exact ⟨by show at? (s.votes.set i (some v)) i = some v; simp [hat], Or.inr ⟨m, hm, hmk⟩⟩
      · rename_i hmk
        refine ⟨rfl, rfl, rfl, rfl, rfl, rfl, rfl, he.symm, hI, by simp [he], ?_, fun _ _ => rfl, Or.inr rfl⟩
        intro m' hm' hk'; rw [hm] at hm'; cases hm'; exact absurd hk' hmk
    · rename_i hm
      refine ⟨rfl, rfl, rfl, rfl, rfl, rfl, rfl, he.symm, hI, by simp [he], ?_, fun _ _ => rfl, Or.inr rfl⟩
      intro m' hm'; rw [hm] at hm'; cases hm'
  · rename_i he
    have hif : (if (at? s.votes i).isSome then (none : Option (Nat × Vote)) else some (i, v)) = some (i, v) := by simp [he]
    rw [hif]
    refine ⟨rfl, rfl, rfl, rfl, rfl, rfl, rfl, he.symm, ?_, ?_, ?_, ?_, ?_⟩
    · refine ⟨?_, hI.noMaj⟩
      constructor
      · simp [hI.lenVotes]
      · exact hI.lenBV
      · exact hI.sumBV
      · show s.sum + power = sumPow s.vals (s.votes.set i (some v))
        rw [sumPow_set_none v hval hil he, hI.sumAll]
      · intro j w hw
        change at? (s.votes.set i (some v)) j = some w at hw
        rw [hat] at hw
        split at hw
        · rename_i hij; cases hw; subst hij; exact hwf
        · exact hI.wfVotes j w hw
      · exact hI.wfBV
      · intro k' bv' j w h hw
        change (at? (s.votes.set i (some v)) j).isSome = true
        rw [hat]; split
        · rfl
        · exact hI.hasVote k' bv' j w h hw
      · intro m' hm'
        obtain ⟨bv0, h0, h1, h2⟩ := hI.majQuorum m' hm'
        refine ⟨bv0, h0, h1, ?_⟩
        intro j w hw
        change at? (s.votes.set i (some v)) j = some w
        rw [hat]; split
        · rename_i hij; subst hij
          have h3 := h2 i w hw
          rw [he] at h3; cases h3
        · exact h2 j w hw
      · intro j w hw
        change at? (s.votes.set i (some v)) j = some w at hw
        rw [hat] at hw
        split at hw
        · rename_i hij; cases hw; subst hij; right; right; rfl
        · rcases hI.canon j w hw with h | h | h
          · left; exact h
          · right; left; exact h
          · cases h
    · show (at? (s.votes.set i (some v)) i).isSome = true
      simp [hat]
    · intro _ _ _; show at? (s.votes.set i (some v)) i = some v; simp [hat]
    · intro j hj; show at? (s.votes.set i (some v)) j = at? s.votes j
      rw [hat]; simp [Ne.symm hj]
    · left; exact ⟨by show at? (s.votes.set i (some v)) i = some v; simp [hat], Or.inl he⟩

-- ---------------------------------------------------------------- effects of trackVote

section track
variable (s1 : VoteSet) (bv : BlockVotes) (v : Vote) (i power : Nat) (c : Option Vote)

theorem track_vbb : (trackVote s1 bv v i power c).s.vbb = alSet v.block.key (bv.add v i power) s1.vbb := by
  unfold trackVote; simp only []; split
  · split <;> rfl
  · rfl

theorem track_added : (trackVote s1 bv v i power c).added = true := by
  unfold trackVote; simp only []; split
  · split <;> rfl
  · rfl

theorem track_conflicting : (trackVote s1 bv v i power c).conflicting = c := by
  unfold trackVote; simp only []; split
  · split <;> rfl
  · rfl

theorem track_panicked : (trackVote s1 bv v i power c).panicked = false := by
  unfold trackVote; simp only []; split
  · split <;> rfl
  · rfl

theorem track_frame : (trackVote s1 bv v i power c).s.vals = s1.vals ∧
    (trackVote s1 bv v i power c).s.height = s1.height ∧ (trackVote s1 bv v i power c).s.round = s1.round ∧
    (trackVote s1 bv v i power c).s.type = s1.type ∧
    (trackVote s1 bv v i power c).s.peerMaj23s = s1.peerMaj23s ∧
    (trackVote s1 bv v i power c).s.sum = s1.sum := by
  unfold trackVote; simp only []; split
  · split <;> exact ⟨rfl, rfl, rfl, rfl, rfl, rfl⟩
  · exact ⟨rfl, rfl, rfl, rfl, rfl, rfl⟩

theorem track_maj_mono {m : BlockID} (h : s1.maj23 = some m) :
    (trackVote s1 bv v i power c).s.maj23 = some m ∧ (trackVote s1 bv v i power c).s.votes = s1.votes := by
  unfold trackVote; simp only []; split
  · split
    · rename_i h2; rw [h] at h2; cases h2
    · exact ⟨h, rfl⟩
  · exact ⟨h, rfl⟩

theorem track_maj_new {m : BlockID} (h : (trackVote s1 bv v i power c).s.maj23 = some m) :
    s1.maj23 = some m ∨ (s1.maj23 = none ∧ m = v.block) := by
  unfold trackVote at h; simp only [] at h; split at h
  · split at h
    · rename_i h2; cases h; exact Or.inr ⟨h2, rfl⟩
    · exact Or.inl h
  · exact Or.inl h

theorem track_votes (hl : s1.votes.length = (bv.add v i power).votes.length) (j : Nat) :
    at? (trackVote s1 bv v i power c).s.votes j = at? s1.votes j ∨
    (s1.maj23 = none ∧ ∃ w, at? (bv.add v i power).votes j = some w ∧
      at? (trackVote s1 bv v i power c).s.votes j = some w) := by
  unfold trackVote; simp only []; split
  · split
    · rename_i h2
      show at? (copyVotes s1.votes (bv.add v i power).votes) j = _ ∨ _
      rw [at?_copyVotes hl]
      cases h : at? (bv.add v i power).votes j with
      | none => left; rfl
      | some w => right; exact ⟨h2, w, rfl, rfl⟩
    · left; rfl
  · left; rfl

end track

-- ---------------------------------------------------------------- addVerifiedVote by cases

theorem place_fst_vbb (s : VoteSet) (v : Vote) (i power : Nat) : (placeVote s v i power).1.vbb = s.vbb := by
  unfold placeVote; split
  · split
    · split <;> rfl
    · rfl
  · rfl

theorem place_snd (s : VoteSet) (v : Vote) (i power : Nat) : (placeVote s v i power).2 = at? s.votes i := by
  unfold placeVote; split
  · rename_i e he; split
    · split <;> exact he.symm
    · exact he.symm
  · rename_i he; exact he.symm

/-- The three ways through `addVerifiedVote` once `getVote` found nothing. -/
theorem avv_cases {s : VoteSet} {v : Vote} {i power : Nat}
    (hk : ∀ e, at? s.votes i = some e → e.block.key ≠ v.block.key) :
    (at? s.votes i = none ∧ ∃ bv0, (alGet v.block.key s.vbb = some bv0 ∨
        (alGet v.block.key s.vbb = none ∧ bv0 = newBlockVotes false s.vals.length)) ∧
        addVerifiedVote s v i power = trackVote (placeVote s v i power).1 bv0 v i power none)
    ∨ (∃ e, at? s.votes i = some e ∧
        (alGet v.block.key s.vbb = none ∨ ∃ bv, alGet v.block.key s.vbb = some bv ∧ bv.peerMaj23 = false) ∧
        addVerifiedVote s v i power = { s := (placeVote s v i power).1, added := false, conflicting := some e })
    ∨ (∃ e bv, at? s.votes i = some e ∧ alGet v.block.key s.vbb = some bv ∧ bv.peerMaj23 = true ∧
        addVerifiedVote s v i power = trackVote (placeVote s v i power).1 bv v i power (some e)) := by
  have hform : addVerifiedVote s v i power =
      (match alGet v.block.key (placeVote s v i power).1.vbb with
      | some bv =>
        if (placeVote s v i power).2.isSome && !bv.peerMaj23 then
          { s := (placeVote s v i power).1, added := false, conflicting := (placeVote s v i power).2 }
        else trackVote (placeVote s v i power).1 bv v i power (placeVote s v i power).2
      | none =>
        if (placeVote s v i power).2.isSome then
          { s := (placeVote s v i power).1, added := false, conflicting := (placeVote s v i power).2 }
        else trackVote (placeVote s v i power).1 (newBlockVotes false s.vals.length) v i power (placeVote s v i power).2) := by
    unfold addVerifiedVote
    split
    · rename_i e he
      have hne : e.block ≠ v.block := fun h => hk e he (by rw [h])
      rw [if_neg (by simp [hne])]
      rfl
    · rw [if_neg (by simp)]
      rfl
  rw [hform, place_fst_vbb, place_snd]
  cases he : at? s.votes i with
  | none =>
    left
    refine ⟨rfl, ?_⟩
    cases hb : alGet v.block.key s.vbb with
    | none => exact ⟨_, Or.inr ⟨rfl, rfl⟩, by simp⟩
    | some bv => exact ⟨bv, Or.inl rfl, by simp⟩
  | some e =>
    right
    cases hb : alGet v.block.key s.vbb with
    | none => left; exact ⟨e, rfl, Or.inl rfl, by simp⟩
    | some bv =>
      cases hp : bv.peerMaj23 with
      | false => left; exact ⟨e, rfl, Or.inr ⟨bv, rfl, hp⟩, by simp [hp]⟩
      | true => right; exact ⟨e, bv, rfl, rfl, hp, by simp [hp]⟩

theorem tracked_alSet_add {s1 s' : VoteSet} {bv0 : BlockVotes} {v : Vote} {i power n : Nat}
    (hv : s'.vbb = alSet v.block.key (bv0.add v i power) s1.vbb)
    (hbv : alGet v.block.key s1.vbb = some bv0 ∨ (alGet v.block.key s1.vbb = none ∧ bv0 = newBlockVotes false n))
    (hnone : at? bv0.votes i = none) (hilt : i < bv0.votes.length) (k' j : Nat) (w : Vote) :
    Tracked s' k' j w ↔ Tracked s1 k' j w ∨ (k' = v.block.key ∧ j = i ∧ w = v) := by
  unfold Tracked
  rw [hv]
  simp only [alGet_alSet]
  by_cases hk : k' = v.block.key
  · subst hk
    simp only [if_true, add_of_none hnone]
    constructor
    · rintro ⟨bv, hb, hw⟩
      cases hb
      simp only [at?_set] at hw
      split at hw
      · rename_i h; cases hw; right; exact ⟨trivial, h.1.symm, rfl⟩
      · left
        rcases hbv with h | ⟨_, h⟩
        · exact ⟨bv0, h, hw⟩
        · rw [h] at hw; simp [newBlockVotes, at?_replicate] at hw
    · rintro (⟨bv, hb, hw⟩ | ⟨_, hj, hw⟩)
      · rcases hbv with h | ⟨h, _⟩
        · rw [h] at hb; cases hb
          refine ⟨_, rfl, ?_⟩
          simp only [at?_set]
          split
          · rename_i h2; rw [← h2.1, hnone] at hw; cases hw
          · exact hw
        · rw [h] at hb; cases hb
      · subst hj; subst hw
        exact ⟨_, rfl, by simp [at?_set, hilt]⟩
  · simp only [hk, if_false, false_and, or_false]

/-- Everything later proofs need to know about one call of `addVerifiedVote`. -/
structure AVVSpec (s : VoteSet) (v : Vote) (i : Nat) (r : AVV) : Prop where
  noPanic : r.panicked = false
  inv : Inv r.s
  conf : r.conflicting = at? s.votes i
  frame : r.s.vals = s.vals ∧ r.s.height = s.height ∧ r.s.round = s.round ∧ r.s.type = s.type ∧
    r.s.peerMaj23s = s.peerMaj23s
  added : r.added = true ↔ (at? s.votes i = none ∨ ∃ bv, alGet v.block.key s.vbb = some bv ∧ bv.peerMaj23 = true)
  tracked : ∀ k' j w, Tracked r.s k' j w ↔ Tracked s k' j w ∨ (r.added = true ∧ k' = v.block.key ∧ j = i ∧ w = v)
  majMono : ∀ m, s.maj23 = some m → r.s.maj23 = some m
  majNew : ∀ m, r.s.maj23 = some m → s.maj23 = some m ∨ (s.maj23 = none ∧ m = v.block ∧ r.added = true)
  votesFrom : ∀ j w, at? r.s.votes j = some w → at? s.votes j = some w ∨ Tracked s w.block.key j w ∨
    (j = i ∧ w = v ∧ (r.added = true ∨ ∃ m, s.maj23 = some m ∧ m.key = v.block.key))
  stable : ∀ m, s.maj23 = some m → ∀ j w, at? s.votes j = some w → w.block.key = m.key → at? r.s.votes j = some w
  late : r.added = false → (∃ m, s.maj23 = some m ∧ m.key = v.block.key) → at? r.s.votes i = some v
  flags : ∀ k', (alGet k' r.s.vbb).map (·.peerMaj23) = (alGet k' s.vbb).map (·.peerMaj23) ∨
    (alGet k' s.vbb = none ∧ (alGet k' r.s.vbb).map (·.peerMaj23) = some false)

theorem avv_spec {s : VoteSet} {v : Vote} {i power a : Nat}
    (hI : Inv s) (hval : s.vals[i]? = some (a, power)) (hwf : s.WFv i v)
    (hget : getVote s i v.block.key = none) : AVVSpec s v i (addVerifiedVote s v i power) := by
  obtain ⟨g1, g2⟩ := getVote_none hget
  have hi : i < s.vals.length := (List.getElem?_eq_some_iff.mp hval).1
  obtain ⟨pvbb, pmaj, pvals, ph, pr, pt, ppeer, pconf, pinv, psome, pmajv, pother, prepl⟩ := place_spec hI hval hwf g1
  have pwf : (placeVote s v i power).1.WFv i v := by
    unfold VoteSet.WFv; rw [ph, pr, pt, pvals]; exact hwf
  have pval : (placeVote s v i power).1.vals[i]? = some (a, power) := by rw [pvals]; exact hval
  -- facts shared by the two tracking cases
  have trk : ∀ (bv0 : BlockVotes) (c : Option Vote),
      (alGet v.block.key s.vbb = some bv0 ∨ (alGet v.block.key s.vbb = none ∧ bv0 = newBlockVotes false s.vals.length)) →
      (c = at? s.votes i) →
      (at? s.votes i = none ∨ ∃ bv, alGet v.block.key s.vbb = some bv ∧ bv.peerMaj23 = true) →
      AVVSpec s v i (trackVote (placeVote s v i power).1 bv0 v i power c) := by
    intro bv0 c hbv hc hadd
    have hbv' : alGet v.block.key (placeVote s v i power).1.vbb = some bv0 ∨
        (alGet v.block.key (placeVote s v i power).1.vbb = none ∧
          bv0 = newBlockVotes false (placeVote s v i power).1.vals.length) := by
      rw [pvbb, pvals]; exact hbv
    have hnone : at? bv0.votes i = none := by
      rcases hbv with h | ⟨_, h⟩
      · exact g2 _ h
      · simp [h, newBlockVotes, at?_replicate]
    have blen : bv0.votes.length = s.vals.length := by
      rcases hbv with h | ⟨_, h⟩
      · exact hI.lenBV _ _ h
      · simp [h, newBlockVotes]
    have hex : (if (at? s.votes i).isSome then (none : Option (Nat × Vote)) else some (i, v)) = none ∨
        (if (at? s.votes i).isSome then (none : Option (Nat × Vote)) else some (i, v)) = some (i, v) := by
      split
      · left; rfl
      · right; rfl
    have hinv := inv_track (c := c) pinv hex hbv' hnone pwf pval psome pmajv
    have hfr := track_frame (placeVote s v i power).1 bv0 v i power c
    have hlen : (placeVote s v i power).1.votes.length = (bv0.add v i power).votes.length := by
      rw [pinv.lenVotes, pvals, add_of_none hnone]; simp [blen]
    have htr : ∀ k' j w, Tracked (trackVote (placeVote s v i power).1 bv0 v i power c).s k' j w ↔
        Tracked s k' j w ∨ (k' = v.block.key ∧ j = i ∧ w = v) := by
      intro k' j w
      rw [tracked_alSet_add (track_vbb _ _ _ _ _ _) hbv' hnone (by omega) k' j w]
      unfold Tracked; rw [pvbb]
    constructor
    · exact track_panicked _ _ _ _ _ _
    · exact hinv
    · rw [track_conflicting]; exact hc
    · exact ⟨hfr.1.trans pvals, hfr.2.1.trans ph, hfr.2.2.1.trans pr, hfr.2.2.2.1.trans pt, hfr.2.2.2.2.1.trans ppeer⟩
    · rw [track_added]; simp [hadd]
    · intro k' j w; rw [htr, track_added]; simp
    · intro m hm; exact (track_maj_mono _ _ _ _ _ _ (pmaj.trans hm)).1
    · intro m hm
      rcases track_maj_new _ _ _ _ _ _ hm with h | ⟨h, h2⟩
      · left; exact pmaj.symm.trans h
      · right; exact ⟨pmaj.symm.trans h, h2, track_added _ _ _ _ _ _⟩
    · intro j w hw
      rcases track_votes (placeVote s v i power).1 bv0 v i power c hlen j with h | ⟨_, w', hw1, hw2⟩
      · rw [h] at hw
        by_cases hj : j = i
        · subst hj
          rcases prepl with ⟨h1, h2⟩ | h1
          · rw [h1] at hw; cases hw
            right; right; exact ⟨rfl, rfl, Or.inl (track_added _ _ _ _ _ _)⟩
          · rw [h1] at hw; left; exact hw
        · rw [pother j hj] at hw; left; exact hw
      · rw [hw2] at hw; cases hw
        rw [add_of_none hnone] at hw1
        simp only [at?_set] at hw1
        split at hw1
        · rename_i h; cases hw1; right; right; exact ⟨h.1.symm, rfl, Or.inl (track_added _ _ _ _ _ _)⟩
        · right; left
          rcases hbv with h | ⟨_, h⟩
          · have := (hI.wfBV _ _ j w h hw1).2
            rw [this]; exact ⟨bv0, h, hw1⟩
          · rw [h] at hw1; simp [newBlockVotes, at?_replicate] at hw1
    · intro m hm j w hw hk
      rw [(track_maj_mono _ _ _ _ _ _ (pmaj.trans hm)).2]
      by_cases hj : j = i
      · subst hj
        rcases prepl with ⟨h1, h2 | ⟨m', hm', hk'⟩⟩ | h1
        · rw [h2] at hw; cases hw
        · rw [hm] at hm'; cases hm'
          exact absurd (hk.trans hk') (g1 w hw)
        · rw [h1]; exact hw
      · rw [pother j hj]; exact hw
    · intro h; rw [track_added] at h; cases h
    · intro k'
      rw [track_vbb, pvbb, alGet_alSet]
      by_cases hk : k' = v.block.key
      · subst hk
        simp only [if_true, Option.map_some, add_of_none hnone]
        rcases hbv with h | ⟨h, h2⟩
        · left; rw [h]; rfl
        · right; exact ⟨h, by rw [h2]; rfl⟩
      · simp [hk]
  rcases avv_cases (power := power) g1 with ⟨he, bv0, hbv, heq⟩ | ⟨e, he, hb, heq⟩ | ⟨e, bv, he, hb, hp, heq⟩
  · rw [heq]; exact trk bv0 none hbv he.symm (Or.inl he)
  · rw [heq]
    have hnadd : ¬ (at? s.votes i = none ∨ ∃ bv, alGet v.block.key s.vbb = some bv ∧ bv.peerMaj23 = true) := by
      rintro (h | ⟨bv, h1, h2⟩)
      · rw [he] at h; cases h
      · rcases hb with h | ⟨bv', h3, h4⟩
        · rw [h] at h1; cases h1
        · rw [h3] at h1; cases h1; rw [h4] at h2; cases h2
    have pinv' : Inv (placeVote s v i power).1 := by
      have := pinv; rw [he] at this; simpa using this
    constructor
    · rfl
    · exact pinv'
    · exact he.symm
    · exact ⟨pvals, ph, pr, pt, ppeer⟩
    · simp [hnadd]
    · intro k' j w; unfold Tracked; rw [pvbb]; simp
    · intro m hm; exact pmaj.trans hm
    · intro m hm; left; exact pmaj.symm.trans hm
    · intro j w hw
      change at? (placeVote s v i power).1.votes j = some w at hw
      by_cases hj : j = i
      · subst hj
        rcases prepl with ⟨h1, h2 | h2⟩ | h1
        · rw [he] at h2; cases h2
        · rw [h1] at hw; cases hw; right; right; exact ⟨rfl, rfl, Or.inr h2⟩
        · rw [h1] at hw; left; exact hw
      · rw [pother j hj] at hw; left; exact hw
    · intro m hm j w hw hk
      change at? (placeVote s v i power).1.votes j = some w
      by_cases hj : j = i
      · subst hj
        rcases prepl with ⟨h1, h2 | ⟨m', hm', hk'⟩⟩ | h1
        · rw [h2] at hw; cases hw
        · rw [hm] at hm'; cases hm'
          exact absurd (hk.trans hk') (g1 w hw)
        · rw [h1]; exact hw
      · rw [pother j hj]; exact hw
    · intro _ ⟨m, hm, hk⟩
      exact pmajv m (pmaj.trans hm) hk
    · intro k'; left; show (alGet k' (placeVote s v i power).1.vbb).map _ = _; rw [pvbb]
  · rw [heq]; exact trk bv (some e) (Or.inl hb) he.symm (Or.inr ⟨bv, hb, hp⟩)

end GnoVerif.C35
