import GnoVerif.Proofs.C05Tables
/-! C05: `fcmp64` is the three-way comparison of the sign-magnitude keys, with the NaN flag. -/
set_option linter.unusedSimpArgs false
namespace GnoVerif.C05.L
open GnoVerif.Gen.C05

theorem fcmp64_nan (f g : BitVec 64) (h : isNaN64 f ∨ isNaN64 g) : fcmp64 f g = (0#32, true) := by
  obtain ⟨fm, fe, hF, hfm, _⟩ := funpack64_ex f
  obtain ⟨gm, ge, hG, hgm, _⟩ := funpack64_ex g
  unfold fcmp64
  rw [hF, hG]
  simp only []
  rcases h with h | h <;> simp [h]

theorem fcmp64_zero_zero (a b : Bool) : fcmp64 (mkZero64 a) (mkZero64 b) = (0#32, false) := by
  cases a <;> cases b <;> decide

theorem key64_zero (f : BitVec 64) (h : isZero64 f) : key64 f = 0 := by
  unfold isZero64 mag64 at h; unfold key64
  have := f.isLt
  split <;> omega

theorem fcmp64_ord (f g : BitVec 64) (hf : ¬ isNaN64 f) (hg : ¬ isNaN64 g) :
    fcmp64 f g = (cmp3 (key64 f) (key64 g), false) := by
  by_cases hz : isZero64 f ∧ isZero64 g
  · rw [key64_zero f hz.1, key64_zero g hz.2, zero64_eq f hz.1, zero64_eq g hz.2, fcmp64_zero_zero]
    rfl
  obtain ⟨fm, fe, hF, hfm, _⟩ := funpack64_ex f
  obtain ⟨gm, ge, hG, hgm, _⟩ := funpack64_ex g
  have hfz := mant_zero_of_class hfm
  have hgz := mant_zero_of_class hgm
  have c2 : ((!decide (isInf64 f) && !decide (isInf64 g)) && fm == 0#64 && gm == 0#64) = false := by
    rw [Bool.eq_false_iff]
    intro h
    simp only [Bool.and_eq_true, Bool.not_eq_true', decide_eq_false_iff_not, beq_iff_eq] at h
    obtain ⟨⟨⟨h1, h2⟩, h3⟩, h4⟩ := h
    apply hz
    constructor
    · rcases hfz.1 h3 with h | h
      · exact h
      · exact absurd h h1
    · rcases hgz.1 h4 with h | h
      · exact h
      · exact absurd h h2
  unfold fcmp64
  rw [hF, hG]
  simp only [hf, hg, decide_false, Bool.or_self, Bool.false_eq_true, if_false, c2]
  have hfl := f.isLt
  have hgl := g.isLt
  unfold cmp3 key64
  rcases sign64_cases f with ⟨hnf, ef⟩ | ⟨hnf, ef⟩ <;> rcases sign64_cases g with ⟨hng, eg⟩ | ⟨hng, eg⟩ <;>
    rw [ef, eg] <;> unfold neg64 at hnf hng <;>
    simp only [BitVec.ult, BitVec.toNat_ofNat, bne, beq_self_eq_true, Bool.not_true, Bool.not_false,
      Bool.false_and, Bool.true_and, Bool.or_false, Bool.false_or, Nat.lt_irrefl, decide_false,
      Bool.false_eq_true, if_false] <;>
    simp
  all_goals (
    simp only [Nat.reducePow] at hnf hng hfl hgl
    unfold isZero64 mag64 at hz
    simp only [Nat.reducePow] at hz
    simp only [hnf, hng, if_true, if_false]
    repeat' split
    all_goals (first | rfl | omega))

theorem fcmp64_cases (f g : BitVec 64) :
    ((isNaN64 f ∨ isNaN64 g) ∧ fcmp64 f g = (0#32, true)) ∨
    (¬ isNaN64 f ∧ ¬ isNaN64 g ∧ key64 f < key64 g ∧ fcmp64 f g = (BitVec.ofInt 32 (-1), false)) ∨
    (¬ isNaN64 f ∧ ¬ isNaN64 g ∧ key64 g < key64 f ∧ fcmp64 f g = (1#32, false)) ∨
    (¬ isNaN64 f ∧ ¬ isNaN64 g ∧ key64 f = key64 g ∧ fcmp64 f g = (0#32, false)) := by
  by_cases hf : isNaN64 f
  · exact Or.inl ⟨Or.inl hf, fcmp64_nan f g (Or.inl hf)⟩
  by_cases hg : isNaN64 g
  · exact Or.inl ⟨Or.inr hg, fcmp64_nan f g (Or.inr hg)⟩
  have h := fcmp64_ord f g hf hg
  unfold cmp3 at h
  by_cases h1 : key64 f < key64 g
  · rw [if_pos h1] at h; exact Or.inr (Or.inl ⟨hf, hg, h1, h⟩)
  · rw [if_neg h1] at h
    by_cases h2 : key64 g < key64 f
    · rw [if_pos h2] at h; exact Or.inr (Or.inr (Or.inl ⟨hf, hg, h2, h⟩))
    · rw [if_neg h2] at h; exact Or.inr (Or.inr (Or.inr ⟨hf, hg, by omega, h⟩))

theorem feq64_iff (f g : BitVec 64) :
    feq64 f g = true ↔ (¬ isNaN64 f ∧ ¬ isNaN64 g ∧ key64 f = key64 g) := by
  unfold feq64
  rcases fcmp64_cases f g with ⟨hn, h⟩ | ⟨hf, hg, hk, h⟩ | ⟨hf, hg, hk, h⟩ | ⟨hf, hg, hk, h⟩ <;> rw [h] <;> simp only []
  · simp; intro a b; rcases hn with hn | hn <;> contradiction
  · have : (BitVec.ofInt 32 (-1) == 0#32) = false := by decide
    simp [this, hf, hg]; omega
  · have : (1#32 == 0#32) = false := by decide
    simp [this, hf, hg]; omega
  · simp [hf, hg, hk]

theorem fgt64_iff (f g : BitVec 64) :
    fgt64 f g = true ↔ (¬ isNaN64 f ∧ ¬ isNaN64 g ∧ key64 g < key64 f) := by
  unfold fgt64
  rcases fcmp64_cases f g with ⟨hn, h⟩ | ⟨hf, hg, hk, h⟩ | ⟨hf, hg, hk, h⟩ | ⟨hf, hg, hk, h⟩ <;> rw [h] <;> simp only []
  · simp; intro a b; rcases hn with hn | hn <;> contradiction
  · have : BitVec.sle 1#32 (BitVec.ofInt 32 (-1)) = false := by decide
    simp [this, hf, hg]; omega
  · have : BitVec.sle 1#32 1#32 = true := by decide
    simp [this, hf, hg, hk]
  · have : BitVec.sle 1#32 0#32 = false := by decide
    simp [this, hf, hg]; omega

theorem fge64_iff (f g : BitVec 64) :
    fge64 f g = true ↔ (¬ isNaN64 f ∧ ¬ isNaN64 g ∧ key64 g ≤ key64 f) := by
  unfold fge64
  rcases fcmp64_cases f g with ⟨hn, h⟩ | ⟨hf, hg, hk, h⟩ | ⟨hf, hg, hk, h⟩ | ⟨hf, hg, hk, h⟩ <;> rw [h] <;> simp only []
  · simp; intro a b; rcases hn with hn | hn <;> contradiction
  · have : BitVec.sle 0#32 (BitVec.ofInt 32 (-1)) = false := by decide
    simp [this, hf, hg]; omega
  · have : BitVec.sle 0#32 1#32 = true := by decide
    simp [this, hf, hg]; omega
  · have : BitVec.sle 0#32 0#32 = true := by decide
    simp [this, hf, hg]; omega

theorem Flt64_iff (f g : BitVec 64) :
    Flt64 f g = true ↔ (¬ isNaN64 f ∧ ¬ isNaN64 g ∧ key64 f < key64 g) := by
  unfold Flt64
  rcases fcmp64_cases f g with ⟨hn, h⟩ | ⟨hf, hg, hk, h⟩ | ⟨hf, hg, hk, h⟩ | ⟨hf, hg, hk, h⟩ <;> rw [h] <;> simp only []
  · simp; intro a b; rcases hn with hn | hn <;> contradiction
  · have : BitVec.sle (BitVec.ofInt 32 (-1)) (BitVec.ofInt 32 (-1)) = true := by decide
    simp [this, hf, hg, hk]
  · have : BitVec.sle 1#32 (BitVec.ofInt 32 (-1)) = false := by decide
    simp [this, hf, hg]; omega
  · have : BitVec.sle 0#32 (BitVec.ofInt 32 (-1)) = false := by decide
    simp [this, hf, hg]; omega

theorem Fle64_iff (f g : BitVec 64) :
    Fle64 f g = true ↔ (¬ isNaN64 f ∧ ¬ isNaN64 g ∧ key64 f ≤ key64 g) := by
  unfold Fle64
  rcases fcmp64_cases f g with ⟨hn, h⟩ | ⟨hf, hg, hk, h⟩ | ⟨hf, hg, hk, h⟩ | ⟨hf, hg, hk, h⟩ <;> rw [h] <;> simp only []
  · simp; intro a b; rcases hn with hn | hn <;> contradiction
  · have : BitVec.sle (BitVec.ofInt 32 (-1)) 0#32 = true := by decide
    simp [this, hf, hg]; omega
  · have : BitVec.sle 1#32 0#32 = false := by decide
    simp [this, hf, hg]; omega
  · have : BitVec.sle 0#32 0#32 = true := by decide
    simp [this, hf, hg]; omega
end GnoVerif.C05.L
