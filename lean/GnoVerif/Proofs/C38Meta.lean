import GnoVerif.Model.C38
import GnoVerif.Proofs.C38Base64
/-! Helper lemmas for C38: the meta line `#{"h":"<n>"}` written by `WriteMeta`
parses back to `n` through the JSON model of `C38Meta`. -/
namespace GnoVerif.C38
open GnoVerif

/-- the ten decimal digit characters -/
def dig (k : Nat) : UInt8 := UInt8.ofNat (48 + k)

set_option maxRecDepth 100000 in
theorem dig_facts : ∀ k : Fin 10,
    isDigit (dig k.val) = true ∧ (dig k.val).toNat = 48 + k.val ∧
    step ⟨.inString, []⟩ (dig k.val) = (⟨.inString, []⟩, .continue_) ∧
    step ⟨.one, []⟩ (dig k.val) = (⟨.one, []⟩, .continue_) ∧
    isSpace (dig k.val) = false ∧ dig k.val ≠ 45 := by
  decide

set_option maxRecDepth 100000 in
theorem dig_facts_pos : ∀ k : Fin 9,
    step ⟨.beginValue, []⟩ (dig (k.val + 1)) = (⟨.one, []⟩, .beginLiteral) ∧
    step ⟨.neg, []⟩ (dig (k.val + 1)) = (⟨.one, []⟩, .continue_) ∧
    dig (k.val + 1) ≠ 48 := by
  decide

/-- `ds` consists of decimal digit characters only -/
def AllDig (ds : Bytes) : Prop := ∀ d ∈ ds, ∃ k, k < 10 ∧ d = dig k

theorem allDig_nil : AllDig [] := by intro d h; cases h

theorem allDig_cons {k : Nat} (hk : k < 10) {ds : Bytes} (h : AllDig ds) : AllDig (dig k :: ds) := by
  intro d hd
  rcases List.mem_cons.mp hd with rfl | hd
  · exact ⟨k, hk, rfl⟩
  · exact h d hd

/-! #### value of a digit string -/

def dv (a : Nat) (ds : Bytes) : Nat := ds.foldl (fun acc d => acc * 10 + (d.toNat - 48)) a

theorem digitsVal_eq (ds : Bytes) : digitsVal ds = dv 0 ds := rfl

theorem dv_shift (a : Nat) (ds : Bytes) : dv a ds = a * 10 ^ ds.length + dv 0 ds := by
  induction ds generalizing a with
  | nil => simp [dv]
  | cons d ds ih =>
    have h1 : dv a (d :: ds) = dv (a * 10 + (d.toNat - 48)) ds := rfl
    have h2 : dv 0 (d :: ds) = dv (0 * 10 + (d.toNat - 48)) ds := rfl
    rw [h1, h2, ih (a * 10 + (d.toNat - 48)), ih (0 * 10 + (d.toNat - 48))]
    simp only [List.length_cons, Nat.pow_succ]
    grind

theorem dv_cons_dig (k : Nat) (hk : k < 10) (ds : Bytes) :
    dv 0 (dig k :: ds) = k * 10 ^ ds.length + dv 0 ds := by
  have h2 : dv 0 (dig k :: ds) = dv (0 * 10 + ((dig k).toNat - 48)) ds := rfl
  rw [h2, dv_shift, (dig_facts ⟨k, hk⟩).2.1]
  simp

/-- structure and value of `natDigitsAux` -/
theorem natDigitsAux_spec : ∀ (fuel n : Nat) (acc : Bytes), n < fuel → AllDig acc →
    AllDig (natDigitsAux fuel n acc) ∧
    dv 0 (natDigitsAux fuel n acc) = n * 10 ^ acc.length + dv 0 acc ∧
    (0 < n → ∃ k ds, k < 9 ∧ natDigitsAux fuel n acc = dig (k + 1) :: ds) := by
  intro fuel
  induction fuel with
  | zero => intro n acc h; omega
  | succ fuel ih =>
    intro n acc hn hacc
    unfold natDigitsAux
    split
    · rename_i hlt
      refine ⟨allDig_cons hlt hacc, dv_cons_dig n hlt acc, ?_⟩
      intro hpos
      exact ⟨n - 1, acc, by omega, by
        have : n - 1 + 1 = n := by omega
        rw [this]; rfl⟩
    · rename_i hge
      have hm : n % 10 < 10 := Nat.mod_lt _ (by omega)
      have hacc' : AllDig (UInt8.ofNat (48 + n % 10) :: acc) := allDig_cons hm hacc
      obtain ⟨h1, h2, h3⟩ := ih (n / 10) (UInt8.ofNat (48 + n % 10) :: acc) (by omega) hacc'
      refine ⟨h1, ?_, fun _ => h3 (by omega)⟩
      rw [h2]
      have e : dv 0 (UInt8.ofNat (48 + n % 10) :: acc) = (n % 10) * 10 ^ acc.length + dv 0 acc :=
        dv_cons_dig (n % 10) hm acc
      rw [e]
      simp only [List.length_cons, Nat.pow_succ]
      have hdm : n = 10 * (n / 10) + n % 10 := (Nat.div_add_mod n 10).symm
      generalize n / 10 = q at *
      generalize n % 10 = r at *
      subst hdm
      grind

theorem natDigits_allDig (n : Nat) : AllDig (natDigits n) :=
  (natDigitsAux_spec (n + 1) n [] (by omega) allDig_nil).1

theorem natDigits_val (n : Nat) : digitsVal (natDigits n) = n := by
  have := (natDigitsAux_spec (n + 1) n [] (by omega) allDig_nil).2.1
  simpa [digitsVal_eq, natDigits, dv] using this

theorem natDigits_pos {n : Nat} (h : 0 < n) : ∃ k ds, k < 9 ∧ natDigits n = dig (k + 1) :: ds :=
  (natDigitsAux_spec (n + 1) n [] (by omega) allDig_nil).2.2 h

theorem natDigits_zero : natDigits 0 = [dig 0] := rfl

/-! #### the JSON scanner on a quoted digit string -/

/-- characters of `intDigits`: digits and '-' ; both are ordinary string characters -/
def StrChar (c : UInt8) : Prop := step ⟨.inString, []⟩ c = (⟨.inString, []⟩, .continue_)

theorem strChar_dig {k : Nat} (hk : k < 10) : StrChar (dig k) := (dig_facts ⟨k, hk⟩).2.2.1
theorem strChar_minus : StrChar 45 := by unfold StrChar; decide

theorem readValueAux_inString (ds : Bytes) (hds : ∀ d ∈ ds, StrChar d) :
    ∀ (i : Nat) (ns : Bool) (c : UInt8) (tail : Bytes),
      readValueAux ⟨.inString, []⟩ i ns (ds ++ 34 :: c :: tail) = .complete (i + ds.length + 1) := by
  induction ds with
  | nil =>
    intro i ns c tail
    simp [readValueAux, step, stepEndValue, stepEndTop]
  | cons d ds ih =>
    intro i ns c tail
    have hd : step ⟨.inString, []⟩ d = (⟨.inString, []⟩, .continue_) := hds d (List.mem_cons_self)
    have ih' := ih (fun x hx => hds x (List.mem_cons_of_mem _ hx)) (i + 1) (ns || !isSpace d) c tail
    simp only [List.cons_append, readValueAux, hd]
    rw [ih']
    simp only [List.length_cons]
    congr 1
    omega

/-- a quoted string of ordinary characters, followed by at least one more byte -/
theorem readValue_quoted (ds : Bytes) (hds : ∀ d ∈ ds, StrChar d) (c : UInt8) (tail : Bytes) :
    readValue (34 :: (ds ++ 34 :: c :: tail)) = .complete (ds.length + 2) := by
  have h0 : step ⟨.beginValue, []⟩ 34 = (⟨.inString, []⟩, .beginLiteral) := by decide
  simp only [readValue, readValueAux, h0]
  rw [readValueAux_inString ds hds]
  congr 1
  omega

theorem checkValidAux_one (ds : Bytes) (h : AllDig ds) : checkValidAux ⟨.one, []⟩ ds = true := by
  induction ds with
  | nil => decide
  | cons d ds ih =>
    obtain ⟨k, hk, rfl⟩ := h d (List.mem_cons_self)
    have hs := (dig_facts ⟨k, hk⟩).2.2.2.1
    simp only [checkValidAux, hs]
    simpa using ih (fun x hx => h x (List.mem_cons_of_mem _ hx))

theorem allDig_tail {d : UInt8} {ds : Bytes} (h : AllDig (d :: ds)) : AllDig ds :=
  fun x hx => h x (List.mem_cons_of_mem _ hx)

theorem checkValid_natDigits (n : Nat) : checkValid (natDigits n) = true := by
  rcases Nat.eq_zero_or_pos n with rfl | hpos
  · decide
  · obtain ⟨k, ds, hk, e⟩ := natDigits_pos hpos
    have hall := natDigits_allDig n
    rw [e] at hall ⊢
    have hs := (dig_facts_pos ⟨k, hk⟩).1
    simp only [checkValid, checkValidAux, hs]
    simpa using checkValidAux_one ds (allDig_tail hall)

theorem checkValid_neg_natDigits {n : Nat} (hpos : 0 < n) : checkValid (45 :: natDigits n) = true := by
  obtain ⟨k, ds, hk, e⟩ := natDigits_pos hpos
  have hall := natDigits_allDig n
  rw [e] at hall ⊢
  have h0 : step ⟨.beginValue, []⟩ 45 = (⟨.neg, []⟩, .beginLiteral) := by decide
  have hs := (dig_facts_pos ⟨k, hk⟩).2.1
  simp only [checkValid, checkValidAux, h0, hs]
  simpa using checkValidAux_one ds (allDig_tail hall)

/-! #### `parseInt64`, `decodeHeight` -/

theorem natDigits_cons (n : Nat) : ∃ k ds, k < 10 ∧ natDigits n = dig k :: ds ∧
    (0 < n → 1 ≤ k) ∧ (n = 0 → ds = []) := by
  rcases Nat.eq_zero_or_pos n with rfl | hpos
  · exact ⟨0, [], by omega, rfl, by omega, fun _ => rfl⟩
  · obtain ⟨k, ds, hk, e⟩ := natDigits_pos hpos
    exact ⟨k + 1, ds, by omega, e, fun _ => by omega, fun h => by omega⟩

theorem all_isDigit_of_allDig {ds : Bytes} (h : AllDig ds) : ds.all isDigit = true := by
  rw [List.all_eq_true]
  intro d hd
  obtain ⟨k, hk, rfl⟩ := h d hd
  exact (dig_facts ⟨k, hk⟩).1

theorem dig_ne_48 {k : Nat} (hk : k < 10) (h1 : 1 ≤ k) : dig k ≠ 48 := by
  have := (dig_facts_pos ⟨k - 1, by omega⟩).2.2
  have e : k - 1 + 1 = k := by omega
  simpa [e] using this

theorem parseInt64_natDigits (n : Nat) (h : n ≤ 9223372036854775807) :
    parseInt64 (natDigits n) = some (n : Int) := by
  obtain ⟨k, ds, hk, e, hpos, hzero⟩ := natDigits_cons n
  have hall := natDigits_allDig n
  have hval := natDigits_val n
  rw [e] at hall hval
  have hne : dig k ≠ 45 := (dig_facts ⟨k, hk⟩).2.2.2.2.2
  have hdig := all_isDigit_of_allDig hall
  have hlead : ((dig k :: ds).length > 1 && (dig k :: ds).head? == some 48) = false := by
    rcases Nat.eq_zero_or_pos n with h0 | hp
    · simp [hzero h0]
    · have := dig_ne_48 hk (hpos hp)
      simp [this]
  have hp : parseDigits false (dig k :: ds) = some (n : Int) := by
    unfold parseDigits
    simp only [hdig, hlead, hval]
    simp [h]
  rw [e]
  unfold parseInt64
  split
  · rename_i heq
    simp only [List.cons.injEq] at heq
    exact absurd heq.1 hne
  · exact hp

theorem parseInt64_neg_natDigits {n : Nat} (hpos : 0 < n) (h : n ≤ 9223372036854775808) :
    parseInt64 (45 :: natDigits n) = some (-(n : Int)) := by
  obtain ⟨k, ds, hk, e, hp, _⟩ := natDigits_cons n
  have hall := natDigits_allDig n
  have hval := natDigits_val n
  rw [e] at hall hval
  have hdig := all_isDigit_of_allDig hall
  have hlead : ((dig k :: ds).length > 1 && (dig k :: ds).head? == some 48) = false := by
    have := dig_ne_48 hk (hp hpos)
    simp [this]
  rw [e]
  unfold parseInt64 parseDigits
  simp only [hdig, hlead, hval]
  simp [h]

theorem parseInt64_intDigits (h : Int) (lo : -9223372036854775808 ≤ h) (hi : h ≤ 9223372036854775807) :
    parseInt64 (intDigits h) = some h := by
  unfold intDigits
  split
  · rename_i hneg
    rw [parseInt64_neg_natDigits (by omega) (by omega)]
    congr 1; omega
  · rename_i hnn
    rw [parseInt64_natDigits _ (by omega)]
    congr 1; omega

theorem checkValid_intDigits (h : Int) : checkValid (intDigits h) = true := by
  unfold intDigits
  split
  · exact checkValid_neg_natDigits (by omega)
  · exact checkValid_natDigits _

/-- the characters of `intDigits` are '-' and digits -/
theorem intDigits_mem (h : Int) : ∀ d ∈ intDigits h, d = 45 ∨ ∃ k, k < 10 ∧ d = dig k := by
  unfold intDigits
  split
  · intro d hd
    rcases List.mem_cons.mp hd with rfl | hd
    · exact Or.inl rfl
    · exact Or.inr (natDigits_allDig _ d hd)
  · intro d hd; exact Or.inr (natDigits_allDig _ d hd)

/-- digits and '-' are ordinary string characters and not white space -/
theorem intDigits_chars (h : Int) : ∀ d ∈ intDigits h, StrChar d ∧ isSpace d = false := by
  intro d hd
  rcases intDigits_mem h d hd with rfl | ⟨k, hk, rfl⟩
  · exact ⟨strChar_minus, by decide⟩
  · exact ⟨strChar_dig hk, (dig_facts ⟨k, hk⟩).2.2.2.2.1⟩

theorem intDigits_ne_nil (h : Int) : intDigits h ≠ [] := by
  unfold intDigits
  split
  · simp
  · obtain ⟨k, ds, _, e, _, _⟩ := natDigits_cons h.natAbs
    simp [e]

theorem dropWhile_none {p : UInt8 → Bool} {bs : Bytes} (h : ∀ c ∈ bs, p c = false) :
    bs.dropWhile p = bs := by
  cases bs with
  | nil => rfl
  | cons a l => simp [List.dropWhile, h a (List.mem_cons_self)]

theorem trimSpace_noSpace {bs : Bytes} (h : ∀ c ∈ bs, isSpace c = false) : trimSpace bs = bs := by
  unfold trimSpace
  rw [dropWhile_none h, dropWhile_none (by intro c hc; exact h c (List.mem_reverse.mp hc))]
  simp

theorem intDigits_ne_null (h : Int) : (intDigits h == [110, 117, 108, 108]) = false := by
  have : intDigits h ≠ [110, 117, 108, 108] := by
    intro e
    rcases intDigits_mem h 110 (by rw [e]; simp) with h1 | ⟨k, hk, h1⟩
    · exact absurd h1 (by decide)
    · have := (dig_facts ⟨k, hk⟩).2.1
      rw [← h1] at this
      have h2 : (110 : UInt8).toNat = 110 := by decide
      omega
  simpa using this

theorem decodeHeight_quoted (h : Int) (lo : -9223372036854775808 ≤ h) (hi : h ≤ 9223372036854775807) :
    decodeHeight (34 :: (intDigits h ++ [34])) = some h := by
  have hne := intDigits_ne_nil h
  unfold decodeHeight
  have h1 : ((34 : UInt8) :: (intDigits h ++ [34]) == [110, 117, 108, 108]) = false := by
    simp
  simp only [h1, Bool.false_eq_true, if_false]
  have h2 : ((34 : UInt8) :: (intDigits h ++ [34])).getLast? = some 34 := by
    rw [← List.cons_append, List.getLast?_append]; simp
  have h3 : (((34 : UInt8) :: (intDigits h ++ [34])).drop 1).dropLast = intDigits h := by simp
  have h4 : ¬ ((34 : UInt8) :: (intDigits h ++ [34])).length < 2 := by simp
  simp only [h2, h3, h4, checkValid_intDigits,
    trimSpace_noSpace (fun c hc => ((intDigits_chars h) c hc).2), intDigits_ne_null,
    parseInt64_intDigits h lo hi]
  simp

/-! #### assembly: `parseMeta` on what `WriteMeta` writes -/

/-- the JSON text of a meta line: `{"h":"<h>"}` -/
def metaJSON (h : Int) : Bytes := [123, 34, 104, 34, 58, 34] ++ intDigits h ++ [34, 125]

theorem encodeMeta_eq (h : Int) : encodeMeta h = 35 :: metaJSON h ++ [10] := by
  simp [encodeMeta, metaJSON]

theorem readValue_key (t : Bytes) : readValue (34 :: 104 :: 34 :: 58 :: t) = .complete 3 := by
  rfl

theorem skipSpace_cons_ns {c : UInt8} (t : Bytes) (h : isSpace c = false) : skipSpace (c :: t) = c :: t := by
  simp [skipSpace, List.dropWhile, h]

theorem take_quoted (D : Bytes) : ((34 : UInt8) :: (D ++ [34, 125])).take (D.length + 2) = 34 :: (D ++ [34]) := by
  have : D ++ [34, 125] = (D ++ [34]) ++ [(125 : UInt8)] := by simp
  rw [this, ← List.cons_append]
  rw [List.take_append_of_le_length (by simp)]
  rw [List.take_of_length_le (by simp)]

theorem objLoop_meta (D : Bytes) (hval : readValue (34 :: (D ++ [34, 125])) = .complete (D.length + 2)) (n : Nat) :
    objLoop (n + 2) .objStart [] (34 :: 104 :: 34 :: 58 :: 34 :: (D ++ [34, 125]))
      = .ok [([104], 34 :: (D ++ [34]))] := by
  have hs34 : isSpace 34 = false := by decide
  have hs58 : isSpace 58 = false := by decide
  have hs125 : isSpace 125 = false := by decide
  have hk : unquote ((List.take 3 (34 :: 104 :: 34 :: 58 :: 34 :: (D ++ [34, 125]))).drop 1).dropLast = [104] := by
    rfl
  rw [objLoop]
  rw [skipSpace_cons_ns _ hs34]
  simp only [readValue_key, hk]
  simp only [List.drop_succ_cons, List.drop_zero, skipSpace_cons_ns _ hs58, hval, take_quoted,
    skipSpace_cons_ns _ hs34]
  have hd : List.drop (List.length D + 1) (D ++ [(34 : UInt8), 125]) = [125] := by
    have : D ++ [34, 125] = (D ++ [34]) ++ [(125 : UInt8)] := by simp
    rw [this, List.drop_append_of_le_length (by simp), List.drop_of_length_le (by simp)]
    simp
  have c1 : (TokSt.objStart != TokSt.objKey && (34 : UInt8) == 125) = false := by decide
  have c2 : (TokSt.objStart == TokSt.objComma && (34 : UInt8) == 44) = false := by decide
  have c3 : ((34 : UInt8) == 34 && (TokSt.objStart == TokSt.objStart || TokSt.objStart == TokSt.objKey)) = true := by decide
  have c4 : ((58 : UInt8) != 58) = false := by decide
  simp only [c1, c2, c3, c4, hd, List.any_nil, Bool.false_eq_true, if_false, if_true, List.nil_append]
  rw [objLoop]
  rw [skipSpace_cons_ns _ hs125]
  have c5 : (TokSt.objComma != TokSt.objKey && (125 : UInt8) == 125) = true := by decide
  simp only [c5, if_true]

theorem parseMeta_metaJSON (h : Int) (lo : -9223372036854775808 ≤ h) (hi : h ≤ 9223372036854775807) :
    parseMeta (metaJSON h) = .ok h := by
  have hchars : ∀ d ∈ intDigits h, StrChar d := fun d hd => (intDigits_chars h d hd).1
  have hval : readValue (34 :: (intDigits h ++ 34 :: 125 :: [])) = .complete ((intDigits h).length + 2) :=
    readValue_quoted (intDigits h) hchars 125 []
  unfold parseMeta metaJSON
  simp only [List.cons_append, List.nil_append, List.isEmpty_cons, Bool.false_eq_true, if_false]
  have hnull : ((123 : UInt8) :: 34 :: 104 :: 34 :: 58 :: 34 :: (intDigits h ++ [34, 125]) == [110, 117, 108, 108]) = false := by
    simp
  have hs123 : isSpace 123 = false := by decide
  have c1 : ((123 : UInt8) != 123) = false := by decide
  simp only [hnull, Bool.false_eq_true, if_false, skipSpace_cons_ns _ hs123, c1]
  rw [objLoop_meta (intDigits h) hval]
  simp only [List.find?_cons, List.all_cons, List.all_nil]
  have c2 : (([104] : Bytes) == [104]) = true := by decide
  simp only [c2, decodeHeight_quoted h lo hi, Bool.and_true, if_true]

end GnoVerif.C38
