import GnoVerif.Proofs.C20Fields
/-! Descriptor facts for the list part of the proved fragment (C20). -/
namespace GnoVerif.C20

theorem repr_list (env : Env) (ptr ne : Bool) (e : TD) : repr env (.list ptr ne e) = .list ptr ne e := rfl

theorem isUnpackedList_list (env : Env) (ptr ne : Bool) (e : TD) :
    isUnpackedList env (.list ptr ne e) = (typ3 env e == .blen) := rfl

theorem typ3_list (env : Env) (ptr ne : Bool) (e : TD) : typ3 env (.list ptr ne e) = .blen := rfl

theorem packedElem_facts {env : Env} {e : TD} (h : isPackedElem e = true) :
    isPrimTD e = true ∧ (typ3 env e != .blen) = true ∧ isByteElem env e = false := by
  cases e <;> simp [isPackedElem] at h
  case uvar b =>
    refine ⟨rfl, rfl, ?_⟩
    simp [isByteElem, repr, reprOf, h]
  all_goals exact ⟨rfl, rfl, rfl⟩

theorem blElem_facts {env : Env} {e : TD} (h : isBLElemPrim e = true) :
    isPrimTD e = true ∧ typ3 env e = .blen ∧ isByteElem env e = false ∧ writeImplicit env e = false ∧
      isStructKind env e = false := by
  cases e <;> simp [isBLElemPrim] at h <;> exact ⟨rfl, rfl, rfl, rfl, rfl⟩

theorem refElem_facts {env : Env} {name : Bytes} (h : aliasOf env name = none) :
    typ3 env (.ref name) = .blen ∧ isByteElem env (.ref name) = false ∧ writeImplicit env (.ref name) = false := by
  refine ⟨typ3_ref h, ?_, ?_⟩
  · simp [isByteElem, repr_ref h]
  · simp [writeImplicit, repr_ref h]

theorem ifaceElem_facts (env : Env) (id : Bytes) :
    typ3 env (.iface id) = .blen ∧ isByteElem env (.iface id) = false ∧ writeImplicit env (.iface id) = false ∧
      isStructKind env (.iface id) = false ∧ isUnpackedList env (.iface id) = false := by
  exact ⟨rfl, rfl, rfl, rfl, rfl⟩

/-- the first byte of a varint is 0 only for the value 0. -/
theorem encUvarint_head_zero {n : Nat} {rest : Bytes} (h : encUvarint n = 0 :: rest) : n = 0 := by
  by_cases hlt : n < 128
  · rw [encUvarint_small hlt] at h
    simp only [List.cons.injEq] at h
    have := congrArg UInt8.toNat h.1
    rw [u8_toNat_ofNat_lt (by omega)] at this
    simpa using this
  · rw [encUvarint_big hlt] at h
    simp only [List.cons.injEq] at h
    have := congrArg UInt8.toNat h.1
    rw [u8_toNat_ofNat_lt (by omega)] at this
    simp at this

/-- a length-prefixed byte string starts with 0x00 only if it is empty (`[0x00]`). -/
theorem encBytes_head_zero {bs rest : Bytes} (h : encBytes bs = 0 :: rest) : bs = [] := by
  unfold encBytes at h
  have hne := encUvarint_ne_nil bs.length
  cases hu : encUvarint bs.length with
  | nil => exact absurd hu hne
  | cons b t =>
    rw [hu] at h
    simp only [List.cons_append, List.cons.injEq] at h
    rw [h.1] at hu
    have := encUvarint_head_zero hu
    exact List.eq_nil_of_length_eq_zero this

theorem encBytes_nil : encBytes [] = [0] := by
  simp [encBytes, encUvarint_small]

end GnoVerif.C20
