import GnoVerif.Model.C14
/-! Helper lemmas for C14: `std.Coins` arithmetic (validate, AddUnsafe, IsEqual). -/
namespace GnoVerif.C14
set_option linter.unusedSimpArgs false
set_option linter.unusedVariables false

@[simp] theorem sumOf_nil (d : Denom) : sumOf [] d = 0 := rfl
@[simp] theorem sumOf_cons (c : Coin) (cs : Coins) (d : Denom) :
    sumOf (c :: cs) d = (if c.denom = d then c.amount else 0) + sumOf cs d := by
  simp [sumOf]

theorem sumOf_append (a b : Coins) (d : Denom) : sumOf (a ++ b) d = sumOf a d + sumOf b d := by
  induction a with
  | nil => simp
  | cons c a ih => simp [ih]; omega

theorem sumOf_filter_split (p : Coin → Bool) (cs : Coins) (d : Denom) :
    sumOf cs d = sumOf (cs.filter p) d + sumOf (cs.filter (fun c => !p c)) d := by
  induction cs with
  | nil => simp
  | cons c cs ih =>
    by_cases hp : p c <;> simp [List.filter_cons, hp, ih] <;> omega

theorem sumOf_eq_zero (cs : Coins) (d : Denom) (h : ∀ c ∈ cs, c.denom ≠ d) : sumOf cs d = 0 := by
  induction cs with
  | nil => simp
  | cons c cs ih =>
    have h1 : c.denom ≠ d := h c (by simp)
    have h2 := ih (fun x hx => h x (List.mem_cons_of_mem _ hx))
    simp [h1, h2]

theorem sumOf_filter_tier_false (tier : Denom → Bool) (cs : Coins) (d : Denom) (h : tier d = false) :
    sumOf (cs.filter (fun c => tier c.denom)) d = 0 := by
  apply sumOf_eq_zero
  intro c hc hd
  simp at hc
  rw [hd] at hc
  simp [h] at hc

theorem sumOf_filter_tier_true (tier : Denom → Bool) (cs : Coins) (d : Denom) (h : tier d = true) :
    sumOf (cs.filter (fun c => !tier c.denom)) d = 0 := by
  apply sumOf_eq_zero
  intro c hc hd
  simp at hc
  rw [hd] at hc
  simp [h] at hc

theorem sumOf_removeZero (cs : Coins) (d : Denom) : sumOf (removeZero cs) d = sumOf cs d := by
  induction cs with
  | nil => rfl
  | cons c cs ih =>
    by_cases h0 : c.amount = 0
    · simp [removeZero, List.filter_cons, h0] at ih ⊢; exact ih
    · simp [removeZero, List.filter_cons, h0] at ih ⊢; omega

theorem sumOf_negative (cs : Coins) (d : Denom) : sumOf (negative cs) d = - sumOf cs d := by
  induction cs with
  | nil => rfl
  | cons c cs ih =>
    simp [negative] at ih ⊢
    rw [ih]
    split <;> omega

/-- AddUnsafe adds, per denom, whatever the operands hold — for ANY operands. -/
theorem sumOf_addUnsafe (a b r : Coins) (h : addUnsafe a b = .ok r) (d : Denom) :
    sumOf r d = sumOf a d + sumOf b d := by
  fun_induction addUnsafe a b generalizing r with
  | case1 b =>
    simp at h; subst h; simp [sumOf_removeZero]
  | case2 a ra =>
    simp at h; subst h; rw [sumOf_removeZero]; simp
  | case3 a ra b rb hlt f herr =>
    simp [herr] at h
  | case4 a ra b rb hlt rest hrest ih =>
    simp [hrest] at h
    have := ih rest hrest
    subst h
    by_cases h0 : a.amount = 0
    · simp [h0] at this ⊢; omega
    · simp [h0] at this ⊢; omega
  | case5 a ra b rb hlt heq hin f herr =>
    simp [herr] at h
  | case6 a ra b rb hlt heq hin rest hrest ih =>
    simp [hrest] at h
    have := ih rest hrest
    subst h
    by_cases h0 : a.amount + b.amount = 0
    · simp [h0, heq] at this ⊢
      by_cases hd : b.denom = d <;> simp [hd] at this ⊢ <;> omega
    · simp [h0, heq] at this ⊢
      by_cases hd : b.denom = d <;> simp [hd] at this ⊢ <;> omega
  | case7 a ra b rb hlt heq hin =>
    simp at h
  | case8 a ra b rb hlt heq f herr =>
    simp [herr] at h
  | case9 a ra b rb hlt heq rest hrest ih =>
    simp [hrest] at h
    have := ih rest hrest
    subst h
    by_cases h0 : b.amount = 0
    · simp [h0] at this ⊢; omega
    · simp [h0] at this ⊢; omega


theorem mem_removeZero (cs : Coins) (c : Coin) (h : c ∈ removeZero cs) : c ∈ cs ∧ c.amount ≠ 0 := by
  simpa [removeZero] using h

/-- every coin AddUnsafe emits carries a denom of one of the operands and is non-zero. -/
theorem mem_addUnsafe (a b r : Coins) (h : addUnsafe a b = .ok r) (c : Coin) (hc : c ∈ r) :
    ((∃ x ∈ a, x.denom = c.denom) ∨ (∃ y ∈ b, y.denom = c.denom)) ∧ c.amount ≠ 0 := by
  fun_induction addUnsafe a b generalizing r with
  | case1 b =>
    simp at h; subst h
    have := mem_removeZero _ _ hc
    exact ⟨Or.inr ⟨c, this.1, rfl⟩, this.2⟩
  | case2 a ra =>
    simp at h; subst h
    have := mem_removeZero _ _ hc
    exact ⟨Or.inl ⟨c, this.1, rfl⟩, this.2⟩
  | case3 a ra b rb hlt f herr => simp [herr] at h
  | case4 a ra b rb hlt rest hrest ih =>
    simp [hrest] at h
    subst h
    by_cases h0 : a.amount = 0
    · simp [h0] at hc
      have := ih rest hrest hc
      refine ⟨?_, this.2⟩
      rcases this.1 with ⟨x, hx, hd⟩ | ⟨y, hy, hd⟩
      · exact Or.inl ⟨x, List.mem_cons_of_mem _ hx, hd⟩
      · exact Or.inr ⟨y, hy, hd⟩
    · simp [h0] at hc
      rcases hc with hc | hc
      · subst hc; exact ⟨Or.inl ⟨c, by simp, rfl⟩, h0⟩
      · have := ih rest hrest hc
        refine ⟨?_, this.2⟩
        rcases this.1 with ⟨x, hx, hd⟩ | ⟨y, hy, hd⟩
        · exact Or.inl ⟨x, List.mem_cons_of_mem _ hx, hd⟩
        · exact Or.inr ⟨y, hy, hd⟩
  | case5 a ra b rb hlt heq hin f herr => simp [herr] at h
  | case6 a ra b rb hlt heq hin rest hrest ih =>
    simp [hrest] at h
    subst h
    by_cases h0 : a.amount + b.amount = 0
    · simp [h0] at hc
      have := ih rest hrest hc
      refine ⟨?_, this.2⟩
      rcases this.1 with ⟨x, hx, hd⟩ | ⟨y, hy, hd⟩
      · exact Or.inl ⟨x, List.mem_cons_of_mem _ hx, hd⟩
      · exact Or.inr ⟨y, List.mem_cons_of_mem _ hy, hd⟩
    · simp [h0] at hc
      rcases hc with hc | hc
      · subst hc; exact ⟨Or.inl ⟨a, by simp, rfl⟩, h0⟩
      · have := ih rest hrest hc
        refine ⟨?_, this.2⟩
        rcases this.1 with ⟨x, hx, hd⟩ | ⟨y, hy, hd⟩
        · exact Or.inl ⟨x, List.mem_cons_of_mem _ hx, hd⟩
        · exact Or.inr ⟨y, List.mem_cons_of_mem _ hy, hd⟩
  | case7 a ra b rb hlt heq hin => simp at h
  | case8 a ra b rb hlt heq f herr => simp [herr] at h
  | case9 a ra b rb hlt heq rest hrest ih =>
    simp [hrest] at h
    subst h
    by_cases h0 : b.amount = 0
    · simp [h0] at hc
      have := ih rest hrest hc
      refine ⟨?_, this.2⟩
      rcases this.1 with ⟨x, hx, hd⟩ | ⟨y, hy, hd⟩
      · exact Or.inl ⟨x, hx, hd⟩
      · exact Or.inr ⟨y, List.mem_cons_of_mem _ hy, hd⟩
    · simp [h0] at hc
      rcases hc with hc | hc
      · subst hc; exact ⟨Or.inr ⟨c, by simp, rfl⟩, h0⟩
      · have := ih rest hrest hc
        refine ⟨?_, this.2⟩
        rcases this.1 with ⟨x, hx, hd⟩ | ⟨y, hy, hd⟩
        · exact Or.inl ⟨x, hx, hd⟩
        · exact Or.inr ⟨y, List.mem_cons_of_mem _ hy, hd⟩

/-! validity -/

theorem validFrom_mem (low : Denom) (cs : Coins) (h : validFrom low cs = true) :
    ∀ c ∈ cs, validDenom c.denom = true ∧ 0 < c.amount ∧ low < c.denom := by
  induction cs generalizing low with
  | nil => simp
  | cons c cs ih =>
    simp [validFrom] at h
    intro x hx
    rcases List.mem_cons.1 hx with hx | hx
    · subst hx; exact ⟨h.1.1.1, h.1.2, h.1.1.2⟩
    · have := ih c.denom h.2 x hx
      exact ⟨this.1, this.2.1, String.lt_trans h.1.1.2 this.2.2⟩

theorem coinsValid_mem (cs : Coins) (h : coinsValid cs = true) :
    ∀ c ∈ cs, validDenom c.denom = true ∧ 0 < c.amount := by
  cases cs with
  | nil => simp
  | cons c cs =>
    simp [coinsValid] at h
    intro x hx
    rcases List.mem_cons.1 hx with hx | hx
    · subst hx; exact ⟨h.1.1, h.1.2⟩
    · have := validFrom_mem c.denom cs h.2 x hx
      exact ⟨this.1, this.2.1⟩

theorem validFrom_nodup (low : Denom) (cs : Coins) (h : validFrom low cs = true) :
    (cs.map (·.denom)).Nodup := by
  induction cs generalizing low with
  | nil => simp
  | cons c cs ih =>
    simp [validFrom] at h
    simp only [List.map_cons, List.nodup_cons]
    refine ⟨?_, ih c.denom h.2⟩
    intro hm
    simp at hm
    obtain ⟨x, hx, hd⟩ := hm
    have := (validFrom_mem c.denom cs h.2 x hx).2.2
    rw [hd] at this
    exact String.lt_irrefl _ this

theorem coinsValid_nodup (cs : Coins) (h : coinsValid cs = true) : (cs.map (·.denom)).Nodup := by
  cases cs with
  | nil => simp
  | cons c cs =>
    simp [coinsValid] at h
    simp only [List.map_cons, List.nodup_cons]
    refine ⟨?_, validFrom_nodup c.denom cs h.2⟩
    intro hm
    simp at hm
    obtain ⟨x, hx, hd⟩ := hm
    have := (validFrom_mem c.denom cs h.2 x hx).2.2
    rw [hd] at this
    exact String.lt_irrefl _ this

theorem validFrom_weaken (low low' : Denom) (cs : Coins) (hl : low' < low ∨ low' = low)
    (h : validFrom low cs = true) : validFrom low' cs = true := by
  cases cs with
  | nil => simp [validFrom]
  | cons c cs =>
    simp [validFrom] at h ⊢
    refine ⟨⟨⟨h.1.1.1, ?_⟩, h.1.2⟩, h.2⟩
    rcases hl with hl | hl
    · exact String.lt_trans hl h.1.1.2
    · rw [hl]; exact h.1.1.2

theorem validFrom_filter (p : Coin → Bool) (low : Denom) (cs : Coins) (h : validFrom low cs = true) :
    validFrom low (cs.filter p) = true := by
  induction cs generalizing low with
  | nil => simp [validFrom]
  | cons c cs ih =>
    simp [validFrom] at h
    by_cases hp : p c
    · simp [List.filter_cons, hp, validFrom, h.1, ih c.denom h.2]
    · simp [List.filter_cons, hp]
      exact validFrom_weaken c.denom low _ (Or.inl h.1.1.2) (ih c.denom h.2)

theorem coinsValid_of_validFrom (low : Denom) (cs : Coins) (h : validFrom low cs = true) :
    coinsValid cs = true := by
  cases cs with
  | nil => rfl
  | cons c cs => simp [validFrom] at h; simp [coinsValid, h.1.1.1, h.1.2, h.2]

theorem coinsValid_filter (p : Coin → Bool) (cs : Coins) (h : coinsValid cs = true) :
    coinsValid (cs.filter p) = true := by
  cases cs with
  | nil => rfl
  | cons c cs =>
    simp [coinsValid] at h
    by_cases hp : p c
    · simp [List.filter_cons, hp, coinsValid, h.1, validFrom_filter p c.denom cs h.2]
    · simp [List.filter_cons, hp]
      exact coinsValid_of_validFrom c.denom _ (validFrom_filter p c.denom cs h.2)

theorem removeZero_of_valid (cs : Coins) (h : coinsValid cs = true) : removeZero cs = cs := by
  have := coinsValid_mem cs h
  simp only [removeZero]
  apply List.filter_eq_self.2
  intro c hc
  have := (this c hc).2
  simp; omega

theorem sumOf_nonneg (cs : Coins) (h : ∀ c ∈ cs, 0 < c.amount) (d : Denom) : 0 ≤ sumOf cs d := by
  induction cs with
  | nil => simp
  | cons c cs ih =>
    have h1 := h c (by simp)
    have h2 := ih (fun x hx => h x (List.mem_cons_of_mem _ hx))
    simp; split <;> omega

theorem sumOf_pos_of_mem (cs : Coins) (h : ∀ c ∈ cs, 0 < c.amount) (c : Coin) (hc : c ∈ cs) :
    0 < sumOf cs c.denom := by
  induction cs with
  | nil => simp at hc
  | cons x cs ih =>
    have h1 := h x (by simp)
    have h2 := sumOf_nonneg cs (fun y hy => h y (List.mem_cons_of_mem _ hy)) c.denom
    rcases List.mem_cons.1 hc with hc | hc
    · subst hc; simp; omega
    · have := ih (fun y hy => h y (List.mem_cons_of_mem _ hy)) hc
      simp; split <;> omega

/-- on a set without repeated denoms, `sumOf` is the amount of the one entry. -/
theorem sumOf_of_mem_nodup (cs : Coins) (hn : (cs.map (·.denom)).Nodup) (c : Coin) (hc : c ∈ cs) :
    sumOf cs c.denom = c.amount := by
  induction cs with
  | nil => simp at hc
  | cons x cs ih =>
    simp only [List.map_cons, List.nodup_cons] at hn
    rcases List.mem_cons.1 hc with hc | hc
    · subst hc
      have : sumOf cs c.denom = 0 := by
        apply sumOf_eq_zero
        intro y hy hd
        exact hn.1 (by simpa using ⟨y, hy, hd⟩)
      simp [this]
    · have hx : x.denom ≠ c.denom := by
        intro hd
        exact hn.1 (by simpa using ⟨c, hc, hd.symm⟩)
      simp [hx, ih hn.2 hc]

theorem amountOf_eq_sumOf (cs : Coins) (hn : (cs.map (·.denom)).Nodup) (d : Denom) :
    amountOf cs d = sumOf cs d := by
  induction cs with
  | nil => simp [amountOf]
  | cons x cs ih =>
    simp only [List.map_cons, List.nodup_cons] at hn
    by_cases hd : x.denom = d
    · have : sumOf cs d = 0 := by
        apply sumOf_eq_zero
        intro y hy hyd
        exact hn.1 (by simpa using ⟨y, hy, hyd.trans hd.symm⟩)
      simp [amountOf, List.find?_cons, hd, this]
    · have := ih hn.2
      simp [amountOf, List.find?_cons, hd] at this ⊢
      exact this

/-! IsEqual -/

theorem isEqualAux_true (a b : Coins) (hl : a.length = b.length) (h : isEqualAux a b = .ok true) : a = b := by
  induction a generalizing b with
  | nil => cases b with
    | nil => rfl
    | cons y b => simp at hl
  | cons x a ih =>
    cases b with
    | nil => simp at hl
    | cons y b =>
      simp [isEqualAux] at h
      by_cases hd : x.denom = y.denom
      · simp [hd] at h
        by_cases ha : x.amount = y.amount
        · simp [ha] at h
          have := ih b (by simpa using hl) h
          subst this
          cases x; cases y; simp_all
        · simp [ha] at h
      · simp [hd] at h

theorem coinsIsEqual_true (a b : Coins) (h : coinsIsEqual a b = .ok true) : a = b := by
  unfold coinsIsEqual at h
  by_cases hl : a.length = b.length
  · simp [hl] at h; exact isEqualAux_true a b hl h
  · simp [hl] at h

/-! ValidateInputsOutputs -/

/-- Σ over one side of a multi-send. -/
def sideSum (side : List (Addr × Coins)) (d : Denom) : Int := (side.map (fun e => sumOf e.2 d)).sum

@[simp] theorem sideSum_nil (d : Denom) : sideSum [] d = 0 := rfl
@[simp] theorem sideSum_cons (e : Addr × Coins) (side : List (Addr × Coins)) (d : Denom) :
    sideSum (e :: side) d = sumOf e.2 d + sideSum side d := by simp [sideSum]

theorem coinsAdd_ok (a b r : Coins) (h : coinsAdd a b = .ok r) :
    addUnsafe a b = .ok r ∧ coinsValid r = true := by
  unfold coinsAdd at h
  split at h
  · simp at h
  · rename_i r' hr
    split at h
    · simp at h; subst h; exact ⟨hr, by assumption⟩
    · simp at h

theorem validateSide_ok (side : List (Addr × Coins)) (tot r : Coins) (h : validateSide side tot = .ok r) :
    (∀ e ∈ side, coinsValid e.2 = true) ∧ ∀ d, sumOf r d = sumOf tot d + sideSum side d := by
  induction side generalizing tot with
  | nil => simp [validateSide] at h; subst h; simp
  | cons e side ih =>
    obtain ⟨a, cs⟩ := e
    unfold validateSide at h
    split at h
    · simp at h
    · rename_i hv
      split at h
      · simp at h
      · rename_i tot' htot
        have hv' : coinsValid cs = true := by
          simp at hv; exact hv.1
        have := ih tot' h
        have hs := sumOf_addUnsafe _ _ _ (coinsAdd_ok _ _ _ htot).1
        refine ⟨?_, ?_⟩
        · intro e he
          rcases List.mem_cons.1 he with he | he
          · subst he; exact hv'
          · exact this.1 e he
        · intro d
          rw [this.2 d, hs d]; simp; omega

theorem validateIO_ok (ins outs : List (Addr × Coins)) (h : validateIO ins outs = .ok ()) :
    (∀ e ∈ ins, coinsValid e.2 = true) ∧ (∀ e ∈ outs, coinsValid e.2 = true) ∧
    ∀ d, sideSum ins d = sideSum outs d := by
  unfold validateIO at h
  split at h
  · simp at h
  · rename_i ti hti
    split at h
    · simp at h
    · rename_i to hto
      split at h
      · simp at h
      · rename_i heq
        have := coinsIsEqual_true _ _ heq
        subst this
        have h1 := validateSide_ok _ _ _ hti
        have h2 := validateSide_ok _ _ _ hto
        refine ⟨h1.1, h2.1, ?_⟩
        intro d
        have a := h1.2 d
        have b := h2.2 d
        simp at a b
        omega
      · simp at h

end GnoVerif.C14
