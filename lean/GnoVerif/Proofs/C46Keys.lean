import GnoVerif.Proofs.C46Armor
import GnoVerif.Model.C46Keys
/-! Proofs.C46Keys — armor.go over abstract primitives: round trip, what a successful decryption
implies (wrong passphrase / tampering), the bcrypt key-stream equivalence. -/
namespace GnoVerif.C46

/-! ### hex -/

theorem hexVal_upper : ∀ n : Fin 16, hexVal (hexUpperDigit n.val) = some n.val := by decide

theorem hexUpperDigit_plain : ∀ n : Fin 16,
    (isSpace (hexUpperDigit n.val) = false ∧ (hexUpperDigit n.val == 10) = false) := by decide

theorem hexDecode_upper (s : Bytes) : hexDecode (hexUpper s) = some s := by
  induction s with
  | nil => rfl
  | cons b r ih =>
    have hb := UInt8.toNat_lt b
    have h1 := hexVal_upper ⟨b.toNat / 16, by omega⟩
    have h2 := hexVal_upper ⟨b.toNat % 16, by omega⟩
    simp only at h1 h2
    simp only [hexUpper, hexDecode, h1, h2, ih]
    have : b.toNat / 16 * 16 + b.toNat % 16 = b.toNat := by omega
    rw [this, ofNat_toNat8]

theorem hexUpper_length (s : Bytes) : (hexUpper s).length = 2 * s.length := by
  induction s with
  | nil => rfl
  | cons b r ih => simp only [hexUpper, List.length_cons, ih]; omega

theorem hexUpper_chars (s : Bytes) : ∀ c ∈ hexUpper s, isSpace c = false ∧ (c == 10) = false := by
  induction s with
  | nil => simp [hexUpper]
  | cons b r ih =>
    have hb := UInt8.toNat_lt b
    intro c hc
    simp only [hexUpper, List.mem_cons] at hc
    rcases hc with rfl | rfl | hc
    · exact hexUpperDigit_plain ⟨b.toNat / 16, by omega⟩
    · exact hexUpperDigit_plain ⟨b.toNat % 16, by omega⟩
    · exact ih c hc

/-! ### the headers armor.go writes are read back -/

theorem hdrOK_kdf : HdrOK sKdf sBcrypt := by
  refine ⟨?_, ?_, ?_, ?_, ?_⟩ <;> decide

theorem hdrOK_salt (salt : Bytes) (hne : salt ≠ []) (hlen : salt.length ≤ 46) : HdrOK sSalt (hexUpper salt) := by
  have hch := hexUpper_chars salt
  have hl := hexUpper_length salt
  have hne' : hexUpper salt ≠ [] := by
    intro e; rw [e] at hl
    have : 0 < salt.length := List.length_pos_iff.mpr hne
    simp at hl; omega
  refine ⟨?_, ?_, ?_, ?_, ?_⟩
  · intro b hb
    simp only [hline, List.mem_append] at hb
    rcases hb with (hb | hb) | hb
    · revert b; decide
    · revert b; decide
    · exact (hch b hb).2
  · simp [hline, sSalt, hl]; omega
  · intro c hc
    simp [hline, sSalt] at hc
    subst hc; decide
  · intro c hc
    have : (hline (sSalt, hexUpper salt)).getLast? = (hexUpper salt).getLast? := by
      cases hx : (hexUpper salt).getLast? with
      | none => exact absurd (List.getLast?_eq_none_iff.mp hx) hne'
      | some x =>
        simp only [hline, List.getLast?_append, hx]
        rfl
    rw [this] at hc
    exact (hch c (List.mem_of_getLast? hc)).1
  · simp [hline, sSalt, indexColonSp]

theorem armorOK_plain : ArmorOK blockTypePrivKey [] := by
  refine ⟨by decide, by decide, by decide, by simp, by simp⟩

theorem armorOK_enc (salt : Bytes) (hne : salt ≠ []) (hlen : salt.length ≤ 46) (saltFirst : Bool) :
    ArmorOK blockTypePrivKey (if saltFirst then [(sSalt, hexUpper salt), (sKdf, sBcrypt)]
      else [(sKdf, sBcrypt), (sSalt, hexUpper salt)]) := by
  refine ⟨by decide, by decide, by decide, ?_, ?_⟩
  · intro kv hkv
    cases saltFirst <;> simp at hkv <;> rcases hkv with rfl | rfl <;>
      first | exact hdrOK_kdf | exact hdrOK_salt salt hne hlen
  · cases saltFirst <;> simp [sSalt, sKdf]

/-! ### laws of the abstract primitives -/

/-- what the round trip needs: opening what was sealed, the box overhead, a 32-byte KDF output -/
structure Crypto.Laws (C : Crypto) : Prop where
  open_seal : ∀ k n m, C.openBox k n (C.sealBox k n m) = some m
  seal_len : ∀ k n m, (C.sealBox k n m).length = m.length + boxOverhead
  kdf_len : ∀ s p, (C.kdfCore s p).length = secretLen

/-- IDEALISED authenticity (not a fact about XSalsa20-Poly1305, which only makes forgeries
    infeasible): among all (key, nonce, box) triples only the one box that was sealed opens -/
def Crypto.OnlyOpens (C : Crypto) (key nonce plain : Bytes) : Prop :=
  ∀ k n c m, C.openBox k n c = some m → k = key ∧ n = nonce ∧ c = C.sealBox key nonce plain ∧ m = plain

/-- collision-freeness of `sha256 ∘ bcrypt` on (salt, 72-byte key stream) -/
def Crypto.KdfInjective (C : Crypto) : Prop :=
  ∀ s st s' st', C.kdfCore s st = C.kdfCore s' st' → s = s' ∧ st = st'

theorem hdrGet_enc (salt : Bytes) (saltFirst : Bool) :
    let h := (if saltFirst then [(sSalt, hexUpper salt), (sKdf, sBcrypt)] else [(sKdf, sBcrypt), (sSalt, hexUpper salt)])
    hdrGet h sKdf = sBcrypt ∧ hdrGet h sSalt = hexUpper salt ∧ h.length = 2 := by
  cases saltFirst <;> simp [hdrGet, sKdf, sSalt, sBcrypt]

theorem decryptSymmetric_seal (C : Crypto) (L : C.Laws) (key nonce m : Bytes)
    (hk : key.length = secretLen) (hn : nonce.length = nonceLen) :
    decryptSymmetric C (nonce ++ C.sealBox key nonce m) key = .ok m := by
  unfold decryptSymmetric
  have hlen : ¬ (nonce ++ C.sealBox key nonce m).length < boxOverhead + nonceLen := by
    simp only [List.length_append, L.seal_len, hn]; omega
  simp only [hk, ne_eq, not_true_eq_false, if_false, hlen]
  rw [List.take_left' hn, List.drop_left' hn, L.open_seal]

/-- `UnarmorDecryptPrivKey(EncryptArmorPrivKey(key, pass), pass) = key` -/
theorem roundtrip (C : Crypto) (L : C.Laws) (keyBytes pass salt nonce : Bytes) (saltFirst : Bool)
    (hkey : C.keyFromBytes keyBytes = some keyBytes)
    (hsalt : salt.length = 16) (hnonce : nonce.length = nonceLen) :
    ∃ text, encryptArmorPrivKey C keyBytes pass salt nonce saltFirst = .ok text ∧
      unarmorDecryptPrivKey C text pass = .ok keyBytes := by
  unfold encryptArmorPrivKey
  by_cases hp : pass.isEmpty = true
  · refine ⟨armorPrivateKey keyBytes, by simp [hp], ?_⟩
    unfold unarmorDecryptPrivKey armorPrivateKey
    rw [decode_encode _ _ _ armorOK_plain]
    simp [hp, keyOf, hkey]
  · have hp' : pass.isEmpty = false := by simpa using hp
    have hklen := L.kdf_len salt (keyStream pass)
    have hsne : salt ≠ [] := by intro e; rw [e] at hsalt; simp at hsalt
    simp only [hp', Bool.false_eq_true, if_false, hsalt, ne_eq, not_true_eq_false, encryptSymmetric, Crypto.kdf, hklen]
    refine ⟨_, rfl, ?_⟩
    unfold unarmorDecryptPrivKey
    rw [decode_encode _ _ _ (armorOK_enc salt hsne (by omega) saltFirst)]
    obtain ⟨h1, h2, h3⟩ := hdrGet_enc salt saltFirst
    have hhne : (hexUpper salt).isEmpty = false := by
      have := hexUpper_length salt
      cases h : hexUpper salt with
      | nil => rw [h] at this; simp at this; omega
      | cons => rfl
    simp only [h1, h2, h3, hhne, hexDecode_upper, bne_self_eq_false, Bool.false_eq_true, if_false,
      Nat.reduceEqDiff, Bool.false_and]
    unfold decryptPrivKey
    simp only [hsalt, ne_eq, not_true_eq_false, if_false, Crypto.kdf]
    rw [decryptSymmetric_seal C L _ _ _ hklen hnonce]
    simp [keyOf, hkey]

/-- the key stream is all the passphrase contributes -/
theorem kdf_congr (C : Crypto) (salt p q : Bytes) (h : keyStream p = keyStream q) : C.kdf salt p = C.kdf salt q := by
  simp [Crypto.kdf, h]

/-- decryption only looks at the key stream of the passphrase — as long as the "unencrypted"
    shortcut (no headers, empty passphrase) is taken for both or for neither -/
theorem decrypt_congr (C : Crypto) (text p q : Bytes) (h : keyStream p = keyStream q)
    (he : p.isEmpty = q.isEmpty) :
    unarmorDecryptPrivKey C text p = unarmorDecryptPrivKey C text q := by
  unfold unarmorDecryptPrivKey decryptPrivKey
  simp only [kdf_congr C _ p q h, he]

/-- what a SUCCESSFUL decryption through the KDF path implies, under idealised authenticity and a
    collision-free KDF: the text carries the original salt and ciphertext, the passphrase has the
    original key stream, and the key is the original one -/
theorem success_implies_untampered (C : Crypto) (salt nonce plain pass : Bytes)
    (hauth : C.OnlyOpens (C.kdf salt pass) nonce plain) (hinj : C.KdfInjective)
    (text pass' k' ty' enc' : Bytes) (hdr' : List (Bytes × Bytes))
    (hdec : decodeArmor text = .ok (ty', hdr', enc'))
    (hpath : ¬ (hdr'.length = 0 ∧ pass'.isEmpty = true))
    (hok : unarmorDecryptPrivKey C text pass' = .ok k') :
    hexDecode (hdrGet hdr' sSalt) = some salt ∧ enc'.take nonceLen = nonce ∧
    enc'.drop nonceLen = C.sealBox (C.kdf salt pass) nonce plain ∧
    keyStream pass' = keyStream pass ∧ C.keyFromBytes plain = some k' := by
  unfold unarmorDecryptPrivKey at hok
  rw [hdec] at hok
  simp only at hok
  split at hok
  · cases hok
  · have hsc : (hdr'.length = 0 && pass'.isEmpty) = false := by
      cases h1 : decide (hdr'.length = 0) <;> cases h2 : pass'.isEmpty <;> simp_all
    rw [hsc] at hok
    simp only [Bool.false_eq_true, if_false] at hok
    split at hok
    · cases hok
    · split at hok
      · cases hok
      · cases hs : hexDecode (hdrGet hdr' sSalt) with
        | none => rw [hs] at hok; cases hok
        | some salt' =>
          rw [hs] at hok
          simp only at hok
          unfold decryptPrivKey at hok
          split at hok
          · cases hok
          · cases hd : decryptSymmetric C enc' (C.kdf salt' pass') with
            | error e => rw [hd] at hok; cases hok
            | ok pt =>
              rw [hd] at hok
              simp only at hok
              unfold decryptSymmetric at hd
              split at hd
              · cases hd
              · split at hd
                · cases hd
                · cases ho : C.openBox (C.kdf salt' pass') (enc'.take nonceLen) (enc'.drop nonceLen) with
                  | none => rw [ho] at hd; cases hd
                  | some pt' =>
                    rw [ho] at hd
                    injection hd with hd
                    subst hd
                    obtain ⟨hk, hn, hc, hm⟩ := hauth _ _ _ _ ho
                    obtain ⟨hsalt, hst⟩ := hinj _ _ _ _ hk
                    subst hm
                    refine ⟨by rw [hsalt], hn, hc, hst, ?_⟩
                    unfold keyOf at hok
                    cases hkb : C.keyFromBytes pt' with
                    | none => rw [hkb] at hok; cases hok
                    | some kk => rw [hkb] at hok; injection hok with hok; rw [hok]

/-- a forgery against the one sealed box: some OTHER (key, nonce, box) triple opens -/
def Crypto.Forgery (C : Crypto) (key nonce plain : Bytes) : Prop :=
  ∃ k n c m, C.openBox k n c = some m ∧ ¬ (k = key ∧ n = nonce ∧ c = C.sealBox key nonce plain)

/-- a collision of `sha256 ∘ bcrypt` on (salt, 72-byte key stream) -/
def Crypto.KdfCollision (C : Crypto) : Prop :=
  ∃ s st s' st', C.kdfCore s st = C.kdfCore s' st' ∧ ¬ (s = s' ∧ st = st')

/-- hypothesis-free form: a successful decryption through the KDF path either used the original
    salt, ciphertext and key stream, or exhibits a KDF collision, or exhibits a forgery -/
theorem success_cases (C : Crypto) (salt nonce plain pass : Bytes)
    (hopen1 : C.openBox (C.kdf salt pass) nonce (C.sealBox (C.kdf salt pass) nonce plain) = some plain)
    (text pass' k' ty' enc' : Bytes) (hdr' : List (Bytes × Bytes))
    (hdec : decodeArmor text = .ok (ty', hdr', enc'))
    (hpath : ¬ (hdr'.length = 0 ∧ pass'.isEmpty = true))
    (hok : unarmorDecryptPrivKey C text pass' = .ok k') :
    (hexDecode (hdrGet hdr' sSalt) = some salt ∧ enc'.take nonceLen = nonce ∧
      enc'.drop nonceLen = C.sealBox (C.kdf salt pass) nonce plain ∧
      keyStream pass' = keyStream pass ∧ C.keyFromBytes plain = some k')
    ∨ C.KdfCollision ∨ C.Forgery (C.kdf salt pass) nonce plain := by
  by_cases hf : C.Forgery (C.kdf salt pass) nonce plain
  · exact Or.inr (Or.inr hf)
  by_cases hc : C.KdfCollision
  · exact Or.inr (Or.inl hc)
  left
  have hauth : C.OnlyOpens (C.kdf salt pass) nonce plain := by
    intro k n c m ho
    have h3 : k = C.kdf salt pass ∧ n = nonce ∧ c = C.sealBox (C.kdf salt pass) nonce plain := by
      apply Classical.byContradiction
      intro hn
      exact hf ⟨k, n, c, m, ho, hn⟩
    obtain ⟨h1, h2, h3'⟩ := h3
    subst h1 h2 h3'
    rw [hopen1] at ho
    injection ho with ho
    exact ⟨rfl, rfl, rfl, ho.symm⟩
  have hinj : C.KdfInjective := by
    intro s st s' st' he
    apply Classical.byContradiction
    intro hn
    exact hc ⟨s, st, s', st', he, hn⟩
  exact success_implies_untampered C salt nonce plain pass hauth hinj text pass' k' ty' enc' hdr' hdec hpath hok

/-- an instance of the abstract primitives satisfying `Laws` (non-vacuity of every hypothesis used) -/
def toyCrypto : Crypto where
  kdfCore := fun _ _ => List.replicate 32 0
  sealBox := fun _ _ m => m ++ List.replicate 16 0
  openBox := fun _ _ c => some (c.take (c.length - 16))
  keyFromBytes := fun b => some b

theorem toyCrypto_laws : toyCrypto.Laws := by
  refine ⟨?_, ?_, ?_⟩
  · intro k n m
    simp [toyCrypto]
  · intro k n m
    simp [toyCrypto, boxOverhead]
  · intro s p
    simp [toyCrypto, secretLen]

/-- what `EncryptArmorPrivKey` produces for a non-empty passphrase -/
theorem encrypt_text (C : Crypto) (L : C.Laws) (keyBytes pass salt nonce : Bytes) (saltFirst : Bool)
    (hp : pass.isEmpty = false) (hsalt : salt.length = 16) :
    encryptArmorPrivKey C keyBytes pass salt nonce saltFirst =
      .ok (encodeArmor blockTypePrivKey
        (if saltFirst then [(sSalt, hexUpper salt), (sKdf, sBcrypt)] else [(sKdf, sBcrypt), (sSalt, hexUpper salt)])
        (nonce ++ C.sealBox (C.kdf salt pass) nonce keyBytes)) := by
  unfold encryptArmorPrivKey
  have hklen := L.kdf_len salt (keyStream pass)
  simp only [hp, Bool.false_eq_true, if_false, hsalt, ne_eq, not_true_eq_false, encryptSymmetric, Crypto.kdf, hklen]

theorem decode_encrypted (salt : Bytes) (hsalt : salt.length = 16) (saltFirst : Bool) (enc : Bytes) :
    decodeArmor (encodeArmor blockTypePrivKey
        (if saltFirst then [(sSalt, hexUpper salt), (sKdf, sBcrypt)] else [(sKdf, sBcrypt), (sSalt, hexUpper salt)]) enc) =
      .ok (blockTypePrivKey,
        (if saltFirst then [(sSalt, hexUpper salt), (sKdf, sBcrypt)] else [(sKdf, sBcrypt), (sSalt, hexUpper salt)]), enc) := by
  have hsne : salt ≠ [] := by intro e; rw [e] at hsalt; simp at hsalt
  exact decode_encode _ _ _ (armorOK_enc salt hsne (by omega) saltFirst)

/-! ### the passphrase findings -/

def a72 : Bytes := List.replicate 72 97
/-- "a"*72 ++ "XXXX" and "a"*72 ++ "YYYYYYY" -/
def passX : Bytes := a72 ++ [88, 88, 88, 88]
def passY : Bytes := a72 ++ [89, 89, 89, 89, 89, 89, 89]

theorem keyStream_trunc : keyStream passX = keyStream passY ∧ passX ≠ passY := by decide

/-- "a" and "a\x00a" -/
theorem keyStream_cyclic : keyStream [97] = keyStream [97, 0, 97] ∧ ([97] : Bytes) ≠ [97, 0, 97] := by decide

/-- only the first 72 bytes of `password ‖ 0` matter -/
theorem keyStream_prefix (p q : Bytes) (h : p.take 72 = q.take 72) (hp : 72 ≤ p.length) (hq : 72 ≤ q.length) :
    keyStream p = keyStream q := by
  unfold keyStream
  apply List.map_congr_left
  intro i hi
  have hi' : i < 72 := List.mem_range.mp hi
  simp only [List.length_append, List.length_singleton]
  rw [Nat.mod_eq_of_lt (by omega), Nat.mod_eq_of_lt (by omega)]
  have e1 : (p ++ [0]).getD i 0 = (p.take 72).getD i 0 := by
    simp only [List.getD_eq_getElem?_getD]
    rw [List.getElem?_append_left (by omega), List.getElem?_take_of_lt hi']
  have e2 : (q ++ [0]).getD i 0 = (q.take 72).getD i 0 := by
    simp only [List.getD_eq_getElem?_getD]
    rw [List.getElem?_append_left (by omega), List.getElem?_take_of_lt hi']
  rw [e1, e2, h]

end GnoVerif.C46
