/-
Proofs.C29Contract — helper lemmas about the reference machine (`Model.C29Spec`):
well-formedness (sorted maps) is preserved, batch staging never touches the
map, snapshots are never modified, and the facts about listings.
-/
import GnoVerif.Model.C29Spec

namespace GnoVerif.C29
open GnoVerif

/-- the map and every snapshot are strictly sorted. -/
def Ref.WF (r : Ref) : Prop := OMap.Sorted r.m ∧ ∀ s ∈ r.snaps, OMap.Sorted s.2

theorem Ref.WF_init : Ref.init.WF := ⟨List.Pairwise.nil, by simp [Ref.init]⟩

theorem sorted_applyR {m : OMap} (h : OMap.Sorted m) (o : ROpStaged) : OMap.Sorted (applyR m o) := by
  unfold applyR
  split
  · exact OMap.sorted_del h _
  · exact OMap.sorted_set h _ _

theorem sorted_applyAllR {m : OMap} (h : OMap.Sorted m) (ops : List ROpStaged) : OMap.Sorted (applyAllR m ops) := by
  induction ops generalizing m with
  | nil => exact h
  | cons o ops ih => exact ih (sorted_applyR h o)

theorem mem_remove {α : Type} {l : List (Nat × α)} {i : Nat} {x : Nat × α} (h : x ∈ remove l i) : x ∈ l :=
  (List.mem_filter.1 h).1

/-- what a step may do to the map and the snapshot table. -/
theorem Ref.step_wf {sn : Bool} {r : Ref} (h : r.WF) (op : ROp) : (Ref.step sn r op).1.WF := by
  obtain ⟨hm, hs⟩ := h
  cases op with
  | set k v => exact ⟨OMap.sorted_set hm _ _, hs⟩
  | del k => exact ⟨OMap.sorted_del hm _, hs⟩
  | get k => exact ⟨hm, hs⟩
  | has k => exact ⟨hm, hs⟩
  | iter asc s e => exact ⟨hm, hs⟩
  | bnew b => simp only [Ref.step]; split <;> exact ⟨hm, hs⟩
  | bset b k v =>
    simp only [Ref.step]
    split
    · exact ⟨hm, hs⟩
    · split <;> exact ⟨hm, hs⟩
  | bdel b k =>
    simp only [Ref.step]
    split
    · exact ⟨hm, hs⟩
    · split <;> exact ⟨hm, hs⟩
  | bwrite b =>
    simp only [Ref.step]
    split
    · exact ⟨hm, hs⟩
    · split
      · exact ⟨hm, hs⟩
      · exact ⟨sorted_applyAllR hm _, hs⟩
  | bclose b => simp only [Ref.step]; split <;> exact ⟨hm, hs⟩
  | snap s =>
    simp only [Ref.step]
    split
    · exact ⟨hm, hs⟩
    · split
      · refine ⟨hm, ?_⟩
        intro x hx
        rcases List.mem_append.1 hx with hx | hx
        · exact hs x hx
        · simp at hx; subst hx; exact hm
      · exact ⟨hm, hs⟩
  | sget s k => simp only [Ref.step]; split <;> exact ⟨hm, hs⟩
  | shas s k => simp only [Ref.step]; split <;> exact ⟨hm, hs⟩
  | siter s asc lo hi => simp only [Ref.step]; split <;> exact ⟨hm, hs⟩
  | sclose s =>
    simp only [Ref.step]
    split
    · exact ⟨hm, hs⟩
    · exact ⟨hm, fun x hx => hs x (mem_remove hx)⟩

theorem Ref.run_wf {sn : Bool} (ops : List ROp) {r : Ref} (h : r.WF) : (Ref.run sn r ops).1.WF := by
  induction ops generalizing r with
  | nil => exact h
  | cons op ops ih => exact ih (Ref.step_wf h op)

theorem lookup_mem {α : Type} {l : List (Nat × α)} {i : Nat} {a : α} (h : lookup l i = some a) : (i, a) ∈ l := by
  unfold lookup at h
  split at h
  · rename_i p hp
    cases h
    have h1 := List.mem_of_find?_eq_some hp
    have h2 := List.find?_some hp
    have : p.1 = i := by simpa using h2
    rw [← this]; exact h1
  · cases h

/-! ## batches never touch the map before `Write` -/

/-- staging, creating and closing batches. -/
def ROp.isStaging : ROp → Bool
  | .bnew _ | .bset _ _ _ | .bdel _ _ | .bclose _ => true
  | _ => false

theorem Ref.putBatch_m (r : Ref) (b : RBatch) : (r.putBatch b).m = r.m := rfl
theorem Ref.putBatch_snaps (r : Ref) (b : RBatch) : (r.putBatch b).snaps = r.snaps := rfl

theorem Ref.step_staging {sn : Bool} (r : Ref) (op : ROp) (h : op.isStaging = true) :
    (Ref.step sn r op).1.m = r.m ∧ (Ref.step sn r op).1.snaps = r.snaps := by
  cases op <;> simp only [ROp.isStaging, Bool.false_eq_true] at h
  · simp only [Ref.step]; split <;> exact ⟨rfl, rfl⟩
  · simp only [Ref.step]
    split
    · exact ⟨rfl, rfl⟩
    · split <;> exact ⟨rfl, rfl⟩
  · simp only [Ref.step]
    split
    · exact ⟨rfl, rfl⟩
    · split <;> exact ⟨rfl, rfl⟩
  · simp only [Ref.step]; split <;> exact ⟨rfl, rfl⟩

theorem Ref.run_staging {sn : Bool} (ops : List ROp) (r : Ref) (h : ∀ op ∈ ops, op.isStaging = true) :
    (Ref.run sn r ops).1.m = r.m ∧ (Ref.run sn r ops).1.snaps = r.snaps := by
  induction ops generalizing r with
  | nil => exact ⟨rfl, rfl⟩
  | cons op ops ih =>
    have h1 := Ref.step_staging (sn := sn) r op (h op (by simp))
    have h2 := ih (Ref.step sn r op).1 (fun o ho => h o (by simp [ho]))
    simp only [Ref.run]
    exact ⟨h2.1.trans h1.1, h2.2.trans h1.2⟩

/-! ## a batch write is the sequence of its ops -/

/-- the staged op as a direct operation on the database. -/
def ROpStaged.direct (o : ROpStaged) : ROp := if o.del then .del (some o.key) else .set (some o.key) (some o.val)

theorem Ref.run_direct {sn : Bool} (ops : List ROpStaged) (r : Ref) :
    (Ref.run sn r (ops.map ROpStaged.direct)).1 = { r with m := applyAllR r.m ops } := by
  induction ops generalizing r with
  | nil => rfl
  | cons o ops ih =>
    simp only [List.map_cons, Ref.run, applyAllR, List.foldl_cons]
    have : (Ref.step sn r o.direct).1 = { r with m := applyR r.m o } := by
      unfold ROpStaged.direct applyR
      split <;> simp [Ref.step]
    rw [this, ih]
    rfl

/-! ## snapshots are never modified -/

theorem lookup_append_of_some {α : Type} {l : List (Nat × α)} {i : Nat} {a : α} (h : lookup l i = some a)
    (l' : List (Nat × α)) : lookup (l ++ l') i = some a := by
  unfold lookup at h ⊢
  split at h
  · rename_i p hp
    rw [List.find?_append, hp]
    exact h
  · cases h

theorem lookup_remove_ne {α : Type} (l : List (Nat × α)) (i j : Nat) (h : i ≠ j) :
    lookup (remove l j) i = lookup l i := by
  induction l with
  | nil => rfl
  | cons p l ih =>
    unfold remove lookup at ih ⊢
    simp only [List.filter_cons]
    by_cases hp : p.1 = j
    · have h1 : (p.1 != j) = false := by simp [hp]
      have h2 : (p.1 == i) = false := by
        simp only [beq_eq_false_iff_ne, ne_eq]; intro h'; exact h (h'.symm.trans hp)
      simp only [h1, Bool.false_eq_true, if_false, List.find?_cons, h2]
      exact ih
    · have h1 : (p.1 != j) = true := by simp [hp]
      simp only [h1, if_true, List.find?_cons]
      by_cases h2 : (p.1 == i) = true
      · simp [h2]
      · simp only [h2]; exact ih

/-- one step keeps an existing snapshot as it is, unless it closes it. -/
theorem Ref.step_keeps_snapshot {sn : Bool} (r : Ref) (op : ROp) (s : Nat) (m0 : OMap)
    (h : lookup r.snaps s = some m0) (hop : ∀ j, op = .sclose j → j ≠ s) :
    lookup (Ref.step sn r op).1.snaps s = some m0 := by
  cases op with
  | set k v => exact h
  | del k => exact h
  | get k => exact h
  | has k => exact h
  | iter asc lo hi => exact h
  | bnew b => simp only [Ref.step]; split <;> exact h
  | bset b k v =>
    simp only [Ref.step]
    split
    · exact h
    · split <;> exact h
  | bdel b k =>
    simp only [Ref.step]
    split
    · exact h
    · split <;> exact h
  | bwrite b =>
    simp only [Ref.step]
    split
    · exact h
    · split <;> exact h
  | bclose b => simp only [Ref.step]; split <;> exact h
  | snap j =>
    simp only [Ref.step]
    split
    · exact h
    · split
      · exact lookup_append_of_some h _
      · exact h
  | sget j k => simp only [Ref.step]; split <;> exact h
  | shas j k => simp only [Ref.step]; split <;> exact h
  | siter j asc lo hi => simp only [Ref.step]; split <;> exact h
  | sclose j =>
    simp only [Ref.step]
    split
    · exact h
    · have hne : j ≠ s := hop j rfl
      show lookup (remove r.snaps j) s = some m0
      rw [lookup_remove_ne _ _ _ (Ne.symm hne)]
      exact h

theorem Ref.run_keeps_snapshot {sn : Bool} (ops : List ROp) (r : Ref) (s : Nat) (m0 : OMap)
    (h : lookup r.snaps s = some m0) (hops : ∀ op ∈ ops, ∀ j, op = .sclose j → j ≠ s) :
    lookup (Ref.run sn r ops).1.snaps s = some m0 := by
  induction ops generalizing r with
  | nil => exact h
  | cons op ops ih =>
    simp only [Ref.run]
    exact ih _ (Ref.step_keeps_snapshot r op s m0 h (hops op (by simp))) (fun o ho => hops o (by simp [ho]))

/-! ## running scripts in pieces -/

theorem Ref.run_append {sn : Bool} (a c : List ROp) (r : Ref) :
    Ref.run sn r (a ++ c) =
      ((Ref.run sn (Ref.run sn r a).1 c).1, (Ref.run sn r a).2 ++ (Ref.run sn (Ref.run sn r a).1 c).2) := by
  induction a generalizing r with
  | nil => simp [Ref.run]
  | cons op a ih =>
    simp only [List.cons_append, Ref.run]
    rw [ih]

end GnoVerif.C29
