import GnoVerif.Proofs.C20Wire
import GnoVerif.Model.C20
/-!
The reflect decoder never reports more consumed bytes than it was given
(property C20, "neither panics"): in the Go code every `slide(&bz, &n, _n)`
panics ("impossible slide") iff `_n > len(bz)`; `_n` is the count modelled by the
second component of `dec`'s result.
-/
namespace GnoVerif.C20

/-! ### canonical varints are the shortest -/

theorem encUvarint_length_le : ∀ (m v : Nat), 1 ≤ m → v < 128 ^ m → (encUvarint v).length ≤ m := by
  intro m
  induction m with
  | zero => intro v h; omega
  | succ m ih =>
    intro v _ hv
    by_cases hlt : v < 128
    · rw [encUvarint_small hlt]; simp
    · rw [encUvarint_big hlt]
      simp only [List.length_cons]
      cases m with
      | zero => simp at hv; omega
      | succ m' =>
        have : v / 128 < 128 ^ (m' + 1) := by
          rw [Nat.pow_succ] at hv
          exact Nat.div_lt_of_lt_mul (by rw [Nat.mul_comm]; exact hv)
        have := ih (v / 128) (by omega) this
        omega

/-- the value decoded from `n - i` bytes starting at shift `s` stays below `2^s * 128^(n-i)`. -/
theorem decUvarintAux_value : ∀ (bz : Bytes) (i s x v n : Nat), x < 2 ^ s →
    decUvarintAux i s x bz = some (v, n) → i < n ∧ v < 2 ^ s * 128 ^ (n - i) := by
  intro bz
  induction bz with
  | nil => intro i s x v n _ h; simp [decUvarintAux] at h
  | cons b rest ih =>
    intro i s x v n hx h
    simp only [decUvarintAux] at h
    split at h
    · simp at h
    · split at h
      · rename_i hb
        split at h
        · simp at h
        · simp only [Option.some.injEq, Prod.mk.injEq] at h
          obtain ⟨rfl, rfl⟩ := h
          refine ⟨by omega, ?_⟩
          have e : i + 1 - i = 1 := by omega
          rw [e, Nat.pow_one]
          have : b.toNat * 2 ^ s ≤ 127 * 2 ^ s := Nat.mul_le_mul_right _ (by omega)
          calc x + b.toNat * 2 ^ s < 2 ^ s + 127 * 2 ^ s := by omega
            _ = 2 ^ s * 128 := by ring
      · have hx' : x + b.toNat % 128 * 2 ^ s < 2 ^ (s + 7) := by
          have h1 : b.toNat % 128 ≤ 127 := by omega
          have : b.toNat % 128 * 2 ^ s ≤ 127 * 2 ^ s := Nat.mul_le_mul_right _ h1
          calc x + b.toNat % 128 * 2 ^ s < 2 ^ s + 127 * 2 ^ s := by omega
            _ = 2 ^ (s + 7) := by rw [Nat.pow_add]; ring
        obtain ⟨hlt, hv⟩ := ih (i + 1) (s + 7) _ v n hx' h
        refine ⟨by omega, ?_⟩
        have e : n - i = (n - (i + 1)) + 1 := by omega
        rw [e, Nat.pow_succ]
        calc v < 2 ^ (s + 7) * 128 ^ (n - (i + 1)) := hv
          _ = 2 ^ s * (128 ^ (n - (i + 1)) * 128) := by rw [Nat.pow_add]; ring

/-- the canonical size of a decoded varint never exceeds the bytes it occupied. -/
theorem uvarintSize_le {bz : Bytes} {v n : Nat} (h : decUvarint bz = some (v, n)) : uvarintSize v ≤ n := by
  obtain ⟨hpos, hv⟩ := decUvarintAux_value bz 0 0 0 v n (by norm_num) h
  simp only [Nat.pow_zero, Nat.one_mul, Nat.sub_zero] at hv
  exact encUvarint_length_le n v (by omega) hv

/-! ### primitive decoders stay inside the buffer -/

theorem decBytes_le {bz bs : Bytes} {n : Nat} (h : decBytes bz = some (bs, n)) :
    n ≤ bz.length ∧ uvarintSize bs.length + bs.length ≤ n := by
  unfold decBytes at h
  cases hu : decUvarint bz with
  | none => rw [hu] at h; simp at h
  | some p =>
    obtain ⟨count, m⟩ := p
    rw [hu] at h
    simp only at h
    split at h
    · simp at h
    · rename_i hc
      simp only [Option.some.injEq, Prod.mk.injEq] at h
      obtain ⟨rfl, rfl⟩ := h
      have hb := decUvarint_bounds hu
      have hs := uvarintSize_le hu
      simp only [List.length_drop, Nat.not_lt] at hc
      have hlen : (List.take count (List.drop m bz)).length = count := by
        rw [List.length_take, List.length_drop]; omega
      rw [hlen]
      omega

theorem decFixed_le {k : Nat} {bz : Bytes} {u n : Nat} (h : decFixed k bz = some (u, n)) : n ≤ bz.length := by
  unfold decFixed at h
  split at h
  · simp at h
  · simp only [Option.some.injEq, Prod.mk.injEq] at h
    omega

theorem decKeyRaw_le {bz : Bytes} {num t kn : Nat} (h : decKeyRaw bz = some (num, t, kn)) :
    0 < kn ∧ kn ≤ bz.length := by
  unfold decKeyRaw at h
  cases hu : decUvarint bz with
  | none => rw [hu] at h; simp at h
  | some p =>
    obtain ⟨v, m⟩ := p
    rw [hu] at h
    simp only at h
    split at h
    · simp at h
    · split at h
      · simp at h
      · simp only [Option.some.injEq, Prod.mk.injEq] at h
        obtain ⟨_, _, rfl⟩ := h
        have := decUvarint_bounds hu
        omega

theorem consumeAny_le {t : Nat} {bz : Bytes} {n : Nat} (h : consumeAny t bz = some n) : n ≤ bz.length := by
  unfold consumeAny at h
  split at h
  · cases hu : decUvarint bz with
    | none => rw [hu] at h; simp at h
    | some p => rw [hu] at h; simp at h; subst h; exact (decUvarint_bounds (v := p.1) (n := p.2) (by rw [hu])).2.1
  · cases hu : decFixed 8 bz with
    | none => rw [hu] at h; simp at h
    | some p => rw [hu] at h; simp at h; subst h; exact decFixed_le (u := p.1) (by rw [hu])
  · cases hu : decBytes bz with
    | none => rw [hu] at h; simp at h
    | some p => rw [hu] at h; simp at h; subst h; exact (decBytes_le (bs := p.1) (by rw [hu])).1
  · cases hu : decFixed 4 bz with
    | none => rw [hu] at h; simp at h
    | some p => rw [hu] at h; simp at h; subst h; exact decFixed_le (u := p.1) (by rw [hu])
  · simp at h

theorem decMaybeBare_le {bz buf : Bytes} {bare : Bool} {pn : Nat} (h : decMaybeBare bz bare = some (buf, pn)) :
    pn + buf.length ≤ bz.length := by
  unfold decMaybeBare at h
  split at h
  · simp only [Option.some.injEq, Prod.mk.injEq] at h
    obtain ⟨rfl, rfl⟩ := h
    omega
  · cases hb : decBytes bz with
    | none => rw [hb] at h; simp at h
    | some p =>
      obtain ⟨b, m⟩ := p
      rw [hb] at h
      simp only [Option.some.injEq, Prod.mk.injEq] at h
      obtain ⟨rfl, rfl⟩ := h
      have := decBytes_le hb
      omega

theorem decPrim_le {td : TD} {bz : Bytes} {bo : Bool} {v : Val} {n : Nat}
    (h : decPrim td bz bo = some (some (v, n))) : n ≤ bz.length := by
  cases td <;> simp only [decPrim] at h
  case uvar bits =>
    simp only [Option.some.injEq] at h
    split at h
    · cases bz with
      | nil => simp at h
      | cons b t => simp only [Option.some.injEq, Prod.mk.injEq] at h; obtain ⟨_, rfl⟩ := h; simp
    · cases hu : decUvarint bz with
      | none => rw [hu] at h; simp at h
      | some p =>
        obtain ⟨u, m⟩ := p
        rw [hu] at h
        have hb := (decUvarint_bounds hu).2.1
        simp only at h
        split at h
        · split at h
          · simp only [Option.some.injEq, Prod.mk.injEq] at h; omega
          · simp at h
        · simp only [Option.some.injEq, Prod.mk.injEq] at h; omega
  case svar bits =>
    simp only [Option.some.injEq, decVarint] at h
    cases hu : decUvarint bz with
    | none => rw [hu] at h; simp at h
    | some p =>
      obtain ⟨u, m⟩ := p
      rw [hu] at h
      have hb := (decUvarint_bounds hu).2.1
      simp only [Option.map_some] at h
      split at h
      · split at h
        · simp only [Option.some.injEq, Prod.mk.injEq] at h; omega
        · simp at h
      · split at h <;> (simp only [Option.some.injEq, Prod.mk.injEq] at h; omega)
  case pvar bits =>
    simp only [Option.some.injEq, decPlainVarint] at h
    cases hu : decUvarint bz with
    | none => rw [hu] at h; simp at h
    | some p =>
      obtain ⟨u, m⟩ := p
      rw [hu] at h
      have hb := (decUvarint_bounds hu).2.1
      simp only [Option.map_some] at h
      split at h
      · split at h
        · simp only [Option.some.injEq, Prod.mk.injEq] at h; omega
        · simp at h
      · simp only [Option.some.injEq, Prod.mk.injEq] at h; omega
  case fix32 s =>
    simp only [Option.some.injEq] at h
    cases hu : decFixed 4 bz with
    | none => rw [hu] at h; simp at h
    | some p =>
      rw [hu] at h
      simp only [Option.map_some, Option.some.injEq, Prod.mk.injEq] at h
      have := decFixed_le (u := p.1) (n := p.2) (by rw [hu])
      omega
  case fix64 s =>
    simp only [Option.some.injEq] at h
    cases hu : decFixed 8 bz with
    | none => rw [hu] at h; simp at h
    | some p =>
      rw [hu] at h
      simp only [Option.map_some, Option.some.injEq, Prod.mk.injEq] at h
      have := decFixed_le (u := p.1) (n := p.2) (by rw [hu])
      omega
  case bool =>
    simp only [Option.some.injEq] at h
    cases bz with
    | nil => simp [decBool] at h
    | cons b t =>
      simp only [decBool] at h
      split at h
      · simp only [Option.map_some, Option.some.injEq, Prod.mk.injEq] at h; obtain ⟨_, rfl⟩ := h; simp
      · split at h
        · simp only [Option.map_some, Option.some.injEq, Prod.mk.injEq] at h; obtain ⟨_, rfl⟩ := h; simp
        · simp at h
  case str =>
    simp only [Option.some.injEq] at h
    cases hu : decBytes bz with
    | none => rw [hu] at h; simp at h
    | some p =>
      rw [hu] at h
      simp only [Option.map_some, Option.some.injEq, Prod.mk.injEq] at h
      have := (decBytes_le (bs := p.1) (n := p.2) (by rw [hu])).1
      omega
  case bytes =>
    simp only [Option.some.injEq] at h
    split at h
    · simp only [Option.some.injEq, Prod.mk.injEq] at h; omega
    · cases hu : decBytes bz with
      | none => rw [hu] at h; simp at h
      | some p =>
        rw [hu] at h
        simp only [Option.map_some, Option.some.injEq, Prod.mk.injEq] at h
        have := (decBytes_le (bs := p.1) (n := p.2) (by rw [hu])).1
        omega
  case barr k =>
    simp only [Option.some.injEq] at h
    split at h
    · simp at h
    · cases hu : decBytes bz with
      | none => rw [hu] at h; simp at h
      | some p =>
        rw [hu] at h
        simp only at h
        split at h
        · simp only [Option.some.injEq, Prod.mk.injEq] at h
          have := (decBytes_le (bs := p.1) (n := p.2) (by rw [hu])).1
          omega
        · simp at h
  all_goals (simp at h)

end GnoVerif.C20

namespace GnoVerif.C20

theorem decSecNanos_le : ∀ (k : Nat) (bz : Bytes) (a b : Bool) (s ns : Int) (n0 : Nat) (s' ns' : Int) (n : Nat),
    decSecNanos k bz a b s ns n0 = some (s', ns', n) → n ≤ n0 + bz.length := by
  intro k
  induction k with
  | zero => intro bz a b s ns n0 s' ns' n h; simp [decSecNanos] at h
  | succ k ih =>
    intro bz a b s ns n0 s' ns' n h
    simp only [decSecNanos] at h
    split at h
    · simp only [Option.some.injEq, Prod.mk.injEq] at h; omega
    · cases hk : decKeyRaw bz with
      | none => rw [hk] at h; simp at h
      | some p =>
        obtain ⟨num, t, hn⟩ := p
        rw [hk] at h
        have hkl := (decKeyRaw_le hk).2
        simp only at h
        split at h
        · split at h
          · simp at h
          · cases hu : decUvarint (bz.drop hn) with
            | none => rw [hu] at h; simp at h
            | some q =>
              obtain ⟨sec, vn⟩ := q
              rw [hu] at h
              have := (decUvarint_bounds hu).2.1
              simp only [List.length_drop] at this
              have := ih _ _ _ _ _ _ _ _ _ h
              simp only [List.length_drop] at this
              omega
        · split at h
          · split at h
            · simp at h
            · cases hu : decUvarint (bz.drop hn) with
              | none => rw [hu] at h; simp at h
              | some q =>
                obtain ⟨nsec, vn⟩ := q
                rw [hu] at h
                have hb := (decUvarint_bounds hu).2.1
                simp only [List.length_drop] at hb
                simp only at h
                split at h
                · simp at h
                · have := ih _ _ _ _ _ _ _ _ _ h
                  simp only [List.length_drop] at this
                  omega
          · simp at h

theorem decTimeBody_le {bz : Bytes} {v : Val} {n : Nat} (h : decTimeBody bz = some (v, n)) : n ≤ bz.length := by
  unfold decTimeBody at h
  cases hs : decSecNanos 3 bz false false 0 0 0 with
  | none => rw [hs] at h; simp at h
  | some p =>
    obtain ⟨s, ns, m⟩ := p
    rw [hs] at h
    have := decSecNanos_le _ _ _ _ _ _ _ _ _ _ hs
    simp only at h
    split at h
    · simp at h
    · split at h
      · simp at h
      · simp only [Option.some.injEq, Prod.mk.injEq] at h; omega

theorem decDurBody_le {bz : Bytes} {v : Val} {n : Nat} (h : decDurBody bz = some (v, n)) : n ≤ bz.length := by
  unfold decDurBody at h
  cases hs : decSecNanos 3 bz false false 0 0 0 with
  | none => rw [hs] at h; simp at h
  | some p =>
    obtain ⟨s, ns, m⟩ := p
    rw [hs] at h
    have := decSecNanos_le _ _ _ _ _ _ _ _ _ _ hs
    simp only at h
    split at h
    · simp at h
    · split at h
      · simp at h
      · split at h
        · simp at h
        · simp only [Option.some.injEq, Prod.mk.injEq] at h; omega

/-- the statement for one fuel value. -/
def BoundsAt (env : Env) (k : Nat) : Prop :=
  (∀ td bz fnum bare bo depth v n, dec env k td bz fnum bare bo depth = some (v, n) → n ≤ bz.length) ∧
  (∀ id bz bare depth v n, decIface env k id bz bare depth = some (v, n) → n ≤ bz.length) ∧
  (∀ e bz bo depth acc n0 vs n, decPacked env k e bz bo depth acc n0 = some (vs, n) → n ≤ n0 + bz.length) ∧
  (∀ e ptr ne impl fnum bz depth acc n0 vs n,
    decUnpacked env k e ptr ne impl fnum bz depth acc n0 = some (vs, n) → n ≤ n0 + bz.length) ∧
  (∀ fs bz last depth acc n0 vs n, decFields env k fs bz last depth acc n0 = some (vs, n) → n ≤ n0 + bz.length)

end GnoVerif.C20

namespace GnoVerif.C20

theorem boundsAt_zero (env : Env) : BoundsAt env 0 := by
  refine ⟨?_, ?_, ?_, ?_, ?_⟩
  · intro td bz fnum bare bo depth v n h; simp [dec] at h
  · intro id bz bare depth v n h; simp [decIface] at h
  · intro e bz bo depth acc n0 vs n h; simp [decPacked] at h
  · intro e ptr ne impl fnum bz depth acc n0 vs n h; simp [decUnpacked] at h
  · intro fs bz last depth acc n0 vs n h; simp [decFields] at h

theorem packed_step (env : Env) (k : Nat) (ih : BoundsAt env k) :
    ∀ e bz bo depth acc n0 vs n, decPacked env (k + 1) e bz bo depth acc n0 = some (vs, n) → n ≤ n0 + bz.length := by
  obtain ⟨ihD, _, ihP, _, _⟩ := ih
  intro e bz bo depth acc n0 vs n h
  simp only [decPacked] at h
  split at h
  · simp only [Option.some.injEq, Prod.mk.injEq] at h; omega
  · cases hd : dec env k e bz 0 false bo depth with
    | none => rw [hd] at h; simp at h
    | some p =>
      obtain ⟨v, vn⟩ := p
      rw [hd] at h
      have h1 := ihD _ _ _ _ _ _ _ _ hd
      simp only at h
      split at h
      · simp at h
      · have h2 := ihP _ _ _ _ _ _ _ _ h
        simp only [List.length_drop] at h2
        omega

theorem fields_step (env : Env) (k : Nat) (ih : BoundsAt env k) :
    ∀ fs bz last depth acc n0 vs n, decFields env (k + 1) fs bz last depth acc n0 = some (vs, n) →
      n ≤ n0 + bz.length := by
  obtain ⟨ihD, _, _, _, ihF⟩ := ih
  intro fs bz last depth acc n0 vs n h
  cases fs with
  | nil =>
    simp only [decFields] at h
    split at h
    · simp only [Option.some.injEq, Prod.mk.injEq] at h; omega
    · simp at h
  | cons f fs =>
    simp only [decFields] at h
    split at h
    · exact ihF _ _ _ _ _ _ _ _ h
    · split at h
      · -- unpacked list field
        cases hk : decKeyRaw bz with
        | none => rw [hk] at h; simp at h
        | some p =>
          obtain ⟨num, t, kn⟩ := p
          rw [hk] at h
          simp only at h
          split at h
          · exact ihF _ _ _ _ _ _ _ _ h
          · cases hd : dec env k f.td bz f.num true false depth with
            | none => rw [hd] at h; simp at h
            | some q =>
              obtain ⟨v, vn⟩ := q
              rw [hd] at h
              have h1 := ihD _ _ _ _ _ _ _ _ hd
              have h2 := ihF _ _ _ _ _ _ _ _ h
              simp only [List.length_drop] at h2
              omega
      · cases hk : decKeyRaw bz with
        | none => rw [hk] at h; simp at h
        | some p =>
          obtain ⟨num, t, kn⟩ := p
          rw [hk] at h
          have hkl := (decKeyRaw_le hk).2
          simp only at h
          split at h
          · exact ihF _ _ _ _ _ _ _ _ h
          · split at h
            · split at h
              · simp at h
              · cases hc : consumeAny t (bz.drop kn) with
                | none => rw [hc] at h; simp at h
                | some cn =>
                  rw [hc] at h
                  have h1 := consumeAny_le hc
                  have h2 := ihF _ _ _ _ _ _ _ _ h
                  simp only [List.length_drop] at h1 h2
                  omega
            · split at h
              · simp at h
              · split at h
                · simp at h
                · cases hd : dec env k f.td (bz.drop kn) 0 false false depth with
                  | none => rw [hd] at h; simp at h
                  | some q =>
                    obtain ⟨v, vn⟩ := q
                    rw [hd] at h
                    have h1 := ihD _ _ _ _ _ _ _ _ hd
                    have h2 := ihF _ _ _ _ _ _ _ _ h
                    simp only [List.length_drop] at h1 h2
                    omega

end GnoVerif.C20

namespace GnoVerif.C20

theorem unpacked_step (env : Env) (k : Nat) (ih : BoundsAt env k) :
    ∀ e ptr ne impl fnum bz depth acc n0 vs n,
      decUnpacked env (k + 1) e ptr ne impl fnum bz depth acc n0 = some (vs, n) → n ≤ n0 + bz.length := by
  obtain ⟨ihD, _, _, ihU, _⟩ := ih
  intro e ptr ne impl fnum bz depth acc n0 vs n h
  simp only [decUnpacked] at h
  split at h
  · simp only [Option.some.injEq, Prod.mk.injEq] at h; omega
  · cases hk : decKeyRaw bz with
    | none => rw [hk] at h; simp at h
    | some p =>
      obtain ⟨num, t, kn⟩ := p
      rw [hk] at h
      have hkl := decKeyRaw_le hk
      simp only at h
      split at h
      · simp only [Option.some.injEq, Prod.mk.injEq] at h; omega
      · split at h
        · simp at h
        · split at h
          · simp at h
          · split at h
            · -- 0x00 element
              rename_i hz
              have h2 := ihU _ _ _ _ _ _ _ _ _ _ _ h
              simp only [List.length_drop] at h2
              have hpos : 1 ≤ (bz.drop kn).length := by
                simp only [Bool.and_eq_true] at hz
                have := hz.1
                cases hdl : bz.drop kn with
                | nil => rw [hdl] at this; simp [headZero] at this
                | cons _ _ => simp
              simp only [List.length_drop] at hpos
              omega
            · split at h
              · -- implicit struct element
                cases hb : decBytes (bz.drop kn) with
                | none => rw [hb] at h; simp at h
                | some q =>
                  obtain ⟨ibz, inn⟩ := q
                  rw [hb] at h
                  have hbl := decBytes_le hb
                  simp only at h
                  cases hk1 : decKeyRaw ibz with
                  | none => rw [hk1] at h; simp at h
                  | some r =>
                    obtain ⟨n1, t1, k1⟩ := r
                    rw [hk1] at h
                    have hk1l := decKeyRaw_le hk1
                    simp only at h
                    split at h
                    · simp at h
                    · cases hd : dec env k e (ibz.drop k1) 0 false false depth with
                      | none => rw [hd] at h; simp at h
                      | some w =>
                        obtain ⟨v, vn⟩ := w
                        rw [hd] at h
                        have h1 := ihD _ _ _ _ _ _ _ _ hd
                        simp only at h
                        split at h
                        · simp at h
                        · have h2 := ihU _ _ _ _ _ _ _ _ _ _ _ h
                          simp only [List.length_drop] at h1 h2 hbl
                          omega
              · cases hd : dec env k e (bz.drop kn) 1 false false depth with
                | none => rw [hd] at h; simp at h
                | some w =>
                  obtain ⟨v, vn⟩ := w
                  rw [hd] at h
                  have h1 := ihD _ _ _ _ _ _ _ _ hd
                  have h2 := ihU _ _ _ _ _ _ _ _ _ _ _ h
                  simp only [List.length_drop] at h1 h2
                  omega

theorem decAnyValue_le {rest value : Bytes} {n2 : Nat} (h : decAnyValue rest = some (value, n2)) :
    n2 + value.length ≤ rest.length := by
  unfold decAnyValue at h
  split at h
  · simp only [Option.some.injEq, Prod.mk.injEq] at h
    obtain ⟨rfl, rfl⟩ := h
    simp
  · cases hk : decKeyRaw rest with
    | none => rw [hk] at h; simp at h
    | some p =>
      obtain ⟨num2, t2, kn2⟩ := p
      rw [hk] at h
      have hkl := decKeyRaw_le hk
      simp only at h
      split at h
      · simp at h
      · cases hb : decBytes (rest.drop kn2) with
        | none => rw [hb] at h; simp at h
        | some q =>
          obtain ⟨val, vn⟩ := q
          rw [hb] at h
          have hbl := decBytes_le hb
          simp only [List.length_drop] at hbl
          simp only at h
          split at h
          · simp only [Option.some.injEq, Prod.mk.injEq] at h
            obtain ⟨rfl, rfl⟩ := h
            omega
          · simp at h

theorem anyValueHdr_le {env : Env} {ctd : TD} {value : Bytes} {hn : Nat} (h : anyValueHdr env ctd value = some hn) :
    hn ≤ value.length := by
  unfold anyValueHdr at h
  split at h
  · cases hk : decKeyRaw value with
    | none => rw [hk] at h; simp at h
    | some p =>
      obtain ⟨n1, t1, k1⟩ := p
      rw [hk] at h
      have := (decKeyRaw_le hk).2
      simp only at h
      split at h
      · simp at h
      · split at h
        · simp at h
        · simp only [Option.some.injEq] at h; omega
  · simp only [Option.some.injEq] at h; omega

theorem iface_step (env : Env) (k : Nat) (ih : BoundsAt env k) :
    ∀ id bz bare depth v n, decIface env (k + 1) id bz bare depth = some (v, n) → n ≤ bz.length := by
  obtain ⟨ihD, _, _, _, _⟩ := ih
  intro id bz0 bare depth v n h
  simp only [decIface] at h
  split at h
  · simp at h
  · cases hm : decMaybeBare bz0 bare with
    | none => rw [hm] at h; simp at h
    | some p =>
      obtain ⟨bz, pn⟩ := p
      rw [hm] at h
      have hml := decMaybeBare_le hm
      simp only at h
      split at h
      · simp only [Option.some.injEq, Prod.mk.injEq] at h; omega
      · cases hk : decKeyRaw bz with
        | none => rw [hk] at h; simp at h
        | some q =>
          obtain ⟨num, t, kn⟩ := q
          rw [hk] at h
          have hkl := decKeyRaw_le hk
          simp only at h
          split at h
          · simp at h
          · cases hu : decBytes (bz.drop kn) with
            | none => rw [hu] at h; simp at h
            | some r =>
              obtain ⟨url, un⟩ := r
              rw [hu] at h
              have hul := (decBytes_le hu).1
              simp only [List.length_drop] at hul
              simp only at h
              cases hv : decAnyValue (bz.drop (kn + un)) with
              | none => rw [hv] at h; simp at h
              | some w =>
                obtain ⟨value, n2⟩ := w
                rw [hv] at h
                have hvl := decAnyValue_le hv
                simp only [List.length_drop] at hvl
                simp only at h
                split at h
                · simp at h
                · cases hf : fullnameOf url with
                  | none => rw [hf] at h; simp at h
                  | some name =>
                    rw [hf] at h
                    simp only at h
                    cases he : env.find? name with
                    | none => rw [he] at h; simp at h
                    | some ent =>
                      rw [he] at h
                      simp only at h
                      split at h
                      · simp at h
                      · split at h
                        · simp only [Option.some.injEq, Prod.mk.injEq] at h; omega
                        · cases hh : anyValueHdr env (ctdOf ent name) value with
                          | none => rw [hh] at h; simp at h
                          | some hn =>
                            rw [hh] at h
                            have hhl := anyValueHdr_le hh
                            simp only at h
                            cases hd : dec env k (ctdOf ent name)
                                (value.drop hn) 1 (!!isStructOrUnpacked env (ctdOf ent name)) false depth with
                            | none => rw [hd] at h; simp at h
                            | some x =>
                              obtain ⟨cv, cn⟩ := x
                              rw [hd] at h
                              have h1 := ihD _ _ _ _ _ _ _ _ hd
                              simp only [List.length_drop] at h1
                              simp only at h
                              split at h
                              · simp at h
                              · simp only [Option.some.injEq, Prod.mk.injEq] at h; omega

end GnoVerif.C20

namespace GnoVerif.C20

theorem dec_step (env : Env) (k : Nat) (ih : BoundsAt env k) :
    ∀ td bz fnum bare bo depth v n, dec env (k + 1) td bz fnum bare bo depth = some (v, n) → n ≤ bz.length := by
  obtain ⟨ihD, ihI, ihP, ihU, ihF⟩ := ih
  intro td bz fnum bare bo depth v n h
  unfold dec at h
  cases hp : decPrim td bz bo with
  | some r =>
    rw [hp] at h
    simp only at h
    rw [h] at hp
    exact decPrim_le hp
  | none =>
    rw [hp] at h
    simp only at h
    cases td <;> simp only at h
    case time =>
      cases hm : decMaybeBare bz bare with
      | none => rw [hm] at h; simp at h
      | some p =>
        obtain ⟨buf, pn⟩ := p
        rw [hm] at h
        have hml := decMaybeBare_le hm
        simp only at h
        cases ht : decTimeBody buf with
        | none => rw [ht] at h; simp at h
        | some q =>
          rw [ht] at h
          simp only [Option.map_some, Option.some.injEq, Prod.mk.injEq] at h
          have := decTimeBody_le (v := q.1) (n := q.2) (by rw [ht])
          omega
    case dur =>
      cases hm : decMaybeBare bz bare with
      | none => rw [hm] at h; simp at h
      | some p =>
        obtain ⟨buf, pn⟩ := p
        rw [hm] at h
        have hml := decMaybeBare_le hm
        simp only at h
        cases ht : decDurBody buf with
        | none => rw [ht] at h; simp at h
        | some q =>
          rw [ht] at h
          simp only [Option.map_some, Option.some.injEq, Prod.mk.injEq] at h
          have := decDurBody_le (v := q.1) (n := q.2) (by rw [ht])
          omega
    case marsh gs r =>
      cases hd : dec env k r bz fnum bare bo depth with
      | none => rw [hd] at h; simp at h
      | some q =>
        rw [hd] at h
        simp only [Option.map_some, Option.some.injEq, Prod.mk.injEq] at h
        have := ihD _ _ _ _ _ _ _ _ (show dec env k r bz fnum bare bo depth = some (q.1, q.2) by rw [hd])
        omega
    case iface id => exact ihI _ _ _ _ _ _ h
    case list ptr ne e =>
      cases hm : decMaybeBare bz bare with
      | none => rw [hm] at h; simp at h
      | some p =>
        obtain ⟨buf, pn⟩ := p
        rw [hm] at h
        have hml := decMaybeBare_le hm
        simp only at h
        split at h
        · cases hl : decPacked env k e buf (isByteElem env e) depth [] 0 with
          | none => rw [hl] at h; simp at h
          | some q =>
            rw [hl] at h
            simp only [Option.map_some, Option.some.injEq, Prod.mk.injEq] at h
            have := ihP _ _ _ _ _ _ _ _ (show decPacked env k e buf (isByteElem env e) depth [] 0 = some (q.1, q.2) by rw [hl])
            omega
        · cases hl : decUnpacked env k e ptr ne (writeImplicit env e) fnum buf depth [] 0 with
          | none => rw [hl] at h; simp at h
          | some q =>
            rw [hl] at h
            simp only [Option.map_some, Option.some.injEq, Prod.mk.injEq] at h
            have := ihU _ _ _ _ _ _ _ _ _ _ _
              (show decUnpacked env k e ptr ne (writeImplicit env e) fnum buf depth [] 0 = some (q.1, q.2) by rw [hl])
            omega
    case ref name =>
      split at h
      · cases hm : decMaybeBare bz bare with
        | none => rw [hm] at h; simp at h
        | some p =>
          obtain ⟨buf, pn⟩ := p
          rw [hm] at h
          have hml := decMaybeBare_le hm
          simp only at h
          rename_i fs _ _
          cases hl : decFields env k fs buf 0 depth [] 0 with
          | none => rw [hl] at h; simp at h
          | some q =>
            rw [hl] at h
            simp only [Option.map_some, Option.some.injEq, Prod.mk.injEq] at h
            have := ihF _ _ _ _ _ _ _ _ (show decFields env k fs buf 0 depth [] 0 = some (q.1, q.2) by rw [hl])
            omega
      · exact ihD _ _ _ _ _ _ _ _ h
      · simp at h
    all_goals (simp at h)

/-- for every fuel, every descriptor and EVERY byte string: whatever the decoder
accepts, the consumed-byte count it reports lies within the buffer. -/
theorem boundsAt (env : Env) : ∀ k, BoundsAt env k := by
  intro k
  induction k with
  | zero => exact boundsAt_zero env
  | succ k ih =>
    exact ⟨dec_step env k ih, iface_step env k ih, packed_step env k ih, unpacked_step env k ih,
      fields_step env k ih⟩

end GnoVerif.C20
