import GnoVerif.Proofs.C27Recover
/-!
C27 helper lemmas, part 6: a state and its reopened copy behave the same.
The reopened copy differs in the volatile `initialVersion` fields (not
persisted); once a version has been committed they only guard a pruning call
that would delete nothing, so every later block produces the same batch.
-/
namespace GnoVerif.C27

/-- the one batch of a block commit, as a function of the state before. -/
def blockBatch (a : App) (c : Cache) (height : Nat) : List WOp :=
  let cb := c.b.put hdrKey (some (hdrVal height))
  let M := a.main.flush c.m
  let X := a.aux.map (fun x => Tree.flush x c.a)
  flushBase cb ++ (M.saveOps ++ a.dM c height) ++
    ((match X with | some x => x.saveOps ++ a.dX c height | none => []) ++
      metaOps a.nextVersion
        ([M.saved.info] ++ (match X with | none => [] | some x => [x.saved.info]) ++ [(.base, 0, [])]))

theorem commit_eq (a : App) (c : Cache) (height : Nat) (h : Inv a) :
    a.commit c height = .ok (afterBlock a (blockBatch a c height) (a.main.flush c.m).saved
      ((a.aux.map (fun x => Tree.flush x c.a)).map Tree.saved)) := by
  obtain ⟨dM, dX, rfl, rfl, _, _, heq⟩ := App.commit_collected a c height h
  exact heq

/-! ## rec0 commutes with everything once a version exists -/

theorem Tree.rec0_workingVersion (t : Tree) (hv : 0 < t.version) :
    t.rec0.workingVersion = t.workingVersion := by
  unfold Tree.workingVersion Tree.rec0
  have : t.version ≠ 0 := by omega
  simp [this]

theorem Tree.set_rec0 (t : Tree) (k v : Bytes) (hv : 0 < t.version) :
    t.rec0.set k v = (t.set k v).rec0 := by
  have hw := Tree.rec0_workingVersion t hv
  unfold Tree.set
  rw [hw]
  rfl

theorem Tree.remove_rec0 (t : Tree) (k : Bytes) : t.rec0.remove k = (t.remove k).rec0 := by
  unfold Tree.remove
  show (if t.kv.has k = true then _ else _) = _
  split <;> rfl

theorem Tree.flush_rec0 (t : Tree) (d : KVO) (hv : 0 < t.version) :
    t.rec0.flush d = (t.flush d).rec0 := by
  induction d generalizing t with
  | nil => rfl
  | cons e r ih =>
    simp only [Tree.flush, List.foldl_cons]
    cases he : e.2 with
    | some v =>
      simp only
      rw [Tree.set_rec0 t e.1 v hv]
      exact ih (t.set e.1 v) (by rw [Tree.set_version]; exact hv)
    | none =>
      simp only
      rw [Tree.remove_rec0]
      exact ih (t.remove e.1) (by rw [Tree.remove_version]; exact hv)

theorem Tree.saveOps_rec0 (t : Tree) (hv : 0 < t.version) : t.rec0.saveOps = t.saveOps := by
  have hw := Tree.rec0_workingVersion t hv
  unfold Tree.saveOps Tree.nextHist
  rw [hw]
  rfl

theorem Tree.saved_rec0 (t : Tree) (hv : 0 < t.version) : t.rec0.saved = t.saved.rec0 := by
  have hw := Tree.rec0_workingVersion t hv
  unfold Tree.saved Tree.nextHist
  rw [hw]
  rfl

theorem Tree.info_rec0 (t : Tree) : t.rec0.info = t.info := rfl

theorem pruneDels_congr {a b : App} (hdb : a.db = b.db) (hcoll : a.coll = b.coll) (s : SName) (to : Nat) :
    pruneDels a s to = pruneDels b s to := by
  have h1 : ∀ k, a.look k = b.look k := by
    intro k; simp only [App.look_eq, hdb, hcoll]
  unfold pruneDels
  rw [hdb]
  congr 1
  apply List.filter_congr
  intro v _
  rw [h1]

theorem pruneDels_nil_of_ge {a : App} {s : SName} {to i : Nat}
    (hge : ∀ v, (a.db.get (.root s v)).isSome = true → i ≤ v) (hlt : to < i) :
    pruneDels a s to = [] := by
  unfold pruneDels
  rw [List.map_eq_nil_iff, List.filter_eq_nil_iff]
  intro v hv
  have := hge v ((mem_rootVersions _ _ _).1 hv)
  simp only [decide_eq_true_eq, not_and]
  intro h; omega

/-- the deletes a store commit stages do not depend on `initialVersion` once
every existing root is at or above it. -/
theorem Tree.commitDels_rec0 {a r : App} (t : Tree) (hcfg : r.cfg = a.cfg) (hdb : r.db = a.db)
    (hcoll : r.coll = a.coll) (hv : 0 < t.version)
    (hge : ∀ v, (a.db.get (.root t.name v)).isSome = true → t.initialVersion ≤ v) :
    Tree.commitDels r t.rec0 = Tree.commitDels a t := by
  unfold Tree.commitDels
  rw [Tree.saved_rec0 t hv, Tree.saveOps_rec0 t hv, hcfg]
  have hname : t.rec0.name = t.name := rfl
  rw [hname]
  unfold Tree.pruneTo
  simp only [Tree.rec0, Tree.saved, ge_iff_le, Nat.zero_le, true_and]
  by_cases h1 : a.cfg.keepRecent < t.workingVersion - 1
  · simp only [h1, ↓reduceIte]
    by_cases h2 : a.cfg.keepEvery = 0 ∨ (t.workingVersion - 1 - a.cfg.keepRecent) % a.cfg.keepEvery ≠ 0
    · simp only [h2, ↓reduceIte, and_true]
      by_cases h3 : t.initialVersion ≤ t.workingVersion - 1 - a.cfg.keepRecent
      · simp only [h3, ↓reduceIte]
        apply pruneDels_congr
        · exact hdb
        · show r.coll ++ _ = a.coll ++ _
          rw [hcoll]
      · simp only [h3, ↓reduceIte]
        apply pruneDels_nil_of_ge (i := t.initialVersion)
        · intro v hv
          exact hge v (by rw [← hdb]; exact hv)
        · omega
    · simp [h2]
  · simp [h1]

/-! ## the simulation -/

/-- `r` is `a` up to the volatile fields a reopen does not restore. -/
structure Sim (a r : App) : Prop where
  cfg : r.cfg = a.cfg
  db : r.db = a.db
  coll : r.coll = a.coll
  main : r.main = a.main.rec0
  aux : r.aux = a.aux.map Tree.rec0
  lastVer : r.lastVer = a.lastVer
  lastInfo : r.lastInfo = a.lastInfo
  deliver : r.deliver = a.deliver

theorem Sim.recovered (a : App) (hd : a.deliver = none) : Sim a a.recovered :=
  ⟨rfl, rfl, rfl, rfl, rfl, rfl, rfl, by simp [App.recovered, hd]⟩

theorem TInv.rec0 {a r : App} {t : Tree} {s : SName} {f : Bool} (h : TInv a t s f)
    (hdb : r.db = a.db) (hver : r.lastVer = a.lastVer) (hpos : 0 < a.lastVer) :
    TInv r t.rec0 s f := by
  refine ⟨h.name, h.fast, h.staged, by rw [hver]; exact h.ver, ?_, ?_, ?_, ?_⟩
  · intro h0; omega
  · intro _; exact Nat.zero_le _
  · intro v hv; rw [hver]; rw [hdb] at hv; exact h.rootsLe v hv
  · intro v _; exact Nat.zero_le _

theorem Sim.inv {a r : App} (hs : Sim a r) (h : Inv a) (hpos : 0 < a.lastVer) : Inv r := by
  refine ⟨by rw [hs.cfg]; exact h.collected, by rw [hs.coll]; exact h.coll, ?_, ?_⟩
  · rw [hs.main, hs.cfg]
    exact h.main.rec0 hs.db hs.lastVer hpos
  · have := h.aux
    unfold AuxInv at this ⊢
    rw [hs.aux, hs.cfg]
    cases hax : a.aux with
    | none =>
      rw [hax] at this
      cases hcx : a.cfg.aux with
      | none => simp
      | some f => simp [hcx] at this
    | some x =>
      rw [hax] at this
      cases hcx : a.cfg.aux with
      | none => simp [hcx] at this
      | some f =>
        simp only [hcx] at this
        simpa using this.rec0 hs.db hs.lastVer hpos

theorem Sim.nextVersion {a r : App} (hs : Sim a r) (hpos : 0 < a.lastVer) :
    r.nextVersion = a.nextVersion := by
  unfold App.nextVersion
  rw [hs.lastVer]
  have : a.lastVer ≠ 0 := by omega
  simp [this]

/-! ## one block on both sides -/

section blocksim
variable {a r : App} (hs : Sim a r) (h : Inv a) (hpos : 0 < a.lastVer) (c : Cache) (height : Nat)
include hs h hpos

theorem sim_flush_main : r.main.flush c.m = (a.main.flush c.m).rec0 := by
  rw [hs.main]
  exact Tree.flush_rec0 a.main c.m (by rw [h.main.ver]; exact hpos)

theorem sim_flush_aux : r.aux.map (fun x => Tree.flush x c.a)
    = (a.aux.map (fun x => Tree.flush x c.a)).map Tree.rec0 := by
  rw [hs.aux]
  cases hax : a.aux with
  | none => rfl
  | some x =>
    obtain ⟨f, _, hX⟩ : ∃ f, a.cfg.aux = some f ∧ TInv a x .aux f := by
      have := h.aux; unfold AuxInv at this; rw [hax] at this
      cases hcx : a.cfg.aux with
      | none => simp [hcx] at this
      | some f => exact ⟨f, rfl, by simpa [hcx] using this⟩
    simp only [Option.map_some]
    rw [Tree.flush_rec0 x c.a (by rw [hX.ver]; exact hpos)]

omit hs in
theorem main_flush_version_pos : 0 < (a.main.flush c.m).version := by
  obtain ⟨_, _, hv, _, _, _⟩ := Tree.flush_keeps a.main c.m h.main.staged
  rw [hv, h.main.ver]; exact hpos

theorem sim_dM : r.dM c height = a.dM c height := by
  unfold App.dM
  have hm : (r.mw c height).main = ((a.mw c height).main).rec0 := sim_flush_main hs h hpos c
  rw [hm]
  obtain ⟨hn, _, _, hi, _, _⟩ := Tree.flush_keeps a.main c.m h.main.staged
  apply Tree.commitDels_rec0
  · exact hs.cfg
  · exact hs.db
  · rfl
  · exact main_flush_version_pos h hpos c
  · intro v hv
    show (a.main.flush c.m).initialVersion ≤ v
    rw [hi]
    apply h.main.rootsGe v
    have : (a.mw c height).main.name = .main := by
      show (a.main.flush c.m).name = .main
      rw [hn, h.main.name]
    rw [this] at hv
    exact hv

theorem sim_a3 : (r.a3 c height).cfg = (a.a3 c height).cfg ∧ (r.a3 c height).db = (a.a3 c height).db ∧
    (r.a3 c height).coll = (a.a3 c height).coll := by
  refine ⟨hs.cfg, hs.db, ?_⟩
  show (r.mw c height).coll ++ ((r.mw c height).main.saveOps ++ r.dM c height) =
    (a.mw c height).coll ++ ((a.mw c height).main.saveOps ++ a.dM c height)
  rw [sim_dM hs h hpos c height]
  have hm : (r.mw c height).main = ((a.mw c height).main).rec0 := sim_flush_main hs h hpos c
  have hvp : 0 < (a.mw c height).main.version := main_flush_version_pos h hpos c
  rw [hm, Tree.saveOps_rec0 _ hvp]
  rfl

theorem sim_dX : r.dX c height = a.dX c height := by
  unfold App.dX
  have hx : (r.mw c height).aux = ((a.mw c height).aux).map Tree.rec0 := sim_flush_aux hs h hpos c
  rw [hx]
  cases hax : a.aux with
  | none =>
    have : (a.mw c height).aux = none := by simp [App.mw, hax]
    simp [this]
  | some x =>
    obtain ⟨f, _, hX⟩ : ∃ f, a.cfg.aux = some f ∧ TInv a x .aux f := by
      have := h.aux; unfold AuxInv at this; rw [hax] at this
      cases hcx : a.cfg.aux with
      | none => simp [hcx] at this
      | some f => exact ⟨f, rfl, by simpa [hcx] using this⟩
    have : (a.mw c height).aux = some (x.flush c.a) := by simp [App.mw, hax]
    simp only [this, Option.map_some]
    obtain ⟨hn, _, hv, hi, _, _⟩ := Tree.flush_keeps x c.a hX.staged
    obtain ⟨e1, e2, e3⟩ := sim_a3 hs h hpos c height
    apply Tree.commitDels_rec0 _ e1 e2 e3
    · rw [hv, hX.ver]; exact hpos
    · intro v hv'
      rw [hi]
      apply hX.rootsGe v
      rw [hn, hX.name] at hv'
      exact hv'

theorem sim_blockBatch : blockBatch r c height = blockBatch a c height := by
  unfold blockBatch
  simp only
  rw [sim_dM hs h hpos c height, sim_dX hs h hpos c height, sim_flush_main hs h hpos c,
    sim_flush_aux hs h hpos c, hs.nextVersion hpos,
    Tree.saveOps_rec0 _ (main_flush_version_pos h hpos c),
    Tree.saved_rec0 _ (main_flush_version_pos h hpos c), Tree.info_rec0]
  cases hax : a.aux with
  | none => rfl
  | some x =>
    obtain ⟨f, _, hX⟩ : ∃ f, a.cfg.aux = some f ∧ TInv a x .aux f := by
      have := h.aux; unfold AuxInv at this; rw [hax] at this
      cases hcx : a.cfg.aux with
      | none => simp [hcx] at this
      | some f => exact ⟨f, rfl, by simpa [hcx] using this⟩
    obtain ⟨_, _, hv, _, _, _⟩ := Tree.flush_keeps x c.a hX.staged
    have hxv : 0 < (x.flush c.a).version := by rw [hv, hX.ver]; exact hpos
    simp only [Option.map_some]
    rw [Tree.saveOps_rec0 _ hxv, Tree.saved_rec0 _ hxv, Tree.info_rec0]

theorem sim_lastInfo (B B' : List WOp) :
    (afterBlock r B' (r.main.flush c.m).saved ((r.aux.map (fun x => Tree.flush x c.a)).map Tree.saved)).lastInfo
    = (afterBlock a B (a.main.flush c.m).saved ((a.aux.map (fun x => Tree.flush x c.a)).map Tree.saved)).lastInfo := by
  simp only [afterBlock]
  rw [sim_flush_main hs h hpos c, sim_flush_aux hs h hpos c,
    Tree.saved_rec0 _ (main_flush_version_pos h hpos c), Tree.info_rec0]
  cases hax : a.aux with
  | none => rfl
  | some x =>
    obtain ⟨f, _, hX⟩ : ∃ f, a.cfg.aux = some f ∧ TInv a x .aux f := by
      have := h.aux; unfold AuxInv at this; rw [hax] at this
      cases hcx : a.cfg.aux with
      | none => simp [hcx] at this
      | some f => exact ⟨f, rfl, by simpa [hcx] using this⟩
    obtain ⟨_, _, hv, _, _, _⟩ := Tree.flush_keeps x c.a hX.staged
    have hxv : 0 < (x.flush c.a).version := by rw [hv, hX.ver]; exact hpos
    simp only [Option.map_some]
    rw [Tree.saved_rec0 _ hxv, Tree.info_rec0]

/-- one block commit on a state and on its reopened copy: same batch, and the
results are again related. -/
theorem commit_sim :
    ∃ a' r', a.commit c height = .ok a' ∧ r.commit c height = .ok r' ∧ Sim a' r' ∧
      r'.lastVer = a'.lastVer ∧ r'.lastInfo = a'.lastInfo := by
  have hr : Inv r := hs.inv h hpos
  refine ⟨_, _, commit_eq a c height h, commit_eq r c height hr, ?_, ?_, ?_⟩
  · refine ⟨hs.cfg, ?_, rfl, ?_, ?_, ?_, ?_, rfl⟩
    · simp only [afterBlock]
      rw [sim_blockBatch hs h hpos c height, hs.db]
    · simp only [afterBlock]
      rw [sim_flush_main hs h hpos c, Tree.saved_rec0 _ (main_flush_version_pos h hpos c)]
    · simp only [afterBlock]
      rw [sim_flush_aux hs h hpos c]
      cases hax : a.aux with
      | none => rfl
      | some x =>
        obtain ⟨f, _, hX⟩ : ∃ f, a.cfg.aux = some f ∧ TInv a x .aux f := by
          have := h.aux; unfold AuxInv at this; rw [hax] at this
          cases hcx : a.cfg.aux with
          | none => simp [hcx] at this
          | some f => exact ⟨f, rfl, by simpa [hcx] using this⟩
        obtain ⟨_, _, hv, _, _, _⟩ := Tree.flush_keeps x c.a hX.staged
        have hxv : 0 < (x.flush c.a).version := by rw [hv, hX.ver]; exact hpos
        simp only [Option.map_some]
        rw [Tree.saved_rec0 _ hxv]
    · exact hs.nextVersion hpos
    · exact sim_lastInfo hs h hpos c _ _
  · exact hs.nextVersion hpos
  · exact sim_lastInfo hs h hpos c _ _

end blocksim

end GnoVerif.C27
