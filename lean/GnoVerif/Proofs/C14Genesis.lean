import GnoVerif.Proofs.C14Raw
/-! Helper lemmas for C14: the genesis path — `SetCoins` keeps the records well-formed
(but not the supply equation), `RecomputeSupply` establishes the full invariant. -/
namespace GnoVerif.C14
set_option linter.unusedSimpArgs false
set_option linter.unusedVariables false

theorem mem_dedup (l : List Denom) : ∀ d, d ∈ dedup l ↔ d ∈ l := by
  induction l with
  | nil => simp [dedup]
  | cons x l ih =>
    intro d
    unfold dedup
    split
    · rename_i hx
      rw [ih] at hx
      rw [ih]
      constructor
      · intro h; exact List.mem_cons_of_mem _ h
      · intro h
        rcases List.mem_cons.1 h with h | h
        · subst h; exact hx
        · exact h
    · simp [ih]

theorem nodup_dedup (l : List Denom) : (dedup l).Nodup := by
  induction l with
  | nil => simp [dedup]
  | cons x l ih =>
    unfold dedup
    split
    · exact ih
    · rename_i hx; exact List.nodup_cons.2 ⟨hx, ih⟩

theorem mem_heldDenoms (s : State) (d : Denom) :
    d ∈ heldDenoms s ↔ (∃ e ∈ s.split, e.1.2 = d) ∨ (∃ e ∈ s.accts, ∃ c ∈ e.2.coins, c.denom = d) := by
  unfold heldDenoms
  rw [mem_dedup]
  simp only [List.mem_append, List.mem_map, List.mem_flatMap]

theorem sum_map_eq_zero {α : Type} (l : List α) (f : α → Int) (h : ∀ x ∈ l, f x = 0) : (l.map f).sum = 0 := by
  induction l with
  | nil => rfl
  | cons x l ih =>
    simp [h x (by simp), ih (fun y hy => h y (List.mem_cons_of_mem _ hy))]

theorem total_eq_zero_of_not_held (s : State) (d : Denom) (h : d ∉ heldDenoms s) : total s d = 0 := by
  rw [mem_heldDenoms] at h
  have h1 : splitTotal s d = 0 := by
    unfold splitTotal
    apply sum_map_eq_zero
    intro e he
    have : ¬ e.1.2 = d := fun hd => h (Or.inl ⟨e, he, hd⟩)
    simp [this]
  have h2 : acctTotal s d = 0 := by
    unfold acctTotal
    apply sum_map_eq_zero
    intro e he
    apply sumOf_eq_zero
    intro c hc hd
    exact h (Or.inr ⟨e, he, c, hc, hd⟩)
  unfold total; omega

theorem total_nonneg {tier : Denom → Bool} {s : State} (h : WF tier s) (d : Denom) : 0 ≤ total s d := by
  have := splitTotal_nonneg h d
  have := acctTotal_nonneg h d
  unfold total; omega

theorem find_map_self (l : List Denom) (g : Denom → Int) (d : Denom) (hd : d ∈ l) :
    find (l.map (fun x => (x, g x))) d = some (g d) := by
  induction l with
  | nil => simp at hd
  | cons x l ih =>
    by_cases hx : x = d
    · subst hx; simp [find]
    · simp [find, hx]
      rcases List.mem_cons.1 hd with h | h
      · exact absurd h.symm hx
      · exact ih h

theorem map_fst_filter_map (l : List Denom) (g : Denom → Int) (p : Denom × Int → Bool) :
    ((l.map (fun x => (x, g x))).filter p).map Prod.fst = l.filter (fun x => p (x, g x)) := by
  induction l with
  | nil => rfl
  | cons x l ih =>
    simp only [List.map_cons, List.filter_cons]
    split <;> simp [ih]

/-- `RecomputeSupply` on well-formed records establishes the whole invariant. -/
theorem recomputeSupply_ok {tier : Denom → Bool} {s s' : State} (h : WF tier s)
    (hr : recomputeSupply s = (s', none)) : Inv tier s' := by
  unfold recomputeSupply at hr
  split at hr
  · rename_i hall
    have hs' : s' = { s with supply := ((heldDenoms s).map (fun d => (d, total s d))).filter (fun e => e.2 ≠ 0) } := by
      have := congrArg Prod.fst hr; simpa using this.symm
    have hnd : ((((heldDenoms s).map (fun d => (d, total s d))).filter (fun e => e.2 ≠ 0)).map Prod.fst).Nodup := by
      rw [map_fst_filter_map]
      exact (nodup_dedup _).filter _
    have htot : ∀ d, total s' d = total s d := by intro d; rw [hs']; rfl
    have hget : ∀ d, getSupply s' d = total s d := by
      intro d
      rw [hs']
      unfold getSupply
      simp only
      by_cases hz : total s d = 0
      · rw [hz]
        rw [find_none_of_not_mem]
        · rfl
        · rw [map_fst_filter_map]
          simp [hz]
      · have hheld : d ∈ heldDenoms s := by
          apply Classical.byContradiction
          intro hn; exact hz (total_eq_zero_of_not_held s d hn)
        rw [find_of_mem_nodup _ d (total s d) hnd]
        · rfl
        · simp only [List.mem_filter, List.mem_map]
          exact ⟨⟨d, hheld, rfl⟩, by simpa using hz⟩
    refine ⟨?_, ?_, ?_⟩
    · rw [hs']
      refine ⟨h.acct_key, h.acct_nodup, h.acct_num, h.acct_num_inj, h.acct_coins, h.split_pos, h.split_key,
        h.split_nodup, ?_, hnd⟩
      intro e he
      simp only [List.mem_filter, List.mem_map] at he
      obtain ⟨⟨d, hd, rfl⟩, hne⟩ := he
      have hnn := total_nonneg h d
      have hne' : total s d ≠ 0 := by simpa using hne
      refine ⟨by show 0 < total s d; omega, ?_⟩
      rw [mem_heldDenoms] at hd
      rcases hd with ⟨e, he, hd⟩ | ⟨e, he, c, hc, hd⟩
      · rw [← hd]; exact (h.split_key e he).1
      · rw [← hd]; exact (coinsValid_mem _ (h.acct_coins e he).1 c hc).1
    · intro d; rw [hget d, htot d]
    · intro d
      rw [hget d]
      by_cases hheld : d ∈ heldDenoms s
      · have := List.all_eq_true.1 hall d hheld
        simpa using this
      · rw [total_eq_zero_of_not_held s d hheld]; simp [maxInt64]
  · simp at hr

/-! ### SetCoins keeps the records well-formed -/

theorem WF_filter_split {tier : Denom → Bool} {s : State} (h : WF tier s) (p : (Addr × Denom) × Int → Bool) :
    WF tier { s with split := s.split.filter p } := by
  refine ⟨h.acct_key, h.acct_nodup, h.acct_num, h.acct_num_inj, h.acct_coins, ?_, ?_, ?_, h.supply_pos, h.supply_nodup⟩
  · intro e he; exact h.split_pos e (List.mem_filter.1 he).1
  · intro e he; exact h.split_key e (List.mem_filter.1 he).1
  · exact List.Nodup.sublist (List.Sublist.map _ List.filter_sublist) h.split_nodup


theorem WF_init (tier : Denom → Bool) : WF tier init := by
  refine ⟨?_, ?_, ?_, ?_, ?_, ?_, ?_, ?_, ?_, ?_⟩ <;> simp [init]

/-- `SetCoins` keeps every record well-formed and does not touch the supply records. -/
theorem setCoins_ok {tier : Denom → Bool} {s s' : State} {a : Addr} {amt : Coins} (h : WF tier s)
    (hr : setCoins tier s a amt = (s', none)) : WF tier s' ∧ s'.supply = s.supply := by
  unfold setCoins at hr
  by_cases hv : coinsValid amt = true
  case neg => simp [hv] at hr
  simp only [hv, Bool.not_true, Bool.false_eq_true, ↓reduceIte] at hr
  obtain ⟨hwf1, hget1, haddr1, hsplit1, hsupply1, htot1, hsome1, _⟩ := ensureAccount_spec h a
  generalize ensureAccount s a = r at hr hwf1 hget1 haddr1 hsplit1 hsupply1 htot1 hsome1
  have hspv := coinsValid_filter (fun c => !tier c.denom) amt hv
  have hacv := coinsValid_filter (fun c => tier c.denom) amt hv
  have hspm := coinsValid_mem _ hspv
  have hgx : getAcct r.2 ({ r.1 with coins := amt.filter (fun c => tier c.denom) } : Account).addr = some r.1 := by
    show getAcct r.2 r.1.addr = some r.1
    rw [haddr1]; exact hget1
  have hwf2 : WF tier (setAccount r.2 { r.1 with coins := amt.filter (fun c => tier c.denom) }) :=
    WF_setAccount_existing hwf1 _ r.1 hgx rfl hacv (by
      intro c hc; have := (List.mem_filter.1 hc).2; simpa using this)
  have hwf3 := WF_filter_split hwf2 (fun e => decide (e.1.1 ≠ a))
  have hfold : ∀ (sp : Coins) (st : State),
      sp.foldl (fun st c => setSplit st a c.denom c.amount) st = writeSplits st a (sp.map (fun c => (c.denom, c.amount))) := by
    intro sp
    induction sp with
    | nil => intro st; rfl
    | cons c sp ih => intro st; simp [ih]
  have hs' : s' = writeSplits
      { setAccount r.2 { r.1 with coins := amt.filter (fun c => tier c.denom) } with
        split := (setAccount r.2 { r.1 with coins := amt.filter (fun c => tier c.denom) }).split.filter (fun e => decide (e.1.1 ≠ a)) }
      a ((amt.filter (fun c => !tier c.denom)).map (fun c => (c.denom, c.amount))) := by
    have := congrArg Prod.fst hr
    simp only at this
    rw [← this, hfold]
  rw [hs']
  refine ⟨?_, ?_⟩
  · refine WF_writeSplits hwf3 a _ ?_ ?_
    · intro w hw
      simp only [List.mem_map] at hw
      obtain ⟨c, hc, rfl⟩ := hw
      have h1 := hspm c hc
      have h3 : tier c.denom = false := by
        have := (List.mem_filter.1 hc).2
        simpa using this
      exact ⟨by show 0 ≤ c.amount; omega, h1.1, h3⟩
    · intro _
      show (getAcct (setAccount r.2 { r.1 with coins := amt.filter (fun c => tier c.denom) }) a).isSome = true
      rw [getAcct_setAccount]
      simp [haddr1]
  · rw [(writeSplits_frame _ _ _).2.1]
    simp [hsupply1]

theorem setCoinsAll_ok {tier : Denom → Bool} {s s' : State} {bals : List (Addr × Coins)} (h : WF tier s)
    (hr : setCoinsAll tier s bals = (s', none)) : WF tier s' := by
  induction bals generalizing s with
  | nil => simp [setCoinsAll] at hr; subst hr; exact h
  | cons e bals ih =>
    obtain ⟨a, cs⟩ := e
    unfold setCoinsAll at hr
    cases h1 : setCoins tier s a cs with
    | mk s1 r1 =>
      rw [h1] at hr
      cases r1 with
      | some e => simp at hr
      | none => exact ih (setCoins_ok h h1).1 hr

/-- a successful genesis (SetCoins for every balance, then RecomputeSupply) ends in a
state satisfying the invariant. -/
theorem genesis_ok {tier : Denom → Bool} {s : State} {bals : List (Addr × Coins)}
    (hr : genesis tier bals = (s, none)) : Inv tier s := by
  unfold genesis at hr
  cases h1 : setCoinsAll tier init bals with
  | mk s1 r1 =>
    rw [h1] at hr
    cases r1 with
    | some e => simp at hr
    | none => exact recomputeSupply_ok (setCoinsAll_ok (WF_init tier) h1) hr

end GnoVerif.C14
