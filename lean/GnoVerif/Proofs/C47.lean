import GnoVerif.Model.C47
/-!
Helper lemmas for C47: lengths of the cipher models' outputs, XOR involution,
round trip of the executable ChaCha20-Poly1305 and secretbox models, and the
wrapper-level facts.
-/
namespace GnoVerif.C47

/-! ### lengths -/

theorem le32Bytes_length (x : UInt32) : (le32Bytes x).length = 4 := rfl

theorem leBytes_length (n x : Nat) : (leBytes n x).length = n := by
  simp [leBytes]

theorem chachaBlock_length (key : Bytes) (c : UInt32) (nonce : Bytes) :
    (chachaBlock key c nonce).length = 64 := by
  simp [chachaBlock, le32Bytes]

theorem chachaBlocks_length (key nonce : Bytes) (c n : Nat) :
    (chachaBlocks key nonce c n).length = 64 * n := by
  induction n generalizing c with
  | zero => simp [chachaBlocks]
  | succ n ih => simp [chachaBlocks, chachaBlock_length, ih]; omega

theorem chachaStream_length (key nonce : Bytes) (c n : Nat) :
    (chachaStream key nonce c n).length = n := by
  simp only [chachaStream, List.length_take, chachaBlocks_length]
  omega

theorem salsaBlock_length (key nonce : Bytes) (c : Nat) :
    (salsaBlock key nonce c).length = 64 := by
  simp [salsaBlock, le32Bytes]

theorem salsaBlocks_length (key nonce : Bytes) (c n : Nat) :
    (salsaBlocks key nonce c n).length = 64 * n := by
  induction n generalizing c with
  | zero => simp [salsaBlocks]
  | succ n ih => simp [salsaBlocks, salsaBlock_length, ih]; omega

theorem xsalsaStream_length (key nonce : Bytes) (n : Nat) :
    (xsalsaStream key nonce n).length = n := by
  simp only [xsalsaStream, List.length_take, salsaBlocks_length]
  omega

theorem poly1305_length (key msg : Bytes) : (poly1305 key msg).length = 16 := by
  simp [poly1305, leBytes_length]

theorem hChaCha20_length (key nonce : Bytes) : (hChaCha20 key nonce).length = 32 := by
  simp [hChaCha20, le32Bytes]

/-! ### XOR with a keystream is an involution -/

theorem xorBytes_length (a ks : Bytes) : (xorBytes a ks).length = min a.length ks.length := by
  simp [xorBytes]

theorem xorBytes_xorBytes (a ks : Bytes) (h : a.length ≤ ks.length) :
    xorBytes (xorBytes a ks) ks = a := by
  induction a generalizing ks with
  | nil => simp [xorBytes]
  | cons x xs ih =>
    cases ks with
    | nil => simp at h
    | cons k ks =>
      simp only [xorBytes, List.zipWith_cons_cons, List.cons.injEq]
      constructor
      · rw [UInt8.xor_assoc, UInt8.xor_self, UInt8.xor_zero]
      · exact ih ks (by simpa using h)

theorem chachaXor_length (key nonce : Bytes) (c : Nat) (d : Bytes) :
    (chachaXor key nonce c d).length = d.length := by
  simp [chachaXor, xorBytes_length, chachaStream_length]

theorem chachaXor_chachaXor (key nonce : Bytes) (c : Nat) (d : Bytes) :
    chachaXor key nonce c (chachaXor key nonce c d) = d := by
  have hl := chachaXor_length key nonce c d
  unfold chachaXor at hl ⊢
  rw [hl]
  exact xorBytes_xorBytes _ _ (by simp [chachaStream_length])

/-! ### the executable AEAD models round-trip -/

theorem chachaPolySeal_length (key nonce pt ad : Bytes) :
    (chachaPolySeal key nonce pt ad).length = pt.length + 16 := by
  simp [chachaPolySeal, chachaXor_length, poly1305_length]

theorem chachaPoly_open_seal (key nonce pt ad : Bytes) :
    chachaPolyOpen key nonce (chachaPolySeal key nonce pt ad) ad = some pt := by
  have hlen := chachaPolySeal_length key nonce pt ad
  unfold chachaPolyOpen
  rw [hlen]
  have h1 : ¬ (pt.length + 16 < tagSize) := by simp [tagSize]
  rw [if_neg h1]
  have hsub : pt.length + 16 - tagSize = (chachaXor key nonce 1 pt).length := by
    simp [tagSize, chachaXor_length]
  simp only [hsub]
  unfold chachaPolySeal
  simp only [List.take_left', List.drop_left']
  simp [chachaXor_chachaXor]

theorem secretboxSeal_length (msg nonce key : Bytes) :
    (secretboxSeal msg nonce key).length = msg.length + 16 := by
  simp [secretboxSeal, poly1305_length, xorBytes_length, xsalsaStream_length]
  omega

theorem secretbox_open_seal (msg nonce key : Bytes) :
    secretboxOpen (secretboxSeal msg nonce key) nonce key = some msg := by
  have hlen := secretboxSeal_length msg nonce key
  unfold secretboxOpen
  rw [hlen]
  have h1 : ¬ (msg.length + 16 < tagSize) := by simp [tagSize]
  rw [if_neg h1]
  have hct : (xorBytes msg ((xsalsaStream key nonce (32 + msg.length)).drop 32)).length = msg.length := by
    simp [xorBytes_length, xsalsaStream_length]
  have htag : tagSize = (poly1305 ((xsalsaStream key nonce (32 + msg.length)).take 32)
      (xorBytes msg ((xsalsaStream key nonce (32 + msg.length)).drop 32))).length := by
    simp [tagSize, poly1305_length]
  unfold secretboxSeal
  simp only []
  rw [htag]
  simp only [List.take_left', List.drop_left', hct]
  simp only [if_true]
  congr 1
  exact xorBytes_xorBytes _ _ (by simp [xsalsaStream_length])

theorem chachaPoly_roundTrip : chachaPoly.RoundTrip := by
  intro key nonce pt ad
  simp only [chachaPoly]
  exact chachaPoly_open_seal key nonce pt ad

theorem tagSize_gen : Gen.C47.TagSize.toNat = 16 := by decide

theorem chachaPoly_sealLen : chachaPoly.SealLen := by
  intro key nonce pt ad
  simp only [chachaPoly, tagSize_gen]
  exact chachaPolySeal_length key nonce pt ad

theorem secretbox_roundTrip : secretbox.RoundTrip := by
  intro msg nonce key
  simp only [secretbox]
  exact secretbox_open_seal msg nonce key

theorem secretbox_sealLen : secretbox.SealLen := by
  intro msg nonce key
  simp only [secretbox, boxOverhead]
  exact secretboxSeal_length msg nonce key

/-! ### the regenerated constants -/

theorem nonceSize_eq : nonceSize = 24 := by decide
theorem keySize_eq : keySize = 32 := by decide
theorem maxPlaintextSize_eq : maxPlaintextSize = 2^38 - 64 := by decide
theorem maxCiphertextSize_eq : maxCiphertextSize = 2^38 - 48 := by decide
theorem nonceLen_eq : nonceLen = 24 := by decide
theorem secretLen_eq : secretLen = 32 := by decide

/-! ### list splitting -/

theorem drop_append_len (n : Nat) (a b : Bytes) (h : a.length = n) : (a ++ b).drop n = b := by
  subst h; simp

theorem take_append_len (n : Nat) (a b : Bytes) (h : a.length = n) : (a ++ b).take n = a := by
  subst h; simp

theorem take_self_len (n : Nat) (a : Bytes) (h : a.length = n) : a.take n = a := by
  subst h; simp

end GnoVerif.C47
